import Bng.Model.TokenBucket
import Mathlib.Tactic.Linarith
/-
  Helper lemmas for C19: `token_bucket_check` characterised in ℕ, the potential argument for the upper
  bound, the conservation argument for the lower bound.
-/
namespace Bng.TokenBucket

/-! ## `check` in ℕ -/

/-- token level after refill and cap, as the machine computes it -/
def t2U (b : Bucket) (now : UInt64) : UInt64 :=
  let t1 := b.tokens + ((now - b.last) * (b.rate / 8)) / NS
  if t1 > b.burst.toUInt64 then b.burst.toUInt64 else t1

theorem check_eq (b : Bucket) (now : UInt64) (len : UInt32) (hr : b.rate ≠ 0) :
    check b now len =
      if t2U b now ≥ len.toUInt64 then ({ b with tokens := t2U b now - len.toUInt64, last := now }, true)
      else ({ b with tokens := t2U b now, last := now }, false) := by
  unfold check t2U
  simp only [hr, if_false]

/-- the tokens credited by one refill: `⌊((now − last) mod 2^64 · (rate/8) mod 2^64) / 10⁹⌋` -/
def newTok (b : Bucket) (now : UInt64) : Nat :=
  ((2 ^ 64 - b.last.toNat + now.toNat) % 2 ^ 64 * (b.rate.toNat / 8) % 2 ^ 64) / 1000000000

/-- the token level after refill and cap, in ℕ -/
def refill (b : Bucket) (now : UInt64) : Nat :=
  min ((b.tokens.toNat + newTok b now) % 2 ^ 64) b.burst.toNat

theorem t2U_toNat (b : Bucket) (now : UInt64) : (t2U b now).toNat = refill b now := by
  unfold t2U refill newTok
  have h1 : NS.toNat = 1000000000 := rfl
  have h2 : (8 : UInt64).toNat = 8 := rfl
  simp only []
  split
  · rename_i h
    rw [gt_iff_lt, UInt64.lt_iff_toNat_lt] at h
    simp only [UInt32.toNat_toUInt64, UInt64.toNat_add, UInt64.toNat_div, UInt64.toNat_mul,
      UInt64.toNat_sub, h1, h2] at h ⊢
    omega
  · rename_i h
    rw [gt_iff_lt, UInt64.lt_iff_toNat_lt] at h
    simp only [UInt32.toNat_toUInt64, UInt64.toNat_add, UInt64.toNat_div, UInt64.toNat_mul,
      UInt64.toNat_sub, h1, h2] at h ⊢
    omega

theorem refill_le_burst (b : Bucket) (now : UInt64) : refill b now ≤ b.burst.toNat := by
  unfold refill; omega

/-- everything one call does, in ℕ -/
theorem check_spec (b : Bucket) (now : UInt64) (len : UInt32) (hr : b.rate ≠ 0) :
    (check b now len).1.rate = b.rate ∧ (check b now len).1.burst = b.burst ∧
    (check b now len).1.last = now ∧ (check b now len).1.prio = b.prio ∧ (check b now len).1.pad = b.pad ∧
    (check b now len).2 = decide (len.toNat ≤ refill b now) ∧
    (check b now len).1.tokens.toNat + (if (check b now len).2 then len.toNat else 0) = refill b now := by
  rw [check_eq b now len hr]
  have ht := t2U_toNat b now
  by_cases h : t2U b now ≥ len.toUInt64
  · have h' := h
    rw [ge_iff_le, UInt64.le_iff_toNat_le, UInt32.toNat_toUInt64, ht] at h'
    simp only [h, if_true, true_and, decide_eq_true h']
    rw [UInt64.toNat_sub_of_le _ _ h, UInt32.toNat_toUInt64, ht]
    omega
  · have h' := h
    rw [ge_iff_le, UInt64.le_iff_toNat_le, UInt32.toNat_toUInt64, ht] at h'
    simp only [h, if_false, true_and, decide_eq_false h', ht]
    simp

/-- with a clock that did not run backwards and a bucket not above its burst, nothing wraps except the product -/
theorem refill_of_le (b : Bucket) (now : UInt64) (hl : b.last ≤ now) (ht : b.tokens.toNat ≤ b.burst.toNat) :
    refill b now = min (b.tokens.toNat + newTok b now) b.burst.toNat ∧
    newTok b now = ((now.toNat - b.last.toNat) * (b.rate.toNat / 8) % 2 ^ 64) / 1000000000 := by
  rw [UInt64.le_iff_toNat_le] at hl
  have hb : b.burst.toNat < 2 ^ 32 := b.burst.toNat_lt
  have hn : now.toNat < 2 ^ 64 := now.toNat_lt
  have e : (2 ^ 64 - b.last.toNat + now.toNat) % 2 ^ 64 = now.toNat - b.last.toNat := by omega
  have hnew : newTok b now = ((now.toNat - b.last.toNat) * (b.rate.toNat / 8) % 2 ^ 64) / 1000000000 := by
    unfold newTok; rw [e]
  refine ⟨?_, hnew⟩
  unfold refill
  have : newTok b now < 2 ^ 35 := by
    rw [hnew]
    have : (now.toNat - b.last.toNat) * (b.rate.toNat / 8) % 2 ^ 64 < 2 ^ 64 := Nat.mod_lt _ (by decide)
    omega
  rw [Nat.mod_eq_of_lt (by omega)]

theorem newTok_le (b : Bucket) (now : UInt64) (hl : b.last ≤ now) (ht : b.tokens.toNat ≤ b.burst.toNat) :
    newTok b now ≤ (now.toNat - b.last.toNat) * (b.rate.toNat / 8) / 1000000000 := by
  rw [(refill_of_le b now hl ht).2]
  exact Nat.div_le_div_right (Nat.mod_le _ _)

/-! ## runs -/

theorem runBucket_cons (b : Bucket) (a : Arrival) (rest : List Arrival) :
    runBucket b (a :: rest) =
      ((runBucket (check b a.t a.len).1 rest).1, (check b a.t a.len).2 :: (runBucket (check b a.t a.len).1 rest).2) := by
  simp [runBucket]

theorem runBucket_append (b : Bucket) (xs ys : List Arrival) :
    runBucket b (xs ++ ys) =
      ((runBucket (runBucket b xs).1 ys).1, (runBucket b xs).2 ++ (runBucket (runBucket b xs).1 ys).2) := by
  induction xs generalizing b with
  | nil => simp [runBucket]
  | cons a rest ih =>
    rw [List.cons_append, runBucket_cons, runBucket_cons, ih]
    simp

theorem runBucket_length (b : Bucket) (xs : List Arrival) : (runBucket b xs).2.length = xs.length := by
  induction xs generalizing b with
  | nil => simp [runBucket]
  | cons a rest ih => rw [runBucket_cons]; simp [ih]

theorem runBucket_rate (b : Bucket) (xs : List Arrival) :
    (runBucket b xs).1.rate = b.rate ∧ (runBucket b xs).1.burst = b.burst := by
  induction xs generalizing b with
  | nil => simp [runBucket]
  | cons a rest ih =>
    rw [runBucket_cons]
    by_cases hr : b.rate = 0
    · have : check b a.t a.len = (b, true) := by unfold check; simp [hr]
      rw [this]; exact ih b
    · obtain ⟨h1, h2, _⟩ := check_spec b a.t a.len hr
      have := ih (check b a.t a.len).1
      rw [h1, h2] at this
      exact this

/-! ## upper bound: the potential `admitted + tokens ≤ tokens₀ + earned` -/

theorem div_add_div_le (x y n : Nat) : x / n + y / n ≤ (x + y) / n := by
  rcases Nat.eq_zero_or_pos n with h | h
  · subst h; simp
  · rw [Nat.le_div_iff_mul_le h, Nat.add_mul]
    have h1 := Nat.div_mul_le_self x n
    have h2 := Nat.div_mul_le_self y n
    omega

theorem lastT_ge (p : UInt64) (rest : List Arrival) (hs : SortedFrom p rest) : p ≤ lastT p rest := by
  induction rest generalizing p with
  | nil => exact UInt64.le_refl p
  | cons a rest ih =>
    exact UInt64.le_trans hs.1 (ih a.t hs.2)

theorem potential (rest : List Arrival) (c : Bucket) (hr : c.rate ≠ 0) (ht : c.tokens.toNat ≤ c.burst.toNat)
    (hs : SortedFrom c.last rest) :
    admitted rest (runBucket c rest).2 + (runBucket c rest).1.tokens.toNat ≤
      c.tokens.toNat + ((lastT c.last rest).toNat - c.last.toNat) * (c.rate.toNat / 8) / 1000000000 := by
  induction rest generalizing c with
  | nil => simp [runBucket, admitted, lastT]
  | cons a rest ih =>
    rw [runBucket_cons]
    obtain ⟨h1, h2, h3, _, _, _, h7⟩ := check_spec c a.t a.len hr
    have hrf := (refill_of_le c a.t hs.1 ht).1
    have hnt := newTok_le c a.t hs.1 ht
    have hrb := refill_le_burst c a.t
    set c' := (check c a.t a.len).1 with hc'
    have hr' : c'.rate ≠ 0 := by rw [h1]; exact hr
    have ht' : c'.tokens.toNat ≤ c'.burst.toNat := by rw [h2]; omega
    have hs' : SortedFrom c'.last rest := by rw [h3]; exact hs.2
    have := ih c' hr' ht' hs'
    rw [h3, h1] at this
    simp only [admitted, lastT]
    have hle1 : c.last.toNat ≤ a.t.toNat := UInt64.le_iff_toNat_le.mp hs.1
    have hle2 : a.t.toNat ≤ (lastT a.t rest).toNat := UInt64.le_iff_toNat_le.mp (lastT_ge a.t rest hs.2)
    have hsum := div_add_div_le ((a.t.toNat - c.last.toNat) * (c.rate.toNat / 8))
      (((lastT a.t rest).toNat - a.t.toNat) * (c.rate.toNat / 8)) 1000000000
    have hmul : (a.t.toNat - c.last.toNat) * (c.rate.toNat / 8) + ((lastT a.t rest).toNat - a.t.toNat) * (c.rate.toNat / 8)
        = ((lastT a.t rest).toNat - c.last.toNat) * (c.rate.toNat / 8) := by
      rw [← Nat.add_mul]; congr 1; omega
    rw [hmul] at hsum
    omega

/-! ## lower bound: conservation while the subscriber is backlogged -/

theorem lossOf_eq (rate g : Nat) :
    SCALE * ((g * (rate / 8)) % 2 ^ 64 / 1000000000) + lossOf rate g = g * rate := by
  unfold lossOf
  have h1 : (g * (rate / 8)) % 2 ^ 64 / 1000000000 * 1000000000 ≤ (g * (rate / 8)) % 2 ^ 64 := Nat.div_mul_le_self _ _
  have h2 : (g * (rate / 8)) % 2 ^ 64 ≤ g * (rate / 8) := Nat.mod_le _ _
  have h3 : g * (rate / 8) * 8 ≤ g * rate := by
    rw [Nat.mul_assoc]; exact Nat.mul_le_mul_left g (Nat.div_mul_le_self rate 8)
  have : SCALE * ((g * (rate / 8)) % 2 ^ 64 / 1000000000) ≤ g * rate := by
    unfold SCALE; omega
  omega

/-- the state the bucket is in right after an arrival of `plen` bytes was judged: either it was admitted
    (room for `plen` below the burst) or dropped (fewer than `plen` tokens) -/
def AfterOffer (c : Bucket) (plen : Nat) : Prop :=
  c.tokens.toNat + plen ≤ c.burst.toNat ∨ c.tokens.toNat < plen

theorem afterOffer_check (b : Bucket) (now : UInt64) (len : UInt32) (hr : b.rate ≠ 0) :
    AfterOffer (check b now len).1 len.toNat := by
  obtain ⟨_, h2, _, _, _, h6, h7⟩ := check_spec b now len hr
  have hrb := refill_le_burst b now
  unfold AfterOffer
  rw [h2]
  by_cases h : len.toNat ≤ refill b now
  · rw [h6, decide_eq_true h] at h7; simp at h7; left; omega
  · rw [h6, decide_eq_false h] at h7; simp at h7; right; omega

theorem backlogged_sorted {rate burst : Nat} {p : Arrival} {rest : List Arrival}
    (h : Backlogged rate burst p rest) : SortedFrom p.t rest := by
  induction rest generalizing p with
  | nil => trivial
  | cons x xs ih => exact ⟨h.1, ih h.2.2⟩

theorem conservation (rest : List Arrival) (p : Arrival) (c : Bucket) (hr : c.rate ≠ 0) (hl : c.last = p.t)
    (ha : AfterOffer c p.len.toNat) (htb : c.tokens.toNat ≤ c.burst.toNat)
    (hb : Backlogged c.rate.toNat c.burst.toNat p rest) :
    SCALE * admitted rest (runBucket c rest).2 + SCALE * (runBucket c rest).1.tokens.toNat + lossSum c.rate.toNat p rest
      = SCALE * c.tokens.toNat + ((lastT p.t rest).toNat - p.t.toNat) * c.rate.toNat := by
  induction rest generalizing p c with
  | nil => simp [runBucket, admitted, lastT, lossSum]
  | cons a rest ih =>
    rw [runBucket_cons]
    obtain ⟨hle, hgap, hrest⟩ := hb
    obtain ⟨h1, h2, h3, _, _, _, h7⟩ := check_spec c a.t a.len hr
    have hlast : c.last ≤ a.t := by rw [hl]; exact hle
    obtain ⟨hrf, hnew⟩ := refill_of_le c a.t hlast htb
    have hloss := lossOf_eq c.rate.toNat (a.t.toNat - p.t.toNat)
    have hlt : c.last.toNat = p.t.toNat := by rw [hl]
    rw [hlt] at hnew
    rw [← hnew] at hloss
    -- the gap cannot overflow the bucket
    unfold backloggedGap at hgap
    simp only [Bool.and_eq_true, decide_eq_true_eq] at hgap
    obtain ⟨hg1, hg2⟩ := hgap
    have hN : SCALE * newTok c a.t ≤ (a.t.toNat - p.t.toNat) * c.rate.toNat := by omega
    have hcap : c.tokens.toNat + newTok c a.t ≤ c.burst.toNat := by
      have hS : (0 : Nat) < SCALE := by decide
      have e1 : SCALE * newTok c a.t ≤ p.len.toNat * SCALE := le_trans hN hg1
      have e2 : p.len.toNat * SCALE + SCALE * newTok c a.t ≤ c.burst.toNat * SCALE := by omega
      rcases ha with ha | ha
      · have : newTok c a.t ≤ p.len.toNat := by
          rw [Nat.mul_comm] at e1; exact Nat.le_of_mul_le_mul_right e1 hS
        omega
      · have : p.len.toNat + newTok c a.t ≤ c.burst.toNat := by
          have : (p.len.toNat + newTok c a.t) * SCALE ≤ c.burst.toNat * SCALE := by
            rw [Nat.add_mul, Nat.mul_comm (newTok c a.t)]; exact e2
          exact Nat.le_of_mul_le_mul_right this hS
        omega
    rw [Nat.min_eq_left hcap] at hrf
    set c' := (check c a.t a.len).1 with hc'
    have hr' : c'.rate ≠ 0 := by rw [h1]; exact hr
    have hrb := refill_le_burst c a.t
    have htb' : c'.tokens.toNat ≤ c'.burst.toNat := by rw [h2]; omega
    have ha' : AfterOffer c' a.len.toNat := afterOffer_check c a.t a.len hr
    have hb' : Backlogged c'.rate.toNat c'.burst.toNat a rest := by rw [h1, h2]; exact hrest
    have := ih a c' hr' h3 ha' htb' hb'
    rw [h1] at this
    simp only [admitted, lastT, lossSum]
    have hle1 : p.t.toNat ≤ a.t.toNat := UInt64.le_iff_toNat_le.mp hle
    have hsr : SortedFrom a.t rest := backlogged_sorted hrest
    have hle2 : a.t.toNat ≤ (lastT a.t rest).toNat := UInt64.le_iff_toNat_le.mp (lastT_ge a.t rest hsr)
    have hmul : (a.t.toNat - p.t.toNat) * c.rate.toNat + ((lastT a.t rest).toNat - a.t.toNat) * c.rate.toNat
        = ((lastT a.t rest).toNat - p.t.toNat) * c.rate.toNat := by
      rw [← Nat.add_mul]; congr 1; omega
    have h7' : SCALE * c'.tokens.toNat + SCALE * (if (check c a.t a.len).2 then a.len.toNat else 0)
        = SCALE * c.tokens.toNat + SCALE * newTok c a.t := by
      rw [← Nat.mul_add, ← Nat.mul_add, h7, hrf]
    rw [Nat.mul_add]
    omega

/-! ## starvation (D52) -/

/-- `n` polls with a fixed gap and size, starting one gap after `t` -/
def polls : Nat → UInt64 → UInt64 → UInt32 → List Arrival
  | 0, _, _, _ => []
  | n + 1, t, g, len => { t := t + g, len := len } :: polls n (t + g) g len

theorem starves (n : Nat) (c : Bucket) (g : UInt64) (len : UInt32) (hr : c.rate ≠ 0)
    (hempty : c.tokens.toNat < len.toNat) (hb : c.tokens.toNat ≤ c.burst.toNat)
    (hfast : g.toNat * (c.rate.toNat / 8) < 1000000000)
    (hclk : c.last.toNat + n * g.toNat < 2 ^ 64) :
    (runBucket c (polls n c.last g len)).2 = List.replicate n false ∧
    (runBucket c (polls n c.last g len)).1.tokens = c.tokens := by
  induction n generalizing c with
  | zero => simp [polls, runBucket]
  | succ n ih =>
    simp only [polls]
    rw [runBucket_cons]
    simp only []
    have hadd : (c.last + g).toNat = c.last.toNat + g.toNat := by
      rw [UInt64.toNat_add]; apply Nat.mod_eq_of_lt
      have : g.toNat ≤ (n + 1) * g.toNat := Nat.le_mul_of_pos_left _ (by omega)
      omega
    have hle : c.last ≤ c.last + g := by rw [UInt64.le_iff_toNat_le, hadd]; omega
    obtain ⟨h1, h2, h3, _, _, h6, h7⟩ := check_spec c (c.last + g) len hr
    obtain ⟨hrf, hnew⟩ := refill_of_le c (c.last + g) hle hb
    have hz : newTok c (c.last + g) = 0 := by
      rw [hnew, hadd, Nat.add_sub_cancel_left]
      have : g.toNat * (c.rate.toNat / 8) % 2 ^ 64 ≤ g.toNat * (c.rate.toNat / 8) := Nat.mod_le _ _
      exact Nat.div_eq_of_lt (by omega)
    rw [hz, Nat.add_zero, Nat.min_eq_left hb] at hrf
    have hdrop : (check c (c.last + g) len).2 = false := by
      rw [h6, hrf]; exact decide_eq_false (by omega)
    rw [hdrop] at h7
    simp only [Bool.false_eq_true, if_false, Nat.add_zero] at h7
    have htok : (check c (c.last + g) len).1.tokens = c.tokens := by
      apply UInt64.toNat_inj.mp; rw [h7, hrf]
    set c' := (check c (c.last + g) len).1 with hc'
    have hr' : c'.rate ≠ 0 := by rw [h1]; exact hr
    have := ih c' hr' (by rw [htok]; exact hempty) (by rw [htok, h2]; exact hb) (by rw [h1]; exact hfast)
      (by rw [h3, hadd]; have : (n + 1) * g.toNat = n * g.toNat + g.toNat := Nat.succ_mul n g.toNat
          omega)
    rw [h3] at this
    rw [hdrop, this.1, this.2, htok]
    exact ⟨rfl, rfl⟩

/-! ## bytes -/

theorem length_leBytes (w n : Nat) : (leBytes w n).length = w := by
  induction w generalizing n with
  | zero => rfl
  | succ w ih => simp [leBytes, ih]

theorem leNat_leBytes (w n : Nat) : leNat (leBytes w n) = n % 256 ^ w := by
  induction w generalizing n with
  | zero => simp [leBytes, leNat, Nat.mod_one]
  | succ w ih =>
    simp only [leBytes, leNat, ih]
    have : (UInt8.ofNat (n % 256)).toNat = n % 256 := by
      simp [UInt8.toNat_ofNat']
    rw [this, Nat.pow_succ, Nat.mul_comm (256 ^ w) 256, Nat.mod_mul]

/-! ## the over-admit monitor -/

/-- an observed arrival: time, size, admitted? -/
abbrev Obs := Nat × Nat × Bool

def Mon.run (m : Mon) : List Obs → Mon
  | [] => m
  | (t, len, adm) :: rest => Mon.run (m.step t len adm).1 rest

def admittedObs : List Obs → Nat
  | [] => 0
  | (_, len, adm) :: rest => (if adm then len else 0) + admittedObs rest

/-- times never decrease, starting from `p` -/
def SortedObs (p : Nat) : List Obs → Prop
  | [] => True
  | (t, _, _) :: rest => p ≤ t ∧ SortedObs t rest

def lastObsT (p : Nat) : List Obs → Nat
  | [] => p
  | (t, _, _) :: rest => lastObsT t rest

theorem step_w_first (m : Mon) (hr : m.rate ≠ 0) (hp : m.prev = none) (t len : Nat) (adm : Bool) :
    (m.step t len adm).1.w = (if adm then len * SCALE else 0) ∧ (m.step t len adm).1.prev = some (t, len) ∧
    (m.step t len adm).1.rate = m.rate ∧ (m.step t len adm).1.burst = m.burst := by
  unfold Mon.step
  simp [hr, hp]

theorem step_w_next (m : Mon) (hr : m.rate ≠ 0) (pt pl : Nat) (hp : m.prev = some (pt, pl)) (t len : Nat) (adm : Bool)
    (ht : pt ≤ t) :
    (m.step t len adm).1.w = (if adm then len * SCALE else 0) + (m.w - m.rate * (t - pt)) ∧
    (m.step t len adm).1.prev = some (t, len) ∧
    (m.step t len adm).1.rate = m.rate ∧ (m.step t len adm).1.burst = m.burst := by
  unfold Mon.step
  have : ¬ t < pt := by omega
  simp [hr, hp, this]

theorem Mon.run_append (m : Mon) (xs ys : List Obs) : Mon.run m (xs ++ ys) = Mon.run (Mon.run m xs) ys := by
  induction xs generalizing m with
  | nil => rfl
  | cons x xs ih => obtain ⟨t, len, adm⟩ := x; simp only [List.cons_append, Mon.run]; exact ih _

theorem lastObsT_ge (p : Nat) (xs : List Obs) (h : SortedObs p xs) : p ≤ lastObsT p xs := by
  induction xs generalizing p with
  | nil => exact Nat.le_refl _
  | cons x xs ih => obtain ⟨t, len, adm⟩ := x; exact Nat.le_trans h.1 (ih t h.2)

/-- extending a window to the right: the monitor's potential dominates the window's excess -/
theorem mon_extend (win : List Obs) (m : Mon) (hr : m.rate ≠ 0) (pt pl : Nat) (hp : m.prev = some (pt, pl))
    (hs : SortedObs pt win) :
    SCALE * admittedObs win + m.w ≤ (Mon.run m win).w + m.rate * (lastObsT pt win - pt) ∧
    (Mon.run m win).rate = m.rate := by
  induction win generalizing m pt pl with
  | nil => simp [Mon.run, admittedObs, lastObsT]
  | cons x rest ih =>
    obtain ⟨t, len, adm⟩ := x
    obtain ⟨h1, h2, h3, _⟩ := step_w_next m hr pt pl hp t len adm hs.1
    have := ih (m.step t len adm).1 (by rw [h3]; exact hr) t len h2 hs.2
    rw [h3] at this
    simp only [Mon.run, admittedObs, lastObsT]
    refine ⟨?_, this.2⟩
    have hge := lastObsT_ge t rest hs.2
    have hle := hs.1
    have hmul : m.rate * (t - pt) + m.rate * (lastObsT t rest - t) = m.rate * (lastObsT t rest - pt) := by
      rw [← Nat.mul_add]; congr 1; omega
    have ha : (if adm = true then len else 0) * SCALE = (if adm = true then len * SCALE else 0) := by
      cases adm <;> simp
    rw [Nat.mul_add, Nat.mul_comm SCALE (if adm = true then len else 0), ha]
    omega

/-- state of the monitor after any sorted prefix: rate kept, and its previous arrival is the last of the prefix -/
theorem mon_after (pre : List Obs) (m : Mon) (hr : m.rate ≠ 0) (p : Nat)
    (hp : m.prev = none ∨ ∃ pl, m.prev = some (p, pl)) (hs : SortedObs p pre) :
    (Mon.run m pre).rate = m.rate ∧
    ((Mon.run m pre).prev = none ∨ ∃ pl, (Mon.run m pre).prev = some (lastObsT p pre, pl)) := by
  induction pre generalizing m p with
  | nil => exact ⟨rfl, hp⟩
  | cons x rest ih =>
    obtain ⟨t, len, adm⟩ := x
    simp only [Mon.run, lastObsT]
    rcases hp with hp | ⟨pl, hp⟩
    · obtain ⟨_, h2, h3, _⟩ := step_w_first m hr hp t len adm
      have := ih (m.step t len adm).1 (by rw [h3]; exact hr) t (Or.inr ⟨len, h2⟩) hs.2
      rw [h3] at this; exact this
    · obtain ⟨_, h2, h3, _⟩ := step_w_next m hr p pl hp t len adm hs.1
      have := ih (m.step t len adm).1 (by rw [h3]; exact hr) t (Or.inr ⟨len, h2⟩) hs.2
      rw [h3] at this; exact this


/-! ## `ipToKey`, key bytes, bucket bytes -/

theorem or_eq_add (x y i : Nat) (hy : y < 2 ^ i) : (x * 2 ^ i) ||| y = x * 2 ^ i + y := by
  rw [← Nat.shiftLeft_eq]; exact (Nat.shiftLeft_add_eq_or_of_lt hy x).symm

theorem ipToKey_toNat (a b c d : UInt8) :
    (ipToKey [a, b, c, d]).toNat = a.toNat * 16777216 + b.toNat * 65536 + c.toNat * 256 + d.toNat := by
  unfold ipToKey
  simp only [List.getD_cons_zero, List.getD_cons_succ, UInt32.toNat_or, UInt32.toNat_shiftLeft, UInt8.toNat_toUInt32]
  have ha := a.toNat_lt; have hb := b.toNat_lt; have hc := c.toNat_lt; have hd := d.toNat_lt
  have e24 : UInt32.toNat 24 % 32 = 24 := rfl
  have e16 : UInt32.toNat 16 % 32 = 16 := rfl
  have e8 : UInt32.toNat 8 % 32 = 8 := rfl
  rw [e24, e16, e8, Nat.shiftLeft_eq, Nat.shiftLeft_eq, Nat.shiftLeft_eq]
  have p8 : (2 : Nat) ^ 8 = 256 := by norm_num
  have p16 : (2 : Nat) ^ 16 = 65536 := by norm_num
  have p24 : (2 : Nat) ^ 24 = 16777216 := by norm_num
  have p32 : (2 : Nat) ^ 32 = 4294967296 := by norm_num
  rw [p8] at ha hb hc hd
  have o1 := or_eq_add a.toNat (b.toNat * 2 ^ 16) 24 (by rw [p16, p24]; omega)
  have o2 := or_eq_add (a.toNat * 2 ^ 8 + b.toNat) (c.toNat * 2 ^ 8) 16 (by rw [p8, p16]; omega)
  have o3 := or_eq_add (a.toNat * 2 ^ 16 + b.toNat * 2 ^ 8 + c.toNat) d.toNat 8 (by rw [p8]; omega)
  rw [p8, p16, p24] at *
  rw [p32]
  rw [Nat.mod_eq_of_lt (by omega), Nat.mod_eq_of_lt (by omega), Nat.mod_eq_of_lt (by omega)]
  rw [o1]
  have s2 : a.toNat * 16777216 + b.toNat * 65536 = (a.toNat * 256 + b.toNat) * 65536 := by omega
  rw [s2, o2]
  have s3 : (a.toNat * 256 + b.toNat) * 65536 + c.toNat * 256 = (a.toNat * 65536 + b.toNat * 256 + c.toNat) * 256 := by
    clear o1 o2 o3 s2; omega
  rw [s3, o3]

theorem keyBytes_eq (a b c d : UInt8) : keyBytes [a, b, c, d] = [d, c, b, a] := by
  unfold keyBytes
  rw [ipToKey_toNat]
  have ha := a.toNat_lt; have hb := b.toNat_lt; have hc := c.toNat_lt; have hd := d.toNat_lt
  have p8 : (2 : Nat) ^ 8 = 256 := by norm_num
  rw [p8] at ha hb hc hd
  simp only [leBytes]
  have e1 : (a.toNat * 16777216 + b.toNat * 65536 + c.toNat * 256 + d.toNat) % 256 = d.toNat := by omega
  have e2 : (a.toNat * 16777216 + b.toNat * 65536 + c.toNat * 256 + d.toNat) / 256 % 256 = c.toNat := by omega
  have e3 : (a.toNat * 16777216 + b.toNat * 65536 + c.toNat * 256 + d.toNat) / 256 / 256 % 256 = b.toNat := by omega
  have e4 : (a.toNat * 16777216 + b.toNat * 65536 + c.toNat * 256 + d.toNat) / 256 / 256 / 256 % 256 = a.toNat := by omega
  rw [e1, e2, e3, e4]
  simp

theorem take_app {α} (xs ys : List α) (n : Nat) (h : xs.length = n) : (xs ++ ys).take n = xs := by
  subst h; simp
theorem drop_app {α} (xs ys : List α) (n : Nat) (h : xs.length = n) : (xs ++ ys).drop n = ys := by
  subst h; simp

theorem fields (A B C D F : Bytes) (e : UInt8) (hA : A.length = 8) (hB : B.length = 8) (hC : C.length = 8)
    (hD : D.length = 4) (hF : F.length = 3) :
    let bs := A ++ B ++ C ++ D ++ [e] ++ F
    bs.take 8 = A ∧ (bs.drop 8).take 8 = B ∧ (bs.drop 16).take 8 = C ∧ (bs.drop 24).take 4 = D ∧
    (bs.drop 28).headD 0 = e ∧ (bs.drop 29).take 3 = F := by
  intro bs
  have e1 : bs = A ++ (B ++ C ++ D ++ [e] ++ F) := by simp [bs]
  have e2 : bs = (A ++ B) ++ (C ++ D ++ [e] ++ F) := by simp [bs]
  have e3 : bs = (A ++ B ++ C) ++ (D ++ [e] ++ F) := by simp [bs]
  have e4 : bs = (A ++ B ++ C ++ D) ++ ([e] ++ F) := by simp [bs]
  have e5 : bs = (A ++ B ++ C ++ D ++ [e]) ++ F := by simp [bs]
  refine ⟨?_, ?_, ?_, ?_, ?_, ?_⟩
  · rw [e1, take_app _ _ 8 hA]
  · rw [e1, drop_app _ _ 8 hA]; simp only [List.append_assoc]; rw [take_app _ _ 8 hB]
  · rw [e2, drop_app _ _ 16 (by simp [hA, hB])]; simp only [List.append_assoc]; rw [take_app _ _ 8 hC]
  · rw [e3, drop_app _ _ 24 (by simp [hA, hB, hC])]; simp only [List.append_assoc]; rw [take_app _ _ 4 hD]
  · rw [e4, drop_app _ _ 28 (by simp [hA, hB, hC, hD])]; simp
  · rw [e5, drop_app _ _ 29 (by simp [hA, hB, hC, hD])]; rw [← hF]; simp

theorem decode_encode (b : Bucket) (hp : b.pad.length = 3) : Bucket.decode b.encode = some b := by
  have hl : b.encode.length = 32 := by
    unfold Bucket.encode pad3; simp [length_leBytes]
  have hpad : pad3 b.pad = b.pad := by
    unfold pad3; rw [List.take_append_of_le_length (by omega)]; rw [← hp]; simp
  unfold Bucket.decode
  rw [if_pos hl]
  unfold Bucket.encode
  rw [hpad]
  obtain ⟨f1, f2, f3, f4, f5, f6⟩ := fields (leBytes 8 b.tokens.toNat) (leBytes 8 b.last.toNat) (leBytes 8 b.rate.toNat)
    (leBytes 4 b.burst.toNat) b.pad b.prio (length_leBytes _ _) (length_leBytes _ _) (length_leBytes _ _) (length_leBytes _ _) hp

  rw [f1, f2, f3, f4, f5, f6]
  simp only [leNat_leBytes]
  have h64 : (256 : Nat) ^ 8 = 2 ^ 64 := by norm_num
  have h32 : (256 : Nat) ^ 4 = 2 ^ 32 := by norm_num
  rw [h64, h32, Nat.mod_eq_of_lt b.tokens.toNat_lt, Nat.mod_eq_of_lt b.last.toNat_lt, Nat.mod_eq_of_lt b.rate.toNat_lt,
    Nat.mod_eq_of_lt b.burst.toNat_lt]
  simp

end Bng.TokenBucket
