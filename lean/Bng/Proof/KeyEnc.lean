import Bng.Model.KeyEnc
/-
  C06 — helper lemmas for Spec/C06.lean: bit operations on disjoint ranges are sums, little-endian byte
  strings of Horner-form numbers, agreement of field lists implies equal placement.
-/
namespace Bng.Proof.KeyEnc
open Bng.Layout Bng.KeyEnc

theorem places_eq_of_fieldsAgree :
    ∀ gs cs : List Field, fieldsAgree gs cs = true →
      gs.map (fun f => (f.off, f.width)) = cs.map (fun f => (f.off, f.width))
  | [], [], _ => rfl
  | [], _ :: _, h => by simp [fieldsAgree] at h
  | _ :: _, [], h => by simp [fieldsAgree] at h
  | g :: gs, c :: cs, h => by
    simp only [fieldsAgree, fieldAgrees, Bool.and_eq_true, beq_iff_eq] at h
    obtain ⟨⟨⟨ho, hw⟩, _⟩, ht⟩ := h
    simp only [List.map_cons, ho, hw, places_eq_of_fieldsAgree gs cs ht]

theorem lor_eq_add {x y i : Nat} (h1 : 2 ^ i ∣ x) (h2 : y < 2 ^ i) : x ||| y = x + y := by
  obtain ⟨a, rfl⟩ := h1
  have := Nat.shiftLeft_add_eq_or_of_lt h2 a
  rw [Nat.shiftLeft_eq, Nat.mul_comm] at this
  exact this.symm

theorem shlOr8_eq (r : Nat) (b : UInt8) (h : r < 2 ^ 56) : shlOr8 r b = r * 256 + b.toNat := by
  unfold shlOr8
  have hb : b.toNat < 2 ^ 8 := b.toNat_lt
  rw [Nat.shiftLeft_eq, Nat.mod_eq_of_lt (by omega)]
  exact lor_eq_add (i := 8) (by omega) hb

/-- the number a MAC denotes: first byte most significant -/
def macVal (b0 b1 b2 b3 b4 b5 : UInt8) : Nat :=
  b0.toNat * 2 ^ 40 + b1.toNat * 2 ^ 32 + b2.toNat * 2 ^ 24 + b3.toNat * 2 ^ 16 + b4.toNat * 2 ^ 8 + b5.toNat

theorem macU64CLoop_val (b0 b1 b2 b3 b4 b5 : UInt8) :
    macU64CLoop b0 b1 b2 b3 b4 b5 = macVal b0 b1 b2 b3 b4 b5 := by
  have h0 := b0.toNat_lt; have h1 := b1.toNat_lt; have h2 := b2.toNat_lt
  have h3 := b3.toNat_lt; have h4 := b4.toNat_lt; have h5 := b5.toNat_lt
  simp only [macU64CLoop, macVal, List.foldl]
  rw [shlOr8_eq 0 b0 (by omega)]
  rw [shlOr8_eq _ b1 (by omega)]
  rw [shlOr8_eq _ b2 (by omega)]
  rw [shlOr8_eq _ b3 (by omega)]
  rw [shlOr8_eq _ b4 (by omega)]
  rw [shlOr8_eq _ b5 (by omega)]
  omega

theorem macU64Shift_val (b0 b1 b2 b3 b4 b5 : UInt8) :
    macU64Shift b0 b1 b2 b3 b4 b5 = macVal b0 b1 b2 b3 b4 b5 := by
  have h0 := b0.toNat_lt; have h1 := b1.toNat_lt; have h2 := b2.toNat_lt
  have h3 := b3.toNat_lt; have h4 := b4.toNat_lt; have h5 := b5.toNat_lt
  unfold macU64Shift macVal
  simp only [Nat.shiftLeft_eq]
  rw [lor_eq_add (i := 40) (x := b0.toNat * 2 ^ 40) (by omega) (by omega)]
  rw [lor_eq_add (i := 32) (x := b0.toNat * 2 ^ 40 + _) (by omega) (by omega)]
  rw [lor_eq_add (i := 24) (x := b0.toNat * 2 ^ 40 + _ + _) (by omega) (by omega)]
  rw [lor_eq_add (i := 16) (x := b0.toNat * 2 ^ 40 + _ + _ + _) (by omega) (by omega)]
  rw [lor_eq_add (i := 8) (x := b0.toNat * 2 ^ 40 + _ + _ + _ + _) (by omega) (by omega)]

theorem leBytes_cons (w b n : Nat) (hb : b < 256) :
    leBytes (w + 1) (b + 256 * n) = UInt8.ofNat b :: leBytes w n := by
  have e1 : (b + 256 * n) % 256 = b := by omega
  have e2 : (b + 256 * n) / 256 = n := by omega
  simp only [leBytes, e1, e2]

theorem macVal_horner (b0 b1 b2 b3 b4 b5 : UInt8) :
    macVal b0 b1 b2 b3 b4 b5 =
      b5.toNat + 256 * (b4.toNat + 256 * (b3.toNat + 256 * (b2.toNat + 256 * (b1.toNat + 256 * (b0.toNat + 256 * 0))))) := by
  unfold macVal; omega


theorem lor_eq_add' {x y i : Nat} (h1 : 2 ^ i ∣ x) (h2 : y < 2 ^ i) : y ||| x = y + x := by
  rw [Nat.or_comm, lor_eq_add h1 h2, Nat.add_comm]

theorem ofNat_toNat_lt (n : Nat) (h : n < 256) : (UInt8.ofNat n).toNat = n := by
  simp only [UInt8.toNat_ofNat']
  omega

theorem bswap16_loadLE (p0 p1 : UInt8) : bswap16 (loadLE [p0, p1]) = p0.toNat * 256 + p1.toNat := by
  have h0 := p0.toNat_lt; have h1 := p1.toNat_lt
  simp only [bswap16, loadLE, leVal]
  omega

theorem vidOfTci_tciBytes (pcp dei vid : Nat) (hp : pcp < 8) (hd : dei < 2) (hv : vid < 4096) :
    vidOfTci (tciBytes pcp dei vid).1 (tciBytes pcp dei vid).2 = vid := by
  simp only [vidOfTci, tciBytes, bswap16_loadLE]
  rw [ofNat_toNat_lt _ (by omega), ofNat_toNat_lt _ (by omega)]
  have : (0x0FFF : Nat) = 2 ^ 12 - 1 := by decide
  rw [this, Nat.and_two_pow_sub_one_eq_mod]
  omega

theorem beUint32_val (a b c d : UInt8) :
    beUint32 a b c d = a.toNat * 2 ^ 24 + b.toNat * 2 ^ 16 + c.toNat * 2 ^ 8 + d.toNat := by
  have ha := a.toNat_lt; have hb := b.toNat_lt; have hc := c.toNat_lt; have hd := d.toNat_lt
  unfold beUint32
  simp only [Nat.shiftLeft_eq]
  rw [lor_eq_add' (i := 8) (y := d.toNat) (by omega) (by omega)]
  rw [lor_eq_add' (i := 16) (y := d.toNat + _) (by omega) (by omega)]
  rw [lor_eq_add' (i := 24) (y := d.toNat + _ + _) (by omega) (by omega)]
  omega

theorem leBytes4_be (a b c d : UInt8) :
    leBytes 4 (a.toNat * 2 ^ 24 + b.toNat * 2 ^ 16 + c.toNat * 2 ^ 8 + d.toNat) = [d, c, b, a] := by
  have e : a.toNat * 2 ^ 24 + b.toNat * 2 ^ 16 + c.toNat * 2 ^ 8 + d.toNat =
      d.toNat + 256 * (c.toNat + 256 * (b.toNat + 256 * (a.toNat + 256 * 0))) := by omega
  rw [e, leBytes_cons _ _ _ d.toNat_lt, leBytes_cons _ _ _ c.toNat_lt, leBytes_cons _ _ _ b.toNat_lt,
    leBytes_cons _ _ _ a.toNat_lt]
  simp only [UInt8.ofNat_toNat]
  rfl

theorem algKeyGo_val (port proto : Nat) (hp : port < 2 ^ 16) (hq : proto < 2 ^ 16) :
    algKeyGo port proto = port * 2 ^ 16 + proto := by
  unfold algKeyGo
  rw [Nat.shiftLeft_eq, Nat.mod_eq_of_lt (by omega)]
  exact lor_eq_add (i := 16) (by omega) hq

theorem allowedDestKeyGo_val (a b c d : UInt8) (port proto : Nat) (hp : port < 2 ^ 16) (hq : proto < 2 ^ 8) :
    allowedDestKeyGo a b c d port proto =
      (a.toNat * 2 ^ 24 + b.toNat * 2 ^ 16 + c.toNat * 2 ^ 8 + d.toNat) * 2 ^ 32 + port * 2 ^ 16 + proto * 2 ^ 8 := by
  have ha := a.toNat_lt; have hb := b.toNat_lt; have hc := c.toNat_lt; have hd := d.toNat_lt
  unfold allowedDestKeyGo
  rw [beUint32_val]
  simp only [Nat.shiftLeft_eq]
  rw [Nat.mod_eq_of_lt (by omega)]
  rw [lor_eq_add (i := 32) (x := _ * 2 ^ 32) (by omega) (by omega)]
  rw [lor_eq_add (i := 16) (x := _ * 2 ^ 32 + _) (by omega) (by omega)]

/-- element `i` of the unrolled C copy when the circuit-id sits at `start` -/
theorem copyCid_eq (pre cid rest : List UInt8) :
    copyCid (pre ++ (cid ++ rest)) pre.length cid.length = circuitKeyGo cid := by
  apply List.ext_getElem
  · simp [copyCid, circuitKeyGo]
  · intro i h1 h2
    have hi : i < 32 := by simpa [copyCid] using h1
    simp only [copyCid, circuitKeyGo, List.getElem_map, List.getElem_range, List.getElem_take]
    by_cases hlt : i < cid.length
    · simp only [hlt, if_true]
      rw [List.getD_eq_getElem?_getD, List.getElem?_append_right (by omega)]
      simp only [Nat.add_sub_cancel_left]
      rw [List.getElem?_append_left hlt, List.getElem_append_left hlt]
      simp [List.getElem?_eq_getElem hlt]
    · simp only [hlt, if_false]
      rw [List.getElem_append_right (by omega)]
      exact (List.getElem_replicate ..).symm

/-- the first branch of `extract_circuit_id_fixed` on a well-formed Option 82 -/
theorem circuitKeyC_opts82 (t : UInt8) (l : Nat) (cid rest : List UInt8)
    (hn0 : 0 < cid.length) (hn : cid.length ≤ 32) (hl4 : 4 ≤ l) (hl : l < 256)
    (hlen : 64 ≤ (opts82 t l cid rest).length) (hfit : 5 + l ≤ (opts82 t l cid rest).length) :
    circuitKeyC (opts82 t l cid rest) = some (circuitKeyGo cid) := by
  have hc := copyCid_eq [53, 1, t, 82, UInt8.ofNat l, 1, UInt8.ofNat cid.length] cid rest
  have hlen' : ¬ (opts82 t l cid rest).length < 64 := by omega
  have h7 : 7 + cid.length ≤ (opts82 t l cid rest).length := by
    simp only [opts82, List.length_append, List.length_cons, List.length_nil]; omega
  unfold circuitKeyC
  rw [if_neg hlen']
  have g3 : (opts82 t l cid rest).getD 3 0 = 82 := rfl
  have g4 : (opts82 t l cid rest).getD 4 0 = UInt8.ofNat l := rfl
  have g5 : (opts82 t l cid rest).getD 5 0 = 1 := rfl
  have g6 : (opts82 t l cid rest).getD 6 0 = UInt8.ofNat cid.length := rfl
  simp only [g3, g4, g5, g6, ofNat_toNat_lt l hl, ofNat_toNat_lt cid.length (by omega)]
  simp only [beq_self_eq_true, if_true, ge_iff_le, hl4, hfit, and_self, hn0, hn, h7]
  exact congrArg some hc

theorem macKey6_cons (b0 b1 b2 b3 b4 b5 : UInt8) (rest : List UInt8) :
    macKey6 (b0 :: b1 :: b2 :: b3 :: b4 :: b5 :: rest) = macVal b0 b1 b2 b3 b4 b5 := by
  simp only [macKey6, List.take, List.foldl, macVal]
  omega

theorem and_ff (n : Nat) : n &&& 0xFF = n % 256 := by
  have : (0xFF : Nat) = 2 ^ 8 - 1 := by decide
  rw [this, Nat.and_two_pow_sub_one_eq_mod]

theorem u64ToMac_macVal (b0 b1 b2 b3 b4 b5 : UInt8) :
    u64ToMac (macVal b0 b1 b2 b3 b4 b5) = [b0, b1, b2, b3, b4, b5] := by
  have h0 := b0.toNat_lt; have h1 := b1.toNat_lt; have h2 := b2.toNat_lt
  have h3 := b3.toNat_lt; have h4 := b4.toNat_lt; have h5 := b5.toNat_lt
  rw [macVal_horner]
  simp only [u64ToMac, u64ToMacAux, and_ff, Nat.shiftRight_eq_div_pow]
  have e (b n : Nat) (hb : b < 256) : (b + 256 * n) % 256 = b ∧ (b + 256 * n) / 2 ^ 8 = n := by omega
  rw [(e _ _ h5).1, (e _ _ h5).2, (e _ _ h4).1, (e _ _ h4).2, (e _ _ h3).1, (e _ _ h3).2,
    (e _ _ h2).1, (e _ _ h2).2, (e _ _ h1).1, (e _ _ h1).2, (e _ _ h0).1]
  simp only [UInt8.ofNat_toNat]

/-- `purgeSubscriberState`'s comparison `k.SrcIP == ipToKey(a.b.c.d)` on four stored bytes holds exactly when the bytes in
    memory are `d c b a` -/
theorem purgeSelects_iff (a b c d s0 s1 s2 s3 : UInt8) :
    purgeSelects a b c d [s0, s1, s2, s3] = true ↔ (s0 = d ∧ s1 = c ∧ s2 = b ∧ s3 = a) := by
  have ha := a.toNat_lt; have hb := b.toNat_lt; have hc := c.toNat_lt; have hd := d.toNat_lt
  have h0 := s0.toNat_lt; have h1 := s1.toNat_lt; have h2 := s2.toNat_lt; have h3 := s3.toNat_lt
  simp only [purgeSelects, loadLE, leVal, beUint32_val, beq_iff_eq]
  constructor
  · intro h
    refine ⟨UInt8.toNat_inj.mp ?_, UInt8.toNat_inj.mp ?_, UInt8.toNat_inj.mp ?_, UInt8.toNat_inj.mp ?_⟩ <;> omega
  · rintro ⟨rfl, rfl, rfl, rfl⟩
    omega

end Bng.Proof.KeyEnc
