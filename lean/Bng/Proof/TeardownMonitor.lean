import Bng.Model.TeardownMonitor
import Bng.Spec.C16Teardown
/-
  Refinement proof for component `teardown`: the per-session clauses of the monitor (`TeardownMon.perSession`:
  double-stop, double-cleanup, double-padt, residue, missing-stop, stop-unstarted, stop-before-end, ebpf-residue) never
  speak on the model's own observations, for EVERY history (failing eBPF-map callback included) — only the recorded
  findings do: KF-pppoe-no-acct-start, and KF-pppoe-teardown-ebpf-noretry for a session whose callback failed.
  (The `not-terminated` clauses of `afterTermination` are validated by the runs only.)
-/
namespace Bng.Proof.TeardownMonitor
open Bng Bng.Teardown Bng.TeardownMon AMap
open Bng.Spec.C16Teardown (Inv PInv cl inv_step pinv_step inv_init step_radius count_bump)

/-! ### reading a counter back from the observation -/

theorem get_filterMap (m : AMap Nat Nat) (n : Nat) : ∀ ks : List Nat,
    getCount (ks.filterMap fun k => if count m k > 0 then some (k, count m k) else none) n
      = if n ∈ ks then count m n else 0
  | [] => by simp [getCount]
  | k :: rest => by
    have ih := get_filterMap m n rest
    by_cases hk : count m k > 0
    · simp only [List.filterMap_cons, hk, if_true]
      by_cases e : k = n
      · subst e; simp [getCount]
      · have e' : (k == n) = false := by simpa using e
        have : getCount ((k, count m k) :: List.filterMap (fun k => if count m k > 0 then some (k, count m k) else none) rest) n
            = getCount (List.filterMap (fun k => if count m k > 0 then some (k, count m k) else none) rest) n := by
          simp [getCount, List.find?_cons, e']
        rw [this, ih]
        have hne : n ≠ k := fun h => e h.symm
        simp [hne]
    · simp only [List.filterMap_cons, hk, if_false]
      rw [ih]
      by_cases e : n = k
      · subst e
        have h0 : count m n = 0 := by omega
        simp [h0]
      · simp [e]

theorem get_countsOf (m : AMap Nat Nat) (n : Nat) : getCount (countsOf m) n = count m n := by
  unfold countsOf
  rw [get_filterMap]
  by_cases h : n ∈ keys m
  · simp [h]
  · simp only [h, if_false]
    have : lookup m n = none := lookup_eq_none_iff.mpr h
    simp [count, this]

/-! ### what the monitor knows of each session agrees with the model -/

structure Rel (s : TD) (mn : Mon) : Prop where
  rad : mn.radius = s.radius
  known : ∀ k ∈ mn.objs, ∃ o, lookup s.objs k.name = some o ∧ o.authed = k.authed ∧ o.tornDown = k.torn

/-- the attributes of the session objects that only `mk` and `authFail` write -/
def attr (s : TD) (n : Nat) : Option Bool := (lookup s.objs n).map (·.authed)

theorem removeSession_objs' (s : TD) (id : Nat) : (removeSession s id).objs = s.objs := by
  unfold removeSession; split <;> rfl

theorem cleanup_attr (s : TD) (n k : Nat) : attr (cleanup s n) k = attr s k := by
  unfold cleanup attr
  split
  · rfl
  · rename_i o ho
    split
    · rfl
    · rw [removeSession_objs']
      simp only [lookup_insert]
      split
      · rename_i e; subst e; rw [ho]; rfl
      · rfl

theorem claimPadt_attr (s : TD) (n k : Nat) (o : Obj) (ho : lookup s.objs n = some o) :
    attr (claimPadt s n o) k = attr s k := by
  unfold claimPadt attr
  simp only [lookup_insert]
  split
  · rename_i e; subst e; rw [ho]; rfl
  · rfl

theorem terminate_attr (s : TD) (n k : Nat) : attr (terminate s n) k = attr s k := by
  unfold terminate
  split
  · rename_i o ho
    split
    · rfl
    · rw [cleanup_attr, claimPadt_attr s n k o ho]
  · rfl

theorem foldl_terminate_attr (l : List (Nat × Nat)) (k : Nat) : ∀ s : TD,
    attr (l.foldl (fun st p => terminate st p.2) s) k = attr s k := by
  induction l with
  | nil => intro s; rfl
  | cons p rest ih => intro s; simp only [List.foldl_cons]; rw [ih, terminate_attr]

/-- every operation except `mk` and `authFail` leaves the authentication flags alone -/
theorem step_attr (s : TD) (op : Op) (k : Nat)
    (h1 : ∀ n m a i, op ≠ .mk n m a i) (h2 : ∀ n, op ≠ .authFail n) : attr (step s op) k = attr s k := by
  cases op with
  | mk n m a i => exact absurd rfl (h1 n m a i)
  | authFail n => exact absurd rfl (h2 n)
  | padt n m =>
    simp only [step]; split
    · split
      · exact cleanup_attr _ _ _
      · rfl
    · rfl
  | term n => simp only [step]; split
              · exact terminate_attr _ _ _
              · rfl
  | termId id => simp only [step]; split
                 · exact terminate_attr _ _ _
                 · rfl
  | termMac m =>
    simp only [step]; split
    · split
      · exact terminate_attr _ _ _
      · rfl
    · rfl
  | termUser u => exact foldl_terminate_attr _ _ _
  | termAll => exact foldl_terminate_attr _ _ _
  | tpark tag n =>
    simp only [step]; split
    · rfl
    · split
      · rename_i o ho
        split
        · rfl
        · exact claimPadt_attr s n k o ho
      · rfl
  | tresume tag =>
    simp only [step]; split
    · rw [cleanup_attr]; rfl
    · rfl
  | fault m => rfl


/-! ### how the session objects evolve -/

/-- every object stays, torn-down stays torn-down, the authentication flag is untouched -/
def Keep (s s' : TD) : Prop :=
  ∀ k o, lookup s.objs k = some o →
    ∃ o', lookup s'.objs k = some o' ∧ (o.tornDown = true → o'.tornDown = true) ∧ o'.authed = o.authed

theorem keep_refl (s : TD) : Keep s s := fun _ o h => ⟨o, h, id, rfl⟩

theorem keep_trans {a b c : TD} (h1 : Keep a b) (h2 : Keep b c) : Keep a c := by
  intro k o h
  obtain ⟨o1, l1, t1, a1⟩ := h1 k o h
  obtain ⟨o2, l2, t2, a2⟩ := h2 k o1 l1
  exact ⟨o2, l2, fun ht => t2 (t1 ht), by rw [a2, a1]⟩

theorem keep_of_objs {s s' : TD} (h : s'.objs = s.objs) : Keep s s' := by
  intro k o hl; exact ⟨o, by rw [h]; exact hl, id, rfl⟩

theorem keep_cleanup (s : TD) (n : Nat) : Keep s (cleanup s n) := by
  intro k o hl
  unfold cleanup
  split
  · exact ⟨o, hl, id, rfl⟩
  · rename_i on hon
    split
    · exact ⟨o, hl, id, rfl⟩
    · rw [removeSession_objs']
      simp only [lookup_insert]
      split
      · rename_i e; subst e
        rw [hon] at hl; simp only [Option.some.injEq] at hl; subst hl
        exact ⟨_, rfl, fun _ => rfl, rfl⟩
      · exact ⟨o, hl, id, rfl⟩

theorem keep_claimPadt (s : TD) (n : Nat) (on : Obj) (hon : lookup s.objs n = some on) : Keep s (claimPadt s n on) := by
  intro k o hl
  unfold claimPadt
  simp only [lookup_insert]
  split
  · rename_i e; subst e
    rw [hon] at hl; simp only [Option.some.injEq] at hl; subst hl
    exact ⟨_, rfl, id, rfl⟩
  · exact ⟨o, hl, id, rfl⟩

theorem keep_terminate (s : TD) (n : Nat) : Keep s (terminate s n) := by
  unfold terminate
  split
  · rename_i on hon
    split
    · exact keep_refl s
    · exact keep_trans (keep_claimPadt s n on hon) (keep_cleanup _ n)
  · exact keep_refl s

theorem keep_foldl (l : List (Nat × Nat)) : ∀ s : TD, Keep s (l.foldl (fun st p => terminate st p.2) s) := by
  induction l with
  | nil => intro s; exact keep_refl s
  | cons p rest ih => intro s; exact keep_trans (keep_terminate s p.2) (ih _)

theorem keep_step (s : TD) (op : Op) (h2 : ∀ n, op ≠ .authFail n) (hacc : accepted s op = true) :
    Keep s (step s op) := by
  cases op with
  | authFail n => exact absurd rfl (h2 n)
  | mk n m a i =>
    have hfresh : lookup s.objs n = none := by
      simp only [accepted, Bool.not_eq_true'] at hacc
      cases e : lookup s.objs n
      · rfl
      · rw [e] at hacc; simp at hacc
    intro k o hl
    simp only [step, mk, hfresh, Option.isSome_none, Bool.false_eq_true, if_false]
    have hne : k ≠ n := by intro e; subst e; rw [hfresh] at hl; cases hl
    exact ⟨o, by simp [lookup_insert, hne, hl], id, rfl⟩
  | padt n m =>
    simp only [step]; split
    · split
      · exact keep_cleanup _ _
      · exact keep_refl s
    · exact keep_refl s
  | term n => simp only [step]; split
              · exact keep_terminate _ _
              · exact keep_refl s
  | termId id => simp only [step]; split
                 · exact keep_terminate _ _
                 · exact keep_refl s
  | termMac m =>
    simp only [step]; split
    · split
      · exact keep_terminate _ _
      · exact keep_refl s
    · exact keep_refl s
  | termUser u => exact keep_foldl _ _
  | termAll => exact keep_foldl _ _
  | tpark tag n =>
    simp only [step]; split
    · exact keep_refl s
    · split
      · rename_i o ho
        split
        · exact keep_refl s
        · exact keep_trans (keep_claimPadt s n o ho) (keep_of_objs rfl)
      · exact keep_refl s
  | tresume tag =>
    simp only [step]; split
    · exact keep_trans (keep_of_objs (s' := { s with parked := AMap.erase s.parked tag }) rfl) (keep_cleanup _ _)
    · exact keep_refl s
  | fault m => exact keep_of_objs rfl


/-! ### the per-session clauses are silent -/

/-- nothing but the recorded findings -/
def Quiet (vs : List Verdict) : Prop :=
  ∀ v ∈ vs, v.2.1 = "KF-pppoe-no-acct-start" ∨ v.2.1 = "KF-pppoe-teardown-ebpf-noretry"

/-- the same, and the second finding only where the eBPF-map callback has failed for some session -/
def QuietAt (s : TD) (vs : List Verdict) : Prop :=
  ∀ v ∈ vs, v.2.1 = "KF-pppoe-no-acct-start" ∨
    (v.2.1 = "KF-pppoe-teardown-ebpf-noretry" ∧ ∃ n, count s.efail n = 1)

theorem QuietAt.quiet {s : TD} {vs : List Verdict} (h : QuietAt s vs) : Quiet vs := by
  intro v hv
  rcases h v hv with h1 | ⟨h2, _⟩
  · exact Or.inl h1
  · exact Or.inr h2

theorem live_mem {s : TD} {n : Nat} (h : n ∈ (obsOf s false).live) : ∃ id, lookup s.live id = some n := by
  simp only [obsOf, List.mem_filterMap] at h
  obtain ⟨id, _, hl⟩ := h
  exact ⟨id, hl⟩

theorem perSession_quiet {s : TD} (hI : Inv s) (hP : PInv s) (k : Known) (o : Obj) (p : Bool)
    (ho : lookup s.objs k.name = some o) (ha : o.authed = k.authed) :
    QuietAt s (perSession s.radius k (obsOf s p)) := by
  have est : getCount (obsOf s p).stops k.name = count s.stops k.name := get_countsOf _ _
  have eeb : getCount (obsOf s p).ebpf k.name = count s.ebpf k.name := get_countsOf _ _
  have eef : getCount (obsOf s p).efail k.name = count s.efail k.name := get_countsOf _ _
  have epa : getCount (obsOf s p).padt k.name = count s.padt k.name := get_countsOf _ _
  have efp : (obsOf s p).fp = s.fp := rfl
  have hpadt : count s.padt k.name ≤ 1 := by rw [hP k.name]; split <;> omega
  have hp0 : ¬ count s.padt k.name > 1 := by omega
  intro v hv
  unfold perSession at hv
  simp only [est, eeb, eef, epa, efp] at hv
  cases ht : o.tornDown with
  | false =>
    obtain ⟨h1, h2⟩ := hI.fresh k.name o ho ht
    obtain ⟨h3, _⟩ := hI.freshFp k.name o ho ht
    rw [h1, h2, h3] at hv
    simp [hp0] at hv
  | true =>
    obtain ⟨h2, h1, hheld, hlive⟩ := hI.done k.name o ho ht
    obtain ⟨hfp0, hfp1⟩ := hI.doneFp k.name o ho ht
    have hh : (obsOf s p).held.contains k.name = false := by
      rw [Bool.eq_false_iff]; intro hc; rw [List.contains_iff_mem] at hc; exact hheld hc
    have hl : (obsOf s p).live.contains k.name = false := by
      rw [Bool.eq_false_iff]; intro hc; rw [List.contains_iff_mem] at hc
      obtain ⟨id, hid⟩ := live_mem (s := s) hc
      exact hlive id hid
    have hcases : (count s.efail k.name = 0 ∧ count s.ebpf k.name = 1) ∨
        (count s.efail k.name = 1 ∧ count s.ebpf k.name = 0) := by omega
    rcases hcases with ⟨hef, heb⟩ | ⟨hef, heb⟩
    · -- the callback worked: the entry is gone
      have hnfp : s.fp.contains k.name = false := by
        rw [Bool.eq_false_iff]; intro hc; rw [List.contains_iff_mem] at hc; exact hfp0 hef hc
      rw [h1, heb, hef, ha] at hv
      simp only [hp0, hh, hl, hnfp] at hv
      cases hra : (s.radius && k.authed) <;> cases hkt : k.torn <;> simp [hra, hkt] at hv <;>
        (subst hv; exact Or.inl rfl)
    · -- the callback failed: the entry is still there, and that is the recorded finding
      have hinfp : s.fp.contains k.name = true := by
        rw [List.contains_iff_mem]; exact hfp1 hef
      rw [h1, heb, hef, ha] at hv
      simp only [hp0, hh, hl, hinfp] at hv
      cases hra : (s.radius && k.authed) <;> cases hkt : k.torn <;> simp [hra, hkt] at hv <;>
        first
        | (subst hv; exact Or.inr ⟨rfl, k.name, hef⟩)
        | (rcases hv with hv | hv <;> subst hv <;> first | exact Or.inl rfl | exact Or.inr ⟨rfl, k.name, hef⟩)


/-! ### one step, every history -/

/-- what the monitor has noted for the operation agrees with the model AFTER the operation -/
def Pre (s' : TD) (mn1 : Mon) : Prop :=
  ∀ k ∈ mn1.objs, ∃ o', lookup s'.objs k.name = some o' ∧ o'.authed = k.authed ∧ (k.torn = true → o'.tornDown = true)

theorem pre_of_step {s : TD} {mn : Mon} (hR : Rel s mn) (op : Op) (hacc : accepted s op = true) :
    Pre (step s op) (note mn op) := by
  -- an object the monitor already knew, under an operation that keeps the objects
  have old : ∀ (s' : TD), Keep s s' → ∀ k ∈ mn.objs,
      ∃ o', lookup s'.objs k.name = some o' ∧ o'.authed = k.authed ∧ (k.torn = true → o'.tornDown = true) := by
    intro s' hk k hkm
    obtain ⟨o, ho, ha, ht⟩ := hR.known k hkm
    obtain ⟨o', ho', ht', ha'⟩ := hk k.name o ho
    exact ⟨o', ho', by rw [ha', ha], fun e => ht' (by rw [ht]; exact e)⟩
  cases op with
  | mk n m a i =>
    have hk := keep_step s (.mk n m a i) (by intro n' e; cases e) hacc
    intro k hkm
    simp only [note, List.mem_cons] at hkm
    rcases hkm with rfl | hkm
    · have hfresh : lookup s.objs n = none := by
        simp only [accepted, Bool.not_eq_true'] at hacc
        cases e : lookup s.objs n
        · rfl
        · rw [e] at hacc; simp at hacc
      refine ⟨{ id := freeId s.live s.nextID (s.live.length + 1), mac := m, user := m, authed := a, hasIp := i,
                tornDown := false, claimed := false }, ?_, rfl, by intro e; cases e⟩
      · simp only [step, mk, hfresh, Option.isSome_none, Bool.false_eq_true, if_false, lookup_insert, if_true]
    · exact old _ hk k hkm
  | authFail n =>
    intro k' hk'
    simp only [note, List.mem_map] at hk'
    obtain ⟨k, hkm, rfl⟩ := hk'
    obtain ⟨o, ho, ha, ht⟩ := hR.known k hkm
    by_cases hn : k.name = n
    · subst hn
      simp only [step, ho]
      cases hto : o.tornDown with
      | true =>
        have hkt : k.torn = true := by rw [← ht, hto]
        simp only [if_true, hkt, beq_self_eq_true, Bool.not_true, Bool.and_false, Bool.false_eq_true, if_false]
        exact ⟨o, ho, ha, fun _ => hto⟩
      | false =>
        have hkt : k.torn = false := by rw [← ht, hto]
        simp only [Bool.false_eq_true, if_false, hkt, beq_self_eq_true, Bool.not_false, Bool.and_self, if_true]
        refine ⟨{ o with authed := false }, by simp [lookup_insert, hto], rfl, by intro e; cases e⟩
    · have hb : (k.name == n) = false := by simpa using hn
      simp only [hb, Bool.false_and, Bool.false_eq_true, if_false]
      simp only [step]
      split
      · rename_i on hon
        split
        · exact ⟨o, ho, ha, fun e => by rw [ht]; exact e⟩
        · exact ⟨o, by simp [lookup_insert, hn, ho], ha, fun e => by rw [ht]; exact e⟩
      · exact ⟨o, ho, ha, fun e => by rw [ht]; exact e⟩
  | padt n m => exact old _ (keep_step s _ (by intro n' e; cases e) hacc)
  | term n => exact old _ (keep_step s _ (by intro n' e; cases e) hacc)
  | termId id => exact old _ (keep_step s _ (by intro n' e; cases e) hacc)
  | termMac m => exact old _ (keep_step s _ (by intro n' e; cases e) hacc)
  | termUser u => exact old _ (keep_step s _ (by intro n' e; cases e) hacc)
  | termAll => exact old _ (keep_step s _ (by intro n' e; cases e) hacc)
  | tpark t n => exact old _ (keep_step s _ (by intro n' e; cases e) hacc)
  | tresume t => exact old _ (keep_step s _ (by intro n' e; cases e) hacc)
  | fault m => exact old _ (keep_step s _ (by intro n' e; cases e) hacc)

theorem note_radius (mn : Mon) (op : Op) : (note mn op).radius = mn.radius := by
  cases op <;> rfl

theorem step_ok {s : TD} {mn : Mon} (hI : Inv s) (hP : PInv s) (hR : Rel s mn) (op : Op)
    (hacc : accepted s op = true) :
    Rel (step s op) (monitorCore mn op (obsOf (step s op) (parkedBy s (step s op) op))).1 ∧
    QuietAt (step s op) ((note mn op).objs.flatMap fun o =>
      perSession (note mn op).radius o (obsOf (step s op) (parkedBy s (step s op) op))) := by
  have hI' := inv_step hI op
  have hP' := pinv_step hP op
  have hpre := pre_of_step hR op hacc
  have hrad : (note mn op).radius = (step s op).radius := by
    rw [note_radius, hR.rad, step_radius]
  generalize parkedBy s (step s op) op = p
  constructor
  · refine ⟨?_, ?_⟩
    · show (note mn op).radius = _
      exact hrad
    · intro k' hk'
      have hk'' : k' ∈ (note mn op).objs.map fun (o : Known) =>
          if getCount (obsOf (step s op) p).ebpf o.name + getCount (obsOf (step s op) p).efail o.name ≥ 1
            then { o with torn := true } else o := hk'
      obtain ⟨k, hkm, rfl⟩ := List.mem_map.mp hk''
      obtain ⟨o', ho', ha', ht'⟩ := hpre k hkm
      have eeb : getCount (obsOf (step s op) p).ebpf k.name = count (step s op).ebpf k.name := get_countsOf _ _
      have eef : getCount (obsOf (step s op) p).efail k.name = count (step s op).efail k.name := get_countsOf _ _
      rw [eeb, eef]
      cases hto : o'.tornDown with
      | true =>
        obtain ⟨h2, _, _, _⟩ := hI'.done k.name o' ho' hto
        have : count (step s op).ebpf k.name + count (step s op).efail k.name ≥ 1 := by omega
        simp only [this, if_true]
        exact ⟨o', ho', ha', hto⟩
      | false =>
        obtain ⟨_, h2⟩ := hI'.fresh k.name o' ho' hto
        obtain ⟨h3, _⟩ := hI'.freshFp k.name o' ho' hto
        have : ¬ count (step s op).ebpf k.name + count (step s op).efail k.name ≥ 1 := by omega
        simp only [this, if_false]
        refine ⟨o', ho', ha', ?_⟩
        cases hkt : k.torn with
        | false => exact hto
        | true => rw [ht' hkt] at hto; cases hto
  · intro v hv
    rw [List.mem_flatMap] at hv
    obtain ⟨k, hkm, hv⟩ := hv
    obtain ⟨o', ho', ha', _⟩ := hpre k hkm
    rw [hrad] at hv
    exact perSession_quiet hI' hP' k o' p ho' ha' v hv

theorem runPer_quiet : ∀ (ops : List Op) {s : TD} {mn : Mon}, Inv s → PInv s → Rel s mn → Quiet (runPer s mn ops)
  | [], _, _, _, _, _ => by intro v hv; simp [runPer] at hv
  | op :: rest, s, mn, hI, hP, hR => by
    unfold runPer
    by_cases hacc : accepted s op = true
    · simp only [hacc, if_true]
      obtain ⟨hR', hQ⟩ := step_ok hI hP hR op hacc
      intro v hv
      rw [List.mem_append] at hv
      rcases hv with hv | hv
      · exact hQ.quiet v hv
      · exact runPer_quiet rest (inv_step hI op) (pinv_step hP op) hR' v hv
    · simp only [hacc, Bool.false_eq_true, if_false]
      exact runPer_quiet rest hI hP hR

/-! ### histories in which the eBPF-map callback is never made to fail -/

/-- the callback works and has never failed -/
def NoFail (s : TD) : Prop := s.fault = .off ∧ ∀ n, count s.efail n = 0

theorem removeSession_efail' (s : TD) (id : Nat) : (removeSession s id).efail = s.efail := by
  unfold removeSession; split <;> rfl
theorem removeSession_fault' (s : TD) (id : Nat) : (removeSession s id).fault = s.fault := by
  unfold removeSession; split <;> rfl

theorem nofail_cleanup {s : TD} (h : NoFail s) (n : Nat) : NoFail (cleanup s n) := by
  unfold cleanup
  split
  · exact h
  · split
    · exact h
    · obtain ⟨h1, h2⟩ := h
      refine ⟨?_, ?_⟩
      · rw [removeSession_fault']; show s.fault.next = Fault.off; rw [h1]; rfl
      · intro k; rw [removeSession_efail']
        show count (if (s.fault == Fault.off) = true then s.efail else bump s.efail n) k = 0
        rw [h1]; exact h2 k

theorem nofail_terminate {s : TD} (h : NoFail s) (n : Nat) : NoFail (terminate s n) := by
  unfold terminate
  split
  · split
    · exact h
    · exact nofail_cleanup (s := claimPadt s n _) h n
  · exact h

theorem nofail_foldl (l : List (Nat × Nat)) : ∀ {s : TD}, NoFail s → NoFail (l.foldl (fun st p => terminate st p.2) s) := by
  induction l with
  | nil => intro s h; exact h
  | cons p rest ih => intro s h; exact ih (nofail_terminate h p.2)

theorem nofail_step {s : TD} (h : NoFail s) (op : Op) (hop : ∀ m, op ≠ .fault m) : NoFail (step s op) := by
  cases op with
  | fault m => exact absurd rfl (hop m)
  | mk n m a i => simp only [step, mk]; split <;> exact h
  | padt n m =>
    simp only [step]; split
    · split
      · exact nofail_cleanup h n
      · exact h
    · exact h
  | term n => simp only [step]; split
              · exact nofail_terminate h n
              · exact h
  | termId id => simp only [step]; split
                 · exact nofail_terminate h _
                 · exact h
  | termMac m =>
    simp only [step]; split
    · split
      · exact nofail_terminate h _
      · exact h
    · exact h
  | termUser u => exact nofail_foldl _ h
  | termAll => exact nofail_foldl _ h
  | authFail n =>
    simp only [step]; split
    · split <;> exact h
    · exact h
  | tpark tag n =>
    simp only [step]; split
    · exact h
    · split
      · split <;> exact h
      · exact h
  | tresume tag =>
    simp only [step]; split
    · exact nofail_cleanup (s := { s with parked := AMap.erase s.parked tag }) h _
    · exact h

/-- without a failing callback the only verdict is KF-pppoe-no-acct-start -/
theorem runPer_quiet_nofail : ∀ (ops : List Op) {s : TD} {mn : Mon}, Inv s → PInv s → Rel s mn → NoFail s →
    (∀ op ∈ ops, ∀ m, op ≠ .fault m) → ∀ v ∈ runPer s mn ops, v.2.1 = "KF-pppoe-no-acct-start"
  | [], _, _, _, _, _, _, _ => by intro v hv; simp [runPer] at hv
  | op :: rest, s, mn, hI, hP, hR, hN, hops => by
    unfold runPer
    have hop : ∀ m, op ≠ .fault m := hops op List.mem_cons_self
    have hrest : ∀ op' ∈ rest, ∀ m, op' ≠ .fault m := fun op' h => hops op' (List.mem_cons_of_mem _ h)
    by_cases hacc : accepted s op = true
    · simp only [hacc, if_true]
      obtain ⟨hR', hQ⟩ := step_ok hI hP hR op hacc
      have hN' := nofail_step hN op hop
      intro v hv
      rw [List.mem_append] at hv
      rcases hv with hv | hv
      · rcases hQ v hv with h1 | ⟨_, n, hn⟩
        · exact h1
        · rw [hN'.2 n] at hn; cases hn
      · exact runPer_quiet_nofail rest (inv_step hI op) (pinv_step hP op) hR' hN' hrest v hv
    · simp only [hacc, Bool.false_eq_true, if_false]
      exact runPer_quiet_nofail rest hI hP hR hN hrest

theorem Rel_init (r : Bool) : Rel (init r) { radius := r } :=
  ⟨rfl, by intro k hk; simp at hk⟩

end Bng.Proof.TeardownMonitor
