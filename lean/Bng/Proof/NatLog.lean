import Bng.Proof.NatMonitor
import Bng.Model.NatLog
/-
  Helper lemmas for Spec/C10Log: the logger keeps every record, in call order, whatever the interleaving of calls,
  flushes and writer failures; the manager's log grows by at most one record per critical section, so every
  chronological prefix of it is the log of a prefix of the history.
-/
namespace Bng.NatLog
open Bng

variable {ρ : Type}

theorem everything_add (s : St ρ) (r : ρ) : everything (add s r) = everything s ++ [r] := by
  simp [everything, add, List.append_assoc]

theorem everything_take (s : St ρ) : everything (take s) = everything s := by
  unfold take
  cases h : s.flight with
  | some b => simp
  | none => simp [everything, h]

theorem everything_finish (s : St ρ) : everything (finish s) = everything s := by
  unfold finish
  cases h : s.flight with
  | none => simp
  | some b =>
    simp only [everything, h, Option.getD_none, Option.getD_some, List.append_nil, List.append_assoc]
    rw [← List.append_assoc (List.take _ b), List.take_append_drop]

theorem everything_ctl (s : St ρ) (c : Ctl) : everything (ctl s c) = everything s := by
  cases c with
  | take => exact everything_take s
  | finish => exact everything_finish s
  | writer b => rfl

theorem everything_run (s : St ρ) (ops : List (Op ρ)) : everything (run s ops) = everything s ++ added ops := by
  induction ops generalizing s with
  | nil => simp [run, added]
  | cons op ops ih =>
    show everything (run (step s op) ops) = _
    rw [ih]
    cases op with
    | add r => simp [step, added, everything_add, List.append_assoc]
    | ctl c => simp [step, added, everything_ctl]

theorem everything_foldl_add (s : St ρ) (l : List ρ) : everything (l.foldl add s) = everything s ++ l := by
  induction l generalizing s with
  | nil => simp
  | cons r l ih => rw [List.foldl_cons, ih, everything_add, List.append_assoc]; rfl

/-- an uninterrupted flush with a healthy writer and no other flush in flight writes everything -/
theorem flush_healthy (s : St ρ) (hb : s.budget = none) (hf : s.flight = none) :
    (flush s).file = everything s ∧ (flush s).buf = [] ∧ (flush s).flight = none := by
  unfold flush take finish
  simp [hf, hb, accepted, everything]

/-- a flush never shortens the file and never touches what is already in it -/
theorem finish_file_prefix (s : St ρ) : s.file <+: (finish s).file := by
  unfold finish
  cases h : s.flight with
  | none => simp
  | some b => simp only; exact List.prefix_append _ _

end Bng.NatLog

namespace Bng.Cgnat
open Bng AMap

/-- every critical section appends at most one record -/
theorem step_log_shape (s : State) (op : Op) :
    ∃ d, (step s op).1.log = d ++ s.log ∧ d.length ≤ 1 := by
  have commit : ∀ k, ∃ d, (allocCommit s k).1.log = d ++ s.log ∧ d.length ≤ 1 := by
    intro k
    cases hl : AMap.lookup s.allocs k with
    | some a => exact ⟨[], by unfold allocCommit; simp [hl], by simp⟩
    | none =>
      cases hsel : selectPool s.allocs s.pool 0 with
      | none => exact ⟨[], by unfold allocCommit; simp [hl, hsel], by simp⟩
      | some r =>
        obtain ⟨i, sl, e⟩ := r
        obtain ⟨s', a, he, _, hlog, _⟩ := allocCommit_new hl hsel
        refine ⟨logAllocation s.cfg a, by rw [he]; exact hlog, ?_⟩
        rcases logAllocation_shape s.cfg a with h | ⟨_, e', h⟩ <;> simp [h]
  cases op with
  | addIp ip => exact ⟨[], by simp only [step]; unfold addPublicIP; split <;> rfl, by simp⟩
  | allocPre k => exact ⟨[], by simp only [step]; unfold allocPre; split <;> rfl, by simp⟩
  | allocCommit k => exact commit k
  | alloc k =>
    simp only [step]; rw [alloc_eq]
    cases hl : AMap.lookup s.allocs k with
    | some a => exact ⟨[], rfl, by simp⟩
    | none => exact commit k
  | dealloc k =>
    simp only [step]; unfold dealloc
    cases hl : AMap.lookup s.allocs k with
    | none => exact ⟨[], rfl, by simp⟩
    | some a =>
      refine ⟨logDeallocation s.cfg k a.pub a.portStart, rfl, ?_⟩
      rcases logDeallocation_shape s.cfg k a.pub a.portStart with h | ⟨_, e', h⟩ <;> simp [h]
  | get k => exact ⟨[], rfl, by simp⟩
  | count => exact ⟨[], rfl, by simp⟩
  | pools => exact ⟨[], rfl, by simp⟩
  | commitFail k => exact ⟨[], by simp only [step]; rw [(commitFail_same s k).2.2.2]; rfl, by simp⟩
  | allocFail k => exact ⟨[], by simp only [step]; rw [(allocFail_same s k).2.2.2]; rfl, by simp⟩
  | deallocFail k => exact ⟨[], by simp only [step]; rw [deallocFail_state]; rfl, by simp⟩
  | poke => exact ⟨[], rfl, by simp⟩

/-- the log only grows -/
theorem run_log_append (s : State) (ops : List Op) : ∃ e, (run s ops).log = e ++ s.log := by
  induction ops generalizing s with
  | nil => exact ⟨[], rfl⟩
  | cons op ops ih =>
    obtain ⟨e, he⟩ := ih (step s op).1
    obtain ⟨d, hd, _⟩ := step_log_shape s op
    refine ⟨e ++ d, ?_⟩
    show (run (step s op).1 ops).log = _
    rw [he, hd, List.append_assoc]

/-- every chronological prefix of the log (at least as long as the log the history started from) is the log of a
    prefix of the history -/
theorem log_prefix_is_log_of_prefix (s : State) (ops : List Op) (n : Nat)
    (hlo : s.log.length ≤ n) (hhi : n ≤ (run s ops).log.length) :
    ∃ ops', ops' <+: ops ∧ (run s ops').log = (run s ops).log.drop ((run s ops).log.length - n) := by
  induction ops generalizing s with
  | nil =>
    refine ⟨[], List.prefix_refl _, ?_⟩
    have hr : run s [] = s := rfl
    rw [hr] at hhi ⊢
    have : s.log.length - n = 0 := by omega
    rw [this]; rfl
  | cons op ops ih =>
    obtain ⟨d, hd, hd1⟩ := step_log_shape s op
    have hrun : run s (op :: ops) = run (step s op).1 ops := rfl
    by_cases hn : (step s op).1.log.length ≤ n
    · obtain ⟨ops', hp, he⟩ := ih (step s op).1 hn (by rw [← hrun]; exact hhi)
      refine ⟨op :: ops', ?_, ?_⟩
      · obtain ⟨t, ht⟩ := hp
        exact ⟨t, by rw [List.cons_append, ht]⟩
      · rw [hrun]; exact he
    · -- n is the length of the log the history started from
      have hlen : (step s op).1.log.length = d.length + s.log.length := by rw [hd, List.length_append]
      have hn' : n = s.log.length := by omega
      obtain ⟨e, he⟩ := run_log_append s (op :: ops)
      refine ⟨[], List.nil_prefix, ?_⟩
      rw [he, List.length_append, hn']
      have : e.length + s.log.length - s.log.length = e.length := by omega
      rw [this, List.drop_left]
      rfl

end Bng.Cgnat

namespace Bng.NatLog
open Bng Bng.Cgnat

theorem recordsOf_of_append {s s' : Cgnat.State} {d : List LogEntry} (h : s'.log = d ++ s.log) :
    recordsOf s s' = d.reverse := by
  unfold recordsOf
  rw [h, List.length_append]
  have : d.length + s.log.length - s.log.length = d.length := by omega
  rw [this, List.take_left]

/-- manager and logger agree: what the logger has written or still holds is the manager's record sequence -/
def Agree (x : Sys) : Prop := (everything x.lg).reverse = x.m.log

theorem agree_step {x : Sys} (h : Agree x) (op : SysOp) : Agree (sysStep x op) := by
  cases op with
  | ctl c =>
    show (everything (ctl x.lg c)).reverse = x.m.log
    rw [everything_ctl]; exact h
  | call op =>
    obtain ⟨d, hd, _⟩ := step_log_shape x.m op
    show (everything ((recordsOf x.m (Cgnat.step x.m op).1).foldl add x.lg)).reverse = (Cgnat.step x.m op).1.log
    rw [recordsOf_of_append hd, everything_foldl_add, List.reverse_append, List.reverse_reverse, h, hd]

theorem agree_run {x : Sys} (h : Agree x) (ops : List SysOp) : Agree (sysRun x ops) := by
  induction ops generalizing x with
  | nil => exact h
  | cons op ops ih => exact ih (agree_step h op)

/-- the manager half of a combined history is the manager's own history of its calls -/
theorem sysRun_m (x : Sys) (ops : List SysOp) : (sysRun x ops).m = Cgnat.run x.m (calls ops) := by
  induction ops generalizing x with
  | nil => rfl
  | cons op ops ih =>
    show (sysRun (sysStep x op) ops).m = _
    rw [ih]
    cases op <;> rfl

end Bng.NatLog
