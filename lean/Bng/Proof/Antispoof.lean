import Bng.Model.Antispoof
import Bng.Proof.TokenBucket
/-
  Helper lemmas for C18: byte-order facts, the LPM lookup, and `antispoof_ingress` on complete IPv4 / IPv6
  frames as one decision expression.
-/
namespace Bng.Antispoof
open Bng Bng.TokenBucket

theorem leNat_inj : ∀ (a b : Bytes), a.length = b.length → leNat a = leNat b → a = b
  | [], [], _, _ => rfl
  | [], _ :: _, h, _ => by simp at h
  | _ :: _, [], h, _ => by simp at h
  | x :: xs, y :: ys, h, e => by
    simp only [leNat] at e
    have hx := x.toNat_lt; have hy := y.toNat_lt
    have p8 : (2 : Nat) ^ 8 = 256 := by norm_num
    rw [p8] at hx hy
    have h1 : x.toNat = y.toNat := by omega
    have h2 : leNat xs = leNat ys := by omega
    have := leNat_inj xs ys (by simpa using h) h2
    rw [UInt8.toNat_inj.mp h1, this]

theorem beNat4 (a b c d : UInt8) : beNat [a, b, c, d] = a.toNat * 16777216 + b.toNat * 65536 + c.toNat * 256 + d.toNat := by
  simp [beNat]; omega

theorem leBytes4_beNat (a b c d : UInt8) : leBytes 4 (beNat [a, b, c, d]) = [d, c, b, a] := by
  rw [beNat4]
  have ha := a.toNat_lt; have hb := b.toNat_lt; have hc := c.toNat_lt; have hd := d.toNat_lt
  have p8 : (2 : Nat) ^ 8 = 256 := by norm_num
  rw [p8] at ha hb hc hd
  simp only [leBytes]
  have e1 : (a.toNat * 16777216 + b.toNat * 65536 + c.toNat * 256 + d.toNat) % 256 = d.toNat := by omega
  have e2 : (a.toNat * 16777216 + b.toNat * 65536 + c.toNat * 256 + d.toNat) / 256 % 256 = c.toNat := by omega
  have e3 : (a.toNat * 16777216 + b.toNat * 65536 + c.toNat * 256 + d.toNat) / 256 / 256 % 256 = b.toNat := by omega
  have e4 : (a.toNat * 16777216 + b.toNat * 65536 + c.toNat * 256 + d.toNat) / 256 / 256 / 256 % 256 = a.toNat := by omega
  rw [e1, e2, e3, e4]
  simp

theorem lpmBest_isSome_iff (want : Nat) (data : Bytes) (rs : AMap Bytes Bytes) :
    (lpmBest want data rs).isSome ↔
      ∃ k v, (k, v) ∈ rs ∧ prefixLen k ≤ want ∧ prefixMatch (prefixLen k) (k.drop 4) data = true := by
  induction rs with
  | nil => simp [lpmBest]
  | cons e rest ih =>
    obtain ⟨k, v⟩ := e
    simp only [lpmBest]
    by_cases h : prefixLen k ≤ want ∧ prefixMatch (prefixLen k) (k.drop 4) data = true
    · rw [if_pos h]
      constructor
      · intro _; exact ⟨k, v, by simp, h.1, h.2⟩
      · intro _
        cases hr : lpmBest want data rest with
        | none => simp
        | some p => obtain ⟨bp, bv⟩ := p; simp only []; split <;> simp
    · rw [if_neg h, ih]
      constructor
      · rintro ⟨k', v', hm, h1, h2⟩; exact ⟨k', v', by simp [hm], h1, h2⟩
      · rintro ⟨k', v', hm, h1, h2⟩
        simp only [List.mem_cons, Prod.mk.injEq] at hm
        rcases hm with ⟨rfl, rfl⟩ | hm
        · exact absurd ⟨h1, h2⟩ h
        · exact ⟨k', v', hm, h1, h2⟩
/-- an untagged Ethernet II frame from `mac` carrying a complete IPv4 header with source `src` -/
def V4Frame (frame mac src : Bytes) : Prop :=
  34 ≤ frame.length ∧ (frame.drop 12).take 2 = [0x08, 0x00] ∧ (frame.drop 6).take 6 = mac ∧
  (frame.drop 26).take 4 = src

theorem macKeyOfFrame_eq {frame mac : Bytes} (h : (frame.drop 6).take 6 = mac) :
    macKeyOfFrame frame = macKey mac := by
  unfold macKeyOfFrame macKey; rw [h]

theorem run_of_mac (m : Maps) (frame mac : Bytes) (hmac : (frame.drop 6).take 6 = mac) (hlen : 14 ≤ frame.length) :
    run m frame = runBody m frame (bindingOf m mac) (modeInForce m mac) := by
  unfold run modeInForce bindingOf
  rw [if_neg (by omega), macKeyOfFrame_eq hmac]

/-- the program's decision on a complete IPv4 frame, as one expression -/
theorem run_v4 (m : Maps) (frame mac src : Bytes) (hf : V4Frame frame mac src) :
    (run m frame).ret =
      (let mode := modeInForce m mac
       if mode = DISABLED then TC_ACT_OK
       else
         let allowed : Bool :=
           if mode = LOOSE then inAllowedRange m src
           else match bindingOf m mac with
             | some b => decide (b.valid4 ≠ 0 ∧ (mode = STRICT ∨ mode = LOG_ONLY) ∧ leNat src.reverse = leNat b.addr4)
             | none => false
         if allowed ∨ mode = LOG_ONLY then TC_ACT_OK else TC_ACT_SHOT) := by
  obtain ⟨hlen, hty, hmac, hsrc⟩ := hf
  have h34 : ¬ frame.length < 34 := by omega
  rw [run_of_mac m frame mac hmac (by omega)]
  unfold runBody modeInForce
  generalize m.config.headD 0 = dm
  generalize (m.config.drop 1).headD 0 = lg
  generalize bindingOf m mac = ob
  simp only [h34, hty, hsrc, if_false, if_true, DISABLED, LOOSE, STRICT, LOG_ONLY, TC_ACT_OK, TC_ACT_SHOT]
  cases ob with
  | none =>
    simp only []
    by_cases h0 : dm = 0
    · simp [h0]
    · by_cases hl : dm = 2
      · cases hr : inAllowedRange m src <;> simp [hl, hr]
      · by_cases h3 : dm = 3 <;> simp [h0, hl, h3]
  | some b =>
    simp only []
    by_cases h0 : b.mode = 0
    · simp [h0]
    · by_cases hl : b.mode = 2
      · cases hr : inAllowedRange m src <;> simp [hl, hr]
      · by_cases hv : b.valid4 = 0
        · by_cases h3 : b.mode = 3 <;> simp [h0, hl, hv, h3]
        · by_cases h1 : b.mode = 1
          · by_cases he : leNat src.reverse = leNat b.addr4 <;> simp [hv, h1, he]
          · by_cases h3 : b.mode = 3
            · by_cases he : leNat src.reverse = leNat b.addr4 <;> simp [hv, h3, he]
            · simp [h0, hl, hv, h1, h3]

/-- an untagged Ethernet II frame from `mac` carrying a complete IPv6 header with source `src` -/
def V6Frame (frame mac src : Bytes) : Prop :=
  54 ≤ frame.length ∧ (frame.drop 12).take 2 = [0x86, 0xdd] ∧ (frame.drop 6).take 6 = mac ∧
  (frame.drop 22).take 16 = src

/-- the program's decision on a complete IPv6 frame, as one expression -/
theorem run_v6 (m : Maps) (frame mac src : Bytes) (hf : V6Frame frame mac src) :
    (run m frame).ret =
      (let mode := modeInForce m mac
       if mode = DISABLED then TC_ACT_OK
       else
         let allowed : Bool :=
           match bindingOf m mac with
           | some b => if b.valid6 ≠ 0 then decide (src = b.addr6) else decide (mode = LOOSE)
           | none => decide (mode = LOOSE)
         if allowed ∨ mode = LOG_ONLY then TC_ACT_OK else TC_ACT_SHOT) := by
  obtain ⟨hlen, hty, hmac, hsrc⟩ := hf
  have h54 : ¬ frame.length < 54 := by omega
  have hne : ¬ ([0x86, 0xdd] : Bytes) = [0x08, 0x00] := by decide
  rw [run_of_mac m frame mac hmac (by omega)]
  unfold runBody modeInForce
  generalize m.config.headD 0 = dm
  generalize (m.config.drop 1).headD 0 = lg
  generalize bindingOf m mac = ob
  simp only [h54, hty, hsrc, hne, if_false, if_true, DISABLED, LOOSE, STRICT, LOG_ONLY, TC_ACT_OK, TC_ACT_SHOT]
  cases ob with
  | none =>
    simp only []
    by_cases h0 : dm = 0
    · simp [h0]
    · by_cases hl : dm = 2
      · simp [hl]
      · by_cases h3 : dm = 3 <;> simp [h0, hl, h3]
  | some b =>
    simp only []
    by_cases h0 : b.mode = 0
    · simp [h0]
    · by_cases hv : b.valid6 = 0
      · by_cases hl : b.mode = 2
        · simp [hv, hl]
        · by_cases h3 : b.mode = 3 <;> simp [h0, hv, hl, h3]
      · by_cases he : src = b.addr6
        · simp [h0, hv, he]
        · by_cases h3 : b.mode = 3 <;> simp [h0, hv, he, h3]

/-! ## bytes written by the manager -/

theorem fit_of_length {n : Nat} {bs : Bytes} (h : bs.length = n) : fit n bs = bs := by
  unfold fit; exact take_app bs (zeros n) n h

theorem length_fit (n : Nat) (bs : Bytes) : (fit n bs).length = n := by
  unfold fit zeros; simp

theorem Binding.decode_encode (b : Binding) (h4 : b.addr4.length = 4) (h6 : b.addr6.length = 16) :
    Binding.decode b.encode = some b := by
  have hl : b.encode.length = 24 := by
    unfold Binding.encode; simp [length_fit]
  unfold Binding.decode
  rw [if_pos hl]
  unfold Binding.encode
  rw [fit_of_length h4, fit_of_length h6]
  have e1 : b.addr4 ++ b.addr6 ++ [b.valid4, b.valid6, b.mode, b.pad]
      = b.addr4 ++ (b.addr6 ++ [b.valid4, b.valid6, b.mode, b.pad]) := by simp
  have e2 : ∀ n, (b.addr4 ++ b.addr6 ++ [b.valid4, b.valid6, b.mode, b.pad]).drop (20 + n)
      = ([b.valid4, b.valid6, b.mode, b.pad] : Bytes).drop n := by
    intro n
    rw [← List.drop_drop, drop_app _ _ 20 (by simp [h4, h6])]
  have d20 : (b.addr4 ++ b.addr6 ++ [b.valid4, b.valid6, b.mode, b.pad]).drop 20 = [b.valid4, b.valid6, b.mode, b.pad] := e2 0
  have d21 : (b.addr4 ++ b.addr6 ++ [b.valid4, b.valid6, b.mode, b.pad]).drop 21 = [b.valid6, b.mode, b.pad] := e2 1
  have d22 : (b.addr4 ++ b.addr6 ++ [b.valid4, b.valid6, b.mode, b.pad]).drop 22 = [b.mode, b.pad] := e2 2
  have d23 : (b.addr4 ++ b.addr6 ++ [b.valid4, b.valid6, b.mode, b.pad]).drop 23 = [b.pad] := e2 3
  rw [d20, d21, d22, d23]
  rw [e1, take_app _ _ 4 h4, drop_app _ _ 4 h4, take_app _ _ 16 h6]
  simp

theorem decode_lengths {v : Bytes} {b : Binding} (h : Binding.decode v = some b) :
    b.addr4.length = 4 ∧ b.addr6.length = 16 := by
  unfold Binding.decode at h
  split at h
  · rename_i hl
    injection h with h
    subst h
    simp only [List.length_take, List.length_drop]
    omega
  · simp at h

theorem length_leBytes' (w n : Nat) : (leBytes w n).length = w := length_leBytes w n

/-! ## the LPM trie -/

theorem prefixLen_key (len : Nat) (data : Bytes) (h : len < 2 ^ 32) : prefixLen (leBytes 4 len ++ data) = len := by
  unfold prefixLen
  rw [take_app _ _ 4 (length_leBytes 4 len), leNat_leBytes]
  have : (256 : Nat) ^ 4 = 2 ^ 32 := by norm_num
  rw [this]; exact Nat.mod_eq_of_lt h

theorem drop_key (len : Nat) (data : Bytes) : (leBytes 4 len ++ data).drop 4 = data :=
  drop_app _ _ 4 (length_leBytes 4 len)

theorem prefixMatch_trans {n : Nat} {a b c : Bytes} (h1 : prefixMatch n a b = true) (h2 : prefixMatch n a c = true) :
    prefixMatch n b c = true := by
  unfold prefixMatch at *
  simp only [Bool.and_eq_true, decide_eq_true_eq] at *
  exact ⟨h1.1, h1.2.symm.trans h2.2⟩

theorem inAllowedRange_iff (m : Maps) (src : Bytes) : inAllowedRange m src = true ↔ inRanges m src := by
  unfold inAllowedRange lpmLookup inRanges
  rw [prefixLen_key 32 src (by norm_num), drop_key]
  rw [if_neg (by omega)]
  rw [Option.isSome_map, lpmBest_isSome_iff]

theorem inRanges_addAllowedRange (m : Maps) (ip : Bytes) (len : Nat) (hip : ip.length = 4) (hlen : len ≤ 32)
    (src : Bytes) :
    inRanges (addAllowedRange m ip len) src ↔ inRanges m src ∨ inNet src ip len = true := by
  unfold inRanges addAllowedRange lpmInsert inNet
  simp only [fit_of_length hip]
  have hpl : prefixLen (leBytes 4 len ++ ip) = len := prefixLen_key len ip (by omega)
  have hdr : (leBytes 4 len ++ ip).drop 4 = ip := drop_key len ip
  constructor
  · rintro ⟨k, v, hm, h1, h2⟩
    simp only [List.mem_cons, Prod.mk.injEq, List.mem_filter] at hm
    rcases hm with ⟨rfl, _⟩ | ⟨hm, _⟩
    · right; rw [hpl, hdr] at h2; exact h2
    · left; exact ⟨k, v, hm, h1, h2⟩
  · rintro (⟨k, v, hm, h1, h2⟩ | h)
    · by_cases hs : sameNode k (leBytes 4 len ++ ip) = true
      · -- the old node was replaced by the new one, which covers the same addresses
        refine ⟨leBytes 4 len ++ ip, [1], by simp, by rw [hpl]; exact hlen, ?_⟩
        unfold sameNode at hs
        simp only [Bool.and_eq_true, decide_eq_true_eq] at hs
        rw [hpl, hdr] at hs ⊢
        obtain ⟨hs1, hs2⟩ := hs
        rw [hs1] at hs2 h2
        exact prefixMatch_trans hs2 h2
      · refine ⟨k, v, ?_, h1, h2⟩
        simp only [List.mem_cons, List.mem_filter]
        right; exact ⟨hm, by simpa using hs⟩
    · exact ⟨leBytes 4 len ++ ip, [1], by simp, by rw [hpl]; exact hlen, by rw [hpl, hdr]; exact h⟩

/-! ## MAC keys -/

theorem beNat6 (a b c d e f : UInt8) :
    beNat [a, b, c, d, e, f] = a.toNat * 1099511627776 + b.toNat * 4294967296 + c.toNat * 16777216 + d.toNat * 65536 + e.toNat * 256 + f.toNat := by
  simp [beNat]; omega

theorem macKey_inj (a b c d e f a' b' c' d' e' f' : UInt8)
    (h : macKey [a, b, c, d, e, f] = macKey [a', b', c', d', e', f']) :
    ([a, b, c, d, e, f] : Bytes) = [a', b', c', d', e', f'] := by
  unfold macKey at h
  have h2 := congrArg leNat h
  rw [leNat_leBytes, leNat_leBytes, beNat6, beNat6] at h2
  have p : (256 : Nat) ^ 8 = 18446744073709551616 := by norm_num
  rw [p] at h2
  have p8 : (2 : Nat) ^ 8 = 256 := by norm_num
  have ha := a.toNat_lt; have hb := b.toNat_lt; have hc := c.toNat_lt; have hd := d.toNat_lt; have he := e.toNat_lt; have hf := f.toNat_lt
  have ha' := a'.toNat_lt; have hb' := b'.toNat_lt; have hc' := c'.toNat_lt; have hd' := d'.toNat_lt; have he' := e'.toNat_lt; have hf' := f'.toNat_lt
  rw [p8] at ha hb hc hd he hf ha' hb' hc' hd' he' hf'
  have e1 : a.toNat = a'.toNat := by omega
  have e2 : b.toNat = b'.toNat := by omega
  have e3 : c.toNat = c'.toNat := by omega
  have e4 : d.toNat = d'.toNat := by omega
  have e5 : e.toNat = e'.toNat := by omega
  have e6 : f.toNat = f'.toNat := by omega
  rw [UInt8.toNat_inj.mp e1, UInt8.toNat_inj.mp e2, UInt8.toNat_inj.mp e3, UInt8.toNat_inj.mp e4, UInt8.toNat_inj.mp e5, UInt8.toNat_inj.mp e6]

/-! ## lengths -/

theorem src4_length {frame mac src : Bytes} (hf : V4Frame frame mac src) : src.length = 4 := by
  obtain ⟨hlen, _, _, hsrc⟩ := hf
  rw [← hsrc, List.length_take, List.length_drop]; omega

theorem bindingOf_lengths {m : Maps} {mac : Bytes} {b : Binding} (h : bindingOf m mac = some b) :
    b.addr4.length = 4 ∧ b.addr6.length = 16 := by
  unfold bindingOf at h
  cases hl : AMap.lookup m.bindings (macKey mac) with
  | none => rw [hl] at h; simp at h
  | some v => rw [hl] at h; exact decode_lengths h


/-! ## read-modify-write of a record, SetMode over all records -/

theorem existing_lengths (m : Maps) (mac : Bytes) :
    (((AMap.lookup m.bindings (macKey mac)).bind Binding.decode).getD {}).addr4.length = 4 ∧
    (((AMap.lookup m.bindings (macKey mac)).bind Binding.decode).getD {}).addr6.length = 16 := by
  cases hb : (AMap.lookup m.bindings (macKey mac)).bind Binding.decode with
  | none => exact ⟨rfl, rfl⟩
  | some b =>
    cases hl : AMap.lookup m.bindings (macKey mac) with
    | none => rw [hl] at hb; simp at hb
    | some v => rw [hl] at hb; exact decode_lengths hb

theorem lookup_mapVal (f : Bytes → Bytes) (t : AMap Bytes Bytes) (k : Bytes) :
    AMap.lookup (t.map fun e => (e.1, f e.2)) k = (AMap.lookup t k).map f := by
  induction t with
  | nil => rfl
  | cons e rest ih =>
    obtain ⟨k', v⟩ := e
    simp only [List.map_cons, AMap.lookup_cons]
    by_cases h : k' = k
    · simp [h]
    · simp [h, ih]

theorem decode_withMode (v : Bytes) (mode : UInt8) :
    Binding.decode (withMode v mode) = (Binding.decode v).map fun b => { b with mode := mode } := by
  unfold withMode
  cases hd : Binding.decode v with
  | none => simp [hd]
  | some b =>
    obtain ⟨h4, h6⟩ := decode_lengths hd
    simp only [Option.map_some]
    exact Binding.decode_encode _ h4 h6

theorem bindingOf_setMode (g : Mgr) (m : Maps) (mode : UInt8) (mac : Bytes) :
    bindingOf (setMode g m mode).2 mac = (bindingOf m mac).map fun b => { b with mode := mode } := by
  unfold bindingOf setMode
  simp only []
  have hl := lookup_mapVal (fun v => withMode v mode) m.bindings (macKey mac)
  rw [hl]
  cases AMap.lookup m.bindings (macKey mac) with
  | none => rfl
  | some v => simp only [Option.map_some, Option.bind_some]; exact decode_withMode v mode

end Bng.Antispoof
