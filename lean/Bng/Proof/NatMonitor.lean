import Bng.Proof.Nat
/-
  The C10 monitor (`Cgnat.Spec.check`) never fires on the model's own observations: the refinement
  link between the executable specification that judges the real code and the theorems of Spec/C10.
-/
namespace Bng.Cgnat
open Bng AMap Spec

def blkOf (a : Alloc) : Blk := { pub := a.pub, lo := a.portStart.toNat, hi := a.portEnd.toNat }

/-- what the API answer of one call tells the monitor (as the driver derives it from the observation) -/
def apiEvents : Op → Obs → List Ev
  | .allocPre k, .alloc a => [.got k (blkOf a)]
  | .allocCommit k, .alloc a => [.got k (blkOf a)]
  | .alloc k, .alloc a => [.got k (blkOf a)]
  | .dealloc k, .ok => [.released k]
  | .get k, .alloc a => [.got k (blkOf a)]
  | .get k, .none => [.lookedNone k]
  | .commitFail k, .alloc a => [.got k (blkOf a)]
  | .allocFail k, .alloc a => [.got k (blkOf a)]
  | .deallocFail k, .ok => [.released k]
  | _, _ => []

/-- the records a step wrote, oldest first -/
def newRecords (s s' : State) : List LogEntry := (s'.log.take (s'.log.length - s.log.length)).reverse

/-- everything the monitor is fed for one call: the answer, the records written, "the call has returned" -/
def eventsOf (s : State) (op : Op) : List Ev :=
  apiEvents op (step s op).2 ++ (newRecords s (step s op).1).map Ev.logged ++ [Ev.settled]

/-- all verdicts the monitor emits along a run of the model -/
def monRun (c : Cfg) : Mon → State → List Op → List Verdict
  | _, _, [] => []
  | m, s, op :: ops =>
    (feed c m (eventsOf s op)).2 ++ monRun c (feed c m (eventsOf s op)).1 (step s op).1 ops

/-- the monitor's picture agrees with the model state -/
structure MI (m : Mon) (s : State) : Prop where
  nd : NodupKeys m.held
  hl : ∀ k, AMap.lookup m.held k = (AMap.lookup s.allocs k).map blkOf
  lh : m.logHeld = holders s.cfg s.log

theorem feed_nil (c : Cfg) (m : Mon) : feed c m [] = (m, []) := rfl

theorem feed_cons (c : Cfg) (m : Mon) (ev : Ev) (evs : List Ev) :
    feed c m (ev :: evs) =
      ((feed c (check c m ev).1 evs).1, (check c m ev).2 ++ (feed c (check c m ev).1 evs).2) := by
  unfold feed
  simp only [List.foldl_cons, List.nil_append]
  generalize (check c m ev).1 = m'
  generalize (check c m ev).2 = vs
  -- the accumulated verdict prefix is carried through unchanged
  have : ∀ (evs : List Ev) (m : Mon) (pre : List Verdict),
      evs.foldl (fun acc ev => ((check c acc.1 ev).1, acc.2 ++ (check c acc.1 ev).2)) (m, pre) =
        ((evs.foldl (fun acc ev => ((check c acc.1 ev).1, acc.2 ++ (check c acc.1 ev).2)) (m, [])).1,
         pre ++ (evs.foldl (fun acc ev => ((check c acc.1 ev).1, acc.2 ++ (check c acc.1 ev).2)) (m, [])).2) := by
    intro evs
    induction evs with
    | nil => intro m pre; simp
    | cons e es ih =>
      intro m pre
      simp only [List.foldl_cons, List.nil_append]
      rw [ih, ih (check c m e).1 (check c m e).2]
      simp [List.append_assoc]
  rw [this evs m' vs]

theorem feed_append (c : Cfg) (m : Mon) (e₁ e₂ : List Ev) :
    feed c m (e₁ ++ e₂) = ((feed c (feed c m e₁).1 e₂).1, (feed c m e₁).2 ++ (feed c (feed c m e₁).1 e₂).2) := by
  induction e₁ generalizing m with
  | nil => simp [feed_nil]
  | cons e es ih =>
    simp only [List.cons_append, feed_cons, ih, List.append_assoc]

/-! ## generic association-list facts -/

theorem mem_erase_iff {ν : Type} (m : AMap Nat ν) (k : Nat) (p : Nat × ν) :
    p ∈ AMap.erase m k ↔ p ∈ m ∧ p.1 ≠ k := by
  induction m with
  | nil => simp
  | cons q rest ih =>
    obtain ⟨a, b⟩ := q
    rw [erase_cons]
    by_cases h : a = k
    · simp only [h, if_true, ih, List.mem_cons]
      constructor
      · rintro ⟨h1, h2⟩; exact ⟨Or.inr h1, h2⟩
      · rintro ⟨h1 | h1, h2⟩
        · exfalso; apply h2; rw [h1]
        · exact ⟨h1, h2⟩
    · simp only [h, if_false, List.mem_cons, ih]
      constructor
      · rintro (h1 | ⟨h1, h2⟩)
        · exact ⟨Or.inl h1, by rw [h1]; exact h⟩
        · exact ⟨Or.inr h1, h2⟩
      · rintro ⟨h1 | h1, h2⟩
        · exact Or.inl h1
        · exact Or.inr ⟨h1, h2⟩

/-! ## the individual clauses -/

theorem inRange_of_inv {s : State} (hv : ValidCfg s.cfg) (hI : Inv s) {k : Nat} {a : Alloc}
    (h : AMap.lookup s.allocs k = some a) : inRange s.cfg (blkOf a) = true := by
  have w := hI.wf _ (mem_of_lookup h)
  have e1 : a.portStart.toNat = s.cfg.rangeStart + a.slot * s.cfg.pps := (WF.hi_eq hv w).1
  have e2 : a.portEnd.toNat = s.cfg.rangeStart + a.slot * s.cfg.pps + s.cfg.pps - 1 := (WF.hi_eq hv w).2
  have hle : s.cfg.rangeStart + (a.slot + 1) * s.cfg.pps ≤ s.cfg.rangeEnd + 1 := slot_end_le s.cfg hv w.slot
  have em : (a.slot + 1) * s.cfg.pps = a.slot * s.cfg.pps + s.cfg.pps := by rw [Nat.add_mul, Nat.one_mul]
  have := hv.1
  unfold inRange blkOf
  simp only [Bool.and_eq_true, decide_eq_true_eq]
  generalize a.slot * s.cfg.pps = x at *
  refine ⟨⟨⟨?_, ?_⟩, ?_⟩, ?_⟩ <;> omega

theorem overlaps_false_of_disjoint {a₁ a₂ : Alloc}
    (h : a₁.pub = a₂.pub → a₁.portEnd.toNat < a₂.portStart.toNat ∨ a₂.portEnd.toNat < a₁.portStart.toNat) :
    overlaps (blkOf a₁) (blkOf a₂) = false := by
  unfold overlaps blkOf
  by_cases hp : a₁.pub = a₂.pub
  · have := h hp
    simp only [hp, beq_self_eq_true, Bool.true_and, Bool.and_eq_false_iff, decide_eq_false_iff_not]
    omega
  · have : (a₁.pub == a₂.pub) = false := by simpa using hp
    simp [this]

theorem check_got_silent {m : Mon} {s : State} {k : Nat} {a : Alloc} (hv : ValidCfg s.cfg) (hI : Inv s)
    (nd : NodupKeys m.held) (hk : AMap.lookup s.allocs k = some a)
    (hold : AMap.lookup m.held k = none ∨ AMap.lookup m.held k = some (blkOf a))
    (hoth : ∀ k' b', k' ≠ k → AMap.lookup m.held k' = some b' →
      ∃ a', AMap.lookup s.allocs k' = some a' ∧ b' = blkOf a') :
    (check s.cfg m (.got k (blkOf a))).2 = [] := by
  have h1 := inRange_of_inv hv hI hk
  have h3 : (AMap.erase m.held k).find? (fun p => overlaps p.2 (blkOf a)) = none := by
    rw [List.find?_eq_none]
    intro p hp
    rw [mem_erase_iff] at hp
    have hl := lookup_of_mem nd (show (p.1, p.2) ∈ m.held from hp.1)
    obtain ⟨a', ha', hb'⟩ := hoth p.1 p.2 hp.2 hl
    rw [hb']
    have := overlaps_false_of_disjoint (a₁ := a') (a₂ := a)
      (fun hpub => disjoint_of_inv hv hI ha' hk hp.2 hpub)
    simp [this]
  simp only [check, h1, if_true, List.nil_append, h3, List.append_nil]
  rcases hold with h | h
  · simp [h]
  · simp [h]

theorem logAmbiguous_none {l : List Held} (h : l.Pairwise (fun x y => heldOverlap x y = false)) :
    logAmbiguous l = none := by
  induction l with
  | nil => rfl
  | cons x rest ih =>
    rw [List.pairwise_cons] at h
    unfold logAmbiguous
    have : rest.find? (heldOverlap x) = none := by
      rw [List.find?_eq_none]
      intro y hy
      simp [h.1 y hy]
    rw [this]
    exact ih h.2

theorem holders_pairwise {s : State} (hv : ValidCfg s.cfg) (hI : Inv s) (hlog : s.cfg.logOn = true) :
    (holders s.cfg s.log).Pairwise (fun x y => heldOverlap x y = false) := by
  rw [hI.lg hlog, List.pairwise_map]
  refine List.Pairwise.imp_of_mem ?_ hI.pw
  intro p q hp hq hap
  have := apart_disjoint hv hI.ips (hI.wf p hp) (hI.wf q hq) hap
  unfold heldOverlap heldOf
  by_cases hpub : p.2.pub = q.2.pub
  · have := this hpub
    simp only [hpub, beq_self_eq_true, Bool.true_and, Bool.and_eq_false_iff, decide_eq_false_iff_not]
    omega
  · have : (p.2.pub == q.2.pub) = false := by simpa using hpub
    simp [this]

theorem check_settled_silent {m : Mon} {s : State} (hI : Inv s) (hm : MI m s) :
    (check s.cfg m .settled).2 = [] := by
  unfold check
  simp only
  by_cases hlog : s.cfg.logOn = true
  · simp only [hlog, Bool.not_true, Bool.false_eq_true, if_false]
    have lh : m.logHeld = s.allocs.map heldOf := by rw [hm.lh, hI.lg hlog]
    have nda := nodupKeys_of_pairwise hI.pw
    rw [List.append_eq_nil_iff]
    constructor
    · rw [List.filterMap_eq_nil_iff]
      intro p hp
      obtain ⟨k, b⟩ := p
      have hl := lookup_of_mem hm.nd hp
      rw [hm.hl k] at hl
      cases ha : AMap.lookup s.allocs k with
      | none => rw [ha] at hl; simp at hl
      | some a =>
        rw [ha] at hl
        simp only [Option.map_some, Option.some.injEq] at hl
        have hmem := mem_of_lookup ha
        have w := hI.wf _ hmem
        have : (m.logHeld.any fun x => x.priv == k && x.pub == b.pub && x.lo == b.lo && x.hi == b.hi) = true := by
          rw [List.any_eq_true]
          refine ⟨heldOf (k, a), ?_, ?_⟩
          · rw [lh]; exact List.mem_map_of_mem hmem
          · have hp' : a.priv = k := w.priv
            subst hl
            simp [heldOf, blkOf, hp']
        simp [this]
    · rw [List.filterMap_eq_nil_iff]
      intro x hx
      rw [lh] at hx
      obtain ⟨p, hp, rfl⟩ := List.mem_map.mp hx
      have w := hI.wf p hp
      have hl : AMap.lookup s.allocs p.1 = some p.2 := lookup_of_mem nda hp
      have : AMap.lookup m.held (heldOf p).priv = some { pub := (heldOf p).pub, lo := (heldOf p).lo, hi := (heldOf p).hi } := by
        have hp' : (heldOf p).priv = p.1 := w.priv
        rw [hp', hm.hl p.1, hl]
        rfl
      simp [this]
  · have : s.cfg.logOn = false := by simpa using hlog
    simp [this]

/-! ## one call -/

/-- the API half of the monitor's picture -/
structure HI (m : Mon) (s : State) : Prop where
  nd : NodupKeys m.held
  hl : ∀ k, AMap.lookup m.held k = (AMap.lookup s.allocs k).map blkOf

theorem feed_single (c : Cfg) (m : Mon) (ev : Ev) : feed c m [ev] = ((check c m ev).1, (check c m ev).2) := by
  rw [feed_cons, feed_nil]; simp

theorem newRecords_of_append {s s' : State} {d : List LogEntry} (h : s'.log = d ++ s.log) :
    newRecords s s' = d.reverse := by
  unfold newRecords
  rw [h, List.length_append, Nat.add_sub_cancel, List.take_left']
  rfl

/-- feeding the records of one call (at most one) and then "settled" -/
theorem feed_events_silent {m : Mon} {s s' : State} {api : List Ev} {d : List LogEntry}
    (hv : ValidCfg s'.cfg) (hI' : Inv s') (hcfg : s'.cfg = s.cfg)
    (hlog : s'.log = d ++ s.log) (hd : d = [] ∨ (s'.cfg.logOn = true ∧ ∃ e, d = [e])) (hm : MI m s)
    (h2 : (feed s.cfg m api).2 = []) (hlh : (feed s.cfg m api).1.logHeld = m.logHeld)
    (hhi : HI (feed s.cfg m api).1 s') :
    (feed s.cfg m (api ++ (d.reverse.map Ev.logged ++ [Ev.settled]))).2 = [] ∧
    MI (feed s.cfg m (api ++ (d.reverse.map Ev.logged ++ [Ev.settled]))).1 s' := by
  rw [feed_append, h2, List.nil_append]
  generalize (feed s.cfg m api).1 = m₁ at *
  have hl₁ : m₁.logHeld = holders s.cfg s.log := by rw [hlh, hm.lh]
  rcases hd with hd | ⟨hlogOn, e, hd⟩
  · subst hd
    simp only [List.reverse_nil, List.map_nil, List.nil_append]
    rw [feed_single]
    have hm₁ : MI m₁ s' := ⟨hhi.nd, hhi.hl, by rw [hl₁, hcfg, hlog]; rfl⟩
    have := check_settled_silent hI' hm₁
    rw [hcfg] at this
    refine ⟨this, ?_⟩
    simp only [check]
    exact hm₁
  · subst hd
    simp only [List.reverse_cons, List.reverse_nil, List.nil_append, List.map_cons, List.map_nil,
      List.cons_append]
    rw [feed_cons, feed_single]
    -- the record
    have hnew : applyEntry s.cfg m₁.logHeld e = holders s'.cfg s'.log := by
      rw [hl₁, hlog, hcfg]; rfl
    have hamb : logAmbiguous (applyEntry s.cfg m₁.logHeld e) = none := by
      rw [hnew]; exact logAmbiguous_none (holders_pairwise hv hI' hlogOn)
    have hc1 : (check s.cfg m₁ (.logged e)).2 = [] := by simp only [check, hamb]
    have hm₂ : MI (check s.cfg m₁ (.logged e)).1 s' := by
      refine ⟨?_, ?_, ?_⟩
      · simp only [check]; exact hhi.nd
      · simp only [check]; exact hhi.hl
      · simp only [check]; exact hnew
    have := check_settled_silent hI' hm₂
    rw [hcfg] at this
    rw [hc1, this]
    refine ⟨rfl, ?_⟩
    simp only [check] at hm₂ ⊢
    exact hm₂

/-- the conclusion for one call, from a description of what the call did -/
theorem silent_of_shape {m : Mon} {s s' : State} {op : Op} {o : Obs} {api : List Ev} {d : List LogEntry}
    (hstep : step s op = (s', o)) (hapi : apiEvents op o = api)
    (hv : ValidCfg s'.cfg) (hI' : Inv s') (hcfg : s'.cfg = s.cfg)
    (hlog : s'.log = d ++ s.log) (hd : d = [] ∨ (s'.cfg.logOn = true ∧ ∃ e, d = [e])) (hm : MI m s)
    (h2 : (feed s.cfg m api).2 = []) (hlh : (feed s.cfg m api).1.logHeld = m.logHeld)
    (hhi : HI (feed s.cfg m api).1 s') :
    (feed s.cfg m (eventsOf s op)).2 = [] ∧ MI (feed s.cfg m (eventsOf s op)).1 (step s op).1 := by
  unfold eventsOf
  rw [hstep]
  simp only
  rw [hapi, newRecords_of_append hlog, List.append_assoc]
  exact feed_events_silent hv hI' hcfg hlog hd hm h2 hlh hhi

theorem api_nil {m : Mon} {s s' : State} (hm : MI m s) (ha : s'.allocs = s.allocs) (c : Cfg) :
    (feed c m []).2 = [] ∧ (feed c m []).1.logHeld = m.logHeld ∧ HI (feed c m []).1 s' := by
  rw [feed_nil]
  exact ⟨rfl, rfl, hm.nd, by rw [ha]; exact hm.hl⟩

theorem hi_insert {m : Mon} {s s' : State} {k : Nat} {a : Alloc} (hm : MI m s)
    (hl : ∀ k', AMap.lookup s'.allocs k' = if k' = k then some a else AMap.lookup s.allocs k') :
    HI { m with held := AMap.insert m.held k (blkOf a) } s' := by
  refine ⟨nodupKeys_insert hm.nd _ _, ?_⟩
  intro k'
  simp only
  rw [lookup_insert, hl k']
  by_cases e : k' = k
  · simp [e]
  · simp [e, hm.hl k']

theorem api_got {m : Mon} {s s' : State} {k : Nat} {a : Alloc} (hv : ValidCfg s'.cfg) (hI' : Inv s')
    (hcfg : s'.cfg = s.cfg) (hm : MI m s)
    (hold : AMap.lookup s.allocs k = none ∨ AMap.lookup s.allocs k = some a)
    (hl : ∀ k', AMap.lookup s'.allocs k' = if k' = k then some a else AMap.lookup s.allocs k') :
    (feed s.cfg m [.got k (blkOf a)]).2 = [] ∧ (feed s.cfg m [.got k (blkOf a)]).1.logHeld = m.logHeld ∧
    HI (feed s.cfg m [.got k (blkOf a)]).1 s' := by
  rw [feed_single]
  have hk : AMap.lookup s'.allocs k = some a := by rw [hl k]; simp
  have hsil := check_got_silent (m := m) hv hI' hm.nd hk
    (by rcases hold with h | h
        · left; rw [hm.hl k, h]; rfl
        · right; rw [hm.hl k, h]; rfl)
    (by intro k' b' hne hb
        rw [hm.hl k'] at hb
        cases ha : AMap.lookup s.allocs k' with
        | none => rw [ha] at hb; simp at hb
        | some a' =>
          rw [ha] at hb
          simp only [Option.map_some, Option.some.injEq] at hb
          refine ⟨a', ?_, hb.symm⟩
          rw [hl k']; simp [hne, ha])
  rw [hcfg] at hsil
  refine ⟨hsil, ?_, ?_⟩
  · simp only [check]
  · simp only [check]
    exact hi_insert hm hl

theorem api_released {m : Mon} {s s' : State} {k : Nat} (hm : MI m s)
    (hs' : s'.allocs = AMap.erase s.allocs k) (c : Cfg) :
    (feed c m [.released k]).2 = [] ∧ (feed c m [.released k]).1.logHeld = m.logHeld ∧
    HI (feed c m [.released k]).1 s' := by
  rw [feed_single]
  simp only [check]
  refine ⟨trivial, trivial, nodupKeys_erase hm.nd _, ?_⟩
  intro k'
  rw [lookup_erase, hs', lookup_erase, hm.hl k']
  by_cases e : k' = k <;> simp [e]

theorem api_lookedNone {m : Mon} {s : State} {k : Nat} (hm : MI m s)
    (hnone : AMap.lookup s.allocs k = none) (c : Cfg) :
    (feed c m [.lookedNone k]).2 = [] ∧ (feed c m [.lookedNone k]).1.logHeld = m.logHeld ∧
    HI (feed c m [.lookedNone k]).1 s := by
  rw [feed_single]
  have : AMap.lookup m.held k = none := by rw [hm.hl k, hnone]; rfl
  simp only [check, this]
  exact ⟨trivial, trivial, hm.nd, hm.hl⟩

/-! ## what each call does, in the vocabulary of the lemmas above -/

theorem logAllocation_shape (c : Cfg) (a : Alloc) :
    logAllocation c a = [] ∨ (c.logOn = true ∧ ∃ e, logAllocation c a = [e]) := by
  unfold logAllocation
  cases h : c.logOn
  · left; simp
  · right
    refine ⟨rfl, ?_⟩
    cases c.bulk <;> simp

theorem logDeallocation_shape (c : Cfg) (k pub : Nat) (ps : UInt16) :
    logDeallocation c k pub ps = [] ∨ (c.logOn = true ∧ ∃ e, logDeallocation c k pub ps = [e]) := by
  unfold logDeallocation
  cases h : c.logOn
  · left; simp
  · right
    refine ⟨rfl, ?_⟩
    cases c.bulk <;> simp

theorem allocCommit_new {s : State} {k i sl : Nat} {e : PoolEntry}
    (hl : AMap.lookup s.allocs k = none) (hsel : selectPool s.allocs s.pool 0 = some (i, sl, e)) :
    ∃ s' a, allocCommit s k = (s', .alloc a) ∧ s'.allocs = AMap.insert s.allocs k a ∧
      s'.log = logAllocation s.cfg a ++ s.log ∧ s'.cfg = s.cfg := by
  unfold allocCommit
  simp only [hl, hsel]
  exact ⟨_, _, rfl, rfl, rfl, rfl⟩

/-- the concluding statement for one call -/
def StepOK (m : Mon) (s : State) (op : Op) : Prop :=
  (feed s.cfg m (eventsOf s op)).2 = [] ∧ MI (feed s.cfg m (eventsOf s op)).1 (step s op).1

/-- a call that changes neither table nor log and reports nothing about a block -/
theorem quiet_ok {m : Mon} {s s' : State} {op : Op} {o : Obs} (hv : ValidCfg s.cfg) (hI : Inv s) (hm : MI m s)
    (hstep : step s op = (s', o)) (hapi : apiEvents op o = [])
    (ha : s'.allocs = s.allocs) (hlog : s'.log = s.log) (hcfg : s'.cfg = s.cfg) : StepOK m s op := by
  have hI' : Inv (step s op).1 := inv_step hv hI op
  rw [hstep] at hI'
  exact silent_of_shape (d := []) hstep hapi (by rw [hcfg]; exact hv) hI' hcfg (by rw [hlog]; rfl) (Or.inl rfl) hm
    (api_nil hm ha _).1 (api_nil hm ha _).2.1 (api_nil hm ha _).2.2

/-- a call that answers "k holds a" for a block k already held -/
theorem reask_ok {m : Mon} {s : State} {op : Op} {k : Nat} {a : Alloc} (hv : ValidCfg s.cfg) (hI : Inv s) (hm : MI m s)
    (hstep : step s op = (s, .alloc a)) (hapi : apiEvents op (.alloc a) = [.got k (blkOf a)])
    (hl : AMap.lookup s.allocs k = some a) : StepOK m s op := by
  have h := api_got (s' := s) hv hI rfl hm (Or.inr hl)
    (by intro k'; by_cases e : k' = k
        · subst e; simp [hl]
        · simp [e])
  exact silent_of_shape (d := []) hstep hapi hv hI rfl rfl (Or.inl rfl) hm h.1 h.2.1 h.2.2

theorem commit_ok {m : Mon} {s : State} (hv : ValidCfg s.cfg) (hI : Inv s) (hm : MI m s) (k : Nat) (op : Op)
    (hapi : ∀ o, apiEvents op o = apiEvents (.allocCommit k) o)
    (hstep : step s op = allocCommit s k) : StepOK m s op := by
  have hI' : Inv (step s op).1 := inv_step hv hI op
  cases hl : AMap.lookup s.allocs k with
  | some a =>
    have e : allocCommit s k = (s, .alloc a) := by unfold allocCommit; simp [hl]
    exact reask_ok hv hI hm (hstep.trans e) (by rw [hapi]; rfl) hl
  | none =>
    cases hsel : selectPool s.allocs s.pool 0 with
    | none =>
      have e : allocCommit s k = (s, .exhausted) := by unfold allocCommit; simp [hl, hsel]
      exact quiet_ok hv hI hm (hstep.trans e) (by rw [hapi]; rfl) rfl rfl rfl
    | some r =>
      obtain ⟨i, sl, e⟩ := r
      obtain ⟨s', a, he, hall, hlog, hcfg⟩ := allocCommit_new hl hsel
      have hst := hstep.trans he
      rw [hst] at hI'
      have hv' : ValidCfg s'.cfg := by rw [hcfg]; exact hv
      have h := api_got (k := k) (a := a) hv' hI' hcfg hm (Or.inl hl)
        (by intro k'; rw [hall, lookup_insert])
      refine silent_of_shape (d := logAllocation s.cfg a) hst (by rw [hapi]; rfl) hv' hI' hcfg hlog ?_ hm
        h.1 h.2.1 h.2.2
      rw [hcfg]; exact logAllocation_shape s.cfg a

theorem feed_step_silent {m : Mon} {s : State} (hv : ValidCfg s.cfg) (hI : Inv s) (hm : MI m s) (op : Op) :
    StepOK m s op := by
  cases op with
  | addIp ip =>
    have hI' : Inv (step s (.addIp ip)).1 := inv_step hv hI _
    refine quiet_ok (s' := (addPublicIP s ip).1) (o := (addPublicIP s ip).2) hv hI hm rfl ?_ ?_ ?_ ?_
    · unfold addPublicIP; split <;> rfl
    · unfold addPublicIP; split <;> rfl
    · unfold addPublicIP; split <;> rfl
    · unfold addPublicIP; split <;> rfl
  | allocPre k =>
    cases hl : AMap.lookup s.allocs k with
    | some a =>
      exact reask_ok hv hI hm (by simp [step, allocPre, hl]) rfl hl
    | none =>
      exact quiet_ok (o := .miss) hv hI hm (by simp [step, allocPre, hl]) rfl rfl rfl rfl
  | allocCommit k => exact commit_ok hv hI hm k _ (fun _ => rfl) rfl
  | alloc k =>
    cases hl : AMap.lookup s.allocs k with
    | some a =>
      exact reask_ok hv hI hm (by simp only [step]; rw [alloc_eq]; simp [hl]) rfl hl
    | none =>
      refine commit_ok hv hI hm k _ ?_ (by simp only [step]; rw [alloc_eq]; simp [hl])
      intro o; cases o <;> rfl
  | dealloc k =>
    have hI' : Inv (step s (.dealloc k)).1 := inv_step hv hI _
    cases hl : AMap.lookup s.allocs k with
    | none =>
      have hst : step s (.dealloc k) = (s, .ok) := by simp [step, dealloc, hl]
      have h := api_released (s' := s) (k := k) hm
        (by rw [erase_eq_self_of_not_mem (lookup_eq_none_iff.mp hl)]) s.cfg
      exact silent_of_shape (d := []) hst rfl hv hI rfl rfl (Or.inl rfl) hm h.1 h.2.1 h.2.2
    | some a =>
      have hst : step s (.dealloc k) =
          ({ s with allocs := AMap.erase s.allocs k, pool := bumpSubs s.pool a.poolIndex (-1),
                    log := logDeallocation s.cfg k a.pub a.portStart ++ s.log }, .ok) := by
        simp [step, dealloc, hl]
      rw [hst] at hI'
      have h := api_released (m := m) (s := s)
        (s' := { s with allocs := AMap.erase s.allocs k, pool := bumpSubs s.pool a.poolIndex (-1),
                        log := logDeallocation s.cfg k a.pub a.portStart ++ s.log }) (k := k) hm rfl s.cfg
      exact silent_of_shape (d := logDeallocation s.cfg k a.pub a.portStart) hst rfl hv hI' rfl rfl
        (logDeallocation_shape s.cfg k a.pub a.portStart) hm h.1 h.2.1 h.2.2
  | get k =>
    cases hl : AMap.lookup s.allocs k with
    | some a =>
      exact reask_ok hv hI hm (by simp [step, getAllocation, hl]) rfl hl
    | none =>
      have hst : step s (.get k) = (s, .none) := by simp [step, getAllocation, hl]
      have h := api_lookedNone hm hl s.cfg
      exact silent_of_shape (d := []) hst rfl hv hI rfl rfl (Or.inl rfl) hm h.1 h.2.1 h.2.2
  | count => exact quiet_ok hv hI hm rfl rfl rfl rfl rfl
  | pools => exact quiet_ok hv hI hm rfl rfl rfl rfl rfl
  | commitFail k =>
    cases hl : AMap.lookup s.allocs k with
    | some a => exact reask_ok hv hI hm (by simp [step, commitFail, hl]) rfl hl
    | none =>
      have e := commitFail_same s k
      refine quiet_ok (s' := (commitFail s k).1) (o := (commitFail s k).2) hv hI hm rfl ?_ e.2.2.1 e.2.2.2 e.1
      unfold commitFail; simp only [hl]; split <;> rfl
  | allocFail k =>
    cases hl : AMap.lookup s.allocs k with
    | some a => exact reask_ok hv hI hm (by simp only [step]; rw [allocFail_eq]; simp [hl]) rfl hl
    | none =>
      have e := allocFail_same s k
      refine quiet_ok (s' := (allocFail s k).1) (o := (allocFail s k).2) hv hI hm rfl ?_ e.2.2.1 e.2.2.2 e.1
      rw [allocFail_eq]; simp only [hl]
      unfold commitFail; simp only [hl]; split <;> rfl
  | deallocFail k =>
    cases hl : AMap.lookup s.allocs k with
    | none =>
      have hst : step s (.deallocFail k) = (s, .ok) := by simp [step, deallocFail, hl]
      have h := api_released (s' := s) (k := k) hm
        (by rw [erase_eq_self_of_not_mem (lookup_eq_none_iff.mp hl)]) s.cfg
      exact silent_of_shape (d := []) hst rfl hv hI rfl rfl (Or.inl rfl) hm h.1 h.2.1 h.2.2
    | some a =>
      exact quiet_ok (o := .kernErr) hv hI hm (by simp [step, deallocFail, hl]) rfl rfl rfl rfl
  | poke => exact quiet_ok hv hI hm rfl rfl rfl rfl rfl

/-- the monitor is silent along every run of the model -/
theorem monRun_silent {m : Mon} {s : State} (hv : ValidCfg s.cfg) (hI : Inv s) (hm : MI m s) (ops : List Op) :
    monRun s.cfg m s ops = [] := by
  induction ops generalizing m s with
  | nil => rfl
  | cons op ops ih =>
    unfold monRun
    obtain ⟨h1, h2⟩ := feed_step_silent hv hI hm op
    rw [h1, List.nil_append]
    have hc := step_cfg s op
    have := ih (s := (step s op).1) (by rw [hc]; exact hv) (inv_step hv hI op) h2
    rw [hc] at this
    exact this

theorem mi_init (c : Cfg) : MI {} (init c) := by
  refine ⟨?_, ?_, ?_⟩
  · exact nodupKeys_nil
  · intro k; rfl
  · rfl

/-! ## the record ledger is silent on the model too -/

def ledgerRun (c : Cfg) : Ledger → State → List Op → List Verdict
  | _, _, [] => []
  | l, s, op :: ops =>
    (feedL c l (eventsOf s op)).2 ++ ledgerRun c (feedL c l (eventsOf s op)).1 (step s op).1 ops

/-- the ledger's picture at a call boundary: it knows the table and nothing is owed -/
structure LI (l : Ledger) (s : State) : Prop where
  hl : ∀ k, AMap.lookup l.held k = (AMap.lookup s.allocs k).map blkOf
  ea : l.expA = []
  er : l.expR = []
  nb : l.blind = false

theorem feedL_nil (c : Cfg) (l : Ledger) : feedL c l [] = (l, []) := rfl

theorem feedL_cons (c : Cfg) (l : Ledger) (ev : Ev) (evs : List Ev) :
    feedL c l (ev :: evs) =
      ((feedL c (ledger c l ev).1 evs).1, (ledger c l ev).2 ++ (feedL c (ledger c l ev).1 evs).2) := by
  unfold feedL
  simp only [List.foldl_cons, List.nil_append]
  generalize (ledger c l ev).1 = l'
  generalize (ledger c l ev).2 = vs
  have : ∀ (evs : List Ev) (l : Ledger) (pre : List Verdict),
      evs.foldl (fun acc ev => ((ledger c acc.1 ev).1, acc.2 ++ (ledger c acc.1 ev).2)) (l, pre) =
        ((evs.foldl (fun acc ev => ((ledger c acc.1 ev).1, acc.2 ++ (ledger c acc.1 ev).2)) (l, [])).1,
         pre ++ (evs.foldl (fun acc ev => ((ledger c acc.1 ev).1, acc.2 ++ (ledger c acc.1 ev).2)) (l, [])).2) := by
    intro evs
    induction evs with
    | nil => intro l pre; simp
    | cons e es ih =>
      intro l pre
      simp only [List.foldl_cons, List.nil_append]
      rw [ih, ih (ledger c l e).1 (ledger c l e).2]
      simp [List.append_assoc]
  rw [this evs l' vs]

theorem feedL_append (c : Cfg) (l : Ledger) (e₁ e₂ : List Ev) :
    feedL c l (e₁ ++ e₂) = ((feedL c (feedL c l e₁).1 e₂).1, (feedL c l e₁).2 ++ (feedL c (feedL c l e₁).1 e₂).2) := by
  induction e₁ generalizing l with
  | nil => simp [feedL_nil]
  | cons e es ih =>
    simp only [List.cons_append, feedL_cons, ih, List.append_assoc]

theorem feedL_single (c : Cfg) (l : Ledger) (ev : Ev) : feedL c l [ev] = ((ledger c l ev).1, (ledger c l ev).2) := by
  rw [feedL_cons, feedL_nil]; simp

/-- what the ledger owes matches exactly the records the call wrote -/
def Owes (l : Ledger) (d : List LogEntry) : Prop :=
  (d = [] ∧ l.expA = [] ∧ l.expR = []) ∨
  (∃ e, d = [e] ∧ (recKey e).1 = true ∧ l.expA = [(recKey e).2] ∧ l.expR = []) ∨
  (∃ e, d = [e] ∧ (recKey e).1 = false ∧ l.expR = [(recKey e).2] ∧ l.expA = [])

theorem feedL_events_silent {c : Cfg} {l₁ : Ledger} {s' : State} {d : List LogEntry}
    (hl : ∀ k, AMap.lookup l₁.held k = (AMap.lookup s'.allocs k).map blkOf) (hnb : l₁.blind = false)
    (ho : Owes l₁ d) :
    (feedL c l₁ (d.reverse.map Ev.logged ++ [Ev.settled])).2 = [] ∧
    LI (feedL c l₁ (d.reverse.map Ev.logged ++ [Ev.settled])).1 s' := by
  rcases ho with ⟨hd, ha, hr⟩ | ⟨e, hd, hk, ha, hr⟩ | ⟨e, hd, hk, hr, ha⟩
  · subst hd
    simp only [List.reverse_nil, List.map_nil, List.nil_append]
    rw [feedL_single]
    simp only [ledger, ha, hr, List.map_nil, List.append_nil]
    exact ⟨trivial, hl, rfl, rfl, hnb⟩
  · subst hd
    simp only [List.reverse_cons, List.reverse_nil, List.nil_append, List.map_cons, List.map_nil, List.cons_append]
    rw [feedL_cons, feedL_single]
    have h1 : ledger c l₁ (.logged e) = ({ l₁ with expA := [] }, []) := by
      simp [ledger, hnb, hk, ha]
    rw [h1]
    simp only [ledger, hr, List.map_nil, List.append_nil]
    exact ⟨trivial, hl, rfl, rfl, hnb⟩
  · subst hd
    simp only [List.reverse_cons, List.reverse_nil, List.nil_append, List.map_cons, List.map_nil, List.cons_append]
    rw [feedL_cons, feedL_single]
    have h1 : ledger c l₁ (.logged e) = ({ l₁ with expR := [] }, []) := by
      simp [ledger, hnb, hk, hr]
    rw [h1]
    simp only [ledger, ha, List.map_nil, List.append_nil]
    exact ⟨trivial, hl, rfl, rfl, hnb⟩

/-- the conclusion for one call -/
def StepOKL (l : Ledger) (s : State) (op : Op) : Prop :=
  (feedL s.cfg l (eventsOf s op)).2 = [] ∧ LI (feedL s.cfg l (eventsOf s op)).1 (step s op).1

theorem silentL_of_shape {l : Ledger} {s s' : State} {op : Op} {o : Obs} {api : List Ev} {d : List LogEntry}
    (hstep : step s op = (s', o)) (hapi : apiEvents op o = api) (hlog : s'.log = d ++ s.log)
    (h2 : (feedL s.cfg l api).2 = [])
    (hl : ∀ k, AMap.lookup (feedL s.cfg l api).1.held k = (AMap.lookup s'.allocs k).map blkOf)
    (hnb : (feedL s.cfg l api).1.blind = false) (ho : Owes (feedL s.cfg l api).1 d) : StepOKL l s op := by
  unfold StepOKL eventsOf
  rw [hstep]
  simp only
  rw [hapi, newRecords_of_append hlog, List.append_assoc, feedL_append, h2, List.nil_append]
  exact feedL_events_silent hl hnb ho

theorem recKey_logAllocation (c : Cfg) (a : Alloc) (e : LogEntry) (h : logAllocation c a = [e]) :
    recKey e = (true, a.priv, a.pub, a.portStart.toNat) := by
  unfold logAllocation at h
  split at h
  · simp at h
  · split at h <;> (simp at h; subst h; rfl)

theorem recKey_logDeallocation (c : Cfg) (k pub : Nat) (ps : UInt16) (e : LogEntry)
    (h : logDeallocation c k pub ps = [e]) : recKey e = (false, k, pub, ps.toNat) := by
  unfold logDeallocation at h
  split at h
  · simp at h
  · split at h <;> (simp at h; subst h; rfl)

theorem quietL_ok {l : Ledger} {s s' : State} {op : Op} {o : Obs} (hm : LI l s)
    (hstep : step s op = (s', o)) (hapi : apiEvents op o = [])
    (ha : s'.allocs = s.allocs) (hlog : s'.log = s.log) : StepOKL l s op := by
  refine silentL_of_shape (d := []) hstep hapi (by rw [hlog]; rfl) rfl ?_ hm.nb (Or.inl ⟨rfl, hm.ea, hm.er⟩)
  rw [feedL_nil, ha]; exact hm.hl

theorem reaskL_ok {l : Ledger} {s : State} {op : Op} {k : Nat} {a : Alloc} (hm : LI l s)
    (hstep : step s op = (s, .alloc a)) (hapi : apiEvents op (.alloc a) = [.got k (blkOf a)])
    (hlk : AMap.lookup s.allocs k = some a) : StepOKL l s op := by
  have hh : AMap.lookup l.held k = some (blkOf a) := by rw [hm.hl k, hlk]; rfl
  have e : ledger s.cfg l (.got k (blkOf a)) = ({ l with held := AMap.insert l.held k (blkOf a) }, []) := by
    simp [ledger, hh]
  refine silentL_of_shape (api := [.got k (blkOf a)]) (d := []) hstep hapi rfl ?_ ?_ ?_ ?_
  · rw [feedL_single, e]
  · rw [feedL_single, e]
    intro k'
    simp only
    rw [lookup_insert]
    by_cases h : k' = k
    · subst h; simp [hlk]
    · simp [h, hm.hl k']
  · rw [feedL_single, e]; exact hm.nb
  · rw [feedL_single, e]; exact Or.inl ⟨rfl, hm.ea, hm.er⟩

theorem commitL_ok {l : Ledger} {s : State} (hv : ValidCfg s.cfg) (hI : Inv s) (hm : LI l s) (k : Nat) (op : Op)
    (hapi : ∀ o, apiEvents op o = apiEvents (.allocCommit k) o)
    (hstep : step s op = allocCommit s k) : StepOKL l s op := by
  have hI' : Inv (step s op).1 := inv_step hv hI op
  cases hlk : AMap.lookup s.allocs k with
  | some a =>
    have e : allocCommit s k = (s, .alloc a) := by unfold allocCommit; simp [hlk]
    exact reaskL_ok hm (hstep.trans e) (by rw [hapi]; rfl) hlk
  | none =>
    cases hsel : selectPool s.allocs s.pool 0 with
    | none =>
      have e : allocCommit s k = (s, .exhausted) := by unfold allocCommit; simp [hlk, hsel]
      exact quietL_ok hm (hstep.trans e) (by rw [hapi]; rfl) rfl rfl
    | some r =>
      obtain ⟨i, sl, pe⟩ := r
      obtain ⟨s', a, he, hall, hlog, hcfg⟩ := allocCommit_new hlk hsel
      have hst := hstep.trans he
      rw [hst] at hI'
      have hpriv : a.priv = k := by
        have hm' : (k, a) ∈ s'.allocs := by rw [hall]; exact mem_of_lookup (lookup_insert_self _ _ _)
        exact (hI'.wf _ hm').priv
      have hh : AMap.lookup l.held k = none := by rw [hm.hl k, hlk]; rfl
      have e : ledger s.cfg l (.got k (blkOf a)) =
          ({ l with held := AMap.insert l.held k (blkOf a), expA := owed s.cfg l (k, a.pub, a.portStart.toNat) l.expA }, []) := by
        simp [ledger, hh, blkOf]
      refine silentL_of_shape (api := [.got k (blkOf a)]) (d := logAllocation s.cfg a) hst ((hapi _).trans rfl) hlog ?_ ?_ ?_ ?_
      · rw [feedL_single, e]
      · rw [feedL_single, e]
        intro k'
        simp only
        rw [lookup_insert, hall, lookup_insert]
        by_cases h : k' = k
        · simp [h]
        · simp [h, hm.hl k']
      · rw [feedL_single, e]; exact hm.nb
      · rw [feedL_single, e]
        simp only [owed, hm.nb, hm.ea, hm.er, Bool.not_false, Bool.and_true]
        rcases logAllocation_shape s.cfg a with h0 | ⟨hon, e', he'⟩
        · -- logging off: nothing written, nothing owed
          have hoff : s.cfg.logOn = false := by
            cases hc : s.cfg.logOn with
            | false => rfl
            | true =>
              exfalso
              unfold logAllocation at h0
              simp [hc] at h0
              split at h0 <;> simp at h0
          left
          simp [h0, hoff]
        · right; left
          refine ⟨e', he', ?_, ?_, rfl⟩
          · rw [recKey_logAllocation _ _ _ he']
          · rw [recKey_logAllocation _ _ _ he', hpriv]; simp [hon]

theorem feedL_step_silent {l : Ledger} {s : State} (hv : ValidCfg s.cfg) (hI : Inv s) (hm : LI l s) (op : Op) :
    StepOKL l s op := by
  cases op with
  | addIp ip =>
    refine quietL_ok (s' := (addPublicIP s ip).1) (o := (addPublicIP s ip).2) hm rfl ?_ ?_ ?_
    · unfold addPublicIP; split <;> rfl
    · unfold addPublicIP; split <;> rfl
    · unfold addPublicIP; split <;> rfl
  | allocPre k =>
    cases hlk : AMap.lookup s.allocs k with
    | some a => exact reaskL_ok hm (by simp [step, allocPre, hlk]) rfl hlk
    | none => exact quietL_ok (o := .miss) hm (by simp [step, allocPre, hlk]) rfl rfl rfl
  | allocCommit k => exact commitL_ok hv hI hm k _ (fun _ => rfl) rfl
  | alloc k =>
    cases hlk : AMap.lookup s.allocs k with
    | some a => exact reaskL_ok hm (by simp only [step]; rw [alloc_eq]; simp [hlk]) rfl hlk
    | none =>
      refine commitL_ok hv hI hm k _ ?_ (by simp only [step]; rw [alloc_eq]; simp [hlk])
      intro o; cases o <;> rfl
  | dealloc k =>
    cases hlk : AMap.lookup s.allocs k with
    | none =>
      have hst : step s (.dealloc k) = (s, .ok) := by simp [step, dealloc, hlk]
      have hh : AMap.lookup l.held k = none := by rw [hm.hl k, hlk]; rfl
      have e : ledger s.cfg l (.released k) = (l, []) := by simp [ledger, hh]
      refine silentL_of_shape (api := [.released k]) (d := []) hst rfl rfl ?_ ?_ ?_ ?_
      · rw [feedL_single, e]
      · rw [feedL_single, e]; exact hm.hl
      · rw [feedL_single, e]; exact hm.nb
      · rw [feedL_single, e]; exact Or.inl ⟨rfl, hm.ea, hm.er⟩
    | some a =>
      have hst : step s (.dealloc k) =
          ({ s with allocs := AMap.erase s.allocs k, pool := bumpSubs s.pool a.poolIndex (-1),
                    log := logDeallocation s.cfg k a.pub a.portStart ++ s.log }, .ok) := by
        simp [step, dealloc, hlk]
      have hh : AMap.lookup l.held k = some (blkOf a) := by rw [hm.hl k, hlk]; rfl
      have e : ledger s.cfg l (.released k) =
          ({ l with held := AMap.erase l.held k, expR := owed s.cfg l (k, a.pub, a.portStart.toNat) l.expR }, []) := by
        simp [ledger, hh, blkOf]
      refine silentL_of_shape (api := [.released k]) (d := logDeallocation s.cfg k a.pub a.portStart) hst rfl rfl ?_ ?_ ?_ ?_
      · rw [feedL_single, e]
      · rw [feedL_single, e]
        intro k'
        simp only
        rw [lookup_erase, lookup_erase, hm.hl k']
        by_cases h : k' = k <;> simp [h]
      · rw [feedL_single, e]; exact hm.nb
      · rw [feedL_single, e]
        simp only [owed, hm.nb, hm.ea, hm.er, Bool.not_false, Bool.and_true]
        rcases logDeallocation_shape s.cfg k a.pub a.portStart with h0 | ⟨hon, e', he'⟩
        · have hoff : s.cfg.logOn = false := by
            cases hc : s.cfg.logOn with
            | false => rfl
            | true =>
              exfalso
              unfold logDeallocation at h0
              simp [hc] at h0
              split at h0 <;> simp at h0
          left
          simp [h0, hoff]
        · right; right
          refine ⟨e', he', ?_, ?_, rfl⟩
          · rw [recKey_logDeallocation _ _ _ _ _ he']
          · rw [recKey_logDeallocation _ _ _ _ _ he']; simp [hon]
  | get k =>
    cases hlk : AMap.lookup s.allocs k with
    | some a => exact reaskL_ok hm (by simp [step, getAllocation, hlk]) rfl hlk
    | none =>
      have hst : step s (.get k) = (s, .none) := by simp [step, getAllocation, hlk]
      refine silentL_of_shape (api := [.lookedNone k]) (d := []) hst rfl rfl ?_ ?_ ?_ ?_
      · rw [feedL_single]; rfl
      · rw [feedL_single]; exact hm.hl
      · rw [feedL_single]; exact hm.nb
      · rw [feedL_single]; exact Or.inl ⟨rfl, hm.ea, hm.er⟩
  | count => exact quietL_ok hm rfl rfl rfl rfl
  | pools => exact quietL_ok hm rfl rfl rfl rfl
  | commitFail k =>
    cases hlk : AMap.lookup s.allocs k with
    | some a => exact reaskL_ok hm (by simp [step, commitFail, hlk]) rfl hlk
    | none =>
      have e := commitFail_same s k
      refine quietL_ok (s' := (commitFail s k).1) (o := (commitFail s k).2) hm rfl ?_ e.2.2.1 e.2.2.2
      unfold commitFail; simp only [hlk]; split <;> rfl
  | allocFail k =>
    cases hlk : AMap.lookup s.allocs k with
    | some a => exact reaskL_ok hm (by simp only [step]; rw [allocFail_eq]; simp [hlk]) rfl hlk
    | none =>
      have e := allocFail_same s k
      refine quietL_ok (s' := (allocFail s k).1) (o := (allocFail s k).2) hm rfl ?_ e.2.2.1 e.2.2.2
      rw [allocFail_eq]; simp only [hlk]
      unfold commitFail; simp only [hlk]; split <;> rfl
  | deallocFail k =>
    cases hlk : AMap.lookup s.allocs k with
    | none =>
      have hst : step s (.deallocFail k) = (s, .ok) := by simp [step, deallocFail, hlk]
      have hh : AMap.lookup l.held k = none := by rw [hm.hl k, hlk]; rfl
      have e : ledger s.cfg l (.released k) = (l, []) := by simp [ledger, hh]
      refine silentL_of_shape (api := [.released k]) (d := []) hst rfl rfl ?_ ?_ ?_ ?_
      · rw [feedL_single, e]
      · rw [feedL_single, e]; exact hm.hl
      · rw [feedL_single, e]; exact hm.nb
      · rw [feedL_single, e]; exact Or.inl ⟨rfl, hm.ea, hm.er⟩
    | some a =>
      exact quietL_ok (o := .kernErr) hm (by simp [step, deallocFail, hlk]) rfl rfl rfl
  | poke => exact quietL_ok hm rfl rfl rfl rfl

theorem ledgerRun_silent {l : Ledger} {s : State} (hv : ValidCfg s.cfg) (hI : Inv s) (hm : LI l s)
    (ops : List Op) : ledgerRun s.cfg l s ops = [] := by
  induction ops generalizing l s with
  | nil => rfl
  | cons op ops ih =>
    unfold ledgerRun
    obtain ⟨h1, h2⟩ := feedL_step_silent hv hI hm op
    rw [h1, List.nil_append]
    have hc := step_cfg s op
    have := ih (s := (step s op).1) (by rw [hc]; exact hv) (inv_step hv hI op) h2
    rw [hc] at this
    exact this

theorem li_init (c : Cfg) : LI {} (init c) := ⟨fun _ => rfl, rfl, rfl, rfl⟩

end Bng.Cgnat
