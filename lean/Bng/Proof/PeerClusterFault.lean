import Bng.Model.PeerClusterFault
import Bng.Proof.PeerCluster
/-
  Helper lemmas for the PeerPool cluster with lost responses: the cluster state moves by `PeerCluster.step` whatever
  happens to the answer, and the books (`told`, `pending`) agree with the nodes (`Agree`).
-/
namespace Bng.PeerClusterFault
open Bng Bng.PeerCluster AMap

/-! ### what one local-pool operation does to the holdings -/

theorem alloc_held_other (st : FreeList.State) {k k' : Nat} (h : k' ≠ k) :
    AMap.lookup (FreeList.alloc st k).1.held k' = AMap.lookup st.held k' := by
  unfold FreeList.alloc
  split
  · rfl
  · split
    · rfl
    · simp only [lookup_insert, h, if_false]

theorem alloc_ok_held (st : FreeList.State) (k a : Nat) (h : (FreeList.alloc st k).2 = .okAddr a) :
    AMap.lookup (FreeList.alloc st k).1.held k = some a := by
  unfold FreeList.alloc at h ⊢
  cases hl : (if st.cfg.lookupFirst then st.held.lookup k else Option.none) with
  | some b =>
    simp only [hl, FreeList.Obs.okAddr.injEq] at h ⊢
    subst h
    split at hl
    · exact hl
    · cases hl
  | none =>
    cases hav : st.avail with
    | nil => simp only [hl, hav] at h; cases h
    | cons b rest =>
      simp only [hl, hav, FreeList.Obs.okAddr.injEq] at h ⊢
      simp only [lookup_insert, if_true, h]

theorem alloc_not_ok_same (st : FreeList.State) (k : Nat) (h : ∀ a, (FreeList.alloc st k).2 ≠ .okAddr a) :
    (FreeList.alloc st k).1 = st := by
  unfold FreeList.alloc at h ⊢
  cases hl : (if st.cfg.lookupFirst then st.held.lookup k else Option.none) with
  | some b => rfl
  | none =>
    cases hav : st.avail with
    | nil => rfl
    | cons b rest => exact absurd (by simp only [hl, hav]) (h b)

theorem release_held_self (st : FreeList.State) (k : Nat) :
    AMap.lookup (FreeList.release st k).1.held k = none := by
  unfold FreeList.release
  split
  · rename_i h; exact h
  · simp only [lookup_erase, if_true]

theorem release_held_other (st : FreeList.State) {k k' : Nat} (h : k' ≠ k) :
    AMap.lookup (FreeList.release st k).1.held k' = AMap.lookup st.held k' := by
  unfold FreeList.release
  split
  · rfl
  · simp only [lookup_erase, h, if_false]

/-! ### holdings across the cluster after an operation on one node -/

theorem heldAt_onNode_other (s : State) (j : Nat) (f : FreeList.State → FreeList.State × FreeList.Obs)
    {j' : Nat} (k' : Nat) (h : j' ≠ j) : heldAt (onNode s j f).1 j' k' = heldAt s j' k' := by
  unfold onNode
  split
  · simp only [heldAt, lookup_insert, h, if_false]
  · rfl

theorem heldAt_onNode_same (s : State) (j : Nat) (f : FreeList.State → FreeList.State × FreeList.Obs)
    (st : FreeList.State) (hst : AMap.lookup s.nodes j = some st) (k' : Nat) :
    heldAt (onNode s j f).1 j k' = AMap.lookup (f st).1.held k' := by
  unfold onNode
  simp only [hst, heldAt, lookup_insert, if_true]

theorem heldAt_of_node {s : State} {j : Nat} {st : FreeList.State} (hst : AMap.lookup s.nodes j = some st) (k : Nat) :
    heldAt s j k = AMap.lookup st.held k := by
  simp only [heldAt, hst]

theorem mem_filter_ne {p q : Nat × Nat} {l : List (Nat × Nat)} :
    p ∈ l.filter (· ≠ q) ↔ p ∈ l ∧ p ≠ q := by
  simp only [List.mem_filter, decide_eq_true_eq]

/-- the state component of every line is the cluster step of the operation the peer executed -/
theorem stepF_state (fs : FState) (fop : FOp) :
    (stepF fs fop).1.s = match baseOp fop with
      | some op => (step fs.s op).1
      | none => fs.s := by
  cases fop with
  | setFault f => rfl
  | burst i k r => rfl
  | plain op =>
    cases op with
    | alloc i k r => simp only [stepF, baseOp]; split <;> rfl
    | release i k r => simp only [stepF, baseOp]; split <;> rfl
    | get i k o => rfl
    | health i j h => rfl
    | stats i => rfl

/-! ### what an allocation answer does to the books -/

theorem bookAlloc_not_ok (fs : FState) (j k : Nat) (o : FreeList.Obs) (d : Bool) (h : ∀ a, o ≠ .okAddr a) :
    bookAlloc fs k (.served j o) d = (fs.told, fs.pending) := by
  cases o with
  | okAddr a => exact absurd rfl (h a)
  | _ => rfl

theorem bookAlloc_told_other (fs : FState) (j k : Nat) (o : FreeList.Obs) (d : Bool) {p : Nat × Nat} (hne : p ≠ (j, k)) :
    AMap.lookup (bookAlloc fs k (.served j o) d).1 p = AMap.lookup fs.told p := by
  by_cases hok : ∃ a, o = .okAddr a
  · obtain ⟨a, rfl⟩ := hok
    simp only [bookAlloc]
    cases d with
    | true => simp only [if_true, lookup_insert, if_neg hne]
    | false =>
      simp only [Bool.false_eq_true, if_false]
      split
      · rfl
      · split <;> rfl
  · rw [bookAlloc_not_ok fs j k o d (fun a e => hok ⟨a, e⟩)]

theorem bookAlloc_pending_other (fs : FState) (j k : Nat) (o : FreeList.Obs) (d : Bool) {p : Nat × Nat} (hne : p ≠ (j, k)) :
    p ∈ (bookAlloc fs k (.served j o) d).2 ↔ p ∈ fs.pending := by
  by_cases hok : ∃ a, o = .okAddr a
  · obtain ⟨a, rfl⟩ := hok
    simp only [bookAlloc]
    cases d with
    | true =>
      simp only [if_true]
      exact ⟨fun h => (mem_filter_ne.mp h).1, fun h => mem_filter_ne.mpr ⟨h, hne⟩⟩
    | false =>
      simp only [Bool.false_eq_true, if_false]
      split
      · exact Iff.rfl
      · split
        · exact Iff.rfl
        · exact ⟨fun h => (List.mem_cons.mp h).resolve_left hne, fun h => List.mem_cons_of_mem _ h⟩
  · rw [bookAlloc_not_ok fs j k o d (fun a e => hok ⟨a, e⟩)]

theorem bookAlloc_self (fs : FState) (j k a : Nat) (d : Bool)
    (hnp : (j, k) ∉ (bookAlloc fs k (.served j (.okAddr a)) d).2) :
    AMap.lookup (bookAlloc fs k (.served j (.okAddr a)) d).1 (j, k) = some a := by
  simp only [bookAlloc] at hnp ⊢
  cases d with
  | true => simp only [if_true, lookup_insert]
  | false =>
    simp only [Bool.false_eq_true, if_false] at hnp ⊢
    by_cases ht : AMap.lookup fs.told (j, k) = some a
    · simp only [ht, if_true]
    · simp only [ht, if_false] at hnp ⊢
      by_cases hc : fs.pending.contains (j, k) = true
      · simp only [hc, if_true] at hnp
        exact absurd (List.contains_iff_mem.mp hc) hnp
      · simp only [hc] at hnp
        exact absurd (List.mem_cons_self ..) hnp

theorem agree_alloc {fs : FState} (hA : Agree fs) (i k : Nat) (ranked : List Nat) (delivered : Bool) :
    ∀ j' k', (j', k') ∉ (bookAlloc fs k (step fs.s (.alloc i k ranked)).2 delivered).2 →
      heldAt (step fs.s (.alloc i k ranked)).1 j' k'
        = AMap.lookup (bookAlloc fs k (step fs.s (.alloc i k ranked)).2 delivered).1 (j', k') := by
  intro j' k' hnp
  simp only [step] at hnp ⊢
  generalize healthyOwner fs.s i ranked = j at hnp ⊢
  cases hst : AMap.lookup fs.s.nodes j with
  | none =>
    have e : onNode fs.s j (fun st => FreeList.alloc st k) = (fs.s, .noNode j) := by simp only [onNode, hst]
    rw [e] at hnp ⊢
    exact hA j' k' hnp
  | some st =>
    have eo : (onNode fs.s j (fun st => FreeList.alloc st k)).2 = .served j (FreeList.alloc st k).2 := by
      simp only [onNode, hst]
    rw [eo] at hnp ⊢
    by_cases hp : (j', k') = (j, k)
    · have h1 := (Prod.mk.inj hp).1
      have h2 := (Prod.mk.inj hp).2
      subst h1; subst h2
      rw [heldAt_onNode_same _ _ _ st hst]
      by_cases hok : ∃ a, (FreeList.alloc st k').2 = .okAddr a
      · obtain ⟨a, ha⟩ := hok
        rw [ha] at hnp ⊢
        rw [alloc_ok_held st k' a ha, bookAlloc_self fs j' k' a delivered hnp]
      · have hno : ∀ a, (FreeList.alloc st k').2 ≠ .okAddr a := fun a e => hok ⟨a, e⟩
        rw [bookAlloc_not_ok fs j' k' _ delivered hno] at hnp ⊢
        rw [alloc_not_ok_same st k' hno, ← heldAt_of_node hst]
        exact hA _ _ hnp
    · rw [bookAlloc_told_other fs j k _ delivered hp]
      have hold : heldAt fs.s j' k' = AMap.lookup fs.told (j', k') :=
        hA j' k' (fun hm => hnp ((bookAlloc_pending_other fs j k _ delivered hp).mpr hm))
      rw [← hold]
      by_cases hj : j' = j
      · subst hj
        have hk : k' ≠ k := fun e => hp (by rw [e])
        rw [heldAt_onNode_same _ _ _ st hst, alloc_held_other st hk, heldAt_of_node hst]
      · exact heldAt_onNode_other _ _ _ _ hj

theorem agree_release {fs : FState} (hA : Agree fs) (i k : Nat) (ranked : List Nat) :
    ∀ j' k', (j', k') ∉ (bookRelease fs k (step fs.s (.release i k ranked)).2).2 →
      heldAt (step fs.s (.release i k ranked)).1 j' k'
        = AMap.lookup (bookRelease fs k (step fs.s (.release i k ranked)).2).1 (j', k') := by
  intro j' k' hnp
  simp only [step] at hnp ⊢
  generalize healthyOwner fs.s i ranked = j at hnp ⊢
  cases hst : AMap.lookup fs.s.nodes j with
  | none =>
    have e : onNode fs.s j (fun st => FreeList.release st k) = (fs.s, .noNode j) := by simp only [onNode, hst]
    rw [e] at hnp ⊢
    exact hA j' k' hnp
  | some st =>
    have eo : (onNode fs.s j (fun st => FreeList.release st k)).2 = .served j (FreeList.release st k).2 := by
      simp only [onNode, hst]
    rw [eo] at hnp ⊢
    simp only [bookRelease] at hnp ⊢
    by_cases hp : (j', k') = (j, k)
    · have h1 := (Prod.mk.inj hp).1
      have h2 := (Prod.mk.inj hp).2
      subst h1; subst h2
      rw [heldAt_onNode_same _ _ _ st hst, release_held_self, lookup_erase, if_pos rfl]
    · rw [lookup_erase, if_neg hp]
      have hold : heldAt fs.s j' k' = AMap.lookup fs.told (j', k') :=
        hA j' k' (fun hm => hnp (mem_filter_ne.mpr ⟨hm, hp⟩))
      rw [← hold]
      by_cases hj : j' = j
      · subst hj
        have hk : k' ≠ k := fun e => hp (by rw [e])
        rw [heldAt_onNode_same _ _ _ st hst, release_held_other st hk, heldAt_of_node hst]
      · exact heldAt_onNode_other _ _ _ _ hj

theorem agree_step {fs : FState} (hA : Agree fs) (fop : FOp) : Agree (stepF fs fop).1 := by
  cases fop with
  | setFault f => exact hA
  | burst i k r => exact agree_alloc hA i k r true
  | plain op =>
    cases op with
    | alloc i k r =>
      simp only [stepF]
      split
      · exact agree_alloc hA i k r false
      · exact agree_alloc hA i k r true
    | release i k r =>
      simp only [stepF]
      split <;> exact agree_release hA i k r
    | get i k o =>
      have e : (stepF fs (.plain (.get i k o))).1 = { fs with s := (step fs.s (.get i k o)).1 } := rfl
      have es : (step fs.s (.get i k o)).1 = fs.s := by
        simp only [step]; split
        · split <;> rfl
        · rfl
      rw [e, es]; exact hA
    | health i j h =>
      intro j' k' hnp
      exact hA j' k' hnp
    | stats i =>
      have e : (stepF fs (.plain (.stats i))).1 = { fs with s := (step fs.s (.stats i)).1 } := rfl
      have es : (step fs.s (.stats i)).1 = fs.s := by
        simp only [step]; split <;> rfl
      rw [e, es]; exact hA

theorem agree_init (c : FreeList.Cfg) (n : Nat) : Agree (init c n) := by
  intro j k _
  simp only [init, heldAt, AMap.lookup]
  split
  · rename_i st hst
    have := lookup_mkNodes hst
    subst this; rfl
  · rfl

theorem agree_run {fs : FState} (hA : Agree fs) (fops : List FOp) : Agree (runF fs fops) := by
  induction fops generalizing fs with
  | nil => exact hA
  | cons fop rest ih =>
    simp only [runF, List.foldl_cons]
    exact ih (agree_step hA fop)

/-- without an armed fault nothing becomes pending -/
theorem pending_step_nofault {fs : FState} (hf : fs.fault = none) (hp : fs.pending = []) (fop : FOp)
    (hop : ∀ f, fop ≠ .setFault (some f)) :
    (stepF fs fop).1.fault = none ∧ (stepF fs fop).1.pending = [] := by
  cases fop with
  | setFault f =>
    cases f with
    | none => exact ⟨rfl, hp⟩
    | some f => exact absurd rfl (hop f)
  | burst i k r =>
    refine ⟨hf, ?_⟩
    simp only [stepF, bookAlloc]
    split
    · simp only [if_true, hp, List.filter_nil]
    · exact hp
  | plain op =>
    cases op with
    | alloc i k r =>
      simp only [stepF, hf, hits, Bool.false_eq_true, and_false, if_false, bookAlloc]
      refine ⟨trivial, ?_⟩
      split
      · simp only [if_true, hp, List.filter_nil]
      · exact hp
    | release i k r =>
      simp only [stepF, hf, hits, Bool.false_eq_true, and_false, if_false, bookRelease]
      refine ⟨trivial, ?_⟩
      split
      · simp only [hp, List.filter_nil]
      · exact hp
    | get i k o => exact ⟨hf, hp⟩
    | health i j h => exact ⟨hf, hp⟩
    | stats i => exact ⟨hf, hp⟩

end Bng.PeerClusterFault
