import Bng.Model.AcctDirect
/-
  The direct-send accounting of the DHCP and PPPoE session paths: a session that ended has its Stop in the server's
  log unless it ended while the server was unreachable; `endedDown` grows only by such an end.
-/
namespace Bng.AcctDirect

def stopOf (s : Sid) : Rec := { kind := .stop, sid := s }

/-- every ended session either ended during an outage or has its Stop accepted -/
def Inv (σ : State) : Prop := ∀ s ∈ σ.ended, s ∈ σ.endedDown ∨ stopOf s ∈ σ.log

theorem inv_same {σ σ' : State} (h : Inv σ) (h1 : σ'.ended = σ.ended) (h2 : σ'.endedDown = σ.endedDown)
    (h3 : ∀ r ∈ σ.log, r ∈ σ'.log) : Inv σ' := by
  intro s hs
  rw [h1] at hs
  rcases h s hs with h' | h'
  · left; rw [h2]; exact h'
  · exact Or.inr (h3 _ h')

theorem inv_sendDirect {σ : State} (h : Inv σ) (r : Rec) : Inv (sendDirect σ r) := by
  unfold sendDirect
  split
  · exact inv_same h rfl rfl (fun x hx => List.mem_append_left _ hx)
  · exact h

theorem inv_endSession {σ : State} (h : Inv σ) (s : Sid) : Inv (endSession σ s) := by
  unfold endSession sendDirect
  cases hu : σ.up
  · -- unreachable: the session is recorded in endedDown
    simp only [Bool.false_eq_true, if_false]
    intro x hx
    simp only [List.mem_cons] at hx
    rcases hx with e | e
    · left; subst e; exact List.mem_cons_self
    · rcases h x e with h' | h'
      · exact Or.inl (List.mem_cons_of_mem _ h')
      · exact Or.inr h'
  · simp only [if_true]
    intro x hx
    simp only [List.mem_cons] at hx
    rcases hx with e | e
    · right; subst e; exact List.mem_append_right _ List.mem_cons_self
    · rcases h x e with h' | h'
      · exact Or.inl h'
      · exact Or.inr (List.mem_append_left _ h')

theorem inv_step {σ : State} (h : Inv σ) (op : Op) : Inv (step σ op) := by
  cases op with
  | srv u => exact inv_same h rfl rfl (fun _ hx => hx)
  | dreq k =>
    simp only [step]
    split
    · exact h
    · apply inv_sendDirect
      exact inv_same h rfl rfl (fun _ hx => hx)
  | drel k =>
    simp only [step]
    split
    · exact h
    · apply inv_endSession
      exact inv_same h rfl rfl (fun _ hx => hx)
  | pmk k =>
    simp only [step]
    split
    · exact h
    · exact inv_same h rfl rfl (fun _ hx => hx)
  | ppadt k =>
    simp only [step]
    split
    · apply inv_endSession
      exact inv_same h rfl rfl (fun _ hx => hx)
    · exact h

theorem inv_run {σ : State} (h : Inv σ) (ops : List Op) : Inv (run σ ops) := by
  induction ops generalizing σ with
  | nil => exact h
  | cons op ops ih => exact ih (inv_step h op)

theorem endedDown_endSession {σ : State} {s x : Sid} (h : x ∈ (endSession σ s).endedDown) :
    x ∈ σ.endedDown ∨ (x = s ∧ σ.up = false) := by
  unfold endSession sendDirect at h
  cases hu : σ.up
  · simp only [hu, Bool.false_eq_true, if_false, List.mem_cons] at h
    rcases h with e | e
    · exact Or.inr ⟨e, rfl⟩
    · exact Or.inl e
  · simp only [hu, if_true] at h
    exact Or.inl h

/-- `endedDown` grows only by a session end (RELEASE / PADT) at a moment when the server is unreachable -/
theorem endedDown_step (σ : State) (op : Op) (x : Sid) (h : x ∈ (step σ op).endedDown) :
    x ∈ σ.endedDown ∨ (σ.up = false ∧ ((∃ k, op = .drel k ∧ x.path = .dhcp ∧ x.k = k) ∨
      (∃ k, op = .ppadt k ∧ x.path = .pppoe ∧ x.k = k))) := by
  cases op with
  | srv u => exact Or.inl h
  | dreq k =>
    simp only [step] at h
    split at h
    · exact Or.inl h
    · unfold sendDirect at h; split at h <;> exact Or.inl h
  | drel k =>
    simp only [step] at h
    split at h
    · exact Or.inl h
    · rcases endedDown_endSession h with h' | ⟨e, hu⟩
      · exact Or.inl h'
      · subst e; exact Or.inr ⟨hu, Or.inl ⟨k, rfl, rfl, rfl⟩⟩
  | pmk k =>
    simp only [step] at h
    split at h <;> exact Or.inl h
  | ppadt k =>
    simp only [step] at h
    split at h
    · rcases endedDown_endSession h with h' | ⟨e, hu⟩
      · exact Or.inl h'
      · subst e; exact Or.inr ⟨hu, Or.inr ⟨k, rfl, rfl, rfl⟩⟩
    · exact Or.inl h

end Bng.AcctDirect
