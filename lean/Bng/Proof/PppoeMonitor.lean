import Bng.Model.PppoeMonitor
import Bng.Proof.Decoders
import Bng.Spec.C04
/-
  Refinement proof for component `pppoesrv`: the monitor (`PppoeMon.monitorCore`) run on the model's own
  structured observations never raises a verdict other than the recorded finding KF-pppoe-idle-leak, for
  EVERY input history.  The proof carries a well-formedness invariant `W` of the server model and a relation
  `Rel` between the model state and the monitor's records; from them follow, for every history,
    * pool conservation            free + allocated = pool size,
    * no residue                   allocated = sessions holding an address + addresses stranded by idle sweeps,
    * service only after auth      (the C04 invariant, re-used),
    * foreign frames are inert.
-/
namespace Bng.Proof.PppoeMonitor
open Bng Bng.PppoeServer Bng.PppoeMon AMap
open Bng.Spec.C04 (lookup_filter_key lookup_sweep)

/-! ### counting sessions that hold an address -/

def cnt (m : AMap Nat Sess) : Nat := m.countP (fun p => p.2.ip.isSome)

theorem cnt_cons (k : Nat) (x : Sess) (m : AMap Nat Sess) :
    cnt ((k, x) :: m) = cnt m + (if x.ip.isSome then 1 else 0) := by
  unfold cnt
  rw [List.countP_cons]

theorem cnt_erase_of_lookup {m : AMap Nat Sess} (hn : NodupKeys m) {k : Nat} {x : Sess}
    (h : lookup m k = some x) : cnt (erase m k) + (if x.ip.isSome then 1 else 0) = cnt m := by
  induction m with
  | nil => simp at h
  | cons p rest ih =>
    obtain ⟨a, b⟩ := p
    have hn' : NodupKeys rest := by
      unfold NodupKeys keys at hn ⊢; simp at hn; exact hn.2
    have hnot : a ∉ keys rest := by
      unfold NodupKeys keys at hn; simp at hn
      intro hm; simp [keys] at hm; obtain ⟨y, hy⟩ := hm; exact hn.1 y hy
    rw [lookup_cons] at h
    by_cases e : a = k
    · subst e
      simp only [if_true, Option.some.injEq] at h
      subst h
      have h1 : erase ((a, b) :: rest) a = erase rest a := by simp [erase_cons]
      rw [h1, erase_eq_self_of_not_mem hnot, cnt_cons]
    · simp only [e, if_false] at h
      have := ih hn' h
      have h1 : erase ((a, b) :: rest) k = (a, b) :: erase rest k := by simp [erase_cons, e]
      rw [h1, cnt_cons, cnt_cons]
      omega

theorem cnt_erase_of_none {m : AMap Nat Sess} {k : Nat} (h : lookup m k = none) :
    cnt (erase m k) = cnt m := by
  rw [erase_eq_self_of_not_mem (lookup_eq_none_iff.mp h)]

/-- replacing the session under `k` by one with the same address flag leaves the count alone -/
theorem cnt_insert_same {m : AMap Nat Sess} (hn : NodupKeys m) {k : Nat} {x y : Sess}
    (h : lookup m k = some x) (hip : y.ip.isSome = x.ip.isSome) : cnt (AMap.insert m k y) = cnt m := by
  unfold AMap.insert
  rw [cnt_cons, hip]
  exact cnt_erase_of_lookup hn h

theorem cnt_insert_of_none {m : AMap Nat Sess} {k : Nat} {y : Sess} (h : lookup m k = none) :
    cnt (AMap.insert m k y) = cnt m + (if y.ip.isSome then 1 else 0) := by
  unfold AMap.insert
  rw [cnt_cons, cnt_erase_of_none h]

theorem length_insert_of_none {ν : Type} {m : AMap Nat ν} {k : Nat} {v : ν} (h : lookup m k = none) :
    (AMap.insert m k v).length = m.length + 1 := by
  unfold AMap.insert
  rw [List.length_cons, length_erase_of_none h]

/-! ### the sorted session list is a permutation of the table's values -/

theorem insertSorted_perm (x : Sess) : ∀ l, (insertSorted x l).Perm (x :: l)
  | [] => by simp [insertSorted]
  | y :: rest => by
    unfold insertSorted
    split
    · exact List.Perm.refl _
    · exact ((insertSorted_perm x rest).cons y).trans (List.Perm.swap x y rest)

theorem foldl_insertSorted_perm : ∀ (m : AMap Nat Sess) (acc : List Sess),
    (m.foldl (fun acc p => insertSorted p.2 acc) acc).Perm (vals m ++ acc)
  | [], acc => by simp [vals]
  | p :: rest, acc => by
    simp only [List.foldl_cons]
    refine (foldl_insertSorted_perm rest _).trans ?_
    refine ((insertSorted_perm p.2 acc).append_left (vals rest)).trans ?_
    simp only [vals, List.map_cons, List.cons_append]
    exact List.perm_middle

theorem sortedSess_perm (s : Srv) : (sortedSess s).Perm (vals s.sessions) := by
  have := foldl_insertSorted_perm s.sessions []
  simpa [sortedSess] using this

theorem holders_seen (s : Srv) : holders ((sortedSess s).map toSeen) = cnt s.sessions := by
  unfold holders cnt
  rw [← List.countP_eq_length_filter, List.countP_map]
  have h1 : (List.countP ((fun (y : Seen) => y.hasIp) ∘ toSeen) (sortedSess s))
      = List.countP (fun (x : Sess) => x.ip.isSome) (sortedSess s) := by
    apply List.countP_congr
    intro x _
    simp [toSeen]
  rw [h1, (sortedSess_perm s).countP_eq]
  unfold vals
  rw [List.countP_map]
  rfl

/-! ### the well-formedness invariant of the server model -/

structure W (s : Srv) : Prop where
  nd : NodupKeys s.sessions
  idk : ∀ sid x, lookup s.sessions sid = some x → x.id = sid
  ok : Spec.C04.Inv s
  nda : NodupKeys s.alloc
  ipa : ∀ sid x, lookup s.sessions sid = some x → x.ip = lookup s.alloc x.serial
  pnd : (s.avail ++ vals s.alloc).Nodup
  ser : ∀ sid x, lookup s.sessions sid = some x → x.serial < s.serialCtr
  inj : ∀ sid sid' x x', lookup s.sessions sid = some x → lookup s.sessions sid' = some x' →
          x.serial = x'.serial → sid = sid'
  bnd : ∀ k a, lookup s.alloc k = some a → k < s.serialCtr
  nx : s.nextID < 65536

theorem mem_vals_iff {s : Srv} (hW : W s) (x : Sess) :
    x ∈ vals s.sessions ↔ lookup s.sessions x.id = some x := by
  constructor
  · intro h
    simp only [vals, List.mem_map] at h
    obtain ⟨⟨k, y⟩, hm, rfl⟩ := h
    have hl := lookup_of_mem hW.nd hm
    have := hW.idk k y hl
    simp only at this ⊢
    rw [this]; exact hl
  · intro h
    have := mem_of_lookup h
    simp only [vals, List.mem_map]
    exact ⟨(x.id, x), this, rfl⟩

theorem mem_sorted_iff {s : Srv} (hW : W s) (x : Sess) :
    x ∈ sortedSess s ↔ lookup s.sessions x.id = some x := by
  rw [(sortedSess_perm s).mem_iff]
  exact mem_vals_iff hW x

theorem live_contains {s : Srv} (hW : W s) (sid : Nat) :
    (((sortedSess s).map toSeen).map (·.sid)).contains sid = (lookup s.sessions sid).isSome := by
  rw [Bool.eq_iff_iff, List.contains_iff_mem]
  simp only [List.map_map, List.mem_map, Function.comp, toSeen]
  constructor
  · rintro ⟨x, hx, rfl⟩
    rw [(mem_sorted_iff hW x).mp hx]; rfl
  · intro h
    cases hl : lookup s.sessions sid with
    | none => rw [hl] at h; simp at h
    | some x =>
      have hid := hW.idk sid x hl
      refine ⟨x, (mem_sorted_iff hW x).mpr (by rw [hid]; exact hl), hid⟩

theorem prev_any {s : Srv} (hW : W s) {sid : Nat} {x : Sess} (h : lookup s.sessions sid = some x) :
    ((sortedSess s).map toSeen).any (fun y => y.sid == sid) = true := by
  rw [List.any_eq_true]
  have hid := hW.idk sid x h
  refine ⟨toSeen x, List.mem_map.mpr ⟨x, (mem_sorted_iff hW x).mpr (by rw [hid]; exact h), rfl⟩, ?_⟩
  simp [toSeen, hid]

/-! ### the relation between model state and monitor records -/

structure Rel (s : Srv) (mn : Mon) : Prop where
  prev : mn.prev = (sortedSess s).map toSeen
  rad : mn.radius = s.radius
  own : ∀ sid, lookup mn.owner sid = (lookup s.sessions sid).map (·.mac)
  auth : ∀ sid x, lookup s.sessions sid = some x → x.everAuthed = true → sid ∈ mn.authOK
  count : s.alloc.length = cnt s.sessions + mn.stranded
  cons : s.avail.length + s.alloc.length = mn.total


theorem inj_of_nodup_map' {α β : Type} (f : α → β) : ∀ {l : List α}, (l.map f).Nodup →
    ∀ {a b : α}, a ∈ l → b ∈ l → f a = f b → a = b
  | [], _, _, _, ha, _, _ => by simp at ha
  | c :: rest, h, a, b, ha, hb, e => by
    simp only [List.map_cons, List.nodup_cons, List.mem_map, not_exists, not_and] at h
    rcases List.mem_cons.mp ha with rfl | ha' <;> rcases List.mem_cons.mp hb with rfl | hb'
    · rfl
    · exact absurd e.symm (h.1 b hb')
    · exact absurd e (h.1 a ha')
    · exact inj_of_nodup_map' f h.2 ha' hb' e

/-- the pool-view clauses never speak on the model: the address a session shows is the pool's entry for it, the
    recorded addresses are pairwise distinct, none of them is free -/
theorem v5_nil {s : Srv} (hW : W s) (outs : List Out) : v5 (obsOf s outs) = [] := by
  have hheld : ∀ p, p ∈ (obsOf s outs).held ↔
      ∃ y, y ∈ sortedSess s ∧ AMap.lookup s.alloc y.serial = some p.2 ∧ y.id = p.1 := by
    intro p
    show p ∈ (sortedSess s).filterMap _ ↔ _
    rw [List.mem_filterMap]
    constructor
    · rintro ⟨y, hy, h⟩
      cases hl : AMap.lookup s.alloc y.serial with
      | none => rw [hl] at h; simp at h
      | some a =>
        rw [hl] at h
        simp only [Option.map_some, Option.some.injEq] at h
        subst h
        exact ⟨y, hy, hl, rfl⟩
    · rintro ⟨y, hy, hl, hid⟩
      refine ⟨y, hy, ?_⟩
      rw [hl]
      simp only [Option.map_some, Option.some.injEq]
      rw [hid]
  have hvals : (vals s.alloc).Nodup := (List.nodup_append.mp hW.pnd).2.1
  -- one address, one session
  have huniq : ∀ y y' a, y ∈ sortedSess s → y' ∈ sortedSess s → AMap.lookup s.alloc y.serial = some a →
      AMap.lookup s.alloc y'.serial = some a → y = y' := by
    intro y y' a hy hy' h h'
    have l1 := (mem_sorted_iff hW y).mp hy
    have l2 := (mem_sorted_iff hW y').mp hy'
    have hk : y.serial = y'.serial :=
      congrArg Prod.fst (inj_of_nodup_map' (fun (p : Nat × Nat) => p.2) hvals (mem_of_lookup h) (mem_of_lookup h') rfl)
    have hid := hW.inj y.id y'.id y y' l1 l2 hk
    rw [hid] at l1
    rw [l1] at l2
    exact Option.some.inj l2
  have h1 : v5a (obsOf s outs) = [] := by
    unfold v5a
    rw [List.filterMap_eq_nil_iff]
    intro x hx
    have hx' : x ∈ (sortedSess s).map toSeen := hx
    obtain ⟨y, hy, rfl⟩ := List.mem_map.mp hx'
    have hl := (mem_sorted_iff hW y).mp hy
    have hip := hW.ipa y.id y hl
    have hok : poolAgrees (obsOf s outs) (toSeen y) = true := by
      show (match y.ip with
        | some a => (obsOf s outs).held.contains (y.id, a)
        | none => !((obsOf s outs).held.any (·.1 == y.id))) = true
      cases hyip : y.ip with
      | some a =>
        simp only
        rw [List.contains_iff_mem]
        exact (hheld (y.id, a)).mpr ⟨y, hy, by rw [← hip, hyip], rfl⟩
      | none =>
        simp only [Bool.not_eq_true']
        rw [List.any_eq_false]
        intro p hp
        obtain ⟨y', hy', hl', hid'⟩ := (hheld p).mp hp
        intro he
        have he' : p.1 = y.id := by simpa using he
        -- y' has the same id as y, so it is y; but y has no pool entry
        have l2 := (mem_sorted_iff hW y').mp hy'
        rw [hid', he'] at l2
        rw [hl] at l2
        have : y = y' := Option.some.inj l2
        subst this
        rw [hyip] at hip
        rw [← hip] at hl'
        cases hl'
    simp only [hok, if_true]
  have h2 : v5b (obsOf s outs) = [] := by
    unfold v5b
    have hnd : ((obsOf s outs).held.map (·.2)).Nodup := by
      show (((sortedSess s).filterMap fun x => (AMap.lookup s.alloc x.serial).map fun a => (x.id, a)).map (·.2)).Nodup
      rw [List.map_filterMap]
      have hsn : (sortedSess s).Nodup := by
        have hv : (vals s.sessions).Nodup := by
          have hk : ((vals s.sessions).map (·.id)).Nodup := by
            have : (vals s.sessions).map (·.id) = keys s.sessions := by
              unfold vals keys
              rw [List.map_map]
              apply List.map_congr_left
              intro p hp
              obtain ⟨k, x⟩ := p
              exact hW.idk k x (lookup_of_mem hW.nd hp)
            rw [this]; exact hW.nd
          exact List.Pairwise.of_map (·.id) (fun a b h e => h (congrArg _ e)) hk
        exact (sortedSess_perm s).symm.nodup hv
      refine List.Pairwise.filterMap _ ?_ (List.Pairwise.and_mem.mp hsn)
      intro y y' ⟨hy, hy', hne⟩ a ha a' ha'
      cases hl : AMap.lookup s.alloc y.serial with
      | none => rw [hl] at ha; simp at ha
      | some b =>
        cases hl' : AMap.lookup s.alloc y'.serial with
        | none => rw [hl'] at ha'; simp at ha'
        | some b' =>
          rw [hl] at ha; rw [hl'] at ha'
          simp only [Option.map_some, Option.some.injEq] at ha ha'
          subst ha; subst ha'
          intro e
          exact hne (huniq y y' b hy hy' hl (by rw [hl', e]))
    rw [if_pos hnd]
  have h3 : v5c (obsOf s outs) = [] := by
    unfold v5c
    rw [List.filterMap_eq_nil_iff]
    intro p hp
    obtain ⟨y, _, hl, _⟩ := (hheld p).mp hp
    have hm : p.2 ∈ vals s.alloc := by
      simp only [vals, List.mem_map]
      exact ⟨_, mem_of_lookup hl, rfl⟩
    have hnf : ¬ p.2 ∈ s.avail := fun hmem => (List.nodup_append.mp hW.pnd).2.2 p.2 hmem p.2 hm rfl
    have : (obsOf s outs).freeL.contains p.2 = false := by
      rw [Bool.eq_false_iff]; intro hc; rw [List.contains_iff_mem] at hc; exact hnf hc
    simp only [this]
    rfl
  unfold v5
  rw [h1, h2, h3]
  rfl

/-- a verdict is acceptable when it is the recorded idle-sweep finding -/
def Quiet (vs : List Verdict) : Prop := ∀ v ∈ vs, v.2.1 = "KF-pppoe-idle-leak"

theorem auth0_sub_auth1 (mn : Mon) (i : In) (o : Obs) {sid : Nat} (h : sid ∈ auth0 mn o) : sid ∈ auth1 mn i o := by
  unfold auth1
  simp only
  split
  · split
    · exact h
    · exact List.mem_cons_of_mem _ h
  · exact h

/-- what remains to be shown per operation once the new model state is known -/
theorem finish {s' : Srv} {mn : Mon} {i : In} {outs : List Out}
    (hW' : W s')
    (hown1 : ∀ sid x', lookup s'.sessions sid = some x' →
        lookup (owner1 mn i (obsOf s' outs)) sid = some x'.mac)
    (hauth1 : ∀ sid x', lookup s'.sessions sid = some x' → x'.everAuthed = true →
        sid ∈ auth1 mn i (obsOf s' outs))
    (hcnt : s'.alloc.length = cnt s'.sessions + (mn.stranded + sweptNow mn (obsOf s' outs) i))
    (hcons : s'.avail.length + s'.alloc.length = mn.total)
    (hrad : mn.radius = s'.radius)
    (hsent : ∀ t ∈ (obsOf s' outs).sent, t.ipcpAns = true → t.sid ∈ auth1 mn i (obsOf s' outs))
    (hv3 : v3 mn i (obsOf s' outs) = [])
    (hv6 : v6 i (obsOf s' outs) = []) :
    Rel s' (monitorCore mn i (obsOf s' outs)).1 ∧ Quiet (monitorCore mn i (obsOf s' outs)).2 := by
  have hlive := live_contains hW'
  constructor
  · refine ⟨rfl, hrad, ?_, ?_, ?_, hcons⟩
    · intro sid
      show lookup ((owner1 mn i (obsOf s' outs)).filter _) sid = _
      rw [lookup_filter_key (fun k => ((obsOf s' outs).seen.map (·.sid)).contains k)]
      show (if (((sortedSess s').map toSeen).map (·.sid)).contains sid = true then _ else _) = _
      rw [hlive sid]
      cases hl : lookup s'.sessions sid with
      | none => simp
      | some x' => simp [hown1 sid x' hl]
    · intro sid x' hl he
      show sid ∈ (auth1 mn i (obsOf s' outs)).filter _
      rw [List.mem_filter]
      refine ⟨hauth1 sid x' hl he, ?_⟩
      show (((sortedSess s').map toSeen).map (·.sid)).contains sid = true
      rw [hlive sid, hl]; rfl
    · show s'.alloc.length = cnt s'.sessions + (mn.stranded + sweptNow mn (obsOf s' outs) i)
      exact hcnt
  · -- verdicts
    have h1 : v1 (auth1 mn i (obsOf s' outs)) (obsOf s' outs) = [] := by
      unfold v1
      rw [List.filterMap_eq_nil_iff]
      intro y hy
      have hy' : y ∈ (sortedSess s').map toSeen := hy
      obtain ⟨x, hx, rfl⟩ := List.mem_map.mp hy'
      have hl := (mem_sorted_iff hW' x).mp hx
      have hok := hW'.ok x.id x hl
      by_cases hserv : ((toSeen x).est || (toSeen x).hasIp) = true
      · have he : x.everAuthed = true := by
          simp only [toSeen, Bool.or_eq_true, decide_eq_true_eq] at hserv
          rcases hserv with h | h
          · exact hok.2.1 h
          · exact hok.2.2 h
        have hm := hauth1 x.id x hl he
        have hm' : (toSeen x).sid ∈ auth1 mn i (obsOf s' outs) := hm
        simp [hm']
      · simp [hserv]
    have h2 : v2 (auth1 mn i (obsOf s' outs)) (obsOf s' outs) = [] := by
      unfold v2
      rw [List.filterMap_eq_nil_iff]
      intro t ht
      by_cases ha : t.ipcpAns = true
      · have hm := hsent t ht ha
        simp [hm]
      · simp [ha]
    have hh : holders (obsOf s' outs).seen = cnt s'.sessions := holders_seen s'
    intro v hv
    show v.2.1 = _
    have hv' : v ∈ v1 (auth1 mn i (obsOf s' outs)) (obsOf s' outs) ++ v2 (auth1 mn i (obsOf s' outs)) (obsOf s' outs)
        ++ v3 mn i (obsOf s' outs) ++ v4 mn i (obsOf s' outs) ++ v5 (obsOf s' outs) ++ v6 i (obsOf s' outs) := hv
    rw [h1, h2, hv3, v5_nil hW', hv6, List.append_nil, List.append_nil] at hv'
    simp only [List.nil_append, v4, hh] at hv'
    have e1 : (obsOf s' outs).alloc = s'.alloc.length := rfl
    have e2 : (obsOf s' outs).free = s'.avail.length := rfl
    rw [e1, e2] at hv'
    have c1 : ¬ (s'.alloc.length ≠ cnt s'.sessions + (mn.stranded + sweptNow mn (obsOf s' outs) i)) := by
      intro h; exact h hcnt
    have c2 : ¬ (mn.total ≠ 0 ∧ s'.avail.length + s'.alloc.length ≠ mn.total) := by
      intro h; exact h.2 hcons
    rw [if_neg c1, if_neg c2] at hv'
    simp only [List.append_nil] at hv'
    split at hv'
    · simp only [List.mem_singleton] at hv'
      rw [hv']
    · simp at hv'


theorem inj_of_nodup_map {α β : Type} (f : α → β) : ∀ {l : List α}, (l.map f).Nodup →
    ∀ {a b : α}, a ∈ l → b ∈ l → f a = f b → a = b
  | [], _, _, _, ha, _, _ => by simp at ha
  | c :: rest, h, a, b, ha, hb, e => by
    simp only [List.map_cons, List.nodup_cons, List.mem_map, not_exists, not_and] at h
    rcases List.mem_cons.mp ha with rfl | ha' <;> rcases List.mem_cons.mp hb with rfl | hb'
    · rfl
    · exact absurd e.symm (h.1 b hb')
    · exact absurd e (h.1 a ha')
    · exact inj_of_nodup_map f h.2 ha' hb' e

/-! ### the pool operations -/

theorem vals_erase_perm {m : AMap Nat Nat} (hn : NodupKeys m) {k a : Nat} (h : lookup m k = some a) :
    (vals m).Perm (a :: vals (erase m k)) := by
  induction m with
  | nil => simp at h
  | cons p rest ih =>
    obtain ⟨c, b⟩ := p
    have hn' : NodupKeys rest := by
      unfold NodupKeys keys at hn ⊢; simp at hn; exact hn.2
    have hnot : c ∉ keys rest := by
      unfold NodupKeys keys at hn; simp at hn
      intro hm; simp [keys] at hm; obtain ⟨y, hy⟩ := hm; exact hn.1 y hy
    rw [lookup_cons] at h
    by_cases e : c = k
    · subst e
      simp only [if_true, Option.some.injEq] at h
      subst h
      have h1 : erase ((c, b) :: rest) c = erase rest c := by simp [erase_cons]
      rw [h1, erase_eq_self_of_not_mem hnot]
      exact List.Perm.refl _
    · simp only [e, if_false] at h
      have h1 : erase ((c, b) :: rest) k = (c, b) :: erase rest k := by simp [erase_cons, e]
      rw [h1]
      simp only [vals, List.map_cons]
      exact ((ih hn' h).cons b).trans (List.Perm.swap a b _)

theorem release_facts (s : Srv) (hn : NodupKeys s.alloc) (k : Nat) :
    (poolRelease s k).sessions = s.sessions ∧ (poolRelease s k).radius = s.radius ∧
    (poolRelease s k).serialCtr = s.serialCtr ∧ (poolRelease s k).nextID = s.nextID ∧
    NodupKeys (poolRelease s k).alloc ∧
    (∀ k', lookup (poolRelease s k).alloc k' = if k' = k then none else lookup s.alloc k') ∧
    (poolRelease s k).avail.length + (poolRelease s k).alloc.length = s.avail.length + s.alloc.length ∧
    (poolRelease s k).alloc.length + (if (lookup s.alloc k).isSome then 1 else 0) = s.alloc.length ∧
    ((poolRelease s k).avail ++ vals (poolRelease s k).alloc).Perm (s.avail ++ vals s.alloc) := by
  unfold poolRelease
  cases h : lookup s.alloc k with
  | none =>
    refine ⟨rfl, rfl, rfl, rfl, hn, ?_, rfl, by simp, List.Perm.refl _⟩
    intro k'
    by_cases e : k' = k
    · subst e; simp [h]
    · simp [e]
  | some a =>
    have hl := length_erase_of_lookup hn h
    refine ⟨rfl, rfl, rfl, rfl, nodupKeys_erase hn k, ?_, ?_, ?_, ?_⟩
    rotate_left 3
    · show ((s.avail ++ [a]) ++ vals (erase s.alloc k)).Perm (s.avail ++ vals s.alloc)
      rw [List.append_assoc]
      exact ((vals_erase_perm hn h).symm).append_left s.avail
    · intro k'
      show lookup (erase s.alloc k) k' = _
      rw [lookup_erase]
    · show (s.avail ++ [a]).length + (erase s.alloc k).length = _
      simp only [List.length_append, List.length_singleton]
      omega
    · show (erase s.alloc k).length + _ = _
      simp only [Option.isSome_some, if_true]
      exact hl

theorem allocate_facts (s : Srv) (hn : NodupKeys s.alloc) (k : Nat) :
    (poolAllocate s k).1.sessions = s.sessions ∧ (poolAllocate s k).1.radius = s.radius ∧
    (poolAllocate s k).1.serialCtr = s.serialCtr ∧ (poolAllocate s k).1.nextID = s.nextID ∧
    NodupKeys (poolAllocate s k).1.alloc ∧
    (poolAllocate s k).2 = lookup (poolAllocate s k).1.alloc k ∧
    (∀ k', k' ≠ k → lookup (poolAllocate s k).1.alloc k' = lookup s.alloc k') ∧
    (poolAllocate s k).1.avail.length + (poolAllocate s k).1.alloc.length = s.avail.length + s.alloc.length ∧
    (poolAllocate s k).1.alloc.length + (if (lookup s.alloc k).isSome then 1 else 0)
      = s.alloc.length + (if (poolAllocate s k).2.isSome then 1 else 0) ∧
    ((poolAllocate s k).1.avail ++ vals (poolAllocate s k).1.alloc).Perm (s.avail ++ vals s.alloc) := by
  unfold poolAllocate
  cases h : lookup s.alloc k with
  | some a =>
    refine ⟨rfl, rfl, rfl, rfl, hn, by simp [h], fun _ _ => rfl, rfl, by simp, List.Perm.refl _⟩
  | none =>
    cases hv : s.avail with
    | nil =>
      refine ⟨rfl, rfl, rfl, rfl, hn, by simp [h], fun _ _ => rfl, by simp [hv], by simp, by simp [hv]⟩
    | cons a rest =>
      refine ⟨rfl, rfl, rfl, rfl, nodupKeys_insert hn k a, ?_, ?_, ?_, ?_, ?_⟩
      rotate_left 4
      · show (rest ++ vals (AMap.insert s.alloc k a)).Perm (a :: rest ++ vals s.alloc)
        unfold AMap.insert
        rw [erase_eq_self_of_not_mem (lookup_eq_none_iff.mp h)]
        simp only [vals, List.map_cons, List.cons_append]
        exact List.perm_middle
      · show some a = lookup (AMap.insert s.alloc k a) k
        rw [lookup_insert]; simp
      · intro k' hk'
        show lookup (AMap.insert s.alloc k a) k' = _
        exact lookup_insert_ne s.alloc a hk'
      · show rest.length + (AMap.insert s.alloc k a).length = _
        rw [length_insert_of_none h]
        simp only [List.length_cons]
        omega
      · show (AMap.insert s.alloc k a).length + _ = _
        rw [length_insert_of_none h]
        simp

/-! ### well-formedness is kept by the two shapes of table update -/

theorem W_update {s : Srv} (hW : W s) {sid : Nat} {x y : Sess} (hx : lookup s.sessions sid = some x)
    (s1 : Srv) (hs : s1.sessions = s.sessions) (hc : s1.serialCtr = s.serialCtr) (hnx : s1.nextID = s.nextID)
    (hnda : NodupKeys s1.alloc)
    (hother : ∀ k', k' ≠ x.serial → lookup s1.alloc k' = lookup s.alloc k')
    (hbnd : ∀ k a, lookup s1.alloc k = some a → k < s1.serialCtr)
    (hid : y.id = x.id) (hser : y.serial = x.serial)
    (hip : y.ip = lookup s1.alloc x.serial)
    (hpnd : (s1.avail ++ vals s1.alloc).Nodup)
    (hok : Spec.C04.Inv (setSess s1 sid y)) : W (setSess s1 sid y) := by
  have look : ∀ k z, lookup (setSess s1 sid y).sessions k = some z →
      (k = sid ∧ z = y) ∨ (k ≠ sid ∧ lookup s.sessions k = some z) := by
    intro k z h
    simp only [setSess, hs, lookup_insert] at h
    split at h
    · rename_i e
      simp only [Option.some.injEq] at h
      exact Or.inl ⟨e, h.symm⟩
    · rename_i e
      exact Or.inr ⟨e, h⟩
  refine ⟨?_, ?_, hok, hnda, ?_, hpnd, ?_, ?_, hbnd, by simpa [setSess, hnx] using hW.nx⟩
  · simp only [setSess, hs]; exact nodupKeys_insert hW.nd sid y
  · intro k z h
    rcases look k z h with ⟨rfl, rfl⟩ | ⟨_, h'⟩
    · rw [hid]; exact hW.idk _ x hx
    · exact hW.idk k z h'
  · intro k z h
    show z.ip = lookup s1.alloc z.serial
    rcases look k z h with ⟨rfl, rfl⟩ | ⟨hne, h'⟩
    · rw [hser]; exact hip
    · have : z.serial ≠ x.serial := fun e => hne (hW.inj k sid z x h' hx e)
      rw [hother _ this]; exact hW.ipa k z h'
  · intro k z h
    show z.serial < s1.serialCtr
    rw [hc]
    rcases look k z h with ⟨rfl, rfl⟩ | ⟨_, h'⟩
    · rw [hser]; exact hW.ser _ x hx
    · exact hW.ser k z h'
  · intro k k' z z' h h' e
    rcases look k z h with ⟨rfl, rfl⟩ | ⟨hne, h1⟩ <;> rcases look k' z' h' with ⟨rfl, rfl⟩ | ⟨hne', h1'⟩
    · rfl
    · rw [hser] at e; exact hW.inj _ _ x z' hx h1' e
    · rw [hser] at e; exact hW.inj _ _ z x h1 hx e
    · exact hW.inj _ _ z z' h1 h1' e

theorem W_remove {s : Srv} (hW : W s) {sid : Nat} {x : Sess} (hx : lookup s.sessions sid = some x)
    (s1 : Srv) (hs : s1.sessions = s.sessions) (hc : s1.serialCtr = s.serialCtr) (hnx : s1.nextID = s.nextID)
    (hnda : NodupKeys s1.alloc)
    (hother : ∀ k', k' ≠ x.serial → lookup s1.alloc k' = lookup s.alloc k')
    (hbnd : ∀ k a, lookup s1.alloc k = some a → k < s1.serialCtr)
    (hpnd : (s1.avail ++ vals s1.alloc).Nodup)
    (hok : Spec.C04.Inv { s1 with sessions := AMap.erase s1.sessions sid }) :
    W { s1 with sessions := AMap.erase s1.sessions sid } := by
  have look : ∀ k z, lookup (AMap.erase s1.sessions sid) k = some z → k ≠ sid ∧ lookup s.sessions k = some z := by
    intro k z h
    rw [hs, lookup_erase] at h
    split at h
    · simp at h
    · rename_i e; exact ⟨e, h⟩
  refine ⟨?_, ?_, hok, hnda, ?_, hpnd, ?_, ?_, hbnd, by simpa [hnx] using hW.nx⟩
  · show NodupKeys (AMap.erase s1.sessions sid)
    rw [hs]; exact nodupKeys_erase hW.nd sid
  · intro k z h; exact hW.idk k z (look k z h).2
  · intro k z h
    obtain ⟨hne, h'⟩ := look k z h
    show z.ip = lookup s1.alloc z.serial
    have : z.serial ≠ x.serial := fun e => hne (hW.inj k sid z x h' hx e)
    rw [hother _ this]; exact hW.ipa k z h'
  · intro k z h
    show z.serial < s1.serialCtr
    rw [hc]; exact hW.ser k z (look k z h).2
  · intro k k' z z' h h' e
    exact hW.inj _ _ z z' (look k z h).2 (look k' z' h').2 e


/-! ### monitor bookkeeping on frames that are not PADS -/

theorem foldl_noop {α β : Type} (f : β → α → β) (l : List α) (p : α → Prop)
    (hf : ∀ b a, p a → f b a = b) (hl : ∀ a ∈ l, p a) (b : β) : l.foldl f b = b := by
  induction l generalizing b with
  | nil => rfl
  | cons a rest ih =>
    simp only [List.foldl_cons]
    rw [hf b a (hl a (by simp))]
    exact ih (fun a ha => hl a (by simp [ha])) b

theorem owner1_nopads (mn : Mon) (i : In) (o : Obs) (h : ∀ t ∈ o.sent, t.pads = false) :
    owner1 mn i o = mn.owner := by
  unfold owner1
  apply foldl_noop _ _ (fun t => t.pads = false) _ h
  intro b a ha
  simp [ha]

theorem auth0_nopads (mn : Mon) (o : Obs) (h : ∀ t ∈ o.sent, t.pads = false) :
    auth0 mn o = mn.authOK := by
  unfold auth0
  apply foldl_noop _ _ (fun t => t.pads = false) _ h
  intro b a ha
  simp [ha]

theorem ownerGate_none_of_mac {s : Srv} {m sid : Nat} {x : Sess} (hx : lookup s.sessions sid = some x)
    (hm : x.mac ≠ m) : ownerGate s m sid = none := by
  unfold ownerGate
  rw [hx]
  simp [hm]

theorem inert {s : Srv} {i : In} {m sid : Nat} (ht : target i = some (m, sid))
    (hg : ownerGate s m sid = none) : step s i = (s, []) := by
  cases i <;> simp only [target, Option.some.injEq, Prod.mk.injEq, reduceCtorEq] at ht
  all_goals first
    | (obtain ⟨rfl, rfl⟩ := ht; simp only [step, hg])
    | (simp only [step])

/-- frames from a MAC that does not own the session never make the monitor speak -/
theorem v3_nil {s s' : Srv} {mn : Mon} {i : In} {outs : List Out} (hR : Rel s mn)
    (hstep : step s i = (s', outs)) : v3 mn i (obsOf s' outs) = [] := by
  unfold v3
  cases ht : target i with
  | none => rfl
  | some p =>
    obtain ⟨m, sid⟩ := p
    simp only
    split
    · rename_i ow before hown hfind
      split
      · rename_i hne
        rw [hR.own sid] at hown
        cases hl : lookup s.sessions sid with
        | none => rw [hl] at hown; simp at hown
        | some x =>
          rw [hl] at hown
          simp only [Option.map_some, Option.some.injEq] at hown
          have hg := ownerGate_none_of_mac hl (by rw [hown]; exact hne)
          have := inert ht hg
          rw [hstep] at this
          simp only [Prod.mk.injEq] at this
          obtain ⟨rfl, rfl⟩ := this
          have hseen : (obsOf s' []).seen = mn.prev := hR.prev.symm
          have hsent : (obsOf s' []).sent = [] := rfl
          simp only [hseen, hfind, hsent]
          simp
      · rfl
    · rfl

/-- an IPCP Configure-Ack is one of the answers the `unauth` clause looks at -/
theorem ack_is_ans : ∀ (o : Out) (t : Sent), toSent o = some t → t.ack = true → t.ipcpAns = true := by
  intro o t h ha
  cases o with
  | ipcpnak ip sid m =>
    cases ip <;> simp [toSent, plainSent] at h <;> subst h <;> simp_all
  | _ => simp [toSent, plainSent] at h <;> (try subst h) <;> simp_all

theorem v6_nil_of_noack {s' : Srv} (i : In) (outs : List Out)
    (h : ∀ t ∈ outs.filterMap toSent, t.ack = false) : v6 i (obsOf s' outs) = [] := by
  unfold v6
  split
  · rename_i sid
    have : ((obsOf s' outs).sent.any fun t => t.sid == sid && t.ack) = false := by
      rw [List.any_eq_false]
      intro t ht
      have := h t ht
      simp [this]
    simp [this]
  · rfl

theorem v6_nil_of_noans {s' : Srv} (i : In) (outs : List Out)
    (h : ∀ t ∈ outs.filterMap toSent, t.pads = false ∧ t.ipcpAns = false) : v6 i (obsOf s' outs) = [] := by
  apply v6_nil_of_noack
  intro t ht
  cases hb : t.ack with
  | false => rfl
  | true =>
    obtain ⟨o, _, ho⟩ := List.mem_filterMap.mp ht
    have := ack_is_ans o t ho hb
    rw [(h t ht).2] at this; cases this

/-- an operation that leaves the server state alone -/
theorem same_state {s : Srv} {mn : Mon} {i : In} {outs : List Out} (hW : W s) (hR : Rel s mn)
    (hstep : step s i = (s, outs)) (hns : ∀ o, sweptNow mn o i = 0)
    (hnp : ∀ t ∈ outs.filterMap toSent, t.pads = false)
    (hans : ∀ t ∈ outs.filterMap toSent, t.ipcpAns = true →
      ∃ x, lookup s.sessions t.sid = some x ∧ x.authed = true)
    (hv6 : v6 i (obsOf s outs) = []) :
    Rel s (monitorCore mn i (obsOf s outs)).1 ∧ Quiet (monitorCore mn i (obsOf s outs)).2 := by
  have hnp' : ∀ t ∈ (obsOf s outs).sent, t.pads = false := hnp
  apply finish hW
  · intro sid x' hl
    rw [owner1_nopads mn i _ hnp', hR.own sid, hl]; rfl
  · intro sid x' hl he
    apply auth0_sub_auth1
    rw [auth0_nopads mn _ hnp']
    exact hR.auth sid x' hl he
  · rw [hns _]; exact hR.count
  · exact hR.cons
  · exact hR.rad
  · intro t ht ha
    obtain ⟨x, hl, hau⟩ := hans t ht ha
    apply auth0_sub_auth1
    rw [auth0_nopads mn _ hnp']
    exact hR.auth t.sid x hl ((hW.ok t.sid x hl).1 hau)
  · exact v3_nil hR hstep
  · exact hv6


/-- the statement proved for every operation -/
def StepOK (s : Srv) (mn : Mon) (i : In) : Prop :=
  W (step s i).1 ∧ Rel (step s i).1 (monitorCore mn i (obsOf (step s i).1 (step s i).2)).1 ∧
    Quiet (monitorCore mn i (obsOf (step s i).1 (step s i).2)).2

theorem conclude {s s' : Srv} {mn : Mon} {i : In} {outs : List Out} (hstep : step s i = (s', outs)) (hW' : W s')
    (h : Rel s' (monitorCore mn i (obsOf s' outs)).1 ∧ Quiet (monitorCore mn i (obsOf s' outs)).2) :
    StepOK s mn i := by
  unfold StepOK
  rw [hstep]
  exact ⟨hW', h⟩

theorem inv_of_step {s s' : Srv} {i : In} {outs : List Out} (hW : W s) (hstep : step s i = (s', outs)) :
    Spec.C04.Inv s' := by
  have := Spec.C04.inv_step hW.ok i
  rw [hstep] at this
  exact this

/-- a session is removed after its address went back to the pool (PADT, LCP Terminate, failed PAP) -/
theorem remove_core {s s1 : Srv} {mn : Mon} {i : In} {sid : Nat} {x : Sess} {outs : List Out}
    (hW : W s) (hR : Rel s mn) (hx : lookup s.sessions sid = some x)
    (hstep : step s i = ({ s1 with sessions := AMap.erase s1.sessions sid }, outs))
    (hs : s1.sessions = s.sessions) (hr : s1.radius = s.radius) (hc : s1.serialCtr = s.serialCtr)
    (hnx : s1.nextID = s.nextID) (hnda : NodupKeys s1.alloc)
    (hlook : ∀ k', lookup s1.alloc k' = if k' = x.serial then none else lookup s.alloc k')
    (hcons : s1.avail.length + s1.alloc.length = s.avail.length + s.alloc.length)
    (hlen : s1.alloc.length + (if (lookup s.alloc x.serial).isSome then 1 else 0) = s.alloc.length)
    (hperm : (s1.avail ++ vals s1.alloc).Perm (s.avail ++ vals s.alloc))
    (hns : ∀ o, sweptNow mn o i = 0)
    (hnp : ∀ t ∈ outs.filterMap toSent, t.pads = false ∧ t.ipcpAns = false) : StepOK s mn i := by
  have hpnd := hperm.symm.nodup hW.pnd
  have hother : ∀ k', k' ≠ x.serial → lookup s1.alloc k' = lookup s.alloc k' := by
    intro k' hk; rw [hlook, if_neg hk]
  have hbnd : ∀ k a, lookup s1.alloc k = some a → k < s1.serialCtr := by
    intro k a h
    rw [hlook] at h
    split at h
    · simp at h
    · rw [hc]; exact hW.bnd k a h
  have hW' := W_remove hW hx s1 hs hc hnx hnda hother hbnd hpnd (inv_of_step hW hstep)
  have look : ∀ k z, lookup (AMap.erase s1.sessions sid) k = some z → k ≠ sid ∧ lookup s.sessions k = some z := by
    intro k z h
    rw [hs, lookup_erase] at h
    split at h
    · simp at h
    · rename_i e; exact ⟨e, h⟩
  have hnp' : ∀ t ∈ (obsOf { s1 with sessions := AMap.erase s1.sessions sid } outs).sent, t.pads = false :=
    fun t ht => (hnp t ht).1
  apply conclude hstep hW'
  apply finish hW'
  · intro k z h
    rw [owner1_nopads mn i _ hnp', hR.own k, (look k z h).2]; rfl
  · intro k z h he
    apply auth0_sub_auth1
    rw [auth0_nopads mn _ hnp']
    exact hR.auth k z (look k z h).2 he
  · show s1.alloc.length = cnt (AMap.erase s1.sessions sid) + _
    rw [hns _, hs]
    have h1 := cnt_erase_of_lookup hW.nd hx
    have h2 := hW.ipa sid x hx
    have h3 := hR.count
    rw [← h2] at hlen
    omega
  · show s1.avail.length + s1.alloc.length = _
    rw [hcons]; exact hR.cons
  · show mn.radius = s1.radius
    rw [hr]; exact hR.rad
  · intro t ht ha
    have := (hnp t ht).2
    rw [this] at ha; simp at ha
  · exact v3_nil hR hstep
  · exact v6_nil_of_noans i outs hnp

/-- a session is updated in place, possibly after an address was taken from the pool -/
theorem update_core {s s1 : Srv} {mn : Mon} {i : In} {sid : Nat} {x y : Sess} {outs : List Out}
    (hW : W s) (hR : Rel s mn) (hx : lookup s.sessions sid = some x)
    (hstep : step s i = (setSess s1 sid y, outs))
    (hs : s1.sessions = s.sessions) (hr : s1.radius = s.radius) (hc : s1.serialCtr = s.serialCtr)
    (hnx : s1.nextID = s.nextID) (hnda : NodupKeys s1.alloc)
    (hother : ∀ k', k' ≠ x.serial → lookup s1.alloc k' = lookup s.alloc k')
    (hcons : s1.avail.length + s1.alloc.length = s.avail.length + s.alloc.length)
    (hlen : s1.alloc.length + (if x.ip.isSome then 1 else 0) = s.alloc.length + (if y.ip.isSome then 1 else 0))
    (hperm : (s1.avail ++ vals s1.alloc).Perm (s.avail ++ vals s.alloc))
    (hid : y.id = x.id) (hmac : y.mac = x.mac) (hser : y.serial = x.serial)
    (hip : y.ip = lookup s1.alloc x.serial)
    (hauth : y.everAuthed = true → sid ∈ auth1 mn i (obsOf (setSess s1 sid y) outs))
    (hns : ∀ o, sweptNow mn o i = 0)
    (hnp : ∀ t ∈ outs.filterMap toSent, t.pads = false ∧ t.ipcpAns = false) : StepOK s mn i := by
  have hbnd : ∀ k a, lookup s1.alloc k = some a → k < s1.serialCtr := by
    intro k a h
    rw [hc]
    by_cases e : k = x.serial
    · rw [e]; exact hW.ser sid x hx
    · rw [hother k e] at h; exact hW.bnd k a h
  have hW' := W_update hW hx s1 hs hc hnx hnda hother hbnd hid hser hip (hperm.symm.nodup hW.pnd) (inv_of_step hW hstep)
  have look : ∀ k z, lookup (setSess s1 sid y).sessions k = some z →
      (k = sid ∧ z = y) ∨ (k ≠ sid ∧ lookup s.sessions k = some z) := by
    intro k z h
    simp only [setSess, hs, lookup_insert] at h
    split at h
    · rename_i e
      simp only [Option.some.injEq] at h
      exact Or.inl ⟨e, h.symm⟩
    · rename_i e
      exact Or.inr ⟨e, h⟩
  have hnp' : ∀ t ∈ (obsOf (setSess s1 sid y) outs).sent, t.pads = false := fun t ht => (hnp t ht).1
  apply conclude hstep hW'
  apply finish hW'
  · intro k z h
    rw [owner1_nopads mn i _ hnp', hR.own k]
    rcases look k z h with ⟨rfl, rfl⟩ | ⟨_, h'⟩
    · rw [hx, hmac]; rfl
    · rw [h']; rfl
  · intro k z h he
    rcases look k z h with ⟨rfl, rfl⟩ | ⟨_, h'⟩
    · exact hauth he
    · apply auth0_sub_auth1
      rw [auth0_nopads mn _ hnp']
      exact hR.auth k z h' he
  · show s1.alloc.length = cnt (AMap.insert s1.sessions sid y) + _
    rw [hns _, hs]
    have h1 := cnt_erase_of_lookup hW.nd hx
    have h3 := hR.count
    unfold AMap.insert
    rw [cnt_cons]
    omega
  · show s1.avail.length + s1.alloc.length = _
    rw [hcons]; exact hR.cons
  · show mn.radius = s1.radius
    rw [hr]; exact hR.rad
  · intro t ht ha
    have := (hnp t ht).2
    rw [this] at ha; simp at ha
  · exact v3_nil hR hstep
  · exact v6_nil_of_noans i outs hnp


theorem newId_got {s : Srv} (hW : W s) {id nx : Nat} (h : newId s = .got id nx) :
    lookup s.sessions id = none ∧ nx < 65536 := by
  unfold newId at h
  obtain ⟨_, hspec⟩ := Decoders.createSession_spec (keys s.sessions) s.nextID hW.nx
  rcases hspec with ⟨hfull, _⟩ | ⟨id', nx', hgot, hfree, _, _⟩
  · rw [hfull] at h; cases h
  · rw [hgot] at h
    injection h with h1 h2
    subst h1; subst h2
    constructor
    · rw [lookup_eq_none_iff]
      intro hm
      have : (keys s.sessions).contains id' = true := by rw [List.contains_iff_mem]; exact hm
      rw [this] at hfree; cases hfree
    · -- the next id is (id + 1) % 65536
      unfold Decoders.createSession at hgot
      split at hgot
      · cases hgot
      · simp only at hgot
        split at hgot
        · simp only [Decoders.CreateOut.got.injEq] at hgot
          rw [← hgot.2]; exact Nat.mod_lt _ (by decide)
        · cases hgot

/-- the state after a successful PADR -/
def padrState (s : Srv) (id nx : Nat) (x0 : Sess) : Srv :=
  { s with sessions := AMap.insert s.sessions id x0, nextID := nx, serialCtr := s.serialCtr + 1 }

theorem step_ok {s : Srv} {mn : Mon} (hW : W s) (hR : Rel s mn) (i : In) : StepOK s mn i := by
  have same : ∀ outs, step s i = (s, outs) → (∀ o, sweptNow mn o i = 0) →
      (∀ t ∈ outs.filterMap toSent, t.pads = false) →
      (∀ t ∈ outs.filterMap toSent, t.ipcpAns = true → ∃ x, lookup s.sessions t.sid = some x ∧ x.authed = true) →
      v6 i (obsOf s outs) = [] →
      StepOK s mn i := by
    intro outs hstep hns hnp hans hv6
    exact conclude hstep hW (same_state hW hR hstep hns hnp hans hv6)
  cases i with
  | padi m =>
    exact same [.pado m] rfl (fun _ => rfl) (by simp [toSent]) (by simp [toSent]) (v6_nil_of_noack _ _ (by simp [toSent, plainSent]))
  | ip m sid =>
    exact same [] rfl (fun _ => rfl) (by simp) (by simp) (v6_nil_of_noack _ _ (by simp))
  | padr m cookie =>
    by_cases hck : cookie = true
    · cases hid : newId s with
      | got id nx =>
        obtain ⟨hfresh, hnx⟩ := newId_got hW hid
        obtain ⟨x0, hx0⟩ : ∃ x0 : Sess, x0 = ⟨id, m, SState.lcp, false, none, s.serialCtr, false⟩ := ⟨_, rfl⟩
        have hstep : step s (.padr m cookie) = (padrState s id nx x0, [.pads id m, .lcpreq id m]) := by
          simp only [step, hck, hid, hx0]; rfl
        have e1 : x0.id = id := by rw [hx0]
        have e2 : x0.mac = m := by rw [hx0]
        have e3 : x0.ip = none := by rw [hx0]
        have e4 : x0.serial = s.serialCtr := by rw [hx0]
        have e5 : x0.everAuthed = false := by rw [hx0]
        clear hx0
        have look : ∀ k z, lookup (padrState s id nx x0).sessions k = some z →
            (k = id ∧ z = x0) ∨ (k ≠ id ∧ lookup s.sessions k = some z) := by
          intro k z h
          simp only [padrState, lookup_insert] at h
          split at h
          · rename_i e
            simp only [Option.some.injEq] at h
            exact Or.inl ⟨e, h.symm⟩
          · rename_i e
            exact Or.inr ⟨e, h⟩
        have hW' : W (padrState s id nx x0) := by
          refine ⟨nodupKeys_insert hW.nd id x0, ?_, inv_of_step hW hstep, hW.nda, ?_, hW.pnd, ?_, ?_, ?_, hnx⟩
          · intro k z h
            rcases look k z h with ⟨rfl, rfl⟩ | ⟨_, h'⟩
            · exact e1
            · exact hW.idk k z h'
          · intro k z h
            show z.ip = lookup s.alloc z.serial
            rcases look k z h with ⟨rfl, rfl⟩ | ⟨_, h'⟩
            · rw [e3, e4]
              cases hl : lookup s.alloc s.serialCtr with
              | none => rfl
              | some a => exact absurd (hW.bnd _ a hl) (Nat.lt_irrefl _)
            · exact hW.ipa k z h'
          · intro k z h
            show z.serial < s.serialCtr + 1
            rcases look k z h with ⟨rfl, rfl⟩ | ⟨_, h'⟩
            · rw [e4]; exact Nat.lt_succ_self _
            · exact Nat.lt_succ_of_lt (hW.ser k z h')
          · intro k k' z z' h h' e
            rcases look k z h with ⟨rfl, rfl⟩ | ⟨hne, h1⟩ <;> rcases look k' z' h' with ⟨rfl, rfl⟩ | ⟨hne', h1'⟩
            · rfl
            · rw [e4] at e; exact absurd (hW.ser _ z' h1') (by rw [← e]; exact Nat.lt_irrefl _)
            · rw [e4] at e; exact absurd (hW.ser _ z h1) (by rw [e]; exact Nat.lt_irrefl _)
            · exact hW.inj _ _ z z' h1 h1' e
          · intro k a h
            exact Nat.lt_succ_of_lt (hW.bnd k a h)
        apply conclude hstep hW'
        have ho : owner1 mn (.padr m cookie) (obsOf (padrState s id nx x0) [.pads id m, .lcpreq id m])
            = AMap.insert mn.owner id m := by
          simp [owner1, obsOf, toSent, plainSent]
        have ha : auth1 mn (.padr m cookie) (obsOf (padrState s id nx x0) [.pads id m, .lcpreq id m])
            = mn.authOK.filter (· ≠ id) := by
          simp [auth1, auth0, papAccepted, obsOf, toSent, plainSent]
        apply finish hW'
        · intro k z h
          rw [ho, lookup_insert]
          rcases look k z h with ⟨rfl, rfl⟩ | ⟨hne, h'⟩
          · simp [e2]
          · simp only [hne, if_false]
            rw [hR.own k, h']; rfl
        · intro k z h he
          rw [ha]
          rcases look k z h with ⟨rfl, rfl⟩ | ⟨hne, h'⟩
          · rw [e5] at he; cases he
          · rw [List.mem_filter]
            exact ⟨hR.auth k z h' he, by simpa using hne⟩
        · show s.alloc.length = cnt (AMap.insert s.sessions id x0) + (mn.stranded + 0)
          rw [cnt_insert_of_none hfresh, e3]
          have := hR.count
          simp only [Option.isSome_none, Bool.false_eq_true, if_false]
          omega
        · exact hR.cons
        · exact hR.rad
        · intro t ht ha'
          simp [obsOf, toSent, plainSent] at ht
          rcases ht with rfl | rfl <;> simp at ha'
        · exact v3_nil hR hstep
        · rfl
      | full => exact same [] (by simp only [step, hck, hid]; rfl) (fun _ => rfl) (by simp) (by simp) (v6_nil_of_noack _ _ (by simp))
      | spin => exact same [] (by simp only [step, hck, hid]; rfl) (fun _ => rfl) (by simp) (by simp) (v6_nil_of_noack _ _ (by simp))
    · have hck' : cookie = false := by simpa using hck
      exact same [] (by simp [step, hck']) (fun _ => rfl) (by simp) (by simp) (v6_nil_of_noack _ _ (by simp))
  | sweep keep =>
    have hstep : step s (.sweep keep)
        = ({ s with sessions := s.sessions.filter (fun p => keep.contains p.1) }, []) := rfl
    have look : ∀ k z, lookup (s.sessions.filter (fun p => keep.contains p.1)) k = some z →
        lookup s.sessions k = some z := by
      intro k z h
      rw [lookup_filter_key (fun k => keep.contains k)] at h
      split at h
      · exact h
      · simp at h
    have hsub : (s.sessions.filter (fun p => keep.contains p.1)).Sublist s.sessions := List.filter_sublist
    have hW' : W { s with sessions := s.sessions.filter (fun p => keep.contains p.1) } := by
      refine ⟨?_, ?_, inv_of_step hW hstep, hW.nda, ?_, hW.pnd, ?_, ?_, hW.bnd, hW.nx⟩
      · exact List.Nodup.sublist (hsub.map _) hW.nd
      · intro k z h; exact hW.idk k z (look k z h)
      · intro k z h; exact hW.ipa k z (look k z h)
      · intro k z h; exact hW.ser k z (look k z h)
      · intro k k' z z' h h'; exact hW.inj k k' z z' (look k z h) (look k' z' h')
    apply conclude hstep hW'
    have hnp' : ∀ t ∈ (obsOf { s with sessions := s.sessions.filter (fun p => keep.contains p.1) } []).sent,
        t.pads = false := by intro t ht; simp [obsOf] at ht
    apply finish hW'
    · intro k z h
      rw [owner1_nopads mn _ _ hnp', hR.own k, look k z h]; rfl
    · intro k z h he
      apply auth0_sub_auth1
      rw [auth0_nopads mn _ hnp']
      exact hR.auth k z (look k z h) he
    · show s.alloc.length = cnt (s.sessions.filter (fun p => keep.contains p.1))
          + (mn.stranded + (holders mn.prev - holders ((sortedSess _).map toSeen)))
      rw [hR.prev, holders_seen, holders_seen]
      have := hR.count
      have hle : cnt (s.sessions.filter (fun p => keep.contains p.1)) ≤ cnt s.sessions := hsub.countP_le
      show s.alloc.length = cnt (s.sessions.filter (fun p => keep.contains p.1))
          + (mn.stranded + (cnt s.sessions - cnt (s.sessions.filter (fun p => keep.contains p.1))))
      omega
    · exact hR.cons
    · exact hR.rad
    · intro t ht; simp [obsOf] at ht
    · exact v3_nil hR hstep
    · rfl
  | padt m sid =>
    cases hg : ownerGate s m sid with
    | none => exact same [] (by simp only [step, hg]) (fun _ => rfl) (by simp) (by simp) (v6_nil_of_noack _ _ (by simp))
    | some x =>
      obtain ⟨hx, _⟩ := Spec.C04.ownerGate_some hg
      obtain ⟨f1, f2, f3, f4, f5, f6, f7, f8, f9⟩ := release_facts s hW.nda x.serial
      exact remove_core hW hR hx (outs := []) (by simp only [step, hg]) f1 f2 f3 f4 f5 f6 f7 f8 f9 (fun _ => rfl) (by simp)
  | lcp m sid k =>
    cases hg : ownerGate s m sid with
    | none => exact same [] (by simp only [step, hg]) (fun _ => rfl) (by simp) (by simp) (v6_nil_of_noack _ _ (by simp))
    | some x =>
      obtain ⟨hx, _⟩ := Spec.C04.ownerGate_some hg
      cases k with
      | creq => exact same [.lcpack sid x.mac] (by simp only [step, hg]) (fun _ => rfl) (by simp [toSent, plainSent]) (by simp [toSent, plainSent]) (v6_nil_of_noack _ _ (by simp [toSent, plainSent]))
      | cnak => exact same [.lcpreq sid x.mac] (by simp only [step, hg]) (fun _ => rfl) (by simp [toSent, plainSent]) (by simp [toSent, plainSent]) (v6_nil_of_noack _ _ (by simp [toSent, plainSent]))
      | echo => exact same [.lcperep sid x.mac] (by simp only [step, hg]) (fun _ => rfl) (by simp [toSent, plainSent]) (by simp [toSent, plainSent]) (v6_nil_of_noack _ _ (by simp [toSent, plainSent]))
      | term =>
        obtain ⟨f1, f2, f3, f4, f5, f6, f7, f8, f9⟩ := release_facts s hW.nda x.serial
        exact remove_core hW hR hx (outs := [.lcptack sid x.mac]) (by simp only [step, hg]) f1 f2 f3 f4 f5 f6 f7 f8 f9 (fun _ => rfl)
          (by simp [toSent, plainSent])
      | cack =>
        have hnp : ∀ t ∈ ([] : List Out).filterMap toSent, t.pads = false ∧ t.ipcpAns = false := by simp
        refine update_core hW hR hx (s1 := s) (y := { x with state := .auth }) (outs := [])
          (by simp only [step, hg]) rfl rfl rfl rfl hW.nda (fun _ _ => rfl) rfl rfl (List.Perm.refl _) rfl rfl rfl
          (hW.ipa sid x hx) ?_ (fun _ => rfl) hnp
        intro he
        apply auth0_sub_auth1
        rw [auth0_nopads mn _ (fun t ht => (hnp t ht).1)]
        exact hR.auth sid x hx he
  | ipcp m sid k =>
    cases hg : ownerGate s m sid with
    | none => exact same [] (by simp only [step, hg]) (fun _ => rfl) (by simp) (by simp) (v6_nil_of_noack _ _ (by simp))
    | some x =>
      obtain ⟨hx, _⟩ := Spec.C04.ownerGate_some hg
      by_cases hau : x.authed = true
      · cases k with
        | creqIp =>
          refine same [if x.ip.isSome then .ipcpnak x.ip sid x.mac else .ipcprej sid x.mac]
            (by simp only [step, hg, hau]; rfl) (fun _ => rfl) ?_ ?_ ?_
          · cases hip : x.ip <;> simp [toSent, plainSent]
          · cases hip : x.ip <;> simp [toSent, plainSent] <;> exact ⟨x, hx, hau⟩
          · apply v6_nil_of_noack
            cases hip : x.ip <;> simp [toSent, plainSent]
        | creqDns =>
          exact same [.ipcpnak none sid x.mac] (by simp only [step, hg, hau]; rfl) (fun _ => rfl)
            (by simp [toSent, plainSent]) (by simp [toSent, plainSent]) rfl
        | creqNone =>
          refine same [.ipcpack sid x.mac] (by simp only [step, hg, hau]; rfl) (fun _ => rfl) (by simp [toSent, plainSent]) ?_ ?_
          · simp [toSent, plainSent]; exact ⟨x, hx, hau⟩
          · -- an Ack of a request WITHOUT an IP-Address option: the clause is about `creqIp` only
            rfl
        | cack =>
          have hnp : ∀ t ∈ ([] : List Out).filterMap toSent, t.pads = false ∧ t.ipcpAns = false := by simp
          refine update_core hW hR hx (s1 := s) (y := { x with state := .est }) (outs := [])
            (by simp only [step, hg, hau]; rfl) rfl rfl rfl rfl hW.nda (fun _ _ => rfl) rfl rfl (List.Perm.refl _) rfl rfl rfl
            (hW.ipa sid x hx) ?_ (fun _ => rfl) hnp
          intro he
          apply auth0_sub_auth1
          rw [auth0_nopads mn _ (fun t ht => (hnp t ht).1)]
          exact hR.auth sid x hx he
      · have hau' : x.authed = false := by simpa using hau
        exact same [] (by simp [step, hg, hau']) (fun _ => rfl) (by simp) (by simp) (v6_nil_of_noack _ _ (by simp))
  | pap m sid pw r =>
    cases hg : ownerGate s m sid with
    | none => exact same [] (by simp only [step, hg]) (fun _ => rfl) (by simp) (by simp) (v6_nil_of_noack _ _ (by simp))
    | some x =>
      obtain ⟨hx, hm⟩ := Spec.C04.ownerGate_some hg
      by_cases hok : papOk s pw r = true
      · obtain ⟨f1, f2, f3, f4, f5, f6, f7, f8, f9, f10⟩ := allocate_facts s hW.nda x.serial
        have hstep : step s (.pap m sid pw r) =
            (setSess (poolAllocate s x.serial).1 sid
               { x with authed := true, state := .ipcp, ip := (poolAllocate s x.serial).2, everAuthed := true },
             if (poolAllocate s x.serial).2.isSome then [.papack sid x.mac, .ipcpreq sid x.mac]
             else [.papack sid x.mac]) := by
          simp only [step, hg, hok, if_true]
        have hnp : ∀ t ∈ (if (poolAllocate s x.serial).2.isSome then [Out.papack sid x.mac, .ipcpreq sid x.mac]
             else [.papack sid x.mac]).filterMap toSent, t.pads = false ∧ t.ipcpAns = false := by
          split <;> simp [toSent, plainSent]
        refine update_core hW hR hx hstep f1 f2 f3 f4 f5 f7 f8 ?_ f10 rfl rfl rfl f6 ?_ (fun _ => rfl) hnp
        · rw [hW.ipa sid x hx]; exact f9
        · intro _
          -- the monitor, from its own records, also accepts this PAP exchange
          have hnp' : ∀ t ∈ (obsOf (setSess (poolAllocate s x.serial).1 sid
               { x with authed := true, state := .ipcp, ip := (poolAllocate s x.serial).2, everAuthed := true })
               (if (poolAllocate s x.serial).2.isSome then [.papack sid x.mac, .ipcpreq sid x.mac]
                else [.papack sid x.mac])).sent, t.pads = false := fun t ht => (hnp t ht).1
          have hacc : papAccepted mn mn.owner (.pap m sid pw r) = some sid := by
            simp only [papAccepted]
            have c1 : lookup mn.owner sid = some m := by rw [hR.own sid, hx]; simp [hm]
            have c2 : (mn.prev.any (fun y => y.sid == sid)) = true := by rw [hR.prev]; exact prev_any hW hx
            have c3 : (!mn.radius || (decide (r = Radius.accept) && decide (pw ≠ Pw.empty))) = true := by
              rw [hR.rad]
              unfold papOk at hok
              cases hrr : s.radius with
              | false => simp
              | true =>
                rw [hrr] at hok
                simp only [if_true, Bool.and_eq_true, decide_eq_true_eq] at hok
                simp [hok.1, hok.2]
            rw [if_pos ⟨c1, c2, c3⟩]
          generalize obsOf _ _ = o at hnp' ⊢
          have hau1 : auth1 mn (.pap m sid pw r) o
              = if (auth0 mn o).contains sid then auth0 mn o else sid :: auth0 mn o := by
            unfold auth1
            simp only
            rw [owner1_nopads mn _ _ hnp', hacc]
          rw [hau1]
          by_cases hc : (auth0 mn o).contains sid = true
          · rw [if_pos hc]; rw [List.contains_iff_mem] at hc; exact hc
          · rw [if_neg hc]; exact List.mem_cons_self
      · have hok' : papOk s pw r = false := by simpa using hok
        obtain ⟨f1, f2, f3, f4, f5, f6, f7, f8, f9⟩ := release_facts s hW.nda x.serial
        exact remove_core hW hR hx (outs := [.papnak sid x.mac]) (by simp [step, hg, hok']) f1 f2 f3 f4 f5 f6 f7 f8 f9 (fun _ => rfl)
          (by simp [toSent, plainSent])


/-! ### every history -/

theorem W_init (r : Bool) (b : Nat) : W (init r b) := by
  refine ⟨nodupKeys_nil, ?_, Spec.C04.inv_init r b, nodupKeys_nil, ?_, ?_, ?_, ?_, ?_, by simp [init]⟩
  · intro k z h; simp [init, lookup] at h
  · intro k z h; simp [init, lookup] at h
  · show (poolAddrs b ++ vals []).Nodup
    simp only [vals, List.map_nil, List.append_nil, poolAddrs]
    exact List.nodup_range.sublist List.filter_sublist
  · intro k z h; simp [init, lookup] at h
  · intro k k' z z' h; simp [init, lookup] at h
  · intro k a h; simp [init, lookup] at h

theorem Rel_init (r : Bool) (b : Nat) : Rel (init r b) (initMon r b) := by
  refine ⟨rfl, rfl, ?_, ?_, rfl, ?_⟩
  · intro sid; simp [init, initMon, lookup]
  · intro k z h; simp [init, lookup] at h
  · simp [init, initMon]

/-- the monitor's records after a history -/
def monAfter : Srv → Mon → List In → Mon
  | _, mn, [] => mn
  | s, mn, i :: rest =>
    monAfter (step s i).1 (monitorCore mn i (obsOf (step s i).1 (step s i).2)).1 rest

theorem run_ok {s : Srv} {mn : Mon} (hW : W s) (hR : Rel s mn) (ins : List In) :
    W (run s ins) ∧ Rel (run s ins) (monAfter s mn ins) ∧ Quiet (runBoth s mn ins) := by
  induction ins generalizing s mn with
  | nil => exact ⟨hW, hR, by intro v hv; simp [runBoth] at hv⟩
  | cons i rest ih =>
    obtain ⟨hW', hR', hQ⟩ := step_ok hW hR i
    obtain ⟨h1, h2, h3⟩ := ih hW' hR'
    refine ⟨by simpa [run] using h1, by simpa [run, monAfter] using h2, ?_⟩
    intro v hv
    simp only [runBoth, List.mem_append] at hv
    rcases hv with hv | hv
    · exact hQ v hv
    · exact h3 v hv

theorem stranded_without_sweep (s : Srv) (mn : Mon) (ins : List In) (h : ∀ keep, In.sweep keep ∉ ins) :
    (monAfter s mn ins).stranded = mn.stranded := by
  induction ins generalizing s mn with
  | nil => rfl
  | cons i rest ih =>
    have h1 : ∀ keep, i ≠ In.sweep keep := fun k e => h k (by rw [e]; exact List.mem_cons_self)
    have h2 : ∀ keep, In.sweep keep ∉ rest := fun k hm => h k (List.mem_cons_of_mem _ hm)
    simp only [monAfter]
    rw [ih _ _ h2]
    show mn.stranded + sweptNow mn _ i = mn.stranded
    cases i <;> first | rfl | exact absurd rfl (h1 _)

end Bng.Proof.PppoeMonitor
