import Bng.Proof.Qinq
import Bng.Model.QinqMonitor
/-
  The key monitor is silent on every history of the QinQ mapper model (refinement: the monitor's abstract
  `subscriber ↦ key` map is the model's `s2v` with pairs flattened to numbers).
-/
namespace Bng.Qinq
open Bng AMap KeySpec

/-- both tags fit in 16 bits (they are uint16 in the code) -/
def Pair16 (p : Pair) : Prop := p.1 < 65536 ∧ p.2 < 65536

/-- the configured ranges are ranges of 16-bit tags -/
def Cfg16 (c : Cfg) : Prop := (∀ r ∈ c.sRanges, r.2 < 65536) ∧ c.cE < 65536

def WFOp : Op → Prop
  | .register p _ => Pair16 p
  | .unregister p => Pair16 p
  | .getSubscriber p => Pair16 p
  | _ => True

theorem keyOf_inj {p q : Pair} (hp : Pair16 p) (hq : Pair16 q) (h : keyOf p = keyOf q) : p = q := by
  obtain ⟨a, b⟩ := p; obtain ⟨c, d⟩ := q
  simp only [keyOf, Pair16] at *
  have h1 : a = c := by omega
  have h2 : b = d := by omega
  rw [h1, h2]

theorem pair16_of_valid {c : Cfg} (hc : Cfg16 c) {p : Pair} (hv : valid c p = true) : Pair16 p := by
  obtain ⟨a, b⟩ := p
  simp only [valid, Bool.and_eq_true, Bool.or_eq_true, beq_iff_eq, List.any_eq_true, decide_eq_true_eq] at hv
  refine ⟨?_, ?_⟩
  · rcases hv.1 with h | ⟨r, hr, _, h2⟩
    · show a < 65536; omega
    · have := hc.1 r hr; show a < 65536; omega
  · rcases hv.2 with h | ⟨_, h2⟩
    · show b < 65536; omega
    · have := hc.2; show b < 65536; omega

/-- the monitor's view of the reverse map -/
def mapV (m : AMap Nat Pair) : AMap Nat Nat := m.map fun e => (e.1, keyOf e.2)

theorem lookup_mapV (m : AMap Nat Pair) (k : Nat) : AMap.lookup (mapV m) k = (AMap.lookup m k).map keyOf := by
  induction m with
  | nil => rfl
  | cons e rest ih =>
    obtain ⟨a, b⟩ := e
    show AMap.lookup ((a, keyOf b) :: mapV rest) k = _
    rw [lookup_cons, lookup_cons]
    by_cases h : a = k
    · rw [if_pos h, if_pos h]; rfl
    · rw [if_neg h, if_neg h]; exact ih

theorem erase_mapV (m : AMap Nat Pair) (k : Nat) : AMap.erase (mapV m) k = mapV (AMap.erase m k) := by
  induction m with
  | nil => rfl
  | cons e rest ih =>
    obtain ⟨a, b⟩ := e
    show AMap.erase ((a, keyOf b) :: mapV rest) k = _
    rw [erase_cons, erase_cons]
    by_cases h : a = k
    · simp [h, ih]
    · simp only [h, if_false]; show _ = (a, keyOf b) :: mapV (AMap.erase rest k); rw [ih]

theorem insert_mapV (m : AMap Nat Pair) (k : Nat) (p : Pair) :
    AMap.insert (mapV m) k (keyOf p) = mapV (AMap.insert m k p) := by
  unfold AMap.insert
  show (k, keyOf p) :: AMap.erase (mapV m) k = (k, keyOf p) :: mapV (AMap.erase m k)
  rw [erase_mapV]

/-- whoever the monitor finds as holder of a key holds that pair in the map -/
theorem holder_some {m : AMap Nat Pair} (hn : NodupKeys m) (h16 : ∀ e ∈ m, Pair16 e.2) {p : Pair} (hp : Pair16 p)
    {k : Nat} (h : holderOf (mapV m) (keyOf p) = some k) : AMap.lookup m k = some p := by
  unfold holderOf at h
  split at h
  · rename_i e he
    injection h with h
    have hmem := List.mem_of_find?_eq_some he
    have hpred := List.find?_some he
    simp only [mapV, List.mem_map] at hmem
    obtain ⟨e', he', rfl⟩ := hmem
    simp only [beq_iff_eq] at hpred
    have : e'.2 = p := keyOf_inj (h16 e' he') hp hpred
    obtain ⟨a, b⟩ := e'
    simp only at this h
    subst this; subst h
    exact lookup_of_mem hn he'
  · cases h

/-- if the monitor finds no holder, nobody holds that pair -/
theorem holder_none {m : AMap Nat Pair} {p : Pair} (h : holderOf (mapV m) (keyOf p) = none) (k : Nat) :
    AMap.lookup m k ≠ some p := by
  intro hl
  unfold holderOf at h
  split at h
  · cases h
  · rename_i hnone
    have hmem := mem_of_lookup hl
    have := List.find?_eq_none.mp hnone (k, keyOf p) (by
      simp only [mapV, List.mem_map]; exact ⟨(k, p), hmem, rfl⟩)
    simp at this

/-- what ties model and monitor together -/
structure J (st : State) (mon : Mon) : Prop where
  held : mon.held = mapV st.s2v
  inv : Inv st
  nd : NodupKeys st.s2v
  c16 : Cfg16 st.cfg

theorem J.p16 {st : State} {mon : Mon} (j : J st mon) : ∀ e ∈ st.s2v, Pair16 e.2 := by
  intro e he
  obtain ⟨a, b⟩ := e
  have h1 := lookup_of_mem j.nd he
  exact pair16_of_valid j.c16 (j.inv.ok a b (j.inv.fwd a b h1))

/-- the monitor's holder of a pair is the model's forward lookup -/
theorem J.holder {st : State} {mon : Mon} (j : J st mon) {p : Pair} (hp : Pair16 p) :
    holderOf (mapV st.s2v) (keyOf p) = AMap.lookup st.v2s p := by
  cases h : holderOf (mapV st.s2v) (keyOf p) with
  | some k => exact (j.inv.fwd k p (holder_some j.nd j.p16 hp h)).symm
  | none =>
    cases h2 : AMap.lookup st.v2s p with
    | none => rfl
    | some k => exact absurd (j.inv.bwd k p h2) (holder_none h k)

theorem nodup_erase_s2v {m : AMap Nat Pair} (hn : NodupKeys m) (k : Nat) : NodupKeys (AMap.erase m k) :=
  nodupKeys_erase hn k

theorem step_register_range {st : State} {p : Pair} {k : Nat} (hv : valid st.cfg p = false) :
    step st (.register p k) = (st, .range) := by simp [step, register, hv]

theorem step_register_conflict {st : State} {p : Pair} {k k' : Nat} (hv : valid st.cfg p = true)
    (hl : AMap.lookup st.v2s p = some k') (hk : k' ≠ k) : step st (.register p k) = (st, .conflict) := by
  simp [step, register, hv, hl, hk]

theorem step_register_ok {st : State} {p : Pair} {k : Nat} (hv : valid st.cfg p = true)
    (hl : AMap.lookup st.v2s p = none ∨ AMap.lookup st.v2s p = some k) :
    step st (.register p k) = (bind st p k, .ok) := by
  rcases hl with hl | hl <;> simp [step, register, hv, hl]

theorem check_gave (mon : Mon) (sub key : Nat) (r i : Bool) :
    check mon (.gave sub key r i) =
      ({ held := AMap.insert mon.held sub key, sinceRelease := false }, checkGave mon sub key r i "dup-key") := rfl

theorem checkGave_silent {mon : Mon} {sub key : Nat}
    (h : holderOf (AMap.erase mon.held sub) key = none) : checkGave mon sub key true false "dup-key" = [] := by
  unfold checkGave
  rw [h]
  cases AMap.lookup mon.held sub <;> simp

/-- one step: no verdict, and the tie is kept -/
theorem step_silent {st : State} {mon : Mon} (j : J st mon) (op : Op) (hw : WFOp op) :
    (check mon (eventOf st.cfg op (step st op).2)).2 = [] ∧
    J (step st op).1 (check mon (eventOf st.cfg op (step st op).2)).1 := by
  have hinv' : Inv (step st op).1 := inv_step j.inv op
  cases op with
  | register p k =>
    have hp : Pair16 p := hw
    cases hv : valid st.cfg p with
    | false =>
      rw [step_register_range hv]
      exact ⟨rfl, j⟩
    | true =>
      -- nobody other than k holds p, when the forward map says so
      have noOther : AMap.lookup st.v2s p = none ∨ AMap.lookup st.v2s p = some k →
          holderOf (AMap.erase mon.held k) (keyOf p) = none := by
        intro hl
        cases hh : holderOf (AMap.erase mon.held k) (keyOf p) with
        | none => rfl
        | some k' =>
          exfalso
          rw [j.held, erase_mapV] at hh
          have h16 : ∀ e ∈ AMap.erase st.s2v k, Pair16 e.2 := fun e he => j.p16 e ((erase_sublist _ _).subset he)
          have h1 := holder_some (nodupKeys_erase j.nd k) h16 hp hh
          rw [lookup_erase] at h1
          by_cases hk : k' = k
          · simp [hk] at h1
          · simp only [hk, if_false] at h1
            have := j.inv.fwd k' p h1
            rcases hl with hl | hl <;> rw [hl] at this
            · cases this
            · injection this with e; exact hk e.symm
      have okCase : AMap.lookup st.v2s p = none ∨ AMap.lookup st.v2s p = some k →
          (check mon (eventOf st.cfg (.register p k) (step st (.register p k)).2)).2 = [] ∧
          J (step st (.register p k)).1 (check mon (eventOf st.cfg (.register p k) (step st (.register p k)).2)).1 := by
        intro hl
        have hs := step_register_ok (k := k) hv hl
        rw [hs] at hinv' ⊢
        show (check mon (.gave k (keyOf p) (valid st.cfg p) false)).2 = [] ∧
          J (bind st p k) (check mon (.gave k (keyOf p) (valid st.cfg p) false)).1
        rw [check_gave, hv]
        refine ⟨checkGave_silent (noOther hl), ?_, hinv', nodupKeys_insert j.nd k p, j.c16⟩
        show AMap.insert mon.held k (keyOf p) = mapV (AMap.insert st.s2v k p)
        rw [j.held]; exact insert_mapV _ _ _
      cases hl : AMap.lookup st.v2s p with
      | none => exact okCase (Or.inl hl)
      | some k' =>
        by_cases hk : k' = k
        · subst hk; exact okCase (Or.inr hl)
        · rw [step_register_conflict hv hl hk]
          refine ⟨?_, j⟩
          show (match holderOf (AMap.erase mon.held k) (keyOf p) with
            | some _ => ([] : List Verdict)
            | none => _) = []
          have h1 : AMap.lookup st.s2v k' = some p := j.inv.bwd k' p hl
          cases hh : holderOf (AMap.erase mon.held k) (keyOf p) with
          | some _ => rfl
          | none =>
            exfalso
            rw [j.held, erase_mapV] at hh
            have := holder_none hh k'
            rw [lookup_erase] at this
            simp only [hk, if_false] at this
            exact this h1
  | unregister p =>
    have hp : Pair16 p := hw
    have hh : holderOf mon.held (keyOf p) = AMap.lookup st.v2s p := by rw [j.held, j.holder hp]
    cases hl : AMap.lookup st.v2s p with
    | none =>
      have hs : step st (.unregister p) = (st, .ok) := by simp [step, unregister, hl]
      rw [hs]
      refine ⟨rfl, ?_⟩
      show J st (match holderOf mon.held (keyOf p) with
        | some s => { held := AMap.erase mon.held s, sinceRelease := true }
        | none => { mon with sinceRelease := true })
      rw [hh, hl]
      exact ⟨j.held, j.inv, j.nd, j.c16⟩
    | some k =>
      have hs : step st (.unregister p) =
          ({ st with v2s := AMap.erase st.v2s p, s2v := AMap.erase st.s2v k }, .ok) := by
        simp [step, unregister, hl]
      rw [hs] at hinv' ⊢
      refine ⟨rfl, ?_⟩
      show J _ (match holderOf mon.held (keyOf p) with
        | some s => { held := AMap.erase mon.held s, sinceRelease := true }
        | none => { mon with sinceRelease := true })
      rw [hh, hl]
      refine ⟨?_, hinv', nodupKeys_erase j.nd k, j.c16⟩
      show AMap.erase mon.held k = mapV (AMap.erase st.s2v k)
      rw [j.held, erase_mapV]
  | unregisterSub k =>
    cases hl : AMap.lookup st.s2v k with
    | none =>
      have hs : step st (.unregisterSub k) = (st, .ok) := by simp [step, unregisterSub, hl]
      rw [hs]
      refine ⟨rfl, ?_, j.inv, j.nd, j.c16⟩
      show AMap.erase mon.held k = mapV st.s2v
      rw [j.held, erase_mapV, erase_eq_self_of_not_mem (lookup_eq_none_iff.mp hl)]
    | some p =>
      have hs : step st (.unregisterSub k) =
          ({ st with v2s := AMap.erase st.v2s p, s2v := AMap.erase st.s2v k }, .ok) := by
        simp [step, unregisterSub, hl]
      rw [hs] at hinv' ⊢
      refine ⟨rfl, ?_, hinv', nodupKeys_erase j.nd k, j.c16⟩
      show AMap.erase mon.held k = mapV (AMap.erase st.s2v k)
      rw [j.held, erase_mapV]
  | getSubscriber p =>
    have hp : Pair16 p := hw
    have hh : holderOf mon.held (keyOf p) = AMap.lookup st.v2s p := by rw [j.held, j.holder hp]
    cases hl : AMap.lookup st.v2s p with
    | none =>
      have hs : step st (.getSubscriber p) = (st, .none) := by simp [step, getSubscriber, hl]
      rw [hs]
      refine ⟨?_, j⟩
      show (if holderOf mon.held (keyOf p) = none then ([] : List Verdict) else _) = []
      rw [hh, hl]; exact if_pos rfl
    | some k =>
      have hs : step st (.getSubscriber p) = (st, .sub k) := by simp [step, getSubscriber, hl]
      rw [hs]
      refine ⟨?_, j⟩
      show (if holderOf mon.held (keyOf p) = some k then ([] : List Verdict) else _) = []
      rw [hh, hl]; exact if_pos rfl
  | getVLAN k =>
    have hh : AMap.lookup mon.held k = (AMap.lookup st.s2v k).map keyOf := by rw [j.held, lookup_mapV]
    cases hl : AMap.lookup st.s2v k with
    | none =>
      have hs : step st (.getVLAN k) = (st, .none) := by simp [step, getVLAN, hl]
      rw [hs]
      refine ⟨?_, j⟩
      show (if AMap.lookup mon.held k = none then ([] : List Verdict) else _) = []
      rw [hh, hl]; exact if_pos rfl
    | some p =>
      have hs : step st (.getVLAN k) = (st, .pair p.1 p.2) := by simp [step, getVLAN, hl]
      rw [hs]
      refine ⟨?_, j⟩
      show (if AMap.lookup mon.held k = some (keyOf (p.1, p.2)) then ([] : List Verdict) else _) = []
      rw [hh, hl]; exact if_pos rfl
  | stats =>
    exact ⟨rfl, j⟩

theorem monRun_silent {st : State} {mon : Mon} (j : J st mon) (ops : List Op) (hw : ∀ op ∈ ops, WFOp op) :
    monRun st mon ops = [] := by
  induction ops generalizing st mon with
  | nil => rfl
  | cons op rest ih =>
    have h := step_silent j op (hw op (List.mem_cons_self))
    show (check mon (eventOf st.cfg op (step st op).2)).2 ++ monRun (step st op).1 _ rest = []
    rw [h.1, List.nil_append]
    exact ih h.2 (fun o ho => hw o (List.mem_cons_of_mem _ ho))

theorem J_init (c : Cfg) (hc : Cfg16 c) : J (init c) {} :=
  ⟨rfl, inv_init c, nodupKeys_nil, hc⟩

end Bng.Qinq
