import Bng.Proof.Ncp
import Bng.Gen.FsmIpv6cp
/-
  The finite facts about the REGENERATED transition table Bng/Gen/FsmIpv6cp.lean that the C11 theorems rest on, each
  closed by kernel evaluation.  Re-checked whenever the Go source (hence the table) changes; if one of them becomes
  false the build of Bng.Spec.C11 fails and ./check C11 goes red naming it.
-/
namespace Bng.Proof.NcpTables
open Bng.Ncp Bng.Gen

/-- every handler of the generated table preserves "Ack-Rcvd ⇒ our request acked, Ack-Sent ⇒ peer's request acked,
    Opened ⇒ both" -/
theorem ipv6cp_inv : GoodInv FsmIpv6cp.tables = true := by decide +kernel
/-- the listed events leave Opened -/
theorem ipv6cp_leave : GoodLeave FsmIpv6cp.tables = true := by decide +kernel
/-- ReceivePacket dispatches codes 1..6 to the six receive handlers -/
theorem ipv6cp_dispatch : GoodDispatch FsmIpv6cp.tables = true := by decide +kernel
/-- timeout() re-arms the timer only together with a decrement of the restart counter, never when it is ≤ 0 -/
theorem ipv6cp_to : GoodTO FsmIpv6cp.tables = true := by decide +kernel

/-- timeout() has no statement before its switch, and whenever it ends in Closing, Stopping, Req-Sent, Ack-Rcvd or
    Ack-Sent it has re-armed the restart timer -/
theorem ipv6cp_wait : GoodWait FsmIpv6cp.tables = true := by decide +kernel

end Bng.Proof.NcpTables
