import Bng.Model.Dhcp6
/-
  Invariant of the DHCPv6 server model and its preservation by every operation.

  `FInv ok p` — a free-list pool never holds one value twice (the DUID → value map is injective, the free list has
                no duplicates and is disjoint from the allocated values) and every value satisfies `ok`.
  `Bind6 s`   — both pools satisfy `FInv`, and whatever address / prefix a lease records is the value the pool
                holds for the same DUID.  Holds after EVERY history (no exclusion clause).
-/
namespace Bng.Dhcp6
open Bng AMap

structure FInv (ok : Nat → Bool) (p : FPool) : Prop where
  inj : ∀ k k' a, lookup p.allocated k = some a → lookup p.allocated k' = some a → k = k'
  nodup : p.avail.Nodup
  disj : ∀ k a, lookup p.allocated k = some a → a ∉ p.avail
  availOk : ∀ a, a ∈ p.avail → ok a = true
  allocOk : ∀ k a, lookup p.allocated k = some a → ok a = true

theorem allocate_self {p : FPool} {d a : Nat} (h : lookup p.allocated d = some a) :
    p.allocate d = (p, some a) := by
  unfold FPool.allocate; simp [h]

theorem allocate_other {p : FPool} {d k : Nat} (hk : k ≠ d) :
    lookup (p.allocate d).1.allocated k = lookup p.allocated k := by
  unfold FPool.allocate
  split
  · rfl
  · split
    · rfl
    · simp [lookup_insert, hk]

theorem allocate_some {p : FPool} {d v : Nat} (h : (p.allocate d).2 = some v) :
    lookup (p.allocate d).1.allocated d = some v := by
  unfold FPool.allocate at h ⊢
  cases e : lookup p.allocated d with
  | some v' => simp only [e] at h ⊢; exact h
  | none =>
    simp only [e] at h ⊢
    cases e2 : p.avail with
    | nil => simp [e2] at h
    | cons a rest => simp only [e2] at h ⊢; simp at h; subst h; simp

theorem allocate_none {p : FPool} {d : Nat} (h : (p.allocate d).2 = none) : (p.allocate d).1 = p := by
  unfold FPool.allocate at h ⊢
  cases e : lookup p.allocated d with
  | some v' => simp [e] at h
  | none =>
    simp only [e] at h ⊢
    cases e2 : p.avail with
    | nil => rfl
    | cons a rest => simp [e2] at h

theorem finv_allocate {ok : Nat → Bool} {p : FPool} (hI : FInv ok p) (d : Nat) : FInv ok (p.allocate d).1 := by
  unfold FPool.allocate
  split
  · exact hI
  · rename_i hnone
    split
    · exact hI
    · rename_i v rest hav
      have hmem : v ∈ p.avail := by rw [hav]; simp
      have hnd : v ∉ rest ∧ rest.Nodup := by
        have := hI.nodup; rw [hav] at this; exact List.nodup_cons.mp this
      have hsub : ∀ a, a ∈ rest → a ∈ p.avail := by intro a ha; rw [hav]; exact List.mem_cons_of_mem _ ha
      refine ⟨?_, hnd.2, ?_, ?_, ?_⟩
      · intro k k' a h1 h2
        simp only [lookup_insert] at h1 h2
        by_cases e1 : k = d <;> by_cases e2 : k' = d
        · rw [e1, e2]
        · simp only [e1, if_true, Option.some.injEq] at h1
          simp only [e2, if_false] at h2
          subst h1; exact absurd hmem (hI.disj _ _ h2)
        · simp only [e2, if_true, Option.some.injEq] at h2
          simp only [e1, if_false] at h1
          subst h2; exact absurd hmem (hI.disj _ _ h1)
        · simp only [e1, e2, if_false] at h1 h2
          exact hI.inj _ _ _ h1 h2
      · intro k a h
        simp only [lookup_insert] at h
        by_cases e : k = d
        · simp only [e, if_true, Option.some.injEq] at h; subst h; exact hnd.1
        · simp only [e, if_false] at h
          intro hm; exact hI.disj _ _ h (hsub _ hm)
      · intro a ha; exact hI.availOk a (hsub a ha)
      · intro k a h
        simp only [lookup_insert] at h
        by_cases e : k = d
        · simp only [e, if_true, Option.some.injEq] at h; subst h; exact hI.availOk _ hmem
        · simp only [e, if_false] at h; exact hI.allocOk _ _ h

theorem finv_release {ok : Nat → Bool} {p : FPool} (hI : FInv ok p) (d : Nat) : FInv ok (p.release d) := by
  unfold FPool.release
  split
  · rename_i v hv
    refine ⟨?_, ?_, ?_, ?_, ?_⟩
    · intro k1 k2 a h1 h2
      simp only [lookup_erase] at h1 h2
      by_cases e1 : k1 = d
      · simp [e1] at h1
      · by_cases e2 : k2 = d
        · simp [e2] at h2
        · simp only [e1, e2, if_false] at h1 h2
          exact hI.inj _ _ _ h1 h2
    · simp only
      rw [List.nodup_append]
      refine ⟨hI.nodup, by simp, ?_⟩
      intro a ha b hb
      simp only [List.mem_singleton] at hb
      subst hb
      intro e; subst e
      exact hI.disj _ _ hv ha
    · intro k1 a h1
      simp only [lookup_erase] at h1
      by_cases e1 : k1 = d
      · simp [e1] at h1
      · simp only [e1, if_false] at h1
        simp only [List.mem_append, List.mem_singleton, not_or]
        refine ⟨hI.disj _ _ h1, ?_⟩
        intro e; subst e
        exact e1 (hI.inj _ _ _ h1 hv)
    · intro a ha
      simp only [List.mem_append, List.mem_singleton] at ha
      rcases ha with ha | ha
      · exact hI.availOk a ha
      · subst ha; exact hI.allocOk _ _ hv
    · intro k1 a h1
      simp only [lookup_erase] at h1
      by_cases e1 : k1 = d
      · simp [e1] at h1
      · simp only [e1, if_false] at h1
        exact hI.allocOk _ _ h1
  · exact hI

theorem release_other {p : FPool} {d k : Nat} (hk : k ≠ d) :
    lookup (p.release d).allocated k = lookup p.allocated k := by
  unfold FPool.release
  split
  · simp [lookup_erase, hk]
  · rfl

/-- releasing puts the value held for that DUID on the free list -/
theorem release_avail {p : FPool} {d v : Nat} (h : lookup p.allocated d = some v) : v ∈ (p.release d).avail := by
  unfold FPool.release; simp [h]

/-! ### the IA loops -/

/-- facts about a loop that only calls `allocate d` repeatedly -/
structure LoopOk (ok : Nat → Bool) (d : Nat) (p p' : FPool) : Prop where
  inv : FInv ok p'
  other : ∀ k, k ≠ d → lookup p'.allocated k = lookup p.allocated k
  keep : ∀ v, lookup p.allocated d = some v → lookup p'.allocated d = some v

theorem loopOk_refl {ok : Nat → Bool} {d : Nat} {p : FPool} (hI : FInv ok p) : LoopOk ok d p p :=
  ⟨hI, fun _ _ => rfl, fun _ h => h⟩

theorem loopOk_step {ok : Nat → Bool} {d : Nat} {p p' : FPool} (_hI : FInv ok p)
    (h : LoopOk ok d (p.allocate d).1 p') : LoopOk ok d p p' := by
  refine ⟨h.inv, ?_, ?_⟩
  · intro k hk; rw [h.other k hk, allocate_other hk]
  · intro v hv
    apply h.keep
    rw [allocate_self hv]; exact hv

theorem advIAs_ok {ok : Nat → Bool} {p : FPool} (hI : FInv ok p) (d : Nat) (ias : List Nat) :
    LoopOk ok d p (advIAs p d ias).1 ∧
    ∀ i v, (i, some v) ∈ (advIAs p d ias).2 → lookup (advIAs p d ias).1.allocated d = some v := by
  induction ias generalizing p with
  | nil => exact ⟨loopOk_refl hI, by intro i v h; simp [advIAs] at h⟩
  | cons iaid rest ih =>
    have hA := finv_allocate hI d
    have ih' := ih hA
    unfold advIAs
    cases e : p.allocate d with
    | mk p1 r =>
      rw [e] at hA ih'
      simp only at hA ih'
      cases r with
      | none => simp only; exact ⟨loopOk_step hI (by rw [e]; exact ih'.1), ih'.2⟩
      | some v =>
        simp only
        refine ⟨loopOk_step hI (by rw [e]; exact ih'.1), ?_⟩
        intro i w hm
        simp only [List.mem_cons, Prod.mk.injEq, Option.some.injEq] at hm
        rcases hm with ⟨_, hw⟩ | hm
        · subst hw
          apply ih'.1.keep
          have := allocate_some (p := p) (d := d) (v := w) (by rw [e])
          rw [e] at this; exact this
        · exact ih'.2 i w hm

theorem replyNAs_ok {ok : Nat → Bool} {p : FPool} (hI : FInv ok p) (d now valid : Nat) (l : Lease) (ias : List Nat)
    (hl : ∀ a, l.addr = some a → lookup p.allocated d = some a) :
    LoopOk ok d p (replyNAs p d now valid l ias).1 ∧
    (∀ a, (replyNAs p d now valid l ias).2.1.addr = some a →
        lookup (replyNAs p d now valid l ias).1.allocated d = some a) ∧
    (replyNAs p d now valid l ias).2.1.pfx = l.pfx ∧
    ∀ i v, (i, some v) ∈ (replyNAs p d now valid l ias).2.2 →
        lookup (replyNAs p d now valid l ias).1.allocated d = some v := by
  induction ias generalizing p l with
  | nil => exact ⟨loopOk_refl hI, hl, rfl, by intro i v h; simp [replyNAs] at h⟩
  | cons iaid rest ih =>
    have hA := finv_allocate hI d
    unfold replyNAs
    cases e : p.allocate d with
    | mk p1 r =>
      rw [e] at hA
      simp only at hA
      cases r with
      | none =>
        have hp1 : p1 = p := by have := allocate_none (p := p) (d := d) (by rw [e]); rw [e] at this; exact this
        have ih' := ih hA l (by rw [hp1]; exact hl)
        simp only
        refine ⟨loopOk_step hI (by rw [e]; exact ih'.1), ih'.2.1, ih'.2.2.1, ?_⟩
        intro i w hm
        simp only [List.mem_cons, Prod.mk.injEq] at hm
        rcases hm with ⟨_, hw⟩ | hm
        · simp at hw
        · exact ih'.2.2.2 i w hm
      | some v =>
        have hv : lookup p1.allocated d = some v := by
          have := allocate_some (p := p) (d := d) (v := v) (by rw [e]); rw [e] at this; exact this
        have ih' := ih hA { l with addr := some v, iaid := iaid, validEnd := some (now + valid) }
          (by intro a ha; simp only [Option.some.injEq] at ha; subst ha; exact hv)
        simp only
        refine ⟨loopOk_step hI (by rw [e]; exact ih'.1), ih'.2.1, ih'.2.2.1, ?_⟩
        intro i w hm
        simp only [List.mem_cons, Prod.mk.injEq, Option.some.injEq] at hm
        rcases hm with ⟨_, hw⟩ | hm
        · subst hw; exact ih'.1.keep _ hv
        · exact ih'.2.2.2 i w hm

theorem replyPDs_ok {ok : Nat → Bool} {p : FPool} (hI : FInv ok p) (d : Nat) (l : Lease) (ias : List Nat)
    (hl : ∀ a, l.pfx = some a → lookup p.allocated d = some a) :
    LoopOk ok d p (replyPDs p d l ias).1 ∧
    (∀ a, (replyPDs p d l ias).2.1.pfx = some a → lookup (replyPDs p d l ias).1.allocated d = some a) ∧
    (replyPDs p d l ias).2.1.addr = l.addr ∧
    ∀ i v, (i, some v) ∈ (replyPDs p d l ias).2.2 → lookup (replyPDs p d l ias).1.allocated d = some v := by
  induction ias generalizing p l with
  | nil => exact ⟨loopOk_refl hI, hl, rfl, by intro i v h; simp [replyPDs] at h⟩
  | cons iaid rest ih =>
    have hA := finv_allocate hI d
    unfold replyPDs
    cases e : p.allocate d with
    | mk p1 r =>
      rw [e] at hA
      simp only at hA
      cases r with
      | none =>
        have hp1 : p1 = p := by have := allocate_none (p := p) (d := d) (by rw [e]); rw [e] at this; exact this
        have ih' := ih hA l (by rw [hp1]; exact hl)
        simp only
        refine ⟨loopOk_step hI (by rw [e]; exact ih'.1), ih'.2.1, ih'.2.2.1, ?_⟩
        intro i w hm
        simp only [List.mem_cons, Prod.mk.injEq] at hm
        rcases hm with ⟨_, hw⟩ | hm
        · simp at hw
        · exact ih'.2.2.2 i w hm
      | some v =>
        have hv : lookup p1.allocated d = some v := by
          have := allocate_some (p := p) (d := d) (v := v) (by rw [e]); rw [e] at this; exact this
        have ih' := ih hA { l with pfx := some v }
          (by intro a ha; simp only [Option.some.injEq] at ha; subst ha; exact hv)
        simp only
        refine ⟨loopOk_step hI (by rw [e]; exact ih'.1), ih'.2.1, ih'.2.2.1, ?_⟩
        intro i w hm
        simp only [List.mem_cons, Prod.mk.injEq, Option.some.injEq] at hm
        rcases hm with ⟨_, hw⟩ | hm
        · subst hw; exact ih'.1.keep _ hv
        · exact ih'.2.2.2 i w hm

/-- a client that already holds a value is given exactly that value for every IA, and nothing changes in the pool -/
theorem replyNAs_held {p : FPool} {d a : Nat} (h : lookup p.allocated d = some a) (now valid : Nat) (l : Lease)
    (ias : List Nat) :
    (replyNAs p d now valid l ias).1 = p ∧ (replyNAs p d now valid l ias).2.2 = ias.map (fun i => (i, some a)) := by
  induction ias generalizing l with
  | nil => exact ⟨rfl, rfl⟩
  | cons i rest ih =>
    unfold replyNAs
    rw [allocate_self h]
    simp only
    have := ih { l with addr := some a, iaid := i, validEnd := some (now + valid) }
    exact ⟨this.1, by rw [this.2]; rfl⟩

theorem replyPDs_held {p : FPool} {d a : Nat} (h : lookup p.allocated d = some a) (l : Lease) (ias : List Nat) :
    (replyPDs p d l ias).1 = p ∧ (replyPDs p d l ias).2.2 = ias.map (fun i => (i, some a)) := by
  induction ias generalizing l with
  | nil => exact ⟨rfl, rfl⟩
  | cons i rest ih =>
    unfold replyPDs
    rw [allocate_self h]
    simp only
    have := ih { l with pfx := some a }
    exact ⟨this.1, by rw [this.2]; rfl⟩

/-! ### server state -/

structure Bind6 (s : State) : Prop where
  apool : FInv s.cfg.addrOk s.apool
  ppool : FInv s.cfg.prefixOk s.ppool
  heldA : ∀ d l a, lookup s.leases d = some l → l.addr = some a → lookup s.apool.allocated d = some a
  heldP : ∀ d l a, lookup s.leases d = some l → l.pfx = some a → lookup s.ppool.allocated d = some a

theorem initialAddrs_nodup (c : Cfg) : c.initialAddrs.Nodup := by
  unfold Cfg.initialAddrs
  apply List.Pairwise.map _ _ (List.nodup_range (n := c.acount))
  intro a b hab; omega

/-! ### what NewPrefixPool builds -/

/-- the bit-placing loop computes `(i mod 2^indexBits) * step`: index bits at or above `indexBits` are dropped -/
theorem placeIndex_eq (i ib step : Nat) : placeIndex i ib step = (i % 2 ^ ib) * step := by
  unfold placeIndex
  induction ib with
  | zero => simp [Nat.mod_one]
  | succ n ih =>
    rw [List.range_succ, List.foldl_append, ih]
    simp only [List.foldl_cons, List.foldl_nil]
    rw [Nat.mod_pow_succ, Nat.testBit_eq_decide_div_mod_eq]
    rcases Nat.mod_two_eq_zero_or_one (i / 2 ^ n) with h | h
    · simp [h]
    · simp [h, Nat.add_mul]

theorem prefixAt_eq (c : Cfg) (i : Nat) : c.prefixAt i = c.pbase + (i % 2 ^ c.indexBits) * c.pstep := by
  unfold Cfg.prefixAt; rw [placeIndex_eq]

/-- the number of entries never exceeds the number of distinct index values -/
theorem pcount_le (c : Cfg) : c.pcount ≤ 2 ^ c.indexBits := by
  unfold Cfg.pcount
  split
  · exact Nat.le_refl _
  · rename_i h
    have : 2 ^ 10 ≤ 2 ^ c.indexBits := Nat.pow_le_pow_right (by omega) (by omega)
    omega

theorem pstep_pos (c : Cfg) : 0 < c.pstep := Nat.pow_pos (by omega)

/-- below `2^indexBits` the index is recovered from the prefix: `i ↦ prefixAt i` is injective there -/
theorem prefixAt_small (c : Cfg) {i : Nat} (hi : i < 2 ^ c.indexBits) : c.prefixAt i = c.pbase + i * c.pstep := by
  rw [prefixAt_eq, Nat.mod_eq_of_lt hi]

theorem prefixAt_injective (c : Cfg) {i j : Nat} (hi : i < 2 ^ c.indexBits) (hj : j < 2 ^ c.indexBits)
    (h : c.prefixAt i = c.prefixAt j) : i = j := by
  rw [prefixAt_small c hi, prefixAt_small c hj] at h
  have : i * c.pstep = j * c.pstep := by omega
  exact Nat.eq_of_mul_eq_mul_right (pstep_pos c) this

theorem initialPrefixes_nodup (c : Cfg) : c.initialPrefixes.Nodup := by
  unfold Cfg.initialPrefixes
  have hle := pcount_le c
  have : ∀ (l : List Nat), l.Nodup → (∀ x ∈ l, x < c.pcount) → (l.map c.prefixAt).Nodup := by
    intro l hl hlt
    induction l with
    | nil => exact List.nodup_nil
    | cons a rest ih =>
      have hc := List.nodup_cons.mp hl
      simp only [List.map_cons, List.nodup_cons, List.mem_map, not_exists, not_and]
      refine ⟨?_, ih hc.2 (fun x hx => hlt x (List.mem_cons_of_mem _ hx))⟩
      intro x hx he
      have hx' := hlt x (List.mem_cons_of_mem _ hx)
      have ha' := hlt a (by simp)
      have := prefixAt_injective c (by omega) (by omega) he
      subst this
      exact hc.1 hx
  exact this _ List.nodup_range (fun x hx => List.mem_range.mp hx)

theorem bind6_init (c : Cfg) : Bind6 (init c) := by
  refine ⟨⟨?_, ?_, ?_, ?_, ?_⟩, ⟨?_, ?_, ?_, ?_, ?_⟩, ?_, ?_⟩
  · intro k k' a h; simp [init] at h
  · simp only [init]; split
    · exact initialAddrs_nodup c
    · exact List.nodup_nil
  · intro k a h; simp [init] at h
  · intro a h
    simp only [init] at h
    split at h
    · unfold Cfg.initialAddrs at h
      simp only [List.mem_map, List.mem_range] at h
      obtain ⟨i, hi, rfl⟩ := h
      have hc : (init c).cfg = c := rfl
      rw [hc]
      unfold Cfg.addrOk
      simp only [Bool.and_eq_true, decide_eq_true_eq]
      omega
    · simp at h
  · intro k a h; simp [init] at h
  · intro k k' a h; simp [init] at h
  · simp only [init]; split
    · exact initialPrefixes_nodup c
    · exact List.nodup_nil
  · intro k a h; simp [init] at h
  · intro a h
    simp only [init] at h
    split at h
    · unfold Cfg.initialPrefixes at h
      simp only [List.mem_map, List.mem_range] at h
      obtain ⟨i, hi, rfl⟩ := h
      rw [prefixAt_small c (Nat.lt_of_lt_of_le hi (pcount_le c))]
      have hs : 0 < c.pstep := Nat.pow_pos (by omega)
      have hc : (init c).cfg = c := rfl
      rw [hc]
      unfold Cfg.prefixOk
      simp only [Bool.and_eq_true, decide_eq_true_eq, beq_iff_eq]
      have e : c.pbase + i * c.pstep - c.pbase = i * c.pstep := by omega
      rw [e]
      refine ⟨⟨by omega, Nat.mul_mod_left _ _⟩, ?_⟩
      rw [Nat.mul_div_cancel _ hs]; exact hi
    · simp at h
  · intro k a h; simp [init] at h
  · intro d l a h; simp [init] at h
  · intro d l a h; simp [init] at h

/-- the loops keep what other clients hold, and what `d` held -/
theorem loop_lookup {ok : Nat → Bool} {d : Nat} {p p' : FPool} (h : LoopOk ok d p p') (k a : Nat)
    (hk : lookup p.allocated k = some a) : lookup p'.allocated k = some a := by
  by_cases e : k = d
  · subst e; exact h.keep _ hk
  · rw [h.other k e]; exact hk

/-- buildAdvertise preserves the invariant -/
theorem bind6_advertise {s : State} (hI : Bind6 s) (d : Nat) (ianas iapds : List Nat) :
    Bind6 (buildAdvertise s d ianas iapds).1 := by
  have hA : LoopOk s.cfg.addrOk d s.apool
      (if s.cfg.hasAddr then advIAs s.apool d ianas else (s.apool, [])).1 := by
    split
    · exact (advIAs_ok hI.apool d ianas).1
    · exact loopOk_refl hI.apool
  have hP : LoopOk s.cfg.prefixOk d s.ppool
      (if s.cfg.hasPfx then advIAs s.ppool d iapds else (s.ppool, [])).1 := by
    split
    · exact (advIAs_ok hI.ppool d iapds).1
    · exact loopOk_refl hI.ppool
  unfold buildAdvertise
  exact ⟨hA.inv, hP.inv,
    fun k l a h1 h2 => loop_lookup hA k a (hI.heldA _ _ _ h1 h2),
    fun k l a h1 h2 => loop_lookup hP k a (hI.heldP _ _ _ h1 h2)⟩

/-- everything an Advertise carries is held for the client afterwards -/
theorem advertise_held {s : State} (hI : Bind6 s) (d : Nat) (ianas iapds : List Nat) (r : Resp)
    (hr : (buildAdvertise s d ianas iapds).2 = some r) :
    (∀ i v, (i, some v) ∈ r.nas → lookup (buildAdvertise s d ianas iapds).1.apool.allocated d = some v) ∧
    (∀ i v, (i, some v) ∈ r.pds → lookup (buildAdvertise s d ianas iapds).1.ppool.allocated d = some v) := by
  unfold buildAdvertise at hr ⊢
  simp only [Option.some.injEq] at hr
  subst hr
  simp only
  constructor
  · intro i v hm
    split at hm
    · rename_i h; simp only [h, if_true]; exact (advIAs_ok hI.apool d ianas).2 i v hm
    · simp at hm
  · intro i v hm
    split at hm
    · rename_i h; simp only [h, if_true]; exact (advIAs_ok hI.ppool d iapds).2 i v hm
    · simp at hm

theorem naPart_ok {s : State} (hI : Bind6 s) (d : Nat) (l0 : Lease) (ianas : List Nat)
    (hl : ∀ a, l0.addr = some a → lookup s.apool.allocated d = some a) :
    LoopOk s.cfg.addrOk d s.apool (naPart s d l0 ianas).1 ∧
    (∀ a, (naPart s d l0 ianas).2.1.addr = some a → lookup (naPart s d l0 ianas).1.allocated d = some a) ∧
    (naPart s d l0 ianas).2.1.pfx = l0.pfx ∧
    ∀ i v, (i, some v) ∈ (naPart s d l0 ianas).2.2 → lookup (naPart s d l0 ianas).1.allocated d = some v := by
  unfold naPart
  split
  · exact replyNAs_ok hI.apool d s.now s.cfg.valid l0 ianas hl
  · exact ⟨loopOk_refl hI.apool, hl, rfl, by intro i v h; simp at h⟩

theorem pdPart_ok {s : State} (hI : Bind6 s) (d : Nat) (l1 : Lease) (iapds : List Nat)
    (hl : ∀ a, l1.pfx = some a → lookup s.ppool.allocated d = some a) :
    LoopOk s.cfg.prefixOk d s.ppool (pdPart s d l1 iapds).1 ∧
    (∀ a, (pdPart s d l1 iapds).2.1.pfx = some a → lookup (pdPart s d l1 iapds).1.allocated d = some a) ∧
    (pdPart s d l1 iapds).2.1.addr = l1.addr ∧
    ∀ i v, (i, some v) ∈ (pdPart s d l1 iapds).2.2 → lookup (pdPart s d l1 iapds).1.allocated d = some v := by
  unfold pdPart
  split
  · exact replyPDs_ok hI.ppool d l1 iapds hl
  · exact ⟨loopOk_refl hI.ppool, hl, rfl, by intro i v h; simp at h⟩

/-- buildReply preserves the invariant, and everything the Reply carries is held for the client afterwards -/
theorem bind6_reply {s : State} (hI : Bind6 s) (d : Nat) (ianas iapds : List Nat) (rapid : Bool) :
    Bind6 (buildReply s d ianas iapds rapid).1 ∧
    ∀ r, (buildReply s d ianas iapds rapid).2 = some r →
      (∀ i v, (i, some v) ∈ r.nas → lookup (buildReply s d ianas iapds rapid).1.apool.allocated d = some v) ∧
      (∀ i v, (i, some v) ∈ r.pds → lookup (buildReply s d ianas iapds rapid).1.ppool.allocated d = some v) := by
  have h0A : ∀ a, ((lookup s.leases d).getD {}).addr = some a → lookup s.apool.allocated d = some a := by
    intro a h
    cases e : lookup s.leases d with
    | none => simp [e] at h
    | some l => simp only [e, Option.getD_some] at h; exact hI.heldA _ _ _ e h
  have h0P : ∀ a, ((lookup s.leases d).getD {}).pfx = some a → lookup s.ppool.allocated d = some a := by
    intro a h
    cases e : lookup s.leases d with
    | none => simp [e] at h
    | some l => simp only [e, Option.getD_some] at h; exact hI.heldP _ _ _ e h
  unfold buildReply
  simp only []
  generalize (lookup s.leases d).getD {} = l0 at h0A h0P ⊢
  have hA := naPart_ok hI d l0 ianas h0A
  have hP := pdPart_ok hI d (naPart s d l0 ianas).2.1 iapds (by rw [hA.2.2.1]; exact h0P)
  refine ⟨⟨hA.1.inv, hP.1.inv, ?_, ?_⟩, ?_⟩
  · intro k l a h1 h2
    simp only [lookup_insert] at h1
    by_cases e : k = d
    · simp only [e, if_true, Option.some.injEq] at h1
      subst h1
      rw [hP.2.2.1] at h2
      rw [e]; exact hA.2.1 a h2
    · simp only [e, if_false] at h1
      exact loop_lookup hA.1 k a (hI.heldA _ _ _ h1 h2)
  · intro k l a h1 h2
    simp only [lookup_insert] at h1
    by_cases e : k = d
    · simp only [e, if_true, Option.some.injEq] at h1
      subst h1
      rw [e]; exact hP.2.1 a h2
    · simp only [e, if_false] at h1
      exact loop_lookup hP.1 k a (hI.heldP _ _ _ h1 h2)
  · intro r hr
    simp only [Option.some.injEq] at hr
    subst hr
    exact ⟨hA.2.2.2, hP.2.2.2⟩

theorem bind6_release {s : State} (hI : Bind6 s) (d : Nat) : Bind6 (release s d).1 := by
  unfold release
  split
  · exact hI
  · split
    · exact hI
    · rename_i l hl
      have hA : FInv s.cfg.addrOk (if l.addr.isSome then s.apool.release d else s.apool) := by
        split
        · exact finv_release hI.apool d
        · exact hI.apool
      have hP : FInv s.cfg.prefixOk (if l.pfx.isSome then s.ppool.release d else s.ppool) := by
        split
        · exact finv_release hI.ppool d
        · exact hI.ppool
      refine ⟨hA, hP, ?_, ?_⟩
      · intro k l' a h1 h2
        simp only [lookup_erase] at h1
        by_cases e : k = d
        · simp [e] at h1
        · simp only [e, if_false] at h1
          have := hI.heldA _ _ _ h1 h2
          simp only
          split
          · rw [release_other e]; exact this
          · exact this
      · intro k l' a h1 h2
        simp only [lookup_erase] at h1
        by_cases e : k = d
        · simp [e] at h1
        · simp only [e, if_false] at h1
          have := hI.heldP _ _ _ h1 h2
          simp only
          split
          · rw [release_other e]; exact this
          · exact this

/-- rewriting a lease's validEnd (handleRenew) keeps the invariant -/
theorem bind6_touch {s : State} (hI : Bind6 s) (d : Nat) (l l' : Lease) (hl : lookup s.leases d = some l)
    (ha : l'.addr = l.addr) (hp : l'.pfx = l.pfx) : Bind6 { s with leases := insert s.leases d l' } := by
  refine ⟨hI.apool, hI.ppool, ?_, ?_⟩
  · intro k l2 a h1 h2
    simp only [lookup_insert] at h1
    by_cases e : k = d
    · simp only [e, if_true, Option.some.injEq] at h1
      subst h1; rw [ha] at h2; rw [e]; exact hI.heldA _ _ _ hl h2
    · simp only [e, if_false] at h1; exact hI.heldA _ _ _ h1 h2
  · intro k l2 a h1 h2
    simp only [lookup_insert] at h1
    by_cases e : k = d
    · simp only [e, if_true, Option.some.injEq] at h1
      subst h1; rw [hp] at h2; rw [e]; exact hI.heldP _ _ _ hl h2
    · simp only [e, if_false] at h1; exact hI.heldP _ _ _ h1 h2

/-- the lease as handleRenew leaves it before calling buildReply -/
def touched (s : State) (l : Lease) : Lease :=
  if s.cfg.hasAddr then { l with validEnd := some (s.now + s.cfg.valid) } else l

theorem renew_touched {s : State} (hI : Bind6 s) (d : Nat) (l : Lease) (hl : lookup s.leases d = some l) :
    Bind6 { s with leases := insert s.leases d (touched s l) } := by
  apply bind6_touch hI d l _ hl
  · unfold touched; split <;> rfl
  · unfold touched; split <;> rfl

theorem bind6_step {s : State} (hI : Bind6 s) (op : Op) : Bind6 (step s op).1 := by
  cases op with
  | solicit d r a p =>
    simp only [step, solicit]
    split
    · exact hI
    · split
      · exact (bind6_reply hI d a p true).1
      · exact bind6_advertise hI d a p
  | request d sid a p =>
    simp only [step, request]
    split
    · exact hI
    · split
      · exact hI
      · exact (bind6_reply hI d a p false).1
  | renew d a p =>
    simp only [step, renew]
    split
    · exact hI
    · split
      · exact hI
      · rename_i l hl; exact (bind6_reply (renew_touched hI d l hl) d a p false).1
  | rebind d a p =>
    simp only [step, renew]
    split
    · exact hI
    · split
      · exact hI
      · rename_i l hl; exact (bind6_reply (renew_touched hI d l hl) d a p false).1
  | confirm d addrs =>
    simp only [step, confirm]
    split <;> exact hI
  | release d => exact bind6_release hI d
  | decline d => exact bind6_release hI d
  | advance dt => exact ⟨hI.apool, hI.ppool, hI.heldA, hI.heldP⟩

theorem run_cons (s : State) (op : Op) (ops : List Op) : run s (op :: ops) = run (step s op).1 ops := by
  simp [run]

theorem run_append (s : State) (a b : List Op) : run s (a ++ b) = run (run s a) b := by
  simp [run, List.foldl_append]

theorem bind6_run {s : State} (hI : Bind6 s) (ops : List Op) : Bind6 (run s ops) := by
  induction ops generalizing s with
  | nil => exact hI
  | cons op rest ih => rw [run_cons]; exact ih (bind6_step hI op)

/-- the client a message comes from -/
def clientOf : Op → Nat
  | .solicit d _ _ _ => d
  | .request d _ _ _ => d
  | .renew d _ _ => d
  | .rebind d _ _ => d
  | .confirm d _ => d
  | .release d => d
  | .decline d => d
  | .advance _ => 0

/-- every address / prefix a reply carries is, after the step, held in the pool for the client it went to -/
theorem reply_values_held {s : State} (hI : Bind6 s) (op : Op) (r : Resp) (hr : (step s op).2 = some r) :
    (∀ i v, (i, some v) ∈ r.nas → lookup (step s op).1.apool.allocated (clientOf op) = some v) ∧
    (∀ i v, (i, some v) ∈ r.pds → lookup (step s op).1.ppool.allocated (clientOf op) = some v) := by
  have plain : ∀ (st : Option Nat), r = { kind := .reply, status := st } →
      (∀ i v, (i, some v) ∈ r.nas → lookup (step s op).1.apool.allocated (clientOf op) = some v) ∧
      (∀ i v, (i, some v) ∈ r.pds → lookup (step s op).1.ppool.allocated (clientOf op) = some v) := by
    intro st h; subst h; exact ⟨by intro i v h; simp at h, by intro i v h; simp at h⟩
  cases op with
  | solicit d rp a p =>
    simp only [step, solicit, clientOf] at hr ⊢
    split at hr
    · simp at hr
    · split at hr
      · rename_i h1 h2; simp only [h1, h2, if_false, if_true]; exact (bind6_reply hI d a p true).2 r hr
      · rename_i h1 h2; simp only [h1, h2, if_false]; exact advertise_held hI d a p r hr
  | request d sid a p =>
    simp only [step, request, clientOf] at hr ⊢
    split at hr
    · simp at hr
    · split at hr
      · simp at hr
      · rename_i h1 h2; simp only [h1, h2, if_false]; exact (bind6_reply hI d a p false).2 r hr
  | renew d a p =>
    by_cases h0 : d = 0
    · simp [step, renew, h0] at hr
    · cases e : lookup s.leases d with
      | none =>
        simp only [step, renew, h0, if_false, e, Option.some.injEq] at hr
        subst hr
        exact ⟨by intro i v h; simp at h, by intro i v h; simp at h⟩
      | some l =>
        simp only [step, renew, h0, if_false, e, clientOf] at hr ⊢
        exact (bind6_reply (renew_touched hI d l e) d a p false).2 r hr
  | rebind d a p =>
    by_cases h0 : d = 0
    · simp [step, renew, h0] at hr
    · cases e : lookup s.leases d with
      | none =>
        simp only [step, renew, h0, if_false, e, Option.some.injEq] at hr
        subst hr
        exact ⟨by intro i v h; simp at h, by intro i v h; simp at h⟩
      | some l =>
        simp only [step, renew, h0, if_false, e, clientOf] at hr ⊢
        exact (bind6_reply (renew_touched hI d l e) d a p false).2 r hr
  | confirm d addrs =>
    simp only [step, confirm] at hr
    split at hr
    · simp at hr
    · simp only [Option.some.injEq] at hr
      exact ⟨by intro i v h; rw [← hr] at h; simp at h, by intro i v h; rw [← hr] at h; simp at h⟩
  | release d =>
    simp only [step, release] at hr
    split at hr
    · simp at hr
    · simp only [Option.some.injEq] at hr
      exact ⟨by intro i v h; rw [← hr] at h; simp at h, by intro i v h; rw [← hr] at h; simp at h⟩
  | decline d =>
    simp only [step, release] at hr
    split at hr
    · simp at hr
    · simp only [Option.some.injEq] at hr
      exact ⟨by intro i v h; rw [← hr] at h; simp at h, by intro i v h; rw [← hr] at h; simp at h⟩
  | advance dt => simp [step] at hr

/-! ### the configuration never changes -/

theorem release_cfg (s : State) (d : Nat) : (release s d).1.cfg = s.cfg := by
  unfold release
  split
  · rfl
  · split <;> rfl

theorem renew_cfg (s : State) (d : Nat) (a p : List Nat) : (renew s d a p).1.cfg = s.cfg := by
  unfold renew
  split
  · rfl
  · split <;> rfl

theorem step_cfg (s : State) (op : Op) : (step s op).1.cfg = s.cfg := by
  cases op with
  | solicit d r a p =>
    simp only [step, solicit]
    split
    · rfl
    · split <;> rfl
  | request d sid a p =>
    simp only [step, request]
    split
    · rfl
    · split <;> rfl
  | renew d a p => exact renew_cfg s d a p
  | rebind d a p => exact renew_cfg s d a p
  | confirm d addrs =>
    simp only [step, confirm]
    split <;> rfl
  | release d => exact release_cfg s d
  | decline d => exact release_cfg s d
  | advance dt => rfl

theorem run_cfg (s : State) (ops : List Op) : (run s ops).cfg = s.cfg := by
  induction ops generalizing s with
  | nil => rfl
  | cons o rest ih => rw [run_cons, ih, step_cfg]

end Bng.Dhcp6
