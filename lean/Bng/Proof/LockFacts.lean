import Bng.Gen.Locks
/-
  Helper predicates over the REGENERATED lock-discipline table `Bng.Gen.Locks.locks` (harness/cmd/extractlocks).
  All of them are closed, computable Booleans so that the Spec modules `Bng.Spec.CxxLocks` can decide them in the kernel.
  A method that is missing from the table makes every predicate about it `false`.
-/
namespace Bng.LockFacts
open Bng.Gen.Locks

abbrev Held := List (String × String)

def factsOf (fn : String) : Option Facts := locks.find? (·.fn == fn)

/-- the method is in the table and the walk over it was unambiguous -/
def known (fn : String) : Bool :=
  match factsOf fn with
  | some f => !f.ambiguous
  | none => false

/-- how the method acquires mutex `m`, in source order ("W" = Lock, "R" = RLock) -/
def acqOf (fn m : String) : List String :=
  match factsOf fn with
  | some f => (f.acq.filter (·.1 == m)).map (·.2)
  | none => []

/-- the unlock of `m` is deferred: the section lasts to the end of the method -/
def deferredUnlock (fn m : String) : Bool :=
  match factsOf fn with
  | some f => f.deferred.contains m
  | none => false

def heldW (h : Held) (m : String) : Bool := h.any (fun p => p.1 == m && p.2 == "W")
def heldAny (h : Held) (m : String) : Bool := h.any (fun p => p.1 == m)

/-- the occurrences of an item -/
def occ (fn kind what : String) : List Held :=
  match factsOf fn with
  | some f => (f.items.filter (fun i => i.1 == kind && i.2.1 == what)).map (·.2.2)
  | none => []

/-- the item occurs, and every occurrence is under `m` held exclusively -/
def underW (fn kind what m : String) : Bool :=
  let o := occ fn kind what
  !o.isEmpty && o.all (heldW · m)

/-- the item occurs, and every occurrence has NO mutex held (an external call made outside the lock) -/
def outside (fn kind what : String) : Bool :=
  let o := occ fn kind what
  !o.isEmpty && o.all (·.isEmpty)

/-- every write of one of `fields` is under `m` exclusively, and at least one of them is written -/
def writesUnderW (fn : String) (fields : List String) (m : String) : Bool :=
  match factsOf fn with
  | some f =>
    let ws := f.items.filter (fun i => i.1 == "w" && fields.contains i.2.1)
    !ws.isEmpty && ws.all (fun i => heldW i.2.2 m)
  | none => false

/-- every read or write of one of `fields` is under `m` (shared or exclusive) -/
def accessesUnder (fn : String) (fields : List String) (m : String) : Bool :=
  match factsOf fn with
  | some f =>
    (f.items.filter (fun i => (i.1 == "w" || i.1 == "r") && fields.contains i.2.1)).all (fun i => heldAny i.2.2 m)
  | none => false

/-- the method is ONE critical section of `m`, taken exclusively at its start and released by a deferred unlock,
    and every access to `fields` happens inside it -/
def oneDeferredSection (fn m : String) (fields : List String) : Bool :=
  known fn && acqOf fn m == ["W"] && deferredUnlock fn m && accessesUnder fn fields m

end Bng.LockFacts
