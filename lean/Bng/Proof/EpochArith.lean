import Bng.Model.Epoch
/-
  Address arithmetic of the epoch allocator: indexToIP adds the slot number octet by octet without
  carry; on a base aligned to the pool size that is ordinary addition.
-/
namespace Bng.Epoch
open Bng

/-! ## address arithmetic: octet-wise addition without carry is numeric addition on an aligned base -/

theorem bytes_sum (x : Nat) (hx : x < 4294967296) :
    x = x / 16777216 % 256 * 16777216 + x / 65536 % 256 * 65536 + x / 256 % 256 * 256 + x % 256 := by
  have h1 := Nat.div_div_eq_div_mul x 256 256
  have h2 := Nat.div_div_eq_div_mul x 65536 256
  simp only [Nat.reduceMul] at h1 h2
  omega

theorem indexToIP_nocarry (c : Cfg) (off : Nat) (hb : c.base < 4294967296) (ho : off < 4294967296)
    (h0 : c.base % 256 + off % 256 < 256) (h1 : c.base / 256 % 256 + off / 256 % 256 < 256)
    (h2 : c.base / 65536 % 256 + off / 65536 % 256 < 256)
    (h3 : c.base / 16777216 % 256 + off / 16777216 % 256 < 256) :
    indexToIP c off = c.base + off := by
  simp only [indexToIP, byteOf, Nat.mul_zero, Nat.pow_zero, Nat.div_one, Nat.reducePow, Nat.reduceMul]
  rw [Nat.mod_eq_of_lt ho, Nat.mod_eq_of_lt h0, Nat.mod_eq_of_lt h1, Nat.mod_eq_of_lt h2, Nat.mod_eq_of_lt h3]
  have e1 := bytes_sum c.base hb
  have e2 := bytes_sum off ho
  generalize c.base / 16777216 % 256 = b3 at *
  generalize c.base / 65536 % 256 = b2 at *
  generalize c.base / 256 % 256 = b1 at *
  generalize c.base % 256 = b0 at *
  generalize off / 16777216 % 256 = o3 at *
  generalize off / 65536 % 256 = o2 at *
  generalize off / 256 % 256 = o1 at *
  generalize off % 256 = o0 at *
  omega

set_option maxHeartbeats 4000000 in
theorem bytes_disjoint (base idx h : Nat) (hh : h ≤ 32) (ha : base % 2 ^ h = 0) (hi : idx < 2 ^ h) :
    base % 256 + idx % 256 < 256 ∧ base / 256 % 256 + idx / 256 % 256 < 256 ∧
    base / 65536 % 256 + idx / 65536 % 256 < 256 ∧ base / 16777216 % 256 + idx / 16777216 % 256 < 256 := by
  have : h = 0 ∨ h = 1 ∨ h = 2 ∨ h = 3 ∨ h = 4 ∨ h = 5 ∨ h = 6 ∨ h = 7 ∨ h = 8 ∨ h = 9 ∨ h = 10 ∨ h = 11 ∨
      h = 12 ∨ h = 13 ∨ h = 14 ∨ h = 15 ∨ h = 16 ∨ h = 17 ∨ h = 18 ∨ h = 19 ∨ h = 20 ∨ h = 21 ∨ h = 22 ∨
      h = 23 ∨ h = 24 ∨ h = 25 ∨ h = 26 ∨ h = 27 ∨ h = 28 ∨ h = 29 ∨ h = 30 ∨ h = 31 ∨ h = 32 := by omega
  rcases this with rfl | rfl | rfl | rfl | rfl | rfl | rfl | rfl | rfl | rfl | rfl | rfl | rfl | rfl | rfl | rfl |
      rfl | rfl | rfl | rfl | rfl | rfl | rfl | rfl | rfl | rfl | rfl | rfl | rfl | rfl | rfl | rfl | rfl <;>
    simp only [Nat.reducePow] at ha hi <;> refine ⟨?_, ?_, ?_, ?_⟩ <;> omega

/-- on a base aligned to `32 - ones` bits, slot `idx` of the pool is the address `base + idx` -/
theorem indexToIP_eq (c : Cfg) (idx : Nat) (hb : c.base < 2 ^ 32) (ho : c.ones ≤ 32)
    (ha : c.base % 2 ^ (32 - c.ones) = 0) (hi : idx < 2 ^ (32 - c.ones)) :
    indexToIP c idx = c.base + idx := by
  obtain ⟨h0, h1, h2, h3⟩ := bytes_disjoint c.base idx (32 - c.ones) (by omega) ha hi
  have hlt : idx < 4294967296 := by
    have : 2 ^ (32 - c.ones) ≤ 2 ^ 32 := Nat.pow_le_pow_right (by omega) (by omega)
    simp only [Nat.reducePow] at this
    omega
  exact indexToIP_nocarry c idx (by simpa using hb) hlt h0 h1 h2 h3

end Bng.Epoch
