import Bng.Model.FreeList
/-
  Invariant of the generic free-list pool model and its preservation by every operation.

  The heart is CONSERVATION: the values held, the free list and the addresses parked by
  MarkUnavailable are, together, a permutation of the generated universe.  Uniqueness, in-range,
  no-leak, true Stats figures and exhaustion-only-when-full are corollaries.
-/
namespace Bng.FreeList
open Bng AMap

/-! ### association-list facts about the values of a map -/

theorem vals_insert_of_none {m : AMap Nat Nat} {k : Nat} (a : Nat) (h : AMap.lookup m k = none) :
    vals (AMap.insert m k a) = a :: vals m := by
  unfold AMap.insert
  rw [erase_eq_self_of_not_mem (lookup_eq_none_iff.mp h)]
  rfl

theorem nodupKeys_tail {p : Nat × Nat} {rest : AMap Nat Nat} (hn : NodupKeys (p :: rest)) :
    NodupKeys rest := by
  unfold NodupKeys keys at hn ⊢; simp at hn; exact hn.2

theorem lookup_tail_none {a b : Nat} {rest : AMap Nat Nat} (hn : NodupKeys ((a, b) :: rest)) :
    AMap.lookup rest a = none := by
  apply lookup_eq_none_iff.mpr
  unfold NodupKeys keys at hn; simp at hn
  intro hm; simp [keys] at hm; obtain ⟨x, hx⟩ := hm; exact hn.1 x hx

/-- removing the entry of `k` removes exactly its value -/
theorem vals_erase_perm {m : AMap Nat Nat} (hn : NodupKeys m) {k a : Nat}
    (h : AMap.lookup m k = some a) : (vals m).Perm (a :: vals (AMap.erase m k)) := by
  induction m with
  | nil => simp at h
  | cons p rest ih =>
    obtain ⟨x, y⟩ := p
    have hn' := nodupKeys_tail hn
    rw [lookup_cons] at h
    rw [erase_cons]
    by_cases e : x = k
    · subst e
      simp only [if_true, Option.some.injEq] at h
      subst h
      have : AMap.erase rest x = rest :=
        erase_eq_self_of_not_mem (lookup_eq_none_iff.mp (lookup_tail_none hn))
      simp only [if_true, this]
      exact List.Perm.refl _
    · simp only [e, if_false] at h ⊢
      have := ih hn' h
      show (y :: vals rest).Perm (a :: y :: vals (AMap.erase rest k))
      exact (List.Perm.cons y this).trans (List.Perm.swap a y _)

theorem mem_vals_of_lookup {m : AMap Nat Nat} {k a : Nat} (h : AMap.lookup m k = some a) :
    a ∈ vals m := by
  have := mem_of_lookup h
  simp only [vals, List.mem_map]
  exact ⟨(k, a), this, rfl⟩

theorem lookup_of_mem_vals {m : AMap Nat Nat} (hn : NodupKeys m) {a : Nat} (h : a ∈ vals m) :
    ∃ k, AMap.lookup m k = some a := by
  simp only [vals, List.mem_map] at h
  obtain ⟨⟨k, a'⟩, hm, e⟩ := h
  simp only at e; subst e
  exact ⟨k, lookup_of_mem hn hm⟩

/-- a map whose values are pairwise distinct is injective -/
theorem inj_of_vals_nodup {m : AMap Nat Nat} (hn : NodupKeys m) (hv : (vals m).Nodup) {k₁ k₂ a : Nat}
    (h₁ : AMap.lookup m k₁ = some a) (h₂ : AMap.lookup m k₂ = some a) : k₁ = k₂ := by
  induction m with
  | nil => simp at h₁
  | cons p rest ih =>
    obtain ⟨x, y⟩ := p
    have hn' := nodupKeys_tail hn
    have hv' : (vals rest).Nodup := by
      simp only [vals, List.map_cons, List.nodup_cons] at hv; exact hv.2
    have hy : y ∉ vals rest := by
      simp only [vals, List.map_cons, List.nodup_cons] at hv; exact hv.1
    rw [lookup_cons] at h₁ h₂
    by_cases e₁ : x = k₁ <;> by_cases e₂ : x = k₂
    · rw [← e₁, ← e₂]
    · simp only [e₁, if_true, Option.some.injEq] at h₁
      simp only [e₂, if_false] at h₂
      subst h₁
      exact absurd (mem_vals_of_lookup h₂) hy
    · simp only [e₂, if_true, Option.some.injEq] at h₂
      simp only [e₁, if_false] at h₁
      subst h₂
      exact absurd (mem_vals_of_lookup h₁) hy
    · simp only [e₁, e₂, if_false] at h₁ h₂
      exact ih hn' hv' h₁ h₂

theorem holderOf_some {m : AMap Nat Nat} (hn : NodupKeys m) {a k : Nat} (h : holderOf m a = some k) :
    AMap.lookup m k = some a := by
  unfold holderOf at h
  split at h
  · rename_i p hp
    simp only [Option.some.injEq] at h
    have hmem := List.mem_of_find?_eq_some hp
    have hval := List.find?_some hp
    simp only [beq_iff_eq] at hval
    obtain ⟨pk, pa⟩ := p
    simp only at h hval
    subst h; subst hval
    exact lookup_of_mem hn hmem
  · simp at h

theorem holderOf_none {m : AMap Nat Nat} {a : Nat} (h : holderOf m a = none) (k : Nat) :
    AMap.lookup m k ≠ some a := by
  unfold holderOf at h
  split at h
  · simp at h
  · rename_i hp
    intro hk
    have := List.find?_eq_none.mp hp (k, a) (mem_of_lookup hk)
    simp at this

/-! ### the invariant -/

/-- What must hold of every reachable pool state. -/
structure Inv (s : State) : Prop where
  /-- no duplicate keys, so that `length` counts holders -/
  nd : NodupKeys s.held
  /-- the constructor generated no value twice -/
  und : s.cfg.univ.Nodup
  /-- CONSERVATION: held values, free list and parked addresses are a permutation of the universe -/
  perm : (vals s.held ++ s.avail ++ s.parked).Perm s.cfg.univ
  /-- only addresses that were marked unavailable are ever parked -/
  parkedMarked : ∀ a, a ∈ s.parked → a ∈ s.marked
  /-- the reverse index, where the pool keeps one, is the inverse of `held` -/
  revOK : s.cfg.hasRev = true → ∀ k a, AMap.lookup s.held k = some a ↔ AMap.lookup s.rev a = some k
  /-- Allocate looks an existing holding up first -/
  lf : s.cfg.lookupFirst = true

theorem Inv.all_nodup {s : State} (hI : Inv s) : (vals s.held ++ s.avail ++ s.parked).Nodup :=
  hI.perm.nodup_iff.mpr hI.und

theorem Inv.vals_nodup {s : State} (hI : Inv s) : (vals s.held).Nodup := by
  have := hI.all_nodup
  rw [List.append_assoc] at this
  exact (List.nodup_append.mp this).1

theorem Inv.avail_nodup {s : State} (hI : Inv s) : s.avail.Nodup := by
  have := hI.all_nodup
  exact (List.nodup_append.mp (List.nodup_append.mp this).1).2.1

/-- a free address is held by nobody -/
theorem Inv.avail_not_held {s : State} (hI : Inv s) {a : Nat} (ha : a ∈ s.avail) (k : Nat) :
    AMap.lookup s.held k ≠ some a := by
  intro hk
  have := hI.all_nodup
  have h2 := (List.nodup_append.mp (List.nodup_append.mp this).1).2.2
  exact h2 a (mem_vals_of_lookup hk) a ha rfl

/-- a parked address is neither free nor held -/
theorem Inv.parked_not_avail {s : State} (hI : Inv s) {a : Nat} (ha : a ∈ s.parked) : a ∉ s.avail := by
  intro h
  have := (List.nodup_append.mp hI.all_nodup).2.2 a (List.mem_append_right _ h) a ha
  exact this rfl

theorem Inv.unique {s : State} (hI : Inv s) {k₁ k₂ a : Nat}
    (h₁ : AMap.lookup s.held k₁ = some a) (h₂ : AMap.lookup s.held k₂ = some a) : k₁ = k₂ :=
  inj_of_vals_nodup hI.nd hI.vals_nodup h₁ h₂

theorem inv_init (c : Cfg) (hu : c.univ.Nodup) (hl : c.lookupFirst = true) : Inv (init c) := by
  refine ⟨nodupKeys_nil, hu, ?_, ?_, ?_, hl⟩
  · simp [init, vals]
  · intro a h; simp [init] at h
  · intro _ k a; simp [init]

/-- the common "give the head of the free list to k" update -/
theorem inv_give {s : State} (hI : Inv s) {k a : Nat} {rest : List Nat}
    (hk : AMap.lookup s.held k = none) (hav : s.avail = a :: rest) :
    Inv { s with avail := rest, held := AMap.insert s.held k a,
                 rev := if s.cfg.hasRev then AMap.insert s.rev a k else s.rev } := by
  have hafree : ∀ k', AMap.lookup s.held k' ≠ some a :=
    fun k' => hI.avail_not_held (by rw [hav]; exact List.mem_cons_self) k'
  refine ⟨nodupKeys_insert hI.nd _ _, hI.und, ?_, hI.parkedMarked, ?_, hI.lf⟩
  · show (vals (AMap.insert s.held k a) ++ rest ++ s.parked).Perm s.cfg.univ
    rw [vals_insert_of_none a hk]
    refine List.Perm.trans ?_ hI.perm
    rw [hav]
    simp only [List.cons_append, List.append_assoc]
    exact List.perm_middle.symm
  · intro hr k' a'
    show AMap.lookup (AMap.insert s.held k a) k' = some a' ↔
      AMap.lookup (if s.cfg.hasRev then AMap.insert s.rev a k else s.rev) a' = some k'
    have hr : s.cfg.hasRev = true := hr
    simp only [hr, if_true, lookup_insert]
    have hrev := hI.revOK hr
    by_cases e : k' = k
    · subst e
      by_cases e2 : a' = a
      · subst e2; simp
      · have e2' : ¬ a = a' := fun x => e2 x.symm
        simp only [if_true, Option.some.injEq, e2, e2', if_false, false_iff]
        intro h
        have := (hrev k' a').mpr h
        rw [hk] at this; simp at this
    · simp only [e, if_false]
      by_cases e2 : a' = a
      · subst e2
        have e' : ¬ k = k' := fun x => e x.symm
        simp only [if_true, Option.some.injEq, e', iff_false]
        exact hafree k'
      · simp only [e2, if_false]
        exact hrev k' a'

/-- the common "take a from k and append it to the free list" update -/
theorem inv_take {s : State} (hI : Inv s) {k a : Nat} (hk : AMap.lookup s.held k = some a) :
    Inv { s with held := AMap.erase s.held k, avail := s.avail ++ [a],
                 rev := if s.cfg.hasRev then AMap.erase s.rev a else s.rev } := by
  refine ⟨nodupKeys_erase hI.nd _, hI.und, ?_, hI.parkedMarked, ?_, hI.lf⟩
  · show (vals (AMap.erase s.held k) ++ (s.avail ++ [a]) ++ s.parked).Perm s.cfg.univ
    refine List.Perm.trans ?_ hI.perm
    have h1 := vals_erase_perm hI.nd hk
    -- vals held ++ avail ++ parked ~ (a :: vals') ++ avail ++ parked
    refine List.Perm.trans ?_ ((h1.append_right s.avail).append_right s.parked).symm
    simp only [List.cons_append, List.append_assoc]
    -- vals' ++ (avail ++ ([a] ++ parked)) ~ a :: (vals' ++ (avail ++ parked))
    have h2 : (s.avail ++ (a :: s.parked)).Perm (a :: (s.avail ++ s.parked)) := List.perm_middle
    have h3 := h2.append_left (vals (AMap.erase s.held k))
    exact h3.trans List.perm_middle
  · intro hr k' a'
    show AMap.lookup (AMap.erase s.held k) k' = some a' ↔
      AMap.lookup (if s.cfg.hasRev then AMap.erase s.rev a else s.rev) a' = some k'
    have hr : s.cfg.hasRev = true := hr
    simp only [hr, if_true, lookup_erase]
    have hrev := hI.revOK hr
    by_cases e : k' = k
    · subst e
      simp only [if_true]
      by_cases e2 : a' = a
      · simp [e2]
      · simp only [e2, if_false]
        constructor
        · intro h; simp at h
        · intro h
          have := (hrev k' a').mpr h
          rw [hk] at this
          simp only [Option.some.injEq] at this
          exact absurd this.symm e2
    · simp only [e, if_false]
      by_cases e2 : a' = a
      · subst e2
        simp only [if_true]
        constructor
        · intro h; exact absurd (hI.unique h hk) e
        · intro h; simp at h
      · simp only [e2, if_false]
        exact hrev k' a'

/-- "give the free address a — wherever it stands on the free list — to k" (Reserve) -/
theorem inv_giveAt {s : State} (hI : Inv s) {k a : Nat}
    (hk : AMap.lookup s.held k = none) (ha : a ∈ s.avail) :
    Inv { s with avail := s.avail.erase a, held := AMap.insert s.held k a,
                 rev := if s.cfg.hasRev then AMap.insert s.rev a k else s.rev } := by
  have hafree : ∀ k', AMap.lookup s.held k' ≠ some a := fun k' => hI.avail_not_held ha k'
  refine ⟨nodupKeys_insert hI.nd _ _, hI.und, ?_, hI.parkedMarked, ?_, hI.lf⟩
  · show (vals (AMap.insert s.held k a) ++ s.avail.erase a ++ s.parked).Perm s.cfg.univ
    rw [vals_insert_of_none a hk]
    refine List.Perm.trans ?_ hI.perm
    have h1 : s.avail.Perm (a :: s.avail.erase a) := List.perm_cons_erase ha
    have h2 := ((h1.append_left (vals s.held)).append_right s.parked).symm
    refine List.Perm.trans ?_ h2
    simp only [List.cons_append, List.append_assoc]
    exact List.perm_middle.symm
  · intro hr k' a'
    show AMap.lookup (AMap.insert s.held k a) k' = some a' ↔
      AMap.lookup (if s.cfg.hasRev then AMap.insert s.rev a k else s.rev) a' = some k'
    have hr : s.cfg.hasRev = true := hr
    simp only [hr, if_true, lookup_insert]
    have hrev := hI.revOK hr
    by_cases e : k' = k
    · subst e
      by_cases e2 : a' = a
      · subst e2; simp
      · have e2' : ¬ a = a' := fun x => e2 x.symm
        simp only [if_true, Option.some.injEq, e2, e2', if_false, false_iff]
        intro h
        have := (hrev k' a').mpr h
        rw [hk] at this; simp at this
    · simp only [e, if_false]
      by_cases e2 : a' = a
      · subst e2
        have e' : ¬ k = k' := fun x => e x.symm
        simp only [if_true, Option.some.injEq, e', iff_false]
        exact hafree k'
      · simp only [e2, if_false]
        exact hrev k' a'

theorem erase_erase_self (m : AMap Nat Nat) (k : Nat) : AMap.erase (AMap.erase m k) k = AMap.erase m k :=
  erase_eq_self_of_not_mem (not_mem_keys_erase m k)

theorem insert_erase_self (m : AMap Nat Nat) (k a : Nat) :
    AMap.insert (AMap.erase m k) k a = AMap.insert m k a := by
  unfold AMap.insert; rw [erase_erase_self]

theorem inv_reserve {s : State} (hI : Inv s) (k a : Nat) : Inv (reserve s k a).1 := by
  unfold reserve
  split
  · rename_i cur hcur
    split
    · exact hI
    · split
      · rename_i hne ha
        -- = take cur from k, then give a (found on the free list) to k
        have h1 := inv_take hI hcur
        have hk1 : AMap.lookup (AMap.erase s.held k) k = none := by simp
        have ha1 : a ∈ s.avail ++ [cur] := List.mem_append_left _ ha
        have h2 := inv_giveAt h1 hk1 ha1
        have e1 : (s.avail ++ [cur]).erase a = s.avail.erase a ++ [cur] := List.erase_append_left _ ha
        simp only [e1, insert_erase_self] at h2
        by_cases hr : s.cfg.hasRev = true
        · simp only [hr, if_true] at h2 ⊢; exact h2
        · simp only [hr] at h2 ⊢; exact h2
      · exact hI
  · rename_i hnone
    split
    · rename_i ha
      exact inv_giveAt hI hnone ha
    · exact hI

theorem inv_alloc {s : State} (hI : Inv s) (k : Nat) : Inv (alloc s k).1 := by
  unfold alloc
  simp only [hI.lf, if_true]
  split
  · exact hI
  · rename_i hk
    split
    · exact hI
    · rename_i a rest hav
      exact inv_give hI hk hav

theorem inv_release {s : State} (hI : Inv s) (k : Nat) : Inv (release s k).1 := by
  unfold release
  split
  · exact hI
  · rename_i a hk
    exact inv_take hI hk

theorem inv_releaseVal {s : State} (hI : Inv s) (a : Nat) : Inv (releaseVal s a).1 := by
  unfold releaseVal
  split
  · exact hI
  · rename_i k hk
    exact inv_take hI (holderOf_some hI.nd hk)

theorem inv_mark {s : State} (hI : Inv s) (a : Nat) : Inv (mark s a).1 := by
  unfold mark
  refine ⟨hI.nd, hI.und, ?_, ?_, hI.revOK, hI.lf⟩
  · show (vals s.held ++ s.avail.erase a ++ (if a ∈ s.avail then a :: s.parked else s.parked)).Perm s.cfg.univ
    by_cases ha : a ∈ s.avail
    · simp only [ha, if_true]
      refine List.Perm.trans ?_ hI.perm
      have h1 : s.avail.Perm (a :: s.avail.erase a) := List.perm_cons_erase ha
      simp only [List.append_assoc]
      apply List.Perm.append_left
      -- erase ++ a :: parked ~ avail ++ parked
      refine List.Perm.trans List.perm_middle ?_
      exact (h1.append_right s.parked).symm
    · simp only [ha, if_false]
      rw [List.erase_of_not_mem ha]
      exact hI.perm
  · intro x hx
    show x ∈ (if a ∈ s.marked then s.marked else a :: s.marked)
    have hx' : x ∈ (if a ∈ s.avail then a :: s.parked else s.parked) := hx
    by_cases ha : a ∈ s.avail
    · simp only [ha, if_true, List.mem_cons] at hx'
      rcases hx' with e | h
      · subst e
        by_cases hm : x ∈ s.marked <;> simp [hm]
      · have := hI.parkedMarked x h
        by_cases hm : a ∈ s.marked <;> simp [hm, this]
    · simp only [ha, if_false] at hx'
      have := hI.parkedMarked x hx'
      by_cases hm : a ∈ s.marked <;> simp [hm, this]

theorem inv_step {s : State} (hI : Inv s) (op : Op) : Inv (step s op).1 := by
  cases op <;> simp only [step]
  · exact inv_alloc hI _
  · exact inv_release hI _
  · exact inv_releaseVal hI _
  · exact inv_mark hI _
  · exact hI
  · exact hI
  · exact hI
  · exact inv_reserve hI _ _
  · exact hI

theorem inv_run {s : State} (hI : Inv s) (ops : List Op) : Inv (run s ops) := by
  induction ops generalizing s with
  | nil => exact hI
  | cons op ops ih =>
    simp only [run, List.foldl_cons]
    exact ih (inv_step hI op)

theorem step_cfg (s : State) (op : Op) : (step s op).1.cfg = s.cfg := by
  cases op <;> simp only [step]
  · unfold alloc; split <;> try rfl
    split <;> rfl
  · unfold release; split <;> rfl
  · unfold releaseVal; split <;> rfl
  · rfl
  · unfold reserve; split
    · split <;> try rfl
      split <;> rfl
    · split <;> rfl

theorem run_cfg (s : State) (ops : List Op) : (run s ops).cfg = s.cfg := by
  induction ops generalizing s with
  | nil => rfl
  | cons op ops ih =>
    simp only [run, List.foldl_cons]
    have := ih (step s op).1
    simp only [run] at this
    rw [this, step_cfg]

/-- every held value was generated by the constructor -/
theorem Inv.held_in_univ {s : State} (hI : Inv s) {k a : Nat} (h : AMap.lookup s.held k = some a) :
    a ∈ s.cfg.univ := by
  apply hI.perm.subset
  simp only [List.mem_append]
  exact Or.inl (Or.inl (mem_vals_of_lookup h))

/-- every generated value is held, free or parked -/
theorem Inv.univ_cases {s : State} (hI : Inv s) {a : Nat} (h : a ∈ s.cfg.univ) :
    (∃ k, AMap.lookup s.held k = some a) ∨ a ∈ s.avail ∨ a ∈ s.parked := by
  have := hI.perm.symm.subset h
  simp only [List.mem_append] at this
  rcases this with (h | h) | h
  · exact Or.inl (lookup_of_mem_vals hI.nd h)
  · exact Or.inr (Or.inl h)
  · exact Or.inr (Or.inr h)

/-- the counting identity behind Stats() -/
theorem Inv.count {s : State} (hI : Inv s) :
    s.held.length + s.avail.length + s.parked.length = s.cfg.univ.length := by
  have := hI.perm.length_eq
  simp only [vals, List.length_append, List.length_map] at this
  omega

/-- nothing is parked as long as nothing was marked -/
theorem marked_nil_parked_nil {s : State} (hI : Inv s) (h : s.marked = []) : s.parked = [] := by
  cases hp : s.parked with
  | nil => rfl
  | cons a rest =>
    have := hI.parkedMarked a (by rw [hp]; exact List.mem_cons_self)
    rw [h] at this; simp at this

end Bng.FreeList
