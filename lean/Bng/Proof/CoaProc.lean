import Bng.Model.CoaProc
import Bng.Proof.Coa
/-
  Lemmas about the CoAProcessor model: the lookup chain finds exactly the identified session, the two handlers
  in closed form, one datagram = receive ∘ parse ∘ process ∘ respond, and the table invariant (unique session ids).
-/
namespace Bng.CoaProc
open Bng.Go Bng.Coa

/-! ### the lookup chain -/

theorem runKeys_fst (tbl : List Sess) : ∀ ks, (runKeys tbl ks).1 = identify tbl ks
  | [] => rfl
  | k :: ks => by
    unfold runKeys identify
    cases h : lookup tbl k with
    | none => simp only []; exact runKeys_fst tbl ks
    | some s => rfl

/-- the lookups themselves change nothing: none of the recorded lookup calls has a target -/
theorem runKeys_calls (tbl : List Sess) : ∀ ks, ∀ c ∈ (runKeys tbl ks).2, c.target = none
  | [] => by intro c h; cases h
  | k :: ks => by
    intro c h
    unfold runKeys at h
    cases hl : lookup tbl k with
    | none =>
      rw [hl] at h
      simp only [List.mem_cons] at h
      rcases h with h | h
      · subst h; rfl
      · exact runKeys_calls tbl ks c h
    | some s =>
      rw [hl] at h
      simp only [List.mem_cons, List.not_mem_nil, or_false] at h
      subst h; rfl

theorem identify_some_iff (tbl : List Sess) (s : Sess) :
    ∀ ks, identify tbl ks = some s ↔ Identified tbl ks s
  | [] => by
    constructor
    · intro h; cases h
    · rintro ⟨pre, k, post, h, _⟩
      cases pre <;> cases h
  | k :: ks => by
    unfold identify
    cases hl : lookup tbl k with
    | some s' =>
      simp only []
      constructor
      · intro h
        injection h with h; subst h
        exact ⟨[], k, ks, rfl, hl, by intro k' hk; cases hk⟩
      · rintro ⟨pre, k0, post, h, hk0, hpre⟩
        cases pre with
        | nil =>
          simp only [List.nil_append] at h
          injection h with h1 _
          subst h1
          rw [hl] at hk0; exact hk0
        | cons p pre =>
          simp only [List.cons_append] at h
          injection h with h1 _
          subst h1
          have := hpre k (by simp)
          rw [hl] at this; cases this
    | none =>
      simp only []
      rw [identify_some_iff tbl s ks]
      constructor
      · rintro ⟨pre, k0, post, h, hk0, hpre⟩
        refine ⟨k :: pre, k0, post, by rw [h]; rfl, hk0, ?_⟩
        intro k' hk'
        simp only [List.mem_cons] at hk'
        rcases hk' with hk' | hk'
        · subst hk'; exact hl
        · exact hpre k' hk'
      · rintro ⟨pre, k0, post, h, hk0, hpre⟩
        cases pre with
        | nil =>
          simp only [List.nil_append] at h
          injection h with h1 _
          subst h1
          rw [hl] at hk0; cases hk0
        | cons p pre =>
          simp only [List.cons_append] at h
          injection h with h1 h2
          exact ⟨pre, k0, post, h2, hk0, fun k' hk' => hpre k' (by simp [hk'])⟩

theorem identify_none_iff (tbl : List Sess) : ∀ ks, identify tbl ks = none ↔ ∀ k ∈ ks, lookup tbl k = none
  | [] => by simp [identify]
  | k :: ks => by
    unfold identify
    cases hl : lookup tbl k with
    | some s' => simp [hl]
    | none => simp [hl, identify_none_iff tbl ks]

/-- at most one session is identified -/
theorem Identified.unique {tbl : List Sess} {ks : List Key} {s s' : Sess}
    (h : Identified tbl ks s) (h' : Identified tbl ks s') : s = s' := by
  have a := (identify_some_iff tbl s ks).mpr h
  have b := (identify_some_iff tbl s' ks).mpr h'
  rw [a] at b; injection b

theorem lookup_some {tbl : List Sess} {k : Key} {s : Sess} (h : lookup tbl k = some s) :
    s ∈ tbl ∧ k.matches s = true := by
  unfold lookup at h
  exact ⟨List.mem_of_find?_eq_some h, List.find?_some h⟩

theorem Identified.mem {tbl : List Sess} {ks : List Key} {s : Sess} (h : Identified tbl ks s) : s ∈ tbl := by
  obtain ⟨_, _, _, _, hk, _⟩ := h
  exact (lookup_some hk).1

/-! ### the handlers in closed form -/

theorem processDm_none (st : State) (r : DmReq) (h : identify st.tbl (dmKeys st.cfg r) = none) :
    processDm st r = (st, ⟨false, 503, dmNotFound r⟩, (runKeys st.tbl (dmKeys st.cfg r)).2) := by
  unfold processDm
  rw [← runKeys_fst] at h
  simp only [h]

theorem processDm_some (st : State) (r : DmReq) (s : Sess) (h : identify st.tbl (dmKeys st.cfg r) = some s) :
    processDm st r =
      if st.cfg.hasTerm = true ∧ st.failTerm = true then
        (st, ⟨false, 504, ascii "Failed to terminate session: terminate session: terminator failed"⟩,
          (runKeys st.tbl (dmKeys st.cfg r)).2 ++ [Call.term s.sid nasRequest false])
      else
        ({ st with tbl := if st.cfg.hasTerm then removeSid st.tbl s.sid else st.tbl },
          ⟨true, 0, ascii "Session disconnected"⟩,
          (runKeys st.tbl (dmKeys st.cfg r)).2 ++ (if st.cfg.hasTerm then [Call.term s.sid nasRequest true] else [])) := by
  unfold processDm
  rw [← runKeys_fst] at h
  simp only [h]
  unfold terminateSession
  cases ht : st.cfg.hasTerm <;> cases hf : st.failTerm <;> simp

theorem processCoa_none (st : State) (r : CoaReq) (h : identify st.tbl (coaKeys st.cfg r) = none) :
    processCoa st r = (st, ⟨false, 503, coaNotFound r⟩, (runKeys st.tbl (coaKeys st.cfg r)).2) := by
  unfold processCoa
  rw [← runKeys_fst] at h
  simp only [h]

theorem processCoa_nochange (st : State) (r : CoaReq) (s : Sess) (h : identify st.tbl (coaKeys st.cfg r) = some s)
    (hu : buildPolicyUpdate r = none) :
    processCoa st r = (st, ⟨false, 402, ascii "No policy changes specified"⟩, (runKeys st.tbl (coaKeys st.cfg r)).2) := by
  unfold processCoa
  rw [← runKeys_fst] at h
  simp only [h, hu]

/-- the table after a successful `applyPolicyUpdate` -/
def appliedTbl (st : State) (s : Sess) (u : Update) : List Sess :=
  let tbl1 := if st.cfg.hasPol then modifySid st.tbl s.sid (·.withUpdate u) else st.tbl
  if st.cfg.hasEbpf = true ∧ (u.down > 0 ∨ u.up > 0) ∧ st.failEbpf = false then
    modifySid tbl1 s.sid fun x => { x with eDown := (ebpfRates s u).1, eUp := (ebpfRates s u).2 }
  else tbl1

/-- the callbacks of a successful `applyPolicyUpdate` -/
def appliedCalls (st : State) (s : Sess) (u : Update) : List Call :=
  (if st.cfg.hasPol then [Call.pol s.sid u true] else []) ++
  (if st.cfg.hasEbpf = true ∧ (u.down > 0 ∨ u.up > 0) then
    [Call.ebpf s.sid (ebpfRates s u).1 (ebpfRates s u).2 (!st.failEbpf)] else [])

theorem applyPolicyUpdate_eq (st : State) (s : Sess) (u : Update) :
    applyPolicyUpdate st s u =
      if st.cfg.hasPol = true ∧ st.failPol = true then (none, [Call.pol s.sid u false])
      else (some (appliedTbl st s u), appliedCalls st s u) := by
  unfold applyPolicyUpdate appliedTbl appliedCalls
  by_cases h1 : st.cfg.hasPol = true ∧ st.failPol = true
  · rw [if_pos h1, if_pos h1]
  · rw [if_neg h1, if_neg h1]
    by_cases h2 : st.cfg.hasEbpf = true ∧ (u.down > 0 ∨ u.up > 0)
    · cases hf : st.failEbpf <;> simp [h2]
    · have h3 : ¬ (st.cfg.hasEbpf = true ∧ (u.down > 0 ∨ u.up > 0) ∧ st.failEbpf = false) := fun h => h2 ⟨h.1, h.2.1⟩
      simp only [h2, h3, if_false, List.append_nil]

theorem processCoa_change (st : State) (r : CoaReq) (s : Sess) (u : Update)
    (h : identify st.tbl (coaKeys st.cfg r) = some s) (hu : buildPolicyUpdate r = some u) :
    processCoa st r =
      if st.cfg.hasPol = true ∧ st.failPol = true then
        (st, ⟨false, 506, ascii "Failed to apply policy: update session policy: policy updater failed"⟩,
          (runKeys st.tbl (coaKeys st.cfg r)).2 ++ [Call.pol s.sid u false])
      else
        ({ st with tbl := appliedTbl st s u }, ⟨true, 0, ascii "Policy updated successfully"⟩,
          (runKeys st.tbl (coaKeys st.cfg r)).2 ++ appliedCalls st s u) := by
  unfold processCoa
  rw [← runKeys_fst] at h
  by_cases hc : st.cfg.hasPol = true ∧ st.failPol = true
  · simp only [h, hu, applyPolicyUpdate_eq, hc, and_self, if_true]
  · simp only [h, hu, applyPolicyUpdate_eq, hc, if_false]

/-! ### one datagram -/

/-- an authentic datagram: the listener accepts it, the field parser does not panic, and the step is the
    processor's answer to the parsed request, sent back by `respond` -/
theorem step_authentic (H : Bytes → Bytes) (hH : ∀ x, (H x).length = 16) (st : State) (buf : Bytes)
    (h : authentic H st.secret buf = true) :
    ∃ req n f, receive H st.secret buf = .ok (some req, n) ∧ parseFields req.kind req.attrs {} = .ok f ∧
      step H st buf = .ok ((process st req.kind f).1,
        some (respond H st.secret req (process st req.kind f).2.1, (process st req.kind f).2.2)) := by
  obtain ⟨r, m, e, _, hr, _⟩ := receive_spec H hH st.secret buf
  rw [h] at hr
  cases r with
  | none => simp at hr
  | some req =>
    obtain ⟨f, hf⟩ := parseFields_ok req.kind req.attrs {}
    refine ⟨req, m, f, e, hf, ?_⟩
    unfold step
    rw [e]
    simp only [ok_bind, hf]
    rfl

theorem step_unauthentic (H : Bytes → Bytes) (hH : ∀ x, (H x).length = 16) (st : State) (buf : Bytes)
    (h : authentic H st.secret buf = false) : step H st buf = .ok (st, none) := by
  obtain ⟨r, m, e, _, hr, _⟩ := receive_spec H hH st.secret buf
  rw [h] at hr
  cases r with
  | some req => simp at hr
  | none =>
    unfold step
    rw [e]
    rfl

/-! ### the table invariant -/

theorem map_sid_modifySid (tbl : List Sess) (sid : Bytes) (f : Sess → Sess) (hf : ∀ x, (f x).sid = x.sid) :
    (modifySid tbl sid f).map Sess.sid = tbl.map Sess.sid := by
  unfold modifySid
  rw [List.map_map]
  apply List.map_congr_left
  intro x _
  simp only [Function.comp]
  split
  · exact hf x
  · rfl

theorem unique_removeSid {tbl : List Sess} (sid : Bytes) (h : UniqueSids tbl) : UniqueSids (removeSid tbl sid) := by
  unfold UniqueSids removeSid at *
  exact List.Nodup.sublist (List.Sublist.map _ List.filter_sublist) h

theorem unique_appliedTbl {st : State} (s : Sess) (u : Update) (h : UniqueSids st.tbl) :
    UniqueSids (appliedTbl st s u) := by
  unfold UniqueSids appliedTbl at *
  have e1 : (if st.cfg.hasPol = true then modifySid st.tbl s.sid (·.withUpdate u) else st.tbl).map Sess.sid =
      st.tbl.map Sess.sid := by
    split
    · exact map_sid_modifySid _ _ _ (fun x => rfl)
    · rfl
  dsimp only
  split
  · have e2 := map_sid_modifySid (if st.cfg.hasPol = true then modifySid st.tbl s.sid (·.withUpdate u) else st.tbl) s.sid
      (fun x : Sess => { x with eDown := (ebpfRates s u).1, eUp := (ebpfRates s u).2 }) (fun _ => rfl)
    rw [e2, e1]; exact h
  · rw [e1]; exact h

theorem unique_processDm (st : State) (r : DmReq) (h : UniqueSids st.tbl) : UniqueSids (processDm st r).1.tbl := by
  cases hi : identify st.tbl (dmKeys st.cfg r) with
  | none => rw [processDm_none st r hi]; exact h
  | some s =>
    rw [processDm_some st r s hi]
    split
    · exact h
    · dsimp only
      split
      · exact unique_removeSid _ h
      · exact h

theorem unique_processCoa (st : State) (r : CoaReq) (h : UniqueSids st.tbl) : UniqueSids (processCoa st r).1.tbl := by
  cases hi : identify st.tbl (coaKeys st.cfg r) with
  | none => rw [processCoa_none st r hi]; exact h
  | some s =>
    cases hu : buildPolicyUpdate r with
    | none => rw [processCoa_nochange st r s hi hu]; exact h
    | some u =>
      rw [processCoa_change st r s u hi hu]
      split
      · exact h
      · exact unique_appliedTbl s u h

theorem unique_addSess (st : State) (s : Sess) (h : UniqueSids st.tbl) : UniqueSids (addSess st s).tbl := by
  unfold addSess
  split
  · exact h
  · rename_i hn
    unfold UniqueSids at *
    simp only [List.map_append, List.map_cons, List.map_nil]
    rw [List.nodup_append]
    refine ⟨h, by simp, ?_⟩
    intro a ha b hb
    simp only [List.mem_cons, List.not_mem_nil, or_false] at hb
    subst hb
    intro hab
    subst hab
    apply hn
    obtain ⟨x, hx, hxs⟩ := List.mem_map.mp ha
    exact List.any_eq_true.mpr ⟨x, hx, by simp [hxs]⟩

/-- whatever one datagram does to the state, it is either nothing or what a handler did -/
theorem step_state (H : Bytes → Bytes) (st : State) (buf : Bytes) (st' : State) (o : Option (Bytes × List Call))
    (h : step H st buf = .ok (st', o)) : st' = st ∨ ∃ k f, st' = (process st k f).1 := by
  unfold step at h
  cases hr : receive H st.secret buf with
  | error e => rw [hr] at h; cases h
  | ok v =>
    obtain ⟨req?, n⟩ := v
    rw [hr] at h
    cases req? with
    | none =>
      simp only [bind, Except.bind, pure, Except.pure] at h
      injection h with h; injection h with h1 _
      exact Or.inl h1.symm
    | some req =>
      cases hf : parseFields req.kind req.attrs {} with
      | error e => simp only [bind, Except.bind, hf] at h; cases h
      | ok f =>
        simp only [bind, Except.bind, pure, Except.pure, hf] at h
        injection h with h; injection h with h1 _
        exact Or.inr ⟨req.kind, f, h1.symm⟩

theorem unique_process (st : State) (k : Kind) (f : Fields) (h : UniqueSids st.tbl) :
    UniqueSids (process st k f).1.tbl := by
  unfold process
  cases k
  · exact unique_processCoa st _ h
  · exact unique_processDm st _ h

theorem unique_stepOp (H : Bytes → Bytes) (st : State) (op : Op) (h : UniqueSids st.tbl) :
    UniqueSids (stepOp H st op).tbl := by
  cases op with
  | sess s => exact unique_addSess st s h
  | fail f b => cases f <;> exact h
  | hcoa r => exact unique_processCoa st r h
  | hdm r => exact unique_processDm st r h
  | dg buf =>
    show UniqueSids (match step H st buf with
      | .ok (st', _) => st'
      | .error _ => st).tbl
    cases hs : step H st buf with
    | error e => exact h
    | ok v =>
      obtain ⟨st', o⟩ := v
      rcases step_state H st buf st' o hs with e | ⟨k, f, e⟩
      · rw [e]; exact h
      · rw [e]; exact unique_process st k f h

theorem unique_run (H : Bytes → Bytes) (ops : List Op) : ∀ st, UniqueSids st.tbl → UniqueSids (run H st ops).tbl := by
  induction ops with
  | nil => intro st h; exact h
  | cons op ops ih =>
    intro st h
    exact ih _ (unique_stepOp H st op h)

theorem sid_inj_of_unique : ∀ {tbl : List Sess}, UniqueSids tbl → ∀ {x y : Sess}, x ∈ tbl → y ∈ tbl → x.sid = y.sid → x = y
  | [], _, _, _, hx, _, _ => by cases hx
  | a :: t, h, x, y, hx, hy, e => by
    unfold UniqueSids at h
    simp only [List.map_cons, List.nodup_cons] at h
    obtain ⟨hna, ht⟩ := h
    simp only [List.mem_cons] at hx hy
    rcases hx with hx | hx <;> rcases hy with hy | hy
    · rw [hx, hy]
    · subst hx
      exact absurd (List.mem_map.mpr ⟨y, hy, e.symm⟩) hna
    · subst hy
      exact absurd (List.mem_map.mpr ⟨x, hx, e⟩) hna
    · exact sid_inj_of_unique (tbl := t) ht hx hy e

/-- with unique session ids the terminator removes exactly the one session -/
theorem mem_removeSid {tbl : List Sess} {s : Sess} (h : UniqueSids tbl) (hs : s ∈ tbl) (x : Sess) :
    x ∈ removeSid tbl s.sid ↔ x ∈ tbl ∧ x ≠ s := by
  unfold removeSid
  simp only [List.mem_filter, decide_eq_true_eq]
  constructor
  · rintro ⟨hx, hne⟩
    exact ⟨hx, fun e => hne (by rw [e])⟩
  · rintro ⟨hx, hne⟩
    refine ⟨hx, fun e => hne ?_⟩
    exact sid_inj_of_unique h hx hs e

/-! ### inversion of one datagram, and the response code -/

/-- everything `step` can return: a drop (state untouched), or the processor's answer to the request the
    listener parsed -/
theorem step_inv (H : Bytes → Bytes) (st : State) (buf : Bytes) (st' : State) (o : Option (Bytes × List Call))
    (h : step H st buf = .ok (st', o)) :
    (o = none ∧ st' = st ∧ ∃ n, receive H st.secret buf = .ok (none, n)) ∨
    (∃ req n f, receive H st.secret buf = .ok (some req, n) ∧ parseFields req.kind req.attrs {} = .ok f ∧
      st' = (process st req.kind f).1 ∧
      o = some (respond H st.secret req (process st req.kind f).2.1, (process st req.kind f).2.2)) := by
  unfold step at h
  cases hr : receive H st.secret buf with
  | error e => rw [hr] at h; cases h
  | ok v =>
    obtain ⟨req?, n⟩ := v
    rw [hr] at h
    cases req? with
    | none =>
      simp only [bind, Except.bind, pure, Except.pure] at h
      injection h with h; injection h with h1 h2
      exact Or.inl ⟨h2.symm, h1.symm, n, rfl⟩
    | some req =>
      cases hf : parseFields req.kind req.attrs {} with
      | error e => simp only [bind, Except.bind, hf] at h; cases h
      | ok f =>
        simp only [bind, Except.bind, pure, Except.pure, hf] at h
        injection h with h; injection h with h1 h2
        exact Or.inr ⟨req, n, f, rfl, hf, h1.symm, h2.symm⟩

theorem respond_head (H : Bytes → Bytes) (secret : Bytes) (req : Request) (reply : Reply) :
    (respond H secret req reply)[0]? = some (respCode req.kind reply.success) := by
  unfold respond sendResponse
  simp

/-- two updates of the same session compose -/
theorem modifySid_modifySid (tbl : List Sess) (sid : Bytes) (f g : Sess → Sess) (hf : ∀ x, (f x).sid = x.sid) :
    modifySid (modifySid tbl sid f) sid g = modifySid tbl sid (fun x => g (f x)) := by
  unfold modifySid
  rw [List.map_map]
  apply List.map_congr_left
  intro x _
  simp only [Function.comp]
  by_cases hx : x.sid = sid
  · rw [if_pos hx, if_pos (by rw [hf]; exact hx), if_pos hx]
  · rw [if_neg hx, if_neg hx, if_neg hx]

theorem modifySid_id (tbl : List Sess) (sid : Bytes) : modifySid tbl sid (fun x => x) = tbl := by
  unfold modifySid
  conv => rhs; rw [← List.map_id tbl]
  apply List.map_congr_left
  intro x _
  split <;> rfl

end Bng.CoaProc
