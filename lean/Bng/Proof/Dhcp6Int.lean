import Bng.Model.Dhcp6Int
import Bng.Proof.Dist
/-
  Invariants of the DHCPv6 server model in integrated-allocator mode (Bng.Dhcp6Int) and their preservation by
  every message and every fault switch.
-/
namespace Bng.Dhcp6Int
open Bng AMap Bng.Bitmap
open Bng.Dist.Session (SInv)
open Bng.Dhcp6 (Lease)

/-! ### what one PoolAllocator call does to the allocations of OTHER clients -/

/-- `p'` differs from `p` at most in what client `d` holds -/
structure Ext (d : Nat) (p p' : PA) : Prop where
  other : ∀ d', d' ≠ d → AMap.lookup p'.a.allocated d' = AMap.lookup p.a.allocated d'
  cfg : p'.a.cfg = p.a.cfg

theorem Ext.refl (d : Nat) (p : PA) : Ext d p p := ⟨fun _ _ => rfl, rfl⟩

theorem Ext.trans {d : Nat} {p p' p'' : PA} (h : Ext d p p') (h' : Ext d p' p'') : Ext d p p'' :=
  ⟨fun d' hne => by rw [h'.other d' hne, h.other d' hne], by rw [h'.cfg, h.cfg]⟩

theorem heldBy_other {d d' : Nat} {p p' : PA} (h : Ext d p p') (hne : d' ≠ d) : heldBy p' d' = heldBy p d' := by
  unfold heldBy; rw [h.other d' hne, h.cfg]

theorem heldBy_same {d : Nat} {p p' : PA} (hc : p'.a.cfg = p.a.cfg)
    (h : AMap.lookup p'.a.allocated d = AMap.lookup p.a.allocated d) : heldBy p' d = heldBy p d := by
  unfold heldBy; rw [h, hc]

/-- AllocateWithOptions: other clients untouched; a reported value is what the client holds afterwards; without a
    reported value the client's holding is what it was -/
theorem alloc_facts (p : PA) (d : Nat) (f : Bool) :
    Ext d p (Dist.Session.alloc p d f).1 ∧
    (∀ a pl, (Dist.Session.alloc p d f).2 = .okAddr a pl → heldBy (Dist.Session.alloc p d f).1 d = some a) ∧
    ((∀ a pl, (Dist.Session.alloc p d f).2 ≠ .okAddr a pl) →
        AMap.lookup (Dist.Session.alloc p d f).1.a.allocated d = AMap.lookup p.a.allocated d) := by
  unfold Dist.Session.alloc Dist.Session.holds
  cases hk : AMap.lookup p.a.allocated d with
  | some i =>
    have ha : Bitmap.alloc p.a d = (p.a, .okAddr (prefixOf p.a.cfg i)) := by
      unfold Bitmap.alloc; rw [hk]
    rw [ha]
    cases f with
    | true =>
      simp only [Option.isSome_some, if_true]
      refine ⟨⟨fun _ _ => rfl, rfl⟩, ?_, ?_⟩
      · intro a pl h; simp at h
      · intro _; exact hk
    | false =>
      simp only [Bool.false_eq_true, if_false]
      refine ⟨⟨fun _ _ => rfl, rfl⟩, ?_, ?_⟩
      · intro a pl h
        simp only [Dist.Obs.okAddr.injEq] at h
        unfold heldBy
        simp only [hk, Option.map_some, h.1]
      · intro h; exact absurd rfl (h _ _)
  | none =>
    cases hf : findFree p.a with
    | none =>
      have ha : Bitmap.alloc p.a d = (p.a, .exhausted) := by
        unfold Bitmap.alloc; rw [hk]; simp only; rw [hf]
      rw [ha]
      refine ⟨⟨fun _ _ => rfl, rfl⟩, ?_, ?_⟩
      · intro a pl h; simp at h
      · intro _; exact hk
    | some i =>
      have ha : Bitmap.alloc p.a d = (give p.a d i ((i + 1) % 2 ^ 64), .okAddr (prefixOf p.a.cfg i)) := by
        unfold Bitmap.alloc; rw [hk]; simp only; rw [hf]
      rw [ha]
      cases f with
      | true =>
        simp only [Option.isSome_none, Bool.false_eq_true, if_false, if_true]
        refine ⟨⟨?_, ?_⟩, ?_, ?_⟩
        · intro d' hne
          show AMap.lookup (Bitmap.release (give p.a d i ((i + 1) % 2 ^ 64)) d).1.allocated d' = _
          rw [release_lookup]
          simp only [hne, if_false]
          show AMap.lookup (AMap.insert p.a.allocated d i) d' = _
          rw [lookup_insert_ne _ _ hne]
        · show (Bitmap.release (give p.a d i ((i + 1) % 2 ^ 64)) d).1.cfg = _
          rw [release_cfg]; rfl
        · intro a pl h; simp at h
        · intro _
          show AMap.lookup (Bitmap.release (give p.a d i ((i + 1) % 2 ^ 64)) d).1.allocated d = _
          rw [release_lookup]; simp
      | false =>
        simp only [Bool.false_eq_true, if_false]
        refine ⟨⟨?_, rfl⟩, ?_, ?_⟩
        · intro d' hne
          show AMap.lookup (AMap.insert p.a.allocated d i) d' = _
          rw [lookup_insert_ne _ _ hne]
        · intro a pl h
          simp only [Dist.Obs.okAddr.injEq] at h
          unfold heldBy
          show (AMap.lookup (AMap.insert p.a.allocated d i) d).map (prefixOf p.a.cfg) = some a
          simp [h.1]
        · intro h; exact absurd rfl (h _ _)

theorem allocVal_fst (p : PA) (d : Nat) (f : Bool) : (allocVal p d f).1 = (Dist.Session.alloc p d f).1 := by
  unfold allocVal
  split <;> simp_all

theorem allocVal_some {p : PA} {d : Nat} {f : Bool} {v : Nat} (h : (allocVal p d f).2 = some v) :
    ∃ pl, (Dist.Session.alloc p d f).2 = .okAddr v pl := by
  unfold allocVal at h
  split at h
  · rename_i p' a pl heq
    simp only [Option.some.injEq] at h; subst h
    exact ⟨pl, by rw [heq]⟩
  · simp at h

theorem allocVal_none {p : PA} {d : Nat} {f : Bool} (h : (allocVal p d f).2 = none) :
    ∀ a pl, (Dist.Session.alloc p d f).2 ≠ .okAddr a pl := by
  unfold allocVal at h
  split at h
  · simp at h
  · rename_i p' o hno heq
    intro a pl he
    rw [heq] at he
    exact hno a pl he

/-- the facts about `allocVal` the loops use -/
theorem allocVal_facts (p : PA) (d : Nat) (f : Bool) :
    Ext d p (allocVal p d f).1 ∧
    (∀ v, (allocVal p d f).2 = some v → heldBy (allocVal p d f).1 d = some v) ∧
    ((allocVal p d f).2 = none → heldBy (allocVal p d f).1 d = heldBy p d) ∧
    (SInv p → SInv (allocVal p d f).1) := by
  obtain ⟨h1, h2, h3⟩ := alloc_facts p d f
  rw [allocVal_fst]
  refine ⟨h1, ?_, ?_, fun hI => Dist.Session.sinv_alloc hI d f⟩
  · intro v hv
    obtain ⟨pl, hpl⟩ := allocVal_some hv
    exact h2 v pl hpl
  · intro hn
    exact heldBy_same h1.cfg (h3 (allocVal_none hn))

/-- PoolAllocator.Release as the server uses it -/
theorem relVal_facts (p : PA) (d : Nat) (f : Bool) :
    Ext d p (relVal p d f).1 ∧
    ((relVal p d f).2 = true → heldBy (relVal p d f).1 d = none) ∧
    ((relVal p d f).2 = false → (relVal p d f).1 = p ∧ f = true) ∧
    (SInv p → SInv (relVal p d f).1) := by
  unfold relVal Dist.Session.release Dist.Session.holds
  cases hk : AMap.lookup p.a.allocated d with
  | none =>
    simp only [Option.isSome_none, Bool.not_false, if_true]
    refine ⟨Ext.refl d p, ?_, ?_, id⟩
    · intro _; unfold heldBy; rw [hk]; rfl
    · intro h; simp at h
  | some i =>
    simp only [Option.isSome_some, Bool.not_true, Bool.false_eq_true, if_false]
    cases f with
    | true =>
      simp only [if_true]
      refine ⟨Ext.refl d p, ?_, ?_, id⟩
      · intro h; simp at h
      · intro _; simp
    | false =>
      simp only [Bool.false_eq_true, if_false]
      refine ⟨⟨?_, ?_⟩, ?_, ?_, ?_⟩
      · intro d' hne
        show AMap.lookup (Bitmap.release p.a d).1.allocated d' = _
        rw [release_lookup]; simp [hne]
      · show (Bitmap.release p.a d).1.cfg = _
        exact release_cfg p.a d
      · intro _
        unfold heldBy
        show (AMap.lookup (Bitmap.release p.a d).1.allocated d).map _ = none
        rw [release_lookup]; simp
      · intro h; simp at h
      · intro hI
        have := Dist.Session.sinv_release hI d false
        unfold Dist.Session.release Dist.Session.holds at this
        simpa [hk] using this

/-! ### the IA loops -/

theorem advIAs_facts (d : Nat) (f : Bool) : ∀ (ias : List Nat) (p : PA),
    Ext d p (advIAs p d f ias).1 ∧ (SInv p → SInv (advIAs p d f ias).1) := by
  intro ias
  induction ias with
  | nil => intro p; exact ⟨Ext.refl d p, id⟩
  | cons iaid rest ih =>
    intro p
    obtain ⟨he, _, _, hs⟩ := allocVal_facts p d f
    unfold advIAs
    split
    · rename_i p' v heq
      have e1 : (allocVal p d f).1 = p' := by rw [heq]
      rw [e1] at he hs
      obtain ⟨he', hs'⟩ := ih p'
      exact ⟨he.trans he', fun hI => hs' (hs hI)⟩
    · rename_i p' heq
      have e1 : (allocVal p d f).1 = p' := by rw [heq]
      rw [e1] at he hs
      obtain ⟨he', hs'⟩ := ih p'
      exact ⟨he.trans he', fun hI => hs' (hs hI)⟩

/-- the IA_NA loop of buildReply: other clients untouched, the prefix field of the lease untouched, and the lease's
    address field follows what the allocator holds for the client -/
theorem replyNAs_facts (d now valid : Nat) (f : Bool) : ∀ (ias : List Nat) (p : PA) (l : Lease),
    Ext d p (replyNAs p d now valid f l ias).1 ∧
    (SInv p → SInv (replyNAs p d now valid f l ias).1) ∧
    (replyNAs p d now valid f l ias).2.1.pfx = l.pfx ∧
    ((∀ a, l.addr = some a → heldBy p d = some a) →
      ∀ a, (replyNAs p d now valid f l ias).2.1.addr = some a → heldBy (replyNAs p d now valid f l ias).1 d = some a) ∧
    (l.addr = heldBy p d → (replyNAs p d now valid f l ias).2.1.addr = heldBy (replyNAs p d now valid f l ias).1 d) := by
  intro ias
  induction ias with
  | nil => intro p l; exact ⟨Ext.refl d p, id, rfl, id, id⟩
  | cons iaid rest ih =>
    intro p l
    obtain ⟨he, hsome, hnone, hs⟩ := allocVal_facts p d f
    unfold replyNAs
    split
    · rename_i p' v heq
      have e1 : (allocVal p d f).1 = p' := by rw [heq]
      have e2 : (allocVal p d f).2 = some v := by rw [heq]
      rw [e1] at he hs hsome
      have hv := hsome v e2
      obtain ⟨he', hs', hp', hb', hq'⟩ := ih p' { l with addr := some v, iaid := iaid, validEnd := some (now + valid) }
      refine ⟨he.trans he', fun hI => hs' (hs hI), hp', ?_, ?_⟩
      · intro _
        exact hb' (by intro a ha; simp only [Option.some.injEq] at ha; subst ha; exact hv)
      · intro _
        exact hq' (by simp only; exact hv.symm)
    · rename_i p' heq
      have e1 : (allocVal p d f).1 = p' := by rw [heq]
      have e2 : (allocVal p d f).2 = none := by rw [heq]
      rw [e1] at he hs hnone
      have hh := hnone e2
      obtain ⟨he', hs', hp', hb', hq'⟩ := ih p' l
      refine ⟨he.trans he', fun hI => hs' (hs hI), hp', ?_, ?_⟩
      · intro hb
        exact hb' (by intro a ha; rw [hh]; exact hb a ha)
      · intro hq
        exact hq' (by rw [hh]; exact hq)

theorem replyPDs_facts (d : Nat) (f : Bool) : ∀ (ias : List Nat) (p : PA) (l : Lease),
    Ext d p (replyPDs p d f l ias).1 ∧
    (SInv p → SInv (replyPDs p d f l ias).1) ∧
    (replyPDs p d f l ias).2.1.addr = l.addr ∧
    ((∀ a, l.pfx = some a → heldBy p d = some a) →
      ∀ a, (replyPDs p d f l ias).2.1.pfx = some a → heldBy (replyPDs p d f l ias).1 d = some a) ∧
    (l.pfx = heldBy p d → (replyPDs p d f l ias).2.1.pfx = heldBy (replyPDs p d f l ias).1 d) := by
  intro ias
  induction ias with
  | nil => intro p l; exact ⟨Ext.refl d p, id, rfl, id, id⟩
  | cons iaid rest ih =>
    intro p l
    obtain ⟨he, hsome, hnone, hs⟩ := allocVal_facts p d f
    unfold replyPDs
    split
    · rename_i p' v heq
      have e1 : (allocVal p d f).1 = p' := by rw [heq]
      have e2 : (allocVal p d f).2 = some v := by rw [heq]
      rw [e1] at he hs hsome
      have hv := hsome v e2
      obtain ⟨he', hs', hp', hb', hq'⟩ := ih p' { l with pfx := some v }
      refine ⟨he.trans he', fun hI => hs' (hs hI), hp', ?_, ?_⟩
      · intro _
        exact hb' (by intro a ha; simp only [Option.some.injEq] at ha; subst ha; exact hv)
      · intro _
        exact hq' (by simp only; exact hv.symm)
    · rename_i p' heq
      have e1 : (allocVal p d f).1 = p' := by rw [heq]
      have e2 : (allocVal p d f).2 = none := by rw [heq]
      rw [e1] at he hs hnone
      have hh := hnone e2
      obtain ⟨he', hs', hp', hb', hq'⟩ := ih p' l
      refine ⟨he.trans he', fun hI => hs' (hs hI), hp', ?_, ?_⟩
      · intro hb
        exact hb' (by intro a ha; rw [hh]; exact hb a ha)
      · intro hq
        exact hq' (by rw [hh]; exact hq)

/-- Allocate is idempotent per client -/
theorem allocVal_idem {p : PA} {d : Nat} {f : Bool} {a v : Nat} (h : heldBy p d = some a) (e : (allocVal p d f).2 = some v) :
    v = a := by
  obtain ⟨pl, hpl⟩ := allocVal_some e
  unfold heldBy at h
  cases hk : AMap.lookup p.a.allocated d with
  | none => rw [hk] at h; simp at h
  | some i =>
    rw [hk] at h
    simp only [Option.map_some, Option.some.injEq] at h
    unfold Dist.Session.alloc Dist.Session.holds at hpl
    have ha : Bitmap.alloc p.a d = (p.a, .okAddr (prefixOf p.a.cfg i)) := by
      unfold Bitmap.alloc; rw [hk]
    rw [ha] at hpl
    cases f with
    | true => simp [hk] at hpl
    | false =>
      simp only [Bool.false_eq_true, if_false, Dist.Obs.okAddr.injEq] at hpl
      rw [← hpl.1, h]

/-- an Allocate never changes what a client that already holds a value holds -/
theorem allocVal_keeps {p : PA} {d : Nat} {f : Bool} {a : Nat} (h : heldBy p d = some a) :
    heldBy (allocVal p d f).1 d = some a := by
  obtain ⟨_, hsome, hnone, _⟩ := allocVal_facts p d f
  cases e : (allocVal p d f).2 with
  | none => rw [hnone e]; exact h
  | some v =>
    have hv := hsome v e
    have : v = a := allocVal_idem h e
    rw [hv, this]

/-- an Advertise never changes what a client that already holds a value holds -/
theorem advIAs_keeps (d : Nat) (f : Bool) : ∀ (ias : List Nat) (p : PA) (a : Nat), heldBy p d = some a →
    heldBy (advIAs p d f ias).1 d = some a := by
  intro ias
  induction ias with
  | nil => intro p a h; exact h
  | cons iaid rest ih =>
    intro p a h
    have hkeep := allocVal_keeps (f := f) h
    unfold advIAs
    split
    · rename_i p' v heq
      have e1 : (allocVal p d f).1 = p' := by rw [heq]
      rw [e1] at hkeep
      exact ih p' a hkeep
    · rename_i p' heq
      have e1 : (allocVal p d f).1 = p' := by rw [heq]
      rw [e1] at hkeep
      exact ih p' a hkeep

/-! ### the invariant -/

/-- What holds of every reachable server state: both allocators are consistent with their store (Dist.Session.SInv),
    and every value a lease records is the allocator's allocation of that very client. -/
structure Inv (s : State) : Prop where
  sa : SInv s.aa
  sp : SInv s.pa
  backedA : ∀ d l a, AMap.lookup s.leases d = some l → l.addr = some a → heldBy s.aa d = some a
  backedP : ∀ d l a, AMap.lookup s.leases d = some l → l.pfx = some a → heldBy s.pa d = some a

/-- the converse, true as long as no Advertise allocated anything (finding D8 is its complement): whatever an
    allocator holds for a client is recorded by that client's lease -/
structure Rec (s : State) : Prop where
  recA : ∀ d a, heldBy s.aa d = some a → ∃ l, AMap.lookup s.leases d = some l ∧ l.addr = some a
  recP : ∀ d a, heldBy s.pa d = some a → ∃ l, AMap.lookup s.leases d = some l ∧ l.pfx = some a

/-- the configurations the theorems are about: fewer than 2^64 units per pool (NewIPAllocator's bitmap index) -/
def GoodCfg (c : Cfg) : Prop := c.acfg.plen - c.acfg.poolPrefix < 64 ∧ c.pcfg.plen - c.pcfg.poolPrefix < 64

theorem inv_init (c : Cfg) (hc : GoodCfg c) : Inv (init c) :=
  ⟨Dist.Session.sinv_init c.acfg hc.1, Dist.Session.sinv_init c.pcfg hc.2,
   by intro d l a h; simp [init] at h, by intro d l a h; simp [init] at h⟩

theorem rec_init (c : Cfg) : Rec (init c) :=
  ⟨by intro d a h; simp [init, heldBy, Dist.Session.init, Bitmap.init] at h,
   by intro d a h; simp [init, heldBy, Dist.Session.init, Bitmap.init] at h⟩

/-- both halves of buildReply, for the invariant -/
theorem inv_buildReply {s : State} (hI : Inv s) (d : Nat) (ianas iapds : List Nat) (rapid : Bool) :
    Inv (buildReply s d ianas iapds rapid).1 := by
  unfold buildReply
  have hl0A : ∀ a, ((AMap.lookup s.leases d).getD {}).addr = some a → heldBy s.aa d = some a := by
    intro a ha
    cases e : AMap.lookup s.leases d with
    | none => rw [e] at ha; simp at ha
    | some l => rw [e] at ha; exact hI.backedA d l a e ha
  have hl0P : ∀ a, ((AMap.lookup s.leases d).getD {}).pfx = some a → heldBy s.pa d = some a := by
    intro a ha
    cases e : AMap.lookup s.leases d with
    | none => rw [e] at ha; simp at ha
    | some l => rw [e] at ha; exact hI.backedP d l a e ha
  -- the IA_NA half
  have hA : Ext d s.aa (naPart s d ((AMap.lookup s.leases d).getD {}) ianas).1 ∧
      (SInv (naPart s d ((AMap.lookup s.leases d).getD {}) ianas).1) ∧
      (naPart s d ((AMap.lookup s.leases d).getD {}) ianas).2.1.pfx = ((AMap.lookup s.leases d).getD {}).pfx ∧
      (∀ a, (naPart s d ((AMap.lookup s.leases d).getD {}) ianas).2.1.addr = some a →
        heldBy (naPart s d ((AMap.lookup s.leases d).getD {}) ianas).1 d = some a) := by
    unfold naPart
    split
    · obtain ⟨h1, h2, h3, h4, _⟩ := replyNAs_facts d s.now s.cfg.valid s.failSave ianas s.aa ((AMap.lookup s.leases d).getD {})
      exact ⟨h1, h2 hI.sa, h3, h4 hl0A⟩
    · exact ⟨Ext.refl d s.aa, hI.sa, rfl, hl0A⟩
  obtain ⟨hAe, hAs, hApfx, hAb⟩ := hA
  have hP : Ext d s.pa (pdPart s d (naPart s d ((AMap.lookup s.leases d).getD {}) ianas).2.1 iapds).1 ∧
      (SInv (pdPart s d (naPart s d ((AMap.lookup s.leases d).getD {}) ianas).2.1 iapds).1) ∧
      (pdPart s d (naPart s d ((AMap.lookup s.leases d).getD {}) ianas).2.1 iapds).2.1.addr =
        (naPart s d ((AMap.lookup s.leases d).getD {}) ianas).2.1.addr ∧
      (∀ a, (pdPart s d (naPart s d ((AMap.lookup s.leases d).getD {}) ianas).2.1 iapds).2.1.pfx = some a →
        heldBy (pdPart s d (naPart s d ((AMap.lookup s.leases d).getD {}) ianas).2.1 iapds).1 d = some a) := by
    have hl1P : ∀ a, (naPart s d ((AMap.lookup s.leases d).getD {}) ianas).2.1.pfx = some a → heldBy s.pa d = some a := by
      intro a ha; rw [hApfx] at ha; exact hl0P a ha
    unfold pdPart
    split
    · obtain ⟨h1, h2, h3, h4, _⟩ := replyPDs_facts d s.failSave iapds s.pa (naPart s d ((AMap.lookup s.leases d).getD {}) ianas).2.1
      exact ⟨h1, h2 hI.sp, h3, h4 hl1P⟩
    · exact ⟨Ext.refl d s.pa, hI.sp, rfl, hl1P⟩
  obtain ⟨hPe, hPs, hPaddr, hPb⟩ := hP
  refine ⟨hAs, hPs, ?_, ?_⟩
  · intro d' l a hl ha
    simp only [lookup_insert] at hl
    split at hl
    · rename_i e
      simp only [Option.some.injEq] at hl; subst hl; subst e
      rw [hPaddr] at ha
      exact hAb a ha
    · rename_i e
      show heldBy (naPart s d ((AMap.lookup s.leases d).getD {}) ianas).1 d' = some a
      rw [heldBy_other hAe e]
      exact hI.backedA d' l a hl ha
  · intro d' l a hl ha
    simp only [lookup_insert] at hl
    split at hl
    · rename_i e
      simp only [Option.some.injEq] at hl; subst hl; subst e
      exact hPb a ha
    · rename_i e
      show heldBy (pdPart s d (naPart s d ((AMap.lookup s.leases d).getD {}) ianas).2.1 iapds).1 d' = some a
      rw [heldBy_other hPe e]
      exact hI.backedP d' l a hl ha

theorem inv_buildAdvertise {s : State} (hI : Inv s) (d : Nat) (ianas iapds : List Nat) :
    Inv (buildAdvertise s d ianas iapds).1 := by
  unfold buildAdvertise
  have hA : Ext d s.aa (if s.cfg.hasAddr then advIAs s.aa d s.failSave ianas else (s.aa, [])).1 ∧
      SInv (if s.cfg.hasAddr then advIAs s.aa d s.failSave ianas else (s.aa, [])).1 := by
    split
    · obtain ⟨h1, h2⟩ := advIAs_facts d s.failSave ianas s.aa; exact ⟨h1, h2 hI.sa⟩
    · exact ⟨Ext.refl d s.aa, hI.sa⟩
  have hP : Ext d s.pa (if s.cfg.hasPfx then advIAs s.pa d s.failSave iapds else (s.pa, [])).1 ∧
      SInv (if s.cfg.hasPfx then advIAs s.pa d s.failSave iapds else (s.pa, [])).1 := by
    split
    · obtain ⟨h1, h2⟩ := advIAs_facts d s.failSave iapds s.pa; exact ⟨h1, h2 hI.sp⟩
    · exact ⟨Ext.refl d s.pa, hI.sp⟩
  refine ⟨hA.2, hP.2, ?_, ?_⟩
  · intro d' l a hl ha
    have hb := hI.backedA d' l a hl ha
    show heldBy (if s.cfg.hasAddr then advIAs s.aa d s.failSave ianas else (s.aa, [])).1 d' = some a
    by_cases e : d' = d
    · -- the client's own allocation: an Allocate for a client that holds a value leaves it in place
      subst e
      split
      · exact advIAs_keeps d' s.failSave ianas s.aa a hb
      · exact hb
    · rw [heldBy_other hA.1 e]; exact hb
  · intro d' l a hl ha
    have hb := hI.backedP d' l a hl ha
    show heldBy (if s.cfg.hasPfx then advIAs s.pa d s.failSave iapds else (s.pa, [])).1 d' = some a
    by_cases e : d' = d
    · subst e
      split
      · exact advIAs_keeps d' s.failSave iapds s.pa a hb
      · exact hb
    · rw [heldBy_other hP.1 e]; exact hb

/-- one half of handleRelease: the allocator call is made only when the lease records a value -/
theorem relPart_facts (p : PA) (d : Nat) (f b : Bool) :
    Ext d p (relPart p d f b).1 ∧
    (SInv p → SInv (relPart p d f b).1) ∧
    ((relPart p d f b).2 = false → (relPart p d f b).1 = p ∧ b = true ∧ f = true) ∧
    ((relPart p d f b).2 = true → b = true → heldBy (relPart p d f b).1 d = none) ∧
    (b = false → (relPart p d f b).1 = p) := by
  unfold relPart
  cases b with
  | false => simp [Ext.refl]
  | true =>
    obtain ⟨h1, h2, h3, h4⟩ := relVal_facts p d f
    simp only [if_true]
    refine ⟨h1, h4, ?_, fun h _ => h2 h, by simp⟩
    intro h
    exact ⟨(h3 h).1, by simp, (h3 h).2⟩

theorem inv_finishRelease {s : State} (hI : Inv s) (d : Nat) (l : Lease) (hl : AMap.lookup s.leases d = some l)
    (A P : PA × Bool) (hAe : Ext d s.aa A.1) (hPe : Ext d s.pa P.1) (hAs : SInv A.1) (hPs : SInv P.1)
    (hAf : A.2 = false → A.1 = s.aa) (hPf : P.2 = false → P.1 = s.pa) :
    Inv (finishRelease s d l A P).1 := by
  unfold finishRelease
  split
  · -- everything released: the lease goes
    refine ⟨hAs, hPs, ?_, ?_⟩
    · intro d' l' a h ha
      simp only [lookup_erase] at h
      split at h
      · simp at h
      · rename_i e
        show heldBy A.1 d' = some a
        rw [heldBy_other hAe e]; exact hI.backedA d' l' a h ha
    · intro d' l' a h ha
      simp only [lookup_erase] at h
      split at h
      · simp at h
      · rename_i e
        show heldBy P.1 d' = some a
        rw [heldBy_other hPe e]; exact hI.backedP d' l' a h ha
  · -- something could not be released: the lease stays with exactly what is still allocated
    refine ⟨hAs, hPs, ?_, ?_⟩
    · intro d' l' a h ha
      simp only [lookup_insert] at h
      show heldBy A.1 d' = some a
      split at h
      · rename_i e
        simp only [Option.some.injEq] at h; subst h; subst e
        simp only at ha
        split at ha
        · simp at ha
        · rename_i hf
          rw [hAf (by simpa using hf)]
          exact hI.backedA d' l a hl ha
      · rename_i e
        rw [heldBy_other hAe e]; exact hI.backedA d' l' a h ha
    · intro d' l' a h ha
      simp only [lookup_insert] at h
      show heldBy P.1 d' = some a
      split at h
      · rename_i e
        simp only [Option.some.injEq] at h; subst h; subst e
        simp only at ha
        split at ha
        · simp at ha
        · rename_i hf
          rw [hPf (by simpa using hf)]
          exact hI.backedP d' l a hl ha
      · rename_i e
        rw [heldBy_other hPe e]; exact hI.backedP d' l' a h ha

theorem inv_release {s : State} (hI : Inv s) (d : Nat) : Inv (release s d).1 := by
  unfold release
  split
  · exact hI
  · split
    · exact hI
    · rename_i l hl
      obtain ⟨hAe, hAs, hAf, _, _⟩ := relPart_facts s.aa d s.failRelA l.addr.isSome
      obtain ⟨hPe, hPs, hPf, _, _⟩ := relPart_facts s.pa d s.failRelP l.pfx.isSome
      exact inv_finishRelease hI d l hl _ _ hAe hPe (hAs hI.sa) (hPs hI.sp) (fun h => (hAf h).1) (fun h => (hPf h).1)

theorem inv_stepMsg {s : State} (hI : Inv s) (o : Dhcp6.Op) : Inv (stepMsg s o).1 := by
  cases o with
  | solicit d r a p =>
    simp only [stepMsg, solicit]
    split
    · exact hI
    · split
      · exact inv_buildReply hI d a p true
      · exact inv_buildAdvertise hI d a p
  | request d sid a p =>
    simp only [stepMsg, request]
    split
    · exact hI
    · split
      · exact hI
      · exact inv_buildReply hI d a p false
  | renew d a p =>
    simp only [stepMsg, renew]
    split
    · exact hI
    · split
      · exact hI
      · exact inv_buildReply hI d a p false
  | rebind d a p =>
    simp only [stepMsg, renew]
    split
    · exact hI
    · split
      · exact hI
      · exact inv_buildReply hI d a p false
  | confirm d addrs =>
    simp only [stepMsg, confirm]
    split <;> exact hI
  | release d => exact inv_release hI d
  | decline d => exact inv_release hI d
  | advance dt => exact ⟨hI.sa, hI.sp, hI.backedA, hI.backedP⟩

theorem inv_step {s : State} (hI : Inv s) (op : Op) : Inv (step s op).1 := by
  cases op with
  | msg o => exact inv_stepMsg hI o
  | fault f on =>
    cases f <;> exact ⟨hI.sa, hI.sp, hI.backedA, hI.backedP⟩

theorem run_cons (s : State) (op : Op) (ops : List Op) : run s (op :: ops) = run (step s op).1 ops := rfl

theorem inv_run : ∀ (ops : List Op) (s : State), Inv s → Inv (run s ops) := by
  intro ops
  induction ops with
  | nil => intro s h; exact h
  | cons op ops ih => intro s h; rw [run_cons]; exact ih _ (inv_step h op)

/-! ### histories without Advertise-only allocations -/

/-- the operation is not a SOLICIT answered by an Advertise (the one path that allocates without a lease: D8) -/
def noAdvertise : Op → Bool
  | .msg (.solicit _ rapid _ _) => rapid
  | _ => true

/-- lease field and allocator agree for a client (both directions) -/
theorem agree_of {s : State} (hI : Inv s) (hR : Rec s) (d : Nat) :
    ((AMap.lookup s.leases d).getD {}).addr = heldBy s.aa d ∧ ((AMap.lookup s.leases d).getD {}).pfx = heldBy s.pa d := by
  constructor
  · cases e : AMap.lookup s.leases d with
    | none =>
      simp only [Option.getD_none]
      cases h : heldBy s.aa d with
      | none => rfl
      | some a => obtain ⟨l, hl, _⟩ := hR.recA d a h; rw [e] at hl; simp at hl
    | some l =>
      simp only [Option.getD_some]
      cases ha : l.addr with
      | some a => exact (hI.backedA d l a e ha).symm
      | none =>
        cases h : heldBy s.aa d with
        | none => rfl
        | some a =>
          obtain ⟨l', hl', ha'⟩ := hR.recA d a h
          rw [e] at hl'; simp only [Option.some.injEq] at hl'; subst hl'
          rw [ha] at ha'; simp at ha'
  · cases e : AMap.lookup s.leases d with
    | none =>
      simp only [Option.getD_none]
      cases h : heldBy s.pa d with
      | none => rfl
      | some a => obtain ⟨l, hl, _⟩ := hR.recP d a h; rw [e] at hl; simp at hl
    | some l =>
      simp only [Option.getD_some]
      cases ha : l.pfx with
      | some a => exact (hI.backedP d l a e ha).symm
      | none =>
        cases h : heldBy s.pa d with
        | none => rfl
        | some a =>
          obtain ⟨l', hl', ha'⟩ := hR.recP d a h
          rw [e] at hl'; simp only [Option.some.injEq] at hl'; subst hl'
          rw [ha] at ha'; simp at ha'

theorem rec_buildReply {s : State} (hI : Inv s) (hR : Rec s) (d : Nat) (ianas iapds : List Nat) (rapid : Bool) :
    Rec (buildReply s d ianas iapds rapid).1 := by
  obtain ⟨hagA, hagP⟩ := agree_of hI hR d
  unfold buildReply
  have hA : Ext d s.aa (naPart s d ((AMap.lookup s.leases d).getD {}) ianas).1 ∧
      (naPart s d ((AMap.lookup s.leases d).getD {}) ianas).2.1.pfx = ((AMap.lookup s.leases d).getD {}).pfx ∧
      (naPart s d ((AMap.lookup s.leases d).getD {}) ianas).2.1.addr =
        heldBy (naPart s d ((AMap.lookup s.leases d).getD {}) ianas).1 d := by
    unfold naPart
    split
    · obtain ⟨h1, _, h3, _, h5⟩ := replyNAs_facts d s.now s.cfg.valid s.failSave ianas s.aa ((AMap.lookup s.leases d).getD {})
      exact ⟨h1, h3, h5 hagA⟩
    · exact ⟨Ext.refl d s.aa, rfl, hagA⟩
  obtain ⟨hAe, hApfx, hAeq⟩ := hA
  have hP : Ext d s.pa (pdPart s d (naPart s d ((AMap.lookup s.leases d).getD {}) ianas).2.1 iapds).1 ∧
      (pdPart s d (naPart s d ((AMap.lookup s.leases d).getD {}) ianas).2.1 iapds).2.1.addr =
        (naPart s d ((AMap.lookup s.leases d).getD {}) ianas).2.1.addr ∧
      (pdPart s d (naPart s d ((AMap.lookup s.leases d).getD {}) ianas).2.1 iapds).2.1.pfx =
        heldBy (pdPart s d (naPart s d ((AMap.lookup s.leases d).getD {}) ianas).2.1 iapds).1 d := by
    have h0 : (naPart s d ((AMap.lookup s.leases d).getD {}) ianas).2.1.pfx = heldBy s.pa d := by rw [hApfx]; exact hagP
    unfold pdPart
    split
    · obtain ⟨h1, _, h3, _, h5⟩ := replyPDs_facts d s.failSave iapds s.pa (naPart s d ((AMap.lookup s.leases d).getD {}) ianas).2.1
      exact ⟨h1, h3, h5 h0⟩
    · exact ⟨Ext.refl d s.pa, rfl, h0⟩
  obtain ⟨hPe, hPaddr, hPeq⟩ := hP
  constructor
  · intro d' a h
    have h' : heldBy (naPart s d ((AMap.lookup s.leases d).getD {}) ianas).1 d' = some a := h
    simp only [lookup_insert]
    split
    · rename_i e; subst e
      exact ⟨_, rfl, by rw [hPaddr, hAeq]; exact h'⟩
    · rename_i e
      rw [heldBy_other hAe e] at h'
      exact hR.recA d' a h'
  · intro d' a h
    have h' : heldBy (pdPart s d (naPart s d ((AMap.lookup s.leases d).getD {}) ianas).2.1 iapds).1 d' = some a := h
    simp only [lookup_insert]
    split
    · rename_i e; subst e
      exact ⟨_, rfl, by rw [hPeq]; exact h'⟩
    · rename_i e
      rw [heldBy_other hPe e] at h'
      exact hR.recP d' a h'

theorem rec_release {s : State} (_hI : Inv s) (hR : Rec s) (d : Nat) : Rec (release s d).1 := by
  unfold release
  split
  · exact hR
  · split
    · exact hR
    · rename_i l hl
      obtain ⟨hAe, _, hAf, hAt, hAn⟩ := relPart_facts s.aa d s.failRelA l.addr.isSome
      obtain ⟨hPe, _, hPf, hPt, hPn⟩ := relPart_facts s.pa d s.failRelP l.pfx.isSome
      -- what an allocator still holds for d after its half of the release is what the kept lease field says
      have keyA : ∀ a, heldBy (relPart s.aa d s.failRelA l.addr.isSome).1 d = some a →
          (relPart s.aa d s.failRelA l.addr.isSome).2 = false ∧ l.addr = some a := by
        intro a h
        cases h2 : (relPart s.aa d s.failRelA l.addr.isSome).2 with
        | false =>
          rw [(hAf h2).1] at h
          obtain ⟨l', hl', ha'⟩ := hR.recA d a h
          rw [hl] at hl'; simp only [Option.some.injEq] at hl'; subst hl'
          exact ⟨rfl, ha'⟩
        | true =>
          cases hb : l.addr.isSome with
          | true => rw [hAt h2 hb] at h; simp at h
          | false =>
            rw [hAn hb] at h
            obtain ⟨l', hl', ha'⟩ := hR.recA d a h
            rw [hl] at hl'; simp only [Option.some.injEq] at hl'; subst hl'
            rw [ha'] at hb; simp at hb
      have keyP : ∀ a, heldBy (relPart s.pa d s.failRelP l.pfx.isSome).1 d = some a →
          (relPart s.pa d s.failRelP l.pfx.isSome).2 = false ∧ l.pfx = some a := by
        intro a h
        cases h2 : (relPart s.pa d s.failRelP l.pfx.isSome).2 with
        | false =>
          rw [(hPf h2).1] at h
          obtain ⟨l', hl', ha'⟩ := hR.recP d a h
          rw [hl] at hl'; simp only [Option.some.injEq] at hl'; subst hl'
          exact ⟨rfl, ha'⟩
        | true =>
          cases hb : l.pfx.isSome with
          | true => rw [hPt h2 hb] at h; simp at h
          | false =>
            rw [hPn hb] at h
            obtain ⟨l', hl', ha'⟩ := hR.recP d a h
            rw [hl] at hl'; simp only [Option.some.injEq] at hl'; subst hl'
            rw [ha'] at hb; simp at hb
      generalize relPart s.aa d s.failRelA l.addr.isSome = A at *
      generalize relPart s.pa d s.failRelP l.pfx.isSome = P at *
      unfold finishRelease
      split
      · rename_i hok
        simp only [Bool.and_eq_true] at hok
        constructor
        · intro d' a h
          have h' : heldBy A.1 d' = some a := h
          by_cases e : d' = d
          · subst e
            have := (keyA a h').1
            rw [hok.1] at this; simp at this
          · rw [heldBy_other hAe e] at h'
            obtain ⟨l', hl', ha'⟩ := hR.recA d' a h'
            exact ⟨l', by simp only [lookup_erase, e, if_false]; exact hl', ha'⟩
        · intro d' a h
          have h' : heldBy P.1 d' = some a := h
          by_cases e : d' = d
          · subst e
            have := (keyP a h').1
            rw [hok.2] at this; simp at this
          · rw [heldBy_other hPe e] at h'
            obtain ⟨l', hl', ha'⟩ := hR.recP d' a h'
            exact ⟨l', by simp only [lookup_erase, e, if_false]; exact hl', ha'⟩
      · constructor
        · intro d' a h
          have h' : heldBy A.1 d' = some a := h
          by_cases e : d' = d
          · subst e
            obtain ⟨hf, ha⟩ := keyA a h'
            refine ⟨_, by simp only [lookup_insert_self]; rfl, ?_⟩
            simp only [hf, Bool.false_eq_true, if_false]; exact ha
          · rw [heldBy_other hAe e] at h'
            obtain ⟨l', hl', ha'⟩ := hR.recA d' a h'
            exact ⟨l', by simp only [lookup_insert, e, if_false]; exact hl', ha'⟩
        · intro d' a h
          have h' : heldBy P.1 d' = some a := h
          by_cases e : d' = d
          · subst e
            obtain ⟨hf, ha⟩ := keyP a h'
            refine ⟨_, by simp only [lookup_insert_self]; rfl, ?_⟩
            simp only [hf, Bool.false_eq_true, if_false]; exact ha
          · rw [heldBy_other hPe e] at h'
            obtain ⟨l', hl', ha'⟩ := hR.recP d' a h'
            exact ⟨l', by simp only [lookup_insert, e, if_false]; exact hl', ha'⟩

theorem rec_step {s : State} (hI : Inv s) (hR : Rec s) (op : Op) (hna : noAdvertise op = true) : Rec (step s op).1 := by
  cases op with
  | fault f on => cases f <;> exact ⟨hR.recA, hR.recP⟩
  | msg o =>
    cases o with
    | solicit d r a p =>
      simp only [noAdvertise] at hna
      subst hna
      simp only [step, stepMsg, solicit]
      split
      · exact hR
      · exact rec_buildReply hI hR d a p true
    | request d sid a p =>
      simp only [step, stepMsg, request]
      split
      · exact hR
      · split
        · exact hR
        · exact rec_buildReply hI hR d a p false
    | renew d a p =>
      simp only [step, stepMsg, renew]
      split
      · exact hR
      · split
        · exact hR
        · exact rec_buildReply hI hR d a p false
    | rebind d a p =>
      simp only [step, stepMsg, renew]
      split
      · exact hR
      · split
        · exact hR
        · exact rec_buildReply hI hR d a p false
    | confirm d addrs =>
      simp only [step, stepMsg, confirm]
      split <;> exact hR
    | release d => exact rec_release hI hR d
    | decline d => exact rec_release hI hR d
    | advance dt => exact ⟨hR.recA, hR.recP⟩

theorem rec_run : ∀ (ops : List Op) (s : State), Inv s → Rec s → (∀ op ∈ ops, noAdvertise op = true) → Rec (run s ops) := by
  intro ops
  induction ops with
  | nil => intro s _ h _; exact h
  | cons op ops ih =>
    intro s hI hR hna
    rw [run_cons]
    exact ih _ (inv_step hI op) (rec_step hI hR op (hna op (by simp))) (fun o ho => hna o (by simp [ho]))

/-- one value, one client: the allocator never holds the same value for two clients -/
theorem heldBy_inj {p : PA} (hI : SInv p) {d d' a : Nat} (h : heldBy p d = some a) (h' : heldBy p d' = some a) : d = d' := by
  unfold heldBy at h h'
  cases e : AMap.lookup p.a.allocated d with
  | none => rw [e] at h; simp at h
  | some i =>
    cases e' : AMap.lookup p.a.allocated d' with
    | none => rw [e'] at h'; simp at h'
    | some j =>
      rw [e] at h; rw [e'] at h'
      simp only [Option.map_some, Option.some.injEq] at h h'
      have hij : i = j := prefixOf_inj p.a.cfg (by rw [h, h'])
      subst hij
      have a1 := hI.inv.fwd d i e
      have a2 := hI.inv.fwd d' i e'
      rw [a1] at a2; simpa using a2

end Bng.Dhcp6Int
