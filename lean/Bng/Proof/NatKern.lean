import Bng.Proof.Nat44
import Bng.Model.NatKern
/-
  Helper lemmas for the kernel-level attribution theorems (`Bng.Spec.C10NatKern`): the port search of
  nat44.c stays inside the block and keeps its cursor inside, and `Attributable` is an invariant of every
  operation of the combined system (manager writes + programs).
-/
namespace Bng.NatKern
open Bng Bng.CNat Bng.Nat44

/-- the static part of a block (everything but the cursor) -/
def Static (b b' : SubNat) : Prop :=
  b'.publicIp = b.publicIp ∧ b'.portStart = b.portStart ∧ b'.portEnd = b.portEnd

theorem Static.refl (b : SubNat) : Static b b := ⟨rfl, rfl, rfl⟩
theorem Static.trans {a b c : SubNat} (h1 : Static a b) (h2 : Static b c) : Static a c :=
  ⟨h2.1.trans h1.1, h2.2.1.trans h1.2.1, h2.2.2.trans h1.2.2⟩

/-- a returned port is 0 (exhaustion) or inside the block -/
def PortIn (b : SubNat) (p : UInt16) : Prop := b.portStart.toNat ≤ p.toNat ∧ p.toNat ≤ b.portEnd.toNat

theorem allocStep_spec (eim : AMap EimKey EimMapping) (par : Bool) (op : UInt16) (ip : UInt32) (pr : UInt8)
    (b : SubNat) (hw : BlockWF b) :
    Static b (allocStep eim par op ip pr b).1 ∧ BlockWF (allocStep eim par op ip pr b).1 ∧
      ∀ p, (allocStep eim par op ip pr b).2 = some p → PortIn b p := by
  obtain ⟨h1, h2, h3⟩ := hw
  have he := UInt16.toNat_lt b.portEnd
  have hp0 : b.nextPort.toUInt16.toNat = b.nextPort.toNat := by
    rw [UInt32.toNat_toUInt16]; omega
  have hnp : (b.nextPort + 1).toNat = b.nextPort.toNat + 1 := by
    rw [UInt32.toNat_add]; simp; omega
  have hnot : ¬ (b.nextPort.toUInt16 > b.portEnd) := by
    intro h; have := UInt16.lt_iff_toNat_lt.mp h; omega
  -- the advanced block
  have hb' : ∀ np : UInt32, np = (if b.nextPort + 1 > b.portEnd.toUInt32 then b.portStart.toUInt32 else b.nextPort + 1) →
      BlockWF { b with nextPort := np } := by
    intro np hnp'
    subst hnp'
    refine ⟨h1, ?_, ?_⟩ <;> simp only <;> split
    · simp [UInt16.toNat_toUInt32]
    · omega
    · simp [UInt16.toNat_toUInt32]; omega
    · rename_i hgt
      have : ¬ (b.portEnd.toUInt32.toNat < (b.nextPort + 1).toNat) := fun h => hgt (UInt32.lt_iff_toNat_lt.mpr h)
      rw [UInt16.toNat_toUInt32] at this; omega
  unfold allocStep
  simp only [if_neg hnot]
  split
  · exact ⟨⟨rfl, rfl, rfl⟩, hb' _ rfl, fun p h => by cases h⟩
  · split
    · exact ⟨⟨rfl, rfl, rfl⟩, hb' _ rfl, fun p h => by cases h⟩
    · refine ⟨⟨rfl, rfl, rfl⟩, hb' _ rfl, fun p h => ?_⟩
      cases h
      exact ⟨by omega, by omega⟩

theorem allocLoop_spec (eim : AMap EimKey EimMapping) (par : Bool) (op : UInt16) (ip : UInt32) (pr : UInt8)
    (n : Nat) (b : SubNat) (hw : BlockWF b) :
    Static b (allocLoop eim par op ip pr n b).1 ∧ BlockWF (allocLoop eim par op ip pr n b).1 ∧
      ((allocLoop eim par op ip pr n b).2 = 0 ∨ PortIn b (allocLoop eim par op ip pr n b).2) := by
  induction n generalizing b with
  | zero => exact ⟨Static.refl b, hw, Or.inl rfl⟩
  | succ n ih =>
    obtain ⟨hs, hw', hp⟩ := allocStep_spec eim par op ip pr b hw
    unfold allocLoop
    split
    · rename_i b' p heq
      rw [heq] at hs hw' hp
      exact ⟨hs, hw', Or.inr (hp p rfl)⟩
    · rename_i b' heq
      rw [heq] at hs hw'
      obtain ⟨hs2, hw2, hp2⟩ := ih b' hw'
      refine ⟨hs.trans hs2, hw2, hp2.imp id fun h => ?_⟩
      unfold PortIn at *
      rw [← hs.2.1, ← hs.2.2]; exact h

theorem allocatePort_spec (eim : AMap EimKey EimMapping) (par : Bool) (op : UInt16) (ip : UInt32) (pr : UInt8)
    (b : SubNat) (hw : BlockWF b) :
    Static b (allocatePort eim par op ip pr b).1 ∧ BlockWF (allocatePort eim par op ip pr b).1 ∧
      ((allocatePort eim par op ip pr b).2 = 0 ∨ PortIn b (allocatePort eim par op ip pr b).2) :=
  allocLoop_spec eim par op ip pr 64 b hw


/-! ### association-list facts -/

theorem lookup_filter_key {κ ν : Type} [DecidableEq κ] (m : AMap κ ν) (p : κ → Bool) (k : κ) :
    AMap.lookup (m.filter (fun kv => p kv.1)) k = if p k then AMap.lookup m k else none := by
  induction m with
  | nil => simp
  | cons kv rest ih =>
    obtain ⟨a, b⟩ := kv
    by_cases hp : p a = true
    · simp only [List.filter_cons, hp, if_true, AMap.lookup_cons, ih]
      by_cases hk : a = k
      · subst hk; simp [hp]
      · simp [hk]
    · have hf : p a = false := by simpa using hp
      simp only [List.filter_cons, hf, Bool.false_eq_true, if_false, AMap.lookup_cons]
      by_cases hk : a = k
      · subst hk; rw [ih]; simp [hf]
      · rw [ih]; simp [hk]

theorem lookup_filter_val {κ ν : Type} [DecidableEq κ] (m : AMap κ ν) (q : κ × ν → Bool) (k : κ) (v : ν)
    (h : AMap.lookup (m.filter q) k = some v) : q (k, v) = true := by
  have := AMap.mem_of_lookup h
  exact (List.mem_filter.mp this).2

/-! ### attribution is stable under cursor movement -/

theorem inBlock_static {b b' : SubNat} {ip : UInt32} {port : UInt16} (hs : Static b b') (h : inBlock b ip port) :
    inBlock b' ip port := by
  obtain ⟨h1, p, hp, h2, h3⟩ := h
  exact ⟨by rw [hs.1]; exact h1, p, hp, by rw [hs.2.1]; exact h2, by rw [hs.2.2]; exact h3⟩

/-- replacing the block of `ip0` by one with the same static part keeps every block "the same" -/
theorem block_after {m : Maps} {ip0 : UInt32} {sub sub2 : SubNat} (h0 : AMap.lookup m.subNat ip0 = some sub)
    (hs : Static sub sub2) (ip : UInt32) (b : SubNat) (hb : AMap.lookup m.subNat ip = some b) :
    ∃ b', AMap.lookup (AMap.insert m.subNat ip0 sub2) ip = some b' ∧ Static b b' := by
  by_cases h : ip = ip0
  · subst h
    rw [h0] at hb; cases hb
    exact ⟨sub2, by simp, hs⟩
  · exact ⟨b, by rw [AMap.lookup_insert_ne _ _ h]; exact hb, Static.refl b⟩

/-- the maps after the block of `ip0` moved its cursor and the EIM table gained at most mappings of `ip0` inside
    the block -/
theorem attr_frame {m : Maps} (hm : Attributable m) {ip0 : UInt32} {sub sub2 : SubNat}
    (h0 : AMap.lookup m.subNat ip0 = some sub) (hs : Static sub sub2) (hw : BlockWF sub2)
    (eimT : AMap EimKey EimMapping)
    (he : ∀ k e, AMap.lookup eimT k = some e → AMap.lookup m.eim k = some e ∨
      (k.ip = ip0 ∧ e.extIp = sub2.publicIp ∧ PortIn sub2 e.extPort)) :
    Attributable { m with eim := eimT, subNat := AMap.insert m.subNat ip0 sub2 } := by
  constructor
  · intro k s hk
    obtain ⟨b, hb, hin⟩ := hm.sess k s hk
    obtain ⟨b', hb', hst⟩ := block_after h0 hs k.srcIp b hb
    exact ⟨b', hb', inBlock_static hst hin⟩
  · intro k e hk
    rcases he k e hk with hold | ⟨hip, hx, hp⟩
    · obtain ⟨b, hb, h1, h2, h3⟩ := hm.eim k e hold
      obtain ⟨b', hb', hst⟩ := block_after h0 hs k.ip b hb
      exact ⟨b', hb', by rw [hst.1]; exact h1, by rw [hst.2.1]; exact h2, by rw [hst.2.2]; exact h3⟩
    · exact ⟨sub2, by simp [hip], hx, hp.1, hp.2⟩
  · intro ip b hb
    simp only [] at hb
    by_cases h : ip = ip0
    · subst h; simp at hb; subst hb; exact hw
    · rw [AMap.lookup_insert_ne _ _ h] at hb; exact hm.wf ip b hb

/-- adding (or refreshing) a session of `key` that uses a port of the current block of `key.srcIp` -/
theorem attr_session {m : Maps} (hm : Attributable m) (key : NatKey) (s : Session) (b : SubNat)
    (hb : AMap.lookup m.subNat key.srcIp = some b) (hin : inBlock b s.natIp s.natPort)
    (rev : AMap NatKey NatKey) :
    Attributable { m with sessions := AMap.insert m.sessions key s, reverse := rev } := by
  constructor
  · intro k s' hk
    simp only [] at hk
    by_cases h : k = key
    · subst h; simp at hk; subst hk; exact ⟨b, hb, hin⟩
    · rw [AMap.lookup_insert_ne _ _ h] at hk; exact hm.sess k s' hk
  · exact hm.eim
  · exact hm.wf

theorem attr_reverse {m : Maps} (hm : Attributable m) (rev : AMap NatKey NatKey) :
    Attributable { m with reverse := rev } := ⟨hm.sess, hm.eim, hm.wf⟩

/-! ### the manager's writes -/

theorem attr_install {m : Maps} (hm : Attributable m) (ip : UInt32) (b : SubNat) : Attributable (install m ip b) := by
  unfold install
  split
  · rename_i hg
    obtain ⟨hnone, hwf⟩ := hg
    have hne : ∀ ip', (AMap.lookup m.subNat ip').isSome → ip' ≠ ip := by
      intro ip' h1 h2; subst h2; simp [Option.isNone_iff_eq_none.mp hnone] at h1
    constructor
    · intro k s hk
      obtain ⟨b0, hb0, hin⟩ := hm.sess k s hk
      exact ⟨b0, by simp only []; rw [AMap.lookup_insert_ne _ _ (hne _ (by simp [hb0]))]; exact hb0, hin⟩
    · intro k e hk
      obtain ⟨b0, hb0, h⟩ := hm.eim k e hk
      exact ⟨b0, by simp only []; rw [AMap.lookup_insert_ne _ _ (hne _ (by simp [hb0]))]; exact hb0, h⟩
    · intro ip' b' hb'
      simp only [] at hb'
      by_cases h : ip' = ip
      · subst h; simp at hb'; subst hb'; exact hwf
      · rw [AMap.lookup_insert_ne _ _ h] at hb'; exact hm.wf ip' b' hb'
  · exact hm

theorem attr_release {m : Maps} (hm : Attributable m) (ip : UInt32) : Attributable (release m ip) := by
  unfold release
  constructor
  · intro k s hk
    simp only [] at hk
    rw [lookup_filter_key m.sessions (fun k => k.srcIp != ip)] at hk
    split at hk
    · rename_i hne
      obtain ⟨b, hb, hin⟩ := hm.sess k s hk
      have : k.srcIp ≠ ip := by simpa using hne
      exact ⟨b, by simp only []; rw [AMap.lookup_erase_ne _ this]; exact hb, hin⟩
    · cases hk
  · intro k e hk
    simp only [] at hk
    rw [lookup_filter_key m.eim (fun k => k.ip != ip)] at hk
    split at hk
    · rename_i hne
      obtain ⟨b, hb, h⟩ := hm.eim k e hk
      have : k.ip ≠ ip := by simpa using hne
      exact ⟨b, by simp only []; rw [AMap.lookup_erase_ne _ this]; exact hb, h⟩
    · cases hk
  · intro ip' b hb
    simp only [] at hb
    rw [AMap.lookup_erase] at hb
    split at hb
    · cases hb
    · exact hm.wf ip' b hb


/-! ### nat44_egress keeps attribution -/

theorem portIn_static {b b' : SubNat} {p : UInt16} (hs : Static b b') (h : PortIn b p) : PortIn b' p := by
  unfold PortIn at *; rw [hs.2.1, hs.2.2]; exact h

/-- the block moved at most its cursor, and the EIM table gained at most mappings of `ip` inside the block -/
structure ChooseOK (m : Maps) (ip : UInt32) (sub : SubNat) (eimT : AMap EimKey EimMapping) (sub' : SubNat) :
    Prop where
  st : Static sub sub'
  wf : BlockWF sub'
  eim : ∀ k e, AMap.lookup eimT k = some e → AMap.lookup m.eim k = some e ∨
    (k.ip = ip ∧ e.extIp = sub'.publicIp ∧ PortIn sub' e.extPort)

theorem ChooseOK.refl {m : Maps} {ip : UInt32} {sub : SubNat} (hw : BlockWF sub) : ChooseOK m ip sub m.eim sub :=
  ⟨Static.refl _, hw, fun _ _ h => Or.inl h⟩

theorem ChooseOK.move {m : Maps} {ip : UInt32} {sub sub1 sub2 : SubNat} {eimT : AMap EimKey EimMapping}
    (h : ChooseOK m ip sub eimT sub1) (hs : Static sub1 sub2) (hw : BlockWF sub2) : ChooseOK m ip sub eimT sub2 :=
  ⟨h.st.trans hs, hw, fun k e hk => (h.eim k e hk).imp id fun ⟨h1, h2, h3⟩ =>
    ⟨h1, by rw [hs.1]; exact h2, portIn_static hs h3⟩⟩

/-- what `get_eim_mapping` returns and leaves behind -/
theorem getEim_spec {m : Maps} (hm : Attributable m) {ip : UInt32} {sub : SubNat}
    (h0 : AMap.lookup m.subNat ip = some sub) (port : UInt16) (proto : UInt8)
    (r : AMap EimKey EimMapping × SubNat × Option EimMapping) (hr : getEim m ip port proto sub = r) :
    ChooseOK m ip sub r.1 r.2.1 ∧ (∀ e, r.2.2 = some e → e.extIp = r.2.1.publicIp ∧ PortIn r.2.1 e.extPort) := by
  have hw := hm.wf ip sub h0
  subst hr
  unfold getEim
  simp only []
  split
  · rename_i e he
    refine ⟨ChooseOK.refl hw, fun e' h => ?_⟩
    cases h
    obtain ⟨b, hb, h1, h2, h3⟩ := hm.eim _ _ he
    simp only [] at hb
    rw [h0] at hb; cases hb
    exact ⟨h1, h2, h3⟩
  · obtain ⟨hs, hw', hp⟩ := allocatePort_spec m.eim (m.cfgHas NAT_FLAG_PORT_PARITY) port ip proto sub hw
    split
    · exact ⟨(ChooseOK.refl hw).move hs hw', fun e h => by cases h⟩
    · rename_i hne
      have hin : PortIn sub (allocatePort m.eim (m.cfgHas NAT_FLAG_PORT_PARITY) port ip proto sub).2 := by
        rcases hp with h | h
        · simp [h] at hne
        · exact h
      refine ⟨⟨hs, hw', fun k e h => ?_⟩, fun e h => ?_⟩
      · simp only [] at h
        rw [AMap.lookup_insert] at h
        split at h
        · rename_i hk
          cases h
          exact Or.inr ⟨by rw [hk], rfl, portIn_static hs hin⟩
        · exact Or.inl h
      · cases h
        exact ⟨rfl, portIn_static hs hin⟩

/-- what the "new session" part chooses -/
theorem egressChoose_spec {m : Maps} (hm : Attributable m) {p : Pkt} {sub : SubNat}
    (h0 : AMap.lookup m.subNat p.saddr = some sub)
    (c : AMap EimKey EimMapping × SubNat × Option (UInt32 × UInt16)) (hc : egressChoose m p sub = c) :
    ChooseOK m p.saddr sub c.1 c.2.1 ∧ (∀ np, c.2.2 = some np → inBlock c.2.1 np.1 np.2) := by
  have hw := hm.wf _ sub h0
  subst hc
  unfold egressChoose
  simp only []
  generalize hrdef : (if m.cfgHas NAT_FLAG_EIM_ENABLED then getEim m p.saddr p.sport p.proto sub
    else (m.eim, sub, none)) = r
  have hr : ChooseOK m p.saddr sub r.1 r.2.1 ∧
      (∀ e, r.2.2 = some e → e.extIp = r.2.1.publicIp ∧ PortIn r.2.1 e.extPort) := by
    split at hrdef
    · exact getEim_spec hm h0 p.sport p.proto r hrdef
    · subst hrdef; exact ⟨ChooseOK.refl hw, fun e h => by cases h⟩
  obtain ⟨hok, hx1⟩ := hr
  split
  · rename_i e he
    obtain ⟨hx, hp⟩ := hx1 e he
    exact ⟨hok, fun np h => by cases h; exact ⟨hx, e.extPort, rfl, hp.1, hp.2⟩⟩
  · obtain ⟨hs2, hw2, hp2⟩ :=
      allocatePort_spec r.1 (m.cfgHas NAT_FLAG_PORT_PARITY) (bswap16 p.sport) p.saddr p.proto r.2.1 hok.wf
    split
    · exact ⟨hok.move hs2 hw2, fun np h => by cases h⟩
    · rename_i hne
      refine ⟨hok.move hs2 hw2, fun np h => ?_⟩
      cases h
      rcases hp2 with h | h
      · simp [h] at hne
      · exact ⟨rfl, _, rfl, (portIn_static hs2 h).1, (portIn_static hs2 h).2⟩

theorem attr_egressNat {m : Maps} (hm : Attributable m) (clk : UInt64) {p : Pkt} {sub : SubNat}
    (h0 : AMap.lookup m.subNat p.saddr = some sub) : Attributable (egressNat m clk p sub).1 := by
  unfold egressNat
  split
  · rename_i s hs
    obtain ⟨b, hb, hin⟩ := hm.sess _ _ hs
    exact attr_session hm (sessKey p) { s with lastSeen := clk } b hb hin m.reverse
  · obtain ⟨hok, hc⟩ := egressChoose_spec hm h0 _ rfl
    have h1 := attr_frame hm h0 hok.st hok.wf (egressChoose m p sub).1 hok.eim
    simp only []
    split
    · exact h1
    · rename_i np hnp
      exact attr_session h1 (sessKey p) _ (egressChoose m p sub).2.1 (by simp [sessKey]) (hc np hnp) _

/-- the maps nat44_egress leaves behind -/
theorem egress_maps {m : Maps} {clk : UInt64} {f : Frame} {o : Out} (h : egress m clk f = .ok o) :
    o.maps = m ∨ ∃ p sub, AMap.lookup m.subNat p.saddr = some sub ∧ o.maps = (egressNat m clk p sub).1 := by
  obtain ⟨r, hr, hgo⟩ := egressParse_spec m f
  unfold egress at h
  rw [hr] at h
  simp only [ok_bind] at h
  cases r with
  | pass ev => cases h; exact Or.inl rfl
  | go p sub =>
    obtain ⟨_, hsub, _⟩ := hgo p sub rfl
    refine Or.inr ⟨p, sub, hsub, ?_⟩
    simp only [] at h
    split at h
    · rename_i heq
      cases h; rw [heq]
    · rename_i heq
      cases hs : snat f f.length p.l4 _ _ with
      | error e => rw [hs] at h; cases h
      | ok f' => rw [hs] at h; cases h; rw [heq]

theorem attr_egress {m : Maps} (hm : Attributable m) {clk : UInt64} {f : Frame} {o : Out}
    (h : egress m clk f = .ok o) : Attributable o.maps := by
  rcases egress_maps h with h | ⟨p, sub, hsub, h⟩
  · rw [h]; exact hm
  · rw [h]; exact attr_egressNat hm clk hsub


/-! ### nat44_ingress keeps attribution -/

theorem attr_ingress {m : Maps} (hm : Attributable m) {clk : UInt64} {f : Frame} {o : Out}
    (h : ingress m clk f = .ok o) : Attributable o.maps := by
  unfold ingress at h
  cases hp : ingressParse f with
  | error e => rw [hp] at h; cases h
  | ok r =>
    rw [hp] at h
    simp only [ok_bind] at h
    cases r with
    | none => cases h; exact hm
    | some p =>
      simp only [] at h
      split at h
      · cases h; exact hm
      · split at h
        · cases h; exact attr_reverse hm _
        · rename_i orig _ _ s hs
          obtain ⟨b, hb, hin⟩ := hm.sess _ _ hs
          have hm' := attr_session hm orig { s with lastSeen := clk } b hb hin m.reverse
          cases ht : ingressTcpState f f.length p.l4 with
          | error e => rw [ht] at h; cases h
          | ok t =>
            rw [ht] at h
            simp only [ok_bind] at h
            cases t with
            | none => cases h; exact hm'
            | some fl =>
              simp only [] at h
              cases hd : dnat f f.length p.l4 s.origIp s.origPort with
              | error e => rw [hd] at h; cases h
              | ok f' => rw [hd] at h; cases h; exact hm'

/-! ### every history -/

theorem attr_step {m : Maps} (hm : Attributable m) (op : Op) : Attributable (step m op) := by
  cases op with
  | deallocFail ip => exact hm
  | alloc ip b => exact attr_install hm ip b
  | dealloc ip =>
    simp only [step]
    split
    · exact attr_release hm ip
    · exact hm
  | egress clk f =>
    simp only [step]
    split
    · rename_i o ho; exact attr_egress hm ho
    · exact hm
  | ingress clk f =>
    simp only [step]
    split
    · rename_i o ho; exact attr_ingress hm ho
    · exact hm

theorem attr_run {m : Maps} (hm : Attributable m) (ops : List Op) : Attributable (run m ops) := by
  induction ops generalizing m with
  | nil => exact hm
  | cons op rest ih => exact ih (attr_step hm op)

theorem attr_empty (cfg : Option UInt32) : Attributable { cfg := cfg } :=
  { sess := fun _ _ h => by simp at h, eim := fun _ _ h => by simp at h, wf := fun _ _ h => by simp at h }


/-! ### the monitor's Bool test is the Prop -/

theorem bswap16_bswap16 (p : UInt16) : bswap16 (bswap16 p) = p := by
  apply UInt16.toBitVec_inj.mp
  simp only [bswap16, UInt16.toBitVec_or, UInt16.toBitVec_shiftLeft, UInt16.toBitVec_shiftRight]
  generalize p.toBitVec = b
  ext i hi
  simp
  by_cases h : i < 8
  · have h2 : 8 + i < 16 := by omega
    have h3 : ¬ 8 + i < 8 := by omega
    have h4 : b.getLsbD (8 + (8 + i)) = false := BitVec.getLsbD_of_ge _ _ (by omega)
    simp [h, h2, h3, h4, BitVec.getLsbD_eq_getElem hi]
  · have h2 : ¬ 8 + i < 16 := by omega
    have h5 : 8 + (i - 8) = i := by omega
    have h4 : b.getLsbD (8 + (8 + i)) = false := BitVec.getLsbD_of_ge _ _ (by omega)
    have h6 : i - 8 < 8 := by omega
    simp [h, h2, h4, h5, h6, BitVec.getLsbD_eq_getElem hi]

theorem inBlockB_iff (b : SubNat) (ip : UInt32) (port : UInt16) : inBlockB b ip port = true ↔ inBlock b ip port := by
  unfold inBlockB inBlock
  simp only [Bool.and_eq_true, beq_iff_eq, decide_eq_true_eq]
  constructor
  · rintro ⟨⟨h1, h2⟩, h3⟩
    exact ⟨h1, bswap16 port, (bswap16_bswap16 port).symm, h2, h3⟩
  · rintro ⟨h1, p, hp, h2, h3⟩
    subst hp
    rw [bswap16_bswap16]
    exact ⟨⟨h1, h2⟩, h3⟩

/-- the translation nat44_egress decides on is recorded as the flow's session -/
theorem egressNat_session (m : Maps) (clk : UInt64) (p : Pkt) (sub : SubNat) (ip : UInt32) (port : UInt16)
    (h : (egressNat m clk p sub).2.1 = .nat ip port) :
    ∃ s, AMap.lookup (egressNat m clk p sub).1.sessions (sessKey p) = some s ∧ s.natIp = ip ∧ s.natPort = port := by
  unfold egressNat at h ⊢
  split
  · rename_i s hs
    rw [hs] at h
    simp only [] at h
    cases h
    exact ⟨{ s with lastSeen := clk }, by simp, rfl, rfl⟩
  · rename_i hs
    rw [hs] at h
    simp only [] at h ⊢
    split
    · rename_i hc; rw [hc] at h; cases h
    · rename_i np hc
      rw [hc] at h
      cases h
      exact ⟨{ natIp := np.1, natPort := np.2, origPort := p.sport, origIp := p.saddr, lastSeen := clk },
        by simp, rfl, rfl⟩

end Bng.NatKern
