import Bng.Model.Failover
/-
  Lemmas about the failover controller model (C14): timer bookkeeping, and the run invariant.
-/
namespace Bng.Failover

def isFo (e : Exec) : Bool := e.kind == .failover

/-! ## timer list bookkeeping: kind, generation and deadline of an instance never change -/

theorem mem_stopAll {k : TKind} {now : Nat} {ts : List Timer} {t : Timer} (h : t ∈ stopAll k now ts) :
    ∃ t0 ∈ ts, t.kind = t0.kind ∧ t.gen = t0.gen ∧ t.deadline = t0.deadline := by
  unfold stopAll at h
  simp only [List.mem_map] at h
  obtain ⟨t0, h0, rfl⟩ := h
  refine ⟨t0, h0, ?_⟩
  split <;> simp

theorem mem_markDelivered {ts : List Timer} {i : Nat} {t : Timer} (h : t ∈ markDelivered ts i) :
    ∃ t0 ∈ ts, t.kind = t0.kind ∧ t.gen = t0.gen ∧ t.deadline = t0.deadline := by
  induction ts generalizing i with
  | nil => simp [markDelivered] at h
  | cons a rest ih =>
    cases i with
    | zero =>
      simp only [markDelivered, List.mem_cons] at h
      rcases h with h | h
      · subst h; exact ⟨a, by simp, rfl, rfl, rfl⟩
      · exact ⟨t, by simp [h], rfl, rfl, rfl⟩
    | succ n =>
      simp only [markDelivered, List.mem_cons] at h
      rcases h with h | h
      · subst h; exact ⟨t, by simp, rfl, rfl, rfl⟩
      · obtain ⟨t0, h0, hh⟩ := ih h
        exact ⟨t0, by simp [h0], hh⟩

theorem gens_stopAll (k : TKind) (now : Nat) (ts : List Timer) :
    (stopAll k now ts).map (·.gen) = ts.map (·.gen) := by
  unfold stopAll
  rw [List.map_map]
  apply List.map_congr_left
  intro t _
  simp only [Function.comp]
  split <;> rfl

theorem gens_markDelivered (ts : List Timer) (i : Nat) :
    (markDelivered ts i).map (·.gen) = ts.map (·.gen) := by
  induction ts generalizing i with
  | nil => rfl
  | cons a rest ih =>
    cases i with
    | zero => simp [markDelivered]
    | succ n => simp [markDelivered, ih]

theorem countP_eraseIdx_pos {l : List Exec} {j : Nat} {e : Exec} (h : l[j]? = some e) (hp : isFo e = true) :
    (l.eraseIdx j).countP isFo + 1 = l.countP isFo := by
  induction l generalizing j with
  | nil => simp at h
  | cons a rest ih =>
    cases j with
    | zero =>
      simp only [List.getElem?_cons_zero, Option.some.injEq] at h
      subst h
      simp [List.eraseIdx, hp]
    | succ n =>
      simp only [List.getElem?_cons_succ] at h
      have := ih h
      simp only [List.eraseIdx, List.countP_cons]
      omega

theorem countP_eraseIdx_neg {l : List Exec} {j : Nat} {e : Exec} (h : l[j]? = some e) (hp : isFo e = false) :
    (l.eraseIdx j).countP isFo = l.countP isFo := by
  induction l generalizing j with
  | nil => simp at h
  | cons a rest ih =>
    cases j with
    | zero =>
      simp only [List.getElem?_cons_zero, Option.some.injEq] at h
      subst h
      simp [List.eraseIdx, hp]
    | succ n =>
      simp only [List.getElem?_cons_succ] at h
      have := ih h
      simp only [List.eraseIdx, List.countP_cons]
      omega

theorem mem_of_getElem?' {α : Type} {l : List α} {i : Nat} {a : α} (h : l[i]? = some a) : a ∈ l := by
  induction l generalizing i with
  | nil => simp at h
  | cons x rest ih =>
    cases i with
    | zero => simp at h; simp [h]
    | succ n => simp at h; exact List.mem_cons_of_mem _ (ih h)

theorem mem_eraseIdx' {α : Type} {l : List α} {i : Nat} {a : α} (h : a ∈ l.eraseIdx i) : a ∈ l :=
  (List.eraseIdx_sublist l i).subset h

/-! ## the run invariant -/

structure Inv (s : State) : Prop where
  gT : ∀ t ∈ s.timers, t.gen ≤ s.gen
  K  : s.state = .pending → s.healthy = false ∧ ∃ a, s.downSince = some a ∧
         ∀ t ∈ s.timers, t.kind = .failover → t.gen = s.gen → a + s.cfg.delay ≤ t.deadline
  R  : s.state = .pending ∨ s.state = .inProgress → s.role = .standby
  E1 : s.state = .inProgress → s.execs.countP isFo = 1
  E0 : s.state ≠ .inProgress → s.execs.countP isFo = 0
  F  : ∀ e ∈ s.execs, e.kind = .failover → e.forced = false →
         ∃ a, e.downSinceAtFire = some a ∧ a + s.cfg.delay ≤ e.firedAt
  L  : ∀ p ∈ s.autoLog, ∃ a, p.2 = some a ∧ a + s.cfg.delay ≤ p.1
  C  : s.completedEvents = s.promotions ∧ s.completed = s.promotions

theorem inv_init (c : Cfg) : Inv (init c) := by
  constructor <;> simp [init]

theorem inv_handleDown {s : State} (h : Inv s) (hh : s.healthy = true) :
    Inv (handleDown { s with healthy := false, downSince := some s.now }) := by
  unfold handleDown
  split
  · rename_i hc
    simp only at hc
    constructor
    · intro t ht
      simp only [List.mem_append, List.mem_singleton] at ht
      rcases ht with ht | ht
      · obtain ⟨t0, h0, _, hg, _⟩ := mem_stopAll ht
        have := h.gT t0 h0
        simp only; omega
      · subst ht; simp
    · intro _
      refine ⟨rfl, s.now, rfl, ?_⟩
      intro t ht _ hg
      simp only [List.mem_append, List.mem_singleton] at ht
      rcases ht with ht | ht
      · obtain ⟨t0, h0, _, hg0, _⟩ := mem_stopAll ht
        have := h.gT t0 h0
        simp only at hg
        omega
      · subst ht; simp
    · intro _; exact hc.1
    · intro hx; simp at hx
    · intro _; exact h.E0 (by rw [hc.2]; simp)
    · exact h.F
    · exact h.L
    · exact h.C
  · constructor
    · exact h.gT
    · intro hp
      have := (h.K hp).1
      rw [hh] at this; simp at this
    · exact h.R
    · exact h.E1
    · exact h.E0
    · exact h.F
    · exact h.L
    · exact h.C

theorem inv_down {s : State} (h : Inv s) : Inv (down s).1 := by
  unfold down
  split
  · rename_i hh; exact inv_handleDown h hh
  · exact h

theorem inv_up {s : State} (h : Inv s) : Inv (up s).1 := by
  unfold up
  split
  · exact h
  · unfold handleUp
    simp only
    split
    · -- pending: cancelled
      rename_i hp
      constructor
      · intro t ht
        obtain ⟨t0, h0, _, hg, _⟩ := mem_stopAll ht
        have := h.gT t0 h0
        simp only; omega
      · intro hx; simp at hx
      · intro hx; simp at hx
      · intro hx; simp at hx
      · intro _; exact h.E0 (by rw [hp]; simp)
      · exact h.F
      · exact h.L
      · exact h.C
    · split
      · rename_i hnp hc
        constructor
        · intro t ht
          simp only [List.mem_append, List.mem_singleton] at ht
          rcases ht with ht | ht
          · obtain ⟨t0, h0, _, hg, _⟩ := mem_stopAll ht
            have := h.gT t0 h0
            simp only; omega
          · subst ht; simp
        · intro hx; simp at hx
        · intro hx; simp at hx
        · intro hx; simp at hx
        · intro _; exact h.E0 (by rw [hc.1]; simp)
        · exact h.F
        · exact h.L
        · exact h.C
      · rename_i hnp _
        constructor
        · exact h.gT
        · intro hp; exact absurd hp hnp
        · exact h.R
        · exact h.E1
        · exact h.E0
        · exact h.F
        · exact h.L
        · exact h.C

theorem inv_tick {s : State} (h : Inv s) : Inv (tick s).1 := by
  unfold tick
  split
  · rename_i hc
    constructor
    · intro t ht
      obtain ⟨t0, h0, _, hg, _⟩ := mem_stopAll ht
      have := h.gT t0 h0
      simp only; omega
    · intro hx; simp at hx
    · intro hx; simp at hx
    · intro hx; simp at hx
    · intro _; exact h.E0 (by rw [hc.1]; simp)
    · exact h.F
    · exact h.L
    · exact h.C
  · exact h

theorem inv_advance {s : State} (h : Inv s) (dt : Nat) : Inv { s with now := s.now + dt } :=
  ⟨h.gT, h.K, h.R, h.E1, h.E0, h.F, h.L, h.C⟩

/-- marking an instance delivered touches nothing the invariant speaks about -/
theorem inv_mark {s : State} (h : Inv s) (i : Nat) : Inv { s with timers := markDelivered s.timers i } := by
  constructor
  · intro t ht
    obtain ⟨t0, h0, _, hg, _⟩ := mem_markDelivered ht
    have := h.gT t0 h0
    simp only; omega
  · intro hp
    obtain ⟨hh, a, ha, hall⟩ := h.K hp
    refine ⟨hh, a, ha, ?_⟩
    intro t ht hk hg
    obtain ⟨t0, h0, hk0, hg0, hd0⟩ := mem_markDelivered ht
    have := hall t0 h0 (by rw [← hk0]; exact hk) (by rw [← hg0]; exact hg)
    rw [hd0]; exact this
  · exact h.R
  · exact h.E1
  · exact h.E0
  · exact h.F
  · exact h.L
  · exact h.C

theorem inv_fire {s : State} (h : Inv s) (i : Nat) : Inv (fire s i).1 := by
  unfold fire
  split
  · exact h
  · rename_i t ht
    split
    · exact h
    · rename_i hen
      have hdue : t.deadline ≤ s.now := by
        simp only [not_or, Nat.not_lt] at hen; exact hen.2.2
      have htm : t ∈ s.timers := mem_of_getElem?' ht
      have hm := inv_mark h i
      simp only
      split
      · -- failover timer
        rename_i hk
        split
        · rename_i hc
          obtain ⟨hh, a, ha, hall⟩ := h.K hc.1
          have hdl := hall t htm hk hc.2
          constructor
          · exact hm.gT
          · intro hx; simp at hx
          · intro _; exact h.R (Or.inl hc.1)
          · intro _
            have := h.E0 (by rw [hc.1]; simp)
            simp [List.countP_append, List.countP_singleton, this, isFo]
          · intro hx; simp at hx
          · intro e he hke hf
            simp only [List.mem_append, List.mem_singleton] at he
            rcases he with he | he
            · exact h.F e he hke hf
            · subst he
              exact ⟨a, ha, by simp only; omega⟩
          · exact h.L
          · exact h.C
        · exact hm
      · -- failback timer
        split
        · rename_i hc
          split
          · constructor
            · exact hm.gT
            · intro hx; simp at hx
            · intro hx; simp at hx
            · intro hx; simp at hx
            · intro _; exact h.E0 (by rw [hc.1]; simp)
            · exact h.F
            · exact h.L
            · exact h.C
          · constructor
            · exact hm.gT
            · intro hx; simp only at hx; rw [hc.1] at hx; simp at hx
            · intro hx; simp only at hx; rw [hc.1] at hx; simp at hx
            · intro hx; simp only at hx; rw [hc.1] at hx; simp at hx
            · intro _
              have := h.E0 (by rw [hc.1]; simp)
              simp [List.countP_append, List.countP_singleton, this, isFo]
            · intro e he hke hf
              simp only [List.mem_append, List.mem_singleton] at he
              rcases he with he | he
              · exact h.F e he hke hf
              · subst he; simp at hke
            · exact h.L
            · exact h.C
        · exact hm

theorem inv_wake {s : State} (h : Inv s) (j : Nat) (ok : Bool) : Inv (wake s j ok).1 := by
  unfold wake
  split
  · exact h
  · rename_i e he
    split
    · exact h
    · have hem : e ∈ s.execs := mem_of_getElem?' he
      simp only
      split
      · -- failover execution
        rename_i hk
        have hfo : isFo e = true := by simp [isFo, hk]
        have hcnt := countP_eraseIdx_pos he hfo
        have hip : s.state = .inProgress := by
          apply Classical.byContradiction
          intro hn
          have := h.E0 hn
          omega
        have h1 := h.E1 hip
        have h0 : (s.execs.eraseIdx j).countP isFo = 0 := by omega
        have hrole := h.R (Or.inr hip)
        split
        · constructor
          · exact h.gT
          · intro hx; simp at hx
          · intro hx; simp at hx
          · intro hx; simp at hx
          · intro _; exact h0
          · intro e' he' ; exact h.F e' (mem_eraseIdx' he')
          · intro p hp
            simp only at hp
            split at hp
            · exact h.L p hp
            · rename_i hf
              simp only [List.mem_append, List.mem_singleton] at hp
              rcases hp with hp | hp
              · exact h.L p hp
              · subst hp
                exact h.F e hem hk (by simpa using hf)
          · have := h.C
            simp only
            omega
        · constructor
          · exact h.gT
          · intro hx; simp at hx
          · intro hx; simp at hx
          · intro hx; simp at hx
          · intro _; exact h0
          · intro e' he' ; exact h.F e' (mem_eraseIdx' he')
          · exact h.L
          · exact h.C
      · -- failback execution
        rename_i hk
        have hfo : isFo e = false := by simp [isFo, hk]
        have hcnt := countP_eraseIdx_neg he hfo
        have base : Inv { s with execs := s.execs.eraseIdx j } :=
          ⟨h.gT, h.K, h.R, fun hx => by rw [hcnt]; exact h.E1 hx, fun hx => by rw [hcnt]; exact h.E0 hx,
           fun e' he' => h.F e' (mem_eraseIdx' he'), h.L, h.C⟩
        split
        · exact base
        · rename_i hv
          simp only [ne_eq, not_or, Decidable.not_not] at hv
          have hst : s.state = .failbackPending := hv.1
          have hE0 : (s.execs.eraseIdx j).countP isFo = 0 := by
            rw [hcnt]; exact h.E0 (by rw [hst]; simp)
          split
          · constructor
            · exact h.gT
            · intro hx; simp at hx
            · intro hx; simp at hx
            · intro hx; simp at hx
            · intro _; exact hE0
            · exact base.F
            · exact h.L
            · exact h.C
          · split
            · constructor
              · exact h.gT
              · intro hx; simp at hx
              · intro hx; simp at hx
              · intro hx; simp at hx
              · intro _; exact hE0
              · exact base.F
              · exact h.L
              · exact h.C
            · constructor
              · exact h.gT
              · intro hx; simp at hx
              · intro hx; simp at hx
              · intro hx; simp at hx
              · intro _; exact hE0
              · exact base.F
              · exact h.L
              · exact h.C

theorem inv_forceFailover {s : State} (h : Inv s) : Inv (forceFailover s).1 := by
  unfold forceFailover
  split
  · exact h
  · rename_i hr
    split
    · exact h
    · rename_i hs
      constructor
      · intro t ht
        obtain ⟨t0, h0, _, hg, _⟩ := mem_stopAll ht
        have := h.gT t0 h0
        simp only; omega
      · intro hx; simp at hx
      · intro _
        cases hrole : s.role with
        | standby => rfl
        | active => exact absurd hrole hr
      · intro _
        have := h.E0 hs
        simp [List.countP_append, List.countP_singleton, this, isFo]
      · intro hx; simp at hx
      · intro e he hke hf
        simp only [List.mem_append, List.mem_singleton] at he
        rcases he with he | he
        · exact h.F e he hke hf
        · subst he; simp at hf
      · exact h.L
      · exact h.C

theorem inv_forceFailback {s : State} (h : Inv s) : Inv (forceFailback s).1 := by
  unfold forceFailback
  split <;> exact h

theorem inv_step {s : State} (h : Inv s) (op : Op) : Inv (step s op).1 := by
  cases op with
  | down => exact inv_down h
  | up => exact inv_up h
  | tick => exact inv_tick h
  | advance dt => exact inv_advance h dt
  | fire i => exact inv_fire h i
  | wake j ok => exact inv_wake h j ok
  | forceFailover => exact inv_forceFailover h
  | forceFailback => exact inv_forceFailback h

theorem inv_run {s : State} (h : Inv s) (ops : List Op) : Inv (run s ops) := by
  induction ops generalizing s with
  | nil => exact h
  | cons op rest ih => exact ih (inv_step h op)

/-! ## configuration, generation and timer identity along a run -/

theorem step_cfg (s : State) (op : Op) : (step s op).1.cfg = s.cfg := by
  cases op <;> simp only [step]
  · unfold down handleDown; (repeat' (first | split | (simp only; split))) <;> rfl
  · unfold up handleUp; (repeat' (first | split | (simp only; split))) <;> rfl
  · unfold tick; (repeat' (first | split | (simp only; split))) <;> rfl
  · unfold fire; (repeat' (first | split | (simp only; split))) <;> rfl
  · unfold wake; (repeat' (first | split | (simp only; split))) <;> rfl
  · unfold forceFailover; (repeat' (first | split | (simp only; split))) <;> rfl
  · unfold forceFailback; (repeat' (first | split | (simp only; split))) <;> rfl

theorem run_cfg (s : State) (ops : List Op) : (run s ops).cfg = s.cfg := by
  induction ops generalizing s with
  | nil => rfl
  | cons op rest ih => simp only [run, List.foldl_cons] at ih ⊢; rw [ih, step_cfg]

/-- a step never lowers the generation and never changes the generation of an existing timer instance -/
theorem step_gens (s : State) (op : Op) :
    s.gen ≤ (step s op).1.gen ∧ s.timers.map (·.gen) <+: (step s op).1.timers.map (·.gen) := by
  cases op <;> simp only [step]
  · unfold down handleDown
    split
    · split
      · simp only [List.map_append, gens_stopAll]
        exact ⟨by omega, List.prefix_append _ _⟩
      · exact ⟨Nat.le_refl _, List.prefix_refl _⟩
    · exact ⟨Nat.le_refl _, List.prefix_refl _⟩
  · unfold up handleUp
    split
    · exact ⟨Nat.le_refl _, List.prefix_refl _⟩
    · simp only
      split
      · simp only [gens_stopAll]
        exact ⟨by omega, List.prefix_refl _⟩
      · split
        · simp only [List.map_append, gens_stopAll]
          exact ⟨by omega, List.prefix_append _ _⟩
        · exact ⟨Nat.le_refl _, List.prefix_refl _⟩
  · unfold tick
    split
    · simp only [gens_stopAll]
      exact ⟨by omega, List.prefix_refl _⟩
    · exact ⟨Nat.le_refl _, List.prefix_refl _⟩
  · exact ⟨Nat.le_refl _, List.prefix_refl _⟩
  · unfold fire
    split
    · exact ⟨Nat.le_refl _, List.prefix_refl _⟩
    · split
      · exact ⟨Nat.le_refl _, List.prefix_refl _⟩
      · simp only
        split
        · split <;> simp only [gens_markDelivered] <;> exact ⟨Nat.le_refl _, List.prefix_refl _⟩
        · split
          · split <;> simp only [gens_markDelivered] <;> exact ⟨Nat.le_refl _, List.prefix_refl _⟩
          · simp only [gens_markDelivered]; exact ⟨Nat.le_refl _, List.prefix_refl _⟩
  · unfold wake
    split
    · exact ⟨Nat.le_refl _, List.prefix_refl _⟩
    · split
      · exact ⟨Nat.le_refl _, List.prefix_refl _⟩
      · simp only
        split
        · split <;> exact ⟨Nat.le_refl _, List.prefix_refl _⟩
        · split
          · exact ⟨Nat.le_refl _, List.prefix_refl _⟩
          · split
            · exact ⟨Nat.le_refl _, List.prefix_refl _⟩
            · split <;> exact ⟨Nat.le_refl _, List.prefix_refl _⟩
  · unfold forceFailover
    split
    · exact ⟨Nat.le_refl _, List.prefix_refl _⟩
    · split
      · exact ⟨Nat.le_refl _, List.prefix_refl _⟩
      · simp only [gens_stopAll]
        exact ⟨by omega, List.prefix_refl _⟩
  · unfold forceFailback
    split <;> exact ⟨Nat.le_refl _, List.prefix_refl _⟩

theorem run_gens (s : State) (ops : List Op) :
    s.gen ≤ (run s ops).gen ∧ s.timers.map (·.gen) <+: (run s ops).timers.map (·.gen) := by
  induction ops generalizing s with
  | nil => exact ⟨Nat.le_refl _, List.prefix_refl _⟩
  | cons op rest ih =>
    have h1 := step_gens s op
    have h2 := ih (step s op).1
    simp only [run, List.foldl_cons] at h2 ⊢
    exact ⟨Nat.le_trans h1.1 h2.1, List.IsPrefix.trans h1.2 h2.2⟩

end Bng.Failover
