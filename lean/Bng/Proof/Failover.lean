import Bng.Model.Failover
/-
  Lemmas about the failover controller model (C14): timer bookkeeping, and the run invariant.
-/
namespace Bng.Failover

def isFo (e : Exec) : Bool := e.kind == .failover

/-! ## timer list bookkeeping: kind, generation and deadline of an instance never change -/

theorem mem_stopAll {k : TKind} {now : Nat} {ts : List Timer} {t : Timer} (h : t ∈ stopAll k now ts) :
    ∃ t0 ∈ ts, t.kind = t0.kind ∧ t.gen = t0.gen ∧ t.deadline = t0.deadline := by
  unfold stopAll at h
  simp only [List.mem_map] at h
  obtain ⟨t0, h0, rfl⟩ := h
  refine ⟨t0, h0, ?_⟩
  split <;> simp

theorem mem_markDelivered {ts : List Timer} {i : Nat} {t : Timer} (h : t ∈ markDelivered ts i) :
    ∃ t0 ∈ ts, t.kind = t0.kind ∧ t.gen = t0.gen ∧ t.deadline = t0.deadline := by
  induction ts generalizing i with
  | nil => simp [markDelivered] at h
  | cons a rest ih =>
    cases i with
    | zero =>
      simp only [markDelivered, List.mem_cons] at h
      rcases h with h | h
      · subst h; exact ⟨a, by simp, rfl, rfl, rfl⟩
      · exact ⟨t, by simp [h], rfl, rfl, rfl⟩
    | succ n =>
      simp only [markDelivered, List.mem_cons] at h
      rcases h with h | h
      · subst h; exact ⟨t, by simp, rfl, rfl, rfl⟩
      · obtain ⟨t0, h0, hh⟩ := ih h
        exact ⟨t0, by simp [h0], hh⟩

theorem gens_stopAll (k : TKind) (now : Nat) (ts : List Timer) :
    (stopAll k now ts).map (·.gen) = ts.map (·.gen) := by
  unfold stopAll
  rw [List.map_map]
  apply List.map_congr_left
  intro t _
  simp only [Function.comp]
  split <;> rfl

theorem gens_markDelivered (ts : List Timer) (i : Nat) :
    (markDelivered ts i).map (·.gen) = ts.map (·.gen) := by
  induction ts generalizing i with
  | nil => rfl
  | cons a rest ih =>
    cases i with
    | zero => simp [markDelivered]
    | succ n => simp [markDelivered, ih]

theorem countP_eraseIdx_pos {l : List Exec} {j : Nat} {e : Exec} (h : l[j]? = some e) (hp : isFo e = true) :
    (l.eraseIdx j).countP isFo + 1 = l.countP isFo := by
  induction l generalizing j with
  | nil => simp at h
  | cons a rest ih =>
    cases j with
    | zero =>
      simp only [List.getElem?_cons_zero, Option.some.injEq] at h
      subst h
      simp [List.eraseIdx, hp]
    | succ n =>
      simp only [List.getElem?_cons_succ] at h
      have := ih h
      simp only [List.eraseIdx, List.countP_cons]
      omega

theorem countP_eraseIdx_neg {l : List Exec} {j : Nat} {e : Exec} (h : l[j]? = some e) (hp : isFo e = false) :
    (l.eraseIdx j).countP isFo = l.countP isFo := by
  induction l generalizing j with
  | nil => simp at h
  | cons a rest ih =>
    cases j with
    | zero =>
      simp only [List.getElem?_cons_zero, Option.some.injEq] at h
      subst h
      simp [List.eraseIdx, hp]
    | succ n =>
      simp only [List.getElem?_cons_succ] at h
      have := ih h
      simp only [List.eraseIdx, List.countP_cons]
      omega

theorem mem_of_getElem?' {α : Type} {l : List α} {i : Nat} {a : α} (h : l[i]? = some a) : a ∈ l := by
  induction l generalizing i with
  | nil => simp at h
  | cons x rest ih =>
    cases i with
    | zero => simp at h; simp [h]
    | succ n => simp at h; exact List.mem_cons_of_mem _ (ih h)

theorem mem_setExec {l : List Exec} {j : Nat} {e e' : Exec} (h : e' ∈ setExec l j e) : e' = e ∨ e' ∈ l := by
  induction l generalizing j with
  | nil => simp [setExec] at h
  | cons a rest ih =>
    cases j with
    | zero =>
      simp only [setExec, List.mem_cons] at h
      rcases h with h | h
      · exact Or.inl h
      · exact Or.inr (List.mem_cons_of_mem _ h)
    | succ n =>
      simp only [setExec, List.mem_cons] at h
      rcases h with h | h
      · exact Or.inr (by simp [h])
      · rcases ih h with h | h
        · exact Or.inl h
        · exact Or.inr (List.mem_cons_of_mem _ h)

theorem getElem?_setExec {l : List Exec} {j : Nat} (e : Exec) (hj : j < l.length) : (setExec l j e)[j]? = some e := by
  induction l generalizing j with
  | nil => simp at hj
  | cons a rest ih =>
    cases j with
    | zero => simp [setExec]
    | succ n =>
      simp only [setExec, List.getElem?_cons_succ]
      exact ih (by simpa using hj)

theorem countP_setExec {l : List Exec} {j : Nat} {e0 e : Exec} (h : l[j]? = some e0) (hp : isFo e = isFo e0) :
    (setExec l j e).countP isFo = l.countP isFo := by
  induction l generalizing j with
  | nil => simp at h
  | cons a rest ih =>
    cases j with
    | zero =>
      simp only [List.getElem?_cons_zero, Option.some.injEq] at h
      subst h
      simp [setExec, List.countP_cons, hp]
    | succ n =>
      simp only [List.getElem?_cons_succ] at h
      simp [setExec, List.countP_cons, ih h]

theorem mem_eraseIdx' {α : Type} {l : List α} {i : Nat} {a : α} (h : a ∈ l.eraseIdx i) : a ∈ l :=
  (List.eraseIdx_sublist l i).subset h

/-! ## the run invariant -/

/-- a failback execution whose callback is running was invoked at or before the current role epoch, and if no role
    change has been committed since, the node is still active -/
abbrev GProp (s : State) (e : Exec) : Prop :=
  e.kind = .failback → e.stage = .calling → e.epoch ≤ s.roleEpoch ∧ (e.epoch = s.roleEpoch → s.role = .active)

structure Core (s : State) : Prop where
  gT : ∀ t ∈ s.timers, t.gen ≤ s.gen
  H  : s.healthy = false → ∃ a, s.downSince = some a ∧ a ≤ s.now
  K  : s.state = .pending → s.healthy = false ∧ ∃ a, s.downSince = some a ∧
         ∀ t ∈ s.timers, t.kind = .failover → t.gen = s.gen → a + s.cfg.delay ≤ t.deadline
  R  : s.state = .pending ∨ s.state = .inProgress → s.role = .standby
  A  : s.state = .complete ∨ s.state = .failbackPending → s.role = .active
  E1 : s.state = .inProgress → s.execs.countP isFo = 1
  E0 : s.state ≠ .inProgress → s.execs.countP isFo = 0
  F  : ∀ e ∈ s.execs, e.kind = .failover → e.forced = false →
         ∃ a, e.downSinceAtFire = some a ∧ a + s.cfg.delay ≤ e.firedAt
  G  : ∀ e ∈ s.execs, GProp s e
  L  : ∀ p ∈ s.autoLog, ∃ a, p.2 = some a ∧ a + s.cfg.delay ≤ p.1
  C  : s.completedEvents = s.promotions ∧ s.completed = s.promotions

/-- no dual active: complete next to a healthy partner only after an operator-forced promotion -/
def DProp (s : State) : Prop :=
  s.state = .complete → s.healthy = true → s.cfg.failbackEnabled = true → s.forcedHold = true
/-- no stranded standby: a normal standby has a healthy partner -/
def NProp (s : State) : Prop := s.role = .standby → s.state = .normal → s.healthy = true

structure Inv (s : State) : Prop extends Core s where
  D : DProp s
  N : NProp s

theorem inv_init (c : Cfg) : Inv (init c) := by
  refine ⟨?_, ?_, ?_⟩
  · constructor <;> simp [init]
  · intro hx; simp [init] at hx
  · intro _ _; rfl

/-- arming the failover timer (scheduleFailoverLocked) when the partner is down -/
theorem inv_scheduleFailover {s : State} (h : Core s) (hD : DProp s) (hh : s.healthy = false) :
    Inv (scheduleFailover s) := by
  unfold scheduleFailover
  split
  · rename_i hc
    obtain ⟨a, ha, hle⟩ := h.H hh
    refine ⟨?_, ?_, ?_⟩
    · constructor
      · intro t ht
        simp only [List.mem_append, List.mem_singleton] at ht
        rcases ht with ht | ht
        · obtain ⟨t0, h0, _, hg, _⟩ := mem_stopAll ht
          have := h.gT t0 h0
          simp only; omega
        · subst ht; simp
      · exact h.H
      · intro _
        refine ⟨hh, a, ha, ?_⟩
        intro t ht _ hg
        simp only [List.mem_append, List.mem_singleton] at ht
        rcases ht with ht | ht
        · obtain ⟨t0, h0, _, hg0, _⟩ := mem_stopAll ht
          have := h.gT t0 h0
          simp only at hg
          omega
        · subst ht; simp only; omega
      · intro _; exact hc.1
      · intro hx; simp at hx
      · intro hx; simp at hx
      · intro _; exact h.E0 (by rw [hc.2]; simp)
      · exact h.F
      · exact h.G
      · exact h.L
      · exact h.C
    · intro hx; simp at hx
    · intro _ hx; simp at hx
  · rename_i hc
    refine ⟨h, hD, ?_⟩
    intro hr hs
    exact absurd ⟨hr, hs⟩ hc

/-- cancelFailoverLocked with a healthy partner; `h` is about the state with the failover execution (if any)
    already taken out and the state set to normal -/
theorem inv_cancelFailover {s : State} (h : Core { s with state := .normal }) (hh : s.healthy = true) :
    Inv (cancelFailover s).1 := by
  unfold cancelFailover
  refine ⟨?_, ?_, ?_⟩
  · constructor
    · intro t ht
      obtain ⟨t0, h0, _, hg, _⟩ := mem_stopAll ht
      have := h.gT t0 h0
      simp only at this ⊢; omega
    · exact h.H
    · intro hx; simp at hx
    · intro hx; simp at hx
    · intro hx; simp at hx
    · intro hx; simp at hx
    · intro _; exact h.E0 (by simp)
    · exact h.F
    · exact h.G
    · exact h.L
    · exact h.C
  · intro hx; simp at hx
  · intro _ _; exact hh

/-- arming the failback timer (scheduleFailbackLocked) -/
theorem inv_scheduleFailback {s : State} (h : Core s) (hN : NProp s) : Inv (scheduleFailback s) := by
  unfold scheduleFailback
  split
  · rename_i hc
    refine ⟨?_, ?_, ?_⟩
    · constructor
      · intro t ht
        simp only [List.mem_append, List.mem_singleton] at ht
        rcases ht with ht | ht
        · obtain ⟨t0, h0, _, hg, _⟩ := mem_stopAll ht
          have := h.gT t0 h0
          simp only; omega
        · subst ht; simp
      · exact h.H
      · intro hx; simp at hx
      · intro hx; simp at hx
      · intro _; exact h.A (Or.inl hc.1)
      · intro hx; simp at hx
      · intro _; exact h.E0 (by rw [hc.1]; simp)
      · exact h.F
      · exact h.G
      · exact h.L
      · exact h.C
    · intro hx; simp at hx
    · intro _ hx; simp at hx
  · rename_i hc
    refine ⟨h, ?_, hN⟩
    intro h1 _ h3
    exact absurd ⟨h1, h3⟩ hc

/-- replacing the executions by a list with the same failover count whose members are old ones or copies of
    old ones (same kind, forced flag, history and old role) -/
theorem Core.withExecs {s : State} (h : Core s) (ex : List Exec)
    (hc : ex.countP isFo = s.execs.countP isFo)
    (hm : ∀ e ∈ ex, ∃ e0 ∈ s.execs, e.kind = e0.kind ∧ e.forced = e0.forced ∧
        e.downSinceAtFire = e0.downSinceAtFire ∧ e.firedAt = e0.firedAt ∧ GProp s e) :
    Core { s with execs := ex } := by
  constructor
  · exact h.gT
  · exact h.H
  · exact h.K
  · exact h.R
  · exact h.A
  · intro hx; simp only; rw [hc]; exact h.E1 hx
  · intro hx; simp only; rw [hc]; exact h.E0 hx
  · intro e he hk hf
    obtain ⟨e0, h0, hk0, hf0, hd0, ha0, _⟩ := hm e he
    have := h.F e0 h0 (by rw [← hk0]; exact hk) (by rw [← hf0]; exact hf)
    rw [hd0, ha0]; exact this
  · intro e he
    obtain ⟨e0, h0, hk0, _, _, _, hg⟩ := hm e he
    exact hg
  · exact h.L
  · exact h.C

theorem Inv.withExecs {s : State} (h : Inv s) (ex : List Exec)
    (hc : ex.countP isFo = s.execs.countP isFo)
    (hm : ∀ e ∈ ex, ∃ e0 ∈ s.execs, e.kind = e0.kind ∧ e.forced = e0.forced ∧
        e.downSinceAtFire = e0.downSinceAtFire ∧ e.firedAt = e0.firedAt ∧ GProp s e) :
    Inv { s with execs := ex } :=
  ⟨h.toCore.withExecs ex hc hm, h.D, h.N⟩

theorem erase_members {l : List Exec} {j : Nat} :
    ∀ e ∈ l.eraseIdx j, ∃ e0 ∈ l, e.kind = e0.kind ∧ e.forced = e0.forced ∧
        e.downSinceAtFire = e0.downSinceAtFire ∧ e.firedAt = e0.firedAt :=
  fun e he => ⟨e, mem_eraseIdx' he, rfl, rfl, rfl, rfl⟩

theorem Inv.eraseMembers {s : State} (h : Inv s) (j : Nat) :
    ∀ e ∈ s.execs.eraseIdx j, ∃ e0 ∈ s.execs, e.kind = e0.kind ∧ e.forced = e0.forced ∧
        e.downSinceAtFire = e0.downSinceAtFire ∧ e.firedAt = e0.firedAt ∧ GProp s e :=
  fun e he => ⟨e, mem_eraseIdx' he, rfl, rfl, rfl, rfl, h.G e (mem_eraseIdx' he)⟩

theorem inv_down {s : State} (h : Inv s) : Inv (down s).1 := by
  unfold down
  split
  · rename_i hh
    apply inv_scheduleFailover _ _ rfl
    · constructor
      · exact h.gT
      · intro _; exact ⟨s.now, rfl, Nat.le_refl _⟩
      · intro hp
        have := (h.K hp).1
        rw [hh] at this; simp at this
      · exact h.R
      · exact h.A
      · exact h.E1
      · exact h.E0
      · exact h.F
      · exact h.G
      · exact h.L
      · exact h.C
    · intro _ hx; simp at hx
  · exact h

theorem inv_up {s : State} (h : Inv s) : Inv (up s).1 := by
  unfold up
  split
  · exact h
  · unfold handleUp
    simp only
    split
    · -- pending: cancelled
      rename_i hp
      apply inv_cancelFailover _ rfl
      constructor
      · exact h.gT
      · intro hx; simp at hx
      · intro hx; simp at hx
      · intro hx; simp at hx
      · intro hx; simp at hx
      · intro hx; simp at hx
      · intro _; exact h.E0 (by rw [hp]; simp)
      · exact h.F
      · exact h.G
      · exact h.L
      · exact h.C
    · rename_i hnp
      apply inv_scheduleFailback
      · constructor
        · exact h.gT
        · intro hx; simp at hx
        · intro hp; exact absurd hp hnp
        · exact h.R
        · exact h.A
        · exact h.E1
        · exact h.E0
        · exact h.F
        · exact h.G
        · exact h.L
        · exact h.C
      · intro _ _; rfl

theorem inv_tick {s : State} (h : Inv s) : Inv (tick s).1 := by
  unfold tick
  split
  · rename_i hc
    refine ⟨?_, ?_, ?_⟩
    · constructor
      · intro t ht
        obtain ⟨t0, h0, _, hg, _⟩ := mem_stopAll ht
        have := h.gT t0 h0
        simp only; omega
      · exact h.H
      · intro hx; simp at hx
      · intro hx; simp at hx
      · intro _; exact h.A (Or.inr hc.1)
      · intro hx; simp at hx
      · intro _; exact h.E0 (by rw [hc.1]; simp)
      · exact h.F
      · exact h.G
      · exact h.L
      · exact h.C
    · intro _ hx; simp only at hx; rw [hc.2] at hx; simp at hx
    · intro _ hx; simp at hx
  · exact h

theorem inv_advance {s : State} (h : Inv s) (dt : Nat) : Inv { s with now := s.now + dt } := by
  refine ⟨⟨h.gT, ?_, h.K, h.R, h.A, h.E1, h.E0, h.F, h.G, h.L, h.C⟩, h.D, h.N⟩
  intro hh
  obtain ⟨a, ha, hle⟩ := h.H hh
  exact ⟨a, ha, by simp only; omega⟩

/-- marking an instance delivered touches nothing the invariant speaks about -/
theorem inv_mark {s : State} (h : Inv s) (i : Nat) : Inv { s with timers := markDelivered s.timers i } := by
  refine ⟨?_, h.D, h.N⟩
  constructor
  · intro t ht
    obtain ⟨t0, h0, _, hg, _⟩ := mem_markDelivered ht
    have := h.gT t0 h0
    simp only; omega
  · exact h.H
  · intro hp
    obtain ⟨hh, a, ha, hall⟩ := h.K hp
    refine ⟨hh, a, ha, ?_⟩
    intro t ht hk hg
    obtain ⟨t0, h0, hk0, hg0, hd0⟩ := mem_markDelivered ht
    have := hall t0 h0 (by rw [← hk0]; exact hk) (by rw [← hg0]; exact hg)
    rw [hd0]; exact this
  · exact h.R
  · exact h.A
  · exact h.E1
  · exact h.E0
  · exact h.F
  · exact h.G
  · exact h.L
  · exact h.C

theorem inv_fire {s : State} (h : Inv s) (i : Nat) : Inv (fire s i).1 := by
  unfold fire
  split
  · exact h
  · rename_i t ht
    split
    · exact h
    · rename_i hen
      have hdue : t.deadline ≤ s.now := by
        simp only [not_or, Nat.not_lt] at hen; exact hen.2.2
      have htm : t ∈ s.timers := mem_of_getElem?' ht
      have hm := inv_mark h i
      simp only
      split
      · -- failover timer
        rename_i hk
        split
        · rename_i hc
          obtain ⟨hh, a, ha, hall⟩ := h.K hc.1
          have hdl := hall t htm hk hc.2
          split
          · -- partner healthy although pending: excluded by K
            rename_i hx
            rw [hh] at hx; simp at hx
          · refine ⟨?_, ?_, ?_⟩
            · constructor
              · exact hm.gT
              · exact h.H
              · intro hx; simp at hx
              · intro _; exact h.R (Or.inl hc.1)
              · intro hx; simp at hx
              · intro _
                have := h.E0 (by rw [hc.1]; simp)
                simp [List.countP_append, this, isFo]
              · intro hx; simp at hx
              · intro e he hke hf
                simp only [List.mem_append, List.mem_singleton] at he
                rcases he with he | he
                · exact h.F e he hke hf
                · subst he
                  exact ⟨a, ha, by simp only; omega⟩
              · intro e he
                simp only [List.mem_append, List.mem_singleton] at he
                rcases he with he | he
                · exact h.G e he
                · subst he; intro hke; simp at hke
              · exact h.L
              · exact h.C
            · intro hx; simp at hx
            · intro _ hx; simp at hx
        · exact hm
      · -- failback timer
        split
        · rename_i hc
          have hact := h.A (Or.inr hc.1)
          split
          · rename_i hu
            refine ⟨?_, ?_, ?_⟩
            · constructor
              · exact hm.gT
              · exact h.H
              · intro hx; simp at hx
              · intro hx; simp at hx
              · intro _; exact hact
              · intro hx; simp at hx
              · intro _; exact h.E0 (by rw [hc.1]; simp)
              · exact h.F
              · exact h.G
              · exact h.L
              · exact h.C
            · intro _ hx; simp only at hx hu; rw [hu] at hx; simp at hx
            · intro _ hx; simp at hx
          · refine ⟨?_, hm.D, hm.N⟩
            constructor
            · exact hm.gT
            · exact h.H
            · exact hm.K
            · exact h.R
            · exact h.A
            · intro hx; simp only at hx; rw [hc.1] at hx; simp at hx
            · intro _
              have := h.E0 (by rw [hc.1]; simp)
              simp [List.countP_append, this, isFo]
            · intro e he hke hf
              simp only [List.mem_append, List.mem_singleton] at he
              rcases he with he | he
              · exact h.F e he hke hf
              · subst he; simp at hke
            · intro e he
              simp only [List.mem_append, List.mem_singleton] at he
              rcases he with he | he
              · exact h.G e he
              · subst he; intro _ hst; simp at hst
            · exact h.L
            · exact h.C
        · exact hm

theorem setExec_members {s : State} (h : Inv s) {j : Nat} {e0 e' : Exec} (h0 : s.execs[j]? = some e0)
    (hk : e'.kind = e0.kind) (hf : e'.forced = e0.forced) (hd : e'.downSinceAtFire = e0.downSinceAtFire)
    (ha : e'.firedAt = e0.firedAt) (hg : GProp s e') :
    ∀ e ∈ setExec s.execs j e', ∃ x ∈ s.execs, e.kind = x.kind ∧ e.forced = x.forced ∧
        e.downSinceAtFire = x.downSinceAtFire ∧ e.firedAt = x.firedAt ∧ GProp s e := by
  intro e he
  rcases mem_setExec he with he | he
  · subst he; exact ⟨e0, mem_of_getElem?' h0, hk, hf, hd, ha, hg⟩
  · exact ⟨e, he, rfl, rfl, rfl, rfl, h.G e he⟩

theorem inv_callCheck {s : State} (h : Inv s) (j : Nat) (ok : Bool) (dur : Nat) : Inv (callCheck s j ok dur).1 := by
  unfold callCheck
  split
  · exact h
  · rename_i e he
    split
    · exact h
    · have hem : e ∈ s.execs := mem_of_getElem?' he
      split
      · -- failover execution
        rename_i hk
        have hfo : isFo e = true := by simp [isFo, hk]
        split
        · -- the partner recovered during the grace period: cancelled
          rename_i hc
          have hcnt := countP_eraseIdx_pos he hfo
          have hip : s.state = .inProgress := by
            apply Classical.byContradiction
            intro hn
            have := h.E0 hn
            omega
          have h1 := h.E1 hip
          refine inv_cancelFailover (s := { s with execs := s.execs.eraseIdx j }) ?_ hc.2
          constructor
          · exact h.gT
          · exact h.H
          · intro hx; simp at hx
          · intro hx; simp at hx
          · intro hx; simp at hx
          · intro hx; simp at hx
          · intro _; simp only; omega
          · intro e' he'; exact h.F e' (mem_eraseIdx' he')
          · intro e' he'; exact h.G e' (mem_eraseIdx' he')
          · exact h.L
          · exact h.C
        · apply h.withExecs
          · exact countP_setExec he (by simp [isFo])
          · exact setExec_members h he rfl rfl rfl rfl (fun hx => by simp [hk] at hx)
      · -- failback execution
        rename_i hk
        have hfo : isFo e = false := by simp [isFo, hk]
        have hcnt := countP_eraseIdx_neg he hfo
        split
        · exact h.withExecs _ hcnt (h.eraseMembers j)
        · rename_i hv
          simp only [ne_eq, not_or, Decidable.not_not] at hv
          split
          · rename_i hu
            have base := h.withExecs _ hcnt (h.eraseMembers j)
            refine ⟨?_, ?_, ?_⟩
            · constructor
              · exact base.gT
              · exact base.H
              · intro hx; simp at hx
              · intro hx; simp at hx
              · intro _; exact h.A (Or.inr hv.1)
              · intro hx; simp at hx
              · intro _; exact base.E0 (by simp only; rw [hv.1]; simp)
              · exact base.F
              · exact base.G
              · exact base.L
              · exact base.C
            · intro _ hx; simp only at hx; rw [hu] at hx; simp at hx
            · intro _ hx; simp at hx
          · apply h.withExecs
            · exact countP_setExec he (by simp [isFo])
            · exact setExec_members h he rfl rfl rfl rfl
                (fun _ _ => ⟨Nat.le_refl _, fun _ => h.A (Or.inr hv.1)⟩)

theorem inv_commit {s : State} (h : Inv s) (j : Nat) : Inv (commit s j).1 := by
  unfold commit
  split
  · exact h
  · rename_i e he
    split
    · exact h
    · have hem : e ∈ s.execs := mem_of_getElem?' he
      simp only
      split
      · -- failover execution
        rename_i hk
        have hfo : isFo e = true := by simp [isFo, hk]
        have hcnt := countP_eraseIdx_pos he hfo
        have hip : s.state = .inProgress := by
          apply Classical.byContradiction
          intro hn
          have := h.E0 hn
          omega
        have h1 := h.E1 hip
        have h0 : (s.execs.eraseIdx j).countP isFo = 0 := by omega
        have hrole := h.R (Or.inr hip)
        split
        · -- the callback succeeded: commit
          have core : Core { s with execs := s.execs.eraseIdx j, role := .active, roleEpoch := s.roleEpoch + 1, state := .complete, completed := s.completed + 1, promotions := s.promotions + 1, completedEvents := s.completedEvents + 1, autoLog := if e.forced then s.autoLog else s.autoLog ++ [(e.firedAt, e.downSinceAtFire)], forcedHold := e.forced } := by
            constructor
            · exact h.gT
            · exact h.H
            · intro hx; simp at hx
            · intro hx; simp at hx
            · intro _; rfl
            · intro hx; simp at hx
            · intro _; exact h0
            · intro e' he'; exact h.F e' (mem_eraseIdx' he')
            · intro e' he' hk' hs'
              have := (h.G e' (mem_eraseIdx' he') hk' hs').1
              exact ⟨by simp only; omega, fun hx => by simp only at hx; omega⟩
            · intro p hp
              simp only at hp
              split at hp
              · exact h.L p hp
              · rename_i hf
                simp only [List.mem_append, List.mem_singleton] at hp
                rcases hp with hp | hp
                · exact h.L p hp
                · subst hp
                  exact h.F e hem hk (by simpa using hf)
            · have := h.C
              simp only
              omega
          split
          · exact inv_scheduleFailback core (fun hx => by simp at hx)
          · rename_i hns
            refine ⟨core, ?_, ?_⟩
            · intro _ hh _
              simp only at hh ⊢
              cases hf : e.forced with
              | true => rfl
              | false => exact absurd ⟨hf, hh⟩ hns
            · intro hx; simp at hx
        · -- the callback failed
          have core : Core { s with execs := s.execs.eraseIdx j, state := .normal } := by
            constructor
            · exact h.gT
            · exact h.H
            · intro hx; simp at hx
            · intro hx; simp at hx
            · intro hx; simp at hx
            · intro hx; simp at hx
            · intro _; exact h0
            · intro e' he'; exact h.F e' (mem_eraseIdx' he')
            · intro e' he'; exact h.G e' (mem_eraseIdx' he')
            · exact h.L
            · exact h.C
          split
          · rename_i hu
            exact inv_scheduleFailover core (fun hx => by simp at hx) hu
          · rename_i hu
            refine ⟨core, fun hx => by simp at hx, ?_⟩
            intro _ _
            simp only at hu ⊢
            cases hh : s.healthy with
            | true => rfl
            | false => exact absurd hh hu
      · -- failback execution
        rename_i hk
        have hfo : isFo e = false := by simp [isFo, hk]
        have hcnt := countP_eraseIdx_neg he hfo
        have base := h.withExecs _ hcnt (h.eraseMembers j)
        have hcall : e.stage = .calling := by
          rename_i hen _
          simp only [ne_eq, not_or, Decidable.not_not] at hen
          exact hen.1
        have hg := h.G e hem hk hcall
        split
        · split
          · exact base
          · -- commit of the failback
            rename_i hr
            simp only [ne_eq, Decidable.not_not] at hr
            have hact : s.role = .active := hg.2 hr
            have hnip : s.state ≠ .inProgress := by
              intro hx
              have := h.R (Or.inr hx)
              rw [hact] at this; simp at this
            have core : Core { s with execs := s.execs.eraseIdx j, role := s.cfg.original, roleEpoch := s.roleEpoch + 1, state := .normal, failbacks := s.failbacks + 1 } := by
              constructor
              · exact h.gT
              · exact h.H
              · intro hx; simp at hx
              · intro hx; simp at hx
              · intro hx; simp at hx
              · intro hx; simp at hx
              · intro _; exact base.E0 hnip
              · exact base.F
              · intro e' he' hk' hs'
                have := (h.G e' (mem_eraseIdx' he') hk' hs').1
                exact ⟨by simp only; omega, fun hx => by simp only at hx; omega⟩
              · exact h.L
              · exact h.C
            split
            · rename_i hu
              exact inv_scheduleFailover core (fun hx => by simp at hx) hu
            · rename_i hu
              refine ⟨core, fun hx => by simp at hx, ?_⟩
              intro _ _
              simp only at hu ⊢
              cases hh : s.healthy with
              | true => rfl
              | false => exact absurd hh hu
        · split
          · rename_i hv
            have core : Core { s with execs := s.execs.eraseIdx j, state := .complete } := by
              constructor
              · exact h.gT
              · exact h.H
              · intro hx; simp at hx
              · intro hx; simp at hx
              · intro _; exact h.A (Or.inr hv.1)
              · intro hx; simp at hx
              · intro _; exact base.E0 (by simp only; rw [hv.1]; simp)
              · exact base.F
              · exact base.G
              · exact h.L
              · exact h.C
            split
            · exact inv_scheduleFailback core (fun _ hx => by simp at hx)
            · rename_i hu
              refine ⟨core, ?_, fun _ hx => by simp at hx⟩
              intro _ hh
              simp only at hh hu
              exact absurd hh hu
          · exact base

theorem inv_forceFailover {s : State} (h : Inv s) : Inv (forceFailover s).1 := by
  unfold forceFailover
  split
  · exact h
  · rename_i hr
    split
    · exact h
    · rename_i hs
      refine ⟨?_, fun hx => by simp at hx, fun _ hx => by simp at hx⟩
      constructor
      · intro t ht
        obtain ⟨t0, h0, _, hg, _⟩ := mem_stopAll ht
        have := h.gT t0 h0
        simp only; omega
      · exact h.H
      · intro hx; simp at hx
      · intro _
        cases hrole : s.role with
        | standby => rfl
        | active => exact absurd hrole hr
      · intro hx; simp at hx
      · intro _
        have := h.E0 hs
        simp [List.countP_append, this, isFo]
      · intro hx; simp at hx
      · intro e he hke hf
        simp only [List.mem_append, List.mem_singleton] at he
        rcases he with he | he
        · exact h.F e he hke hf
        · subst he; simp at hf
      · intro e he
        simp only [List.mem_append, List.mem_singleton] at he
        rcases he with he | he
        · exact h.G e he
        · subst he; intro hke; simp at hke
      · exact h.L
      · exact h.C

theorem inv_forceFailback {s : State} (h : Inv s) : Inv (forceFailback s).1 := by
  unfold forceFailback
  split <;> exact h

theorem inv_step {s : State} (h : Inv s) (op : Op) : Inv (step s op).1 := by
  cases op with
  | down => exact inv_down h
  | up => exact inv_up h
  | tick => exact inv_tick h
  | advance dt => exact inv_advance h dt
  | fire i => exact inv_fire h i
  | check j ok dur => exact inv_callCheck h j ok dur
  | commit j => exact inv_commit h j
  | forceFailover => exact inv_forceFailover h
  | forceFailback => exact inv_forceFailback h

theorem inv_run {s : State} (h : Inv s) (ops : List Op) : Inv (run s ops) := by
  induction ops generalizing s with
  | nil => exact h
  | cons op rest ih => exact ih (inv_step h op)

/-! ## configuration, generation and timer identity along a run -/

theorem step_cfg (s : State) (op : Op) : (step s op).1.cfg = s.cfg := by
  cases op <;> simp only [step]
  · unfold down scheduleFailover; (repeat' (first | split | (simp only; split))) <;> rfl
  · unfold up handleUp cancelFailover scheduleFailback; (repeat' (first | split | (simp only; split))) <;> rfl
  · unfold tick; (repeat' (first | split | (simp only; split))) <;> rfl
  · unfold fire cancelFailover; (repeat' (first | split | (simp only; split))) <;> rfl
  · unfold callCheck cancelFailover; (repeat' (first | split | (simp only; split))) <;> rfl
  · unfold commit scheduleFailback scheduleFailover; (repeat' (first | split | (simp only; split))) <;> rfl
  · unfold forceFailover; (repeat' (first | split | (simp only; split))) <;> rfl
  · unfold forceFailback; (repeat' (first | split | (simp only; split))) <;> rfl

theorem run_cfg (s : State) (ops : List Op) : (run s ops).cfg = s.cfg := by
  induction ops generalizing s with
  | nil => rfl
  | cons op rest ih => simp only [run, List.foldl_cons] at ih ⊢; rw [ih, step_cfg]

def GensLe (s s' : State) : Prop := s.gen ≤ s'.gen ∧ s.timers.map (·.gen) <+: s'.timers.map (·.gen)

theorem GensLe.refl (s : State) : GensLe s s := ⟨Nat.le_refl _, List.prefix_refl _⟩

theorem GensLe.trans {a b c : State} (h1 : GensLe a b) (h2 : GensLe b c) : GensLe a c :=
  ⟨Nat.le_trans h1.1 h2.1, List.IsPrefix.trans h1.2 h2.2⟩

theorem gens_scheduleFailover (s : State) : GensLe s (scheduleFailover s) := by
  unfold scheduleFailover
  split
  · refine ⟨by simp only; omega, ?_⟩
    simp only [List.map_append, gens_stopAll]
    exact List.prefix_append _ _
  · exact GensLe.refl s

theorem gens_scheduleFailback (s : State) : GensLe s (scheduleFailback s) := by
  unfold scheduleFailback
  split
  · refine ⟨by simp only; omega, ?_⟩
    simp only [List.map_append, gens_stopAll]
    exact List.prefix_append _ _
  · exact GensLe.refl s

theorem gens_cancelFailover (s : State) : GensLe s (cancelFailover s).1 := by
  unfold cancelFailover
  refine ⟨by simp only; omega, ?_⟩
  simp only [gens_stopAll]
  exact List.prefix_refl _

/-- the fields `GensLe` looks at -/
theorem GensLe.of_eq {s s' : State} (hg : s'.gen = s.gen) (ht : s'.timers.map (·.gen) = s.timers.map (·.gen)) :
    GensLe s s' := ⟨by omega, by rw [ht]; exact List.prefix_refl _⟩

theorem gens_fo (s s1 : State) (hg : s1.gen = s.gen) (ht : s1.timers.map (·.gen) = s.timers.map (·.gen)) :
    GensLe s (scheduleFailover s1) := (GensLe.of_eq hg ht).trans (gens_scheduleFailover _)
theorem gens_fb (s s1 : State) (hg : s1.gen = s.gen) (ht : s1.timers.map (·.gen) = s.timers.map (·.gen)) :
    GensLe s (scheduleFailback s1) := (GensLe.of_eq hg ht).trans (gens_scheduleFailback _)
theorem gens_cf (s s1 : State) (hg : s1.gen = s.gen) (ht : s1.timers.map (·.gen) = s.timers.map (·.gen)) :
    GensLe s (cancelFailover s1).1 := (GensLe.of_eq hg ht).trans (gens_cancelFailover _)

/-- a step never lowers the generation and never changes the generation of an existing timer instance -/
theorem step_gens (s : State) (op : Op) : GensLe s (step s op).1 := by
  cases op <;> simp only [step]
  · unfold down
    split
    · exact gens_fo _ _ rfl rfl
    · exact GensLe.refl s
  · unfold up handleUp
    split
    · exact GensLe.refl s
    · simp only
      split
      · exact gens_cf _ _ rfl rfl
      · exact gens_fb _ _ rfl rfl
  · unfold tick
    split
    · refine ⟨by simp only; omega, ?_⟩
      simp only [gens_stopAll]; exact List.prefix_refl _
    · exact GensLe.refl s
  · exact GensLe.of_eq rfl rfl
  · unfold fire
    split
    · exact GensLe.refl s
    · split
      · exact GensLe.refl s
      · have hm : GensLe s { s with timers := markDelivered s.timers ‹Nat› } :=
          GensLe.of_eq rfl (gens_markDelivered _ _)
        simp only
        split
        · split
          · split
            · exact gens_cf _ _ rfl (gens_markDelivered _ _)
            · exact hm.trans (GensLe.of_eq rfl rfl)
          · exact hm
        · split
          · split
            · exact hm.trans (GensLe.of_eq rfl rfl)
            · exact hm.trans (GensLe.of_eq rfl rfl)
          · exact hm
  · unfold callCheck
    split
    · exact GensLe.refl s
    · split
      · exact GensLe.refl s
      · split
        · split
          · exact gens_cf _ _ rfl rfl
          · exact GensLe.of_eq rfl rfl
        · split
          · exact GensLe.of_eq rfl rfl
          · split
            · exact GensLe.of_eq rfl rfl
            · exact GensLe.of_eq rfl rfl
  · unfold commit
    split
    · exact GensLe.refl s
    · split
      · exact GensLe.refl s
      · simp only
        split
        · split
          · split
            · exact gens_fb _ _ rfl rfl
            · exact GensLe.of_eq rfl rfl
          · split
            · exact gens_fo _ _ rfl rfl
            · exact GensLe.of_eq rfl rfl
        · split
          · split
            · exact GensLe.of_eq rfl rfl
            · split
              · exact gens_fo _ _ rfl rfl
              · exact GensLe.of_eq rfl rfl
          · split
            · split
              · exact gens_fb _ _ rfl rfl
              · exact GensLe.of_eq rfl rfl
            · exact GensLe.of_eq rfl rfl
  · unfold forceFailover
    split
    · exact GensLe.refl s
    · split
      · exact GensLe.refl s
      · refine ⟨by simp only; omega, ?_⟩
        simp only [gens_stopAll]; exact List.prefix_refl _
  · unfold forceFailback
    split <;> exact GensLe.refl s

theorem run_gens (s : State) (ops : List Op) : GensLe s (run s ops) := by
  induction ops generalizing s with
  | nil => exact GensLe.refl s
  | cons op rest ih =>
    have h1 := step_gens s op
    have h2 := ih (step s op).1
    simp only [run, List.foldl_cons] at h2 ⊢
    exact h1.trans h2

end Bng.Failover
