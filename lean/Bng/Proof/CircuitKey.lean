import Bng.Model.CircuitKey
import Mathlib.Data.Fintype.Pigeonhole
import Mathlib.Data.Fintype.BigOperators
/-
  Facts about the fixed 32-byte circuit-id key (truncate / zero-pad) and about ANY 64-bit hash of byte strings.
-/
namespace Bng.CircuitKey

theorem makeKey_short {a : List UInt8} (h : a.length ≤ keyLen) :
    makeKey a = a ++ List.replicate (keyLen - a.length) 0 := by
  unfold makeKey
  rw [List.take_of_length_le h]

theorem keySafe_iff (a : List UInt8) : keySafe a = true ↔ a.length ≤ keyLen ∧ a.getLast? ≠ some 0 := by
  simp [keySafe]

/-- a non-empty block of zero bytes at the end of `b` -/
theorem getLast_append_zeros (a z : List UInt8) (hz : z ≠ []) (hall : ∀ x ∈ z, x = 0) :
    (a ++ z).getLast? = some 0 := by
  rw [List.getLast?_append_of_ne_nil _ hz]
  cases hl : z.getLast? with
  | none => simp [List.getLast?_eq_none_iff] at hl; exact absurd hl hz
  | some x =>
    have : x ∈ z := List.mem_of_getLast? hl
    rw [hall x this]

/-- one direction of injectivity: if `b` extends `a` by a block that is a prefix of the zero padding, then `b = a` -/
theorem eq_of_pad_prefix {a b : List UInt8} (hb : b.getLast? ≠ some 0) {z rest : List UInt8} {n : Nat}
    (h1 : b = a ++ z) (h2 : List.replicate n (0 : UInt8) = z ++ rest) : b = a := by
  by_cases hz : z = []
  · subst hz; simpa using h1
  · exfalso
    apply hb
    rw [h1]
    apply getLast_append_zeros a z hz
    intro x hx
    have : x ∈ List.replicate n (0 : UInt8) := by rw [h2]; exact List.mem_append_left _ hx
    exact (List.mem_replicate.mp this).2

theorem makeKey_injective_on {a b : List UInt8} (ha : keySafe a = true) (hb : keySafe b = true)
    (h : makeKey a = makeKey b) : a = b := by
  obtain ⟨ha1, ha2⟩ := (keySafe_iff a).mp ha
  obtain ⟨hb1, hb2⟩ := (keySafe_iff b).mp hb
  rw [makeKey_short ha1, makeKey_short hb1] at h
  rcases List.append_eq_append_iff.mp h with ⟨z, h1, h2⟩ | ⟨z, h1, h2⟩
  · exact (eq_of_pad_prefix hb2 h1 h2).symm
  · exact eq_of_pad_prefix ha2 h1 h2

theorem makeKey_take {a : List UInt8} (h : keyLen < a.length) : makeKey (a.take keyLen) = makeKey a := by
  unfold makeKey
  have h1 : (a.take keyLen).length = keyLen := by rw [List.length_take]; omega
  rw [h1, List.take_take, Nat.min_self]
  have : keyLen - a.length = 0 := by omega
  rw [this, Nat.sub_self]

theorem makeKey_append_zero {a : List UInt8} (h : a.length < keyLen) : makeKey (a ++ [0]) = makeKey a := by
  have h1 : (a ++ [0]).length ≤ keyLen := by simp; omega
  rw [makeKey_short h1, makeKey_short (Nat.le_of_lt h)]
  have : keyLen - a.length = (keyLen - (a ++ [0]).length) + 1 := by simp; omega
  rw [this, List.replicate_succ]
  simp

/-- pigeonhole: no function from byte strings to 64-bit values is injective on the strings of 9 bytes -/
theorem exists_collision (h : List UInt8 → UInt64) :
    ∃ a b : List UInt8, a ≠ b ∧ a.length = 9 ∧ b.length = 9 ∧ h a = h b := by
  let g : (Fin 9 → Fin 256) → List UInt8 := fun v => List.ofFn (fun i => UInt8.ofNat (v i).val)
  have ginj : Function.Injective g := by
    intro v w hvw
    have := List.ofFn_injective hvw
    funext i
    have hi := congrFun this i
    have : (UInt8.ofNat (v i).val).toNat = (UInt8.ofNat (w i).val).toNat := by rw [hi]
    simp only [UInt8.toNat_ofNat'] at this
    apply Fin.ext
    have h1 := (v i).isLt
    have h2 := (w i).isLt
    omega
  let f : (Fin 9 → Fin 256) → Fin (2 ^ 64) := fun v => ⟨(h (g v)).toNat, UInt64.toNat_lt _⟩
  have hcard : Fintype.card (Fin (2 ^ 64)) < Fintype.card (Fin 9 → Fin 256) := by
    simp only [Fintype.card_fun, Fintype.card_fin]
    decide
  obtain ⟨v, w, hne, hfw⟩ := Fintype.exists_ne_map_eq_of_card_lt f hcard
  refine ⟨g v, g w, fun e => hne (ginj e), by simp [g], by simp [g], ?_⟩
  have : (h (g v)).toNat = (h (g w)).toNat := by simpa [f] using congrArg Fin.val hfw
  exact UInt64.toNat_inj.mp this

/-! ### MACToUint64 -/

theorem len6 {a : List UInt8} (h : a.length = 6) : ∃ a0 a1 a2 a3 a4 a5, a = [a0, a1, a2, a3, a4, a5] := by
  match a, h with
  | [a0, a1, a2, a3, a4, a5], _ => exact ⟨a0, a1, a2, a3, a4, a5, rfl⟩

theorem macKey6 (a0 a1 a2 a3 a4 a5 : UInt8) :
    macKey [a0, a1, a2, a3, a4, a5] =
      ((((a0.toNat * 256 + a1.toNat) * 256 + a2.toNat) * 256 + a3.toNat) * 256 + a4.toNat) * 256 + a5.toNat := by
  simp [macKey, List.foldl]

theorem macKey_injective_6 {a b : List UInt8} (ha : a.length = 6) (hb : b.length = 6)
    (h : macKey a = macKey b) : a = b := by
  obtain ⟨a0, a1, a2, a3, a4, a5, rfl⟩ := len6 ha
  obtain ⟨b0, b1, b2, b3, b4, b5, rfl⟩ := len6 hb
  rw [macKey6, macKey6] at h
  have := a0.toNat_lt; have := a1.toNat_lt; have := a2.toNat_lt
  have := a3.toNat_lt; have := a4.toNat_lt; have := a5.toNat_lt
  have := b0.toNat_lt; have := b1.toNat_lt; have := b2.toNat_lt
  have := b3.toNat_lt; have := b4.toNat_lt; have := b5.toNat_lt
  have e0 : a0 = b0 := UInt8.toNat_inj.mp (by omega)
  have e1 : a1 = b1 := UInt8.toNat_inj.mp (by omega)
  have e2 : a2 = b2 := UInt8.toNat_inj.mp (by omega)
  have e3 : a3 = b3 := UInt8.toNat_inj.mp (by omega)
  have e4 : a4 = b4 := UInt8.toNat_inj.mp (by omega)
  have e5 : a5 = b5 := UInt8.toNat_inj.mp (by omega)
  subst e0 e1 e2 e3 e4 e5
  rfl

theorem macKey_short {a : List UInt8} (h : a.length < 6) : macKey a = 0 := by
  simp [macKey, h]

theorem macKey_take {a : List UInt8} (h : 6 ≤ a.length) : macKey (a.take 6) = macKey a := by
  have h1 : (a.take 6).length = 6 := by rw [List.length_take]; omega
  have h2 : ¬ a.length < 6 := by omega
  simp [macKey, h1, h2, List.take_take]

end Bng.CircuitKey
