import Bng.Proof.XdpDhcpReply
/-
  What the reply carries, in terms of what the Go side encoded into the maps (`Bng.CacheEnc`): the fields C03
  compares with the userspace reply.
-/
namespace Bng.XdpDhcp
open Bng Bng.C Bng.XdpDhcpSpec Bng.CacheEnc

theorem ofNat_leNat_leBytes4 (x : UInt32) : UInt32.ofNat (leNat (leBytes 4 x.toNat)) = x := by
  have hx : x.toNat < 4294967296 := x.toNat_lt
  have : leNat (leBytes 4 x.toNat) = x.toNat := by
    rw [leBytes4_eq]
    simp only [leNat, UInt8.toNat_ofNat']
    omega
  rw [this]
  exact UInt32.ofNat_toNat

/-! ### reading the Go-encoded values back with the C field offsets -/

theorem rd32_encAssignment_ip (A : Assignment) : rd32 (encAssignment A) 4 = A.ip := by
  have := ofNat_leNat_leBytes4 A.ip
  simp only [encAssignment, le32, le64, leBytes4_eq, rd32, rdBytes] at *
  simpa using this

theorem rd32_encPool_gateway (P : PoolCfg) : rd32 (encPool P) 8 = P.gateway := by
  have := ofNat_leNat_leBytes4 P.gateway
  simp only [encPool, le32, leBytes4_eq, rd32, rdBytes] at *
  simpa using this

theorem rd32_encPool_dns1 (P : PoolCfg) : rd32 (encPool P) 12 = dnsAt P.dns 0 := by
  have := ofNat_leNat_leBytes4 (dnsAt P.dns 0)
  simp only [encPool, le32, leBytes4_eq, rd32, rdBytes] at *
  simpa using this

theorem rd32_encPool_dns2 (P : PoolCfg) : rd32 (encPool P) 16 = dnsAt P.dns 1 := by
  have := ofNat_leNat_leBytes4 (dnsAt P.dns 1)
  simp only [encPool, le32, leBytes4_eq, rd32, rdBytes] at *
  simpa using this

theorem rd32_encPool_lease (P : PoolCfg) : rd32 (encPool P) 20 = P.leaseSecs := by
  have := ofNat_leNat_leBytes4 P.leaseSecs
  simp only [encPool, le32, leBytes4_eq, rd32, rdBytes] at *
  simpa using this

theorem rd8_encPool_plen (P : PoolCfg) : rd8 (encPool P) 4 = P.prefixLen := by
  simp [encPool, le32, leBytes4_eq, rd8]

theorem rd32_encCfg_ip (mac : Bytes) (ip idx : UInt32) : rd32 (encCfg mac ip idx) 8 = ip := by
  have := ofNat_leNat_leBytes4 ip
  have hm : (if mac.length ≥ 6 then mac.take 6 else List.replicate 6 0).length = 6 := by
    split <;> simp <;> omega
  match hmm : (if mac.length ≥ 6 then mac.take 6 else List.replicate 6 0), hm with
  | [m0, m1, m2, m3, m4, m5], _ =>
    simp only [encCfg, hmm, le32, leBytes4_eq, rd32, rdBytes] at *
    simpa using this

/-! ### the options of the reply, looked up as a DHCP parser does -/

theorem opt54_optsBytes (t : UInt8) (pool : Bytes) (sip : UInt32) :
    opt 54 (optsBytes t pool sip) = some (leBytes 4 sip.toNat) := by
  unfold optsBytes opt
  simp [tlvGet, opt4, List.length_append, leBytes4_eq]

theorem opt51_optsBytes (t : UInt8) (pool : Bytes) (sip : UInt32) :
    opt 51 (optsBytes t pool sip) = some (leBytes 4 (htonl (rd32 pool 20)).toNat) := by
  unfold optsBytes opt
  simp [tlvGet, opt4, List.length_append, leBytes4_eq]

theorem opt1_optsBytes (t : UInt8) (pool : Bytes) (sip : UInt32) :
    opt 1 (optsBytes t pool sip) = some (leBytes 4 (prefixToMask (rd8 pool 4)).toNat) := by
  unfold optsBytes opt
  simp [tlvGet, opt4, List.length_append, leBytes4_eq]

theorem opt3_optsBytes (t : UInt8) (pool : Bytes) (sip : UInt32) :
    opt 3 (optsBytes t pool sip) = some (leBytes 4 (rd32 pool 8).toNat) := by
  unfold optsBytes opt
  simp [tlvGet, opt4, List.length_append, leBytes4_eq]

/-- option 6 as the program writes it: absent without a primary server, else one or two addresses as stored -/
theorem opt6_optsBytes (t : UInt8) (pool : Bytes) (sip : UInt32) :
    (opt 6 (optsBytes t pool sip)).getD [] =
      if rd32 pool 12 != 0 then
        (if rd32 pool 16 != 0 then leBytes 4 (rd32 pool 12).toNat ++ leBytes 4 (rd32 pool 16).toNat
         else leBytes 4 (rd32 pool 12).toNat)
      else [] := by
  unfold optsBytes opt dnsBytes
  split
  · split <;> simp [tlvGet, opt4, List.length_append, leBytes4_eq]
  · simp [tlvGet, opt4, List.length_append, leBytes4_eq]

/-- `prefix_to_mask` yields the CIDR mask (for every prefix length a pool can have) -/
theorem mask_correct : ∀ plen : Fin 33, leBytes 4 (prefixToMask (UInt8.ofNat plen.val)).toNat = maskWire plen.val := by
  decide

theorem rev4_ipWire (x : UInt32) : rev4 (ipWire x) = leBytes 4 x.toNat := by
  simp [ipWire, leBytes4_eq, rev4]

theorem drop_drop_frame (g : Frame) (a b : Nat) : (g.drop a).drop b = g.drop (a + b) := by
  rw [List.drop_drop]

theorem bytesAt_drop (g : Frame) (a o n : Nat) : bytesAt (g.drop a) o n = bytesAt g (a + o) n := by
  simp only [bytesAt, List.drop_drop]

/-- **What the reply says, in terms of what Go encoded.**  For cache bytes `encAssignment A` / `encPool P` /
    a server_config whose `server_ip` field reads `S ≠ 0`, at most two non-zero DNS servers and a prefix length of at
    most 32, the fields of the transmitted BOOTP message are those of the userspace reply (`slowView`) with every
    IPv4 ADDRESS byte-reversed (`View.rev`, finding D10); message type, lease time and subnet mask are exact. -/
theorem reply_view {f : Frame} {p : Pkt} (wf : p.WF f) (hroom : p.dhcpOff + 240 + 64 ≤ f.length) (t : UInt8)
    (A : Assignment) (P : PoolCfg) (cfg : Bytes) (S : UInt32) (hcfg : rd32 cfg 8 = S)
    (hS : S ≠ 0) (hdns : P.dns.length ≤ 2) (hnz : ∀ d ∈ P.dns, d ≠ 0) (hpl : P.prefixLen.toNat ≤ 32) :
    viewOf ((replyP f p t (encAssignment A) (encPool P) cfg).drop p.dhcpOff)
      = (slowView (replyTypeOf t) A.ip S P).rev := by
  have hsip : serverIpOf cfg (encPool P) = S := by
    unfold serverIpOf
    rw [hcfg]
    simp [hS]
  have hopts := reply_opts wf hroom t (encAssignment A) (encPool P) cfg
  have hyi := reply_yiaddr wf hroom t (encAssignment A) (encPool P) cfg
  rw [rd32_encAssignment_ip] at hyi
  unfold replyOpts at hopts
  rw [hsip] at hopts
  have hmask : leBytes 4 (prefixToMask P.prefixLen).toNat = maskWire P.prefixLen.toNat := by
    have := mask_correct ⟨P.prefixLen.toNat, by omega⟩
    simpa using this
  unfold viewOf
  simp only [drop_drop_frame, bytesAt_drop, hopts, hyi, opt53_optsBytes, opt54_optsBytes, opt51_optsBytes,
    opt1_optsBytes, opt3_optsBytes, opt6_optsBytes, rd32_encPool_gateway, rd32_encPool_lease, rd8_encPool_plen,
    rd32_encPool_dns1, rd32_encPool_dns2, leBytes4_htonl, hmask]
  unfold slowView View.rev
  simp only [Option.map, rev4_ipWire]
  -- only the DNS list is left: none, one or two servers
  match hd : P.dns, hdns, hnz with
  | [], _, _ => simp [dnsAt, rev4, ipWire]
  | [d1], _, hnz =>
    have h1 : d1 ≠ 0 := hnz d1 (by simp)
    simp [dnsAt, h1, ipWire, leBytes4_eq, rev4]
  | [d1, d2], _, hnz =>
    have h1 : d1 ≠ 0 := hnz d1 (by simp)
    have h2 : d2 ≠ 0 := hnz d2 (by simp)
    simp [dnsAt, h1, h2, ipWire, leBytes4_eq, rev4]
