import Bng.Model.CacheEnc
/-
  Invariants of the slow path's cache maintenance (`Bng.CacheEnc.Srv`), over ALL operation histories:
  every entry of subscriber_pools and of circuit_id_subscribers belongs to a lease userspace still holds, and
  vlan_subscriber_pools is never written.  Contrapositive: once a lease has ended (release, decline, expiry
  cleanup, or its circuit-id changed) no entry is left under its keys unless another live lease owns that key.
-/
namespace Bng.CacheEnc
open Bng Bng.C Bng.XdpDhcp

/-- every MAC-keyed entry was written for the lease the table holds under that MAC key, with that lease's bytes -/
def SubSound (s : Srv) : Prop :=
  ∀ k v, AMap.lookup s.maps.sub k = some v →
    ∃ l p, AMap.lookup s.leases l.mac = some l ∧ macKeyOf l.mac = k ∧ v = encAssignment (assignmentOf l p)

/-- every circuit-id entry was written for a lease the table holds: that lease's circuit-id has the entry's key, the
    circuit index holds that lease for its circuit-id, and the entry's bytes are that lease's assignment -/
def CidSound (s : Srv) : Prop :=
  ∀ k v, AMap.lookup s.maps.cid k = some v →
    ∃ l p, AMap.lookup s.leases l.mac = some l ∧ l.cidBytes ≠ [] ∧ cidKeyOf l.cidBytes = k ∧
      AMap.lookup s.byCid l.cidBytes = some l ∧ v = encAssignment (assignmentOf l p)

/-- every ip_pools entry is the encoding of a pool the manager holds, under that pool's id -/
def PoolsSound (s : Srv) : Prop :=
  ∀ k v, AMap.lookup s.maps.pools k = some v →
    ∃ P, AMap.lookup s.pools P.id = some P ∧ k = le32 P.id ∧ v = encPool P

/-- server_config holds the server's own address (or is still zero: never configured) -/
def CfgSound (s : Srv) : Prop :=
  ∃ c, s.maps.cfg = some c ∧ (rd32 c 8 = s.serverIp ∨ rd32 c 8 = 0)

/-- the lease table is keyed by the lease's own MAC; no lease carries VLAN tags; the VLAN map is empty; the
    circuit index points to leases of the table or to stale ones only under keys nobody else's entry depends on -/
structure Inv (s : Srv) : Prop where
  keyed : ∀ m l, AMap.lookup s.leases m = some l → l.mac = m
  untagged : ∀ m l, AMap.lookup s.leases m = some l → l.stag = 0 ∧ l.ctag = 0
  vlanEmpty : s.maps.vlan = []
  sub : SubSound s
  cid : CidSound s
  pools : PoolsSound s
  cfg : CfgSound s

theorem inv_init (now : Nat) (sip : UInt32) : Inv { now := now, serverIp := sip } :=
  { keyed := by intro m l h; simp at h
    untagged := by intro m l h; simp at h
    vlanEmpty := rfl
    sub := by intro k v h; simp at h
    cid := by intro k v h; simp at h
    pools := by intro k v h; simp at h
    cfg := ⟨List.replicate 16 0, rfl, Or.inr (by decide)⟩ }

theorem eraseCache_untagged (m : Maps) (l : Lease) (h0 : l.stag = 0 ∧ l.ctag = 0) :
    eraseCache m l = (if l.cidBytes.isEmpty then removeSubscriber m l.mac
                      else removeCidSubscriber (removeSubscriber m l.mac) l.cidBytes) := by
  unfold eraseCache
  simp [h0.1, h0.2]

theorem writeCache_untagged (m : Maps) (l : Lease) (p : PoolCfg) (h0 : l.stag = 0 ∧ l.ctag = 0) :
    writeCache m l p = (if l.cidBytes.isEmpty then addSubscriber m l.mac (assignmentOf l p)
                        else addCidSubscriber (addSubscriber m l.mac (assignmentOf l p)) l.cidBytes (assignmentOf l p)) := by
  unfold writeCache
  simp [h0.1, h0.2]

/-- dropping a lease keeps the invariant -/
theorem inv_drop {s : Srv} (h : Inv s) (l : Lease) (hl : AMap.lookup s.leases l.mac = some l) : Inv (s.drop l) := by
  have h0 := h.untagged _ _ hl
  have hmaps : (s.drop l).maps = eraseCache s.maps l := rfl
  have hleases : (s.drop l).leases = AMap.erase s.leases l.mac := rfl
  have hpools : (s.drop l).maps.pools = s.maps.pools := by
    rw [hmaps, eraseCache_untagged _ _ h0]; split <;> rfl
  have hcfg : (s.drop l).maps.cfg = s.maps.cfg := by
    rw [hmaps, eraseCache_untagged _ _ h0]; split <;> rfl
  refine { keyed := ?_, untagged := ?_, vlanEmpty := ?_, sub := ?_, cid := ?_,
           pools := by intro k v hk; rw [hpools] at hk; exact h.pools k v hk,
           cfg := by obtain ⟨c, h1, h2⟩ := h.cfg; exact ⟨c, by rw [hcfg]; exact h1, h2⟩ }
  · intro m l' hm
    rw [hleases, AMap.lookup_erase] at hm
    split at hm
    · cases hm
    · exact h.keyed m l' hm
  · intro m l' hm
    rw [hleases, AMap.lookup_erase] at hm
    split at hm
    · cases hm
    · exact h.untagged m l' hm
  · rw [hmaps, eraseCache_untagged _ _ h0]
    split <;> simp [removeSubscriber, removeCidSubscriber, h.vlanEmpty]
  · intro k v hk
    have hk' : AMap.lookup (AMap.erase s.maps.sub (macKeyOf l.mac)) k = some v := by
      rw [hmaps, eraseCache_untagged _ _ h0] at hk
      split at hk <;> simpa [removeSubscriber, removeCidSubscriber] using hk
    rw [AMap.lookup_erase] at hk'
    split at hk'
    · cases hk'
    · rename_i hne
      obtain ⟨l', p, h1, h2, h3⟩ := h.sub k v hk'
      refine ⟨l', p, ?_, h2, h3⟩
      rw [hleases, AMap.lookup_erase]
      have : l'.mac ≠ l.mac := by
        intro e
        apply hne
        rw [← h2, e]
      simp [this, h1]
  · intro k v hk
    have hbc : (s.drop l).byCid = if l.cidBytes.isEmpty then s.byCid else AMap.erase s.byCid l.cidBytes := rfl
    rw [hmaps, eraseCache_untagged _ _ h0] at hk
    by_cases hc : l.cidBytes.isEmpty
    · simp only [hc, if_true, removeSubscriber] at hk
      obtain ⟨l', p', h1, h2, h3, h4, h5⟩ := h.cid k v hk
      have hne : l'.mac ≠ l.mac := by
        intro e
        have : l' = l := by
          rw [e, hl] at h1; exact (Option.some.inj h1).symm
        rw [this] at h2
        simp at hc
        exact h2 hc
      refine ⟨l', p', ?_, h2, h3, ?_, h5⟩
      · rw [hleases, AMap.lookup_erase]; simp [hne, h1]
      · rw [hbc]; simp [hc, h4]
    · simp only [hc, if_false, removeSubscriber, removeCidSubscriber, Bool.false_eq_true] at hk
      rw [AMap.lookup_erase] at hk
      split at hk
      · cases hk
      · rename_i hne
        obtain ⟨l', p', h1, h2, h3, h4, h5⟩ := h.cid k v hk
        have hcne : l'.cidBytes ≠ l.cidBytes := by
          intro e; rw [e] at h3; exact hne h3.symm
        have hmne : l'.mac ≠ l.mac := by
          intro e
          have : l' = l := by
            rw [e, hl] at h1; exact (Option.some.inj h1).symm
          exact hcne (by rw [this])
        refine ⟨l', p', ?_, h2, h3, ?_, h5⟩
        · rw [hleases, AMap.lookup_erase]; simp [hmne, h1]
        · rw [hbc]; simp only [hc, if_false, Bool.false_eq_true]
          rw [AMap.lookup_erase]; simp [hcne, h4]

theorem lease_with_mac {s : Srv} (h : Inv s) {m : Bytes} {l : Lease} (hl : AMap.lookup s.leases m = some l) :
    { l with mac := m } = l := by
  have := h.keyed m l hl
  cases l; simp_all

theorem inv_release {s : Srv} (h : Inv s) (mac : Bytes) : Inv (s.release mac) := by
  unfold Srv.release
  split
  · rename_i l hl
    rw [lease_with_mac h hl]
    exact inv_drop h l (by rw [h.keyed mac l hl]; exact hl)
  · exact h

theorem inv_decline {s : Srv} (h : Inv s) (mac : Bytes) (o : Option UInt32) : Inv (s.decline mac o) := by
  unfold Srv.decline
  split
  · rename_i l hl
    split
    · rw [lease_with_mac h hl]
      exact inv_drop h l (by rw [h.keyed mac l hl]; exact hl)
    · exact h
  · exact h

theorem inv_cleanup {s : Srv} (h : Inv s) : Inv s.cleanup := by
  unfold Srv.cleanup
  simp only []
  generalize (List.map (·.1) (List.filter (fun e => s.after e.2) s.leases)) = ms
  induction ms generalizing s with
  | nil => exact h
  | cons m rest ih =>
    simp only [List.foldl_cons]
    apply ih
    split
    · rename_i l hl
      rw [lease_with_mac h hl]
      exact inv_drop h l (by rw [h.keyed m l hl]; exact hl)
    · exact h

/-- reading the configured address back from `encCfg` (the eight bytes before it are the MAC and two pad bytes) -/
theorem rd32_encCfg (mac : Bytes) (ip idx : UInt32) : rd32 (encCfg mac ip idx) 8 = ip := by
  have hx : ip.toNat < 4294967296 := ip.toNat_lt
  have e : UInt32.ofNat (leNat (leBytes 4 ip.toNat)) = ip := by
    have : leNat (leBytes 4 ip.toNat) = ip.toNat := by
      rw [leBytes4_eq]; simp only [leNat, UInt8.toNat_ofNat']; omega
    rw [this]; exact UInt32.ofNat_toNat
  have hm : (if mac.length ≥ 6 then mac.take 6 else List.replicate 6 0).length = 6 := by
    split <;> simp <;> omega
  match hmm : (if mac.length ≥ 6 then mac.take 6 else List.replicate 6 0), hm with
  | [m0, m1, m2, m3, m4, m5], _ =>
    simp only [encCfg, hmm, le32, leBytes4_eq, rd32, rdBytes] at *
    simpa using e

theorem inv_setCfg {s : Srv} (h : Inv s) (mac : Bytes) (idx : UInt32) :
    Inv { s with maps := setServerConfig s.maps mac s.serverIp idx } :=
  { keyed := h.keyed, untagged := h.untagged, vlanEmpty := h.vlanEmpty, sub := h.sub, cid := h.cid, pools := h.pools,
    cfg := ⟨encCfg mac s.serverIp idx, rfl, Or.inl (rd32_encCfg _ _ _)⟩ }

theorem inv_addPool {s : Srv} (h : Inv s) (p : PoolCfg) : Inv (s.addPool p) := by
  unfold Srv.addPool
  split
  · exact h
  · rename_i hnone
    refine { keyed := h.keyed, untagged := h.untagged, vlanEmpty := h.vlanEmpty, sub := h.sub, cid := h.cid,
             pools := ?_, cfg := h.cfg }
    intro k v hk
    simp only [CacheEnc.addPool, AMap.lookup_insert] at hk
    split at hk
    · rename_i e
      refine ⟨p, by simp [AMap.lookup_insert], e, (Option.some.inj hk).symm⟩
    · obtain ⟨P, h1, h2, h3⟩ := h.pools k v hk
      refine ⟨P, ?_, h2, h3⟩
      have : P.id ≠ p.id := by
        intro e; rw [e, hnone] at h1; cases h1
      simp [AMap.lookup_insert, this, h1]

theorem inv_removePool {s : Srv} (h : Inv s) (id : UInt32) : Inv (s.removePool id) := by
  unfold Srv.removePool
  split
  · exact h
  · refine { keyed := h.keyed, untagged := h.untagged, vlanEmpty := h.vlanEmpty, sub := h.sub, cid := h.cid,
             pools := ?_, cfg := h.cfg }
    intro k v hk
    simp only [AMap.lookup_erase] at hk
    split at hk
    · cases hk
    · rename_i hne
      obtain ⟨P, h1, h2, h3⟩ := h.pools k v hk
      refine ⟨P, ?_, h2, h3⟩
      have : P.id ≠ id := by
        intro e; apply hne; rw [h2, e]
      simp [AMap.lookup_erase, this, h1]

theorem inv_setDefault {s : Srv} (h : Inv s) (id : UInt32) : Inv (s.setDefault id) := by
  unfold Srv.setDefault
  split
  · exact h
  · exact { keyed := h.keyed, untagged := h.untagged, vlanEmpty := h.vlanEmpty, sub := h.sub, cid := h.cid,
            pools := h.pools, cfg := h.cfg }

theorem inv_tick {s : Srv} (h : Inv s) (n : Nat) : Inv { s with now := s.now + n } :=
  { keyed := h.keyed, untagged := h.untagged, vlanEmpty := h.vlanEmpty, sub := h.sub, cid := h.cid, pools := h.pools,
    cfg := h.cfg }

theorem staleMaps_sub (m : Maps) (st : Option Bytes) : (staleMaps m st).sub = m.sub := by cases st <;> rfl
theorem staleMaps_vlan (m : Maps) (st : Option Bytes) : (staleMaps m st).vlan = m.vlan := by cases st <;> rfl
theorem staleMaps_cid_lookup (m : Maps) (st : Option Bytes) (k : Bytes) :
    AMap.lookup (staleMaps m st).cid k =
      if (∃ c, st = some c ∧ k = cidKeyOf c) then none else AMap.lookup m.cid k := by
  cases st with
  | none => simp [staleMaps]
  | some c =>
    simp only [staleMaps, removeCidSubscriber, AMap.lookup_erase]
    by_cases h : k = cidKeyOf c <;> simp [h]
theorem staleIdx_lookup (b : AMap Bytes Lease) (st : Option Bytes) (c : Bytes) :
    AMap.lookup (staleIdx b st) c = if st = some c then none else AMap.lookup b c := by
  cases st with
  | none => simp [staleIdx]
  | some c' =>
    simp only [staleIdx, AMap.lookup_erase]
    by_cases h : c = c'
    · simp [h]
    · have : ¬ (some c' = some c) := by intro e; cases e; exact h rfl
      simp [h, this]

/-- storing a lease keeps the invariant, provided the stale erase fires whenever the replaced lease of the same MAC
    owned another circuit-id -/
theorem inv_commit {s : Srv} (h : Inv s) (p : PoolCfg) (l : Lease) (stale : Option Bytes)
    (hl0 : l.stag = 0 ∧ l.ctag = 0)
    (hstale : ∀ l0, AMap.lookup s.leases l.mac = some l0 → l0.cidBytes ≠ [] → l0.cidBytes ≠ l.cidBytes →
      AMap.lookup s.byCid l0.cidBytes = some l0 → stale = some l0.cidBytes) :
    Inv (s.commit p l stale) := by
  have hsub0 : (staleMaps s.maps stale).sub = s.maps.sub := staleMaps_sub _ _
  have hvlan0 : (staleMaps s.maps stale).vlan = s.maps.vlan := staleMaps_vlan _ _
  have hpools0 : (writeCache (staleMaps s.maps stale) l p).pools = s.maps.pools := by
    rw [writeCache_untagged _ _ _ hl0]; cases stale <;> (split <;> rfl)
  have hcfg0 : (writeCache (staleMaps s.maps stale) l p).cfg = s.maps.cfg := by
    rw [writeCache_untagged _ _ _ hl0]; cases stale <;> (split <;> rfl)
  unfold Srv.commit
  refine { keyed := ?_, untagged := ?_, vlanEmpty := ?_, sub := ?_, cid := ?_,
           pools := by intro k v hk; simp only [hpools0] at hk; exact h.pools k v hk,
           cfg := by obtain ⟨c, h1, h2⟩ := h.cfg; exact ⟨c, by simp only [hcfg0]; exact h1, h2⟩ }
  · intro m l' hm
    simp only [AMap.lookup_insert] at hm
    split at hm
    · rename_i e; cases hm; rw [e]
    · exact h.keyed m l' hm
  · intro m l' hm
    simp only [AMap.lookup_insert] at hm
    split at hm
    · cases hm; exact hl0
    · exact h.untagged m l' hm
  · simp only []
    rw [writeCache_untagged _ _ _ hl0]
    split <;> simp [addSubscriber, addCidSubscriber, hvlan0, h.vlanEmpty]
  · intro k v hk
    simp only [] at hk
    rw [writeCache_untagged _ _ _ hl0] at hk
    have hk' : AMap.lookup (AMap.insert s.maps.sub (macKeyOf l.mac) (encAssignment (assignmentOf l p))) k = some v := by
      split at hk <;> simpa [addSubscriber, addCidSubscriber, hsub0] using hk
    rw [AMap.lookup_insert] at hk'
    split at hk'
    · rename_i e
      refine ⟨l, p, ?_, ?_, ?_⟩
      · simp [AMap.lookup_insert]
      · rw [e]
      · exact (Option.some.inj hk').symm
    · rename_i hne
      obtain ⟨l', p', h1, h2, h3⟩ := h.sub k v hk'
      refine ⟨l', p', ?_, h2, h3⟩
      have : l'.mac ≠ l.mac := by
        intro e; apply hne; rw [← h2, e]
      simp [AMap.lookup_insert, this, h1]
  · intro k v hk
    simp only [] at hk
    rw [writeCache_untagged _ _ _ hl0] at hk
    -- either the entry just written, or an old one that survived the stale erase
    have hcases : (l.cidBytes ≠ [] ∧ k = cidKeyOf l.cidBytes ∧ v = encAssignment (assignmentOf l p)) ∨
        ((l.cidBytes = [] ∨ k ≠ cidKeyOf l.cidBytes) ∧ AMap.lookup (staleMaps s.maps stale).cid k = some v) := by
      by_cases hc : l.cidBytes.isEmpty
      · simp only [hc, if_true, addSubscriber] at hk
        exact Or.inr ⟨Or.inl (by simpa using hc), hk⟩
      · simp only [hc, if_false, addSubscriber, addCidSubscriber, Bool.false_eq_true] at hk
        rw [AMap.lookup_insert] at hk
        split at hk
        · rename_i e; exact Or.inl ⟨by simpa using hc, e, (Option.some.inj hk).symm⟩
        · rename_i hne; exact Or.inr ⟨Or.inr hne, hk⟩
    rcases hcases with ⟨hne, hkk, hval⟩ | ⟨hne, hold⟩
    · refine ⟨l, p, by simp [AMap.lookup_insert], hne, hkk.symm, ?_, hval⟩
      have : l.cidBytes.isEmpty = false := by
        cases hh : l.cidBytes with
        | nil => exact absurd hh hne
        | cons a b => rfl
      simp [this, AMap.lookup_insert]
    · -- an old entry: it survived in `s.maps.cid`, away from the stale key
      rw [staleMaps_cid_lookup] at hold
      have hold' : AMap.lookup s.maps.cid k = some v ∧ (∀ c, stale = some c → k ≠ cidKeyOf c) := by
        split at hold
        · cases hold
        · rename_i hn
          exact ⟨hold, fun c hc e => hn ⟨c, hc, e⟩⟩
      obtain ⟨l', p', h1, h2, h3, h4, h5⟩ := h.cid k v hold'.1
      have hdiff : l'.cidBytes ≠ l.cidBytes := by
        intro ee
        rcases hne with hn | hn
        · rw [ee] at h2; exact h2 hn
        · apply hn; rw [← h3, ee]
      -- the owner is not the lease being replaced: else the stale erase removed key k
      have hmne : l'.mac ≠ l.mac := by
        intro e
        have hl' : AMap.lookup s.leases l.mac = some l' := by rw [← e]; exact h1
        exact hold'.2 _ (hstale l' hl' h2 hdiff h4) h3.symm
      have hcne : stale ≠ some l'.cidBytes := by
        intro hc
        exact hold'.2 _ hc h3.symm
      refine ⟨l', p', by simp [AMap.lookup_insert, hmne, h1], h2, h3, ?_, h5⟩
      have hb0 : AMap.lookup (staleIdx s.byCid stale) l'.cidBytes = some l' := by
        rw [staleIdx_lookup]; simp [hcne, h4]
      by_cases hc : l.cidBytes.isEmpty
      · simp only [hc, if_true]; exact hb0
      · simp only [hc, if_false, Bool.false_eq_true]
        rw [AMap.lookup_insert]
        simp [hdiff, hb0]

/-- the ACK bookkeeping keeps the invariant -/
theorem inv_ack {s : Srv} (h : Inv s) (mac : Bytes) (ip : UInt32) (relayed : Bool) (reqCid : Option Bytes) :
    Inv (s.ack mac ip relayed reqCid) := by
  unfold Srv.ack
  simp only []
  split
  · exact h
  · rename_i p hp
    apply inv_commit h p _ _ ⟨rfl, rfl⟩
    intro l0 hl hne hdiff hby
    -- the existing lease the handler found is the table's lease of this MAC
    have hex : s.existing mac relayed reqCid = some l0 := by
      unfold Srv.existing
      have : AMap.lookup s.leases mac = some l0 := hl
      simp [this]
    rw [hex]
    unfold staleCid
    have c1 : (!l0.cidBytes.isEmpty) = true := by
      cases hh : l0.cidBytes with
      | nil => exact absurd hh hne
      | cons a b => rfl
    have c2 : (l0.cidBytes != (⟨mac, ip, p.id, s.now + p.leaseSecs.toNat + (s.subMs + p.leaseSubMs) / 1000, (s.subMs + p.leaseSubMs) % 1000,
        newCid (some l0) reqCid, 0, 0⟩ : Lease).cidBytes) = true := by
      rw [hex] at hdiff
      simpa using hdiff
    have c3 : (AMap.lookup s.byCid l0.cidBytes == some l0) = true := by simp [hby]
    simp only [c1, c2, c3, Bool.and_self, if_true]

/-- **Every history keeps the cache sound.** -/
theorem inv_step {s : Srv} (h : Inv s) (op : Op) : Inv (s.step op) := by
  cases op with
  | setCfg mac idx => exact inv_setCfg h mac idx
  | removePool id => exact inv_removePool h id
  | setDefault id => exact inv_setDefault h id
  | addPool p => exact inv_addPool h p
  | ack mac ip relayed cid => exact inv_ack h mac ip relayed cid
  | release mac => exact inv_release h mac
  | decline mac o => exact inv_decline h mac o
  | cleanup => exact inv_cleanup h
  | tick n => exact inv_tick h n
  | tickMs n => exact { keyed := h.keyed, untagged := h.untagged, vlanEmpty := h.vlanEmpty, sub := h.sub, cid := h.cid,
                        pools := h.pools, cfg := h.cfg }

theorem inv_run {s : Srv} (h : Inv s) (ops : List Op) : Inv (s.run ops) := by
  induction ops generalizing s with
  | nil => exact h
  | cons op rest ih => exact ih (inv_step h op)

end Bng.CacheEnc
