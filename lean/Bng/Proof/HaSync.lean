import Bng.Model.HaSync
/-
  Lemmas about the HA synchronisation model (C13): the full-sync computation, and the run invariant.
-/
namespace Bng.HaSync
open Bng AMap

/-! ## full sync -/

theorem nodup_tail {a : Nat × Nat} {rest : Table} (h : NodupKeys (a :: rest)) :
    a.1 ∉ keys rest ∧ NodupKeys rest := by
  unfold NodupKeys keys at *
  simp only [List.map_cons, List.nodup_cons] at h
  exact h

theorem lookup_putAll (snap : List (Nat × Nat)) (hn : NodupKeys snap) (t : Table) (k : Nat) :
    lookup (putAll t snap) k = match lookup snap k with
      | some v => some v
      | none => lookup t k := by
  induction snap generalizing t with
  | nil => simp [putAll]
  | cons p rest ih =>
    obtain ⟨a, b⟩ := p
    have ⟨hnot, hn'⟩ := nodup_tail hn
    simp only [putAll]
    rw [ih hn']
    by_cases e : a = k
    · subst e
      have : lookup rest a = none := lookup_eq_none_iff.mpr hnot
      simp [this, lookup_cons]
    · have e' : ¬ k = a := fun h => e h.symm
      simp [lookup_cons, e, lookup_insert, e']

theorem lookup_prune (r : Table) (ks : List Nat) (t : Table) (k : Nat) :
    lookup (prune r t ks) k = if k ∈ ks ∧ lookup r k = none then none else lookup t k := by
  induction ks generalizing t with
  | nil => simp [prune]
  | cons a rest ih =>
    simp only [prune]
    rw [ih]
    by_cases hc : contains r a
    · have hs : lookup r a ≠ none := by
        unfold contains at hc
        intro h; simp [h] at hc
      simp only [hc, if_true]
      by_cases e : k = a
      · subst e; simp [hs]
      · simp [e]
    · have hs : lookup r a = none := by
        unfold contains at hc
        cases h : lookup r a with
        | none => rfl
        | some v => simp [h] at hc
      simp only [hc]
      by_cases e : k = a
      · subst e; simp [hs]
      · simp [e, lookup_erase]

/-- after `performFullSync` the standby's store is the snapshot, as a map -/
theorem fullSyncApply_store (store : Table) (snap : List (Nat × Nat)) (hn : NodupKeys snap) (k : Nat) :
    lookup (fullSyncApply store snap).1 k = lookup snap k := by
  simp only [fullSyncApply]
  rw [lookup_prune, lookup_putAll snap hn, lookup_putAll snap hn]
  cases h : lookup snap k with
  | some v => simp
  | none =>
    simp only [lookup_nil]
    by_cases hm : k ∈ keys (putAll store snap)
    · simp [hm]
    · have := lookup_eq_none_iff.mpr hm
      rw [lookup_putAll snap hn, h] at this
      simp [this]

theorem fullSyncApply_received (store : Table) (snap : List (Nat × Nat)) (hn : NodupKeys snap) (k : Nat) :
    lookup (fullSyncApply store snap).2 k = lookup snap k := by
  simp only [fullSyncApply]
  rw [lookup_putAll snap hn]
  cases lookup snap k <;> simp

/-! ## messages -/

theorem touches_iff (m : Msg) (k : Nat) : m.touches k = true ↔ m.kind ≠ .heartbeat ∧ m.key = k := by
  simp [Msg.touches]

theorem lookup_applyMsg (t : Table) (m : Msg) (k : Nat) :
    lookup (applyMsg t m) k = if m.touches k then m.eff else lookup t k := by
  unfold applyMsg Msg.eff Msg.touches
  cases hk : m.kind <;> simp [lookup_insert, lookup_erase] <;>
    (by_cases e : m.key = k <;> simp [e, Ne.symm] <;> (try (intro h; exact absurd h.symm e)))

theorem nodup_applyMsg {t : Table} (h : NodupKeys t) (m : Msg) : NodupKeys (applyMsg t m) := by
  unfold applyMsg
  cases m.kind
  · exact nodupKeys_insert h _ _
  · exact nodupKeys_insert h _ _
  · exact nodupKeys_erase h _
  · exact h

/-- the effect of the last message of `l` that touches session `k` -/
def lastEff : List Msg → Nat → Option (Option Nat)
  | [], _ => none
  | m :: rest, k =>
    match lastEff rest k with
    | some e => some e
    | none => if m.touches k then some m.eff else none

theorem lastEff_append_one (l : List Msg) (m : Msg) (k : Nat) :
    lastEff (l ++ [m]) k = if m.touches k then some m.eff else lastEff l k := by
  induction l with
  | nil => simp [lastEff]
  | cons a rest ih =>
    simp only [List.cons_append, lastEff, ih]
    by_cases e : m.touches k
    · simp [e]
    · simp [e]

theorem lastEff_tail {a : Msg} {rest : List Msg} {k : Nat} {e : Option Nat}
    (h : lastEff rest k = some e) : lastEff (a :: rest) k = some e := by
  simp [lastEff, h]

theorem lastEff_suffix (pre post : List Msg) {k : Nat} {e : Option Nat}
    (h : lastEff post k = some e) : lastEff (pre ++ post) k = some e := by
  induction pre with
  | nil => simpa using h
  | cons a rest ih => exact lastEff_tail ih

theorem lastEff_none {l : List Msg} {k : Nat} : lastEff l k = none ↔ ∀ m ∈ l, m.touches k = false := by
  induction l with
  | nil => simp [lastEff]
  | cons a rest ih =>
    simp only [lastEff, List.mem_cons, forall_eq_or_imp]
    cases h : lastEff rest k with
    | some e =>
      simp only [reduceCtorEq, false_iff, not_and]
      intro _ hall
      have := ih.mpr hall
      simp [h] at this
    | none =>
      have hall := ih.mp h
      by_cases e : a.touches k
      · simp [e]
      · simp only [e, Bool.false_eq_true, if_false, true_iff]
        exact ⟨by simpa using e, hall⟩

/-- taking out a message that says nothing about `k` does not change the last word on `k` -/
theorem lastEff_remove (pre post : List Msg) (m : Msg) (k : Nat) (h : m.touches k = false) :
    lastEff (pre ++ m :: post) k = lastEff (pre ++ post) k := by
  induction pre with
  | nil =>
    simp only [List.nil_append, lastEff, h, Bool.false_eq_true, if_false]
    cases lastEff post k <;> rfl
  | cons a rest ih => simp only [List.cons_append, lastEff, ih]

theorem any_touches_iff {l : List Msg} {k : Nat} : l.any (·.touches k) = false ↔ lastEff l k = none := by
  rw [lastEff_none]
  simp [List.any_eq_false]

/-- the messages that carry a change -/
def changes (l : List Msg) : List Msg := l.filter fun m => m.kind != .heartbeat

theorem changes_append (a b : List Msg) : changes (a ++ b) = changes a ++ changes b := by
  simp [changes]

/-! ## the run invariant -/

structure Inv (s : State) : Prop where
  nodup  : NodupKeys s.table
  snapLe : s.snapSeq ≤ s.seq
  pend   : ∀ m ∈ s.pending, m.kind ≠ .heartbeat
  bound  : ∀ m ∈ changes s.bcast ++ s.pending, m.seq ≤ s.seq
  incr   : List.Pairwise (· < ·) ((changes s.bcast ++ s.pending).map (·.seq))
  chan   : ∀ ch, s.client = some ch → s.applied ++ ch = s.sent
  sub    : s.sent.Sublist s.bcast
  nodrop : s.dropped = [] → s.sent = s.bcast
  detached : s.client = none → s.bcast = []
  J      : ∀ k, k ∉ s.fullKeys → ∀ e, lastEff s.inflight k = some e → e = lookup s.table k
  S      : s.fullSynced = true → ∀ k, k ∉ s.gapKeys → k ∉ s.fullKeys →
             lookup s.store k = lookup s.table k ∨
               ∃ m ∈ s.inflight, m.touches k = true ∧ (s.snapSeq < m.seq ∨ s.client.isSome = true)

theorem inv_init (c : Cfg) : Inv (init c) := by
  constructor <;> simp [init, State.inflight, NodupKeys, keys, lastEff, changes]

theorem pairwise_append_one {l : List Nat} {x : Nat} (h : List.Pairwise (· < ·) l) (hx : ∀ y ∈ l, y < x) :
    List.Pairwise (· < ·) (l ++ [x]) := by
  rw [List.pairwise_append]
  refine ⟨h, by simp, ?_⟩
  intro a ha b hb
  simp at hb
  subst hb
  exact hx a ha

theorem changes_one {m : Msg} (h : m.kind ≠ .heartbeat) : changes [m] = [m] := by
  simp [changes, h]

theorem inv_push {s : State} (h : Inv s) (kind : Kind) (hkind : kind ≠ .heartbeat) (k v : Nat) :
    Inv (push s kind k v).1 := by
  have htouch : ∀ k', (⟨s.seq + 1, kind, k, v⟩ : Msg).touches k' = decide (k = k') := by
    intro k'
    have : (kind != Kind.heartbeat) = true := by simpa using hkind
    simp only [Msg.touches, this, Bool.true_and]
    by_cases e : k = k' <;> simp [e]
  unfold push
  split
  · -- accepted
    have hinf : ({ s with table := applyMsg s.table ⟨s.seq + 1, kind, k, v⟩, seq := s.seq + 1, pending := s.pending ++ [⟨s.seq + 1, kind, k, v⟩] } : State).inflight = s.inflight ++ [⟨s.seq + 1, kind, k, v⟩] := by
      simp [State.inflight]
    constructor
    · exact nodup_applyMsg h.nodup _
    · simp only; have := h.snapLe; omega
    · intro m hm
      simp only [List.mem_append, List.mem_singleton] at hm
      rcases hm with hm | hm
      · exact h.pend m hm
      · subst hm; exact hkind
    · intro m hm
      simp only [← List.append_assoc, List.mem_append, List.mem_singleton] at hm
      rcases hm with hm | hm
      · have := h.bound m (List.mem_append.mpr hm); simp only; omega
      · subst hm; simp
    · simp only [← List.append_assoc, List.map_append, List.map_cons, List.map_nil]
      rw [← List.map_append]
      apply pairwise_append_one h.incr
      intro y hy
      simp only [List.mem_map] at hy
      obtain ⟨m, hm, rfl⟩ := hy
      have := h.bound m hm
      omega
    · exact h.chan
    · exact h.sub
    · exact h.nodrop
    · exact h.detached
    · intro k' hk' e he
      rw [hinf, lastEff_append_one, htouch] at he
      simp only at he hk' ⊢
      rw [lookup_applyMsg, htouch]
      by_cases ek : k = k'
      · subst ek; simp at he ⊢; exact he.symm
      · simp only [ek, decide_false, Bool.false_eq_true, if_false] at he ⊢
        exact h.J k' hk' e he
    · intro hf k' hg hl
      rw [hinf]
      simp only at hf hg hl ⊢
      by_cases ek : k = k'
      · right
        refine ⟨⟨s.seq + 1, kind, k, v⟩, by simp, by rw [htouch]; simp [ek], Or.inl ?_⟩
        have := h.snapLe; simp only; omega
      · rcases h.S hf k' hg hl with hs | ⟨m, hm, hk, hc⟩
        · left; rw [lookup_applyMsg, htouch]; simp [ek]; exact hs
        · right; exact ⟨m, List.mem_append_left _ hm, hk, hc⟩
  · -- refused: the change is lost, its session is recorded
    constructor
    · exact nodup_applyMsg h.nodup _
    · simp only; have := h.snapLe; omega
    · exact h.pend
    · intro m hm; have := h.bound m hm; simp only; omega
    · exact h.incr
    · exact h.chan
    · exact h.sub
    · exact h.nodrop
    · exact h.detached
    · intro k' hk' e he
      simp only [List.mem_append, List.mem_singleton, not_or] at hk'
      have hne : ¬ k = k' := fun x => hk'.2 x.symm
      simp only [State.inflight] at he ⊢
      rw [lookup_applyMsg, htouch]
      simp only [hne, decide_false, Bool.false_eq_true, if_false]
      exact h.J k' hk'.1 e he
    · intro hf k' hg hl
      simp only [List.mem_append, List.mem_singleton, not_or] at hl
      have hne : ¬ k = k' := fun x => hl.2 x.symm
      rcases h.S hf k' hg hl.1 with hs | hw
      · left; simp only; rw [lookup_applyMsg, htouch]; simp [hne]; exact hs
      · right; exact hw

theorem inv_broadcast {s : State} (h : Inv s) : Inv (broadcast s).1 := by
  unfold broadcast
  split
  · exact h
  · rename_i m rest hp
    have hmk : m.kind ≠ .heartbeat := h.pend m (by rw [hp]; simp)
    have hpend' : ∀ x ∈ rest, x.kind ≠ .heartbeat := fun x hx => h.pend x (by rw [hp]; exact List.mem_cons_of_mem _ hx)
    split
    · -- nobody attached: the head of the queue (= the head of everything in flight) is lost
      rename_i hc
      have hb : s.bcast = [] := h.detached hc
      have hinf : s.inflight = m :: rest := by simp [State.inflight, hc, hp]
      have hinf' : ∀ g, ({ s with pending := rest, gapKeys := g } : State).inflight = rest := by
        intro g; simp [State.inflight, hc]
      constructor
      · exact h.nodup
      · exact h.snapLe
      · exact hpend'
      · intro x hx
        apply h.bound x
        simp only [hb, hp, changes, List.filter_nil, List.nil_append] at hx ⊢
        exact List.mem_cons_of_mem _ hx
      · have := h.incr
        simp only [hb, hp, changes, List.filter_nil, List.nil_append, List.map_cons, List.pairwise_cons] at this ⊢
        exact this.2
      · exact h.chan
      · exact h.sub
      · exact h.nodrop
      · exact h.detached
      · intro k hk e he
        rw [hinf'] at he
        exact h.J k hk e (by rw [hinf]; exact lastEff_tail he)
      · intro hf k hg hl
        simp only at hf hg hl ⊢
        rw [hinf']
        have hg' : k ∉ s.gapKeys ∧ (s.snapSeq < m.seq → m.key ≠ k) := by
          split at hg
          · simp only [List.mem_append, List.mem_singleton, not_or] at hg
            exact ⟨hg.1, fun _ x => hg.2 x.symm⟩
          · rename_i hlt; exact ⟨hg, fun x => absurd x hlt⟩
        rcases h.S hf k hg'.1 hl with hs | ⟨x, hx, hk, hcx⟩
        · left; exact hs
        · right
          rw [hinf] at hx
          rcases List.mem_cons.mp hx with hx | hx
          · subst hx
            rcases hcx with hcx | hcx
            · exact absurd ((touches_iff _ _).mp hk).2 (hg'.2 hcx)
            · simp [hc] at hcx
          · exact ⟨x, hx, hk, hcx⟩
    · rename_i ch hc
      split
      · -- room in the client channel
        have hinf : ({ s with pending := rest, client := some (ch ++ [m]), bcast := s.bcast ++ [m], sent := s.sent ++ [m] } : State).inflight = s.inflight := by
          simp [State.inflight, hc, hp]
        have hch : changes (s.bcast ++ [m]) = changes s.bcast ++ [m] := by
          rw [changes_append, changes_one hmk]
        constructor
        · exact h.nodup
        · exact h.snapLe
        · exact hpend'
        · intro x hx
          apply h.bound x
          simp only [hch, hp, List.append_assoc, List.singleton_append] at hx ⊢
          exact hx
        · have := h.incr
          simp only [hch, hp, List.append_assoc, List.singleton_append] at this ⊢
          exact this
        · intro ch' hch'
          simp only [Option.some.injEq] at hch'
          subst hch'
          rw [← List.append_assoc, h.chan ch hc]
        · exact List.Sublist.append h.sub (List.Sublist.refl _)
        · intro hd; simp only at hd ⊢; rw [h.nodrop hd]
        · intro hx; simp at hx
        · intro k hk e he; rw [hinf] at he; exact h.J k hk e he
        · intro hf k hg hl
          rw [hinf]
          rcases h.S hf k hg hl with hs | ⟨x, hx, hk, hcx⟩
          · left; exact hs
          · right; exact ⟨x, hx, hk, Or.inr (by simp)⟩
      · -- client channel full: the change is dropped, its session recorded
        have hch : changes (s.bcast ++ [m]) = changes s.bcast ++ [m] := by
          rw [changes_append, changes_one hmk]
        have hinf : s.inflight = ch ++ m :: rest := by simp [State.inflight, hc, hp]
        have hinf' : ({ s with pending := rest, bcast := s.bcast ++ [m], fullKeys := s.fullKeys ++ [m.key], dropped := s.dropped ++ [m] } : State).inflight = ch ++ rest := by
          simp [State.inflight, hc]
        constructor
        · exact h.nodup
        · exact h.snapLe
        · exact hpend'
        · intro x hx
          apply h.bound x
          simp only [hch, hp, List.append_assoc, List.singleton_append] at hx ⊢
          exact hx
        · have := h.incr
          simp only [hch, hp, List.append_assoc, List.singleton_append] at this ⊢
          exact this
        · exact h.chan
        · exact List.Sublist.trans h.sub (List.sublist_append_left _ _)
        · intro hd; simp at hd
        · intro hx; simp only at hx; rw [hc] at hx; simp at hx
        · intro k hk e he
          simp only [List.mem_append, List.mem_singleton, not_or] at hk
          rw [hinf'] at he
          have hnt : m.touches k = false := by
            cases ht : m.touches k with
            | false => rfl
            | true => exact absurd ((touches_iff _ _).mp ht).2.symm hk.2
          exact h.J k hk.1 e (by rw [hinf, lastEff_remove _ _ _ _ hnt]; exact he)
        · intro hf k hg hl
          simp only [List.mem_append, List.mem_singleton, not_or] at hl
          rw [hinf']
          rcases h.S hf k hg hl.1 with hs | ⟨x, hx, hk, hcx⟩
          · left; exact hs
          · right
            rw [hinf] at hx
            have hxm : x ≠ m := by
              intro e; subst e
              exact hl.2 ((touches_iff _ _).mp hk).2.symm
            refine ⟨x, ?_, hk, Or.inr (by simp [hc])⟩
            simp only [List.mem_append, List.mem_cons] at hx ⊢
            rcases hx with hx | hx | hx
            · exact Or.inl hx
            · exact absurd hx hxm
            · exact Or.inr hx

theorem inv_fullSync {s : State} (h : Inv s) : Inv (fullSync s).1 := by
  unfold fullSync
  have hinf : ∀ (st rc : Table) (a : Nat) (b : Bool) (g f : List Nat),
      ({ s with store := st, received := rc, snapSeq := a, fullSynced := b, gapKeys := g, fullKeys := f } : State).inflight
        = s.inflight := by intros; rfl
  constructor
  · exact h.nodup
  · simp
  · exact h.pend
  · exact h.bound
  · exact h.incr
  · exact h.chan
  · exact h.sub
  · exact h.nodrop
  · exact h.detached
  · intro k hk e he
    simp only at hk
    rw [hinf] at he
    by_cases hold : k ∈ s.fullKeys
    · -- dropped out of fullKeys: nothing about k is in flight
      have : s.inflight.any (·.touches k) = false := by
        cases ha : s.inflight.any (·.touches k) with
        | false => rfl
        | true => exact absurd (List.mem_filter.mpr ⟨hold, ha⟩) hk
      rw [any_touches_iff.mp this] at he
      simp at he
    · exact h.J k hold e he
  · intro _ k _ _
    left
    exact fullSyncApply_store s.store s.table h.nodup k

theorem inv_streamFull {s : State} (h : Inv s) : Inv (streamFull s).1 := by
  unfold streamFull
  split
  · exact h
  · exact inv_fullSync h

theorem inv_heartbeat {s : State} (h : Inv s) : Inv (heartbeat s).1 := by
  unfold heartbeat
  split
  · exact h
  · rename_i ch hc
    simp only
    split
    · have hbk : ∀ k, (⟨s.seq, Kind.heartbeat, 0, 0⟩ : Msg).touches k = false := by intro k; simp [Msg.touches]
      have hch : changes (s.bcast ++ [⟨s.seq, .heartbeat, 0, 0⟩]) = changes s.bcast := by
        simp [changes]
      have hinf : ({ s with client := some (ch ++ [⟨s.seq, .heartbeat, 0, 0⟩]), bcast := s.bcast ++ [⟨s.seq, .heartbeat, 0, 0⟩], sent := s.sent ++ [⟨s.seq, .heartbeat, 0, 0⟩] } : State).inflight = ch ++ ⟨s.seq, .heartbeat, 0, 0⟩ :: s.pending := by
        simp [State.inflight]
      have hinf0 : s.inflight = ch ++ s.pending := by simp [State.inflight, hc]
      constructor
      · exact h.nodup
      · exact h.snapLe
      · exact h.pend
      · simp only [hch]; exact h.bound
      · simp only [hch]; exact h.incr
      · intro ch' hch'
        simp only [Option.some.injEq] at hch'
        subst hch'
        rw [← List.append_assoc, h.chan ch hc]
      · exact List.Sublist.append h.sub (List.Sublist.refl _)
      · intro hd; simp only at hd ⊢; rw [h.nodrop hd]
      · intro hx; simp at hx
      · intro k hk e he
        rw [hinf, lastEff_remove _ _ _ _ (hbk k)] at he
        exact h.J k hk e (by rw [hinf0]; exact he)
      · intro hf k hg hl
        rw [hinf]
        rcases h.S hf k hg hl with hs | ⟨x, hx, hk, _⟩
        · left; exact hs
        · right
          rw [hinf0] at hx
          refine ⟨x, ?_, hk, Or.inr (by simp)⟩
          simp only [List.mem_append, List.mem_cons] at hx ⊢
          rcases hx with hx | hx
          · exact Or.inl hx
          · exact Or.inr (Or.inr hx)
    · exact h

theorem inv_attach {s : State} (h : Inv s) : Inv (attach s).1 := by
  unfold attach
  split
  · exact h
  · rename_i hc
    have hinf : ({ s with client := some [], bcast := [], sent := [], applied := [], dropped := [] } : State).inflight = s.inflight := by
      simp [State.inflight, hc]
    have hb := h.detached hc
    constructor
    · exact h.nodup
    · exact h.snapLe
    · exact h.pend
    · intro x hx; apply h.bound x; simp only [hb] at hx ⊢; exact hx
    · have := h.incr; simp only [hb] at this ⊢; exact this
    · intro ch hch; simp only [Option.some.injEq] at hch; subst hch; simp
    · simp
    · intro _; rfl
    · intro hx; simp at hx
    · intro k hk e he; rw [hinf] at he; exact h.J k hk e he
    · intro hf k hg hl
      rw [hinf]
      rcases h.S hf k hg hl with hs | ⟨x, hx, hk, _⟩
      · left; exact hs
      · right; exact ⟨x, hx, hk, Or.inr (by simp)⟩

theorem inv_deliver {s : State} (h : Inv s) : Inv (deliver s).1 := by
  unfold deliver
  split
  · exact h
  · exact h
  · rename_i m rest hc
    have hinf : s.inflight = m :: (rest ++ s.pending) := by simp [State.inflight, hc]
    have hinf' : ({ s with client := some rest, store := applyMsg s.store m, received := applyMsg s.received m, applied := s.applied ++ [m] } : State).inflight = rest ++ s.pending := by
      simp [State.inflight]
    constructor
    · exact h.nodup
    · exact h.snapLe
    · exact h.pend
    · exact h.bound
    · exact h.incr
    · intro ch hch
      simp only [Option.some.injEq] at hch
      subst hch
      have := h.chan _ hc
      simp only [List.append_assoc, List.singleton_append]
      exact this
    · exact h.sub
    · exact h.nodrop
    · intro hx; simp at hx
    · intro k hk e he
      rw [hinf'] at he
      exact h.J k hk e (by rw [hinf]; exact lastEff_tail he)
    · intro hf k hg hl
      simp only at hf hg hl ⊢
      rw [hinf']
      by_cases ek : m.touches k = true
      · -- the delivered message touches k
        cases hle : lastEff (rest ++ s.pending) k with
        | some e =>
          -- a later message for k is still in flight
          right
          have : ∃ x ∈ rest ++ s.pending, x.touches k = true := by
            apply Classical.byContradiction
            intro hne
            have : ∀ x ∈ rest ++ s.pending, x.touches k = false := by
              intro x hx
              cases ht : x.touches k with
              | false => rfl
              | true => exact absurd ⟨x, hx, ht⟩ hne
            have := lastEff_none.mpr this
            simp [hle] at this
          obtain ⟨x, hx, hk⟩ := this
          exact ⟨x, hx, hk, Or.inr (by simp)⟩
        | none =>
          -- it was the last word on k: by J it carries the active's current value
          left
          have hlast : lastEff s.inflight k = some m.eff := by
            rw [hinf]; simp only [lastEff, hle]; simp [ek]
          have := h.J k hl _ hlast
          rw [lookup_applyMsg]; simp [ek]
          exact this
      · rcases h.S hf k hg hl with hs | ⟨x, hx, hk, _⟩
        · left; rw [lookup_applyMsg]; simp [ek]; exact hs
        · right
          rw [hinf] at hx
          rcases List.mem_cons.mp hx with hx | hx
          · subst hx; exact absurd hk ek
          · exact ⟨x, hx, hk, Or.inr (by simp)⟩

theorem inv_disconnect {s : State} (h : Inv s) : Inv (disconnect s).1 := by
  unfold disconnect
  split
  · exact h
  · rename_i ch hc
    have hinf : s.inflight = ch ++ s.pending := by simp [State.inflight, hc]
    have hinf' : ({ s with client := none, fullSynced := false, bcast := [], sent := [], applied := [], dropped := [] } : State).inflight = s.pending := by
      simp [State.inflight]
    constructor
    · exact h.nodup
    · exact h.snapLe
    · exact h.pend
    · intro x hx
      apply h.bound x
      simp only [changes, List.filter_nil, List.nil_append] at hx
      exact List.mem_append_right _ hx
    · have := h.incr
      simp only [List.map_append, changes, List.filter_nil, List.nil_append] at this ⊢
      exact (List.pairwise_append.mp this).2.1
    · intro ch' hch'; simp at hch'
    · simp
    · intro _; rfl
    · intro _; rfl
    · intro k hk e he
      rw [hinf'] at he
      exact h.J k hk e (by rw [hinf]; exact lastEff_suffix _ _ he)
    · intro hf; simp at hf

theorem inv_step {s : State} (h : Inv s) (op : Op) : Inv (step s op).1 := by
  cases op with
  | add k v => exact inv_push h _ (by simp) _ _
  | update k v => exact inv_push h _ (by simp) _ _
  | delete k => exact inv_push h _ (by simp) _ _
  | broadcast => exact inv_broadcast h
  | fullSync => exact inv_fullSync h
  | attach => exact inv_attach h
  | deliver => exact inv_deliver h
  | disconnect => exact inv_disconnect h
  | streamFull => exact inv_streamFull h
  | heartbeat => exact inv_heartbeat h

theorem inv_run {s : State} (h : Inv s) (ops : List Op) : Inv (run s ops) := by
  induction ops generalizing s with
  | nil => exact h
  | cons op rest ih => exact ih (inv_step h op)

end Bng.HaSync
