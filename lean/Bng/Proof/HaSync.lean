import Bng.Model.HaSync
/-
  Lemmas about the HA synchronisation model (C13): the full-sync computation, and the run invariant.
-/
namespace Bng.HaSync
open Bng AMap

/-! ## full sync -/

theorem nodup_tail {a : Nat × Nat} {rest : Table} (h : NodupKeys (a :: rest)) :
    a.1 ∉ keys rest ∧ NodupKeys rest := by
  unfold NodupKeys keys at *
  simp only [List.map_cons, List.nodup_cons] at h
  exact h

theorem lookup_putAll (snap : List (Nat × Nat)) (hn : NodupKeys snap) (t : Table) (k : Nat) :
    lookup (putAll t snap) k = match lookup snap k with
      | some v => some v
      | none => lookup t k := by
  induction snap generalizing t with
  | nil => simp [putAll]
  | cons p rest ih =>
    obtain ⟨a, b⟩ := p
    have ⟨hnot, hn'⟩ := nodup_tail hn
    simp only [putAll]
    rw [ih hn']
    by_cases e : a = k
    · subst e
      have : lookup rest a = none := lookup_eq_none_iff.mpr hnot
      simp [this, lookup_cons]
    · have e' : ¬ k = a := fun h => e h.symm
      simp [lookup_cons, e, lookup_insert, e']

theorem lookup_prune (r : Table) (ks : List Nat) (t : Table) (k : Nat) :
    lookup (prune r t ks) k = if k ∈ ks ∧ lookup r k = none then none else lookup t k := by
  induction ks generalizing t with
  | nil => simp [prune]
  | cons a rest ih =>
    simp only [prune]
    rw [ih]
    by_cases hc : contains r a
    · have hs : lookup r a ≠ none := by
        unfold contains at hc
        intro h; simp [h] at hc
      simp only [hc, if_true]
      by_cases e : k = a
      · subst e; simp [hs]
      · simp [e]
    · have hs : lookup r a = none := by
        unfold contains at hc
        cases h : lookup r a with
        | none => rfl
        | some v => simp [h] at hc
      simp only [hc]
      by_cases e : k = a
      · subst e; simp [hs]
      · simp [e, lookup_erase]

/-- after `performFullSync` the standby's store is the snapshot, as a map -/
theorem fullSyncApply_store (store : Table) (snap : List (Nat × Nat)) (hn : NodupKeys snap) (k : Nat) :
    lookup (fullSyncApply store snap).1 k = lookup snap k := by
  simp only [fullSyncApply]
  rw [lookup_prune, lookup_putAll snap hn, lookup_putAll snap hn]
  cases h : lookup snap k with
  | some v => simp
  | none =>
    simp only [lookup_nil]
    by_cases hm : k ∈ keys (putAll store snap)
    · simp [hm]
    · have := lookup_eq_none_iff.mpr hm
      rw [lookup_putAll snap hn, h] at this
      simp [this]

theorem fullSyncApply_received (store : Table) (snap : List (Nat × Nat)) (hn : NodupKeys snap) (k : Nat) :
    lookup (fullSyncApply store snap).2 k = lookup snap k := by
  simp only [fullSyncApply]
  rw [lookup_putAll snap hn]
  cases lookup snap k <;> simp

/-! ## messages -/

theorem lookup_applyMsg (t : Table) (m : Msg) (k : Nat) :
    lookup (applyMsg t m) k = if k = m.key then m.eff else lookup t k := by
  unfold applyMsg Msg.eff
  cases m.kind <;> simp [lookup_insert, lookup_erase]

theorem nodup_applyMsg {t : Table} (h : NodupKeys t) (m : Msg) : NodupKeys (applyMsg t m) := by
  unfold applyMsg
  cases m.kind
  · exact nodupKeys_insert h _ _
  · exact nodupKeys_insert h _ _
  · exact nodupKeys_erase h _

/-- the effect of the last message of `l` that touches session `k` -/
def lastEff : List Msg → Nat → Option (Option Nat)
  | [], _ => none
  | m :: rest, k =>
    match lastEff rest k with
    | some e => some e
    | none => if m.key = k then some m.eff else none

theorem lastEff_append_one (l : List Msg) (m : Msg) (k : Nat) :
    lastEff (l ++ [m]) k = if m.key = k then some m.eff else lastEff l k := by
  induction l with
  | nil => simp [lastEff]
  | cons a rest ih =>
    simp only [List.cons_append, lastEff, ih]
    by_cases e : m.key = k
    · simp [e]
    · simp [e]

theorem lastEff_tail {a : Msg} {rest : List Msg} {k : Nat} {e : Option Nat}
    (h : lastEff rest k = some e) : lastEff (a :: rest) k = some e := by
  simp [lastEff, h]

theorem lastEff_suffix (pre post : List Msg) {k : Nat} {e : Option Nat}
    (h : lastEff post k = some e) : lastEff (pre ++ post) k = some e := by
  induction pre with
  | nil => simpa using h
  | cons a rest ih => exact lastEff_tail ih

theorem lastEff_none {l : List Msg} {k : Nat} : lastEff l k = none ↔ ∀ m ∈ l, m.key ≠ k := by
  induction l with
  | nil => simp [lastEff]
  | cons a rest ih =>
    simp only [lastEff, List.mem_cons, forall_eq_or_imp]
    cases h : lastEff rest k with
    | some e =>
      simp only [reduceCtorEq, false_iff, not_and]
      intro _ hall
      have := ih.mpr hall
      simp [h] at this
    | none =>
      have hall := ih.mp h
      by_cases e : a.key = k
      · simp [e]
      · simp only [e, if_false, true_iff]
        exact ⟨e, hall⟩

/-! ## the run invariant -/

structure Inv (s : State) : Prop where
  nodup  : NodupKeys s.table
  snapLe : s.snapSeq ≤ s.seq
  bound  : ∀ m ∈ s.bcast ++ s.pending, m.seq ≤ s.seq
  incr   : List.Pairwise (· < ·) ((s.bcast ++ s.pending).map (·.seq))
  chan   : ∀ ch, s.client = some ch → s.applied ++ ch = s.sent
  sub    : s.sent.Sublist s.bcast
  nodrop : s.dropEpoch = false → s.sent = s.bcast
  detached : s.client = none → s.bcast = []
  inbound : ∀ m ∈ s.inflight, m.seq ≤ s.seq
  J      : s.lostFull = false → ∀ k e, lastEff s.inflight k = some e → e = lookup s.table k
  S      : s.fullSynced = true → s.gapLost = false → s.lostFull = false →
             ∀ k, lookup s.store k = lookup s.table k ∨
               ∃ m ∈ s.inflight, m.key = k ∧ (s.snapSeq < m.seq ∨ s.client.isSome = true)

theorem inv_init (c : Cfg) : Inv (init c) := by
  constructor <;> simp [init, State.inflight, NodupKeys, keys, lastEff]

theorem pairwise_append_one {l : List Nat} {x : Nat} (h : List.Pairwise (· < ·) l) (hx : ∀ y ∈ l, y < x) :
    List.Pairwise (· < ·) (l ++ [x]) := by
  rw [List.pairwise_append]
  refine ⟨h, by simp, ?_⟩
  intro a ha b hb
  simp at hb
  subst hb
  exact hx a ha

theorem inv_push {s : State} (h : Inv s) (kind : Kind) (k v : Nat) : Inv (push s kind k v).1 := by
  unfold push
  split
  · -- accepted
    have hinf : ({ s with table := applyMsg s.table ⟨s.seq + 1, kind, k, v⟩, seq := s.seq + 1, pending := s.pending ++ [⟨s.seq + 1, kind, k, v⟩] } : State).inflight
          = s.inflight ++ [⟨s.seq + 1, kind, k, v⟩] := by
      simp [State.inflight]
    constructor
    · exact nodup_applyMsg h.nodup _
    · simp only; have := h.snapLe; omega
    · intro m hm
      simp only [← List.append_assoc, List.mem_append, List.mem_singleton] at hm
      rcases hm with hm | hm
      · have := h.bound m (List.mem_append.mpr hm); simp only; omega
      · subst hm; simp
    · simp only [← List.append_assoc, List.map_append, List.map_cons, List.map_nil]
      rw [← List.map_append]
      apply pairwise_append_one h.incr
      intro y hy
      simp only [List.mem_map] at hy
      obtain ⟨m, hm, rfl⟩ := hy
      have := h.bound m hm
      omega
    · exact h.chan
    · exact h.sub
    · exact h.nodrop
    · exact h.detached
    · rw [hinf]
      intro m hm
      simp only [List.mem_append, List.mem_singleton] at hm
      rcases hm with hm | hm
      · have := h.inbound m hm; simp only; omega
      · subst hm; simp
    · intro hl k' e he
      rw [hinf, lastEff_append_one] at he
      simp only at he hl ⊢
      rw [lookup_applyMsg]
      by_cases ek : k = k'
      · subst ek; simp at he ⊢; exact he.symm
      · have ek' : ¬ k' = k := fun x => ek x.symm
        simp only [ek, if_false] at he
        simp only [ek', if_false]
        exact h.J hl k' e he
    · intro hf hg hl k'
      rw [hinf]
      simp only at hf hg hl ⊢
      by_cases ek : k' = k
      · right
        refine ⟨⟨s.seq + 1, kind, k, v⟩, by simp, ek.symm, Or.inl ?_⟩
        have := h.snapLe; simp only; omega
      · rcases h.S hf hg hl k' with hs | ⟨m, hm, hk, hc⟩
        · left; rw [lookup_applyMsg]; simp [ek]; exact hs
        · right; exact ⟨m, List.mem_append_left _ hm, hk, hc⟩
  · -- refused: the change is lost, lostFull is raised
    constructor
    · exact nodup_applyMsg h.nodup _
    · simp only; have := h.snapLe; omega
    · intro m hm; have := h.bound m hm; simp only; omega
    · exact h.incr
    · exact h.chan
    · exact h.sub
    · exact h.nodrop
    · exact h.detached
    · intro m hm; have := h.inbound m hm; simp only; omega
    · intro hl; simp at hl
    · intro _ _ hl; simp at hl

theorem inv_broadcast {s : State} (h : Inv s) : Inv (broadcast s).1 := by
  unfold broadcast
  split
  · exact h
  · rename_i m rest hp
    split
    · -- nobody attached: the head of the queue (= the head of everything in flight) is lost
      rename_i hc
      have hb : s.bcast = [] := h.detached hc
      have hinf : s.inflight = m :: rest := by simp [State.inflight, hc, hp]
      have hinf' : ({ s with pending := rest, gapLost := s.gapLost || decide (s.snapSeq < m.seq) } : State).inflight
          = rest := by simp [State.inflight, hc]
      constructor
      · exact h.nodup
      · exact h.snapLe
      · intro x hx
        apply h.bound x
        simp only [hb, hp, List.nil_append] at hx ⊢
        exact List.mem_cons_of_mem _ hx
      · have := h.incr
        simp only [hb, hp, List.nil_append, List.map_cons, List.pairwise_cons] at this ⊢
        exact this.2
      · exact h.chan
      · exact h.sub
      · exact h.nodrop
      · exact h.detached
      · rw [hinf']; intro x hx; exact h.inbound x (by rw [hinf]; exact List.mem_cons_of_mem _ hx)
      · intro hl k e he
        rw [hinf'] at he
        exact h.J hl k e (by rw [hinf]; exact lastEff_tail he)
      · intro hf hg hl k
        simp only at hf hg hl ⊢
        have hg' : s.gapLost = false ∧ ¬ s.snapSeq < m.seq := by
          simp only [Bool.or_eq_false_iff, decide_eq_false_iff_not] at hg; exact hg
        rw [hinf']
        rcases h.S hf hg'.1 hl k with hs | ⟨x, hx, hk, hcx⟩
        · left; exact hs
        · right
          rw [hinf] at hx
          rcases List.mem_cons.mp hx with hx | hx
          · subst hx
            rcases hcx with hcx | hcx
            · exact absurd hcx hg'.2
            · simp [hc] at hcx
          · exact ⟨x, hx, hk, hcx⟩
    · rename_i ch hc
      split
      · -- room in the client channel
        have hinf : ({ s with pending := rest, client := some (ch ++ [m]), bcast := s.bcast ++ [m], sent := s.sent ++ [m] } : State).inflight = s.inflight := by
          simp [State.inflight, hc, hp]
        constructor
        · exact h.nodup
        · exact h.snapLe
        · intro x hx
          apply h.bound x
          simp only [hp, List.append_assoc, List.singleton_append] at hx ⊢
          exact hx
        · have := h.incr
          simp only [hp, List.append_assoc, List.singleton_append] at this ⊢
          exact this
        · intro ch' hch'
          simp only [Option.some.injEq] at hch'
          subst hch'
          rw [← List.append_assoc, h.chan ch hc]
        · exact List.Sublist.append h.sub (List.Sublist.refl _)
        · intro hd; simp only at hd ⊢; rw [h.nodrop hd]
        · intro hx; simp at hx
        · rw [hinf]; exact h.inbound
        · intro hl k e he; rw [hinf] at he; exact h.J hl k e he
        · intro hf hg hl k
          rw [hinf]
          rcases h.S hf hg hl k with hs | ⟨x, hx, hk, hcx⟩
          · left; exact hs
          · right; exact ⟨x, hx, hk, Or.inr (by simp)⟩
      · -- client channel full: the change is dropped
        constructor
        · exact h.nodup
        · exact h.snapLe
        · intro x hx
          apply h.bound x
          simp only [hp, List.append_assoc, List.singleton_append] at hx ⊢
          exact hx
        · have := h.incr
          simp only [hp, List.append_assoc, List.singleton_append] at this ⊢
          exact this
        · exact h.chan
        · exact List.Sublist.trans h.sub (List.sublist_append_left _ _)
        · intro hd; simp at hd
        · intro hx; simp only at hx; rw [hc] at hx; simp at hx
        · intro x hx
          apply h.inbound x
          simp only [State.inflight, hc, hp, Option.getD_some, List.mem_append, List.mem_cons] at hx ⊢
          rcases hx with hx | hx
          · exact Or.inl hx
          · exact Or.inr (Or.inr hx)
        · intro hl; simp at hl
        · intro _ _ hl; simp at hl

theorem inv_fullSync {s : State} (h : Inv s) : Inv (fullSync s).1 := by
  unfold fullSync
  have hinf : ∀ (st rc : Table) (a : Nat) (b c d : Bool),
      ({ s with store := st, received := rc, snapSeq := a, fullSynced := b, gapLost := c, lostFull := d } : State).inflight
        = s.inflight := by intros; rfl
  constructor
  · exact h.nodup
  · simp
  · exact h.bound
  · exact h.incr
  · exact h.chan
  · exact h.sub
  · exact h.nodrop
  · exact h.detached
  · exact h.inbound
  · intro hl k e he
    simp only at hl
    rw [hinf] at he
    by_cases hidle : ((s.client.getD []).isEmpty && s.pending.isEmpty) = true
    · -- nothing in flight: vacuous
      have : s.inflight = [] := by
        simp only [Bool.and_eq_true, List.isEmpty_iff] at hidle
        simp [State.inflight, hidle.1, hidle.2]
      rw [this] at he; simp [lastEff] at he
    · have : s.lostFull = false := by
        simp only [Bool.not_eq_true] at hidle
        simp only [hidle, Bool.not_false, Bool.and_true] at hl
        exact hl
      exact h.J this k e he
  · intro _ _ _ k
    left
    exact fullSyncApply_store s.store s.table h.nodup k

theorem inv_attach {s : State} (h : Inv s) : Inv (attach s).1 := by
  unfold attach
  split
  · exact h
  · rename_i hc
    have hinf : ({ s with client := some [], bcast := [], sent := [], applied := [], dropEpoch := false } : State).inflight
        = s.inflight := by simp [State.inflight, hc]
    have hb := h.detached hc
    constructor
    · exact h.nodup
    · exact h.snapLe
    · intro x hx; apply h.bound x; simp only [hb] at hx ⊢; exact hx
    · have := h.incr; simp only [hb] at this ⊢; exact this
    · intro ch hch; simp only [Option.some.injEq] at hch; subst hch; simp
    · simp
    · intro _; rfl
    · intro hx; simp at hx
    · rw [hinf]; exact h.inbound
    · intro hl k e he; rw [hinf] at he; exact h.J hl k e he
    · intro hf hg hl k
      rw [hinf]
      rcases h.S hf hg hl k with hs | ⟨x, hx, hk, _⟩
      · left; exact hs
      · right; exact ⟨x, hx, hk, Or.inr (by simp)⟩

theorem inv_deliver {s : State} (h : Inv s) : Inv (deliver s).1 := by
  unfold deliver
  split
  · exact h
  · exact h
  · rename_i m rest hc
    have hinf : s.inflight = m :: (rest ++ s.pending) := by simp [State.inflight, hc]
    have hinf' : ({ s with client := some rest, store := applyMsg s.store m, received := applyMsg s.received m, applied := s.applied ++ [m] } : State).inflight = rest ++ s.pending := by simp [State.inflight]
    constructor
    · exact h.nodup
    · exact h.snapLe
    · exact h.bound
    · exact h.incr
    · intro ch hch
      simp only [Option.some.injEq] at hch
      subst hch
      have := h.chan _ hc
      simp only [List.append_assoc, List.singleton_append]
      exact this
    · exact h.sub
    · exact h.nodrop
    · intro hx; simp at hx
    · rw [hinf']; intro x hx; exact h.inbound x (by rw [hinf]; exact List.mem_cons_of_mem _ hx)
    · intro hl k e he
      rw [hinf'] at he
      exact h.J hl k e (by rw [hinf]; exact lastEff_tail he)
    · intro hf hg hl k
      simp only at hf hg hl ⊢
      rw [hinf']
      by_cases ek : k = m.key
      · -- the delivered message touches k
        cases hle : lastEff (rest ++ s.pending) k with
        | some e =>
          -- a later message for k is still in flight
          right
          have : ¬ ∀ x ∈ rest ++ s.pending, x.key ≠ k := by
            intro hall; have := lastEff_none.mpr hall; simp [hle] at this
          have : ∃ x ∈ rest ++ s.pending, x.key = k := by
            apply Classical.byContradiction
            intro hne
            apply this
            intro x hx hk
            exact hne ⟨x, hx, hk⟩
          obtain ⟨x, hx, hk⟩ := this
          exact ⟨x, hx, hk, Or.inr (by simp)⟩
        | none =>
          -- it was the last word on k: by J it carries the active's current value
          left
          have hlast : lastEff s.inflight k = some m.eff := by
            rw [hinf]; simp only [lastEff, hle]; simp [ek]
          have := h.J hl k _ hlast
          rw [lookup_applyMsg]; simp [ek]
          rw [ek] at this
          exact this
      · rcases h.S hf hg hl k with hs | ⟨x, hx, hk, _⟩
        · left; rw [lookup_applyMsg]; simp [ek]; exact hs
        · right
          rw [hinf] at hx
          rcases List.mem_cons.mp hx with hx | hx
          · subst hx; exact absurd hk.symm ek
          · exact ⟨x, hx, hk, Or.inr (by simp)⟩

theorem inv_disconnect {s : State} (h : Inv s) : Inv (disconnect s).1 := by
  unfold disconnect
  split
  · exact h
  · rename_i ch hc
    have hinf : s.inflight = ch ++ s.pending := by simp [State.inflight, hc]
    have hinf' : ({ s with client := none, fullSynced := false, bcast := [], sent := [], applied := [], dropEpoch := false } : State).inflight = s.pending := by simp [State.inflight]
    constructor
    · exact h.nodup
    · exact h.snapLe
    · intro x hx
      apply h.bound x
      simp only [List.nil_append] at hx
      exact List.mem_append_right _ hx
    · have := h.incr
      simp only [List.map_append, List.nil_append] at this ⊢
      exact (List.pairwise_append.mp this).2.1
    · intro ch' hch'; simp at hch'
    · simp
    · intro _; rfl
    · intro _; rfl
    · rw [hinf']; intro x hx; exact h.inbound x (by rw [hinf]; exact List.mem_append_right _ hx)
    · intro hl k e he
      rw [hinf'] at he
      exact h.J hl k e (by rw [hinf]; exact lastEff_suffix _ _ he)
    · intro hf; simp at hf

theorem inv_step {s : State} (h : Inv s) (op : Op) : Inv (step s op).1 := by
  cases op with
  | add k v => exact inv_push h _ _ _
  | update k v => exact inv_push h _ _ _
  | delete k => exact inv_push h _ _ _
  | broadcast => exact inv_broadcast h
  | fullSync => exact inv_fullSync h
  | attach => exact inv_attach h
  | deliver => exact inv_deliver h
  | disconnect => exact inv_disconnect h

theorem inv_run {s : State} (h : Inv s) (ops : List Op) : Inv (run s ops) := by
  induction ops generalizing s with
  | nil => exact h
  | cons op rest ih => exact ih (inv_step h op)

end Bng.HaSync
