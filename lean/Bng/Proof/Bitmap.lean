import Bng.Model.Bitmap
/-
  Invariant of the bitmap allocator model and its preservation by every operation.
-/
namespace Bng.Bitmap
open Bng AMap

/-- What must hold of every reachable allocator state. -/
structure Inv (s : State) : Prop where
  /-- forward and reverse maps are mutually inverse -/
  fwd : ∀ k i, s.allocated.lookup k = some i → s.idx2sub.lookup i = some k
  bwd : ∀ k i, s.idx2sub.lookup i = some k → s.allocated.lookup k = some i
  /-- a bit is set exactly when the unit has a holder -/
  bit : ∀ i, i ∈ s.bits ↔ (s.idx2sub.lookup i).isSome
  /-- held units are inside the pool -/
  lt : ∀ k i, s.allocated.lookup k = some i → i < s.cfg.total
  /-- no duplicate keys, so that `length` counts subscribers -/
  nd : NodupKeys s.allocated
  /-- the counter is the number of holders -/
  cnt : s.count = s.allocated.length
  /-- everything below the hint is taken unless a SetAllocation move cleared it (`hintOK`) -/
  cfgOK : s.cfg.plen - s.cfg.poolPrefix < 64

theorem scan_some {bits : List Nat} {i n j : Nat} (h : scan bits i n = some j) :
    i ≤ j ∧ j < i + n ∧ j ∉ bits ∧ ∀ k, i ≤ k → k < j → k ∈ bits := by
  induction n generalizing i with
  | zero => simp [scan] at h
  | succ n ih =>
    unfold scan at h
    by_cases hm : i ∈ bits
    · simp [hm] at h
      obtain ⟨h1, h2, h3, h4⟩ := ih h
      refine ⟨by omega, by omega, h3, ?_⟩
      intro k hk1 hk2
      by_cases e : k = i
      · subst e; exact hm
      · exact h4 k (by omega) hk2
    · simp [hm] at h
      subst h
      exact ⟨Nat.le_refl _, by omega, hm, fun k h1 h2 => by omega⟩

theorem scan_none {bits : List Nat} {i n : Nat} (h : scan bits i n = none) :
    ∀ k, i ≤ k → k < i + n → k ∈ bits := by
  induction n generalizing i with
  | zero => intro k h1 h2; omega
  | succ n ih =>
    unfold scan at h
    by_cases hm : i ∈ bits
    · simp [hm] at h
      intro k h1 h2
      by_cases e : k = i
      · subst e; exact hm
      · exact ih h k (by omega) (by omega)
    · simp [hm] at h

theorem findFree_some {s : State} {i : Nat} (h : findFree s = some i) :
    i < s.cfg.total ∧ i ∉ s.bits := by
  unfold findFree at h
  simp only at h
  split at h
  · rename_i j hj
    simp at h; subst h
    obtain ⟨h1, h2, h3, _⟩ := scan_some hj
    refine ⟨?_, h3⟩
    split at h2 <;> omega
  · rename_i hj
    obtain ⟨h1, h2, h3, _⟩ := scan_some h
    refine ⟨?_, h3⟩
    split at h2 <;> omega

/-- exhaustion is reported only when every unit's bit is set -/
theorem findFree_none {s : State} (h : findFree s = none) :
    ∀ i, i < s.cfg.total → i ∈ s.bits := by
  unfold findFree at h
  simp only at h
  split at h
  · simp at h
  · rename_i hj
    intro i hi
    have h1 := scan_none hj
    have h2 := scan_none h
    by_cases hn : s.nextFree ≥ s.cfg.total
    · simp only [hn, if_true] at h1
      exact h1 i (Nat.zero_le _) (by omega)
    · simp only [hn, if_false] at h1 h2
      by_cases c : s.nextFree ≤ i
      · exact h1 i c (by omega)
      · exact h2 i (Nat.zero_le _) (by omega)

theorem total_eq {c : Cfg} (h : c.plen - c.poolPrefix < 64) : c.total = c.totalBig := by
  unfold Cfg.total Cfg.totalBig
  apply Nat.mod_eq_of_lt
  exact Nat.pow_lt_pow_right (by omega) h

theorem inv_init (c : Cfg) (h : c.plen - c.poolPrefix < 64) : Inv (init c) := by
  refine ⟨?_, ?_, ?_, ?_, nodupKeys_nil, ?_, h⟩ <;> simp [init]

/-- the common "give unit i to k" update, used by alloc, allocSpecific and setAllocation -/
theorem not_bit_lookup {s : State} (hI : Inv s) {i : Nat} (hi : i ∉ s.bits) :
    s.idx2sub.lookup i = none := by
  cases e : s.idx2sub.lookup i with
  | none => rfl
  | some k => exact absurd ((hI.bit i).mpr (by simp [e])) hi

theorem inv_give {s : State} (hI : Inv s) {k i : Nat}
    (hk : s.allocated.lookup k = none) (hi : i ∉ s.bits) (hlt : i < s.cfg.total)
    (nf : Nat) :
    Inv (give s k i nf) := by
  unfold give
  have hinone : s.idx2sub.lookup i = none := not_bit_lookup hI hi
  refine ⟨?_, ?_, ?_, ?_, nodupKeys_insert hI.nd _ _, ?_, hI.cfgOK⟩
  · intro k' i' h
    simp only [lookup_insert] at h ⊢
    by_cases e : k' = k
    · subst e
      simp only [if_true, Option.some.injEq] at h
      subst h; simp
    · simp only [e, if_false] at h
      have h2 := hI.fwd k' i' h
      by_cases e2 : i' = i
      · subst e2; rw [hinone] at h2; simp at h2
      · simp only [e2, if_false]; exact h2
  · intro k' i' h
    simp only [lookup_insert] at h ⊢
    by_cases e2 : i' = i
    · subst e2
      simp only [if_true, Option.some.injEq] at h
      subst h; simp
    · simp only [e2, if_false] at h
      have h2 := hI.bwd k' i' h
      by_cases e : k' = k
      · subst e; rw [hk] at h2; simp at h2
      · simp only [e, if_false]; exact h2
  · intro j
    simp only [mem_setBit, lookup_insert]
    by_cases e : j = i
    · simp [e]
    · simp [e, hI.bit j]
  · intro k' i' h
    simp only [lookup_insert] at h
    by_cases e : k' = k
    · subst e
      simp only [if_true, Option.some.injEq] at h
      subst h; exact hlt
    · simp only [e, if_false] at h; exact hI.lt k' i' h
  · show s.count + 1 = ((AMap.insert s.allocated k i).length : Int)
    unfold AMap.insert
    rw [List.length_cons, length_erase_of_none hk, hI.cnt]
    omega

/-- the common "take unit i away from k" update, used by release and releasePrefix -/
theorem inv_take {s : State} (hI : Inv s) {k i : Nat}
    (hk : s.allocated.lookup k = some i) (nf : Nat) :
    Inv (take s k i nf) := by
  unfold take
  have hik := hI.fwd k i hk
  refine ⟨?_, ?_, ?_, ?_, nodupKeys_erase hI.nd _, ?_, hI.cfgOK⟩
  · intro k' i' h
    simp only [lookup_erase] at h ⊢
    by_cases e : k' = k
    · simp [e] at h
    · simp only [e, if_false] at h
      have h2 := hI.fwd k' i' h
      by_cases e2 : i' = i
      · subst e2; rw [hik] at h2; simp at h2; exact absurd h2.symm e
      · simp only [e2, if_false]; exact h2
  · intro k' i' h
    simp only [lookup_erase] at h ⊢
    by_cases e2 : i' = i
    · simp [e2] at h
    · simp only [e2, if_false] at h
      have h2 := hI.bwd k' i' h
      by_cases e : k' = k
      · subst e; rw [hk] at h2; simp at h2; exact absurd h2.symm e2
      · simp only [e, if_false]; exact h2
  · intro j
    simp only [mem_clearBit, lookup_erase]
    by_cases e : j = i
    · simp [e]
    · simp [e, hI.bit j]
  · intro k' i' h
    simp only [lookup_erase] at h
    by_cases e : k' = k
    · simp [e] at h
    · simp only [e, if_false] at h; exact hI.lt k' i' h
  · show s.count - 1 = ((AMap.erase s.allocated k).length : Int)
    have := length_erase_of_lookup hI.nd hk
    rw [hI.cnt]
    omega

theorem indexOf_lt {c : Cfg} (h : c.plen - c.poolPrefix < 64) {a o i : Nat}
    (hi : indexOf c a o = some i) : i < c.total := by
  unfold indexOf at hi
  split at hi; · simp at hi
  split at hi; · simp at hi
  simp only at hi
  split at hi; · simp at hi
  rename_i h3
  simp at hi
  rw [total_eq h]
  have : (a - c.base) / c.step < c.totalBig := by omega
  have h64 : c.totalBig ≤ 2 ^ 64 := by
    unfold Cfg.totalBig
    exact Nat.pow_le_pow_right (by omega) (by omega)
  rw [Nat.mod_eq_of_lt (by omega)] at hi
  omega

theorem inv_alloc {s : State} (hI : Inv s) (k : Nat) : Inv (alloc s k).1 := by
  unfold alloc
  split
  · exact hI
  · rename_i hk
    split
    · exact hI
    · rename_i i hf
      obtain ⟨h1, h2⟩ := findFree_some hf
      exact inv_give hI hk h2 h1 _

theorem inv_allocSpecific {s : State} (hI : Inv s) (k a o : Nat) :
    Inv (allocSpecific s k a o).1 := by
  unfold allocSpecific
  split
  · exact hI
  · rename_i i hi
    split
    · split <;> exact hI
    · rename_i hb
      split
      · exact hI
      · rename_i hk
        have hk' : s.allocated.lookup k = none := by
          cases e : s.allocated.lookup k <;> simp [e] at hk ⊢
        exact inv_give hI hk' hb (indexOf_lt hI.cfgOK hi) _

theorem inv_release {s : State} (hI : Inv s) (k : Nat) : Inv (release s k).1 := by
  unfold release
  split
  · exact hI
  · rename_i i hk
    exact inv_take hI hk _

theorem inv_releasePrefix {s : State} (hI : Inv s) (a o : Nat) : Inv (releasePrefix s a o).1 := by
  unfold releasePrefix
  split
  · exact hI
  · rename_i i hi
    split
    · exact hI
    · rename_i hb
      have hb' : i ∈ s.bits := by simpa using hb
      have := (hI.bit i).mp hb'
      split
      · rename_i k e
        exact inv_take hI (hI.bwd k i e) _
      · rename_i e
        simp [e] at this

theorem inv_setIt {s : State} (hI : Inv s) (k i : Nat) (hlt : i < s.cfg.total)
    (hfree : s.idx2sub.lookup i = none ∨ s.idx2sub.lookup i = some k) :
    Inv (setAllocation.setIt s k i).1 := by
  unfold setAllocation.setIt
  split
  · rename_i old hold
    split
    · rename_i hne
      have hik : s.idx2sub.lookup i = none := by
        rcases hfree with h | h
        · exact h
        · have := hI.bwd k i h; rw [hold] at this; simp at this; exact absurd this hne
      have h1 := inv_take hI hold s.nextFree
      apply inv_give h1
      · simp [take]
      · simp only [take, mem_clearBit]
        intro ⟨hm, _⟩
        have := (hI.bit i).mp hm
        rw [hik] at this; simp at this
      · exact hlt
    · exact hI
  · rename_i hk
    have hik : s.idx2sub.lookup i = none := by
      rcases hfree with h | h
      · exact h
      · have := hI.bwd k i h; rw [hk] at this; simp at this
    have hb : i ∉ s.bits := by
      intro hm; have := (hI.bit i).mp hm; rw [hik] at this; simp at this
    exact inv_give hI hk hb hlt _

theorem inv_setAllocation {s : State} (hI : Inv s) (k a o : Nat) :
    Inv (setAllocation s k a o).1 := by
  unfold setAllocation
  split
  · exact hI
  · rename_i i hi
    have hlt := indexOf_lt hI.cfgOK hi
    split
    · rename_i k' hk'
      split
      · exact hI
      · rename_i hne
        have : k' = k := by simpa using hne
        subst this
        exact inv_setIt hI _ i hlt (Or.inr hk')
    · rename_i hnone
      exact inv_setIt hI k i hlt (Or.inl hnone)

/-- rebuilding the reverse index from `allocated` -/
theorem rebuild_lookup_aux (i k : Nat) : ∀ (m : AMap Nat Nat) (acc : AMap Nat Nat), NodupKeys m →
      (∀ k k' i, AMap.lookup m k = some i → AMap.lookup m k' = some i → k = k') →
      (∀ k i, AMap.lookup acc i = some k →
          AMap.lookup m k = none ∧ ∀ k', AMap.lookup m k' ≠ some i) →
      (AMap.lookup (rebuildFrom acc m) i = some k ↔
        (AMap.lookup m k = some i ∨ AMap.lookup acc i = some k)) := by
  intro m
  induction m with
  | nil => intro acc _ _ _; simp [rebuildFrom]
  | cons p rest ih =>
    intro acc hn hinj hacc
    obtain ⟨pk, pi⟩ := p
    have hn' : NodupKeys rest := by
      unfold NodupKeys keys at hn ⊢; simp at hn; exact hn.2
    have hpk : AMap.lookup rest pk = none := by
      apply lookup_eq_none_iff.mpr
      unfold NodupKeys keys at hn; simp at hn
      intro hm; simp [keys] at hm; obtain ⟨x, hx⟩ := hm; exact hn.1 x hx
    have lift : ∀ k i, AMap.lookup rest k = some i → AMap.lookup ((pk, pi) :: rest) k = some i := by
      intro k i h
      rw [lookup_cons]; by_cases e : pk = k
      · subst e; rw [hpk] at h; simp at h
      · simp only [e, if_false]; exact h
    have hinj' : ∀ k k' i, AMap.lookup rest k = some i → AMap.lookup rest k' = some i → k = k' :=
      fun k k' i h1 h2 => hinj k k' i (lift _ _ h1) (lift _ _ h2)
    have hpi : ∀ k', AMap.lookup rest k' ≠ some pi := by
      intro k' h
      have h1 : AMap.lookup ((pk, pi) :: rest) pk = some pi := by simp [lookup_cons]
      have := hinj pk k' pi h1 (lift _ _ h)
      subst this; rw [hpk] at h; simp at h
    have hstep : rebuildFrom acc ((pk, pi) :: rest) = rebuildFrom (AMap.insert acc pi pk) rest := by
      simp [rebuildFrom]
    rw [hstep, ih (AMap.insert acc pi pk) hn' hinj']
    · simp only [lookup_insert, lookup_cons]
      by_cases e1 : pk = k
      · subst e1
        by_cases e2 : i = pi
        · subst e2; simp [hpk]
        · have e2' : ¬ pi = i := fun e => e2 e.symm
          simp [hpk, e2, e2']
      · by_cases e2 : i = pi
        · subst e2
          have e1' : ¬ k = pk := fun e => e1 e.symm
          simp only [e1, if_false, if_true, Option.some.injEq]
          constructor
          · intro h; rcases h with h | h
            · exact absurd h (hpi k)
            · exact h.elim
          · intro h; rcases h with h | h
            · exact absurd h (hpi k)
            · have := (hacc _ _ h).2 pk
              simp [lookup_cons] at this
        · simp only [e1, e2, if_false]
    · intro k0 i0 h
      simp only [lookup_insert] at h
      by_cases e : i0 = pi
      · simp only [e, if_true, Option.some.injEq] at h; subst h; subst e
        exact ⟨hpk, hpi⟩
      · simp only [e, if_false] at h
        have := hacc k0 i0 h
        constructor
        · have h1 := this.1
          rw [lookup_cons] at h1
          by_cases e3 : pk = k0
          · simp [e3] at h1
          · simpa [e3] using h1
        · intro k' hk'
          exact this.2 k' (lift _ _ hk')

theorem rebuild_lookup (m : AMap Nat Nat) (hn : NodupKeys m)
    (hinj : ∀ k k' i, AMap.lookup m k = some i → AMap.lookup m k' = some i → k = k') (i k : Nat) :
    AMap.lookup (rebuildFrom [] m) i = some k ↔ AMap.lookup m k = some i := by
  have := rebuild_lookup_aux i k m [] hn hinj (by intro k i h; simp at h)
  simpa using this

theorem inv_roundtrip {s : State} (hI : Inv s) : Inv (roundtrip s) := by
  have hinj : ∀ k k' i, s.allocated.lookup k = some i → s.allocated.lookup k' = some i → k = k' := by
    intro k k' i h1 h2
    have a := hI.fwd k i h1
    have b := hI.fwd k' i h2
    rw [a] at b; simpa using b
  have hrb := rebuild_lookup s.allocated hI.nd hinj
  refine ⟨?_, ?_, ?_, hI.lt, hI.nd, ?_, hI.cfgOK⟩
  · intro k i h; exact (hrb i k).mpr h
  · intro k i h; exact (hrb i k).mp h
  · intro i
    simp only [roundtrip]
    rw [hI.bit i]
    constructor
    · intro h
      cases e : s.idx2sub.lookup i with
      | none => simp [e] at h
      | some k =>
        have := (hrb i k).mpr (hI.bwd k i e)
        simp [this]
    · intro h
      cases e : AMap.lookup (rebuildFrom [] s.allocated) i with
      | none => simp [e] at h
      | some k =>
        have := hI.fwd k i ((hrb i k).mp e)
        simp [this]
  · simp [roundtrip]

theorem inv_step {s : State} (hI : Inv s) (op : Op) : Inv (step s op).1 := by
  cases op <;> simp only [step]
  · exact inv_alloc hI _
  · exact inv_allocSpecific hI _ _ _
  · exact inv_release hI _
  · exact inv_releasePrefix hI _ _
  · exact hI
  · exact hI
  · exact hI
  · exact hI
  · exact inv_setAllocation hI _ _ _
  · exact inv_roundtrip hI
  · exact hI

theorem inv_run {s : State} (hI : Inv s) (ops : List Op) : Inv (run s ops) := by
  induction ops generalizing s with
  | nil => exact hI
  | cons op ops ih =>
    simp only [run, List.foldl_cons]
    exact ih (inv_step hI op)

/-- pigeonhole: there are never more holders than units -/
theorem length_le_total {s : State} (hI : Inv s) : s.allocated.length ≤ s.cfg.total := by
  have hinj : ∀ k k' i, s.allocated.lookup k = some i → s.allocated.lookup k' = some i → k = k' := by
    intro k k' i h1 h2
    have a := hI.fwd k i h1
    have b := hI.fwd k' i h2
    rw [a] at b; simpa using b
  have hnd := vals_nodup hI.nd hinj
  have hsub : vals s.allocated ⊆ List.range s.cfg.total := by
    intro i hi
    simp only [vals, List.mem_map] at hi
    obtain ⟨⟨k, i'⟩, hmem, e⟩ := hi
    simp only at e; subst e
    exact List.mem_range.mpr (hI.lt k i' (lookup_of_mem hI.nd hmem))
  have := List.Nodup.length_le_of_subset hnd hsub
  simpa [vals] using this

theorem step_cfg (s : State) (op : Op) : (step s op).1.cfg = s.cfg := by
  cases op <;> simp only [step]
  · unfold alloc; split <;> try rfl
    split <;> rfl
  · unfold allocSpecific; split <;> try rfl
    split
    · split <;> rfl
    · split <;> rfl
  · unfold release; split <;> rfl
  · unfold releasePrefix; split <;> try rfl
    split <;> try rfl
    split <;> rfl
  · unfold setAllocation; split <;> try rfl
    split
    · split <;> try rfl
      unfold setAllocation.setIt; split <;> try rfl
      split <;> rfl
    · unfold setAllocation.setIt; split <;> try rfl
      split <;> rfl
  · rfl

theorem run_cfg (s : State) (ops : List Op) : (run s ops).cfg = s.cfg := by
  induction ops generalizing s with
  | nil => rfl
  | cons op ops ih =>
    simp only [run, List.foldl_cons]
    have := ih (step s op).1
    simp only [run] at this
    rw [this, step_cfg]

end Bng.Bitmap
