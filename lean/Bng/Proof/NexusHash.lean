import Bng.Model.NexusHash
import Bng.Proof.IPArith
/-
  Helper lemmas for the hash allocator: the pigeonhole principle on `Nat → Nat`, and the
  arithmetic of `base / 2^h * 2^h` (masking).
-/
namespace Bng.NexusHash
open Bng.IPArith

/-- pigeonhole: n values below m < n cannot be pairwise different -/
theorem pigeonhole (f : Nat → Nat) (m n : Nat) (hf : ∀ i, i < n → f i < m) (hmn : m < n) :
    ∃ i j, i < j ∧ j < n ∧ f i = f j := by
  by_cases h : ∃ i j, i < j ∧ j < n ∧ f i = f j
  · exact h
  · exfalso
    have hne : ∀ i j, i < j → j < n → f i ≠ f j := by
      intro i j hij hj e
      exact h ⟨i, j, hij, hj, e⟩
    have hnd : ((List.range n).map f).Nodup := by
      rw [List.nodup_iff_pairwise_ne]
      refine List.Pairwise.map f ?_
        (List.Pairwise.imp_of_mem (S := fun i j => i < j ∧ j < n) ?_ (List.pairwise_lt_range (n := n)))
      · intro i j ⟨hij, hj⟩; exact hne i j hij hj
      · intro i j _ hj hij; exact ⟨hij, List.mem_range.mp hj⟩
    have hsub : (List.range n).map f ⊆ List.range m := by
      intro x hx
      obtain ⟨i, hi, e⟩ := List.mem_map.mp hx
      subst e
      exact List.mem_range.mpr (hf i (List.mem_range.mp hi))
    have := List.Nodup.length_le_of_subset hnd hsub
    simp at this
    omega

theorem Cfg.hostBits_le (c : Cfg) : c.hostBits ≤ 32 := by unfold Cfg.hostBits; omega

theorem Cfg.net_aligned (c : Cfg) : c.net % 2 ^ c.hostBits = 0 := by
  unfold Cfg.net; exact Nat.mul_mod_left _ _

theorem Cfg.net_le (c : Cfg) : c.net ≤ c.base := by
  unfold Cfg.net; exact Nat.div_mul_le_self _ _

theorem offset_bounds (c : Cfg) (hpos : c.numHosts ≠ 0) (h : Nat) :
    1 ≤ offset c h ∧ offset c h ≤ c.numHosts ∧ offset c h + 1 < 2 ^ c.hostBits := by
  unfold offset
  have := Nat.mod_lt h (Nat.pos_of_ne_zero hpos)
  refine ⟨by omega, by omega, ?_⟩
  unfold Cfg.numHosts at this hpos ⊢
  omega

/-- the address computed for hash `h` is numerically `net + offset` -/
theorem addrOfHash_eq (c : Cfg) (hb : c.base < 2 ^ 32) (hpos : c.numHosts ≠ 0) (h : Nat) :
    addrOfHash c h = some (c.net + offset c h) := by
  unfold addrOfHash
  simp only [hpos, if_false]
  have ob := offset_bounds c hpos h
  rw [addBytes4_eq c.net (offset c h) c.hostBits c.hostBits_le
    (Nat.lt_of_le_of_lt c.net_le hb) c.net_aligned (by omega)]

end Bng.NexusHash
