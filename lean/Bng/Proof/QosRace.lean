import Bng.Model.QosRace
/-
  Two control-plane calls of qos.Manager under the manager's lock: invariant of the interleaved execution
  (`Good`), its preservation by every step of either call, and completion of both calls by the harness's drain word.
-/
set_option linter.unusedSimpArgs false

namespace Bng.QosRace
open Bng Bng.TokenBucket

/-- the reachable configurations of two calls under the lock: nobody holds it and each call has made none or all of its
    writes; or one call holds it, is one or two writes into its work, and the other has made none or all of its own -/
def Good (a b : Call) (c : Ctl) (r : Race) : Prop :=
  match r.holder with
  | none => (r.pcA = 0 ∨ r.pcA = 3) ∧ (r.pcB = 0 ∨ r.pcB = 3) ∧
      (r.ctl = pre b r.pcB (pre a r.pcA c) ∨ r.ctl = pre a r.pcA (pre b r.pcB c))
  | some true => (r.pcA = 1 ∨ r.pcA = 2) ∧ (r.pcB = 0 ∨ r.pcB = 3) ∧ r.ctl = pre a r.pcA (pre b r.pcB c)
  | some false => (r.pcB = 1 ∨ r.pcB = 2) ∧ (r.pcA = 0 ∨ r.pcA = 3) ∧ r.ctl = pre b r.pcB (pre a r.pcA c)

theorem good_init (a b : Call) (c : Ctl) : Good a b c { ctl := c } := by
  simp [Good, pre]

theorem good_step (a b : Call) (c : Ctl) (r : Race) (h : Good a b c r) (who : Bool) :
    Good a b c (Race.step true a b r who) := by
  obtain ⟨ctl, pcA, pcB, holder, blocked⟩ := r
  unfold Good at h
  cases holder with
  | none =>
    simp only at h
    obtain ⟨hA, hB, hc⟩ := h
    rcases hA with rfl | rfl <;> rcases hB with rfl | rfl <;> cases who <;>
      simp [Race.step, Race.pc, Good, pre, Call.run] at hc ⊢ <;> (try rcases hc with rfl | rfl) <;> simp [pre, Call.run]
  | some w =>
    cases w with
    | true =>
      simp only at h
      obtain ⟨hA, hB, rfl⟩ := h
      rcases hA with rfl | rfl <;> rcases hB with rfl | rfl <;> cases who <;>
        simp [Race.step, Race.pc, Good, pre, Call.run]
    | false =>
      simp only at h
      obtain ⟨hB, hA, rfl⟩ := h
      rcases hA with rfl | rfl <;> rcases hB with rfl | rfl <;> cases who <;>
        simp [Race.step, Race.pc, Good, pre, Call.run]

theorem good_steps (a b : Call) (c : Ctl) (sched : List Bool) (r : Race) (h : Good a b c r) :
    Good a b c (Race.steps true a b r sched) := by
  unfold Race.steps
  induction sched generalizing r with
  | nil => exact h
  | cons w rest ih => exact ih _ (good_step a b c r h w)

/-- from every reachable configuration the drain word completes both calls -/
theorem drain_completes (a b : Call) (c : Ctl) (r : Race) (h : Good a b c r) :
    (Race.steps true a b r drain).pcA = 3 ∧ (Race.steps true a b r drain).pcB = 3 ∧
    (Race.steps true a b r drain).holder = none := by
  obtain ⟨ctl, pcA, pcB, holder, blocked⟩ := r
  unfold Good at h
  cases holder with
  | none =>
    simp only at h
    obtain ⟨hA, hB, _⟩ := h
    rcases hA with rfl | rfl <;> rcases hB with rfl | rfl <;>
      simp [Race.steps, drain, Race.step, Race.pc]
  | some w =>
    cases w with
    | true =>
      simp only at h
      obtain ⟨hA, hB, _⟩ := h
      rcases hA with rfl | rfl <;> rcases hB with rfl | rfl <;>
        simp [Race.steps, drain, Race.step, Race.pc]
    | false =>
      simp only at h
      obtain ⟨hB, hA, _⟩ := h
      rcases hA with rfl | rfl <;> rcases hB with rfl | rfl <;>
        simp [Race.steps, drain, Race.step, Race.pc]

/-- a configuration in which both calls are through and nobody holds the lock is one call after the other -/
theorem serial_of_good {a b : Call} {c : Ctl} {r : Race} (h : Good a b c r) (hA : r.pcA = 3) (hB : r.pcB = 3)
    (hH : r.holder = none) : r.ctl = b.run (a.run c) ∨ r.ctl = a.run (b.run c) := by
  obtain ⟨ctl, pcA, pcB, holder, blocked⟩ := r
  simp only at hA hB hH
  subst hA hB hH
  simpa [Good, pre] using h

/-- … stated for a run from a reachable configuration (the schedule stays a variable here: unfolding `Good` over a
    concrete word would evaluate the whole run symbolically) -/
theorem serial_after {a b : Call} {c : Ctl} (r0 : Race) (h : Good a b c r0) (s2 : List Bool)
    (hA : (Race.steps true a b r0 s2).pcA = 3) (hB : (Race.steps true a b r0 s2).pcB = 3)
    (hH : (Race.steps true a b r0 s2).holder = none) :
    (Race.steps true a b r0 s2).ctl = b.run (a.run c) ∨ (Race.steps true a b r0 s2).ctl = a.run (b.run c) :=
  serial_of_good (good_steps a b c s2 r0 h) hA hB hH

end Bng.QosRace
