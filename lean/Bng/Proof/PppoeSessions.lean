import Bng.Model.PppoeSessions
/-
  Invariants of the pppoe.SessionManager model and their preservation by every operation.
-/
namespace Bng.PppoeSessions
open Bng AMap

/-- what holds of every reachable state, whatever the history -/
structure Inv (st : State) : Prop where
  /-- the MAC index is sound: an entry points at a live session that carries that MAC -/
  snd : ∀ m id, AMap.lookup st.mac2s m = some id → AMap.lookup st.sessions id = some m
  /-- live session ids are valid PPPoE session ids -/
  ids : ∀ id m, AMap.lookup st.sessions id = some m → 1 ≤ id ∧ id ≤ 65535
  nextLt : st.next < 65536

theorem inv_init : Inv init := by
  refine ⟨?_, ?_, ?_⟩
  · intro m id h; simp [init] at h
  · intro id m h; simp [init] at h
  · simp [init]

theorem bump_range {id : Nat} (h : 1 ≤ id ∧ id ≤ 65535) : 1 ≤ bump id ∧ bump id ≤ 65535 := by
  unfold bump
  have := h.1
  split <;> omega

theorem search_some {sess : AMap Nat Nat} {f n id : Nat} (h : search sess f n = some id)
    (hn : 1 ≤ n ∧ n ≤ 65535) : AMap.lookup sess id = none ∧ 1 ≤ id ∧ id ≤ 65535 := by
  induction f generalizing n with
  | zero => simp [search] at h
  | succ f ih =>
    unfold search at h
    by_cases hf : (AMap.lookup sess n).isNone = true
    · simp only [hf, if_true, Option.some.injEq] at h
      subst h
      exact ⟨by simpa using hf, hn⟩
    · simp only [hf] at h
      exact ih h (bump_range hn)

/-- the shape of a successful CreateSession -/
theorem create_ok {st : State} {mac id : Nat} (h : (create st mac).2 = .okId id) :
    search st.sessions 65536 (if st.next = 0 then 1 else st.next) = some id ∧
    (create st mac).1 = { st with sessions := AMap.insert st.sessions id mac, mac2s := AMap.insert st.mac2s mac id,
                                  next := (id + 1) % 65536, idle := st.idle.filter (· ≠ id) } := by
  by_cases hg : st.sessions.length ≥ 65535
  · simp [create, hg] at h
  · cases hs : search st.sessions 65536 (if st.next = 0 then 1 else st.next) with
    | none => simp [create, hg, hs] at h
    | some id' =>
      have h' : id' = id := by simpa [create, hg, hs] using h
      subst h'
      refine ⟨rfl, ?_⟩
      simp [create, hg, hs]

/-- a CreateSession that does not answer `ok <id>` changes nothing -/
theorem create_not_ok {st : State} {mac : Nat} (h : ∀ id, (create st mac).2 ≠ .okId id) :
    (create st mac).1 = st := by
  by_cases hg : st.sessions.length ≥ 65535
  · simp [create, hg]
  · cases hs : search st.sessions 65536 (if st.next = 0 then 1 else st.next) with
    | none => simp [create, hg, hs]
    | some id' => exact absurd (by simp [create, hg, hs]) (h id')

theorem start_range {st : State} (hI : Inv st) :
    1 ≤ (if st.next = 0 then 1 else st.next) ∧ (if st.next = 0 then 1 else st.next) ≤ 65535 := by
  have := hI.nextLt
  split <;> omega

theorem inv_create {st : State} (hI : Inv st) (mac : Nat) : Inv (create st mac).1 := by
  by_cases h : ∃ id, (create st mac).2 = .okId id
  · obtain ⟨id, h⟩ := h
    obtain ⟨hs, he⟩ := create_ok h
    obtain ⟨hfree, hlo, hhi⟩ := search_some hs (start_range hI)
    rw [he]
    refine ⟨?_, ?_, ?_⟩
    · intro m id' hm
      simp only [lookup_insert] at hm ⊢
      by_cases e : m = mac
      · simp only [e, if_true, Option.some.injEq] at hm; subst hm; simp [e]
      · simp only [e, if_false] at hm
        have hq := hI.snd m id' hm
        have : id' ≠ id := by intro x; subst x; rw [hfree] at hq; cases hq
        simp only [this, if_false]; exact hq
    · intro id' m hm
      simp only [lookup_insert] at hm
      by_cases e : id' = id
      · subst e; exact ⟨hlo, hhi⟩
      · simp only [e, if_false] at hm; exact hI.ids id' m hm
    · exact Nat.mod_lt _ (by omega)
  · have : (create st mac).1 = st := create_not_ok (fun id hh => h ⟨id, hh⟩)
    rw [this]; exact hI

/-- the maps after dropping a live session -/
theorem drop_sessions (st : State) (id id' : Nat) :
    AMap.lookup (drop st id).sessions id' = if id' = id then none else AMap.lookup st.sessions id' := by
  unfold drop
  cases h : AMap.lookup st.sessions id with
  | none =>
    simp only
    by_cases e : id' = id
    · subst e; simp [h]
    · simp [e]
  | some mac => simp only [lookup_erase]

theorem drop_mac2s (st : State) (id m : Nat) :
    AMap.lookup (drop st id).mac2s m =
      if AMap.lookup st.sessions id = some m ∧ AMap.lookup st.mac2s m = some id then none
      else AMap.lookup st.mac2s m := by
  unfold drop
  cases h : AMap.lookup st.sessions id with
  | none => simp
  | some mac =>
    simp only [Option.some.injEq]
    by_cases hp : AMap.lookup st.mac2s mac = some id
    · simp only [hp, if_true, lookup_erase]
      by_cases e : m = mac
      · subst e; simp [hp]
      · have : ¬ mac = m := fun x => e x.symm
        simp [e, this]
    · simp only [hp, if_false]
      by_cases e : mac = m
      · subst e; simp [hp]
      · simp [e]

theorem drop_next (st : State) (id : Nat) : (drop st id).next = st.next := by
  unfold drop; split <;> rfl

theorem inv_drop {st : State} (hI : Inv st) (id : Nat) : Inv (drop st id) := by
  refine ⟨?_, ?_, ?_⟩
  · intro m id' hm
    rw [drop_mac2s] at hm
    rw [drop_sessions]
    by_cases hc : AMap.lookup st.sessions id = some m ∧ AMap.lookup st.mac2s m = some id
    · simp [hc] at hm
    · rw [if_neg hc] at hm
      have hq := hI.snd m id' hm
      have : id' ≠ id := by
        intro x; subst x; exact hc ⟨hq, hm⟩
      simp only [this, if_false]; exact hq
  · intro id' m hm
    rw [drop_sessions] at hm
    by_cases e : id' = id
    · simp [e] at hm
    · simp only [e, if_false] at hm; exact hI.ids id' m hm
  · rw [drop_next]; exact hI.nextLt

theorem inv_dropFold {st : State} (hI : Inv st) (l : List Nat) : Inv (l.foldl drop st) := by
  induction l generalizing st with
  | nil => exact hI
  | cons id rest ih => exact ih (inv_drop hI id)

theorem inv_step {st : State} (hI : Inv st) (op : Op) : Inv (step st op).1 := by
  cases op with
  | create m => exact inv_create hI m
  | remove id => exact inv_drop hI id
  | get id => exact hI
  | byMac m => exact hI
  | markIdle id =>
    simp only [step, markIdle]
    split
    · exact ⟨hI.snd, hI.ids, hI.nextLt⟩
    · exact hI
  | cleanup => exact inv_dropFold hI _
  | count => exact hI
  | next => exact hI
  | setNext n => exact ⟨hI.snd, hI.ids, Nat.mod_lt _ (by omega)⟩
  | dump => exact hI

theorem inv_run {st : State} (hI : Inv st) (ops : List Op) : Inv (run st ops) := by
  induction ops generalizing st with
  | nil => exact hI
  | cons op rest ih => exact ih (inv_step hI op)

/-! ### the converse direction, per MAC: for every MAC that never had two live sessions at once -/

/-- every `create m` of the history — for THIS MAC `m`; creates for other MACs are unconstrained — happens while no
    live session has MAC `m` -/
def OnePerMacFor (m : Nat) : State → List Op → Prop
  | _, [] => True
  | st, op :: rest =>
    (match op with
     | .create m' => m' = m → ∀ id, AMap.lookup st.sessions id ≠ some m
     | _ => True) ∧ OnePerMacFor m (step st op).1 rest

/-- a decidable sufficient condition for the `create` clause of `OnePerMacFor` -/
theorem noLive_of_all {st : State} {m : Nat} (h : (st.sessions.all fun e => e.2 != m) = true) :
    ∀ id, AMap.lookup st.sessions id ≠ some m := by
  intro id hl
  have := List.all_eq_true.mp h _ (mem_of_lookup hl)
  simp at this

/-- every live session of MAC `m` is reachable through the MAC index -/
def CompleteFor (m : Nat) (st : State) : Prop :=
  ∀ id, AMap.lookup st.sessions id = some m → AMap.lookup st.mac2s m = some id

theorem completeFor_drop {m : Nat} {st : State} (hC : CompleteFor m st) (id : Nat) : CompleteFor m (drop st id) := by
  intro id' hm
  rw [drop_sessions] at hm
  rw [drop_mac2s]
  by_cases e : id' = id
  · simp [e] at hm
  · simp only [e, if_false] at hm
    have hq := hC id' hm
    have : ¬ (AMap.lookup st.sessions id = some m ∧ AMap.lookup st.mac2s m = some id) := by
      intro ⟨_, h2⟩; rw [hq] at h2; simp at h2; exact e h2
    rw [if_neg this]; exact hq

theorem completeFor_dropFold {m : Nat} {st : State} (hC : CompleteFor m st) (l : List Nat) :
    CompleteFor m (l.foldl drop st) := by
  induction l generalizing st with
  | nil => exact hC
  | cons id rest ih => exact ih (completeFor_drop hC id)

theorem completeFor_create {m : Nat} {st : State} (hC : CompleteFor m st) (mac : Nat)
    (hfresh : mac = m → ∀ id, AMap.lookup st.sessions id ≠ some m) : CompleteFor m (create st mac).1 := by
  by_cases h : ∃ id, (create st mac).2 = .okId id
  · obtain ⟨id, h⟩ := h
    obtain ⟨_, he⟩ := create_ok h
    rw [he]
    intro id' hm
    simp only [lookup_insert] at hm ⊢
    by_cases e : id' = id
    · simp only [e, if_true, Option.some.injEq] at hm; subst hm; simp [e]
    · simp only [e, if_false] at hm
      have : m ≠ mac := by intro x; exact hfresh x.symm id' hm
      simp only [this, if_false]; exact hC id' hm
  · have : (create st mac).1 = st := create_not_ok (fun id hh => h ⟨id, hh⟩)
    rw [this]; exact hC

theorem completeFor_run {m : Nat} {st : State} (hC : CompleteFor m st) (ops : List Op)
    (h1 : OnePerMacFor m st ops) : CompleteFor m (run st ops) := by
  induction ops generalizing st with
  | nil => exact hC
  | cons op rest ih =>
    obtain ⟨ha, hb⟩ := h1
    apply ih _ hb
    cases op with
    | create m' => exact completeFor_create hC m' ha
    | remove id => exact completeFor_drop hC id
    | get id => exact hC
    | byMac m => exact hC
    | markIdle id =>
      simp only [step, markIdle]
      split
      · exact hC
      · exact hC
    | cleanup => exact completeFor_dropFold hC _
    | count => exact hC
    | next => exact hC
    | setNext n => exact hC
    | dump => exact hC

end Bng.PppoeSessions
