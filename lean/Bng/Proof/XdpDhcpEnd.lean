import Bng.Proof.XdpDhcpAgree
import Bng.Proof.CacheEnc
/-
  "After the end": when the cache holds no entry under the keys a frame is looked up by, the program passes
  the frame on untouched; on a cache the slow path maintains (`CacheEnc.Inv`) that is the case for every client
  without a lease; and an entry whose lease has expired is not answered when the kernel clock is the slow
  path's clock.
-/
namespace Bng.XdpDhcp
open Bng Bng.C Bng.XdpDhcpSpec Bng.CacheEnc

/-- where a found assignment came from -/
theorem lookupAssignment_source {f : Frame} {m : Maps} {p : Pkt} {a : Bytes}
    (h : lookupAssignment f m p = .ok (some a)) :
    (p.tagged = true ∧ AMap.lookup m.vlan (vlanKey p) = some a) ∨
    (∃ k, extractCid f p.dhcpOff = .ok (some k) ∧ AMap.lookup m.cid k = some a) ∨
    (∃ mk, macKey f p.dhcpOff = .ok mk ∧ AMap.lookup m.sub mk = some a) := by
  unfold lookupAssignment at h
  split at h
  · rename_i a' ha
    cases h
    left
    by_cases ht : p.tagged = true
    · simp [ht] at ha; exact ⟨ht, ha⟩
    · simp [ht] at ha
  · cases hk : extractCid f p.dhcpOff with
    | error e => simp [hk, bind, Except.bind] at h
    | ok k =>
      simp only [hk, bind, Except.bind] at h
      split at h
      · rename_i a' ha
        cases h
        right; left
        cases k with
        | none => simp at ha
        | some key => exact ⟨key, rfl, ha⟩
      · cases hm : macKey f p.dhcpOff with
        | error e => simp [hm] at h
        | ok mk =>
          simp only [hm] at h
          right; right
          exact ⟨mk, rfl, by injection h⟩

/-- the MAC key the program builds is Go's `MACToUint64` of the six `chaddr` bytes, as a little-endian `__u64` -/
theorem macKey_eq {f : Frame} {dhcp : Nat} (h : dhcp + 240 ≤ f.length) :
    macKey f dhcp = .ok (macKeyOf (bytesAt f (dhcp + 28) 6)) := by
  unfold macKey
  rw [ldBytes_ok (by omega)]
  simp only [bind, Except.bind, pure, Except.pure]
  congr 1
  have hl : (bytesAt f (dhcp + 28) 6).length = 6 := by simp only [bytesAt_length]; omega
  match hb : bytesAt f (dhcp + 28) 6, hl with
  | [m0, m1, m2, m3, m4, m5], _ =>
    have b0 := m0.toNat_lt; have b1 := m1.toNat_lt; have b2 := m2.toNat_lt
    have b3 := m3.toNat_lt; have b4 := m4.toNat_lt; have b5 := m5.toNat_lt
    simp only [macKeyOf, macToU64, le64, List.length_cons, List.length_nil, List.take, List.foldl, List.reverse_cons,
      List.reverse_nil, List.nil_append, List.cons_append]
    have hv : ((((((0 * 256 + m0.toNat) * 256 + m1.toNat) * 256 + m2.toNat) * 256 + m3.toNat) * 256 + m4.toNat) * 256 + m5.toNat)
        < 18446744073709551616 := by omega
    simp only [Nat.reduceAdd, Nat.lt_irrefl, if_false, UInt64.toNat_ofNat', Nat.reducePow]
    rw [Nat.mod_eq_of_lt hv]
    simp only [leBytes]
    have e0 : ∀ (x : UInt8) (n : Nat), n = x.toNat → UInt8.ofNat n = x := by
      intro x n hn; rw [hn]; exact UInt8.ofNat_toNat
    simp only [List.cons.injEq, and_true]
    refine ⟨(e0 _ _ ?_).symm, (e0 _ _ ?_).symm, (e0 _ _ ?_).symm, (e0 _ _ ?_).symm, (e0 _ _ ?_).symm, (e0 _ _ ?_).symm,
      ?_, ?_⟩ <;> first | omega | (apply UInt8.toNat_inj.mp; simp; omega)

/-- no entry under any of the frame's keys: the frame is passed on untouched -/
theorem no_entry_pass (f : Frame) (m : Maps) (clk : UInt64) (hlen : f.length < 65536)
    (hmiss : ∀ p, parseHeaders f = .ok (some p) → lookupAssignment f m p = .ok none) :
    run f m clk = .ok (XDP_PASS, f) := by
  obtain ⟨r, hr, hpost⟩ := run_Ok f m clk
  rcases hpost.2 hlen with h1 | ⟨p, t, a, pool, cfg, hh, _⟩
  · rw [hr, h1]
  · have := hmiss p hh.parsed
    rw [hh.found] at this
    cases this

theorem leNat_leBytes8 (x : UInt64) : UInt64.ofNat (leNat (leBytes 8 x.toNat)) = x := by
  have hx : x.toNat < 18446744073709551616 := x.toNat_lt
  have : leNat (leBytes 8 x.toNat) = x.toNat := by
    simp only [leBytes, leNat, UInt8.toNat_ofNat']
    omega
  rw [this]
  exact UInt64.ofNat_toNat

theorem rd64_encAssignment_expiry (A : Assignment) : rd64 (encAssignment A) 13 = A.leaseExpiry := by
  have := leNat_leBytes8 A.leaseExpiry
  simp only [encAssignment, le32, le64, leBytes4_eq, rd64, rdBytes] at *
  simp only [leBytes] at *
  simpa using this

/-- a transmission comes from one of the three maps, under the frame's own key for that map; if it came from
    subscriber_pools the key is `MACToUint64(chaddr)` -/
theorem tx_source {f : Frame} {m : Maps} {clk : UInt64} {f' : Frame} (hlen : f.length < 65536)
    (h : run f m clk = .ok (XDP_TX, f')) :
    ∃ p a, parseHeaders f = .ok (some p) ∧ ¬ (clk / 1000000000 > rd64 a 13) ∧
      ((p.tagged = true ∧ AMap.lookup m.vlan (vlanKey p) = some a) ∨
       (∃ k, extractCid f p.dhcpOff = .ok (some k) ∧ AMap.lookup m.cid k = some a) ∨
       AMap.lookup m.sub (macKeyOf (bytesAt f (p.dhcpOff + 28) 6)) = some a) := by
  rcases ((run_Ok f m clk).elim h).2 hlen with h1 | ⟨p, t, a, pool, cfg, hh, _⟩
  · exact absurd (Prod.mk.inj h1).1 (by decide)
  · refine ⟨p, a, hh.parsed, hh.live, ?_⟩
    rcases lookupAssignment_source hh.found with h1 | h2 | ⟨mk, hmk, hl⟩
    · exact Or.inl h1
    · exact Or.inr (Or.inl h2)
    · rw [macKey_eq hh.wf.room] at hmk
      cases hmk
      exact Or.inr (Or.inr hl)

/-- how a lease is tied to the frame it answers: its MAC has the MAC key of the request's `chaddr`, or its
    circuit-id has the circuit-id key the program extracted from the request -/
def Owns (l : Lease) (f : Frame) (p : Pkt) : Prop :=
  macKeyOf l.mac = macKeyOf (bytesAt f (p.dhcpOff + 28) 6) ∨
  (l.cidBytes ≠ [] ∧ extractCid f p.dhcpOff = .ok (some (cidKeyOf l.cidBytes)))

/-- **After the end / expiry / agreement, in one statement.**  On a cache maintained by the slow path (`Inv`), a
    transmission was answered from the entry written for a lease `l` that userspace STILL holds and that owns the
    request (`Owns`), the program's clock has not passed that lease's expiry, the pool bytes are the encoding of a
    pool `P` the manager holds under the lease's pool id, and the frame is the closed-form reply for exactly those
    bytes. -/
theorem tx_from_live_lease {s : Srv} (hinv : Inv s) {f : Frame} {clk : UInt64} {f' : Frame} (hlen : f.length < 65536)
    (h : run f s.maps clk = .ok (XDP_TX, f')) :
    ∃ p t l pc P cfg, Hit f s.maps clk p t (encAssignment (assignmentOf l pc)) (encPool P) cfg ∧
      AMap.lookup s.leases l.mac = some l ∧ Owns l f p ∧
      ¬ (clk / 1000000000 > UInt64.ofNat l.exp) ∧
      AMap.lookup s.pools P.id = some P ∧ le32 P.id = le32 l.poolId ∧
      s.maps.cfg = some cfg ∧ (rd32 cfg 8 = s.serverIp ∨ rd32 cfg 8 = 0) ∧
      f' = replyP f p t (encAssignment (assignmentOf l pc)) (encPool P) cfg := by
  rcases ((run_Ok f s.maps clk).elim h).2 hlen with h1 | ⟨p, t, a, pool, cfg, hh, h2⟩
  · exact absurd (Prod.mk.inj h1).1 (by decide)
  · have hf : f' = replyP f p t a pool cfg := (Prod.mk.inj h2).2
    -- which lease wrote the entry
    have hl : ∃ l pc, AMap.lookup s.leases l.mac = some l ∧ Owns l f p ∧ a = encAssignment (assignmentOf l pc) := by
      rcases lookupAssignment_source hh.found with ⟨_, hv⟩ | ⟨k, hk, hc⟩ | ⟨mk, hmk, hm⟩
      · rw [hinv.vlanEmpty] at hv; simp at hv
      · obtain ⟨l, pc, h1, h2, h3, _, h5⟩ := hinv.cid k a hc
        exact ⟨l, pc, h1, Or.inr ⟨h2, by rw [h3]; exact hk⟩, h5⟩
      · rw [macKey_eq hh.wf.room] at hmk
        cases hmk
        obtain ⟨l, pc, h1, h2, h3⟩ := hinv.sub _ a hm
        exact ⟨l, pc, h1, Or.inl h2, h3⟩
    obtain ⟨l, pc, hl1, hl2, ha⟩ := hl
    subst ha
    obtain ⟨P, hP1, hP2, hP3⟩ := hinv.pools _ pool hh.pool
    subst hP3
    obtain ⟨c, hc1, hc2⟩ := hinv.cfg
    have hcc : cfg = c := by
      have := hh.cfg; rw [hc1] at this; exact (Option.some.inj this).symm
    subst hcc
    have hlive := hh.live
    rw [rd64_encAssignment_expiry] at hlive
    have hpid : le32 P.id = le32 l.poolId := by
      rw [← hP2]
      simp [encAssignment, assignmentOf, rdBytes, le32, leBytes4_eq]
    exact ⟨p, t, l, pc, P, cfg, hh, hl1, hl2, hlive, hP1, hpid, hc1, hc2, hf⟩

/-- **After the end.**  On a cache maintained by the slow path (`Inv`), a transmission implies that userspace
    holds a lease owning the answering entry: a lease for the requesting MAC (MAC stage) or a lease whose
    circuit-id has the frame's circuit-id key.  Hence a client whose lease was released, declined, cleaned up
    after expiry, and whose circuit-id key no other live lease shares, is not answered. -/
theorem tx_has_lease {s : Srv} (hinv : Inv s) {f : Frame} {clk : UInt64} {f' : Frame} (hlen : f.length < 65536)
    (h : run f s.maps clk = .ok (XDP_TX, f')) :
    ∃ p l, parseHeaders f = .ok (some p) ∧ AMap.lookup s.leases l.mac = some l ∧ Owns l f p ∧
      ¬ (clk / 1000000000 > UInt64.ofNat l.exp) := by
  obtain ⟨p, t, l, pc, P, cfg, hh, h1, h2, h3, _⟩ := tx_from_live_lease hinv hlen h
  exact ⟨p, l, hh.parsed, h1, h2, h3⟩

end Bng.XdpDhcp
