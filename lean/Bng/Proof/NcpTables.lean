import Bng.Proof.NcpTablesLcp
import Bng.Proof.NcpTablesIpcp
import Bng.Proof.NcpTablesIpv6cp
/-
  Finite facts about the three regenerated transition tables (one module per table so that lake re-checks only
  what changed, in parallel).  Kept out of Bng/Spec/C11.lean only so that they are cached while the tables are
  unchanged (the Spec module is re-elaborated on every run).
-/
