import Bng.Model.Acct
/-
  Invariants of the accounting-manager model (Bng.Model.Acct), each proved for every micro-step and
  therefore for every operation history, answer vector and crash point.

    Reg    every session object and every record anywhere (memory, disk, wire) carries a (session id,
           identifiers) pair that StartSession registered
    Dur    a session whose StartSession completed has an accepted Stop, or its session file, unless the
           recovery procedure re-queued its Stop in memory (the recorded finding)
    SA     whatever can still produce a Stop for s implies "Start s accepted or Start s queued"; the log is
           ordered accordingly
-/
namespace Bng.Acct
open Bng AMap

/-! ## small list lemmas -/

theorem findP_mem {ps : List PRec} {id : Nat} {p : PRec} (h : findP ps id = some p) : p ∈ ps :=
  List.mem_of_find?_eq_some h

theorem findP_id {ps : List PRec} {id : Nat} {p : PRec} (h : findP ps id = some p) : p.id = id := by
  have := List.find?_some h
  simpa using this

theorem mem_eraseP {ps : List PRec} {id : Nat} {p : PRec} (h : p ∈ eraseP ps id) : p ∈ ps :=
  (List.mem_filter.mp h).1

theorem mem_recOfIds {ps : List PRec} {ids : List Nat} {p : PRec} (h : p ∈ recOfIds ps ids) : p ∈ ps := by
  unfold recOfIds at h
  obtain ⟨id, _, hf⟩ := List.mem_filterMap.mp h
  exact findP_mem hf

def stopIn (log : List Rec) (s : Nat) : Prop := ∃ r ∈ log, r.kind = .stop ∧ r.sid = s
def startIn (log : List Rec) (s : Nat) : Prop := ∃ r ∈ log, r.kind = .start ∧ r.sid = s

theorem stopIn_append {log : List Rec} {s : Nat} (l2 : List Rec) (h : stopIn log s) : stopIn (log ++ l2) s := by
  obtain ⟨r, hr, h1⟩ := h
  exact ⟨r, List.mem_append_left _ hr, h1⟩

theorem startIn_append {log : List Rec} {s : Nat} (l2 : List Rec) (h : startIn log s) : startIn (log ++ l2) s := by
  obtain ⟨r, hr, h1⟩ := h
  exact ⟨r, List.mem_append_left _ hr, h1⟩

/-! ## what `loadPending` does -/

structure LoadSpec (σ σ' : State) (recd : List Nat) (l : List PRec) : Prop where
  cfg : σ'.cfg = σ.cfg
  up : σ'.up = σ.up
  log : σ'.log = σ.log
  dur : σ'.dur = σ.dur
  sessions : σ'.vol.sessions = σ.vol.sessions
  pc : σ'.vol.pc = σ.vol.pc
  ppc : σ'.vol.ppc = σ.vol.ppc
  ipc : σ'.vol.ipc = σ.vol.ipc
  registered : σ'.registered = σ.registered
  started : σ'.started = σ.started
  startQueued : σ'.startQueued = σ.startQueued
  abandoned : σ'.abandoned = σ.abandoned
  tainted : σ'.tainted = σ.tainted
  pending : ∀ p ∈ σ'.vol.pending, p ∈ σ.vol.pending ∨
    ∃ q ∈ l, p = { q with viaRecovery := true } ∧ ¬ (q.req.kind = .stop ∧ q.req.sid ∈ recd)
  pendingKeep : ∀ p ∈ σ.vol.pending, p ∈ σ'.vol.pending
  loaded : ∀ q ∈ l, ¬ (q.req.kind = .stop ∧ q.req.sid ∈ recd) →
    ({ q with viaRecovery := true } : PRec) ∈ σ'.vol.pending
  recVol : ∀ s, s ∈ σ'.recVol ↔ s ∈ σ.recVol ∨
    ∃ q ∈ l, q.req.kind = .stop ∧ q.req.sid = s ∧ q.req.sid ∉ recd

theorem loadPending_spec (σ : State) (recd : List Nat) (l : List PRec) :
    LoadSpec σ (loadPending σ recd l) recd l := by
  induction l generalizing σ with
  | nil =>
    simp only [loadPending]
    constructor <;> simp
  | cons q qs ih =>
    simp only [loadPending]
    split
    · rename_i hc
      have hc' : q.req.kind = .stop ∧ q.req.sid ∈ recd := by
        simp only [Bool.and_eq_true, beq_iff_eq, List.contains_eq_mem, decide_eq_true_eq] at hc
        exact hc
      have h := ih σ
      constructor
      · exact h.cfg
      · exact h.up
      · exact h.log
      · exact h.dur
      · exact h.sessions
      · exact h.pc
      · exact h.ppc
      · exact h.ipc
      · exact h.registered
      · exact h.started
      · exact h.startQueued
      · exact h.abandoned
      · exact h.tainted
      · intro p hp
        rcases h.pending p hp with h1 | ⟨q', hq', h2⟩
        · exact Or.inl h1
        · exact Or.inr ⟨q', List.mem_cons_of_mem _ hq', h2⟩
      · exact h.pendingKeep
      · intro q' hq' hn
        rcases List.mem_cons.mp hq' with e | e
        · subst e; exact absurd hc' hn
        · exact h.loaded q' e hn
      · intro s
        rw [h.recVol s]
        constructor
        · rintro (h1 | ⟨q', hq', h2⟩)
          · exact Or.inl h1
          · exact Or.inr ⟨q', List.mem_cons_of_mem _ hq', h2⟩
        · rintro (h1 | ⟨q', hq', h2⟩)
          · exact Or.inl h1
          · rcases List.mem_cons.mp hq' with e | e
            · subst e; exact absurd hc'.2 h2.2.2
            · exact Or.inr ⟨q', e, h2⟩
    · rename_i hc
      have hc' : ¬ (q.req.kind = .stop ∧ q.req.sid ∈ recd) := by
        simp only [Bool.and_eq_true, beq_iff_eq, List.contains_eq_mem, decide_eq_true_eq] at hc
        exact hc
      have h := ih { σ with
        vol := { σ.vol with
          pending := { q with viaRecovery := true } :: σ.vol.pending
          queue := if σ.vol.queue.length < σ.cfg.queueCap then σ.vol.queue ++ [q.id] else σ.vol.queue }
        recVol := if q.req.kind == .stop then q.req.sid :: σ.recVol else σ.recVol }
      constructor
      · exact h.cfg
      · exact h.up
      · exact h.log
      · exact h.dur
      · exact h.sessions
      · exact h.pc
      · exact h.ppc
      · exact h.ipc
      · exact h.registered
      · exact h.started
      · exact h.startQueued
      · exact h.abandoned
      · exact h.tainted
      · intro p hp
        rcases h.pending p hp with h1 | ⟨q', hq', h2⟩
        · rcases List.mem_cons.mp h1 with e | e
          · exact Or.inr ⟨q, List.mem_cons_self, e, hc'⟩
          · exact Or.inl e
        · exact Or.inr ⟨q', List.mem_cons_of_mem _ hq', h2⟩
      · intro p hp
        exact h.pendingKeep p (List.mem_cons_of_mem _ hp)
      · intro q' hq' hn
        rcases List.mem_cons.mp hq' with e | e
        · subst e; exact h.pendingKeep _ List.mem_cons_self
        · exact h.loaded q' e hn
      · intro s
        rw [h.recVol s]
        constructor
        · rintro (h1 | ⟨q', hq', h2⟩)
          · by_cases hk : q.req.kind = .stop
            · simp only [hk, beq_self_eq_true, if_true, List.mem_cons] at h1
              rcases h1 with e | e
              · refine Or.inr ⟨q, List.mem_cons_self, hk, e.symm, ?_⟩
                intro hm; exact hc' ⟨hk, hm⟩
              · exact Or.inl e
            · have : (q.req.kind == Kind.stop) = false := by simpa using hk
              simp only [this] at h1
              exact Or.inl h1
          · exact Or.inr ⟨q', List.mem_cons_of_mem _ hq', h2⟩
        · rintro (h1 | ⟨q', hq', h2⟩)
          · left
            by_cases hk : q.req.kind = .stop
            · simp [hk, h1]
            · have : (q.req.kind == Kind.stop) = false := by simpa using hk
              simp [this, h1]
          · rcases List.mem_cons.mp hq' with e | e
            · subst e
              left
              simp [h2.1, h2.2.1]
            · exact Or.inr ⟨q', e, h2⟩


/-! ## Reg: everything carries registered identifiers -/

structure Reg (σ : State) : Prop where
  sess : ∀ k x, lookup σ.vol.sessions k = some x → (k, x.ident) ∈ σ.registered
  files : ∀ k x, lookup σ.dur.files k = some x → (k, x.ident) ∈ σ.registered
  pend : ∀ p ∈ σ.vol.pending, (p.req.sid, p.req.ident) ∈ σ.registered
  pfile : ∀ ps, σ.dur.pfile = some ps → ∀ p ∈ ps, (p.req.sid, p.req.ident) ∈ σ.registered
  log : ∀ r ∈ σ.log, (r.sid, r.ident) ∈ σ.registered
  ipc : ∀ s ident i o, σ.vol.ipc = some (.intSend s ident i o) → (s, ident) ∈ σ.registered

theorem reg_init (c : Cfg) : Reg (init c) := by
  constructor <;> simp [init]

theorem reg_setPc {σ : State} (h : Reg σ) (pc : Option Frame) : Reg (setPc σ pc) := by
  obtain ⟨h1, h2, h3, h4, h5, h6⟩ := h
  exact ⟨h1, h2, h3, h4, h5, h6⟩

theorem reg_noteOrd {σ : State} (h : Reg σ) (x : Nat) : Reg (noteOrd σ x) := by
  obtain ⟨h1, h2, h3, h4, h5, h6⟩ := h
  exact ⟨h1, h2, h3, h4, h5, h6⟩

theorem reg_begin {σ : State} (h : Reg σ) (r : Res) : Reg (begin σ r) := by
  obtain ⟨h1, h2, h3, h4, h5, h6⟩ := h
  exact ⟨h1, h2, h3, h4, h5, h6⟩

theorem reg_pbegin {σ : State} (h : Reg σ) (r : Res) : Reg (pbegin σ r) := by
  obtain ⟨h1, h2, h3, h4, h5, h6⟩ := h
  exact ⟨h1, h2, h3, h4, h5, h6⟩

theorem reg_setPpc {σ : State} (h : Reg σ) (pc : Option Frame) : Reg (setPpc σ pc) := by
  obtain ⟨h1, h2, h3, h4, h5, h6⟩ := h
  exact ⟨h1, h2, h3, h4, h5, h6⟩

theorem reg_notePOrd {σ : State} (h : Reg σ) (x : Nat) : Reg (notePOrd σ x) := by
  obtain ⟨h1, h2, h3, h4, h5, h6⟩ := h
  exact ⟨h1, h2, h3, h4, h5, h6⟩

theorem reg_accept {σ : State} (h : Reg σ) {r : Rec} (b : Bool) (hr : (r.sid, r.ident) ∈ σ.registered) :
    Reg (accept σ r b) := by
  obtain ⟨h1, h2, h3, h4, h5, h6⟩ := h
  refine ⟨h1, h2, h3, h4, ?_, h6⟩
  intro r' hr'
  simp only [accept, List.mem_append, List.mem_singleton] at hr'
  rcases hr' with e | e
  · exact h5 _ e
  · subst e; exact hr

theorem reg_enqueue {σ : State} (h : Reg σ) {r : Rec} (v : Bool) (hr : (r.sid, r.ident) ∈ σ.registered) :
    Reg (enqueue σ r v) := by
  obtain ⟨h1, h2, h3, h4, h5, h6⟩ := h
  refine ⟨h1, h2, ?_, h4, h5, h6⟩
  intro p hp
  simp only [enqueue, List.mem_cons] at hp
  rcases hp with e | e
  · subst e; exact hr
  · exact h3 _ e

theorem reg_send {σ : State} (h : Reg σ) {r : Rec} (a : Ans) (v : Bool) (hr : (r.sid, r.ident) ∈ σ.registered) :
    Reg (send σ r a v) := by
  unfold send; split
  · exact reg_accept h true hr
  · exact reg_enqueue h v hr
  · exact reg_enqueue (reg_accept h false hr) v hr

theorem reg_persist {σ : State} (h : Reg σ) (s : Nat) : Reg (persistSession σ s) := by
  unfold persistSession
  split
  · exact h
  · rename_i x hx
    obtain ⟨h1, h2, h3, h4, h5, h6⟩ := h
    refine ⟨h1, ?_, h3, h4, h5, h6⟩
    intro k y hy
    simp only [lookup_insert] at hy
    split at hy
    · rename_i e; subst e
      simp only [Option.some.injEq] at hy; subst hy
      exact h1 _ _ hx
    · exact h2 _ _ hy

theorem reg_removeFile {σ : State} (h : Reg σ) (s : Nat) : Reg (removeFile σ s) := by
  obtain ⟨h1, h2, h3, h4, h5, h6⟩ := h
  refine ⟨h1, ?_, h3, h4, h5, h6⟩
  intro k y hy
  simp only [removeFile, lookup_erase] at hy
  split at hy
  · simp at hy
  · exact h2 _ _ hy

/-- changing only the volatile maps to sub-maps / same-request records keeps Reg -/
theorem reg_vol {σ : State} (h : Reg σ) (ss : AMap Nat Sess) (ps : List PRec) (q : List Nat) (pc ppc : Option Frame)
    (hs : ∀ k x, lookup ss k = some x → (k, x.ident) ∈ σ.registered)
    (hp : ∀ p ∈ ps, (p.req.sid, p.req.ident) ∈ σ.registered) :
    Reg { σ with vol := { sessions := ss, pending := ps, queue := q, pc := pc, ppc := ppc, ipc := σ.vol.ipc } } := by
  obtain ⟨_, h2, _, h4, h5, h6⟩ := h
  exact ⟨hs, h2, hp, h4, h5, h6⟩

theorem reg_setIpc {σ : State} (h : Reg σ) : Reg (setIpc σ none) := by
  obtain ⟨h1, h2, h3, h4, h5, _⟩ := h
  exact ⟨h1, h2, h3, h4, h5, by intro s ident i o e; simp [setIpc] at e⟩

theorem reg_ibegin {σ : State} (h : Reg σ) (r : Res) : Reg (ibegin σ r) := by
  obtain ⟨h1, h2, h3, h4, h5, h6⟩ := h
  exact ⟨h1, h2, h3, h4, h5, h6⟩

theorem reg_tick {σ : State} (h : Reg σ) (a : Ans) : Reg (tick σ a) := by
  unfold tick
  split
  · exact h
  · -- startSend
    rename_i s _
    unfold tickStartSend
    split
    · exact reg_setPc h _
    · rename_i x hx
      exact reg_setPc (reg_send h _ _ (h.sess _ _ hx)) _
  · rename_i s _
    unfold tickStartPersist
    split
    · exact reg_setPc h _
    · have h' := reg_persist h s
      obtain ⟨h1, h2, h3, h4, h5, h6⟩ := h'
      exact ⟨h1, h2, h3, h4, h5, h6⟩
  · rename_i s _
    exact reg_setPc (reg_persist h s) _
  · rename_i s _
    unfold tickStopSend
    split
    · exact reg_setPc h _
    · rename_i x hx
      exact reg_setPc (reg_send h _ _ (h.sess _ _ hx)) _
  · rename_i s acked _
    unfold tickStopDelete
    apply reg_setPc
    apply reg_vol h
    · intro k x hk
      simp only [lookup_erase] at hk
      split at hk
      · simp at hk
      · exact h.sess _ _ hk
    · exact h.pend
  · rename_i s acked _
    unfold tickStopRemove
    apply reg_setPc
    split
    · exact reg_removeFile h s
    · exact h
  · exact h
  · exact h
  · exact h
  · rename_i s rest _
    unfold tickDrainSend
    split
    · exact reg_setPc h _
    · rename_i x hx
      have hr := h.sess _ _ hx
      simp only
      split
      · exact reg_setPc (reg_accept (reg_noteOrd h s) true hr) _
      · exact reg_setPc (reg_enqueue (reg_noteOrd h s) _ hr) _
      · exact reg_setPc (reg_enqueue (reg_accept (reg_noteOrd h s) false hr) _ hr) _
  · rename_i s rest _
    exact reg_setPc (reg_removeFile h s) _
  · -- persistPending
    unfold tickPersistPending
    split
    · exact h
    · obtain ⟨h1, h2, h3, h4, h5, h6⟩ := h
      refine ⟨by simp, ?_, by simp, ?_, h5, by simp⟩
      · intro k x hk
        simp only at hk
        split at hk <;> exact h2 _ _ hk
      · intro ps hps p hp
        simp only at hps
        split at hps
        · exact h4 _ hps _ hp
        · simp only [Option.some.injEq] at hps; subst hps; exact h3 _ hp
  · rename_i s rest recd order _
    unfold tickRecSend
    split
    · exact reg_setPc h _
    · rename_i x hx
      exact reg_setPc (reg_send h _ _ (h.files _ _ hx)) _
  · rename_i s rest recd order _
    exact reg_setPc (reg_removeFile h s) _
  · rename_i recd order _
    unfold tickRecLoad
    split
    · exact reg_setPc h _
    · rename_i ps hps
      apply reg_setPc
      have sp := loadPending_spec σ recd (recOfIds ps (normalize order (ps.map (·.id))))
      obtain ⟨h1, h2, h3, h4, h5, h6⟩ := h
      refine ⟨?_, ?_, ?_, ?_, ?_, ?_⟩
      · rw [sp.sessions, sp.registered]; exact h1
      · rw [sp.dur, sp.registered]; exact h2
      · intro p hp
        rw [sp.registered]
        rcases sp.pending p hp with e | ⟨q, hq, e, _⟩
        · exact h3 _ e
        · subst e; exact h4 _ hps q (mem_recOfIds hq)
      · rw [sp.dur, sp.registered]; exact h4
      · rw [sp.log, sp.registered]; exact h5
      · rw [sp.ipc, sp.registered]; exact h6
  · unfold tickRecPendRemove
    apply reg_setPc
    obtain ⟨h1, h2, h3, h4, h5, h6⟩ := h
    exact ⟨h1, h2, h3, by simp, h5, h6⟩

theorem reg_pendSub {σ : State} (h : Reg σ) (ps : List PRec)
    (hp : ∀ q ∈ ps, ∃ q0 ∈ σ.vol.pending, q0.req = q.req) :
    Reg { σ with vol := { σ.vol with pending := ps } } := by
  apply reg_vol h
  · exact h.sess
  · intro q hq
    obtain ⟨q0, hq0, e⟩ := hp q hq
    rw [← e]; exact h.pend _ hq0

theorem reg_procFail {σ : State} (h : Reg σ) (p : PRec) (id : Nat) (rest : List Nat) :
    Reg (procFail σ p id rest) := by
  unfold procFail
  split
  · apply reg_setPpc
    have h2 := reg_pendSub h (eraseP σ.vol.pending id) (fun q hq => ⟨q, mem_eraseP hq, rfl⟩)
    obtain ⟨a1, a2, a3, a4, a5, a6⟩ := h2
    exact ⟨a1, a2, a3, a4, a5, a6⟩
  · apply reg_setPpc
    apply reg_pendSub h
    intro q hq
    simp only [List.mem_map] at hq
    obtain ⟨q0, hq0, e⟩ := hq
    refine ⟨q0, hq0, ?_⟩
    split at e <;> (subst e; rfl)

theorem reg_ptick {σ : State} (h : Reg σ) (a : Ans) : Reg (ptick σ a) := by
  unfold ptick
  split
  · rename_i id rest _
    unfold tickProcSend
    split
    · exact reg_setPpc h _
    · rename_i p hp
      have hr := h.pend _ (findP_mem hp)
      have h0 := reg_notePOrd h id
      simp only
      split
      · have h1 := reg_accept h0 true hr
        have h2 := reg_pendSub h1 (eraseP (accept (notePOrd σ id) p.req true).vol.pending id)
          (fun q hq => ⟨q, mem_eraseP hq, rfl⟩)
        split
        · exact reg_setPpc h2 _
        · exact reg_setPpc h2 _
      · exact reg_procFail h0 p id rest
      · exact reg_procFail (reg_accept h0 false hr) p id rest
  · rename_i s rest _
    exact reg_setPpc (reg_removeFile h s) _
  · exact h

theorem reg_res {σ : State} (h : Reg σ) (r : Res) : Reg { σ with res := r } := by
  obtain ⟨h1, h2, h3, h4, h5, h6⟩ := h
  exact ⟨h1, h2, h3, h4, h5, h6⟩

theorem reg_pres {σ : State} (h : Reg σ) (r : Res) : Reg { σ with pres := r } := by
  obtain ⟨h1, h2, h3, h4, h5, h6⟩ := h
  exact ⟨h1, h2, h3, h4, h5, h6⟩

theorem reg_ires {σ : State} (h : Reg σ) (r : Res) : Reg { σ with ires := r } := by
  obtain ⟨h1, h2, h3, h4, h5, h6⟩ := h
  exact ⟨h1, h2, h3, h4, h5, h6⟩

theorem reg_itick {σ : State} (h : Reg σ) (a : Ans) : Reg (itick σ a) := by
  unfold itick
  split
  · rename_i s ident i o heq
    have hr : (s, ident) ∈ σ.registered := h.ipc _ _ _ _ heq
    unfold tickIntSend
    simp only
    split
    · split
      · exact reg_setIpc (reg_accept h true hr)
      · rename_i x hx
        apply reg_setIpc
        apply reg_vol (reg_accept h true hr)
        · intro k y hk
          simp only [lookup_insert] at hk
          split at hk
          · rename_i e; subst e
            simp only [Option.some.injEq] at hk; subst hk
            exact h.sess _ x hx
          · exact h.sess _ _ hk
        · exact h.pend
    · exact reg_setIpc (reg_enqueue h _ hr)
    · exact reg_setIpc (reg_enqueue (reg_accept h false hr) _ hr)
  · exact h

theorem reg_crash {σ : State} (h : Reg σ) : Reg (crash σ) := by
  obtain ⟨h1, h2, h3, h4, h5, h6⟩ := h
  exact ⟨by simp [crash], h2, by simp [crash], h4, h5, by simp [crash]⟩

theorem reg_torn {σ : State} (h : Reg σ) : Reg (tornEffect σ) := by
  unfold tornEffect
  obtain ⟨h1, h2, h3, h4, h5, h6⟩ := h
  split
  · split
    · exact ⟨h1, h2, h3, h4, h5, h6⟩
    · exact ⟨h1, h2, h3, h4, h5, h6⟩
  · split
    · exact ⟨h1, h2, h3, h4, h5, h6⟩
    · exact ⟨h1, h2, h3, h4, h5, h6⟩
  · exact ⟨h1, h2, h3, h4, h5, h6⟩

theorem reg_step {σ : State} (h : Reg σ) (op : Op) : Reg (step σ op) := by
  cases op with
  | tick a => exact reg_tick h a
  | ptick a => exact reg_ptick h a
  | crash => exact reg_crash h
  | crashTorn => exact reg_crash (reg_torn h)
  | ctr s i o =>
    obtain ⟨h1, h2, h3, h4, h5, h6⟩ := h
    exact ⟨h1, h2, h3, h4, h5, h6⟩
  | restart order =>
    simp only [step]
    split
    · exact reg_res h _
    · unfold callRestart
      have h0 : Reg (begin { σ with up := true, vol := {} } .ok) := by
        obtain ⟨h1, h2, h3, h4, h5, h6⟩ := h
        exact ⟨by simp [begin], h2, by simp [begin], h4, h5, by simp [begin]⟩
      simp only
      split
      · exact reg_setPc h0 _
      · exact h0
  | start s ident =>
    simp only [step]
    split
    · exact reg_res h _
    · split
      · exact reg_res h _
      · unfold callStart
        split
        · exact reg_begin h _
        · rename_i hn
          apply reg_setPc
          obtain ⟨h1, h2, h3, h4, h5, h6⟩ := h
          refine ⟨?_, ?_, ?_, ?_, ?_, ?_⟩
          · intro k x hk
            simp only [begin, lookup_insert] at hk
            split at hk
            · rename_i e; subst e
              simp only [Option.some.injEq] at hk; subst hk
              exact List.mem_cons_self
            · exact List.mem_cons_of_mem _ (h1 _ _ hk)
          · intro k x hk; exact List.mem_cons_of_mem _ (h2 _ _ hk)
          · intro p hp; exact List.mem_cons_of_mem _ (h3 _ hp)
          · intro ps hps p hp; exact List.mem_cons_of_mem _ (h4 _ hps _ hp)
          · intro r hr; exact List.mem_cons_of_mem _ (h5 _ hr)
          · intro s' ident' i o e; exact List.mem_cons_of_mem _ (h6 _ _ _ _ e)
  | itick a => exact reg_itick h a
  | interim s =>
    simp only [step]
    split
    · exact reg_ires h _
    · split
      · exact reg_ires h _
      · unfold callInterim
        split
        · exact reg_ibegin h _
        · rename_i x hx
          split
          · exact reg_ibegin h _
          · obtain ⟨h1, h2, h3, h4, h5, _⟩ := h
            refine ⟨h1, h2, h3, h4, h5, ?_⟩
            intro s' ident' i o e
            simp only [setIpc, ibegin, Option.some.injEq, Frame.intSend.injEq] at e
            obtain ⟨e1, e2, _, _⟩ := e
            subst e1; subst e2
            exact h1 _ _ hx
  | stop s cause =>
    simp only [step]
    split
    · exact reg_res h _
    · split
      · exact reg_res h _
      · unfold callStop
        split
        · exact reg_begin h _
        · rename_i x hx
          apply reg_setPc
          apply reg_vol (reg_begin h .ok)
          · intro k y hk
            simp only [begin, lookup_insert] at hk
            split at hk
            · rename_i e; subst e
              simp only [Option.some.injEq] at hk; subst hk
              exact h.sess _ x hx
            · exact h.sess _ _ hk
          · exact h.pend
  | deq =>
    simp only [step]
    split
    · exact reg_pres h _
    · split
      · exact reg_pres h _
      · unfold callDeq
        split
        · exact reg_pbegin h _
        · apply reg_setPpc
          apply reg_vol (reg_pbegin h .done)
          · exact h.sess
          · exact h.pend
  | retry order =>
    simp only [step]
    split
    · exact reg_pres h _
    · split
      · exact reg_pres h _
      · exact reg_setPpc (reg_pbegin h _) _
  | shutdown order =>
    simp only [step]
    split
    · exact reg_res h _
    · split
      · exact reg_res h _
      · exact reg_setPc (reg_begin h _) _

theorem reg_run {σ : State} (h : Reg σ) (ops : List Op) : Reg (run σ ops) := by
  induction ops generalizing σ with
  | nil => exact h
  | cons op ops ih => exact ih (reg_step h op)

theorem tick_registered (σ : State) (a : Ans) : (tick σ a).registered = σ.registered := by
  unfold tick
  split
  · rfl
  · unfold tickStartSend send; repeat' (first | rfl | split)
  · unfold tickStartPersist persistSession; repeat' (first | rfl | split)
  · unfold tickStopPersist persistSession; repeat' (first | rfl | split)
  · unfold tickStopSend send; repeat' (first | rfl | split)
  · rfl
  · unfold tickStopRemove; repeat' (first | rfl | split)
  · rfl
  · rfl
  · rfl
  · unfold tickDrainSend; repeat' (first | rfl | split)
  · rfl
  · unfold tickPersistPending; repeat' (first | rfl | split)
  · unfold tickRecSend send; repeat' (first | rfl | split)
  · rfl
  · unfold tickRecLoad
    split
    · rfl
    · exact (loadPending_spec _ _ _).registered
  · rfl

theorem itick_registered (σ : State) (a : Ans) : (itick σ a).registered = σ.registered := by
  unfold itick
  split
  · unfold tickIntSend; dsimp only; repeat' (first | rfl | split)
  · rfl

theorem ptick_registered (σ : State) (a : Ans) : (ptick σ a).registered = σ.registered := by
  unfold ptick
  split
  · unfold tickProcSend procFail
    split
    · rfl
    · dsimp only
      repeat' (first | rfl | split)
  · rfl
  · rfl

/-- `registered` is exactly the (id, identifiers) pairs of the `start` calls that were admitted -/
theorem tornEffect_registered (σ : State) : (tornEffect σ).registered = σ.registered := by
  unfold tornEffect; repeat' (first | rfl | split)

theorem registered_step (σ : State) (op : Op) (x : Nat × Nat) (hx : x ∈ (step σ op).registered) :
    x ∈ σ.registered ∨ op = .start x.1 x.2 := by
  cases op with
  | tick a => left; rw [step, tick_registered] at hx; exact hx
  | ptick a => left; rw [step, ptick_registered] at hx; exact hx
  | itick a => left; rw [step, itick_registered] at hx; exact hx
  | crash => left; exact hx
  | crashTorn =>
    left
    have : (step σ .crashTorn).registered = σ.registered := tornEffect_registered σ
    rw [this] at hx; exact hx
  | ctr s i o => left; exact hx
  | restart order =>
    left
    simp only [step] at hx
    split at hx
    · exact hx
    · unfold callRestart at hx
      simp only at hx
      split at hx <;> exact hx
  | start s ident =>
    simp only [step] at hx
    split at hx
    · exact Or.inl hx
    · split at hx
      · exact Or.inl hx
      · unfold callStart at hx
        split at hx
        · exact Or.inl hx
        · simp only [setPc, begin, List.mem_cons] at hx
          rcases hx with e | e
          · right; subst e; rfl
          · exact Or.inl e
  | interim s =>
    left
    simp only [step] at hx
    split at hx
    · exact hx
    · split at hx
      · exact hx
      · unfold callInterim at hx
        split at hx
        · exact hx
        · split at hx <;> exact hx
  | stop s cause =>
    left
    simp only [step] at hx
    split at hx
    · exact hx
    · split at hx
      · exact hx
      · unfold callStop at hx
        split at hx <;> exact hx
  | deq =>
    left
    simp only [step] at hx
    split at hx
    · exact hx
    · split at hx
      · exact hx
      · unfold callDeq at hx
        split at hx <;> exact hx
  | retry order =>
    left
    simp only [step] at hx
    split at hx
    · exact hx
    · split at hx <;> exact hx
  | shutdown order =>
    left
    simp only [step] at hx
    split at hx
    · exact hx
    · split at hx <;> exact hx

theorem registered_run (σ : State) (ops : List Op) (x : Nat × Nat) (hx : x ∈ (run σ ops).registered) :
    x ∈ σ.registered ∨ Op.start x.1 x.2 ∈ ops := by
  induction ops generalizing σ with
  | nil => exact Or.inl hx
  | cons op ops ih =>
    rcases ih (step σ op) hx with h | h
    · rcases registered_step σ op x h with h' | h'
      · exact Or.inl h'
      · right; rw [h']; exact List.mem_cons_self
    · exact Or.inr (List.mem_cons_of_mem _ h)


/-! ## Dur: the durability invariant (with the recovery-path exception) -/

/-- the part that does not mention the program counter -/
def DC (σ : State) : Prop :=
  ∀ s ∈ σ.started, stopIn σ.log s ∨ s ∈ σ.recVol ∨ (lookup σ.dur.files s).isSome

/-- what the call in progress knows: a frame that is about to remove a session file has seen the Stop
    acknowledged (or, in the recovery procedure, has re-queued it) -/
def frameAck (pc : Option Frame) (σ : State) : Prop :=
  match pc with
  | some (.stopDelete s true) => stopIn σ.log s
  | some (.stopRemove s true) => stopIn σ.log s
  | some (.procRemove s _) => stopIn σ.log s
  | some (.drainRemove s _) => stopIn σ.log s
  | some (.recRemove s _ _ _) => stopIn σ.log s ∨ s ∈ σ.recVol
  | _ => True

/-- the API thread's half -/
structure DurA (σ : State) : Prop where
  core : DC σ
  ack : frameAck σ.vol.pc σ

structure DurInv (σ : State) : Prop where
  core : DC σ
  ack : frameAck σ.vol.pc σ
  pack : frameAck σ.vol.ppc σ

theorem dc_of_eq {σ σ' : State} (h : DC σ) (h1 : σ'.started = σ.started) (h2 : σ'.log = σ.log)
    (h3 : σ'.recVol = σ.recVol) (h4 : σ'.dur.files = σ.dur.files) : DC σ' := by
  intro s hs
  rw [h1] at hs
  rw [h2, h3, h4]
  exact h s hs

theorem dc_setPc {σ : State} (h : DC σ) (pc : Option Frame) : DC (setPc σ pc) := h
theorem dc_setPpc {σ : State} (h : DC σ) (pc : Option Frame) : DC (setPpc σ pc) := h
theorem dc_noteOrd {σ : State} (h : DC σ) (x : Nat) : DC (noteOrd σ x) := h
theorem dc_notePOrd {σ : State} (h : DC σ) (x : Nat) : DC (notePOrd σ x) := h

theorem dc_accept {σ : State} (h : DC σ) (r : Rec) (b : Bool) : DC (accept σ r b) := by
  intro s hs
  rcases h s hs with h1 | h1 | h1
  · exact Or.inl (stopIn_append _ h1)
  · exact Or.inr (Or.inl h1)
  · exact Or.inr (Or.inr h1)

theorem recVol_enqueue {σ : State} (r : Rec) (v : Bool) {s : Nat} (h : s ∈ σ.recVol) :
    s ∈ (enqueue σ r v).recVol := by
  simp only [enqueue]
  split
  · exact List.mem_cons_of_mem _ h
  · exact h

theorem dc_enqueue {σ : State} (h : DC σ) (r : Rec) (v : Bool) : DC (enqueue σ r v) := by
  intro s hs
  rcases h s hs with h1 | h1 | h1
  · exact Or.inl h1
  · exact Or.inr (Or.inl (recVol_enqueue r v h1))
  · exact Or.inr (Or.inr h1)

theorem dc_send {σ : State} (h : DC σ) (r : Rec) (a : Ans) (v : Bool) : DC (send σ r a v) := by
  unfold send; split
  · exact dc_accept h r true
  · exact dc_enqueue h r v
  · exact dc_enqueue (dc_accept h r false) r v

theorem dc_persist {σ : State} (h : DC σ) (s : Nat) : DC (persistSession σ s) := by
  unfold persistSession
  split
  · exact h
  · intro k hk
    rcases h k hk with h1 | h1 | h1
    · exact Or.inl h1
    · exact Or.inr (Or.inl h1)
    · right; right
      simp only [lookup_insert]
      split
      · rfl
      · exact h1

theorem dc_removeFile {σ : State} (h : DC σ) (s : Nat) (hs : stopIn σ.log s ∨ s ∈ σ.recVol) :
    DC (removeFile σ s) := by
  intro k hk
  rcases h k hk with h1 | h1 | h1
  · exact Or.inl h1
  · exact Or.inr (Or.inl h1)
  · by_cases e : k = s
    · subst e
      rcases hs with h2 | h2
      · exact Or.inl h2
      · exact Or.inr (Or.inl h2)
    · right; right
      simp only [removeFile, lookup_erase, e, if_false]
      exact h1

theorem stopIn_accept (σ : State) (r : Rec) (b : Bool) (h : r.kind = .stop) : stopIn (accept σ r b).log r.sid :=
  ⟨r, by simp [accept], h, rfl⟩

theorem frameAck_nextProc (ps : List PRec) (rest : List Nat) (σ : State) : frameAck (nextProc ps rest) σ := by
  induction rest with
  | nil => trivial
  | cons id rest ih =>
    simp only [nextProc]
    split
    · trivial
    · exact ih

theorem frameAck_nextDrain (rest : List Nat) (σ : State) : frameAck (some (nextDrain rest)) σ := by
  cases rest <;> trivial

theorem frameAck_nextRec (recd order rest : List Nat) (σ : State) :
    frameAck (some (nextRec recd order rest)) σ := by
  cases rest <;> trivial

theorem dura_tick {σ : State} (h : DurA σ) (a : Ans) : DurA (tick σ a) := by
  obtain ⟨hc, hk⟩ := h
  unfold tick
  split
  · exact ⟨hc, hk⟩
  · -- startSend
    rename_i s _
    unfold tickStartSend
    split
    · exact ⟨hc, trivial⟩
    · exact ⟨dc_send hc _ _ _, trivial⟩
  · rename_i s _
    unfold tickStartPersist
    split
    · exact ⟨hc, trivial⟩
    · rename_i x hx
      refine ⟨?_, trivial⟩
      intro k hk'
      simp only [setPc, List.mem_cons] at hk'
      rcases hk' with e | e
      · subst e
        right; right
        simp [setPc, persistSession, hx]
      · exact dc_persist hc s k e
  · rename_i s _
    exact ⟨dc_persist hc s, trivial⟩
  · rename_i s _
    unfold tickStopSend
    split
    · exact ⟨hc, trivial⟩
    · rename_i x hx
      refine ⟨dc_send hc _ _ _, ?_⟩
      cases a with
      | down => trivial
      | lost => trivial
      | up => exact stopIn_accept σ (stopRec s x x.stopCause (counters σ s)) true rfl
  · rename_i s acked heq
    rw [heq] at hk
    refine ⟨dc_of_eq hc rfl rfl rfl rfl, ?_⟩
    cases acked with
    | false => trivial
    | true => exact hk
  · rename_i s acked heq
    rw [heq] at hk
    unfold tickStopRemove
    cases acked with
    | false => exact ⟨hc, trivial⟩
    | true => exact ⟨dc_removeFile hc s (Or.inl hk), trivial⟩
  · exact ⟨hc, hk⟩
  · exact ⟨hc, hk⟩
  · exact ⟨hc, hk⟩
  · -- drainSend
    rename_i s rest _
    unfold tickDrainSend
    split
    · exact ⟨hc, frameAck_nextDrain _ _⟩
    · rename_i x hx
      simp only
      split
      · exact ⟨dc_accept hc _ true, stopIn_accept _ (stopRec s x 11 (counters (noteOrd σ s) s)) true rfl⟩
      · exact ⟨dc_setPc (dc_enqueue (dc_noteOrd hc s) _ _) _, frameAck_nextDrain _ _⟩
      · exact ⟨dc_setPc (dc_enqueue (dc_accept (dc_noteOrd hc s) _ false) _ _) _, frameAck_nextDrain _ _⟩
  · -- drainRemove
    rename_i s rest heq
    rw [heq] at hk
    exact ⟨dc_removeFile hc s (Or.inl hk), frameAck_nextDrain _ _⟩
  · -- persistPending
    unfold tickPersistPending
    split
    · exact ⟨hc, hk⟩
    · refine ⟨?_, trivial⟩
      intro k hk'
      rcases hc k hk' with h1 | h1 | h1
      · exact Or.inl h1
      · exact Or.inr (Or.inl h1)
      · right; right
        simp only
        split <;> exact h1
  · -- recSend
    rename_i s rest recd order _
    unfold tickRecSend
    split
    · exact ⟨hc, frameAck_nextRec _ _ _ _⟩
    · rename_i x hx
      refine ⟨dc_send hc _ _ _, ?_⟩
      cases a with
      | up =>
        left
        exact stopIn_accept σ (stopRec s x (if x.stopCause = 0 then 11 else x.stopCause) (x.lastIn, x.lastOut)) true rfl
      | down =>
        right
        simp [send, enqueue, setPc, stopRec]
      | lost =>
        right
        simp [send, enqueue, setPc, stopRec, accept]
  · -- recRemove
    rename_i s rest recd order heq
    rw [heq] at hk
    exact ⟨dc_removeFile hc s hk, frameAck_nextRec _ _ _ _⟩
  · -- recLoad
    rename_i recd order _
    unfold tickRecLoad
    split
    · exact ⟨hc, trivial⟩
    · rename_i ps hps
      refine ⟨?_, trivial⟩
      have sp := loadPending_spec σ recd (recOfIds ps (normalize order (ps.map (·.id))))
      intro k hk'
      have hk2 : k ∈ σ.started := by
        have := sp.started
        simp only [setPc] at hk'
        rw [this] at hk'; exact hk'
      rcases hc k hk2 with h1 | h1 | h1
      · left; simp only [setPc]; rw [sp.log]; exact h1
      · right; left; simp only [setPc]; exact (sp.recVol k).mpr (Or.inl h1)
      · right; right; simp only [setPc]; rw [sp.dur]; exact h1
  · -- recPendRemove
    exact ⟨dc_of_eq hc rfl rfl rfl rfl, trivial⟩

theorem dc_procFail {σ : State} (h : DC σ) (p : PRec) (id : Nat) (rest : List Nat) :
    DC (procFail σ p id rest) := by
  unfold procFail
  split
  · exact dc_of_eq h rfl rfl rfl rfl
  · exact dc_of_eq h rfl rfl rfl rfl

theorem frameAck_procFail (σ : State) (p : PRec) (id : Nat) (rest : List Nat) :
    frameAck (procFail σ p id rest).vol.ppc (procFail σ p id rest) := by
  unfold procFail
  split
  · exact frameAck_nextProc _ _ _
  · exact frameAck_nextProc _ _ _

/-- the processor thread's half -/
theorem durp_ptick {σ : State} (hc : DC σ) (hk : frameAck σ.vol.ppc σ) (a : Ans) :
    DC (ptick σ a) ∧ frameAck (ptick σ a).vol.ppc (ptick σ a) := by
  unfold ptick
  split
  · rename_i id rest _
    unfold tickProcSend
    split
    · exact ⟨hc, frameAck_nextProc _ _ _⟩
    · rename_i p hp
      simp only
      split
      · split
        · rename_i hk'
          refine ⟨dc_accept hc p.req true, ?_⟩
          have : p.req.kind = .stop := by simpa using hk'
          exact stopIn_accept _ p.req true this
        · exact ⟨dc_accept hc p.req true, frameAck_nextProc _ _ _⟩
      · exact ⟨dc_procFail (dc_notePOrd hc id) p id rest, frameAck_procFail _ _ _ _⟩
      · exact ⟨dc_procFail (dc_accept (dc_notePOrd hc id) p.req false) p id rest, frameAck_procFail _ _ _ _⟩
  · rename_i s rest heq
    rw [heq] at hk
    exact ⟨dc_removeFile hc s (Or.inl hk), frameAck_nextProc _ _ _⟩
  · exact ⟨hc, hk⟩

theorem dc_itick {σ : State} (hc : DC σ) (a : Ans) : DC (itick σ a) := by
  unfold itick
  split
  · rename_i s ident i o _
    have h1 := fun b => dc_accept hc { kind := .interim, sid := s, ident := ident, cause := 0, inOct := i, outOct := o } b
    unfold tickIntSend
    dsimp only
    split
    · split
      · exact dc_of_eq (h1 true) rfl rfl rfl rfl
      · exact dc_of_eq (h1 true) rfl rfl rfl rfl
    · exact dc_of_eq (dc_enqueue hc { kind := .interim, sid := s, ident := ident, cause := 0, inOct := i, outOct := o } false) rfl rfl rfl rfl
    · exact dc_of_eq (dc_enqueue (h1 false) { kind := .interim, sid := s, ident := ident, cause := 0, inOct := i, outOct := o } false) rfl rfl rfl rfl
  · exact hc

/-- what a frame knows stays true when the log and recVol grow -/
theorem frameAck_mono {pc : Option Frame} {σ σ' : State} (h : frameAck pc σ)
    (hl : ∀ r ∈ σ.log, r ∈ σ'.log) (hr : ∀ s ∈ σ.recVol, s ∈ σ'.recVol) : frameAck pc σ' := by
  have hs : ∀ s, stopIn σ.log s → stopIn σ'.log s := fun s ⟨r, hr', h2⟩ => ⟨r, hl r hr', h2⟩
  unfold frameAck at h ⊢
  split
  · split at h <;> simp_all
  · split at h <;> simp_all
  · split at h <;> simp_all
  · split at h <;> simp_all
  · split at h
    all_goals first
      | (rename_i e; cases e)
      | skip
    all_goals first
      | (rcases h with h | h
         · exact Or.inl (hs _ h)
         · exact Or.inr (hr _ h))
      | simp_all
  · trivial

/-! ### the log and recVol only grow; each thread leaves the other's program counter alone -/

theorem log_mono_accept (σ : State) (r0 : Rec) (b : Bool) (r : Rec) (h : r ∈ σ.log) : r ∈ (accept σ r0 b).log :=
  List.mem_append_left _ h

theorem log_mono_send (σ : State) (r0 : Rec) (a : Ans) (v : Bool) (r : Rec) (h : r ∈ σ.log) :
    r ∈ (send σ r0 a v).log := by
  unfold send; split
  · exact log_mono_accept σ r0 true r h
  · exact h
  · exact log_mono_accept σ r0 false r h

theorem log_mono_tick (σ : State) (a : Ans) (r : Rec) (h : r ∈ σ.log) : r ∈ (tick σ a).log := by
  unfold tick
  split
  · exact h
  · unfold tickStartSend; split
    · exact h
    · exact log_mono_send σ _ a false r h
  · unfold tickStartPersist persistSession; repeat' (first | exact h | split)
  · unfold tickStopPersist persistSession; repeat' (first | exact h | split)
  · unfold tickStopSend; split
    · exact h
    · exact log_mono_send σ _ a false r h
  · exact h
  · unfold tickStopRemove; repeat' (first | exact h | split)
  · exact h
  · exact h
  · exact h
  · unfold tickDrainSend accept; repeat' (first | exact h | exact List.mem_append_left _ h | split)
  · exact h
  · unfold tickPersistPending; repeat' (first | exact h | split)
  · unfold tickRecSend; split
    · exact h
    · exact log_mono_send σ _ a true r h
  · exact h
  · unfold tickRecLoad
    split
    · exact h
    · simp only [setPc]; rw [(loadPending_spec _ _ _).log]; exact h
  · exact h

theorem log_mono_ptick (σ : State) (a : Ans) (r : Rec) (h : r ∈ σ.log) : r ∈ (ptick σ a).log := by
  unfold ptick
  split
  · unfold tickProcSend procFail accept
    split
    · exact h
    · dsimp only
      repeat' (first | exact h | exact List.mem_append_left _ h | split)
  · exact h
  · exact h

theorem log_mono_itick (σ : State) (a : Ans) (r : Rec) (h : r ∈ σ.log) : r ∈ (itick σ a).log := by
  unfold itick
  split
  · unfold tickIntSend accept
    dsimp only
    repeat' (first | exact h | exact List.mem_append_left _ h | split)
  · exact h

theorem recVol_mono_send (σ : State) (r0 : Rec) (a : Ans) (v : Bool) (s : Nat) (h : s ∈ σ.recVol) :
    s ∈ (send σ r0 a v).recVol := by
  unfold send; split
  · exact h
  · exact recVol_enqueue r0 v h
  · exact recVol_enqueue (σ := accept σ r0 false) r0 v h

theorem recVol_mono_tick (σ : State) (a : Ans) (s : Nat) (h : s ∈ σ.recVol) : s ∈ (tick σ a).recVol := by
  unfold tick
  split
  · exact h
  · unfold tickStartSend; split
    · exact h
    · exact recVol_mono_send σ _ a false s h
  · unfold tickStartPersist persistSession; repeat' (first | exact h | split)
  · unfold tickStopPersist persistSession; repeat' (first | exact h | split)
  · unfold tickStopSend; split
    · exact h
    · exact recVol_mono_send σ _ a false s h
  · exact h
  · unfold tickStopRemove; repeat' (first | exact h | split)
  · exact h
  · exact h
  · exact h
  · unfold tickDrainSend
    split
    · exact h
    · dsimp only
      split
      · exact h
      · simp only [setPc]; exact recVol_enqueue _ _ h
      · simp only [setPc]; exact recVol_enqueue _ _ h
  · exact h
  · unfold tickPersistPending; repeat' (first | exact h | split)
  · unfold tickRecSend; split
    · exact h
    · exact recVol_mono_send σ _ a true s h
  · exact h
  · unfold tickRecLoad
    split
    · exact h
    · simp only [setPc]; exact ((loadPending_spec _ _ _).recVol s).mpr (Or.inl h)
  · exact h

theorem recVol_itick (σ : State) (a : Ans) : (itick σ a).recVol = σ.recVol := by
  unfold itick
  split
  · unfold tickIntSend enqueue accept
    dsimp only
    repeat' (first | rfl | split)
  · rfl

theorem itick_pc (σ : State) (a : Ans) : (itick σ a).vol.pc = σ.vol.pc := by
  unfold itick
  split
  · unfold tickIntSend enqueue accept
    dsimp only
    repeat' (first | rfl | split)
  · rfl

theorem itick_ppc (σ : State) (a : Ans) : (itick σ a).vol.ppc = σ.vol.ppc := by
  unfold itick
  split
  · unfold tickIntSend enqueue accept
    dsimp only
    repeat' (first | rfl | split)
  · rfl

theorem recVol_ptick (σ : State) (a : Ans) : (ptick σ a).recVol = σ.recVol := by
  unfold ptick
  split
  · unfold tickProcSend procFail
    split
    · rfl
    · dsimp only
      repeat' (first | rfl | split)
  · rfl
  · rfl

/-- an API micro-step leaves the processor's program counter alone (or the process exits) -/
theorem tick_ppc (σ : State) (a : Ans) : (tick σ a).vol.ppc = σ.vol.ppc ∨ (tick σ a).vol.ppc = none := by
  unfold tick
  split
  · exact Or.inl rfl
  · left; unfold tickStartSend send; repeat' (first | rfl | split)
  · left; unfold tickStartPersist persistSession; repeat' (first | rfl | split)
  · left; unfold tickStopPersist persistSession; repeat' (first | rfl | split)
  · left; unfold tickStopSend send; repeat' (first | rfl | split)
  · exact Or.inl rfl
  · left; unfold tickStopRemove; repeat' (first | rfl | split)
  · exact Or.inl rfl
  · exact Or.inl rfl
  · exact Or.inl rfl
  · left; unfold tickDrainSend; repeat' (first | rfl | split)
  · exact Or.inl rfl
  · unfold tickPersistPending
    split
    · exact Or.inl rfl
    · exact Or.inr rfl
  · left; unfold tickRecSend send; repeat' (first | rfl | split)
  · exact Or.inl rfl
  · left
    unfold tickRecLoad
    split
    · rfl
    · exact (loadPending_spec _ _ _).ppc
  · exact Or.inl rfl

/-- a processor micro-step leaves the API call's program counter alone -/
theorem ptick_pc (σ : State) (a : Ans) : (ptick σ a).vol.pc = σ.vol.pc := by
  unfold ptick
  split
  · unfold tickProcSend procFail
    split
    · rfl
    · dsimp only
      repeat' (first | rfl | split)
  · rfl
  · rfl

theorem dur_tick {σ : State} (h : DurInv σ) (a : Ans) : DurInv (tick σ a) := by
  obtain ⟨h1, h2⟩ := dura_tick ⟨h.core, h.ack⟩ a
  refine ⟨h1, h2, ?_⟩
  rcases tick_ppc σ a with e | e
  · rw [e]; exact frameAck_mono h.pack (log_mono_tick σ a) (recVol_mono_tick σ a)
  · rw [e]; trivial

theorem dur_ptick {σ : State} (h : DurInv σ) (a : Ans) : DurInv (ptick σ a) := by
  obtain ⟨h1, h2⟩ := durp_ptick h.core h.pack a
  refine ⟨h1, ?_, h2⟩
  rw [ptick_pc]
  exact frameAck_mono h.ack (log_mono_ptick σ a) (fun s hs => by rw [recVol_ptick]; exact hs)

theorem dur_itick {σ : State} (h : DurInv σ) (a : Ans) : DurInv (itick σ a) := by
  refine ⟨dc_itick h.core a, ?_, ?_⟩
  · rw [itick_pc]
    exact frameAck_mono h.ack (log_mono_itick σ a) (fun s hs => by rw [recVol_itick]; exact hs)
  · rw [itick_ppc]
    exact frameAck_mono h.pack (log_mono_itick σ a) (fun s hs => by rw [recVol_itick]; exact hs)

theorem dur_init (c : Cfg) : DurInv (init c) := ⟨by intro s hs; simp [init] at hs, trivial, trivial⟩

theorem dc_torn {σ : State} (h : DC σ) : DC (tornEffect σ) := by
  unfold tornEffect
  split
  · split
    · exact dc_of_eq h rfl rfl rfl rfl
    · exact h
  · split
    · exact dc_of_eq h rfl rfl rfl rfl
    · exact h
  · exact h

theorem dur_step {σ : State} (h : DurInv σ) (op : Op) : DurInv (step σ op) := by
  obtain ⟨hc, hk, hp⟩ := h
  cases op with
  | tick a => exact dur_tick ⟨hc, hk, hp⟩ a
  | ptick a => exact dur_ptick ⟨hc, hk, hp⟩ a
  | itick a => exact dur_itick ⟨hc, hk, hp⟩ a
  | crash => exact ⟨dc_of_eq hc rfl rfl rfl rfl, trivial, trivial⟩
  | crashTorn => exact ⟨dc_of_eq (dc_torn hc) rfl rfl rfl rfl, trivial, trivial⟩
  | ctr s i o => exact ⟨dc_of_eq hc rfl rfl rfl rfl, hk, hp⟩
  | restart order =>
    simp only [step]
    split
    · exact ⟨hc, hk, hp⟩
    · unfold callRestart
      simp only
      split
      · exact ⟨dc_of_eq hc rfl rfl rfl rfl, frameAck_nextRec _ _ _ _, trivial⟩
      · exact ⟨dc_of_eq hc rfl rfl rfl rfl, trivial, trivial⟩
  | start s ident =>
    simp only [step]
    split
    · exact ⟨hc, hk, hp⟩
    · split
      · exact ⟨hc, hk, hp⟩
      · unfold callStart
        split
        · exact ⟨hc, hk, hp⟩
        · exact ⟨dc_of_eq hc rfl rfl rfl rfl, trivial, hp⟩
  | interim s =>
    simp only [step]
    split
    · exact ⟨hc, hk, hp⟩
    · split
      · exact ⟨hc, hk, hp⟩
      · unfold callInterim
        split
        · exact ⟨hc, hk, hp⟩
        · split
          · exact ⟨hc, hk, hp⟩
          · exact ⟨hc, hk, hp⟩
  | stop s cause =>
    simp only [step]
    split
    · exact ⟨hc, hk, hp⟩
    · split
      · exact ⟨hc, hk, hp⟩
      · unfold callStop
        split
        · exact ⟨hc, hk, hp⟩
        · exact ⟨dc_of_eq hc rfl rfl rfl rfl, trivial, hp⟩
  | deq =>
    simp only [step]
    split
    · exact ⟨hc, hk, hp⟩
    · split
      · exact ⟨hc, hk, hp⟩
      · unfold callDeq
        split
        · exact ⟨hc, hk, hp⟩
        · exact ⟨dc_of_eq hc rfl rfl rfl rfl, hk, frameAck_nextProc _ _ _⟩
  | retry order =>
    simp only [step]
    split
    · exact ⟨hc, hk, hp⟩
    · split
      · exact ⟨hc, hk, hp⟩
      · exact ⟨hc, hk, frameAck_nextProc _ _ _⟩
  | shutdown order =>
    simp only [step]
    split
    · exact ⟨hc, hk, hp⟩
    · split
      · exact ⟨hc, hk, hp⟩
      · exact ⟨hc, frameAck_nextDrain _ _, hp⟩

theorem dur_run {σ : State} (h : DurInv σ) (ops : List Op) : DurInv (run σ ops) := by
  induction ops generalizing σ with
  | nil => exact h
  | cons op ops ih => exact ih (dur_step h op)

/-! ## SA: a Stop is only ever produced for a session whose Start was accepted or queued -/

def okStart (σ : State) (s : Nat) : Prop := s ∈ σ.startQueued ∨ startIn σ.log s

/-- every accepted Stop whose session is not in `sq` is preceded by that session's accepted Start -/
def goodLog (sq : List Nat) (log : List Rec) : Prop :=
  ∀ pre r post, log = pre ++ r :: post → r.kind = .stop → r.sid ∉ sq → startIn pre r.sid

theorem split_snoc {α : Type} {pre post l : List α} {r x : α} (h : pre ++ r :: post = l ++ [x]) :
    (post = [] ∧ pre = l ∧ r = x) ∨ ∃ post', post = post' ++ [x] ∧ l = pre ++ r :: post' := by
  rcases List.eq_nil_or_concat post with e | ⟨post', y, e⟩
  · subst e
    left
    have h' : pre ++ [r] = l ++ [x] := h
    have := List.append_inj' h' rfl
    exact ⟨rfl, this.1, by simpa using this.2⟩
  · rw [List.concat_eq_append] at e
    subst e
    right
    have h' : (pre ++ r :: post') ++ [y] = l ++ [x] := by simpa using h
    have := List.append_inj' h' rfl
    have e2 : y = x := by simpa using this.2
    subst e2
    exact ⟨post', rfl, this.1.symm⟩

theorem goodLog_snoc {sq : List Nat} {log : List Rec} {r : Rec} (h : goodLog sq log)
    (hr : r.kind = .stop → r.sid ∉ sq → startIn log r.sid) : goodLog sq (log ++ [r]) := by
  intro pre r' post e hk hs
  rcases split_snoc e.symm with ⟨_, e2, e3⟩ | ⟨post', _, e3⟩
  · subst e2; subst e3; exact hr hk hs
  · exact h pre r' post' e3 hk hs

theorem goodLog_mono {sq sq' : List Nat} {log : List Rec} (h : goodLog sq log) (hm : ∀ x ∈ sq, x ∈ sq') :
    goodLog sq' log := by
  intro pre r post e hk hs
  exact h pre r post e hk (fun hx => hs (hm _ hx))

/-- the invariant without the program counter: every session in memory already has okStart -/
structure SAs (σ : State) : Prop where
  files : ∀ s, (lookup σ.dur.files s).isSome → okStart σ s
  pend : ∀ p ∈ σ.vol.pending, p.req.kind = .stop → okStart σ p.req.sid
  pfile : ∀ ps, σ.dur.pfile = some ps → ∀ p ∈ ps, p.req.kind = .stop → okStart σ p.req.sid
  sess : ∀ s, (lookup σ.vol.sessions s).isSome → okStart σ s
  log : goodLog σ.startQueued σ.log

/-- the invariant: the only session that may lack okStart is the one StartSession is just sending for -/
structure SA (σ : State) : Prop where
  files : ∀ s, (lookup σ.dur.files s).isSome → okStart σ s
  pend : ∀ p ∈ σ.vol.pending, p.req.kind = .stop → okStart σ p.req.sid
  pfile : ∀ ps, σ.dur.pfile = some ps → ∀ p ∈ ps, p.req.kind = .stop → okStart σ p.req.sid
  sess : ∀ s, (lookup σ.vol.sessions s).isSome → okStart σ s ∨ σ.vol.pc = some (.startSend s)
  log : goodLog σ.startQueued σ.log

theorem SAs.toSA {σ : State} (h : SAs σ) : SA σ :=
  ⟨h.files, h.pend, h.pfile, fun s hs => Or.inl (h.sess s hs), h.log⟩

theorem SA.toSAs {σ : State} (h : SA σ) (hpc : ∀ s, σ.vol.pc ≠ some (.startSend s)) : SAs σ :=
  ⟨h.files, h.pend, h.pfile, fun s hs => (h.sess s hs).resolve_right (hpc s), h.log⟩

theorem okStart_accept {σ : State} (r : Rec) (b : Bool) {s : Nat} (h : okStart σ s) : okStart (accept σ r b) s := by
  rcases h with h | h
  · exact Or.inl h
  · exact Or.inr (startIn_append _ h)

theorem okStart_enqueue {σ : State} (r : Rec) (v : Bool) {s : Nat} (h : okStart σ s) :
    okStart (enqueue σ r v) s := by
  rcases h with h | h
  · left
    simp only [enqueue]
    split
    · exact List.mem_cons_of_mem _ h
    · exact h
  · exact Or.inr h

theorem sas_setPc {σ : State} (h : SAs σ) (pc : Option Frame) : SAs (setPc σ pc) :=
  ⟨h.files, h.pend, h.pfile, h.sess, h.log⟩
theorem sas_noteOrd {σ : State} (h : SAs σ) (x : Nat) : SAs (noteOrd σ x) :=
  ⟨h.files, h.pend, h.pfile, h.sess, h.log⟩
theorem sas_begin {σ : State} (h : SAs σ) (r : Res) : SAs (begin σ r) :=
  ⟨h.files, h.pend, h.pfile, h.sess, h.log⟩

theorem sas_accept {σ : State} (h : SAs σ) (r : Rec) (b : Bool) (hr : r.kind = .stop → okStart σ r.sid) :
    SAs (accept σ r b) := by
  refine ⟨fun s hs => okStart_accept r b (h.files s hs), fun p hp hk => okStart_accept r b (h.pend p hp hk),
    fun ps hps p hp hk => okStart_accept r b (h.pfile ps hps p hp hk), fun s hs => okStart_accept r b (h.sess s hs), ?_⟩
  apply goodLog_snoc h.log
  intro hk hs
  rcases hr hk with h1 | h1
  · exact absurd h1 hs
  · exact h1

theorem sas_enqueue {σ : State} (h : SAs σ) (r : Rec) (v : Bool) (hr : r.kind = .stop → okStart σ r.sid) :
    SAs (enqueue σ r v) := by
  refine ⟨fun s hs => okStart_enqueue r v (h.files s hs), ?_,
    fun ps hps p hp hk => okStart_enqueue r v (h.pfile ps hps p hp hk),
    fun s hs => okStart_enqueue r v (h.sess s hs), ?_⟩
  · intro p hp hk
    simp only [enqueue, List.mem_cons] at hp
    rcases hp with e | e
    · subst e; exact okStart_enqueue r v (hr hk)
    · exact okStart_enqueue r v (h.pend p e hk)
  · apply goodLog_mono h.log
    intro x hx
    simp only [enqueue]
    split
    · exact List.mem_cons_of_mem _ hx
    · exact hx

theorem sas_send {σ : State} (h : SAs σ) (r : Rec) (a : Ans) (v : Bool) (hr : r.kind = .stop → okStart σ r.sid) :
    SAs (send σ r a v) := by
  unfold send; split
  · exact sas_accept h r true hr
  · exact sas_enqueue h r v hr
  · exact sas_enqueue (sas_accept h r false hr) r v (fun hk => okStart_accept r false (hr hk))

theorem sas_persist {σ : State} (h : SAs σ) (s : Nat) : SAs (persistSession σ s) := by
  unfold persistSession
  split
  · exact h
  · rename_i x hx
    refine ⟨?_, h.pend, h.pfile, h.sess, h.log⟩
    intro k hk
    simp only [lookup_insert] at hk
    split at hk
    · rename_i e; subst e
      exact h.sess k (by simp [hx])
    · exact h.files k hk

theorem sas_removeFile {σ : State} (h : SAs σ) (s : Nat) : SAs (removeFile σ s) := by
  refine ⟨?_, h.pend, h.pfile, h.sess, h.log⟩
  intro k hk
  simp only [removeFile, lookup_erase] at hk
  split at hk
  · simp at hk
  · exact h.files k hk

theorem sas_vol {σ : State} (h : SAs σ) (ss : AMap Nat Sess) (ps : List PRec) (q : List Nat) (pc ppc : Option Frame)
    (hs : ∀ s, (lookup ss s).isSome → okStart σ s)
    (hp : ∀ p ∈ ps, p.req.kind = .stop → okStart σ p.req.sid) :
    SAs { σ with vol := { sessions := ss, pending := ps, queue := q, pc := pc, ppc := ppc, ipc := σ.vol.ipc } } :=
  ⟨h.files, hp, h.pfile, hs, h.log⟩


theorem sas_startAccept {σ : State} (h : SA σ) {s : Nat} {x : Sess} (heq : σ.vol.pc = some (.startSend s))
    (b : Bool) :
    SAs (accept σ { kind := Kind.start, sid := s, ident := x.ident, cause := 0, inOct := 0, outOct := 0 } b) := by
  refine ⟨fun k hk => okStart_accept _ _ (h.files k hk), fun p hp hk => okStart_accept _ _ (h.pend p hp hk),
    fun ps hps p hp hk => okStart_accept _ _ (h.pfile ps hps p hp hk), ?_, ?_⟩
  · intro k hk
    rcases h.sess k hk with h1 | h1
    · exact okStart_accept _ _ h1
    · rw [heq] at h1
      simp only [Option.some.injEq, Frame.startSend.injEq] at h1
      subst h1
      right
      exact ⟨_, List.mem_append_right _ List.mem_cons_self, rfl, rfl⟩
  · exact goodLog_snoc h.log (fun e => absurd e (by simp))

theorem sas_startSend {σ : State} (h : SA σ) {s : Nat} {x : Sess} (heq : σ.vol.pc = some (.startSend s))
    (a : Ans) :
    SAs (send σ { kind := Kind.start, sid := s, ident := x.ident, cause := 0, inOct := 0, outOct := 0 } a false) := by
  cases a with
  | up => exact sas_startAccept h heq true
  | lost =>
    exact sas_enqueue (sas_startAccept h heq false) _ false (fun e => absurd e (by simp))
  | down =>
    simp only [send]
    refine ⟨fun k hk => okStart_enqueue _ _ (h.files k hk), ?_,
      fun ps hps p hp hk => okStart_enqueue _ _ (h.pfile ps hps p hp hk), ?_, ?_⟩
    · intro p hp hk
      simp only [enqueue, List.mem_cons] at hp
      rcases hp with e | e
      · subst e; exact absurd hk (by simp)
      · exact okStart_enqueue _ _ (h.pend p e hk)
    · intro k hk
      rcases h.sess k hk with h1 | h1
      · exact okStart_enqueue _ _ h1
      · rw [heq] at h1
        simp only [Option.some.injEq, Frame.startSend.injEq] at h1
        subst h1
        left
        simp [enqueue]
    · apply goodLog_mono h.log
      intro y hy
      simp [enqueue, hy]

theorem sa_tick {σ : State} (h : SA σ) (a : Ans) : SA (tick σ a) := by
  unfold tick
  split
  · exact h
  · -- startSend: the one frame in which a session may still lack okStart
    rename_i s heq
    unfold tickStartSend
    split
    · rename_i hn
      refine ⟨h.files, h.pend, h.pfile, ?_, h.log⟩
      intro k hk
      have hk' : (lookup σ.vol.sessions k).isSome := hk
      rcases h.sess k hk' with h1 | h1
      · exact Or.inl h1
      · rw [heq] at h1
        simp only [Option.some.injEq, Frame.startSend.injEq] at h1
        subst h1; rw [hn] at hk'; simp at hk'
    · rename_i x hx
      exact (sas_setPc (sas_startSend h heq a) _).toSA
  · rename_i s heq
    have hs := h.toSAs (by intro k; rw [heq]; simp)
    unfold tickStartPersist
    split
    · exact (sas_setPc hs _).toSA
    · have h' := sas_persist hs s
      exact ⟨h'.files, h'.pend, h'.pfile, fun k hk => Or.inl (h'.sess k hk), h'.log⟩
  · rename_i s heq
    have hs := h.toSAs (by intro k; rw [heq]; simp)
    exact (sas_setPc (sas_persist hs s) _).toSA
  · rename_i s heq
    have hs := h.toSAs (by intro k; rw [heq]; simp)
    unfold tickStopSend
    split
    · exact (sas_setPc hs _).toSA
    · rename_i x hx
      exact (sas_setPc (sas_send hs _ _ _ (fun _ => hs.sess s (by simp [hx]))) _).toSA
  · rename_i s acked heq
    have hs := h.toSAs (by intro k; rw [heq]; simp)
    unfold tickStopDelete
    apply SAs.toSA
    apply sas_setPc
    apply sas_vol hs
    · intro k hk
      simp only [lookup_erase] at hk
      split at hk
      · simp at hk
      · exact hs.sess k hk
    · exact hs.pend
  · rename_i s acked heq
    have hs := h.toSAs (by intro k; rw [heq]; simp)
    unfold tickStopRemove
    apply SAs.toSA
    apply sas_setPc
    split
    · exact sas_removeFile hs s
    · exact hs
  · exact h
  · exact h
  · exact h
  · rename_i s rest heq
    have hs := h.toSAs (by intro k; rw [heq]; simp)
    unfold tickDrainSend
    split
    · exact (sas_setPc hs _).toSA
    · rename_i x hx
      have hok : okStart σ s := hs.sess s (by simp [hx])
      simp only
      split
      · exact (sas_setPc (sas_accept (sas_noteOrd hs s) (stopRec s x 11 (counters (noteOrd σ s) s)) true (fun _ => hok)) _).toSA
      · exact (sas_setPc (sas_enqueue (sas_noteOrd hs s) (stopRec s x 11 (counters (noteOrd σ s) s)) _ (fun _ => hok)) _).toSA
      · exact (sas_setPc (sas_enqueue (sas_accept (sas_noteOrd hs s) (stopRec s x 11 (counters (noteOrd σ s) s)) false (fun _ => hok))
          (stopRec s x 11 (counters (noteOrd σ s) s)) _ (fun _ => okStart_accept _ false hok)) _).toSA
  · rename_i s rest heq
    have hs := h.toSAs (by intro k; rw [heq]; simp)
    exact (sas_setPc (sas_removeFile hs s) _).toSA
  · -- persistPending
    rename_i heq
    have hs := h.toSAs (by intro k; rw [heq]; simp)
    unfold tickPersistPending
    split
    · exact h
    · refine ⟨?_, by simp, ?_, by simp, hs.log⟩
      · intro k hk
        simp only at hk
        split at hk <;> exact hs.files k hk
      · intro ps hps p hp hk
        simp only at hps
        split at hps
        · exact hs.pfile _ hps _ hp hk
        · simp only [Option.some.injEq] at hps; subst hps; exact hs.pend _ hp hk
  · rename_i s rest recd order heq
    have hs := h.toSAs (by intro k; rw [heq]; simp)
    unfold tickRecSend
    split
    · exact (sas_setPc hs _).toSA
    · rename_i x hx
      exact (sas_setPc (sas_send hs _ _ _ (fun _ => hs.files s (by simp [hx]))) _).toSA
  · rename_i s rest recd order heq
    have hs := h.toSAs (by intro k; rw [heq]; simp)
    exact (sas_setPc (sas_removeFile hs s) _).toSA
  · rename_i recd order heq
    have hs := h.toSAs (by intro k; rw [heq]; simp)
    unfold tickRecLoad
    split
    · exact (sas_setPc hs _).toSA
    · rename_i ps hps
      apply SAs.toSA
      apply sas_setPc
      have sp := loadPending_spec σ recd (recOfIds ps (normalize order (ps.map (·.id))))
      have ok : ∀ k, okStart σ k → okStart (loadPending σ recd (recOfIds ps (normalize order (ps.map (·.id))))) k := by
        intro k hk
        unfold okStart
        rw [sp.startQueued, sp.log]; exact hk
      refine ⟨?_, ?_, ?_, ?_, ?_⟩
      · intro k hk; rw [sp.dur] at hk; exact ok k (hs.files k hk)
      · intro p hp hk
        rcases sp.pending p hp with e | ⟨q, hq, e, _⟩
        · exact ok _ (hs.pend p e hk)
        · subst e; exact ok _ (hs.pfile _ hps q (mem_recOfIds hq) hk)
      · intro ps' hps' p hp hk
        rw [sp.dur] at hps'
        exact ok _ (hs.pfile _ hps' p hp hk)
      · intro k hk; rw [sp.sessions] at hk; exact ok k (hs.sess k hk)
      · rw [sp.startQueued, sp.log]; exact hs.log
  · rename_i heq
    have hs := h.toSAs (by intro k; rw [heq]; simp)
    unfold tickRecPendRemove
    apply SAs.toSA
    apply sas_setPc
    exact ⟨hs.files, hs.pend, by simp, hs.sess, hs.log⟩


/-- a step of the other thread: sessions and the API program counter untouched, everything else shrinks -/
theorem sa_mono {σ σ' : State} (h : SA σ) (hok : ∀ s, okStart σ s → okStart σ' s)
    (hf : ∀ s, (lookup σ'.dur.files s).isSome → (lookup σ.dur.files s).isSome)
    (hp : ∀ p ∈ σ'.vol.pending, ∃ q ∈ σ.vol.pending, q.req = p.req)
    (hpf : σ'.dur.pfile = σ.dur.pfile)
    (hs : σ'.vol.sessions = σ.vol.sessions) (hpc : σ'.vol.pc = σ.vol.pc)
    (hl : goodLog σ'.startQueued σ'.log) : SA σ' := by
  refine ⟨fun s hs' => hok s (h.files s (hf s hs')), ?_, ?_, ?_, hl⟩
  · intro p hp' hk
    obtain ⟨q, hq, e⟩ := hp p hp'
    rw [← e] at hk ⊢
    exact hok _ (h.pend q hq hk)
  · intro ps hps p hp' hk
    rw [hpf] at hps
    exact hok _ (h.pfile ps hps p hp' hk)
  · intro s hs'
    rw [hs] at hs'
    rw [hpc]
    rcases h.sess s hs' with h1 | h1
    · exact Or.inl (hok s h1)
    · exact Or.inr h1

/-- the general form: sessions may only disappear or change their counters, new pending records are not Stops -/
theorem sa_mono' {σ σ' : State} (h : SA σ) (hok : ∀ s, okStart σ s → okStart σ' s)
    (hf : ∀ s, (lookup σ'.dur.files s).isSome → (lookup σ.dur.files s).isSome)
    (hp : ∀ p ∈ σ'.vol.pending, p.req.kind = .stop → ∃ q ∈ σ.vol.pending, q.req = p.req)
    (hpf : σ'.dur.pfile = σ.dur.pfile)
    (hs : ∀ s, (lookup σ'.vol.sessions s).isSome → (lookup σ.vol.sessions s).isSome) (hpc : σ'.vol.pc = σ.vol.pc)
    (hl : goodLog σ'.startQueued σ'.log) : SA σ' := by
  refine ⟨fun s hs' => hok s (h.files s (hf s hs')), ?_, ?_, ?_, hl⟩
  · intro p hp' hk
    obtain ⟨q, hq, e⟩ := hp p hp' hk
    rw [← e] at hk ⊢
    exact hok _ (h.pend q hq hk)
  · intro ps hps p hp' hk
    rw [hpf] at hps
    exact hok _ (h.pfile ps hps p hp' hk)
  · intro s hs'
    rw [hpc]
    rcases h.sess s (hs s hs') with h1 | h1
    · exact Or.inl (hok s h1)
    · exact Or.inr h1

theorem goodLog_enqueue {σ : State} (r : Rec) (v : Bool) (h : goodLog σ.startQueued σ.log) :
    goodLog (enqueue σ r v).startQueued (enqueue σ r v).log := by
  apply goodLog_mono h
  intro x hx
  simp only [enqueue]
  split
  · exact List.mem_cons_of_mem _ hx
  · exact hx

/-- an interim update in flight is sent, whatever the API thread is doing -/
theorem sa_itick {σ : State} (h : SA σ) (a : Ans) : SA (itick σ a) := by
  unfold itick
  split
  · rename_i s ident i o _
    have hacc : ∀ b, SA (accept σ { kind := .interim, sid := s, ident := ident, cause := 0, inOct := i, outOct := o } b) := by
      intro b
      apply sa_mono' h
      · exact fun s hs => okStart_accept _ _ hs
      · exact fun s hs => hs
      · exact fun q hq _ => ⟨q, hq, rfl⟩
      · rfl
      · exact fun s hs => hs
      · rfl
      · exact goodLog_snoc h.log (fun e => by cases e)
    have henq : ∀ {τ : State}, SA τ →
        SA (enqueue τ { kind := .interim, sid := s, ident := ident, cause := 0, inOct := i, outOct := o } false) := by
      intro τ hτ
      apply sa_mono' hτ
      · exact fun s hs => okStart_enqueue _ _ hs
      · exact fun s hs => hs
      · intro q hq hk
        simp only [enqueue, List.mem_cons] at hq
        rcases hq with e | e
        · subst e; cases hk
        · exact ⟨q, e, rfl⟩
      · rfl
      · exact fun s hs => hs
      · rfl
      · exact goodLog_enqueue _ _ hτ.log
    have hset : ∀ {τ : State}, SA τ → SA (setIpc τ none) := fun hτ =>
      ⟨hτ.files, hτ.pend, hτ.pfile, hτ.sess, hτ.log⟩
    unfold tickIntSend
    dsimp only
    split
    · split
      · exact hset (hacc true)
      · rename_i x hx
        apply hset
        apply sa_mono' (hacc true)
        · exact fun s hs => hs
        · exact fun s hs => hs
        · exact fun q hq _ => ⟨q, hq, rfl⟩
        · rfl
        · intro k hk
          simp only [lookup_insert] at hk
          split at hk
          · rename_i e; subst e; simp [hx]
          · exact hk
        · rfl
        · exact (hacc true).log
    · exact hset (henq h)
    · exact hset (henq (hacc false))
  · exact h

theorem sa_procFail {σ : State} (h : SA σ) (p : PRec) (id : Nat) (rest : List Nat) :
    SA (procFail σ p id rest) := by
  unfold procFail
  split
  · apply sa_mono h
    · exact fun s hs => hs
    · exact fun s hs => hs
    · intro q hq; exact ⟨q, mem_eraseP hq, rfl⟩
    · rfl
    · rfl
    · rfl
    · exact h.log
  · apply sa_mono h
    · exact fun s hs => hs
    · exact fun s hs => hs
    · intro q hq
      simp only [setPpc, List.mem_map] at hq
      obtain ⟨q0, hq0, e⟩ := hq
      refine ⟨q0, hq0, ?_⟩
      split at e <;> (subst e; rfl)
    · rfl
    · rfl
    · rfl
    · exact h.log

theorem sa_acceptPending {σ : State} (h : SA σ) {p : PRec} (hm : p ∈ σ.vol.pending) (b : Bool) :
    SA (accept σ p.req b) := by
  apply sa_mono h (fun s hs => okStart_accept _ _ hs) (fun s hs => hs) (fun q hq => ⟨q, hq, rfl⟩) rfl rfl rfl
  apply goodLog_snoc h.log
  intro hk hs
  rcases h.pend p hm hk with h1 | h1
  · exact absurd h1 hs
  · exact h1

theorem sa_ptick {σ : State} (h : SA σ) (a : Ans) : SA (ptick σ a) := by
  unfold ptick
  split
  · rename_i id rest _
    unfold tickProcSend
    split
    · exact sa_mono h (fun s hs => hs) (fun s hs => hs) (fun q hq => ⟨q, hq, rfl⟩) rfl rfl rfl h.log
    · rename_i p hp
      have hm := findP_mem hp
      have h0 : SA (notePOrd σ id) := ⟨h.files, h.pend, h.pfile, h.sess, h.log⟩
      simp only
      split
      · have h1 := sa_acceptPending h0 (p := p) hm true
        have h2 : SA { (accept (notePOrd σ id) p.req true) with vol := { (accept (notePOrd σ id) p.req true).vol with
            pending := eraseP (accept (notePOrd σ id) p.req true).vol.pending id } } :=
          sa_mono h1 (fun s hs => hs) (fun s hs => hs) (fun q hq => ⟨q, mem_eraseP hq, rfl⟩) rfl rfl rfl h1.log
        split
        · exact sa_mono h2 (fun s hs => hs) (fun s hs => hs) (fun q hq => ⟨q, hq, rfl⟩) rfl rfl rfl h2.log
        · exact sa_mono h2 (fun s hs => hs) (fun s hs => hs) (fun q hq => ⟨q, hq, rfl⟩) rfl rfl rfl h2.log
      · exact sa_procFail h0 p id rest
      · exact sa_procFail (sa_acceptPending h0 (p := p) hm false) p id rest
  · rename_i s rest _
    unfold tickProcRemove
    apply sa_mono h
    · exact fun s hs => hs
    · intro k hk
      simp only [setPpc, removeFile, lookup_erase] at hk
      split at hk
      · simp at hk
      · exact hk
    · exact fun q hq => ⟨q, hq, rfl⟩
    · rfl
    · rfl
    · rfl
    · exact h.log
  · exact h

theorem sa_init (c : Cfg) : SA (init c) := by
  refine ⟨by simp [init], by simp [init], by simp [init], by simp [init], ?_⟩
  intro pre r post e
  simp [init] at e

theorem sa_res {σ : State} (h : SA σ) (r : Res) : SA { σ with res := r } :=
  ⟨h.files, h.pend, h.pfile, h.sess, h.log⟩

theorem sa_pres {σ : State} (h : SA σ) (r : Res) : SA { σ with pres := r } :=
  ⟨h.files, h.pend, h.pfile, h.sess, h.log⟩

theorem sa_crash {σ : State} (h : SA σ) : SA (crash σ) :=
  ⟨h.files, by simp [crash], h.pfile, by simp [crash], h.log⟩

theorem sa_torn {σ : State} (h : SA σ) : SA (tornEffect σ) := by
  unfold tornEffect
  split
  · split
    · exact ⟨h.files, h.pend, h.pfile, h.sess, h.log⟩
    · exact h
  · split
    · exact ⟨h.files, h.pend, h.pfile, h.sess, h.log⟩
    · exact h
  · exact h

theorem sa_step {σ : State} (h : SA σ) (op : Op) : SA (step σ op) := by
  have idle : σ.vol.pc.isSome = false → SAs σ := by
    intro hp
    apply h.toSAs
    intro k e
    rw [e] at hp; simp at hp
  cases op with
  | tick a => exact sa_tick h a
  | ptick a => exact sa_ptick h a
  | crash => exact sa_crash h
  | crashTorn => exact sa_crash (sa_torn h)
  | ctr s i o => exact ⟨h.files, h.pend, h.pfile, h.sess, h.log⟩
  | restart order =>
    simp only [step]
    split
    · exact sa_res h _
    · unfold callRestart
      have h0 : SAs (begin { σ with up := true, vol := {} } .ok) :=
        ⟨h.files, by simp [begin], h.pfile, by simp [begin], h.log⟩
      simp only
      split
      · exact (sas_setPc h0 _).toSA
      · exact h0.toSA
  | start s ident =>
    simp only [step]
    split
    · exact sa_res h _
    · split
      · exact sa_res h _
      · rename_i hp
        have hs := idle (by simpa using hp)
        unfold callStart
        split
        · exact (sas_begin hs _).toSA
        · refine ⟨hs.files, hs.pend, hs.pfile, ?_, hs.log⟩
          intro k hk
          simp only [setPc, begin, lookup_insert] at hk
          split at hk
          · rename_i e; subst e; right; rfl
          · exact Or.inl (hs.sess k hk)
  | itick a => exact sa_itick h a
  | interim s =>
    have keep : ∀ {τ : State}, τ.dur = σ.dur → τ.vol.pending = σ.vol.pending → τ.vol.sessions = σ.vol.sessions →
        τ.vol.pc = σ.vol.pc → τ.log = σ.log → τ.startQueued = σ.startQueued → SA τ := by
      intro τ e1 e2 e3 e4 e5 e6
      refine ⟨?_, ?_, ?_, ?_, ?_⟩
      · intro k hk; rw [e1] at hk; have := h.files k hk; unfold okStart at this ⊢; rw [e5, e6]; exact this
      · intro p hp hk; rw [e2] at hp; have := h.pend p hp hk; unfold okStart at this ⊢; rw [e5, e6]; exact this
      · intro ps hps p hp hk; rw [e1] at hps; have := h.pfile ps hps p hp hk; unfold okStart at this ⊢; rw [e5, e6]; exact this
      · intro k hk; rw [e3] at hk; rw [e4]; have := h.sess k hk; unfold okStart at this ⊢; rw [e5, e6]; exact this
      · rw [e5, e6]; exact h.log
    simp only [step]
    split
    · exact keep rfl rfl rfl rfl rfl rfl
    · split
      · exact keep rfl rfl rfl rfl rfl rfl
      · unfold callInterim
        split
        · exact keep rfl rfl rfl rfl rfl rfl
        · split
          · exact keep rfl rfl rfl rfl rfl rfl
          · exact keep rfl rfl rfl rfl rfl rfl
  | stop s cause =>
    simp only [step]
    split
    · exact sa_res h _
    · split
      · exact sa_res h _
      · rename_i hp
        have hs := idle (by simpa using hp)
        unfold callStop
        split
        · exact (sas_begin hs _).toSA
        · rename_i x hx
          apply SAs.toSA
          apply sas_setPc
          apply sas_vol (sas_begin hs .ok)
          · intro k hk
            simp only [begin, lookup_insert] at hk
            split at hk
            · rename_i e; subst e
              exact hs.sess k (by simp [hx])
            · exact hs.sess k hk
          · exact hs.pend
  | deq =>
    simp only [step]
    split
    · exact sa_pres h _
    · split
      · exact sa_pres h _
      · unfold callDeq
        split
        · exact ⟨h.files, h.pend, h.pfile, h.sess, h.log⟩
        · exact ⟨h.files, h.pend, h.pfile, h.sess, h.log⟩
  | retry order =>
    simp only [step]
    split
    · exact sa_pres h _
    · split
      · exact sa_pres h _
      · exact ⟨h.files, h.pend, h.pfile, h.sess, h.log⟩
  | shutdown order =>
    simp only [step]
    split
    · exact sa_res h _
    · split
      · exact sa_res h _
      · rename_i hp
        have hs := idle (by simpa using hp)
        exact (sas_setPc (sas_begin hs _) _).toSA

theorem sa_run {σ : State} (h : SA σ) (ops : List Op) : SA (run σ ops) := by
  induction ops generalizing σ with
  | nil => exact h
  | cons op ops ih => exact ih (sa_step h op)


/-! ## the ghost sets are what their names say -/

theorem enqueue_startQueued_of_ne {σ : State} {r : Rec} (v : Bool) (h : r.kind ≠ .start) :
    (enqueue σ r v).startQueued = σ.startQueued := by
  have : (r.kind == Kind.start) = false := by simpa using h
  simp [enqueue, this]

theorem send_startQueued_of_ne {σ : State} {r : Rec} (a : Ans) (v : Bool) (h : r.kind ≠ .start) :
    (send σ r a v).startQueued = σ.startQueued := by
  unfold send; split
  · rfl
  · exact enqueue_startQueued_of_ne v h
  · exact enqueue_startQueued_of_ne (σ := accept σ r false) v h

theorem tick_startQueued (σ : State) (a : Ans) (s : Nat) (h : s ∈ (tick σ a).startQueued) :
    s ∈ σ.startQueued ∨ (a ≠ .up ∧ σ.vol.pc = some (.startSend s)) := by
  unfold tick at h
  split at h
  · exact Or.inl h
  · rename_i k heq
    unfold tickStartSend at h
    split at h
    · exact Or.inl h
    · cases a with
      | up => exact Or.inl h
      | down =>
        simp only [setPc, send, enqueue, beq_self_eq_true, if_true, List.mem_cons] at h
        rcases h with e | e
        · subst e; exact Or.inr ⟨by simp, heq⟩
        · exact Or.inl e
      | lost =>
        simp only [setPc, send, enqueue, accept, beq_self_eq_true, if_true, List.mem_cons] at h
        rcases h with e | e
        · subst e; exact Or.inr ⟨by simp, heq⟩
        · exact Or.inl e
  · left; unfold tickStartPersist persistSession at h; revert h; repeat' (first | exact id | split)
  · left; unfold tickStopPersist persistSession at h; revert h; repeat' (first | exact id | split)
  · left
    unfold tickStopSend at h
    split at h
    · exact h
    · simp only [setPc] at h
      rw [send_startQueued_of_ne _ _ (by simp [stopRec])] at h; exact h
  · exact Or.inl h
  · left; unfold tickStopRemove at h; revert h; repeat' (first | exact id | split)
  · exact Or.inl h
  · exact Or.inl h
  · exact Or.inl h
  · left
    unfold tickDrainSend at h
    split at h
    · exact h
    · simp only at h
      split at h
      · exact h
      · simp only [setPc] at h
        rw [enqueue_startQueued_of_ne _ (by simp [stopRec])] at h; exact h
      · simp only [setPc] at h
        rw [enqueue_startQueued_of_ne _ (by simp [stopRec])] at h; exact h
  · exact Or.inl h
  · left; unfold tickPersistPending at h; revert h; repeat' (first | exact id | split)
  · left
    unfold tickRecSend at h
    split at h
    · exact h
    · simp only [setPc] at h
      rw [send_startQueued_of_ne _ _ (by simp [stopRec])] at h; exact h
  · exact Or.inl h
  · left
    unfold tickRecLoad at h
    split at h
    · exact h
    · simp only [setPc] at h
      rw [(loadPending_spec _ _ _).startQueued] at h; exact h
  · exact Or.inl h

/-- a field of the state that only `accept`/`enqueue`-free bookkeeping touches is unchanged by a processor
    micro-step; stated for the ghosts the processor never writes -/
theorem ptick_ghost {α : Type} (f : State → α)
    (hset : ∀ σ pc, f (setPpc σ pc) = f σ) (hord : ∀ σ x, f (notePOrd σ x) = f σ)
    (hacc : ∀ σ r b, f (accept σ r b) = f σ) (hfile : ∀ σ s, f (removeFile σ s) = f σ)
    (hpend : ∀ (σ : State) ps, f { σ with vol := { σ.vol with pending := ps } } = f σ)
    (hab : ∀ (σ : State) ps ab, f { σ with vol := { σ.vol with pending := ps }, abandoned := ab } = f σ)
    (σ : State) (a : Ans) : f (ptick σ a) = f σ := by
  have hfail : ∀ σ p id rest, f (procFail σ p id rest) = f σ := by
    intro σ p id rest
    unfold procFail
    split
    · rw [hset, hab]
    · rw [hset, hpend]
  unfold ptick
  split
  · unfold tickProcSend
    split
    · rw [hset]
    · dsimp only
      split
      · split
        · rw [hset, hpend, hacc, hord]
        · rw [hset, hpend, hacc, hord]
      · rw [hfail, hord]
      · rw [hfail, hacc, hord]
  · unfold tickProcRemove
    rw [hset, hfile]
  · rfl

/-- a field that neither `accept`, nor queueing an interim record, nor the sessions' counters touch is unchanged
    by the interim goroutine's step -/
theorem itick_ghost {α : Type} (f : State → α)
    (hset : ∀ σ pc, f (setIpc σ pc) = f σ)
    (hacc : ∀ σ r b, f (accept σ r b) = f σ)
    (henq : ∀ σ (r : Rec), r.kind = .interim → f (enqueue σ r false) = f σ)
    (hsess : ∀ (σ : State) ss, f { σ with vol := { σ.vol with sessions := ss } } = f σ)
    (σ : State) (a : Ans) : f (itick σ a) = f σ := by
  unfold itick
  split
  · unfold tickIntSend
    dsimp only
    split
    · split
      · rw [hset, hacc]
      · rw [hset, hsess, hacc]
    · rw [hset, henq _ _ rfl]
    · rw [hset, henq _ _ rfl, hacc]
  · rfl

/-- a property of the state that no call (the part before the first marker), `crash` or `ctr` changes -/
theorem step_ghost_of_tick {α : Type} (f : State → α)
    (hseti : ∀ σ pc, f (setIpc σ pc) = f σ) (hires : ∀ (σ : State) r, f { σ with ires := r } = f σ)
    (hset : ∀ σ pc, f (setPc σ pc) = f σ) (hsetp : ∀ σ pc, f (setPpc σ pc) = f σ)
    (hbegin : ∀ σ r, f (begin σ r) = f σ) (hpbegin : ∀ σ r, f (pbegin σ r) = f σ)
    (hres : ∀ (σ : State) r, f { σ with res := r } = f σ)
    (hpres : ∀ (σ : State) r, f { σ with pres := r } = f σ)
    (hvol : ∀ (σ : State) v, f { σ with vol := v } = f σ)
    (hup : ∀ (σ : State) u v, f { σ with up := u, vol := v } = f σ)
    (hctr : ∀ (σ : State) c, f { σ with ctr := c } = f σ)
    (hcrash : ∀ σ, f (crash σ) = f σ)
    (htorn : ∀ σ, f (tornEffect σ) = f σ)
    (hreg : ∀ (σ : State) v r, f { σ with vol := v, registered := r } = f σ)
    (σ : State) (op : Op) (hop : ∀ a, op ≠ .tick a) (hop2 : ∀ a, op ≠ .ptick a) (hop3 : ∀ a, op ≠ .itick a) :
    f (step σ op) = f σ := by
  cases op with
  | tick a => exact absurd rfl (hop a)
  | ptick a => exact absurd rfl (hop2 a)
  | itick a => exact absurd rfl (hop3 a)
  | crash => exact hcrash σ
  | crashTorn => simp only [step]; rw [hcrash, htorn]
  | ctr s i o => exact hctr σ _
  | restart order =>
    simp only [step]
    split
    · exact hres σ _
    · unfold callRestart
      simp only
      split
      · rw [hset, hbegin, hup]
      · rw [hbegin, hup]
  | start s ident =>
    simp only [step]
    split
    · exact hres σ _
    · split
      · exact hres σ _
      · unfold callStart
        split
        · exact hbegin σ _
        · rw [hset, hreg, hbegin]
  | interim s =>
    simp only [step]
    split
    · exact hires σ _
    · split
      · exact hires σ _
      · unfold callInterim
        split
        · exact hires σ _
        · split
          · exact hires σ _
          · rw [hseti]; exact hires σ _
  | stop s cause =>
    simp only [step]
    split
    · exact hres σ _
    · split
      · exact hres σ _
      · unfold callStop
        split
        · exact hbegin σ _
        · simp only
          rw [hset, hvol, hbegin]
  | deq =>
    simp only [step]
    split
    · exact hpres σ _
    · split
      · exact hpres σ _
      · unfold callDeq
        split
        · exact hpbegin σ _
        · simp only
          rw [hsetp, hvol, hpbegin]
  | retry order =>
    simp only [step]
    split
    · exact hpres σ _
    · split
      · exact hpres σ _
      · unfold callRetry
        simp only
        rw [hsetp, hpbegin]
  | shutdown order =>
    simp only [step]
    split
    · exact hres σ _
    · split
      · exact hres σ _
      · unfold callShutdown
        simp only
        rw [hset, hbegin]

theorem tornEffect_eq (σ : State) {α : Type} (f : State → α)
    (h : ∀ (σ : State) d, f { σ with dur := { σ.dur with dirMade := d } } = f σ) : f (tornEffect σ) = f σ := by
  unfold tornEffect
  split
  · split
    · exact h σ _
    · rfl
  · split
    · exact h σ _
    · rfl
  · rfl

/-- the calls, crashes and `ctr` leave a ghost field alone when it is none of the fields they write -/
theorem step_ghost_simple {α : Type} (f : State → α)
    (hseti : ∀ σ pc, f (setIpc σ pc) = f σ) (hires : ∀ (σ : State) r, f { σ with ires := r } = f σ)
    (hset : ∀ σ pc, f (setPc σ pc) = f σ) (hsetp : ∀ σ pc, f (setPpc σ pc) = f σ)
    (hbegin : ∀ σ r, f (begin σ r) = f σ) (hpbegin : ∀ σ r, f (pbegin σ r) = f σ)
    (hres : ∀ (σ : State) r, f { σ with res := r } = f σ)
    (hpres : ∀ (σ : State) r, f { σ with pres := r } = f σ)
    (hvol : ∀ (σ : State) v, f { σ with vol := v } = f σ)
    (hup : ∀ (σ : State) u v, f { σ with up := u, vol := v } = f σ)
    (hctr : ∀ (σ : State) c, f { σ with ctr := c } = f σ)
    (hcrash : ∀ σ, f (crash σ) = f σ)
    (hdir : ∀ (σ : State) d, f { σ with dur := { σ.dur with dirMade := d } } = f σ)
    (hreg : ∀ (σ : State) v r, f { σ with vol := v, registered := r } = f σ)
    (σ : State) (op : Op) (hop : ∀ a, op ≠ .tick a) (hop2 : ∀ a, op ≠ .ptick a) (hop3 : ∀ a, op ≠ .itick a) :
    f (step σ op) = f σ :=
  step_ghost_of_tick f hseti hires hset hsetp hbegin hpbegin hres hpres hvol hup hctr hcrash
    (fun σ => tornEffect_eq σ f hdir) hreg σ op hop hop2 hop3

theorem startQueued_step (σ : State) (op : Op) (s : Nat) (h : s ∈ (step σ op).startQueued) :
    s ∈ σ.startQueued ∨ ((∃ a, a ≠ Ans.up ∧ op = .tick a) ∧ σ.vol.pc = some (.startSend s)) := by
  by_cases ht : ∃ a, op = .tick a
  · obtain ⟨a, e⟩ := ht
    subst e
    rcases tick_startQueued σ a s h with h1 | ⟨h1, h2⟩
    · exact Or.inl h1
    · exact Or.inr ⟨⟨a, h1, rfl⟩, h2⟩
  · left
    by_cases hp : ∃ a, op = .ptick a
    · obtain ⟨a, e⟩ := hp
      subst e
      have := ptick_ghost State.startQueued (fun _ _ => rfl) (fun _ _ => rfl) (fun _ _ _ => rfl)
        (fun _ _ => rfl) (fun _ _ => rfl) (fun _ _ _ => rfl) σ a
      simp only [step] at h
      rw [this] at h; exact h
    · by_cases hi : ∃ a, op = .itick a
      · obtain ⟨a, e⟩ := hi
        subst e
        have := itick_ghost State.startQueued (fun _ _ => rfl) (fun _ _ _ => rfl)
          (fun σ r hr => by simp [enqueue, hr]) (fun _ _ => rfl) σ a
        simp only [step] at h
        rw [this] at h; exact h
      · have := step_ghost_simple State.startQueued (fun _ _ => rfl) (fun _ _ => rfl) (fun _ _ => rfl) (fun _ _ => rfl) (fun _ _ => rfl)
          (fun _ _ => rfl) (fun _ _ => rfl) (fun _ _ => rfl) (fun _ _ => rfl) (fun _ _ _ => rfl)
          (fun _ _ => rfl) (fun _ => rfl) (fun _ _ => rfl) (fun _ _ _ => rfl) σ op
          (fun a e => ht ⟨a, e⟩) (fun a e => hp ⟨a, e⟩) (fun a e => hi ⟨a, e⟩)
        rw [this] at h; exact h


/-- the common closing argument: a ghost field that only API micro-steps write -/
theorem ghost_mem_step {f : State → List Nat} (σ : State) (op : Op) (s : Nat)
    (hp : ∀ σ a, f (ptick σ a) = f σ) (hi : ∀ σ a, f (itick σ a) = f σ)
    (hc : ∀ σ op, (∀ a, op ≠ .tick a) → (∀ a, op ≠ .ptick a) → (∀ a, op ≠ .itick a) → f (step σ op) = f σ)
    (h : s ∈ f (step σ op)) : s ∈ f σ ∨ ∃ a, op = .tick a ∧ s ∈ f (tick σ a) := by
  by_cases ht : ∃ a, op = .tick a
  · obtain ⟨a, e⟩ := ht
    subst e
    exact Or.inr ⟨a, rfl, h⟩
  · left
    by_cases hpp : ∃ a, op = .ptick a
    · obtain ⟨a, e⟩ := hpp
      subst e
      simp only [step] at h
      rw [hp] at h; exact h
    · by_cases hii : ∃ a, op = .itick a
      · obtain ⟨a, e⟩ := hii
        subst e
        simp only [step] at h
        rw [hi] at h; exact h
      · rw [hc σ op (fun a e => ht ⟨a, e⟩) (fun a e => hpp ⟨a, e⟩) (fun a e => hii ⟨a, e⟩)] at h; exact h

theorem tick_started (σ : State) (a : Ans) (s : Nat) (h : s ∈ (tick σ a).started) :
    s ∈ σ.started ∨ σ.vol.pc = some (.startPersist s) := by
  unfold tick at h
  split at h
  · exact Or.inl h
  · left; unfold tickStartSend send at h; revert h; repeat' (first | exact id | split)
  · rename_i k heq
    unfold tickStartPersist at h
    split at h
    · exact Or.inl h
    · simp only [setPc, List.mem_cons] at h
      rcases h with e | e
      · subst e; exact Or.inr heq
      · left; unfold persistSession at e; revert e; repeat' (first | exact id | split)
  · left; unfold tickStopPersist persistSession at h; revert h; repeat' (first | exact id | split)
  · left; unfold tickStopSend send at h; revert h; repeat' (first | exact id | split)
  · exact Or.inl h
  · left; unfold tickStopRemove at h; revert h; repeat' (first | exact id | split)
  · exact Or.inl h
  · exact Or.inl h
  · exact Or.inl h
  · left; unfold tickDrainSend at h; revert h; repeat' (first | exact id | split)
  · exact Or.inl h
  · left; unfold tickPersistPending at h; revert h; repeat' (first | exact id | split)
  · left; unfold tickRecSend send at h; revert h; repeat' (first | exact id | split)
  · exact Or.inl h
  · left
    unfold tickRecLoad at h
    split at h
    · exact h
    · simp only [setPc] at h
      rw [(loadPending_spec _ _ _).started] at h; exact h
  · exact Or.inl h

theorem started_step (σ : State) (op : Op) (s : Nat) (h : s ∈ (step σ op).started) :
    s ∈ σ.started ∨ ((∃ a, op = .tick a) ∧ σ.vol.pc = some (.startPersist s)) := by
  rcases ghost_mem_step (f := State.started) σ op s
    (ptick_ghost State.started (fun _ _ => rfl) (fun _ _ => rfl) (fun _ _ _ => rfl)
      (fun _ _ => rfl) (fun _ _ => rfl) (fun _ _ _ => rfl))
    (itick_ghost State.started (fun _ _ => rfl) (fun _ _ _ => rfl) (fun _ _ _ => rfl) (fun _ _ => rfl))
    (fun σ op h1 h2 h3 => step_ghost_simple State.started (fun _ _ => rfl) (fun _ _ => rfl) (fun _ _ => rfl) (fun _ _ => rfl) (fun _ _ => rfl)
      (fun _ _ => rfl) (fun _ _ => rfl) (fun _ _ => rfl) (fun _ _ => rfl) (fun _ _ _ => rfl)
      (fun _ _ => rfl) (fun _ => rfl) (fun _ _ => rfl) (fun _ _ _ => rfl) σ op h1 h2 h3) h with h1 | ⟨a, e, h1⟩
  · exact Or.inl h1
  · rcases tick_started σ a s h1 with h2 | h2
    · exact Or.inl h2
    · exact Or.inr ⟨⟨a, e⟩, h2⟩

theorem enqueue_recVol_false {σ : State} (r : Rec) : (enqueue σ r false).recVol = σ.recVol := by
  simp [enqueue]

theorem send_recVol_false {σ : State} (r : Rec) (a : Ans) : (send σ r a false).recVol = σ.recVol := by
  unfold send; split
  · rfl
  · exact enqueue_recVol_false r
  · exact enqueue_recVol_false (σ := accept σ r false) r

def isRec : Option Frame → Prop
  | some (.recSend _ _ _ _) | some (.recRemove _ _ _ _) | some (.recLoad _ _) | some .recPendRemove => True
  | _ => False

theorem tick_recVol (σ : State) (a : Ans) (s : Nat) (h : s ∈ (tick σ a).recVol) :
    s ∈ σ.recVol ∨
    (a ≠ .up ∧ ∃ rest recd order, σ.vol.pc = some (.recSend s rest recd order)) ∨
    (∃ recd order ps, σ.vol.pc = some (.recLoad recd order) ∧ σ.dur.pfile = some ps ∧
      ∃ p ∈ ps, p.req.kind = .stop ∧ p.req.sid = s) := by
  unfold tick at h
  split at h
  · exact Or.inl h
  · left
    unfold tickStartSend at h
    split at h
    · exact h
    · simp only [setPc] at h; rw [send_recVol_false] at h; exact h
  · left; unfold tickStartPersist persistSession at h; revert h; repeat' (first | exact id | split)
  · left; unfold tickStopPersist persistSession at h; revert h; repeat' (first | exact id | split)
  · left
    unfold tickStopSend at h
    split at h
    · exact h
    · simp only [setPc] at h; rw [send_recVol_false] at h; exact h
  · exact Or.inl h
  · left; unfold tickStopRemove at h; revert h; repeat' (first | exact id | split)
  · exact Or.inl h
  · exact Or.inl h
  · exact Or.inl h
  · left
    unfold tickDrainSend at h
    split at h
    · exact h
    · simp only at h
      split at h
      · exact h
      · simp only [setPc] at h; rw [enqueue_recVol_false] at h; exact h
      · simp only [setPc] at h; rw [enqueue_recVol_false] at h; exact h
  · exact Or.inl h
  · left; unfold tickPersistPending at h; revert h; repeat' (first | exact id | split)
  · rename_i k rest recd order heq
    unfold tickRecSend at h
    split at h
    · exact Or.inl h
    · cases a with
      | up => exact Or.inl h
      | down =>
        simp only [setPc, send, enqueue, stopRec, Bool.true_and, beq_self_eq_true, if_true, List.mem_cons] at h
        rcases h with e | e
        · subst e; exact Or.inr (Or.inl ⟨by simp, rest, recd, order, heq⟩)
        · exact Or.inl e
      | lost =>
        simp only [setPc, send, enqueue, accept, stopRec, Bool.true_and, beq_self_eq_true, if_true,
          List.mem_cons] at h
        rcases h with e | e
        · subst e; exact Or.inr (Or.inl ⟨by simp, rest, recd, order, heq⟩)
        · exact Or.inl e
  · exact Or.inl h
  · rename_i recd order heq
    unfold tickRecLoad at h
    split at h
    · exact Or.inl h
    · rename_i ps hps
      simp only [setPc] at h
      rcases ((loadPending_spec _ _ _).recVol s).mp h with h1 | ⟨q, hq, hk, hs, _⟩
      · exact Or.inl h1
      · exact Or.inr (Or.inr ⟨recd, order, ps, heq, hps, q, mem_recOfIds hq, hk, hs⟩)
  · exact Or.inl h

theorem recVol_step (σ : State) (op : Op) (s : Nat) (h : s ∈ (step σ op).recVol) :
    s ∈ σ.recVol ∨
    ((∃ a, a ≠ Ans.up ∧ op = .tick a) ∧ ∃ rest recd order, σ.vol.pc = some (.recSend s rest recd order)) ∨
    ((∃ a, op = .tick a) ∧ ∃ recd order ps, σ.vol.pc = some (.recLoad recd order) ∧ σ.dur.pfile = some ps ∧
      ∃ p ∈ ps, p.req.kind = .stop ∧ p.req.sid = s) := by
  rcases ghost_mem_step (f := State.recVol) σ op s
    (fun σ a => recVol_ptick σ a) (fun σ a => recVol_itick σ a)
    (fun σ op h1 h2 h3 => step_ghost_simple State.recVol (fun _ _ => rfl) (fun _ _ => rfl) (fun _ _ => rfl) (fun _ _ => rfl) (fun _ _ => rfl)
      (fun _ _ => rfl) (fun _ _ => rfl) (fun _ _ => rfl) (fun _ _ => rfl) (fun _ _ _ => rfl)
      (fun _ _ => rfl) (fun _ => rfl) (fun _ _ => rfl) (fun _ _ _ => rfl) σ op h1 h2 h3) h with h1 | ⟨a, e, h1⟩
  · exact Or.inl h1
  · rcases tick_recVol σ a s h1 with h2 | ⟨h2, h3⟩ | h2
    · exact Or.inl h2
    · exact Or.inr (Or.inl ⟨⟨a, h2, e⟩, h3⟩)
    · exact Or.inr (Or.inr ⟨⟨a, e⟩, h2⟩)

theorem notRec_nextDrain (rest : List Nat) : ¬ isRec (some (nextDrain rest)) := by
  cases rest <;> simp [nextDrain, isRec]

theorem tick_notRec (σ : State) (a : Ans) (h : ¬ isRec σ.vol.pc) : ¬ isRec (tick σ a).vol.pc := by
  unfold tick
  split
  · exact h
  · unfold tickStartSend; split <;> simp [setPc, isRec]
  · unfold tickStartPersist; split <;> simp [setPc, isRec]
  · simp [tickStopPersist, setPc, isRec]
  · unfold tickStopSend; split <;> simp [setPc, isRec]
  · simp [tickStopDelete, setPc, isRec]
  · simp [tickStopRemove, setPc, isRec]
  · exact h
  · exact h
  · exact h
  · unfold tickDrainSend
    split
    · exact notRec_nextDrain _
    · dsimp only
      split
      · simp [setPc, isRec]
      · exact notRec_nextDrain _
      · exact notRec_nextDrain _
  · exact notRec_nextDrain _
  · unfold tickPersistPending
    split
    · exact h
    · simp [isRec]
  · rename_i heq; rw [heq] at h; exact absurd trivial h
  · rename_i heq; rw [heq] at h; exact absurd trivial h
  · rename_i heq; rw [heq] at h; exact absurd trivial h
  · rename_i heq; rw [heq] at h; exact absurd trivial h

theorem step_notRec (σ : State) (op : Op) (hop : ∀ order, op ≠ .restart order) (h : ¬ isRec σ.vol.pc) :
    ¬ isRec (step σ op).vol.pc := by
  cases op with
  | tick a => exact tick_notRec σ a h
  | ptick a => simp only [step]; rw [ptick_pc]; exact h
  | itick a => simp only [step]; rw [itick_pc]; exact h
  | crash => simp [step, crash, isRec]
  | crashTorn => simp [step, crash, isRec]
  | ctr s i o => exact h
  | restart order => exact absurd rfl (hop order)
  | start s ident =>
    simp only [step]
    split
    · exact h
    · split
      · exact h
      · unfold callStart
        split
        · exact h
        · simp [setPc, isRec]
  | interim s =>
    simp only [step]
    split
    · exact h
    · split
      · exact h
      · unfold callInterim
        split
        · exact h
        · split
          · exact h
          · exact h
  | stop s cause =>
    simp only [step]
    split
    · exact h
    · split
      · exact h
      · unfold callStop
        split
        · exact h
        · simp [setPc, isRec]
  | deq =>
    simp only [step]
    split
    · exact h
    · split
      · exact h
      · unfold callDeq
        split
        · exact h
        · exact h
  | retry order =>
    simp only [step]
    split
    · exact h
    · split
      · exact h
      · exact h
  | shutdown order =>
    simp only [step]
    split
    · exact h
    · split
      · exact h
      · exact notRec_nextDrain _

theorem recVol_empty_run (σ : State) (ops : List Op) (hop : ∀ order, Op.restart order ∉ ops)
    (h1 : σ.recVol = []) (h2 : ¬ isRec σ.vol.pc) : (run σ ops).recVol = [] := by
  induction ops generalizing σ with
  | nil => exact h1
  | cons op ops ih =>
    apply ih
    · intro order hm; exact hop order (List.mem_cons_of_mem _ hm)
    · apply List.eq_nil_iff_forall_not_mem.mpr
      intro s hs
      rcases recVol_step σ op s hs with e | ⟨_, rest, recd, order, e⟩ | ⟨_, recd, order, ps, e, _⟩
      · rw [h1] at e; simp at e
      · rw [e] at h2; exact h2 trivial
      · rw [e] at h2; exact h2 trivial
    · apply step_notRec σ op _ h2
      intro order e
      exact hop order (by rw [e]; exact List.mem_cons_self)

theorem recVol_empty_without_restart (c : Cfg) (ops : List Op) (hop : ∀ order, Op.restart order ∉ ops) :
    (run (init c) ops).recVol = [] :=
  recVol_empty_run (init c) ops hop rfl (by simp [init, isRec])

end Bng.Acct
