import Bng.Model.Acct
/-
  Invariants of the accounting-manager model (Bng.Model.Acct), each proved for every micro-step and
  therefore for every operation history, answer vector and crash point.

    Reg    every session object and every record anywhere (memory, disk, wire) carries a (session id,
           identifiers) pair that StartSession registered
    Dur    a session whose StartSession completed has an accepted Stop, or its session file, unless the
           recovery procedure re-queued its Stop in memory (the recorded finding)
    SA     whatever can still produce a Stop for s implies "Start s accepted or Start s queued"; the log is
           ordered accordingly
-/
namespace Bng.Acct
open Bng AMap

/-! ## small list lemmas -/

theorem findP_mem {ps : List PRec} {id : Nat} {p : PRec} (h : findP ps id = some p) : p ∈ ps :=
  List.mem_of_find?_eq_some h

theorem findP_id {ps : List PRec} {id : Nat} {p : PRec} (h : findP ps id = some p) : p.id = id := by
  have := List.find?_some h
  simpa using this

theorem mem_eraseP {ps : List PRec} {id : Nat} {p : PRec} (h : p ∈ eraseP ps id) : p ∈ ps :=
  (List.mem_filter.mp h).1

theorem mem_recOfIds {ps : List PRec} {ids : List Nat} {p : PRec} (h : p ∈ recOfIds ps ids) : p ∈ ps := by
  unfold recOfIds at h
  obtain ⟨id, _, hf⟩ := List.mem_filterMap.mp h
  exact findP_mem hf

def stopIn (log : List Rec) (s : Nat) : Prop := ∃ r ∈ log, r.kind = .stop ∧ r.sid = s
def startIn (log : List Rec) (s : Nat) : Prop := ∃ r ∈ log, r.kind = .start ∧ r.sid = s

theorem stopIn_append {log : List Rec} {s : Nat} (l2 : List Rec) (h : stopIn log s) : stopIn (log ++ l2) s := by
  obtain ⟨r, hr, h1⟩ := h
  exact ⟨r, List.mem_append_left _ hr, h1⟩

theorem startIn_append {log : List Rec} {s : Nat} (l2 : List Rec) (h : startIn log s) : startIn (log ++ l2) s := by
  obtain ⟨r, hr, h1⟩ := h
  exact ⟨r, List.mem_append_left _ hr, h1⟩

/-! ## what `loadPending` does -/

structure LoadSpec (σ σ' : State) (recd : List Nat) (l : List PRec) : Prop where
  cfg : σ'.cfg = σ.cfg
  up : σ'.up = σ.up
  log : σ'.log = σ.log
  dur : σ'.dur = σ.dur
  sessions : σ'.vol.sessions = σ.vol.sessions
  pc : σ'.vol.pc = σ.vol.pc
  registered : σ'.registered = σ.registered
  started : σ'.started = σ.started
  startQueued : σ'.startQueued = σ.startQueued
  abandoned : σ'.abandoned = σ.abandoned
  tainted : σ'.tainted = σ.tainted
  pending : ∀ p ∈ σ'.vol.pending, p ∈ σ.vol.pending ∨
    ∃ q ∈ l, p = { q with viaRecovery := true } ∧ ¬ (q.req.kind = .stop ∧ q.req.sid ∈ recd)
  pendingKeep : ∀ p ∈ σ.vol.pending, p ∈ σ'.vol.pending
  loaded : ∀ q ∈ l, ¬ (q.req.kind = .stop ∧ q.req.sid ∈ recd) →
    ({ q with viaRecovery := true } : PRec) ∈ σ'.vol.pending
  recVol : ∀ s, s ∈ σ'.recVol ↔ s ∈ σ.recVol ∨
    ∃ q ∈ l, q.req.kind = .stop ∧ q.req.sid = s ∧ q.req.sid ∉ recd

theorem loadPending_spec (σ : State) (recd : List Nat) (l : List PRec) :
    LoadSpec σ (loadPending σ recd l) recd l := by
  induction l generalizing σ with
  | nil =>
    simp only [loadPending]
    constructor <;> simp
  | cons q qs ih =>
    simp only [loadPending]
    split
    · rename_i hc
      have hc' : q.req.kind = .stop ∧ q.req.sid ∈ recd := by
        simp only [Bool.and_eq_true, beq_iff_eq, List.contains_eq_mem, decide_eq_true_eq] at hc
        exact hc
      have h := ih σ
      constructor
      · exact h.cfg
      · exact h.up
      · exact h.log
      · exact h.dur
      · exact h.sessions
      · exact h.pc
      · exact h.registered
      · exact h.started
      · exact h.startQueued
      · exact h.abandoned
      · exact h.tainted
      · intro p hp
        rcases h.pending p hp with h1 | ⟨q', hq', h2⟩
        · exact Or.inl h1
        · exact Or.inr ⟨q', List.mem_cons_of_mem _ hq', h2⟩
      · exact h.pendingKeep
      · intro q' hq' hn
        rcases List.mem_cons.mp hq' with e | e
        · subst e; exact absurd hc' hn
        · exact h.loaded q' e hn
      · intro s
        rw [h.recVol s]
        constructor
        · rintro (h1 | ⟨q', hq', h2⟩)
          · exact Or.inl h1
          · exact Or.inr ⟨q', List.mem_cons_of_mem _ hq', h2⟩
        · rintro (h1 | ⟨q', hq', h2⟩)
          · exact Or.inl h1
          · rcases List.mem_cons.mp hq' with e | e
            · subst e; exact absurd hc'.2 h2.2.2
            · exact Or.inr ⟨q', e, h2⟩
    · rename_i hc
      have hc' : ¬ (q.req.kind = .stop ∧ q.req.sid ∈ recd) := by
        simp only [Bool.and_eq_true, beq_iff_eq, List.contains_eq_mem, decide_eq_true_eq] at hc
        exact hc
      have h := ih { σ with
        vol := { σ.vol with
          pending := { q with viaRecovery := true } :: σ.vol.pending
          queue := if σ.vol.queue.length < σ.cfg.queueCap then σ.vol.queue ++ [q.id] else σ.vol.queue }
        recVol := if q.req.kind == .stop then q.req.sid :: σ.recVol else σ.recVol }
      constructor
      · exact h.cfg
      · exact h.up
      · exact h.log
      · exact h.dur
      · exact h.sessions
      · exact h.pc
      · exact h.registered
      · exact h.started
      · exact h.startQueued
      · exact h.abandoned
      · exact h.tainted
      · intro p hp
        rcases h.pending p hp with h1 | ⟨q', hq', h2⟩
        · rcases List.mem_cons.mp h1 with e | e
          · exact Or.inr ⟨q, List.mem_cons_self, e, hc'⟩
          · exact Or.inl e
        · exact Or.inr ⟨q', List.mem_cons_of_mem _ hq', h2⟩
      · intro p hp
        exact h.pendingKeep p (List.mem_cons_of_mem _ hp)
      · intro q' hq' hn
        rcases List.mem_cons.mp hq' with e | e
        · subst e; exact h.pendingKeep _ List.mem_cons_self
        · exact h.loaded q' e hn
      · intro s
        rw [h.recVol s]
        constructor
        · rintro (h1 | ⟨q', hq', h2⟩)
          · by_cases hk : q.req.kind = .stop
            · simp only [hk, beq_self_eq_true, if_true, List.mem_cons] at h1
              rcases h1 with e | e
              · refine Or.inr ⟨q, List.mem_cons_self, hk, e.symm, ?_⟩
                intro hm; exact hc' ⟨hk, hm⟩
              · exact Or.inl e
            · have : (q.req.kind == Kind.stop) = false := by simpa using hk
              simp only [this] at h1
              exact Or.inl h1
          · exact Or.inr ⟨q', List.mem_cons_of_mem _ hq', h2⟩
        · rintro (h1 | ⟨q', hq', h2⟩)
          · left
            by_cases hk : q.req.kind = .stop
            · simp [hk, h1]
            · have : (q.req.kind == Kind.stop) = false := by simpa using hk
              simp [this, h1]
          · rcases List.mem_cons.mp hq' with e | e
            · subst e
              left
              simp [h2.1, h2.2.1]
            · exact Or.inr ⟨q', e, h2⟩


/-! ## Reg: everything carries registered identifiers -/

structure Reg (σ : State) : Prop where
  sess : ∀ k x, lookup σ.vol.sessions k = some x → (k, x.ident) ∈ σ.registered
  files : ∀ k x, lookup σ.dur.files k = some x → (k, x.ident) ∈ σ.registered
  pend : ∀ p ∈ σ.vol.pending, (p.req.sid, p.req.ident) ∈ σ.registered
  pfile : ∀ ps, σ.dur.pfile = some ps → ∀ p ∈ ps, (p.req.sid, p.req.ident) ∈ σ.registered
  log : ∀ r ∈ σ.log, (r.sid, r.ident) ∈ σ.registered

theorem reg_init (c : Cfg) : Reg (init c) := by
  constructor <;> simp [init]

theorem reg_setPc {σ : State} (h : Reg σ) (pc : Option Frame) : Reg (setPc σ pc) := by
  obtain ⟨h1, h2, h3, h4, h5⟩ := h
  exact ⟨h1, h2, h3, h4, h5⟩

theorem reg_noteOrd {σ : State} (h : Reg σ) (x : Nat) : Reg (noteOrd σ x) := by
  obtain ⟨h1, h2, h3, h4, h5⟩ := h
  exact ⟨h1, h2, h3, h4, h5⟩

theorem reg_begin {σ : State} (h : Reg σ) (r : Res) : Reg (begin σ r) := by
  obtain ⟨h1, h2, h3, h4, h5⟩ := h
  exact ⟨h1, h2, h3, h4, h5⟩

theorem reg_accept {σ : State} (h : Reg σ) {r : Rec} (hr : (r.sid, r.ident) ∈ σ.registered) :
    Reg (accept σ r) := by
  obtain ⟨h1, h2, h3, h4, h5⟩ := h
  refine ⟨h1, h2, h3, h4, ?_⟩
  intro r' hr'
  simp only [accept, List.mem_append, List.mem_singleton] at hr'
  rcases hr' with e | e
  · exact h5 _ e
  · subst e; exact hr

theorem reg_enqueue {σ : State} (h : Reg σ) {r : Rec} (v : Bool) (hr : (r.sid, r.ident) ∈ σ.registered) :
    Reg (enqueue σ r v) := by
  obtain ⟨h1, h2, h3, h4, h5⟩ := h
  refine ⟨h1, h2, ?_, h4, h5⟩
  intro p hp
  simp only [enqueue, List.mem_cons] at hp
  rcases hp with e | e
  · subst e; exact hr
  · exact h3 _ e

theorem reg_send {σ : State} (h : Reg σ) {r : Rec} (a v : Bool) (hr : (r.sid, r.ident) ∈ σ.registered) :
    Reg (send σ r a v) := by
  unfold send; split
  · exact reg_accept h hr
  · exact reg_enqueue h v hr

theorem reg_persist {σ : State} (h : Reg σ) (s : Nat) : Reg (persistSession σ s) := by
  unfold persistSession
  split
  · exact h
  · rename_i x hx
    obtain ⟨h1, h2, h3, h4, h5⟩ := h
    refine ⟨h1, ?_, h3, h4, h5⟩
    intro k y hy
    simp only [lookup_insert] at hy
    split at hy
    · rename_i e; subst e
      simp only [Option.some.injEq] at hy; subst hy
      exact h1 _ _ hx
    · exact h2 _ _ hy

theorem reg_removeFile {σ : State} (h : Reg σ) (s : Nat) : Reg (removeFile σ s) := by
  obtain ⟨h1, h2, h3, h4, h5⟩ := h
  refine ⟨h1, ?_, h3, h4, h5⟩
  intro k y hy
  simp only [removeFile, lookup_erase] at hy
  split at hy
  · simp at hy
  · exact h2 _ _ hy

/-- changing only the volatile maps to sub-maps / same-request records keeps Reg -/
theorem reg_vol {σ : State} (h : Reg σ) (ss : AMap Nat Sess) (ps : List PRec) (q : List Nat) (pc : Option Frame)
    (hs : ∀ k x, lookup ss k = some x → (k, x.ident) ∈ σ.registered)
    (hp : ∀ p ∈ ps, (p.req.sid, p.req.ident) ∈ σ.registered) :
    Reg { σ with vol := { sessions := ss, pending := ps, queue := q, pc := pc } } := by
  obtain ⟨_, h2, _, h4, h5⟩ := h
  exact ⟨hs, h2, hp, h4, h5⟩

theorem reg_tick {σ : State} (h : Reg σ) (a : Bool) : Reg (tick σ a) := by
  unfold tick
  split
  · exact h
  · -- startSend
    rename_i s _
    unfold tickStartSend
    split
    · exact reg_setPc h _
    · rename_i x hx
      exact reg_setPc (reg_send h _ _ (h.sess _ _ hx)) _
  · rename_i s _
    unfold tickStartPersist
    split
    · exact reg_setPc h _
    · have h' := reg_persist h s
      obtain ⟨h1, h2, h3, h4, h5⟩ := h'
      exact ⟨h1, h2, h3, h4, h5⟩
  · rename_i s _
    exact reg_setPc (reg_persist h s) _
  · rename_i s _
    unfold tickStopSend
    split
    · exact reg_setPc h _
    · rename_i x hx
      exact reg_setPc (reg_send h _ _ (h.sess _ _ hx)) _
  · rename_i s acked _
    unfold tickStopDelete
    apply reg_setPc
    apply reg_vol h
    · intro k x hk
      simp only [lookup_erase] at hk
      split at hk
      · simp at hk
      · exact h.sess _ _ hk
    · exact h.pend
  · rename_i s acked _
    unfold tickStopRemove
    apply reg_setPc
    split
    · exact reg_removeFile h s
    · exact h
  · rename_i s _
    unfold tickIntSend
    split
    · exact reg_setPc h _
    · rename_i x hx
      have hr := h.sess _ _ hx
      simp only
      split
      · apply reg_setPc
        apply reg_vol (reg_accept h hr)
        · intro k y hk
          simp only [lookup_insert] at hk
          split at hk
          · rename_i e; subst e
            simp only [Option.some.injEq] at hk; subst hk
            exact hr
          · exact h.sess _ _ hk
        · exact h.pend
      · exact reg_setPc (reg_enqueue h _ hr) _
  · -- procSend
    rename_i id rest _
    unfold tickProcSend
    split
    · exact reg_setPc h _
    · rename_i p hp
      have hm := findP_mem hp
      have hr := h.pend _ hm
      have h0 := reg_noteOrd h id
      simp only
      split
      · have h1 := reg_accept (r := p.req) h0 hr
        have h2 : Reg { (accept (noteOrd σ id) p.req) with vol := { (accept (noteOrd σ id) p.req).vol with
            pending := eraseP (accept (noteOrd σ id) p.req).vol.pending id } } := by
          apply reg_vol h1
          · exact h1.sess
          · intro q hq; exact h1.pend _ (mem_eraseP hq)
        split
        · exact reg_setPc h2 _
        · exact reg_setPc h2 _
      · split
        · apply reg_setPc
          have h2 : Reg { (noteOrd σ id) with vol := { (noteOrd σ id).vol with
              pending := eraseP (noteOrd σ id).vol.pending id } } := by
            apply reg_vol h0
            · exact h0.sess
            · intro q hq; exact h0.pend _ (mem_eraseP hq)
          obtain ⟨a1, a2, a3, a4, a5⟩ := h2
          exact ⟨a1, a2, a3, a4, a5⟩
        · apply reg_setPc
          apply reg_vol h0
          · exact h0.sess
          · intro q hq
            simp only [List.mem_map] at hq
            obtain ⟨q0, hq0, e⟩ := hq
            have := h0.pend _ hq0
            split at e <;> (subst e; exact this)
  · rename_i s rest _
    unfold tickProcRemove
    apply reg_setPc
    split
    · exact h
    · exact reg_removeFile h s
  · rename_i s rest _
    unfold tickDrainSend
    split
    · exact reg_setPc h _
    · rename_i x hx
      have hr := h.sess _ _ hx
      simp only
      split
      · exact reg_setPc (reg_accept (reg_noteOrd h s) hr) _
      · exact reg_setPc (reg_enqueue (reg_noteOrd h s) _ hr) _
  · rename_i s rest _
    exact reg_setPc (reg_removeFile h s) _
  · -- persistPending
    unfold tickPersistPending
    obtain ⟨h1, h2, h3, h4, h5⟩ := h
    refine ⟨by simp, ?_, by simp, ?_, h5⟩
    · intro k x hk
      simp only at hk
      split at hk <;> exact h2 _ _ hk
    · intro ps hps p hp
      simp only at hps
      split at hps
      · exact h4 _ hps _ hp
      · simp only [Option.some.injEq] at hps; subst hps; exact h3 _ hp
  · rename_i s rest recd order _
    unfold tickRecSend
    split
    · exact reg_setPc h _
    · rename_i x hx
      exact reg_setPc (reg_send h _ _ (h.files _ _ hx)) _
  · rename_i s rest recd order _
    exact reg_setPc (reg_removeFile h s) _
  · rename_i recd order _
    unfold tickRecLoad
    split
    · exact reg_setPc h _
    · rename_i ps hps
      apply reg_setPc
      have sp := loadPending_spec σ recd (recOfIds ps (normalize order (ps.map (·.id))))
      obtain ⟨h1, h2, h3, h4, h5⟩ := h
      refine ⟨?_, ?_, ?_, ?_, ?_⟩
      · rw [sp.sessions, sp.registered]; exact h1
      · rw [sp.dur, sp.registered]; exact h2
      · intro p hp
        rw [sp.registered]
        rcases sp.pending p hp with e | ⟨q, hq, e, _⟩
        · exact h3 _ e
        · subst e; exact h4 _ hps q (mem_recOfIds hq)
      · rw [sp.dur, sp.registered]; exact h4
      · rw [sp.log, sp.registered]; exact h5
  · unfold tickRecPendRemove
    apply reg_setPc
    obtain ⟨h1, h2, h3, h4, h5⟩ := h
    exact ⟨h1, h2, h3, by simp, h5⟩


theorem reg_res {σ : State} (h : Reg σ) (r : Res) : Reg { σ with res := r } := by
  obtain ⟨h1, h2, h3, h4, h5⟩ := h
  exact ⟨h1, h2, h3, h4, h5⟩

theorem reg_step {σ : State} (h : Reg σ) (op : Op) : Reg (step σ op) := by
  cases op with
  | tick a => exact reg_tick h a
  | crash =>
    obtain ⟨h1, h2, h3, h4, h5⟩ := h
    exact ⟨by simp [step, crash], h2, by simp [step, crash], h4, h5⟩
  | ctr s i o =>
    obtain ⟨h1, h2, h3, h4, h5⟩ := h
    exact ⟨h1, h2, h3, h4, h5⟩
  | restart order =>
    simp only [step]
    split
    · exact reg_res h _
    · unfold callRestart
      have h0 : Reg (begin { σ with up := true, vol := {} } .ok) := by
        obtain ⟨h1, h2, h3, h4, h5⟩ := h
        exact ⟨by simp [begin], h2, by simp [begin], h4, h5⟩
      simp only
      split
      · exact reg_setPc h0 _
      · exact h0
  | start s ident =>
    simp only [step]
    split
    · exact reg_res h _
    · split
      · exact reg_res h _
      · unfold callStart
        split
        · exact reg_begin h _
        · rename_i hn
          apply reg_setPc
          obtain ⟨h1, h2, h3, h4, h5⟩ := h
          refine ⟨?_, ?_, ?_, ?_, ?_⟩
          · intro k x hk
            simp only [begin, lookup_insert] at hk
            split at hk
            · rename_i e; subst e
              simp only [Option.some.injEq] at hk; subst hk
              exact List.mem_cons_self
            · exact List.mem_cons_of_mem _ (h1 _ _ hk)
          · intro k x hk; exact List.mem_cons_of_mem _ (h2 _ _ hk)
          · intro p hp; exact List.mem_cons_of_mem _ (h3 _ hp)
          · intro ps hps p hp; exact List.mem_cons_of_mem _ (h4 _ hps _ hp)
          · intro r hr; exact List.mem_cons_of_mem _ (h5 _ hr)
  | interim s =>
    simp only [step]
    split
    · exact reg_res h _
    · split
      · exact reg_res h _
      · unfold callInterim
        split
        · exact reg_begin h _
        · split
          · exact reg_begin h _
          · exact reg_setPc (reg_begin h _) _
  | stop s cause =>
    simp only [step]
    split
    · exact reg_res h _
    · split
      · exact reg_res h _
      · unfold callStop
        split
        · exact reg_begin h _
        · rename_i x hx
          apply reg_setPc
          apply reg_vol (reg_begin h .ok)
          · intro k y hk
            simp only [begin, lookup_insert] at hk
            split at hk
            · rename_i e; subst e
              simp only [Option.some.injEq] at hk; subst hk
              exact h.sess _ x hx
            · exact h.sess _ _ hk
          · exact h.pend
  | deq =>
    simp only [step]
    split
    · exact reg_res h _
    · split
      · exact reg_res h _
      · unfold callDeq
        split
        · exact reg_begin h _
        · apply reg_setPc
          apply reg_vol (reg_begin h .done)
          · exact h.sess
          · exact h.pend
  | retry order =>
    simp only [step]
    split
    · exact reg_res h _
    · split
      · exact reg_res h _
      · exact reg_setPc (reg_begin h _) _
  | shutdown order =>
    simp only [step]
    split
    · exact reg_res h _
    · split
      · exact reg_res h _
      · exact reg_setPc (reg_begin h _) _

theorem reg_run {σ : State} (h : Reg σ) (ops : List Op) : Reg (run σ ops) := by
  induction ops generalizing σ with
  | nil => exact h
  | cons op ops ih => exact ih (reg_step h op)

theorem tick_registered (σ : State) (a : Bool) : (tick σ a).registered = σ.registered := by
  unfold tick
  split
  · rfl
  · unfold tickStartSend send; repeat' (first | rfl | split)
  · unfold tickStartPersist persistSession; repeat' (first | rfl | split)
  · unfold tickStopPersist persistSession; repeat' (first | rfl | split)
  · unfold tickStopSend send; repeat' (first | rfl | split)
  · rfl
  · unfold tickStopRemove; repeat' (first | rfl | split)
  · unfold tickIntSend; repeat' (first | rfl | split)
  · unfold tickProcSend
    split
    · rfl
    · dsimp only
      repeat' (first | rfl | split)
  · unfold tickProcRemove; repeat' (first | rfl | split)
  · unfold tickDrainSend; repeat' (first | rfl | split)
  · rfl
  · rfl
  · unfold tickRecSend send; repeat' (first | rfl | split)
  · rfl
  · unfold tickRecLoad
    split
    · rfl
    · exact (loadPending_spec _ _ _).registered
  · rfl

/-- `registered` is exactly the (id, identifiers) pairs of the `start` calls that were admitted -/
theorem registered_step (σ : State) (op : Op) (x : Nat × Nat) (hx : x ∈ (step σ op).registered) :
    x ∈ σ.registered ∨ op = .start x.1 x.2 := by
  cases op with
  | tick a => left; rw [step, tick_registered] at hx; exact hx
  | crash => left; exact hx
  | ctr s i o => left; exact hx
  | restart order =>
    left
    simp only [step] at hx
    split at hx
    · exact hx
    · unfold callRestart at hx
      simp only at hx
      split at hx <;> exact hx
  | start s ident =>
    simp only [step] at hx
    split at hx
    · exact Or.inl hx
    · split at hx
      · exact Or.inl hx
      · unfold callStart at hx
        split at hx
        · exact Or.inl hx
        · simp only [setPc, begin, List.mem_cons] at hx
          rcases hx with e | e
          · right; subst e; rfl
          · exact Or.inl e
  | interim s =>
    left
    simp only [step] at hx
    split at hx
    · exact hx
    · split at hx
      · exact hx
      · unfold callInterim at hx
        split at hx
        · exact hx
        · split at hx <;> exact hx
  | stop s cause =>
    left
    simp only [step] at hx
    split at hx
    · exact hx
    · split at hx
      · exact hx
      · unfold callStop at hx
        split at hx <;> exact hx
  | deq =>
    left
    simp only [step] at hx
    split at hx
    · exact hx
    · split at hx
      · exact hx
      · unfold callDeq at hx
        split at hx <;> exact hx
  | retry order =>
    left
    simp only [step] at hx
    split at hx
    · exact hx
    · split at hx <;> exact hx
  | shutdown order =>
    left
    simp only [step] at hx
    split at hx
    · exact hx
    · split at hx <;> exact hx

theorem registered_run (σ : State) (ops : List Op) (x : Nat × Nat) (hx : x ∈ (run σ ops).registered) :
    x ∈ σ.registered ∨ Op.start x.1 x.2 ∈ ops := by
  induction ops generalizing σ with
  | nil => exact Or.inl hx
  | cons op ops ih =>
    rcases ih (step σ op) hx with h | h
    · rcases registered_step σ op x h with h' | h'
      · exact Or.inl h'
      · right; rw [h']; exact List.mem_cons_self
    · exact Or.inr (List.mem_cons_of_mem _ h)


/-! ## Dur: the durability invariant (with the recovery-path exception) -/

/-- the part that does not mention the program counter -/
def DC (σ : State) : Prop :=
  ∀ s ∈ σ.started, stopIn σ.log s ∨ s ∈ σ.recVol ∨ (lookup σ.dur.files s).isSome

/-- what the call in progress knows: a frame that is about to remove a session file has seen the Stop
    acknowledged (or, in the recovery procedure, has re-queued it) -/
def frameAck (pc : Option Frame) (σ : State) : Prop :=
  match pc with
  | some (.stopDelete s true) => stopIn σ.log s
  | some (.stopRemove s true) => stopIn σ.log s
  | some (.procRemove s _) => stopIn σ.log s
  | some (.drainRemove s _) => stopIn σ.log s
  | some (.recRemove s _ _ _) => stopIn σ.log s ∨ s ∈ σ.recVol
  | _ => True

structure DurInv (σ : State) : Prop where
  core : DC σ
  ack : frameAck σ.vol.pc σ

theorem dc_of_eq {σ σ' : State} (h : DC σ) (h1 : σ'.started = σ.started) (h2 : σ'.log = σ.log)
    (h3 : σ'.recVol = σ.recVol) (h4 : σ'.dur.files = σ.dur.files) : DC σ' := by
  intro s hs
  rw [h1] at hs
  rw [h2, h3, h4]
  exact h s hs

theorem dc_setPc {σ : State} (h : DC σ) (pc : Option Frame) : DC (setPc σ pc) := h
theorem dc_noteOrd {σ : State} (h : DC σ) (x : Nat) : DC (noteOrd σ x) := h

theorem dc_accept {σ : State} (h : DC σ) (r : Rec) : DC (accept σ r) := by
  intro s hs
  rcases h s hs with h1 | h1 | h1
  · exact Or.inl (stopIn_append _ h1)
  · exact Or.inr (Or.inl h1)
  · exact Or.inr (Or.inr h1)

theorem recVol_enqueue {σ : State} (r : Rec) (v : Bool) {s : Nat} (h : s ∈ σ.recVol) :
    s ∈ (enqueue σ r v).recVol := by
  simp only [enqueue]
  split
  · exact List.mem_cons_of_mem _ h
  · exact h

theorem dc_enqueue {σ : State} (h : DC σ) (r : Rec) (v : Bool) : DC (enqueue σ r v) := by
  intro s hs
  rcases h s hs with h1 | h1 | h1
  · exact Or.inl h1
  · exact Or.inr (Or.inl (recVol_enqueue r v h1))
  · exact Or.inr (Or.inr h1)

theorem dc_send {σ : State} (h : DC σ) (r : Rec) (a v : Bool) : DC (send σ r a v) := by
  unfold send; split
  · exact dc_accept h r
  · exact dc_enqueue h r v

theorem dc_persist {σ : State} (h : DC σ) (s : Nat) : DC (persistSession σ s) := by
  unfold persistSession
  split
  · exact h
  · intro k hk
    rcases h k hk with h1 | h1 | h1
    · exact Or.inl h1
    · exact Or.inr (Or.inl h1)
    · right; right
      simp only [lookup_insert]
      split
      · rfl
      · exact h1

theorem dc_removeFile {σ : State} (h : DC σ) (s : Nat) (hs : stopIn σ.log s ∨ s ∈ σ.recVol) :
    DC (removeFile σ s) := by
  intro k hk
  rcases h k hk with h1 | h1 | h1
  · exact Or.inl h1
  · exact Or.inr (Or.inl h1)
  · by_cases e : k = s
    · subst e
      rcases hs with h2 | h2
      · exact Or.inl h2
      · exact Or.inr (Or.inl h2)
    · right; right
      simp only [removeFile, lookup_erase, e, if_false]
      exact h1

theorem stopIn_accept (σ : State) (r : Rec) (h : r.kind = .stop) : stopIn (accept σ r).log r.sid :=
  ⟨r, by simp [accept], h, rfl⟩

theorem frameAck_nextProc (ps : List PRec) (rest : List Nat) (σ : State) : frameAck (nextProc ps rest) σ := by
  induction rest with
  | nil => trivial
  | cons id rest ih =>
    simp only [nextProc]
    split
    · trivial
    · exact ih

theorem frameAck_nextDrain (rest : List Nat) (σ : State) : frameAck (some (nextDrain rest)) σ := by
  cases rest <;> trivial

theorem frameAck_nextRec (recd order rest : List Nat) (σ : State) :
    frameAck (some (nextRec recd order rest)) σ := by
  cases rest <;> trivial

theorem dur_tick {σ : State} (h : DurInv σ) (a : Bool) : DurInv (tick σ a) := by
  obtain ⟨hc, hk⟩ := h
  unfold tick
  split
  · exact ⟨hc, hk⟩
  · -- startSend
    rename_i s _
    unfold tickStartSend
    split
    · exact ⟨hc, trivial⟩
    · exact ⟨dc_send hc _ _ _, trivial⟩
  · rename_i s _
    unfold tickStartPersist
    split
    · exact ⟨hc, trivial⟩
    · rename_i x hx
      refine ⟨?_, trivial⟩
      intro k hk'
      simp only [setPc, List.mem_cons] at hk'
      rcases hk' with e | e
      · subst e
        right; right
        simp [setPc, persistSession, hx]
      · exact dc_persist hc s k e
  · rename_i s _
    exact ⟨dc_persist hc s, trivial⟩
  · rename_i s _
    unfold tickStopSend
    split
    · exact ⟨hc, trivial⟩
    · rename_i x hx
      refine ⟨dc_send hc _ _ _, ?_⟩
      cases a with
      | false => trivial
      | true => exact stopIn_accept σ (stopRec s x x.stopCause (counters σ s)) rfl
  · rename_i s acked heq
    rw [heq] at hk
    refine ⟨dc_of_eq hc rfl rfl rfl rfl, ?_⟩
    cases acked with
    | false => trivial
    | true => exact hk
  · rename_i s acked heq
    rw [heq] at hk
    unfold tickStopRemove
    cases acked with
    | false => exact ⟨hc, trivial⟩
    | true => exact ⟨dc_removeFile hc s (Or.inl hk), trivial⟩
  · rename_i s _
    unfold tickIntSend
    split
    · exact ⟨hc, trivial⟩
    · simp only
      split
      · exact ⟨dc_of_eq (dc_accept hc _) rfl rfl rfl rfl, trivial⟩
      · exact ⟨dc_setPc (dc_enqueue hc _ _) _, trivial⟩
  · -- procSend
    rename_i id rest _
    unfold tickProcSend
    split
    · exact ⟨hc, frameAck_nextProc _ _ _⟩
    · rename_i p hp
      simp only
      split
      · split
        · rename_i hk
          refine ⟨dc_accept hc p.req, ?_⟩
          have : p.req.kind = .stop := by simpa using hk
          exact stopIn_accept _ p.req this
        · exact ⟨dc_accept hc p.req, frameAck_nextProc _ _ _⟩
      · split
        · exact ⟨hc, frameAck_nextProc _ _ _⟩
        · exact ⟨hc, frameAck_nextProc _ _ _⟩
  · -- procRemove
    rename_i s rest heq
    rw [heq] at hk
    unfold tickProcRemove
    refine ⟨?_, frameAck_nextProc _ _ _⟩
    split
    · exact hc
    · exact dc_removeFile hc s (Or.inl hk)
  · -- drainSend
    rename_i s rest _
    unfold tickDrainSend
    split
    · exact ⟨hc, frameAck_nextDrain _ _⟩
    · rename_i x hx
      simp only
      split
      · exact ⟨dc_accept hc _, stopIn_accept _ (stopRec s x 11 (counters (noteOrd σ s) s)) rfl⟩
      · exact ⟨dc_setPc (dc_enqueue (dc_noteOrd hc s) _ _) _, frameAck_nextDrain _ _⟩
  · -- drainRemove
    rename_i s rest heq
    rw [heq] at hk
    exact ⟨dc_removeFile hc s (Or.inl hk), frameAck_nextDrain _ _⟩
  · -- persistPending
    unfold tickPersistPending
    refine ⟨?_, trivial⟩
    intro k hk'
    rcases hc k hk' with h1 | h1 | h1
    · exact Or.inl h1
    · exact Or.inr (Or.inl h1)
    · right; right
      simp only
      split <;> exact h1
  · -- recSend
    rename_i s rest recd order _
    unfold tickRecSend
    split
    · exact ⟨hc, frameAck_nextRec _ _ _ _⟩
    · rename_i x hx
      refine ⟨dc_send hc _ _ _, ?_⟩
      cases a with
      | true =>
        left
        exact stopIn_accept σ (stopRec s x (if x.stopCause = 0 then 11 else x.stopCause) (x.lastIn, x.lastOut)) rfl
      | false =>
        right
        simp [send, enqueue, setPc, stopRec]
  · -- recRemove
    rename_i s rest recd order heq
    rw [heq] at hk
    exact ⟨dc_removeFile hc s hk, frameAck_nextRec _ _ _ _⟩
  · -- recLoad
    rename_i recd order _
    unfold tickRecLoad
    split
    · exact ⟨hc, trivial⟩
    · rename_i ps hps
      refine ⟨?_, trivial⟩
      have sp := loadPending_spec σ recd (recOfIds ps (normalize order (ps.map (·.id))))
      intro k hk'
      have hk2 : k ∈ σ.started := by
        have := sp.started
        simp only [setPc] at hk'
        rw [this] at hk'; exact hk'
      rcases hc k hk2 with h1 | h1 | h1
      · left; simp only [setPc]; rw [sp.log]; exact h1
      · right; left; simp only [setPc]; exact (sp.recVol k).mpr (Or.inl h1)
      · right; right; simp only [setPc]; rw [sp.dur]; exact h1
  · -- recPendRemove
    exact ⟨dc_of_eq hc rfl rfl rfl rfl, trivial⟩


theorem dur_init (c : Cfg) : DurInv (init c) := ⟨by intro s hs; simp [init] at hs, trivial⟩

theorem dur_step {σ : State} (h : DurInv σ) (op : Op) : DurInv (step σ op) := by
  obtain ⟨hc, hk⟩ := h
  cases op with
  | tick a => exact dur_tick ⟨hc, hk⟩ a
  | crash => exact ⟨dc_of_eq hc rfl rfl rfl rfl, trivial⟩
  | ctr s i o => exact ⟨dc_of_eq hc rfl rfl rfl rfl, hk⟩
  | restart order =>
    simp only [step]
    split
    · exact ⟨hc, hk⟩
    · unfold callRestart
      simp only
      split
      · exact ⟨dc_of_eq hc rfl rfl rfl rfl, frameAck_nextRec _ _ _ _⟩
      · exact ⟨dc_of_eq hc rfl rfl rfl rfl, trivial⟩
  | start s ident =>
    simp only [step]
    split
    · exact ⟨hc, hk⟩
    · split
      · exact ⟨hc, hk⟩
      · unfold callStart
        split
        · exact ⟨hc, hk⟩
        · exact ⟨dc_of_eq hc rfl rfl rfl rfl, trivial⟩
  | interim s =>
    simp only [step]
    split
    · exact ⟨hc, hk⟩
    · split
      · exact ⟨hc, hk⟩
      · unfold callInterim
        split
        · exact ⟨hc, hk⟩
        · split
          · exact ⟨hc, hk⟩
          · exact ⟨hc, trivial⟩
  | stop s cause =>
    simp only [step]
    split
    · exact ⟨hc, hk⟩
    · split
      · exact ⟨hc, hk⟩
      · unfold callStop
        split
        · exact ⟨hc, hk⟩
        · exact ⟨dc_of_eq hc rfl rfl rfl rfl, trivial⟩
  | deq =>
    simp only [step]
    split
    · exact ⟨hc, hk⟩
    · split
      · exact ⟨hc, hk⟩
      · unfold callDeq
        split
        · exact ⟨hc, hk⟩
        · exact ⟨dc_of_eq hc rfl rfl rfl rfl, frameAck_nextProc _ _ _⟩
  | retry order =>
    simp only [step]
    split
    · exact ⟨hc, hk⟩
    · split
      · exact ⟨hc, hk⟩
      · exact ⟨hc, frameAck_nextProc _ _ _⟩
  | shutdown order =>
    simp only [step]
    split
    · exact ⟨hc, hk⟩
    · split
      · exact ⟨hc, hk⟩
      · exact ⟨hc, frameAck_nextDrain _ _⟩

theorem dur_run {σ : State} (h : DurInv σ) (ops : List Op) : DurInv (run σ ops) := by
  induction ops generalizing σ with
  | nil => exact h
  | cons op ops ih => exact ih (dur_step h op)


/-! ## SA: a Stop is only ever produced for a session whose Start was accepted or queued -/

def okStart (σ : State) (s : Nat) : Prop := s ∈ σ.startQueued ∨ startIn σ.log s

/-- every accepted Stop whose session is not in `sq` is preceded by that session's accepted Start -/
def goodLog (sq : List Nat) (log : List Rec) : Prop :=
  ∀ pre r post, log = pre ++ r :: post → r.kind = .stop → r.sid ∉ sq → startIn pre r.sid

theorem split_snoc {α : Type} {pre post l : List α} {r x : α} (h : pre ++ r :: post = l ++ [x]) :
    (post = [] ∧ pre = l ∧ r = x) ∨ ∃ post', post = post' ++ [x] ∧ l = pre ++ r :: post' := by
  rcases List.eq_nil_or_concat post with e | ⟨post', y, e⟩
  · subst e
    left
    have h' : pre ++ [r] = l ++ [x] := h
    have := List.append_inj' h' rfl
    exact ⟨rfl, this.1, by simpa using this.2⟩
  · rw [List.concat_eq_append] at e
    subst e
    right
    have h' : (pre ++ r :: post') ++ [y] = l ++ [x] := by simpa using h
    have := List.append_inj' h' rfl
    have e2 : y = x := by simpa using this.2
    subst e2
    exact ⟨post', rfl, this.1.symm⟩

theorem goodLog_snoc {sq : List Nat} {log : List Rec} {r : Rec} (h : goodLog sq log)
    (hr : r.kind = .stop → r.sid ∉ sq → startIn log r.sid) : goodLog sq (log ++ [r]) := by
  intro pre r' post e hk hs
  rcases split_snoc e.symm with ⟨_, e2, e3⟩ | ⟨post', _, e3⟩
  · subst e2; subst e3; exact hr hk hs
  · exact h pre r' post' e3 hk hs

theorem goodLog_mono {sq sq' : List Nat} {log : List Rec} (h : goodLog sq log) (hm : ∀ x ∈ sq, x ∈ sq') :
    goodLog sq' log := by
  intro pre r post e hk hs
  exact h pre r post e hk (fun hx => hs (hm _ hx))

/-- the invariant without the program counter: every session in memory already has okStart -/
structure SAs (σ : State) : Prop where
  files : ∀ s, (lookup σ.dur.files s).isSome → okStart σ s
  pend : ∀ p ∈ σ.vol.pending, p.req.kind = .stop → okStart σ p.req.sid
  pfile : ∀ ps, σ.dur.pfile = some ps → ∀ p ∈ ps, p.req.kind = .stop → okStart σ p.req.sid
  sess : ∀ s, (lookup σ.vol.sessions s).isSome → okStart σ s
  log : goodLog σ.startQueued σ.log

/-- the invariant: the only session that may lack okStart is the one StartSession is just sending for -/
structure SA (σ : State) : Prop where
  files : ∀ s, (lookup σ.dur.files s).isSome → okStart σ s
  pend : ∀ p ∈ σ.vol.pending, p.req.kind = .stop → okStart σ p.req.sid
  pfile : ∀ ps, σ.dur.pfile = some ps → ∀ p ∈ ps, p.req.kind = .stop → okStart σ p.req.sid
  sess : ∀ s, (lookup σ.vol.sessions s).isSome → okStart σ s ∨ σ.vol.pc = some (.startSend s)
  log : goodLog σ.startQueued σ.log

theorem SAs.toSA {σ : State} (h : SAs σ) : SA σ :=
  ⟨h.files, h.pend, h.pfile, fun s hs => Or.inl (h.sess s hs), h.log⟩

theorem SA.toSAs {σ : State} (h : SA σ) (hpc : ∀ s, σ.vol.pc ≠ some (.startSend s)) : SAs σ :=
  ⟨h.files, h.pend, h.pfile, fun s hs => (h.sess s hs).resolve_right (hpc s), h.log⟩

theorem okStart_accept {σ : State} (r : Rec) {s : Nat} (h : okStart σ s) : okStart (accept σ r) s := by
  rcases h with h | h
  · exact Or.inl h
  · exact Or.inr (startIn_append _ h)

theorem okStart_enqueue {σ : State} (r : Rec) (v : Bool) {s : Nat} (h : okStart σ s) :
    okStart (enqueue σ r v) s := by
  rcases h with h | h
  · left
    simp only [enqueue]
    split
    · exact List.mem_cons_of_mem _ h
    · exact h
  · exact Or.inr h

theorem sas_setPc {σ : State} (h : SAs σ) (pc : Option Frame) : SAs (setPc σ pc) :=
  ⟨h.files, h.pend, h.pfile, h.sess, h.log⟩
theorem sas_noteOrd {σ : State} (h : SAs σ) (x : Nat) : SAs (noteOrd σ x) :=
  ⟨h.files, h.pend, h.pfile, h.sess, h.log⟩
theorem sas_begin {σ : State} (h : SAs σ) (r : Res) : SAs (begin σ r) :=
  ⟨h.files, h.pend, h.pfile, h.sess, h.log⟩

theorem sas_accept {σ : State} (h : SAs σ) (r : Rec) (hr : r.kind = .stop → okStart σ r.sid) :
    SAs (accept σ r) := by
  refine ⟨fun s hs => okStart_accept r (h.files s hs), fun p hp hk => okStart_accept r (h.pend p hp hk),
    fun ps hps p hp hk => okStart_accept r (h.pfile ps hps p hp hk), fun s hs => okStart_accept r (h.sess s hs), ?_⟩
  apply goodLog_snoc h.log
  intro hk hs
  rcases hr hk with h1 | h1
  · exact absurd h1 hs
  · exact h1

theorem sas_enqueue {σ : State} (h : SAs σ) (r : Rec) (v : Bool) (hr : r.kind = .stop → okStart σ r.sid) :
    SAs (enqueue σ r v) := by
  refine ⟨fun s hs => okStart_enqueue r v (h.files s hs), ?_,
    fun ps hps p hp hk => okStart_enqueue r v (h.pfile ps hps p hp hk),
    fun s hs => okStart_enqueue r v (h.sess s hs), ?_⟩
  · intro p hp hk
    simp only [enqueue, List.mem_cons] at hp
    rcases hp with e | e
    · subst e; exact okStart_enqueue r v (hr hk)
    · exact okStart_enqueue r v (h.pend p e hk)
  · apply goodLog_mono h.log
    intro x hx
    simp only [enqueue]
    split
    · exact List.mem_cons_of_mem _ hx
    · exact hx

theorem sas_send {σ : State} (h : SAs σ) (r : Rec) (a v : Bool) (hr : r.kind = .stop → okStart σ r.sid) :
    SAs (send σ r a v) := by
  unfold send; split
  · exact sas_accept h r hr
  · exact sas_enqueue h r v hr

theorem sas_persist {σ : State} (h : SAs σ) (s : Nat) : SAs (persistSession σ s) := by
  unfold persistSession
  split
  · exact h
  · rename_i x hx
    refine ⟨?_, h.pend, h.pfile, h.sess, h.log⟩
    intro k hk
    simp only [lookup_insert] at hk
    split at hk
    · rename_i e; subst e
      exact h.sess k (by simp [hx])
    · exact h.files k hk

theorem sas_removeFile {σ : State} (h : SAs σ) (s : Nat) : SAs (removeFile σ s) := by
  refine ⟨?_, h.pend, h.pfile, h.sess, h.log⟩
  intro k hk
  simp only [removeFile, lookup_erase] at hk
  split at hk
  · simp at hk
  · exact h.files k hk

theorem sas_vol {σ : State} (h : SAs σ) (ss : AMap Nat Sess) (ps : List PRec) (q : List Nat) (pc : Option Frame)
    (hs : ∀ s, (lookup ss s).isSome → okStart σ s)
    (hp : ∀ p ∈ ps, p.req.kind = .stop → okStart σ p.req.sid) :
    SAs { σ with vol := { sessions := ss, pending := ps, queue := q, pc := pc } } :=
  ⟨h.files, hp, h.pfile, hs, h.log⟩


theorem sas_startSend {σ : State} (h : SA σ) {s : Nat} {x : Sess} (heq : σ.vol.pc = some (.startSend s))
    (a : Bool) :
    SAs (send σ { kind := Kind.start, sid := s, ident := x.ident, cause := 0, inOct := 0, outOct := 0 } a false) := by
  cases a with
  | true =>
    simp only [send, if_true]
    refine ⟨fun k hk => okStart_accept _ (h.files k hk), fun p hp hk => okStart_accept _ (h.pend p hp hk),
      fun ps hps p hp hk => okStart_accept _ (h.pfile ps hps p hp hk), ?_, ?_⟩
    · intro k hk
      rcases h.sess k hk with h1 | h1
      · exact okStart_accept _ h1
      · rw [heq] at h1
        simp only [Option.some.injEq, Frame.startSend.injEq] at h1
        subst h1
        right
        exact ⟨_, List.mem_append_right _ List.mem_cons_self, rfl, rfl⟩
    · exact goodLog_snoc h.log (fun e => absurd e (by simp))
  | false =>
    simp only [send, Bool.false_eq_true, if_false]
    refine ⟨fun k hk => okStart_enqueue _ _ (h.files k hk), ?_,
      fun ps hps p hp hk => okStart_enqueue _ _ (h.pfile ps hps p hp hk), ?_, ?_⟩
    · intro p hp hk
      simp only [enqueue, List.mem_cons] at hp
      rcases hp with e | e
      · subst e; exact absurd hk (by simp)
      · exact okStart_enqueue _ _ (h.pend p e hk)
    · intro k hk
      rcases h.sess k hk with h1 | h1
      · exact okStart_enqueue _ _ h1
      · rw [heq] at h1
        simp only [Option.some.injEq, Frame.startSend.injEq] at h1
        subst h1
        left
        simp [enqueue]
    · apply goodLog_mono h.log
      intro y hy
      simp [enqueue, hy]

theorem sa_tick {σ : State} (h : SA σ) (a : Bool) : SA (tick σ a) := by
  unfold tick
  split
  · exact h
  · -- startSend: the one frame in which a session may still lack okStart
    rename_i s heq
    unfold tickStartSend
    split
    · rename_i hn
      refine ⟨h.files, h.pend, h.pfile, ?_, h.log⟩
      intro k hk
      have hk' : (lookup σ.vol.sessions k).isSome := hk
      rcases h.sess k hk' with h1 | h1
      · exact Or.inl h1
      · rw [heq] at h1
        simp only [Option.some.injEq, Frame.startSend.injEq] at h1
        subst h1; rw [hn] at hk'; simp at hk'
    · rename_i x hx
      exact (sas_setPc (sas_startSend h heq a) _).toSA
  · rename_i s heq
    have hs := h.toSAs (by intro k; rw [heq]; simp)
    unfold tickStartPersist
    split
    · exact (sas_setPc hs _).toSA
    · have h' := sas_persist hs s
      exact ⟨h'.files, h'.pend, h'.pfile, fun k hk => Or.inl (h'.sess k hk), h'.log⟩
  · rename_i s heq
    have hs := h.toSAs (by intro k; rw [heq]; simp)
    exact (sas_setPc (sas_persist hs s) _).toSA
  · rename_i s heq
    have hs := h.toSAs (by intro k; rw [heq]; simp)
    unfold tickStopSend
    split
    · exact (sas_setPc hs _).toSA
    · rename_i x hx
      exact (sas_setPc (sas_send hs _ _ _ (fun _ => hs.sess s (by simp [hx]))) _).toSA
  · rename_i s acked heq
    have hs := h.toSAs (by intro k; rw [heq]; simp)
    unfold tickStopDelete
    apply SAs.toSA
    apply sas_setPc
    apply sas_vol hs
    · intro k hk
      simp only [lookup_erase] at hk
      split at hk
      · simp at hk
      · exact hs.sess k hk
    · exact hs.pend
  · rename_i s acked heq
    have hs := h.toSAs (by intro k; rw [heq]; simp)
    unfold tickStopRemove
    apply SAs.toSA
    apply sas_setPc
    split
    · exact sas_removeFile hs s
    · exact hs
  · rename_i s heq
    have hs := h.toSAs (by intro k; rw [heq]; simp)
    unfold tickIntSend
    split
    · exact (sas_setPc hs _).toSA
    · rename_i x hx
      simp only
      split
      · apply SAs.toSA
        apply sas_setPc
        have h' := sas_accept hs { kind := .interim, sid := s, ident := x.ident, cause := 0, inOct := (counters σ s).1, outOct := (counters σ s).2 } (fun e => by cases e)
        apply sas_vol h'
        · intro k hk
          simp only [lookup_insert] at hk
          split at hk
          · rename_i e; subst e
            exact h'.sess k (by simp [accept, hx])
          · exact h'.sess k hk
        · exact h'.pend
      · exact (sas_setPc (sas_enqueue hs _ _ (fun e => by cases e)) _).toSA
  · -- procSend
    rename_i id rest heq
    have hs := h.toSAs (by intro k; rw [heq]; simp)
    unfold tickProcSend
    split
    · exact (sas_setPc hs _).toSA
    · rename_i p hp
      have hm := findP_mem hp
      have h0 := sas_noteOrd hs id
      simp only
      split
      · have h1 := sas_accept h0 p.req (fun hk => hs.pend p hm hk)
        have h2 : SAs { (accept (noteOrd σ id) p.req) with vol := { (accept (noteOrd σ id) p.req).vol with
            pending := eraseP (accept (noteOrd σ id) p.req).vol.pending id } } := by
          apply sas_vol h1
          · exact h1.sess
          · intro q hq; exact h1.pend _ (mem_eraseP hq)
        split
        · exact (sas_setPc h2 _).toSA
        · exact (sas_setPc h2 _).toSA
      · split
        · apply SAs.toSA
          apply sas_setPc
          have h2 : SAs { (noteOrd σ id) with vol := { (noteOrd σ id).vol with
              pending := eraseP (noteOrd σ id).vol.pending id } } := by
            apply sas_vol h0
            · exact h0.sess
            · intro q hq; exact h0.pend _ (mem_eraseP hq)
          exact ⟨h2.files, h2.pend, h2.pfile, h2.sess, h2.log⟩
        · apply SAs.toSA
          apply sas_setPc
          apply sas_vol h0
          · exact h0.sess
          · intro q hq
            simp only [List.mem_map] at hq
            obtain ⟨q0, hq0, e⟩ := hq
            have := h0.pend _ hq0
            split at e <;> (subst e; exact this)
  · rename_i s rest heq
    have hs := h.toSAs (by intro k; rw [heq]; simp)
    unfold tickProcRemove
    apply SAs.toSA
    apply sas_setPc
    split
    · exact hs
    · exact sas_removeFile hs s
  · rename_i s rest heq
    have hs := h.toSAs (by intro k; rw [heq]; simp)
    unfold tickDrainSend
    split
    · exact (sas_setPc hs _).toSA
    · rename_i x hx
      have hok : okStart σ s := hs.sess s (by simp [hx])
      simp only
      split
      · exact (sas_setPc (sas_accept (sas_noteOrd hs s) (stopRec s x 11 (counters (noteOrd σ s) s)) (fun _ => hok)) _).toSA
      · exact (sas_setPc (sas_enqueue (sas_noteOrd hs s) (stopRec s x 11 (counters (noteOrd σ s) s)) _ (fun _ => hok)) _).toSA
  · rename_i s rest heq
    have hs := h.toSAs (by intro k; rw [heq]; simp)
    exact (sas_setPc (sas_removeFile hs s) _).toSA
  · -- persistPending
    rename_i heq
    have hs := h.toSAs (by intro k; rw [heq]; simp)
    unfold tickPersistPending
    refine ⟨?_, by simp, ?_, by simp, hs.log⟩
    · intro k hk
      simp only at hk
      split at hk <;> exact hs.files k hk
    · intro ps hps p hp hk
      simp only at hps
      split at hps
      · exact hs.pfile _ hps _ hp hk
      · simp only [Option.some.injEq] at hps; subst hps; exact hs.pend _ hp hk
  · rename_i s rest recd order heq
    have hs := h.toSAs (by intro k; rw [heq]; simp)
    unfold tickRecSend
    split
    · exact (sas_setPc hs _).toSA
    · rename_i x hx
      exact (sas_setPc (sas_send hs _ _ _ (fun _ => hs.files s (by simp [hx]))) _).toSA
  · rename_i s rest recd order heq
    have hs := h.toSAs (by intro k; rw [heq]; simp)
    exact (sas_setPc (sas_removeFile hs s) _).toSA
  · rename_i recd order heq
    have hs := h.toSAs (by intro k; rw [heq]; simp)
    unfold tickRecLoad
    split
    · exact (sas_setPc hs _).toSA
    · rename_i ps hps
      apply SAs.toSA
      apply sas_setPc
      have sp := loadPending_spec σ recd (recOfIds ps (normalize order (ps.map (·.id))))
      have ok : ∀ k, okStart σ k → okStart (loadPending σ recd (recOfIds ps (normalize order (ps.map (·.id))))) k := by
        intro k hk
        unfold okStart
        rw [sp.startQueued, sp.log]; exact hk
      refine ⟨?_, ?_, ?_, ?_, ?_⟩
      · intro k hk; rw [sp.dur] at hk; exact ok k (hs.files k hk)
      · intro p hp hk
        rcases sp.pending p hp with e | ⟨q, hq, e, _⟩
        · exact ok _ (hs.pend p e hk)
        · subst e; exact ok _ (hs.pfile _ hps q (mem_recOfIds hq) hk)
      · intro ps' hps' p hp hk
        rw [sp.dur] at hps'
        exact ok _ (hs.pfile _ hps' p hp hk)
      · intro k hk; rw [sp.sessions] at hk; exact ok k (hs.sess k hk)
      · rw [sp.startQueued, sp.log]; exact hs.log
  · rename_i heq
    have hs := h.toSAs (by intro k; rw [heq]; simp)
    unfold tickRecPendRemove
    apply SAs.toSA
    apply sas_setPc
    exact ⟨hs.files, hs.pend, by simp, hs.sess, hs.log⟩


theorem sa_init (c : Cfg) : SA (init c) := by
  refine ⟨by simp [init], by simp [init], by simp [init], by simp [init], ?_⟩
  intro pre r post e
  simp [init] at e

theorem sa_res {σ : State} (h : SA σ) (r : Res) : SA { σ with res := r } :=
  ⟨h.files, h.pend, h.pfile, h.sess, h.log⟩

theorem sa_step {σ : State} (h : SA σ) (op : Op) : SA (step σ op) := by
  have idle : σ.vol.pc.isSome = false → SAs σ := by
    intro hp
    apply h.toSAs
    intro k e
    rw [e] at hp; simp at hp
  cases op with
  | tick a => exact sa_tick h a
  | crash => exact ⟨h.files, by simp [step, crash], h.pfile, by simp [step, crash], h.log⟩
  | ctr s i o => exact ⟨h.files, h.pend, h.pfile, h.sess, h.log⟩
  | restart order =>
    simp only [step]
    split
    · exact sa_res h _
    · unfold callRestart
      have h0 : SAs (begin { σ with up := true, vol := {} } .ok) :=
        ⟨h.files, by simp [begin], h.pfile, by simp [begin], h.log⟩
      simp only
      split
      · exact (sas_setPc h0 _).toSA
      · exact h0.toSA
  | start s ident =>
    simp only [step]
    split
    · exact sa_res h _
    · split
      · exact sa_res h _
      · rename_i hp
        have hs := idle (by simpa using hp)
        unfold callStart
        split
        · exact (sas_begin hs _).toSA
        · refine ⟨hs.files, hs.pend, hs.pfile, ?_, hs.log⟩
          intro k hk
          simp only [setPc, begin, lookup_insert] at hk
          split at hk
          · rename_i e; subst e; right; rfl
          · exact Or.inl (hs.sess k hk)
  | interim s =>
    simp only [step]
    split
    · exact sa_res h _
    · split
      · exact sa_res h _
      · rename_i hp
        have hs := idle (by simpa using hp)
        unfold callInterim
        split
        · exact (sas_begin hs _).toSA
        · split
          · exact (sas_begin hs _).toSA
          · exact (sas_setPc (sas_begin hs _) _).toSA
  | stop s cause =>
    simp only [step]
    split
    · exact sa_res h _
    · split
      · exact sa_res h _
      · rename_i hp
        have hs := idle (by simpa using hp)
        unfold callStop
        split
        · exact (sas_begin hs _).toSA
        · rename_i x hx
          apply SAs.toSA
          apply sas_setPc
          apply sas_vol (sas_begin hs .ok)
          · intro k hk
            simp only [begin, lookup_insert] at hk
            split at hk
            · rename_i e; subst e
              exact hs.sess k (by simp [hx])
            · exact hs.sess k hk
          · exact hs.pend
  | deq =>
    simp only [step]
    split
    · exact sa_res h _
    · split
      · exact sa_res h _
      · rename_i hp
        have hs := idle (by simpa using hp)
        unfold callDeq
        split
        · exact (sas_begin hs _).toSA
        · apply SAs.toSA
          apply sas_setPc
          apply sas_vol (sas_begin hs .done)
          · exact hs.sess
          · exact hs.pend
  | retry order =>
    simp only [step]
    split
    · exact sa_res h _
    · split
      · exact sa_res h _
      · rename_i hp
        have hs := idle (by simpa using hp)
        exact (sas_setPc (sas_begin hs _) _).toSA
  | shutdown order =>
    simp only [step]
    split
    · exact sa_res h _
    · split
      · exact sa_res h _
      · rename_i hp
        have hs := idle (by simpa using hp)
        exact (sas_setPc (sas_begin hs _) _).toSA

theorem sa_run {σ : State} (h : SA σ) (ops : List Op) : SA (run σ ops) := by
  induction ops generalizing σ with
  | nil => exact h
  | cons op ops ih => exact ih (sa_step h op)


/-! ## the ghost sets are what their names say -/

theorem enqueue_startQueued_of_ne {σ : State} {r : Rec} (v : Bool) (h : r.kind ≠ .start) :
    (enqueue σ r v).startQueued = σ.startQueued := by
  have : (r.kind == Kind.start) = false := by simpa using h
  simp [enqueue, this]

theorem send_startQueued_of_ne {σ : State} {r : Rec} (a v : Bool) (h : r.kind ≠ .start) :
    (send σ r a v).startQueued = σ.startQueued := by
  unfold send; split
  · rfl
  · exact enqueue_startQueued_of_ne v h

theorem tick_startQueued (σ : State) (a : Bool) (s : Nat) (h : s ∈ (tick σ a).startQueued) :
    s ∈ σ.startQueued ∨ (a = false ∧ σ.vol.pc = some (.startSend s)) := by
  unfold tick at h
  split at h
  · exact Or.inl h
  · rename_i k heq
    unfold tickStartSend at h
    split at h
    · exact Or.inl h
    · cases a with
      | true => exact Or.inl h
      | false =>
        simp only [setPc, send, enqueue, Bool.false_eq_true, if_false, beq_self_eq_true, if_true, List.mem_cons] at h
        rcases h with e | e
        · subst e; exact Or.inr ⟨rfl, heq⟩
        · exact Or.inl e
  · left; unfold tickStartPersist persistSession at h; revert h; repeat' (first | exact id | split)
  · left; unfold tickStopPersist persistSession at h; revert h; repeat' (first | exact id | split)
  · left
    unfold tickStopSend at h
    split at h
    · exact h
    · simp only [setPc] at h
      rw [send_startQueued_of_ne _ _ (by simp [stopRec])] at h; exact h
  · exact Or.inl h
  · left; unfold tickStopRemove at h; revert h; repeat' (first | exact id | split)
  · left
    unfold tickIntSend at h
    split at h
    · exact h
    · simp only at h
      split at h
      · exact h
      · simp only [setPc] at h
        rw [enqueue_startQueued_of_ne _ (by simp)] at h; exact h
  · left
    unfold tickProcSend at h
    split at h
    · exact h
    · dsimp only at h
      revert h; repeat' (first | exact id | split)
  · left; unfold tickProcRemove at h; revert h; repeat' (first | exact id | split)
  · left
    unfold tickDrainSend at h
    split at h
    · exact h
    · simp only at h
      split at h
      · exact h
      · simp only [setPc] at h
        rw [enqueue_startQueued_of_ne _ (by simp [stopRec])] at h; exact h
  · exact Or.inl h
  · exact Or.inl h
  · left
    unfold tickRecSend at h
    split at h
    · exact h
    · simp only [setPc] at h
      rw [send_startQueued_of_ne _ _ (by simp [stopRec])] at h; exact h
  · exact Or.inl h
  · left
    unfold tickRecLoad at h
    split at h
    · exact h
    · simp only [setPc] at h
      rw [(loadPending_spec _ _ _).startQueued] at h; exact h
  · exact Or.inl h

/-- a property of the state that no call (the part before the first marker), `crash` or `ctr` changes -/
theorem step_ghost_of_tick {α : Type} (f : State → α)
    (hset : ∀ σ pc, f (setPc σ pc) = f σ) (hbegin : ∀ σ r, f (begin σ r) = f σ)
    (hres : ∀ (σ : State) r, f { σ with res := r } = f σ)
    (hvol : ∀ (σ : State) v, f { σ with vol := v } = f σ)
    (hup : ∀ (σ : State) u v, f { σ with up := u, vol := v } = f σ)
    (hctr : ∀ (σ : State) c, f { σ with ctr := c } = f σ)
    (hcrash : ∀ σ, f (crash σ) = f σ)
    (hreg : ∀ (σ : State) v r, f { σ with vol := v, registered := r } = f σ)
    (σ : State) (op : Op) (hop : ∀ a, op ≠ .tick a) : f (step σ op) = f σ := by
  cases op with
  | tick a => exact absurd rfl (hop a)
  | crash => exact hcrash σ
  | ctr s i o => exact hctr σ _
  | restart order =>
    simp only [step]
    split
    · exact hres σ _
    · unfold callRestart
      simp only
      split
      · rw [hset, hbegin, hup]
      · rw [hbegin, hup]
  | start s ident =>
    simp only [step]
    split
    · exact hres σ _
    · split
      · exact hres σ _
      · unfold callStart
        split
        · exact hbegin σ _
        · rw [hset, hreg, hbegin]
  | interim s =>
    simp only [step]
    split
    · exact hres σ _
    · split
      · exact hres σ _
      · unfold callInterim
        split
        · exact hbegin σ _
        · split
          · exact hbegin σ _
          · rw [hset, hbegin]
  | stop s cause =>
    simp only [step]
    split
    · exact hres σ _
    · split
      · exact hres σ _
      · unfold callStop
        split
        · exact hbegin σ _
        · simp only
          rw [hset, hvol, hbegin]
  | deq =>
    simp only [step]
    split
    · exact hres σ _
    · split
      · exact hres σ _
      · unfold callDeq
        split
        · exact hbegin σ _
        · simp only
          rw [hset, hvol, hbegin]
  | retry order =>
    simp only [step]
    split
    · exact hres σ _
    · split
      · exact hres σ _
      · unfold callRetry
        simp only
        rw [hset, hbegin]
  | shutdown order =>
    simp only [step]
    split
    · exact hres σ _
    · split
      · exact hres σ _
      · unfold callShutdown
        simp only
        rw [hset, hbegin]

theorem startQueued_step (σ : State) (op : Op) (s : Nat) (h : s ∈ (step σ op).startQueued) :
    s ∈ σ.startQueued ∨ (op = .tick false ∧ σ.vol.pc = some (.startSend s)) := by
  by_cases ht : ∃ a, op = .tick a
  · obtain ⟨a, e⟩ := ht
    subst e
    rcases tick_startQueued σ a s h with h1 | ⟨h1, h2⟩
    · exact Or.inl h1
    · subst h1; exact Or.inr ⟨rfl, h2⟩
  · left
    have := step_ghost_of_tick State.startQueued (fun _ _ => rfl) (fun _ _ => rfl) (fun _ _ => rfl)
      (fun _ _ => rfl) (fun _ _ _ => rfl) (fun _ _ => rfl) (fun _ => rfl) (fun _ _ _ => rfl) σ op
      (fun a e => ht ⟨a, e⟩)
    rw [this] at h; exact h


theorem tick_started (σ : State) (a : Bool) (s : Nat) (h : s ∈ (tick σ a).started) :
    s ∈ σ.started ∨ σ.vol.pc = some (.startPersist s) := by
  unfold tick at h
  split at h
  · exact Or.inl h
  · left; unfold tickStartSend send at h; revert h; repeat' (first | exact id | split)
  · rename_i k heq
    unfold tickStartPersist at h
    split at h
    · exact Or.inl h
    · simp only [setPc, List.mem_cons] at h
      rcases h with e | e
      · subst e; exact Or.inr heq
      · left; unfold persistSession at e; revert e; repeat' (first | exact id | split)
  · left; unfold tickStopPersist persistSession at h; revert h; repeat' (first | exact id | split)
  · left; unfold tickStopSend send at h; revert h; repeat' (first | exact id | split)
  · exact Or.inl h
  · left; unfold tickStopRemove at h; revert h; repeat' (first | exact id | split)
  · left; unfold tickIntSend at h; revert h; repeat' (first | exact id | split)
  · left
    unfold tickProcSend at h
    split at h
    · exact h
    · dsimp only at h
      revert h; repeat' (first | exact id | split)
  · left; unfold tickProcRemove at h; revert h; repeat' (first | exact id | split)
  · left; unfold tickDrainSend at h; revert h; repeat' (first | exact id | split)
  · exact Or.inl h
  · exact Or.inl h
  · left; unfold tickRecSend send at h; revert h; repeat' (first | exact id | split)
  · exact Or.inl h
  · left
    unfold tickRecLoad at h
    split at h
    · exact h
    · simp only [setPc] at h
      rw [(loadPending_spec _ _ _).started] at h; exact h
  · exact Or.inl h

theorem started_step (σ : State) (op : Op) (s : Nat) (h : s ∈ (step σ op).started) :
    s ∈ σ.started ∨ ((∃ a, op = .tick a) ∧ σ.vol.pc = some (.startPersist s)) := by
  by_cases ht : ∃ a, op = .tick a
  · obtain ⟨a, e⟩ := ht
    subst e
    rcases tick_started σ a s h with h1 | h1
    · exact Or.inl h1
    · exact Or.inr ⟨⟨a, rfl⟩, h1⟩
  · left
    have := step_ghost_of_tick State.started (fun _ _ => rfl) (fun _ _ => rfl) (fun _ _ => rfl)
      (fun _ _ => rfl) (fun _ _ _ => rfl) (fun _ _ => rfl) (fun _ => rfl) (fun _ _ _ => rfl) σ op
      (fun a e => ht ⟨a, e⟩)
    rw [this] at h; exact h

theorem enqueue_recVol_false {σ : State} (r : Rec) : (enqueue σ r false).recVol = σ.recVol := by
  simp [enqueue]

theorem send_recVol_false {σ : State} (r : Rec) (a : Bool) : (send σ r a false).recVol = σ.recVol := by
  unfold send; split
  · rfl
  · exact enqueue_recVol_false r

def isRec : Option Frame → Prop
  | some (.recSend _ _ _ _) | some (.recRemove _ _ _ _) | some (.recLoad _ _) | some .recPendRemove => True
  | _ => False

theorem tick_recVol (σ : State) (a : Bool) (s : Nat) (h : s ∈ (tick σ a).recVol) :
    s ∈ σ.recVol ∨
    (a = false ∧ ∃ rest recd order, σ.vol.pc = some (.recSend s rest recd order)) ∨
    (∃ recd order ps, σ.vol.pc = some (.recLoad recd order) ∧ σ.dur.pfile = some ps ∧
      ∃ p ∈ ps, p.req.kind = .stop ∧ p.req.sid = s) := by
  unfold tick at h
  split at h
  · exact Or.inl h
  · left
    unfold tickStartSend at h
    split at h
    · exact h
    · simp only [setPc] at h; rw [send_recVol_false] at h; exact h
  · left; unfold tickStartPersist persistSession at h; revert h; repeat' (first | exact id | split)
  · left; unfold tickStopPersist persistSession at h; revert h; repeat' (first | exact id | split)
  · left
    unfold tickStopSend at h
    split at h
    · exact h
    · simp only [setPc] at h; rw [send_recVol_false] at h; exact h
  · exact Or.inl h
  · left; unfold tickStopRemove at h; revert h; repeat' (first | exact id | split)
  · left
    unfold tickIntSend at h
    split at h
    · exact h
    · simp only at h
      split at h
      · exact h
      · simp only [setPc] at h; rw [enqueue_recVol_false] at h; exact h
  · left
    unfold tickProcSend at h
    split at h
    · exact h
    · dsimp only at h
      revert h; repeat' (first | exact id | split)
  · left; unfold tickProcRemove at h; revert h; repeat' (first | exact id | split)
  · left
    unfold tickDrainSend at h
    split at h
    · exact h
    · simp only at h
      split at h
      · exact h
      · simp only [setPc] at h; rw [enqueue_recVol_false] at h; exact h
  · exact Or.inl h
  · exact Or.inl h
  · rename_i k rest recd order heq
    unfold tickRecSend at h
    split at h
    · exact Or.inl h
    · cases a with
      | true => exact Or.inl h
      | false =>
        simp only [setPc, send, enqueue, stopRec, Bool.false_eq_true, if_false, Bool.true_and,
          beq_self_eq_true, if_true, List.mem_cons] at h
        rcases h with e | e
        · subst e; exact Or.inr (Or.inl ⟨rfl, rest, recd, order, heq⟩)
        · exact Or.inl e
  · exact Or.inl h
  · rename_i recd order heq
    unfold tickRecLoad at h
    split at h
    · exact Or.inl h
    · rename_i ps hps
      simp only [setPc] at h
      rcases ((loadPending_spec _ _ _).recVol s).mp h with h1 | ⟨q, hq, hk, hs, _⟩
      · exact Or.inl h1
      · exact Or.inr (Or.inr ⟨recd, order, ps, heq, hps, q, mem_recOfIds hq, hk, hs⟩)
  · exact Or.inl h

theorem recVol_step (σ : State) (op : Op) (s : Nat) (h : s ∈ (step σ op).recVol) :
    s ∈ σ.recVol ∨
    (op = .tick false ∧ ∃ rest recd order, σ.vol.pc = some (.recSend s rest recd order)) ∨
    ((∃ a, op = .tick a) ∧ ∃ recd order ps, σ.vol.pc = some (.recLoad recd order) ∧ σ.dur.pfile = some ps ∧
      ∃ p ∈ ps, p.req.kind = .stop ∧ p.req.sid = s) := by
  by_cases ht : ∃ a, op = .tick a
  · obtain ⟨a, e⟩ := ht
    subst e
    rcases tick_recVol σ a s h with h1 | ⟨h1, h2⟩ | h1
    · exact Or.inl h1
    · subst h1; exact Or.inr (Or.inl ⟨rfl, h2⟩)
    · exact Or.inr (Or.inr ⟨⟨a, rfl⟩, h1⟩)
  · left
    have := step_ghost_of_tick State.recVol (fun _ _ => rfl) (fun _ _ => rfl) (fun _ _ => rfl)
      (fun _ _ => rfl) (fun _ _ _ => rfl) (fun _ _ => rfl) (fun _ => rfl) (fun _ _ _ => rfl) σ op
      (fun a e => ht ⟨a, e⟩)
    rw [this] at h; exact h


theorem notRec_nextProc (ps : List PRec) (rest : List Nat) : ¬ isRec (nextProc ps rest) := by
  induction rest with
  | nil => simp [nextProc, isRec]
  | cons id rest ih =>
    simp only [nextProc]
    split
    · simp [isRec]
    · exact ih

theorem notRec_nextDrain (rest : List Nat) : ¬ isRec (some (nextDrain rest)) := by
  cases rest <;> simp [nextDrain, isRec]

theorem tick_notRec (σ : State) (a : Bool) (h : ¬ isRec σ.vol.pc) : ¬ isRec (tick σ a).vol.pc := by
  unfold tick
  split
  · exact h
  · unfold tickStartSend; split <;> simp [setPc, isRec]
  · unfold tickStartPersist; split <;> simp [setPc, isRec]
  · simp [tickStopPersist, setPc, isRec]
  · unfold tickStopSend; split <;> simp [setPc, isRec]
  · simp [tickStopDelete, setPc, isRec]
  · simp [tickStopRemove, setPc, isRec]
  · unfold tickIntSend
    split
    · simp [setPc, isRec]
    · dsimp only
      split <;> simp [setPc, isRec]
  · unfold tickProcSend
    split
    · exact notRec_nextProc _ _
    · dsimp only
      split
      · split
        · simp [setPc, isRec]
        · exact notRec_nextProc _ _
      · split
        · exact notRec_nextProc _ _
        · exact notRec_nextProc _ _
  · exact notRec_nextProc _ _
  · unfold tickDrainSend
    split
    · exact notRec_nextDrain _
    · dsimp only
      split
      · simp [setPc, isRec]
      · exact notRec_nextDrain _
  · exact notRec_nextDrain _
  · simp [tickPersistPending, isRec]
  · rename_i heq; rw [heq] at h; exact absurd trivial h
  · rename_i heq; rw [heq] at h; exact absurd trivial h
  · rename_i heq; rw [heq] at h; exact absurd trivial h
  · rename_i heq; rw [heq] at h; exact absurd trivial h

theorem step_notRec (σ : State) (op : Op) (hop : ∀ order, op ≠ .restart order) (h : ¬ isRec σ.vol.pc) :
    ¬ isRec (step σ op).vol.pc := by
  cases op with
  | tick a => exact tick_notRec σ a h
  | crash => simp [step, crash, isRec]
  | ctr s i o => exact h
  | restart order => exact absurd rfl (hop order)
  | start s ident =>
    simp only [step]
    split
    · exact h
    · split
      · exact h
      · unfold callStart
        split
        · exact h
        · simp [setPc, isRec]
  | interim s =>
    simp only [step]
    split
    · exact h
    · split
      · exact h
      · unfold callInterim
        split
        · exact h
        · split
          · exact h
          · simp [setPc, isRec]
  | stop s cause =>
    simp only [step]
    split
    · exact h
    · split
      · exact h
      · unfold callStop
        split
        · exact h
        · simp [setPc, isRec]
  | deq =>
    simp only [step]
    split
    · exact h
    · split
      · exact h
      · unfold callDeq
        split
        · exact h
        · exact notRec_nextProc _ _
  | retry order =>
    simp only [step]
    split
    · exact h
    · split
      · exact h
      · exact notRec_nextProc _ _
  | shutdown order =>
    simp only [step]
    split
    · exact h
    · split
      · exact h
      · exact notRec_nextDrain _

theorem recVol_empty_run (σ : State) (ops : List Op) (hop : ∀ order, Op.restart order ∉ ops)
    (h1 : σ.recVol = []) (h2 : ¬ isRec σ.vol.pc) : (run σ ops).recVol = [] := by
  induction ops generalizing σ with
  | nil => exact h1
  | cons op ops ih =>
    apply ih
    · intro order hm; exact hop order (List.mem_cons_of_mem _ hm)
    · apply List.eq_nil_iff_forall_not_mem.mpr
      intro s hs
      rcases recVol_step σ op s hs with e | ⟨_, rest, recd, order, e⟩ | ⟨_, recd, order, ps, e, _⟩
      · rw [h1] at e; simp at e
      · rw [e] at h2; exact h2 trivial
      · rw [e] at h2; exact h2 trivial
    · apply step_notRec σ op _ h2
      intro order e
      exact hop order (by rw [e]; exact List.mem_cons_self)

theorem recVol_empty_without_restart (c : Cfg) (ops : List Op) (hop : ∀ order, Op.restart order ∉ ops) :
    (run (init c) ops).recVol = [] :=
  recVol_empty_run (init c) ops hop rfl (by simp [init, isRec])

end Bng.Acct
