import Bng.Model.XdpDhcp
/-
  Safety lemmas of the `dhcp_fastpath_prog` model in the `Ok` calculus of `Bng.C`: every function of
  the model returns `.ok` (no packet access outside `[0, data_end)`), the frame length is preserved by
  every store, and the shapes the later phases rely on.
-/
namespace Bng.XdpDhcp
open Bng Bng.C

/-- what `parse_packet_headers` establishes about the offsets it returns -/
structure Pkt.WF (p : Pkt) (f : Frame) : Prop where
  vlan : p.vlanOff = 0 ∨ p.vlanOff = 4 ∨ p.vlanOff = 8
  ip : p.ipOff = 14 + p.vlanOff
  udp : p.udpOff = p.ipOff + 20
  dhcp : p.dhcpOff = p.ipOff + 28
  room : p.dhcpOff + 240 ≤ f.length

theorem parseL2_Ok (f : Frame) :
    Ok (parseL2 f) (fun r => ∀ e, r = some e →
      e.l3 = 14 + e.vlanOff ∧ (e.vlanOff = 0 ∨ e.vlanOff = 4 ∨ e.vlanOff = 8) ∧ e.l3 ≤ f.length) := by
  unfold parseL2
  simp only [ETH_HLEN, VLAN_HLEN, Nat.reduceAdd, Nat.reduceMul]
  apply Ok.ite <;> intro h14
  · exact Ok.pure (fun e he => by cases he)
  apply Ok.bind (ld16_Ok (by omega)); intro proto0 _
  apply Ok.ite <;> intro _
  · apply Ok.ite <;> intro h18
    · exact Ok.pure (fun e he => by cases he)
    apply Ok.bind (ld16_Ok (by omega)); intro tci _
    apply Ok.bind (ld16_Ok (by omega)); intro proto1 _
    apply Ok.ite <;> intro _
    · apply Ok.ite <;> intro h22
      · exact Ok.pure (fun e he => by cases he)
      apply Ok.bind (ld16_Ok (by omega)); intro tci2 _
      apply Ok.bind (ld16_Ok (by omega)); intro proto2 _
      apply Ok.pure; intro e he; cases he; simp; omega
    · apply Ok.pure; intro e he; cases he; simp; omega
  · apply Ok.pure; intro e he; cases he; simp; omega

theorem low_nibble_five {b : UInt8} (h : ¬ ((b &&& 0x0F) != 5) = true) : (b &&& 0x0F).toNat * 4 = 20 := by
  have : (b &&& 0x0F) = 5 := by simpa using h
  rw [this]; rfl

theorem parseL3_Ok (f : Frame) (e : L2) (hl3 : e.l3 = 14 + e.vlanOff)
    (hv : e.vlanOff = 0 ∨ e.vlanOff = 4 ∨ e.vlanOff = 8) :
    Ok (parseL3 f e) (fun r => ∀ p, r = some p → p.WF f) := by
  unfold parseL3
  simp only [IPHDR, UDPHDR, DHCP_FIXED]
  apply Ok.ite <;> intro _
  · exact Ok.pure (fun e he => by cases he)
  apply Ok.ite <;> intro h20
  · exact Ok.pure (fun e he => by cases he)
  apply Ok.bind (ld8_Ok (by omega)); intro ipProto _
  apply Ok.ite <;> intro _
  · exact Ok.pure (fun e he => by cases he)
  apply Ok.bind (ld8_Ok (by omega)); intro b0 _
  apply Ok.ite <;> intro hihl
  · exact Ok.pure (fun e he => by cases he)
  have h5 := low_nibble_five hihl
  generalize (b0 &&& 0x0F).toNat = n at h5 ⊢
  apply Ok.ite <;> intro hudp
  · exact Ok.pure (fun e he => by cases he)
  apply Ok.bind (ld16_Ok (by omega)); intro dport _
  apply Ok.ite <;> intro _
  · exact Ok.pure (fun e he => by cases he)
  apply Ok.ite <;> intro hd
  · exact Ok.pure (fun e he => by cases he)
  apply Ok.pure; intro p hp; cases hp
  constructor <;> simp <;> omega

theorem parseHeaders_Ok (f : Frame) : Ok (parseHeaders f) (fun r => ∀ p, r = some p → p.WF f) := by
  unfold parseHeaders
  apply Ok.bind (parseL2_Ok f); intro r hr
  cases r with
  | none => exact Ok.pure (fun e he => by cases he)
  | some e =>
    obtain ⟨h1, h2, _⟩ := hr e rfl
    exact parseL3_Ok f e h1 h2

theorem msgTypeAt_Ok {f : Frame} {o i : Nat} (h : o + i + 3 ≤ f.length) :
    Ok (msgTypeAt f o i) (fun _ => True) := by
  unfold msgTypeAt
  apply Ok.bind (ld8_Ok (by omega)); intro c _
  apply Ok.bind (ld8_Ok (by omega)); intro l _
  apply Ok.ite <;> intro _
  · apply Ok.bind (ld8_Ok (by omega)); intro t _
    exact Ok.pure trivial
  · exact Ok.pure trivial

theorem msgTypeScan_Ok {f : Frame} {o : Nat} (is : List Nat) (h : ∀ i ∈ is, o + i + 3 ≤ f.length) :
    Ok (msgTypeScan f o is) (fun _ => True) := by
  induction is with
  | nil => exact Ok.pure trivial
  | cons i rest ih =>
    unfold msgTypeScan
    apply Ok.bind (msgTypeAt_Ok (h i (by simp))); intro r _
    cases r with
    | some t => exact Ok.pure trivial
    | none => exact ih (fun j hj => h j (by simp [hj]))

theorem getMsgType_Ok (f : Frame) (dhcp : Nat) : Ok (getMsgType f dhcp) (fun _ => True) := by
  unfold getMsgType
  simp only [DHCP_FIXED]
  apply Ok.ite <;> intro h
  · exact Ok.pure trivial
  · apply msgTypeScan_Ok
    intro i hi
    simp at hi
    omega

theorem cidKeyFrom_Ok {f : Frame} {off n : Nat} (h : off + n ≤ f.length) :
    Ok (cidKeyFrom f off n) (fun _ => True) := by
  unfold cidKeyFrom
  apply Ok.bind (ldBytes_Ok h); intro bs _
  exact Ok.pure trivial

theorem cidAt_Ok {f : Frame} {sub : Nat} (h : sub + 2 ≤ f.length) : Ok (cidAt f sub) (fun _ => True) := by
  unfold cidAt
  apply Ok.bind (ld8_Ok (by omega)); intro t _
  apply Ok.ite <;> intro _
  · exact Ok.pure trivial
  apply Ok.bind (ld8_Ok (by omega)); intro cidLen _
  apply Ok.ite <;> intro hc
  · simp only [Bool.and_eq_true, decide_eq_true_eq] at hc
    apply Ok.bind (cidKeyFrom_Ok (by omega)); intro k _
    exact Ok.pure trivial
  · exact Ok.pure trivial

theorem cidScan_Ok {f : Frame} {o : Nat} (n pos : Nat) (h : o + pos + n + 3 ≤ f.length) :
    Ok (cidScan f o n pos) (fun _ => True) := by
  induction n generalizing pos with
  | zero => exact Ok.pure trivial
  | succ n ih =>
    unfold cidScan
    apply Ok.bind (ld8_Ok (by omega)); intro c _
    apply Ok.ite <;> intro _
    · apply Ok.bind (ld8_Ok (by omega)); intro l _
      apply Ok.ite <;> intro _
      · apply Ok.bind (cidAt_Ok (by omega)); intro r _
        cases r with
        | some k => exact Ok.pure trivial
        | none => exact ih (pos + 1) (by omega)
      · exact ih (pos + 1) (by omega)
    · exact ih (pos + 1) (by omega)

theorem extractCid_Ok (f : Frame) (dhcp : Nat) : Ok (extractCid f dhcp) (fun _ => True) := by
  unfold extractCid
  simp only [DHCP_FIXED]
  apply Ok.ite <;> intro h
  · exact Ok.pure trivial
  apply Ok.bind (ld8_Ok (by omega)); intro c _
  apply Ok.ite <;> intro _
  · apply Ok.bind (ld8_Ok (by omega)); intro l _
    apply Ok.ite <;> intro _
    · apply Ok.bind (cidAt_Ok (by omega)); intro r _
      cases r with
      | some k => exact Ok.pure trivial
      | none => exact cidScan_Ok 8 12 (by omega)
    · exact cidScan_Ok 8 12 (by omega)
  · exact cidScan_Ok 8 12 (by omega)

theorem macKey_Ok {f : Frame} {dhcp : Nat} (h : dhcp + 240 ≤ f.length) : Ok (macKey f dhcp) (fun _ => True) := by
  unfold macKey
  apply Ok.bind (ldBytes_Ok (by omega)); intro m _
  exact Ok.pure trivial

theorem lookupAssignment_Ok {f : Frame} (m : Maps) {p : Pkt} (h : p.dhcpOff + 240 ≤ f.length) :
    Ok (lookupAssignment f m p) (fun _ => True) := by
  unfold lookupAssignment
  split
  · exact Ok.pure trivial
  · apply Ok.bind (extractCid_Ok f p.dhcpOff); intro k _
    split
    · exact Ok.pure trivial
    · apply Ok.bind (macKey_Ok h); intro mk _
      exact Ok.pure trivial

/-! ### the writing phases: closed forms (`…P`, nested `splice`) and safety -/

/-- closed form of `rewriteHeaders` -/
def rewriteHeadersP (f : Frame) (p : Pkt) (cfg : Bytes) (serverIp giaddr : UInt32) : Frame :=
  let dst := if giaddr != 0 then bytesAt f 6 6 else l2Dest f p
  let dip : UInt32 := if giaddr != 0 then giaddr else IP_BCAST
  let dport : UInt16 := if giaddr != 0 then 67 else 68
  let f := splice f 0 dst
  let f := splice f 6 (rdBytes cfg 0 6)
  let f := splice f (p.ipOff + 12) (leBytes 4 serverIp.toNat)
  let f := splice f (p.ipOff + 16) (leBytes 4 dip.toNat)
  let f := splice f (p.ipOff + 8) [64]
  let f := splice f (p.ipOff + 10) (leBytes 2 (0 : UInt16).toNat)
  let f := splice f p.udpOff (leBytes 2 (htons 67).toNat)
  let f := splice f (p.udpOff + 2) (leBytes 2 (htons dport).toNat)
  splice f (p.udpOff + 6) (leBytes 2 (0 : UInt16).toNat)

@[simp] theorem rdBytes_length (v : List UInt8) (off n : Nat) : (rdBytes v off n).length = n := by
  simp [rdBytes, List.length_take, List.length_drop]; omega

theorem rewriteHeaders_Ok {f : Frame} {p : Pkt} (wf : p.WF f) (cfg : Bytes) (serverIp giaddr : UInt32) :
    Ok (rewriteHeaders f p cfg serverIp giaddr)
      (fun f' => f' = rewriteHeadersP f p cfg serverIp giaddr ∧ f'.length = f.length) := by
  obtain ⟨hv, hip, hudp, hdhcp, hroom⟩ := wf
  unfold rewriteHeaders rewriteHeadersP
  by_cases hg : (giaddr != 0) = true
  · simp only [hg, if_true]
    apply Ok.bind (ldBytes_Ok (by omega)); intro src hsrc; subst hsrc
    apply Ok.bind (stBytes_Ok (by simp; omega)); intro f1 h1; obtain ⟨e1, l1⟩ := h1
    apply Ok.bind (stBytes_Ok (by simp; omega)); intro f2 h2; obtain ⟨e2, l2⟩ := h2
    apply Ok.bind (st32_Ok (by omega)); intro f3 h3; obtain ⟨e3, l3⟩ := h3
    apply Ok.bind (st32_Ok (by omega)); intro f4 h4; obtain ⟨e4, l4⟩ := h4
    apply Ok.bind (st8_Ok (by omega)); intro f5 h5; obtain ⟨e5, l5⟩ := h5
    apply Ok.bind (st16_Ok (by omega)); intro f6 h6; obtain ⟨e6, l6⟩ := h6
    apply Ok.bind (st16_Ok (by omega)); intro f7 h7; obtain ⟨e7, l7⟩ := h7
    apply Ok.bind (st16_Ok (by omega)); intro f8 h8; obtain ⟨e8, l8⟩ := h8
    apply Ok.mono (st16_Ok (by omega)); intro f9 h9; obtain ⟨e9, l9⟩ := h9
    exact ⟨by rw [e9, e8, e7, e6, e5, e4, e3, e2, e1], by omega⟩
  · simp only [hg, if_false, Bool.false_eq_true]
    apply Ok.bind (ld16_Ok (by omega)); intro flags hflags; subst hflags
    apply Ok.bind (ld32_Ok (by omega)); intro ciaddr hci; subst hci
    apply Ok.bind (ldBytes_Ok (by omega)); intro ch hch; subst hch
    have hdl : (l2Dest f p).length = 6 := by
      unfold l2Dest; simp only []; split <;> simp <;> omega
    apply Ok.bind (stBytes_Ok (bs := l2Dest f p) (by omega)); intro f1 h1; obtain ⟨e1, l1⟩ := h1
    apply Ok.bind (stBytes_Ok (by simp; omega)); intro f2 h2; obtain ⟨e2, l2⟩ := h2
    apply Ok.bind (st32_Ok (by omega)); intro f3 h3; obtain ⟨e3, l3⟩ := h3
    apply Ok.bind (st32_Ok (by omega)); intro f4 h4; obtain ⟨e4, l4⟩ := h4
    apply Ok.bind (st8_Ok (by omega)); intro f5 h5; obtain ⟨e5, l5⟩ := h5
    apply Ok.bind (st16_Ok (by omega)); intro f6 h6; obtain ⟨e6, l6⟩ := h6
    apply Ok.bind (st16_Ok (by omega)); intro f7 h7; obtain ⟨e7, l7⟩ := h7
    apply Ok.bind (st16_Ok (by omega)); intro f8 h8; obtain ⟨e8, l8⟩ := h8
    apply Ok.mono (st16_Ok (by omega)); intro f9 h9; obtain ⟨e9, l9⟩ := h9
    exact ⟨by rw [e9, e8, e7, e6, e5, e4, e3, e2, e1], by omega⟩

/-- closed form of `rewriteBootp` -/
def rewriteBootpP (f : Frame) (p : Pkt) (yiaddr serverIp : UInt32) : Frame :=
  let f := splice f p.dhcpOff [2]
  let f := splice f (p.dhcpOff + 3) [0]
  let f := splice f (p.dhcpOff + 16) (leBytes 4 yiaddr.toNat)
  let f := splice f (p.dhcpOff + 20) (leBytes 4 serverIp.toNat)
  let f := splice f (p.dhcpOff + 44) (List.replicate 64 0)
  splice f (p.dhcpOff + 108) (List.replicate 128 0)

theorem rewriteBootp_Ok {f : Frame} {p : Pkt} (hroom : p.dhcpOff + 240 ≤ f.length) (yiaddr serverIp : UInt32) :
    Ok (rewriteBootp f p yiaddr serverIp)
      (fun f' => f' = rewriteBootpP f p yiaddr serverIp ∧ f'.length = f.length) := by
  unfold rewriteBootp rewriteBootpP
  apply Ok.bind (st8_Ok (by omega)); intro f1 h1; obtain ⟨e1, l1⟩ := h1
  apply Ok.bind (st8_Ok (by omega)); intro f2 h2; obtain ⟨e2, l2⟩ := h2
  apply Ok.bind (st32_Ok (by omega)); intro f3 h3; obtain ⟨e3, l3⟩ := h3
  apply Ok.bind (st32_Ok (by omega)); intro f4 h4; obtain ⟨e4, l4⟩ := h4
  apply Ok.bind (memset_Ok (by omega)); intro f5 h5; obtain ⟨e5, l5⟩ := h5
  apply Ok.mono (memset_Ok (by omega)); intro f6 h6; obtain ⟨e6, l6⟩ := h6
  exact ⟨by rw [e6, e5, e4, e3, e2, e1], by omega⟩

/-- two adjacent stores are one store of the concatenation -/
theorem splice_splice_adjacent {f : Frame} {off : Nat} {a b : List UInt8}
    (h : off + a.length + b.length ≤ f.length) :
    splice (splice f off a) (off + a.length) b = splice f off (a ++ b) := by
  have ha : off + a.length ≤ f.length := by omega
  have hl : (splice f off a).length = f.length := splice_length ha
  apply List.ext_getElem?
  intro i
  rw [getElem?_splice (by rw [hl]; omega), getElem?_splice ha,
      getElem?_splice (by simp only [List.length_append]; omega)]
  simp only [List.length_append]
  by_cases c1 : i < off
  · have : i < off + a.length := by omega
    simp [c1, this]
  · by_cases c2 : i < off + a.length
    · have : i < off + (a.length + b.length) := by omega
      simp only [c1, c2, this, if_true, if_false]
      rw [List.getElem?_append_left (by omega)]
    · by_cases c3 : i < off + a.length + b.length
      · have : i < off + (a.length + b.length) := by omega
        simp only [c1, c2, c3, this, if_true, if_false]
        rw [List.getElem?_append_right (by omega)]
        congr 1; omega
      · have : ¬ i < off + (a.length + b.length) := by omega
        simp only [c1, c2, c3, this, if_false]

/-- `[code][4][v as stored]` -/
def opt4 (code : UInt8) (v : UInt32) : List UInt8 := [code, 4] ++ leBytes 4 v.toNat

@[simp] theorem opt4_length (code : UInt8) (v : UInt32) : (opt4 code v).length = 6 := by simp [opt4]

/-- "the options written so far are `acc`": the frame is the original with `acc` at `opt`, the offset is `|acc|` -/
def Built (f : Frame) (opt : Nat) (acc : List UInt8) (r : Option (Frame × Nat)) : Prop :=
  r = some (splice f opt acc, acc.length)

theorem putOpt4_Built {f : Frame} {opt : Nat} {acc : List UInt8} (code : UInt8) (v : UInt32)
    (h : opt + acc.length + 6 ≤ f.length) :
    Ok (putOpt4 (splice f opt acc) opt acc.length code v) (Built f opt (acc ++ opt4 code v)) := by
  have hl : (splice f opt acc).length = f.length := splice_length (by omega)
  unfold putOpt4
  apply Ok.ite <;> intro hc
  · omega
  apply Ok.bind (st8_Ok (by omega)); intro f1 h1; obtain ⟨e1, l1⟩ := h1
  apply Ok.bind (st8_Ok (by omega)); intro f2 h2; obtain ⟨e2, l2⟩ := h2
  apply Ok.bind (st32_Ok (by omega)); intro f3 h3; obtain ⟨e3, l3⟩ := h3
  apply Ok.pure
  unfold Built
  have m1 : f1 = splice f opt (acc ++ [code]) := by
    rw [e1]; exact splice_splice_adjacent (by simp; omega)
  have m2 : f2 = splice f opt (acc ++ [code] ++ [4]) := by
    rw [e2, m1]
    have := splice_splice_adjacent (f := f) (off := opt) (a := acc ++ [code]) (b := [4]) (by simp; omega)
    simpa [Nat.add_assoc] using this
  have m3 : f3 = splice f opt (acc ++ [code] ++ [4] ++ leBytes 4 v.toNat) := by
    rw [e3, m2]
    have := splice_splice_adjacent (f := f) (off := opt) (a := acc ++ [code] ++ [4]) (b := leBytes 4 v.toNat) (by simp; omega)
    simpa [Nat.add_assoc] using this
  rw [m3]
  simp [opt4, List.append_assoc]

/-- the option 6 bytes `build_dhcp_options` writes -/
def dnsBytes (dns1 dns2 : UInt32) : List UInt8 :=
  if dns1 != 0 then
    (if dns2 != 0 then [6, 8] ++ leBytes 4 dns1.toNat ++ leBytes 4 dns2.toNat else [6, 4] ++ leBytes 4 dns1.toNat)
  else []

theorem dnsBytes_length_le (d1 d2 : UInt32) : (dnsBytes d1 d2).length ≤ 10 := by
  unfold dnsBytes
  split
  · split <;> simp
  · simp

theorem putDns_Built {f : Frame} {opt : Nat} {acc : List UInt8} (d1 d2 : UInt32)
    (h : opt + acc.length + 10 ≤ f.length) :
    Ok (putDns (splice f opt acc) opt acc.length d1 d2) (Built f opt (acc ++ dnsBytes d1 d2)) := by
  have hl : (splice f opt acc).length = f.length := splice_length (by omega)
  unfold putDns dnsBytes
  by_cases h1 : (d1 != 0) = true
  · simp only [h1, if_true]
    by_cases h2 : (d2 != 0) = true
    · simp only [h2, if_true]
      apply Ok.ite <;> intro hc
      · omega
      apply Ok.bind (st8_Ok (by omega)); intro f1 g1; obtain ⟨e1, l1⟩ := g1
      apply Ok.bind (st8_Ok (by omega)); intro f2 g2; obtain ⟨e2, l2⟩ := g2
      apply Ok.bind (st32_Ok (by omega)); intro f3 g3; obtain ⟨e3, l3⟩ := g3
      apply Ok.bind (st32_Ok (by omega)); intro f4 g4; obtain ⟨e4, l4⟩ := g4
      apply Ok.pure
      unfold Built
      have m1 : f1 = splice f opt (acc ++ [6]) := by
        rw [e1]; exact splice_splice_adjacent (by simp; omega)
      have m2 : f2 = splice f opt (acc ++ [6] ++ [UInt8.ofNat 8]) := by
        rw [e2, m1]
        have := splice_splice_adjacent (f := f) (off := opt) (a := acc ++ [6]) (b := [UInt8.ofNat 8]) (by simp; omega)
        simpa [Nat.add_assoc] using this
      have m3 : f3 = splice f opt (acc ++ [6] ++ [UInt8.ofNat 8] ++ leBytes 4 d1.toNat) := by
        rw [e3, m2]
        have := splice_splice_adjacent (f := f) (off := opt) (a := acc ++ [6] ++ [UInt8.ofNat 8]) (b := leBytes 4 d1.toNat) (by simp; omega)
        simpa [Nat.add_assoc] using this
      have m4 : f4 = splice f opt (acc ++ [6] ++ [UInt8.ofNat 8] ++ leBytes 4 d1.toNat ++ leBytes 4 d2.toNat) := by
        rw [e4, m3]
        have := splice_splice_adjacent (f := f) (off := opt) (a := acc ++ [6] ++ [UInt8.ofNat 8] ++ leBytes 4 d1.toNat)
          (b := leBytes 4 d2.toNat) (by simp; omega)
        simpa [Nat.add_assoc] using this
      rw [m4]
      simp [List.append_assoc]
    · simp only [h2, if_false, Bool.false_eq_true]
      apply Ok.ite <;> intro hc
      · omega
      apply Ok.bind (st8_Ok (by omega)); intro f1 g1; obtain ⟨e1, l1⟩ := g1
      apply Ok.bind (st8_Ok (by omega)); intro f2 g2; obtain ⟨e2, l2⟩ := g2
      apply Ok.bind (st32_Ok (by omega)); intro f3 g3; obtain ⟨e3, l3⟩ := g3
      apply Ok.pure
      unfold Built
      have m1 : f1 = splice f opt (acc ++ [6]) := by
        rw [e1]; exact splice_splice_adjacent (by simp; omega)
      have m2 : f2 = splice f opt (acc ++ [6] ++ [UInt8.ofNat 4]) := by
        rw [e2, m1]
        have := splice_splice_adjacent (f := f) (off := opt) (a := acc ++ [6]) (b := [UInt8.ofNat 4]) (by simp; omega)
        simpa [Nat.add_assoc] using this
      have m3 : f3 = splice f opt (acc ++ [6] ++ [UInt8.ofNat 4] ++ leBytes 4 d1.toNat) := by
        rw [e3, m2]
        have := splice_splice_adjacent (f := f) (off := opt) (a := acc ++ [6] ++ [UInt8.ofNat 4]) (b := leBytes 4 d1.toNat) (by simp; omega)
        simpa [Nat.add_assoc] using this
      rw [m3]
      simp [List.append_assoc]
  · simp only [h1, if_false, Bool.false_eq_true]
    apply Ok.pure
    simp [Built]

/-- the complete options area `build_dhcp_options` writes -/
def optsBytes (msgType : UInt8) (pool : Bytes) (serverIp : UInt32) : List UInt8 :=
  [53, 1, msgType] ++ opt4 54 serverIp ++ opt4 51 (htonl (rd32 pool 20)) ++ opt4 1 (prefixToMask (rd8 pool 4))
    ++ opt4 3 (rd32 pool 8) ++ dnsBytes (rd32 pool 12) (rd32 pool 16)
    ++ opt4 58 (htonl (rd32 pool 20 / 2)) ++ opt4 59 (htonl ((rd32 pool 20 * 7) / 8)) ++ [255]

theorem optsBytes_length (t : UInt8) (pool : Bytes) (sip : UInt32) :
    40 ≤ (optsBytes t pool sip).length ∧ (optsBytes t pool sip).length ≤ 50 := by
  have := dnsBytes_length_le (rd32 pool 12) (rd32 pool 16)
  simp [optsBytes]
  omega

theorem andThen_Built {f : Frame} {opt : Nat} {acc : List UInt8} {r : M (Option (Frame × Nat))}
    {k : Frame → Nat → M (Option (Frame × Nat))} {P : Option (Frame × Nat) → Prop}
    (hr : Ok r (Built f opt acc)) (hk : Ok (k (splice f opt acc) acc.length) P) : Ok (andThen r k) P := by
  unfold andThen
  apply Ok.bind hr
  intro x hx
  unfold Built at hx
  subst hx
  exact hk

theorem putEnd_Built {f : Frame} {opt : Nat} {acc : List UInt8} (h : opt + acc.length + 1 ≤ f.length) :
    Ok (if opt + acc.length + 1 > (splice f opt acc).length then Pure.pure none else do
          let f ← st8 (splice f opt acc) (opt + acc.length) 255
          Pure.pure (some (f, acc.length + 1))) (Built f opt (acc ++ [255])) := by
  have hl : (splice f opt acc).length = f.length := splice_length (by omega)
  apply Ok.ite <;> intro hc
  · omega
  apply Ok.bind (st8_Ok (by omega)); intro f1 g1; obtain ⟨e1, l1⟩ := g1
  apply Ok.pure
  unfold Built
  rw [e1, splice_splice_adjacent (by simp; omega)]
  simp

theorem buildOptions_Ok {f : Frame} {opt : Nat} (t : UInt8) (pool : Bytes) (sip : UInt32)
    (h : opt + 64 ≤ f.length) :
    Ok (buildOptions f opt t pool sip) (Built f opt (optsBytes t pool sip)) := by
  have hd := dnsBytes_length_le (rd32 pool 12) (rd32 pool 16)
  unfold buildOptions optsBytes
  simp only []
  apply Ok.ite <;> intro hc
  · omega
  have first : Ok (do
      let f ← st8 f opt 53
      let f ← st8 f (opt + 1) 1
      let f ← st8 f (opt + 2) t
      pure (some (f, 3))) (Built f opt [53, 1, t]) := by
    apply Ok.bind (st8_Ok (by omega)); intro f1 g1; obtain ⟨e1, l1⟩ := g1
    apply Ok.bind (st8_Ok (by omega)); intro f2 g2; obtain ⟨e2, l2⟩ := g2
    apply Ok.bind (st8_Ok (by omega)); intro f3 g3; obtain ⟨e3, l3⟩ := g3
    apply Ok.pure
    unfold Built
    have m2 : f2 = splice f opt ([53] ++ [1]) := by
      rw [e2, e1]; exact splice_splice_adjacent (a := [53]) (b := [1]) (by simp; omega)
    have m3 : f3 = splice f opt ([53] ++ [1] ++ [t]) := by
      rw [e3, m2]
      exact splice_splice_adjacent (a := [53] ++ [1]) (b := [t]) (by simp; omega)
    rw [m3]; rfl
  apply andThen_Built first
  apply andThen_Built (putOpt4_Built _ _ (by simp; omega))
  apply andThen_Built (putOpt4_Built _ _ (by simp; omega))
  apply andThen_Built (putOpt4_Built _ _ (by simp; omega))
  apply andThen_Built (putOpt4_Built _ _ (by simp; omega))
  apply andThen_Built (putDns_Built _ _ (by simp; omega))
  apply andThen_Built (putOpt4_Built _ _ (by simp; omega))
  apply andThen_Built (putOpt4_Built _ _ (by simp; omega))
  exact putEnd_Built (by simp; omega)

theorem ipChecksum_Ok {f : Frame} {ip : Nat} (h : ip + 20 ≤ f.length) :
    Ok (ipChecksum f ip) (fun ck => ck = UInt16.ofNat (foldCsum (sumWords (bytesAt f ip 20)))) := by
  unfold ipChecksum
  apply Ok.bind (ldBytes_Ok h); intro hdr hh; subst hh
  exact Ok.pure rfl

/-- the `ip->tot_len` the program computes for `optLen` option bytes -/
def ipLenOf (optLen : Nat) : UInt16 := 20 + (8 + UInt16.ofNat (DHCP_FIXED + optLen))
/-- the `udp->len` the program computes -/
def udpLenOf (optLen : Nat) : UInt16 := 8 + UInt16.ofNat (DHCP_FIXED + optLen)

/-- closed form of `finish` (lengths, checksum, tail cut) -/
def finishP (f : Frame) (p : Pkt) (optLen : Nat) : Frame :=
  let f1 := splice f (p.ipOff + 2) (leBytes 2 (htons (ipLenOf optLen)).toNat)
  let f2 := splice f1 (p.udpOff + 4) (leBytes 2 (htons (udpLenOf optLen)).toNat)
  let f3 := splice f2 (p.ipOff + 10) (leBytes 2 (UInt16.ofNat (foldCsum (sumWords (bytesAt f2 p.ipOff 20)))).toNat)
  f3.take (14 + p.vlanOff + 268 + optLen)

theorem finish_Ok {f : Frame} {p : Pkt} {optLen : Nat} (wf : p.WF f) (ho : optLen ≤ 50)
    (hroom : p.dhcpOff + 240 + 64 ≤ f.length) (hlen : f.length < 65536) :
    Ok (finish f p optLen) (fun r => r = (XDP_TX, finishP f p optLen)) := by
  obtain ⟨hv, hip, hudp, hdhcp, _⟩ := wf
  unfold finish finishP ipLenOf udpLenOf
  simp only [ETH_HLEN, DHCP_FIXED]
  apply Ok.bind (st16_Ok (by omega)); intro f1 g1; obtain ⟨e1, l1⟩ := g1
  apply Ok.bind (st16_Ok (by omega)); intro f2 g2; obtain ⟨e2, l2⟩ := g2
  apply Ok.bind (ipChecksum_Ok (by omega)); intro ck hck
  apply Ok.bind (st16_Ok (by omega)); intro f3 g3; obtain ⟨e3, l3⟩ := g3
  have htot : (UInt16.ofNat (14 + p.vlanOff) + (20 + (8 + UInt16.ofNat (240 + optLen)))).toNat
      = 14 + p.vlanOff + 268 + optLen := by
    simp only [UInt16.toNat_add, UInt16.toNat_ofNat', UInt16.toNat_ofNat]
    omega
  have horig : (UInt16.ofNat f3.length).toNat = f.length := by
    simp only [UInt16.toNat_ofNat']
    omega
  simp only [htot, horig]
  have hne : (((14 + p.vlanOff + 268 + optLen : Nat) : Int) - (f.length : Int) != 0) = true := by
    simp only [bne_iff_ne, ne_eq]
    omega
  simp only [hne, if_true]
  have hadj : adjustTail f3 (((14 + p.vlanOff + 268 + optLen : Nat) : Int) - (f.length : Int))
      = some (f3.take (14 + p.vlanOff + 268 + optLen)) := by
    unfold adjustTail tailRoom
    simp only []
    have c1 : ¬ ((f3.length : Int) + (((14 + p.vlanOff + 268 + optLen : Nat) : Int) - (f.length : Int)) < 14) := by omega
    have c2 : ¬ ((f3.length : Int) + (((14 + p.vlanOff + 268 + optLen : Nat) : Int) - (f.length : Int)) > ((4096 - 256 - 320 : Nat) : Int) ∧
        (((14 + p.vlanOff + 268 + optLen : Nat) : Int) - (f.length : Int)) > 0) := by omega
    have c3 : (((14 + p.vlanOff + 268 + optLen : Nat) : Int) - (f.length : Int)) ≤ 0 := by omega
    simp only [c1, c2, c3, if_true, if_false]
    congr 2
    omega
  simp only [hadj]
  apply Ok.pure
  rw [e3, hck, e2, e1]

theorem Pkt.WF.of_length {p : Pkt} {f g : Frame} (wf : p.WF f) (h : g.length = f.length) : p.WF g :=
  ⟨wf.vlan, wf.ip, wf.udp, wf.dhcp, by rw [h]; exact wf.room⟩

/-- closed form of the transmitted frame -/
def replyP (f : Frame) (p : Pkt) (msgType : UInt8) (a pool cfg : Bytes) : Frame :=
  let giaddr := UInt32.ofNat (leNat (bytesAt f (p.dhcpOff + 24) 4))
  let sip := serverIpOf cfg pool
  let f1 := rewriteHeadersP f p cfg sip giaddr
  let f2 := rewriteBootpP f1 p (rd32 a 4) sip
  let opts := optsBytes (replyTypeOf msgType) pool sip
  let f3 := splice f2 (p.dhcpOff + 240) opts
  finishP f3 p opts.length

theorem reply_Ok {f : Frame} {p : Pkt} (msgType : UInt8) (a pool cfg : Bytes) (wf : p.WF f)
    (hroom : p.dhcpOff + 240 + 64 ≤ f.length) (hlen : f.length < 65536) :
    Ok (reply f p msgType a pool cfg) (fun r => r = (XDP_TX, replyP f p msgType a pool cfg)) := by
  unfold reply replyP serverIpOf replyTypeOf
  simp only [DHCP_FIXED]
  apply Ok.bind (ld32_Ok (by have := wf.room; omega)); intro giaddr hg; subst hg
  apply Ok.bind (rewriteHeaders_Ok wf cfg _ _); intro f1 g1; obtain ⟨e1, l1⟩ := g1
  have wf1 := wf.of_length l1
  apply Ok.bind (rewriteBootp_Ok wf1.room _ _); intro f2 g2; obtain ⟨e2, l2⟩ := g2
  have wf2 := wf1.of_length l2
  apply Ok.bind (buildOptions_Ok _ pool _ (by omega)); intro r hr
  unfold Built at hr
  subst hr
  simp only []
  have hol := optsBytes_length (if (msgType == DHCP_DISCOVER) = true then DHCP_OFFER else DHCP_ACK) pool
    (if (rd32 cfg 8 != 0) = true then rd32 cfg 8 else rd32 pool 8)
  have l3 : (splice f2 (p.dhcpOff + 240) (optsBytes (if (msgType == DHCP_DISCOVER) = true then DHCP_OFFER else DHCP_ACK) pool
    (if (rd32 cfg 8 != 0) = true then rd32 cfg 8 else rd32 pool 8))).length = f2.length := splice_length (by omega)
  have wf3 := wf2.of_length l3
  apply Ok.mono (finish_Ok wf3 hol.2 (by omega) (by omega))
  intro r hr
  rw [hr, e2, e1]

theorem finish_noFault {f : Frame} {p : Pkt} {optLen : Nat} (wf : p.WF f) :
    Ok (finish f p optLen) (fun r => r.1 = XDP_PASS ∨ r.1 = XDP_TX) := by
  obtain ⟨hv, hip, hudp, hdhcp, hr⟩ := wf
  unfold finish
  simp only []
  apply Ok.bind (st16_Ok (by omega)); intro f1 g1; obtain ⟨e1, l1⟩ := g1
  apply Ok.bind (st16_Ok (by omega)); intro f2 g2; obtain ⟨e2, l2⟩ := g2
  apply Ok.bind (ipChecksum_Ok (by omega)); intro ck hck
  apply Ok.bind (st16_Ok (by omega)); intro f3 g3; obtain ⟨e3, l3⟩ := g3
  apply Ok.ite <;> intro _
  · split
    · exact Ok.pure (Or.inl rfl)
    · exact Ok.pure (Or.inr rfl)
  · exact Ok.pure (Or.inr rfl)

theorem reply_noFault {f : Frame} {p : Pkt} (msgType : UInt8) (a pool cfg : Bytes) (wf : p.WF f)
    (hroom : p.dhcpOff + 240 + 64 ≤ f.length) :
    Ok (reply f p msgType a pool cfg) (fun r => r.1 = XDP_PASS ∨ r.1 = XDP_TX) := by
  unfold reply
  simp only [DHCP_FIXED]
  apply Ok.bind (ld32_Ok (by have := wf.room; omega)); intro giaddr hg
  apply Ok.bind (rewriteHeaders_Ok wf cfg _ _); intro f1 g1; obtain ⟨e1, l1⟩ := g1
  have wf1 := wf.of_length l1
  apply Ok.bind (rewriteBootp_Ok wf1.room _ _); intro f2 g2; obtain ⟨e2, l2⟩ := g2
  have wf2 := wf1.of_length l2
  apply Ok.bind (buildOptions_Ok _ pool _ (by omega)); intro r hr
  unfold Built at hr
  subst hr
  simp only []
  have hol := optsBytes_length (if (msgType == DHCP_DISCOVER) = true then DHCP_OFFER else DHCP_ACK) pool
    (if (rd32 cfg 8 != 0) = true then rd32 cfg 8 else rd32 pool 8)
  have l3 : (splice f2 (p.dhcpOff + 240) (optsBytes (if (msgType == DHCP_DISCOVER) = true then DHCP_OFFER else DHCP_ACK) pool
    (if (rd32 cfg 8 != 0) = true then rd32 cfg 8 else rd32 pool 8))).length = f2.length := splice_length (by omega)
  exact finish_noFault (wf2.of_length l3)

/-- the conditions under which `dhcp_fastpath_prog` answers: a BOOTREQUEST with the DHCP magic, message type
    DISCOVER or REQUEST found at a fixed offset, a cache entry under one of the three keys whose lease has not
    expired against the kernel clock, its pool, room for 64 option bytes, and the server configuration -/
structure Hit (f : Frame) (m : Maps) (clk : UInt64) (p : Pkt) (t : UInt8) (a pool cfg : Bytes) : Prop where
  parsed : parseHeaders f = .ok (some p)
  wf : p.WF f
  isReq : ld8 f p.dhcpOff = .ok 1
  magic : ld32 f (p.dhcpOff + 236) = .ok (htonl 0x63825363)
  mt : getMsgType f p.dhcpOff = .ok t
  mtOk : t = DHCP_DISCOVER ∨ t = DHCP_REQUEST
  found : lookupAssignment f m p = .ok (some a)
  live : ¬ (clk / 1000000000 > rd64 a 13)
  pool : AMap.lookup m.pools (rdBytes a 0 4) = some pool
  room : p.dhcpOff + 240 + 64 ≤ f.length
  cfg : m.cfg = some cfg

theorem msgType_cases {t : UInt8} (h : ¬ ((t != DHCP_DISCOVER && t != DHCP_REQUEST) = true)) :
    t = DHCP_DISCOVER ∨ t = DHCP_REQUEST := by
  simp only [Bool.and_eq_true, bne_iff_ne, ne_eq, not_and, Decidable.not_not] at h
  by_cases h1 : t = DHCP_DISCOVER
  · exact Or.inl h1
  · exact Or.inr (h h1)

/-- the program, characterised: it never faults, and it either passes the frame on untouched or — exactly on a
    `Hit` — transmits the closed-form reply.  `post` says what is known when the frame is shorter than 64 KiB
    (the `__u16 orig_len` of the C text); without that bound only safety is claimed. -/
theorem run_Ok (f : Frame) (m : Maps) (clk : UInt64) :
    Ok (run f m clk) (fun r => (r.1 = XDP_PASS ∨ r.1 = XDP_TX) ∧ (f.length < 65536 →
      (r = (XDP_PASS, f) ∨ ∃ p t a pool cfg, Hit f m clk p t a pool cfg ∧ r = (XDP_TX, replyP f p t a pool cfg)))) := by
  unfold run
  apply Ok.bind_eq (parseHeaders_Ok f); intro r hpe hr
  cases r with
  | none => exact Ok.pure ⟨Or.inl rfl, fun _ => Or.inl rfl⟩
  | some p =>
    have wf := hr p rfl
    simp only []
    apply Ok.bind_eq (ld8_Ok (by have := wf.room; omega)); intro op hope _
    apply Ok.ite <;> intro hop
    · exact Ok.pure ⟨Or.inl rfl, fun _ => Or.inl rfl⟩
    apply Ok.bind_eq (ld32_Ok (by have := wf.room; omega)); intro magic hme _
    apply Ok.ite <;> intro hmagic
    · exact Ok.pure ⟨Or.inl rfl, fun _ => Or.inl rfl⟩
    apply Ok.bind_eq (getMsgType_Ok f p.dhcpOff); intro t hte _
    apply Ok.ite <;> intro ht
    · exact Ok.pure ⟨Or.inl rfl, fun _ => Or.inl rfl⟩
    apply Ok.bind_eq (lookupAssignment_Ok m wf.room); intro la hla _
    cases la with
    | none => exact Ok.pure ⟨Or.inl rfl, fun _ => Or.inl rfl⟩
    | some a =>
      simp only []
      apply Ok.ite <;> intro hexp
      · exact Ok.pure ⟨Or.inl rfl, fun _ => Or.inl rfl⟩
      split
      · exact Ok.pure ⟨Or.inl rfl, fun _ => Or.inl rfl⟩
      · rename_i pool hpool
        apply Ok.ite <;> intro hroom
        · exact Ok.pure ⟨Or.inl rfl, fun _ => Or.inl rfl⟩
        split
        · exact Ok.pure ⟨Or.inl rfl, fun _ => Or.inl rfl⟩
        · rename_i cfg hcfg
          simp only [DHCP_FIXED, MAX_REPLY_OPTS] at hroom
          have hop' : op = 1 := by simpa using hop
          have hmagic' : magic = htonl 0x63825363 := by simpa using hmagic
          by_cases hlen : f.length < 65536
          · apply Ok.mono (reply_Ok t a pool cfg wf (by omega) hlen)
            intro r hr
            refine ⟨Or.inr (by rw [hr]), fun _ => Or.inr ⟨p, t, a, pool, cfg, ?_, hr⟩⟩
            exact { parsed := hpe, wf := wf, isReq := by rw [hope, hop'], magic := by rw [hme, hmagic'],
                    mt := hte, mtOk := msgType_cases ht, found := hla, live := hexp, pool := hpool,
                    room := by omega, cfg := hcfg }
          · apply Ok.mono (reply_noFault t a pool cfg wf (by omega))
            intro r hv
            exact ⟨hv, fun h => absurd h hlen⟩
