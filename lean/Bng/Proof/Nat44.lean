import Bng.Model.Nat44
/-
  Helper lemmas for C07 (nat44 part): every checked packet access of the three nat44 programs is in
  bounds, frames keep their length, the frame is only written on paths on which the program is
  specified to act, and then only inside the NAT fields (`Conf f0 W x`: `x` does not fault and its
  result agrees with `f0` outside the write window `W`).  One "spec" lemma per phase
  (`egressParse_spec`, `snat_safe`, …) and one per entry
  point (`egress_spec`, `ingress_spec`, `hairpin_spec`); the property theorems of
  `Bng.Spec.C07Nat44` are corollaries.
-/
namespace Bng.Nat44
open Bng Bng.CNat

/-- `f` has the length of `f0` and agrees with it at every offset outside the write window `W` -/
def Agree (f0 : Frame) (W : Nat → Prop) (f : Frame) : Prop :=
  f.length = f0.length ∧ ∀ i, ¬ W i → f[i]? = f0[i]?

theorem Agree.refl (f0 : Frame) (W : Nat → Prop) : Agree f0 W f0 := ⟨rfl, fun _ _ => rfl⟩

theorem Agree.wr16 {f0 f : Frame} {W : Nat → Prop} {off : Nat} {v : UInt16} (ha : Agree f0 W f)
    (hw : W off ∧ W (off + 1)) : Agree f0 W (wr16 f off v) := by
  refine ⟨by simp [ha.1], fun i hi => ?_⟩
  have h0 : off ≠ i := fun h => hi (h ▸ hw.1)
  have h1 : off + 1 ≠ i := fun h => hi (h ▸ hw.2)
  simp only [CNat.wr16, List.getElem?_set_ne h1, List.getElem?_set_ne h0]
  exact ha.2 i hi

theorem Agree.wr32 {f0 f : Frame} {W : Nat → Prop} {off : Nat} {v : UInt32} (ha : Agree f0 W f)
    (hw : W off ∧ W (off + 1) ∧ W (off + 2) ∧ W (off + 3)) : Agree f0 W (wr32 f off v) := by
  refine ⟨by simp [ha.1], fun i hi => ?_⟩
  have h0 : off ≠ i := fun h => hi (h ▸ hw.1)
  have h1 : off + 1 ≠ i := fun h => hi (h ▸ hw.2.1)
  have h2 : off + 2 ≠ i := fun h => hi (h ▸ hw.2.2.1)
  have h3 : off + 3 ≠ i := fun h => hi (h ▸ hw.2.2.2)
  simp only [CNat.wr32, List.getElem?_set_ne h3, List.getElem?_set_ne h2, List.getElem?_set_ne h1,
    List.getElem?_set_ne h0]
  exact ha.2 i hi

/-- `x` does not fault and yields a frame of the length of `f0` that differs from `f0` at most inside `W` -/
def Conf (f0 : Frame) (W : Nat → Prop) (x : M Frame) : Prop := ∃ f', x = .ok f' ∧ Agree f0 W f'

theorem Conf.pure {f0 f : Frame} {W : Nat → Prop} (ha : Agree f0 W f) : Conf f0 W (pure f) := ⟨f, rfl, ha⟩

theorem Conf.bind {f0 : Frame} {W : Nat → Prop} {x : M Frame} {g : Frame → M Frame} (hx : Conf f0 W x)
    (hg : ∀ f', f'.length = f0.length → Agree f0 W f' → Conf f0 W (g f')) : Conf f0 W (x >>= g) := by
  obtain ⟨f', rfl, ha⟩ := hx
  exact hg f' ha.1 ha

theorem Conf.st16 {f0 f : Frame} {W : Nat → Prop} {off : Nat} {v : UInt16} (ha : Agree f0 W f)
    (h : off + 2 ≤ f0.length) (hw : W off ∧ W (off + 1)) : Conf f0 W (st16 f off v) :=
  ⟨wr16 f off v, st16_ok (by have := ha.1; omega), ha.wr16 hw⟩

theorem Conf.st32 {f0 f : Frame} {W : Nat → Prop} {off : Nat} {v : UInt32} (ha : Agree f0 W f)
    (h : off + 4 ≤ f0.length) (hw : W off ∧ W (off + 1) ∧ W (off + 2) ∧ W (off + 3)) :
    Conf f0 W (st32 f off v) :=
  ⟨wr32 f off v, st32_ok (by have := ha.1; omega), ha.wr32 hw⟩

theorem ld8_bind {β} {P : M β → Prop} {f : Frame} {off : Nat} {g : UInt8 → M β} (h : off + 1 ≤ f.length)
    (hp : P (g (rd8 f off))) : P (ld8 f off >>= g) := by
  rw [ld8_ok h]; exact hp

theorem ld16_bind {β} {P : M β → Prop} {f : Frame} {off : Nat} {g : UInt16 → M β} (h : off + 2 ≤ f.length)
    (hp : P (g (rd16 f off))) : P (ld16 f off >>= g) := by
  rw [ld16_ok h]; exact hp

theorem ld32_bind {β} {P : M β → Prop} {f : Frame} {off : Nat} {g : UInt32 → M β} (h : off + 4 ≤ f.length)
    (hp : P (g (rd32 f off))) : P (ld32 f off >>= g) := by
  rw [ld32_ok h]; exact hp

theorem updateCsum_conf {f0 f : Frame} {W : Nat → Prop} {off : Nat} {o nw : UInt32} (ha : Agree f0 W f)
    (h : off + 2 ≤ f0.length) (hw : W off ∧ W (off + 1)) : Conf f0 W (updateCsum f off o nw) := by
  unfold updateCsum
  exact ld16_bind (P := Conf f0 W) (by have := ha.1; omega) (Conf.st16 ha h hw)

theorem updateCsum16_conf {f0 f : Frame} {W : Nat → Prop} {off : Nat} {o nw : UInt16} (ha : Agree f0 W f)
    (h : off + 2 ≤ f0.length) (hw : W off ∧ W (off + 1)) : Conf f0 W (updateCsum16 f off o nw) := by
  unfold updateCsum16
  exact ld16_bind (P := Conf f0 W) (by have := ha.1; omega) (Conf.st16 ha h hw)

/-- the UDP checksum block shared by SNAT and DNAT -/
theorem udpCsum_conf {f0 f : Frame} {W : Nat → Prop} {off : Nat} {oip nip : UInt32} {op np : UInt16}
    (ha : Agree f0 W f) (h : off + 2 ≤ f0.length) (hw : W off ∧ W (off + 1)) :
    Conf f0 W (do
      let c ← ld16 f off
      if c != 0 then do
        let f ← updateCsum f off oip nip
        let f ← updateCsum16 f off op np
        let c ← ld16 f off
        if c == 0 then st16 f off 0xffff else pure f
      else pure f) := by
  refine ld16_bind (P := Conf f0 W) (by have := ha.1; omega) ?_
  split
  · refine Conf.bind (updateCsum_conf ha h hw) fun f1 _ a1 => ?_
    refine Conf.bind (updateCsum16_conf a1 h hw) fun f2 h2 a2 => ?_
    refine ld16_bind (P := Conf f0 W) (by omega) ?_
    split
    · exact Conf.st16 a2 h hw
    · exact Conf.pure a2
  · exact Conf.pure ha

/-- the bytes nat44_egress may write: IP checksum and source address (offsets 24…29) and the first 18
    bytes of the L4 header (ports / ICMP id and the TCP, UDP or ICMP checksum) -/
def snatW (l4 i : Nat) : Prop := (24 ≤ i ∧ i < 30) ∨ (l4 ≤ i ∧ i < l4 + 18)

/-- the bytes nat44_ingress may write: IP checksum (24, 25), destination address (30…33) and the first
    18 bytes of the L4 header -/
def dnatW (l4 i : Nat) : Prop := (24 ≤ i ∧ i < 26) ∨ (30 ≤ i ∧ i < 34) ∨ (l4 ≤ i ∧ i < l4 + 18)

/-- SNAT rewrite: no access outside the frame, length preserved, writes confined to `snatW` — for EVERY
    `l4`, translation and frame of at least 34 bytes (the L4 bounds are re-checked by the program itself) -/
theorem snat_safe (f : Frame) (l4 : Nat) (ip : UInt32) (port : UInt16) (h : IP_END ≤ f.length) :
    Conf f (snatW l4) (snat f f.length l4 ip port) := by
  unfold snat
  simp only [IP_END, OFF_SADDR, OFF_IPCSUM, OFF_PROTO] at *
  refine ld32_bind (P := Conf f (snatW l4)) (by omega) ?_
  refine Conf.bind (Conf.st32 (Agree.refl _ _) (by omega) (by simp only [snatW]; omega)) fun f1 h1 a1 => ?_
  refine Conf.bind (updateCsum_conf a1 (by omega) (by simp only [snatW]; omega)) fun f2 h2 a2 => ?_
  refine ld8_bind (P := Conf f (snatW l4)) (by omega) ?_
  split
  · split
    · exact Conf.pure a2
    · refine ld16_bind (P := Conf f (snatW l4)) (by omega) ?_
      refine Conf.bind (Conf.st16 a2 (by omega) (by simp only [snatW]; omega)) fun f3 h3 a3 => ?_
      refine Conf.bind (updateCsum_conf a3 (by omega) (by simp only [snatW]; omega)) fun f4 h4 a4 => ?_
      exact updateCsum16_conf a4 (by omega) (by simp only [snatW]; omega)
  · split
    · split
      · exact Conf.pure a2
      · refine ld16_bind (P := Conf f (snatW l4)) (by omega) ?_
        refine Conf.bind (Conf.st16 a2 (by omega) (by simp only [snatW]; omega)) fun f3 h3 a3 => ?_
        exact udpCsum_conf a3 (by omega) (by simp only [snatW]; omega)
    · split
      · split
        · exact Conf.pure a2
        · refine ld16_bind (P := Conf f (snatW l4)) (by omega) ?_
          refine Conf.bind (Conf.st16 a2 (by omega) (by simp only [snatW]; omega)) fun f3 h3 a3 => ?_
          exact updateCsum16_conf a3 (by omega) (by simp only [snatW]; omega)
      · exact Conf.pure a2

/-- DNAT rewrite: no access outside the frame, length preserved, writes confined to `dnatW` -/
theorem dnat_safe (f : Frame) (l4 : Nat) (ip : UInt32) (port : UInt16) (h : IP_END ≤ f.length) :
    Conf f (dnatW l4) (dnat f f.length l4 ip port) := by
  unfold dnat
  simp only [IP_END, OFF_DADDR, OFF_IPCSUM, OFF_PROTO] at *
  refine ld32_bind (P := Conf f (dnatW l4)) (by omega) ?_
  refine Conf.bind (Conf.st32 (Agree.refl _ _) (by omega) (by simp only [dnatW]; omega)) fun f1 h1 a1 => ?_
  refine Conf.bind (updateCsum_conf a1 (by omega) (by simp only [dnatW]; omega)) fun f2 h2 a2 => ?_
  refine ld8_bind (P := Conf f (dnatW l4)) (by omega) ?_
  split
  · split
    · exact Conf.pure a2
    · refine ld16_bind (P := Conf f (dnatW l4)) (by omega) ?_
      refine Conf.bind (Conf.st16 a2 (by omega) (by simp only [dnatW]; omega)) fun f3 h3 a3 => ?_
      refine Conf.bind (updateCsum_conf a3 (by omega) (by simp only [dnatW]; omega)) fun f4 h4 a4 => ?_
      exact updateCsum16_conf a4 (by omega) (by simp only [dnatW]; omega)
  · split
    · split
      · exact Conf.pure a2
      · refine ld16_bind (P := Conf f (dnatW l4)) (by omega) ?_
        refine Conf.bind (Conf.st16 a2 (by omega) (by simp only [dnatW]; omega)) fun f3 h3 a3 => ?_
        exact udpCsum_conf a3 (by omega) (by simp only [dnatW]; omega)
    · split
      · split
        · exact Conf.pure a2
        · refine ld16_bind (P := Conf f (dnatW l4)) (by omega) ?_
          refine Conf.bind (Conf.st16 a2 (by omega) (by simp only [dnatW]; omega)) fun f3 h3 a3 => ?_
          exact updateCsum16_conf a3 (by omega) (by simp only [dnatW]; omega)
      · exact Conf.pure a2

/-! ### nat44_egress -/

theorem ite_P {β} {P : M β → Prop} {c : Prop} [Decidable c] {a b : M β} (ha : c → P a) (hb : ¬ c → P b) :
    P (if c then a else b) := by
  split
  · exact ha ‹_›
  · exact hb ‹_›

/-- the parse phase does not fault, and continues only with frames the program is specified to act on -/
def EgP (m : Maps) (f : Frame) (x : M EgParse) : Prop :=
  ∃ r, x = .ok r ∧ ∀ p sub, r = .go p sub →
    p.l4 = l4Off f ∧ AMap.lookup m.subNat p.saddr = some sub ∧ egressActsOn m f = true

theorem EgP.pass {m f} (ev : Nat) : EgP m f (pure (.pass ev)) :=
  ⟨_, rfl, fun _ _ h => by cases h⟩

theorem egressParse_spec (m : Maps) (f : Frame) : EgP m f (egressParse m f) := by
  unfold egressParse
  simp only [ETH_HLEN, IP_END, OFF_ETHERTYPE, OFF_VIHL, OFF_PROTO, OFF_SADDR, OFF_DADDR, OFF_FRAG]
  refine ite_P (fun _ => EgP.pass 0) fun h14 => ?_
  refine ld16_bind (P := EgP m f) (by omega) ?_
  refine ite_P (fun _ => EgP.pass 0) fun hproto => ?_
  refine ite_P (fun _ => EgP.pass 0) fun h34 => ?_
  refine ld8_bind (P := EgP m f) (by omega) ?_
  refine ite_P (fun _ => EgP.pass 0) fun hbad => ?_
  refine ld16_bind (P := EgP m f) (by omega) ?_
  refine ite_P (fun _ => EgP.pass 0) fun hfrag => ?_
  refine ld32_bind (P := EgP m f) (by omega) ?_
  refine ite_P (fun _ => EgP.pass 0) fun hpriv => ?_
  split
  · exact EgP.pass 0
  rename_i sub hsub
  refine ld32_bind (P := EgP m f) (by omega) ?_
  refine ld8_bind (P := EgP m f) (by omega) ?_
  refine ld8_bind (P := EgP m f) (by omega) ?_
  refine ite_P (fun htcp => ?_) fun hntcp => ?_
  · refine ite_P (fun _ => EgP.pass 0) fun hl4 => ?_
    refine ld16_bind (P := EgP m f) (by omega) ?_
    refine ld16_bind (P := EgP m f) (by omega) ?_
    refine ite_P (fun _ => EgP.pass 1) fun _ => ?_
    refine ⟨_, rfl, fun p sub hp => ?_⟩
    cases hp
    refine ⟨rfl, hsub, ?_⟩
    simp only [egressActsOn, natCandidate, l4Off, IP_END, OFF_ETHERTYPE, OFF_VIHL, OFF_PROTO, OFF_SADDR, OFF_FRAG, ETH_HLEN, badIpHeader] at *
    simp_all
  refine ite_P (fun hudp => ?_) fun hnudp => ?_
  · refine ite_P (fun _ => EgP.pass 0) fun hl4 => ?_
    refine ld16_bind (P := EgP m f) (by omega) ?_
    refine ld16_bind (P := EgP m f) (by omega) ?_
    refine ite_P (fun _ => EgP.pass 1) fun _ => ?_
    refine ⟨_, rfl, fun p sub hp => ?_⟩
    cases hp
    refine ⟨rfl, hsub, ?_⟩
    simp only [egressActsOn, natCandidate, l4Off, IP_END, OFF_ETHERTYPE, OFF_VIHL, OFF_PROTO, OFF_SADDR, OFF_FRAG, ETH_HLEN, badIpHeader] at *
    simp_all
  refine ite_P (fun hicmp => ?_) fun _ => EgP.pass 0
  · refine ite_P (fun _ => EgP.pass 0) fun hl4 => ?_
    refine ld16_bind (P := EgP m f) (by omega) ?_
    refine ⟨_, rfl, fun p sub hp => ?_⟩
    cases hp
    refine ⟨rfl, hsub, ?_⟩
    simp only [egressActsOn, natCandidate, l4Off, IP_END, OFF_ETHERTYPE, OFF_VIHL, OFF_PROTO, OFF_SADDR, OFF_FRAG, ETH_HLEN, badIpHeader] at *
    simp_all

theorem natCandidate_len {f : Frame} (h : natCandidate f = true) : IP_END ≤ f.length := by
  simp only [natCandidate, Bool.and_eq_true, decide_eq_true_eq] at h
  exact h.1.1.1.1

/-- everything the C07 theorems need about one run of nat44_egress -/
theorem egress_spec (m : Maps) (clk : UInt64) (f : Frame) :
    ∃ o, egress m clk f = .ok o ∧ Agree f (snatW (l4Off f)) o.frame ∧
      (o.verdict = TC_ACT_OK ∨ o.verdict = TC_ACT_SHOT) ∧
      (o.frame = f ∨ (o.verdict = TC_ACT_OK ∧ egressActsOn m f = true)) := by
  obtain ⟨r, hr, hgo⟩ := egressParse_spec m f
  unfold egress
  rw [hr]
  simp only [ok_bind]
  cases r with
  | pass ev => exact ⟨_, rfl, Agree.refl _ _, Or.inl rfl, Or.inl rfl⟩
  | go p sub =>
    obtain ⟨hl4, _, hact⟩ := hgo p sub rfl
    have hlen : IP_END ≤ f.length := by
      simp only [egressActsOn, Bool.and_eq_true] at hact
      exact natCandidate_len hact.1.1
    simp only []
    split
    · exact ⟨_, rfl, Agree.refl _ _, Or.inr rfl, Or.inl rfl⟩
    · rename_i m' ip port ev _
      obtain ⟨f', hf', ha'⟩ := snat_safe f p.l4 ip port hlen
      rw [hf']
      rw [hl4] at ha'
      exact ⟨_, rfl, ha', Or.inl rfl, Or.inr ⟨rfl, hact⟩⟩

/-! ### nat44_ingress -/

/-- the parse phase does not fault; when it continues, the frame is a NAT candidate and the reverse key
    is the one `revKeyOf` names -/
def InP (f : Frame) (x : M (Option Pkt)) : Prop :=
  ∃ r, x = .ok r ∧ ∀ p, r = some p → p.l4 = l4Off f ∧ natCandidate f = true ∧ revKey p = revKeyOf f

theorem InP.pass {f} : InP f (pure none) := ⟨_, rfl, fun _ h => by cases h⟩

theorem ingressParse_spec (f : Frame) : InP f (ingressParse f) := by
  unfold ingressParse
  simp only [ETH_HLEN, IP_END, OFF_ETHERTYPE, OFF_VIHL, OFF_PROTO, OFF_SADDR, OFF_DADDR, OFF_FRAG]
  refine ite_P (fun _ => InP.pass) fun h14 => ?_
  refine ld16_bind (P := InP f) (by omega) ?_
  refine ite_P (fun _ => InP.pass) fun hproto => ?_
  refine ite_P (fun _ => InP.pass) fun h34 => ?_
  refine ld8_bind (P := InP f) (by omega) ?_
  refine ite_P (fun _ => InP.pass) fun hbad => ?_
  refine ld16_bind (P := InP f) (by omega) ?_
  refine ite_P (fun _ => InP.pass) fun hfrag => ?_
  refine ld32_bind (P := InP f) (by omega) ?_
  refine ld32_bind (P := InP f) (by omega) ?_
  refine ld8_bind (P := InP f) (by omega) ?_
  refine ld8_bind (P := InP f) (by omega) ?_
  refine ite_P (fun htcp => ?_) fun hntcp => ?_
  · refine ite_P (fun _ => InP.pass) fun hl4 => ?_
    refine ld16_bind (P := InP f) (by omega) ?_
    refine ld16_bind (P := InP f) (by omega) ?_
    refine ⟨_, rfl, fun p hp => ?_⟩
    cases hp
    refine ⟨rfl, ?_⟩
    simp only [natCandidate, revKey, revKeyOf, l4Off, IP_END, OFF_ETHERTYPE, OFF_VIHL, OFF_PROTO, OFF_SADDR,
      OFF_DADDR, OFF_FRAG, ETH_HLEN, badIpHeader] at *
    simp_all [IPPROTO_TCP, IPPROTO_ICMP]
  refine ite_P (fun hudp => ?_) fun hnudp => ?_
  · refine ite_P (fun _ => InP.pass) fun hl4 => ?_
    refine ld16_bind (P := InP f) (by omega) ?_
    refine ld16_bind (P := InP f) (by omega) ?_
    refine ⟨_, rfl, fun p hp => ?_⟩
    cases hp
    refine ⟨rfl, ?_⟩
    simp only [natCandidate, revKey, revKeyOf, l4Off, IP_END, OFF_ETHERTYPE, OFF_VIHL, OFF_PROTO, OFF_SADDR,
      OFF_DADDR, OFF_FRAG, ETH_HLEN, badIpHeader] at *
    simp_all [IPPROTO_UDP, IPPROTO_ICMP]
  refine ite_P (fun hicmp => ?_) fun _ => InP.pass
  · refine ite_P (fun _ => InP.pass) fun hl4 => ?_
    refine ld16_bind (P := InP f) (by omega) ?_
    refine ⟨_, rfl, fun p hp => ?_⟩
    cases hp
    refine ⟨rfl, ?_⟩
    simp only [natCandidate, revKey, revKeyOf, l4Off, IP_END, OFF_ETHERTYPE, OFF_VIHL, OFF_PROTO, OFF_SADDR,
      OFF_DADDR, OFF_FRAG, ETH_HLEN, badIpHeader] at *
    simp_all

theorem ingressTcpState_safe (f : Frame) (l4 : Nat) (h : IP_END ≤ f.length) :
    ∃ r, ingressTcpState f f.length l4 = .ok r := by
  unfold ingressTcpState
  simp only [IP_END, OFF_PROTO] at *
  refine ld8_bind (P := fun x => ∃ r, x = .ok r) (by omega) ?_
  refine ite_P (P := fun x => ∃ r, x = .ok r) (fun _ => ?_) fun _ => ⟨_, rfl⟩
  refine ite_P (P := fun x => ∃ r, x = .ok r) (fun _ => ⟨_, rfl⟩) fun _ => ?_
  exact ld8_bind (P := fun x => ∃ r, x = .ok r) (by omega) ⟨_, rfl⟩

/-- everything the C07 theorems need about one run of nat44_ingress -/
theorem ingress_spec (m : Maps) (clk : UInt64) (f : Frame) :
    ∃ o, ingress m clk f = .ok o ∧ Agree f (dnatW (l4Off f)) o.frame ∧ o.verdict = TC_ACT_OK ∧
      (o.frame = f ∨ ingressActsOn m f = true) := by
  obtain ⟨r, hr, hgo⟩ := ingressParse_spec f
  unfold ingress
  rw [hr]
  simp only [ok_bind]
  cases r with
  | none => exact ⟨_, rfl, Agree.refl _ _, rfl, Or.inl rfl⟩
  | some p =>
    obtain ⟨hl4, hcand, hkey⟩ := hgo p rfl
    have hlen : IP_END ≤ f.length := natCandidate_len hcand
    simp only []
    split
    · exact ⟨_, rfl, Agree.refl _ _, rfl, Or.inl rfl⟩
    · rename_i orig horig
      split
      · exact ⟨_, rfl, Agree.refl _ _, rfl, Or.inl rfl⟩
      · rename_i s hs
        have hact : ingressActsOn m f = true := by
          simp only [ingressActsOn, Bool.and_eq_true]
          refine ⟨hcand, ?_⟩
          rw [← hkey, horig]
          simp [hs]
        obtain ⟨t, ht⟩ := ingressTcpState_safe f p.l4 hlen
        rw [ht]
        simp only [ok_bind]
        cases t with
        | none => exact ⟨_, rfl, Agree.refl _ _, rfl, Or.inl rfl⟩
        | some fl =>
          obtain ⟨f', hf', ha'⟩ := dnat_safe f p.l4 s.origIp s.origPort hlen
          simp only []
          rw [hf']
          rw [hl4] at ha'
          exact ⟨_, rfl, ha', rfl, Or.inr hact⟩

/-! ### nat44_hairpin_xdp -/

/-- nat44_hairpin_xdp never faults, never writes and always returns XDP_PASS -/
theorem hairpin_spec (m : Maps) (f : Frame) :
    hairpin m f = .ok { verdict := XDP_PASS, frame := f, maps := m } := by
  unfold hairpin
  simp only [ETH_HLEN, IP_END, OFF_ETHERTYPE, OFF_SADDR, OFF_DADDR]
  refine ite_P (P := fun x => x = _) (fun _ => rfl) fun _ => ?_
  refine ite_P (P := fun x => x = _) (fun _ => rfl) fun h14 => ?_
  refine ld16_bind (P := fun x => x = _) (by omega) ?_
  refine ite_P (P := fun x => x = _) (fun _ => rfl) fun _ => ?_
  refine ite_P (P := fun x => x = _) (fun _ => rfl) fun h34 => ?_
  refine ld32_bind (P := fun x => x = _) (by omega) ?_
  refine ite_P (P := fun x => x = _) (fun _ => rfl) fun _ => ?_
  refine ld32_bind (P := fun x => x = _) (by omega) ?_
  exact ite_P (P := fun x => x = _) (fun _ => rfl) fun _ => rfl

end Bng.Nat44
