import Bng.Model.Vlan
/-
  Invariants of the VLAN allocator model (pkg/nexus/vlan.go) and their preservation by every operation.
-/
namespace Bng.Vlan
open Bng AMap

/-- forward and reverse maps are mutually inverse partial functions -/
structure Inv (st : State) : Prop where
  fwd : ∀ n p, AMap.lookup st.allocs n = some p → AMap.lookup st.usage p = some n
  bwd : ∀ n p, AMap.lookup st.usage p = some n → AMap.lookup st.allocs n = some p

theorem inv_init (c : Cfg) : Inv (init c) := by
  constructor <;> intro n p h <;> simp [init] at h

/-! ### the scans -/

theorem w16_succ {c E : Nat} (h1 : c ≤ E) (h2 : E < 65535) : w16 (c + 1) = c + 1 := by
  unfold w16; omega

theorem scanC_found {u : AMap Pair Nat} {s cE c f c' : Nat} (h : scanC u s cE c f = .found c') :
    AMap.lookup u (s, c') = none ∧ c' ≤ cE ∧ (cE < 65535 → c ≤ c') := by
  induction f generalizing c with
  | zero => simp [scanC] at h
  | succ f ih =>
    unfold scanC at h
    by_cases hg : cE < c
    · simp [hg] at h
    · rw [if_neg hg] at h
      by_cases hf : (AMap.lookup u (s, c)).isNone = true
      · rw [if_pos hf] at h
        have : c = c' := by simpa using h
        subst this
        exact ⟨by simpa using hf, by omega, fun _ => Nat.le_refl _⟩
      · rw [if_neg hf] at h
        obtain ⟨h1, h2, h3⟩ := ih h
        refine ⟨h1, h2, fun hE => ?_⟩
        have := h3 hE
        rw [w16_succ (by omega) hE] at this
        omega

theorem scanC_exhausted {u : AMap Pair Nat} {s cE c f : Nat} (h : scanC u s cE c f = .exhausted)
    (hE : cE < 65535) : ∀ c', c ≤ c' → c' ≤ cE → AMap.lookup u (s, c') ≠ none := by
  induction f generalizing c with
  | zero => simp [scanC] at h
  | succ f ih =>
    unfold scanC at h
    by_cases hg : cE < c
    · intro c' h1 h2; omega
    · rw [if_neg hg] at h
      by_cases hf : (AMap.lookup u (s, c)).isNone = true
      · simp [hf] at h
      · rw [if_neg hf] at h
        rw [w16_succ (by omega) hE] at h
        intro c' h1 h2
        by_cases e : c' = c
        · subst e; intro hn; apply hf; simp [hn]
        · exact ih h c' (by omega) h2

/-- below 65535 the C-TAG loop terminates: enough fuel for the remaining candidates excludes `hang` -/
theorem scanC_no_hang {u : AMap Pair Nat} {s cE c f : Nat} (hE : cE < 65535) (hc : c ≤ cE + 1)
    (hf : cE + 2 ≤ c + f) : scanC u s cE c f ≠ .hang := by
  induction f generalizing c with
  | zero => omega
  | succ f ih =>
    unfold scanC
    by_cases hg : cE < c
    · simp [hg]
    · rw [if_neg hg]
      by_cases hfree : (AMap.lookup u (s, c)).isNone = true
      · simp [hfree]
      · rw [if_neg hfree, w16_succ (by omega) hE]
        exact ih (by omega) (by omega)

theorem findC_found {st : State} {s c : Nat} (h : findC st s = .found c) :
    AMap.lookup st.usage (s, c) = none ∧ c ≤ st.cfg.cE ∧ (st.cfg.cE < 65535 → st.cfg.cS ≤ c) :=
  scanC_found h

/-- findAvailableCTag fails only if every C-TAG of the range is taken under that S-TAG -/
theorem findC_exhausted {st : State} {s : Nat} (h : findC st s = .exhausted) (hE : st.cfg.cE < 65535) :
    ∀ c, st.cfg.cS ≤ c → c ≤ st.cfg.cE → AMap.lookup st.usage (s, c) ≠ none :=
  scanC_exhausted h hE

theorem findC_no_hang {st : State} {s : Nat} (hE : st.cfg.cE < 65535) : findC st s ≠ .hang := by
  unfold findC
  by_cases hle : st.cfg.cS ≤ st.cfg.cE + 1
  · exact scanC_no_hang hE hle (by omega)
  · unfold scanC
    have : st.cfg.cE < st.cfg.cS := by omega
    simp [this]

theorem scanS1_found {st : State} {s f : Nat} {p : Pair} (h : scanS1 st s f = .found p) :
    findC st p.1 = .found p.2 ∧ p.1 ≤ st.cfg.sE ∧ (st.cfg.sE < 65535 → s ≤ p.1) := by
  induction f generalizing s with
  | zero => simp [scanS1] at h
  | succ f ih =>
    unfold scanS1 at h
    by_cases hg : st.cfg.sE < s
    · simp [hg] at h
    · rw [if_neg hg] at h
      cases hc : findC st s with
      | found c =>
        simp only [hc] at h
        have : (s, c) = p := by simpa using h
        subst this
        exact ⟨hc, by simp; omega, fun _ => Nat.le_refl _⟩
      | hang => simp [hc] at h
      | exhausted =>
        simp only [hc] at h
        obtain ⟨h1, h2, h3⟩ := ih h
        refine ⟨h1, h2, fun hE => ?_⟩
        have := h3 hE
        rw [w16_succ (by omega) hE] at this
        omega

theorem scanS2_found {st : State} {s f : Nat} {p : Pair} (h : scanS2 st s f = .found p) :
    findC st p.1 = .found p.2 ∧ s ≤ p.1 ∧ p.1 < s + f := by
  induction f generalizing s with
  | zero => simp [scanS2] at h
  | succ f ih =>
    unfold scanS2 at h
    cases hc : findC st s with
    | found c =>
      simp only [hc] at h
      have : (s, c) = p := by simpa using h
      subst this
      exact ⟨hc, Nat.le_refl _, by simp⟩
    | hang => simp [hc] at h
    | exhausted =>
      simp only [hc] at h
      obtain ⟨h1, h2, h3⟩ := ih h
      exact ⟨h1, by omega, by omega⟩

theorem findAvail_found {st : State} {p : Pair} (h : findAvail st = .found p) :
    findC st p.1 = .found p.2 ∧
    (st.cfg.sS ≤ st.cur → (st.cur ≤ st.cfg.sE ∨ st.cur = st.cfg.sS) → st.cfg.sE < 65535 →
      st.cfg.sS ≤ p.1 ∧ p.1 ≤ st.cfg.sE) := by
  unfold findAvail at h
  cases h1 : scanS1 st st.cur 65537 with
  | found q =>
    simp only [h1] at h
    have : q = p := by simpa using h
    subst this
    obtain ⟨a, b, c⟩ := scanS1_found h1
    exact ⟨a, fun hc _ hE => ⟨by have := c hE; omega, b⟩⟩
  | hang => simp [h1] at h
  | exhausted =>
    simp only [h1] at h
    obtain ⟨a, b, c⟩ := scanS2_found h
    exact ⟨a, fun hc hd _ => ⟨b, by rcases hd with hd | hd <;> omega⟩⟩

theorem scanS1_exhausted {st : State} {s f : Nat} (h : scanS1 st s f = .exhausted) (hE : st.cfg.sE < 65535) :
    ∀ s', s ≤ s' → s' ≤ st.cfg.sE → findC st s' = .exhausted := by
  induction f generalizing s with
  | zero => simp [scanS1] at h
  | succ f ih =>
    unfold scanS1 at h
    by_cases hg : st.cfg.sE < s
    · intro s' h1 h2; omega
    · rw [if_neg hg] at h
      cases hc : findC st s with
      | found c => simp [hc] at h
      | hang => simp [hc] at h
      | exhausted =>
        simp only [hc] at h
        rw [w16_succ (by omega) hE] at h
        intro s' h1 h2
        by_cases e : s' = s
        · subst e; exact hc
        · exact ih h s' (by omega) h2

theorem scanS2_exhausted {st : State} {s f : Nat} (h : scanS2 st s f = .exhausted) :
    ∀ s', s ≤ s' → s' < s + f → findC st s' = .exhausted := by
  induction f generalizing s with
  | zero => intro s' h1 h2; omega
  | succ f ih =>
    unfold scanS2 at h
    cases hc : findC st s with
    | found c => simp [hc] at h
    | hang => simp [hc] at h
    | exhausted =>
      simp only [hc] at h
      intro s' h1 h2
      by_cases e : s' = s
      · subst e; exact hc
      · exact ih h s' (by omega) (by omega)

/-- findAvailable reports exhaustion only if no S-TAG of the range has a free C-TAG -/
theorem findAvail_exhausted {st : State} (h : findAvail st = .exhausted) (hc : st.cfg.sS ≤ st.cur)
    (hE : st.cfg.sE < 65535) : ∀ s, st.cfg.sS ≤ s → s ≤ st.cfg.sE → findC st s = .exhausted := by
  unfold findAvail at h
  cases h1 : scanS1 st st.cur 65537 with
  | found q => simp [h1] at h
  | hang => simp [h1] at h
  | exhausted =>
    simp only [h1] at h
    intro s hs1 hs2
    by_cases hlt : s < st.cur
    · exact scanS2_exhausted h s hs1 (by omega)
    · exact scanS1_exhausted h1 hE s (by omega) hs2

/-! ### preservation of the bijection -/

theorem inv_record {st : State} (hI : Inv st) {n : Nat} {p : Pair}
    (hn : AMap.lookup st.allocs n = none) (hp : AMap.lookup st.usage p = none) : Inv (record st n p) := by
  constructor
  · intro n' q h
    simp only [record, lookup_insert] at h ⊢
    by_cases e : n' = n
    · subst e; simp only [if_true, Option.some.injEq] at h; subst h; simp
    · simp only [e, if_false] at h
      have hq := hI.fwd n' q h
      have : q ≠ p := by intro e2; subst e2; rw [hp] at hq; cases hq
      simp only [this, if_false]; exact hq
  · intro n' q h
    simp only [record, lookup_insert] at h ⊢
    by_cases e : q = p
    · subst e; simp only [if_true, Option.some.injEq] at h; subst h; simp
    · simp only [e, if_false] at h
      have hq := hI.bwd n' q h
      have : n' ≠ n := by intro e2; subst e2; rw [hn] at hq; cases hq
      simp only [this, if_false]; exact hq

theorem releaseU_allocs (st : State) (n n' : Nat) :
    AMap.lookup (releaseU st n).allocs n' = if n' = n then none else AMap.lookup st.allocs n' := by
  unfold releaseU
  cases h : AMap.lookup st.allocs n with
  | none =>
    simp only
    by_cases e : n' = n
    · subst e; simp [h]
    · simp [e]
  | some p => simp only [lookup_erase]

theorem releaseU_cfg (st : State) (n : Nat) : (releaseU st n).cfg = st.cfg := by
  unfold releaseU; split <;> rfl

theorem releaseU_cur (st : State) (n : Nat) : (releaseU st n).cur = st.cur := by
  unfold releaseU; split <;> rfl

/-- the reverse map after a release: only the released NTE's own pair disappears -/
theorem releaseU_usage (st : State) (n : Nat) (q : Pair) :
    AMap.lookup (releaseU st n).usage q =
      if AMap.lookup st.allocs n = some q then none else AMap.lookup st.usage q := by
  unfold releaseU
  cases h : AMap.lookup st.allocs n with
  | none => simp
  | some p =>
    simp only [lookup_erase, Option.some.injEq]
    by_cases e : q = p
    · subst e; simp
    · have : ¬ p = q := fun e2 => e e2.symm
      simp [e, this]

theorem inv_releaseU {st : State} (hI : Inv st) (n : Nat) : Inv (releaseU st n) := by
  constructor
  · intro n' q h
    rw [releaseU_allocs] at h
    rw [releaseU_usage]
    by_cases e : n' = n
    · simp [e] at h
    · simp only [e, if_false] at h
      have hq := hI.fwd n' q h
      by_cases e2 : AMap.lookup st.allocs n = some q
      · have := hI.fwd n q e2
        rw [hq] at this; simp at this; exact absurd this e
      · simp only [e2, if_false]; exact hq
  · intro n' q h
    rw [releaseU_usage] at h
    rw [releaseU_allocs]
    by_cases e2 : AMap.lookup st.allocs n = some q
    · simp [e2] at h
    · simp only [e2, if_false] at h
      have hq := hI.bwd n' q h
      have : n' ≠ n := by intro e; subst e; exact e2 hq
      simp only [this, if_false]; exact hq

theorem inv_cur {st : State} (hI : Inv st) (c : Nat) : Inv { st with cur := c } :=
  ⟨hI.fwd, hI.bwd⟩

/-- after releasing `n`, a pair that was free or held by `n` itself is free -/
theorem releaseU_usage_free {st : State} (hI : Inv st) (n : Nat) (q : Pair)
    (h : AMap.lookup st.usage q = none ∨ AMap.lookup st.usage q = some n) :
    AMap.lookup (releaseU st n).usage q = none := by
  rw [releaseU_usage]
  rcases h with h | h
  · split <;> simp [h]
  · simp [hI.bwd n q h]

theorem inv_alloc {st : State} (hI : Inv st) (n : Nat) : Inv (alloc st n).1 := by
  unfold alloc
  cases h : AMap.lookup st.allocs n with
  | some p => exact hI
  | none =>
    simp only
    cases hf : findAvail st with
    | exhausted => exact hI
    | hang => exact hI
    | found p =>
      simp only
      have hp := (findC_found (findAvail_found hf).1).1
      exact inv_record (inv_cur hI _) h hp

theorem inv_allocWS {st : State} (hI : Inv st) (n t : Nat) : Inv (allocWS st n t).1 := by
  unfold allocWS
  split
  · exact hI
  · cases hh : heldWithTag st n t with
    | some p => exact hI
    | none =>
      simp only
      cases hf : findC st t with
      | exhausted => exact hI
      | hang => exact hI
      | found c =>
        simp only
        apply inv_record (inv_releaseU hI n)
        · rw [releaseU_allocs]; simp
        · exact releaseU_usage_free hI n _ (Or.inl (findC_found hf).1)

theorem inv_loadOne {acc : State × Bool} (hI : Inv acc.1) (e : Nat × Pair) : Inv (loadOne acc e).1 := by
  unfold loadOne
  simp only
  split
  · exact hI
  · cases ho : AMap.lookup acc.1.usage e.2 with
    | some owner =>
      simp only
      by_cases hne : owner ≠ e.1
      · rw [if_pos hne]; exact hI
      · have heq : owner = e.1 := by simpa using hne
        rw [if_neg hne]
        apply inv_record (inv_releaseU hI e.1)
        · rw [releaseU_allocs]; simp
        · exact releaseU_usage_free hI e.1 _ (Or.inr (heq ▸ ho))
    | none =>
      simp only
      apply inv_record (inv_releaseU hI e.1)
      · rw [releaseU_allocs]; simp
      · exact releaseU_usage_free hI e.1 _ (Or.inl ho)

theorem inv_loadFold {acc : State × Bool} (hI : Inv acc.1) (l : List (Nat × Pair)) :
    Inv (l.foldl loadOne acc).1 := by
  induction l generalizing acc with
  | nil => exact hI
  | cons e rest ih => exact ih (inv_loadOne hI e)

theorem inv_step {st : State} (hI : Inv st) (op : Op) : Inv (step st op).1 := by
  cases op with
  | alloc n => exact inv_alloc hI n
  | allocWS n t => exact inv_allocWS hI n t
  | release n => exact inv_releaseU hI n
  | get n => exact hI
  | load l => exact inv_loadFold (acc := (st, false)) hI l
  | stats => exact hI
  | dump => exact hI

theorem inv_run {st : State} (hI : Inv st) (ops : List Op) : Inv (run st ops) := by
  induction ops generalizing st with
  | nil => exact hI
  | cons op rest ih => exact ih (inv_step hI op)

/-! ### ranges -/

theorem inRange_iff (c : Cfg) (p : Pair) :
    inRange c p = true ↔ c.sS ≤ p.1 ∧ p.1 ≤ c.sE ∧ c.cS ≤ p.2 ∧ p.2 ≤ c.cE := by
  simp [inRange, and_assoc]

/-- the cursor stays inside the S-TAG range (or at its start, when the range is empty) and every held pair is inside
    both ranges unless it is one of the records `B` (the out-of-range records that loads brought in) -/
structure RInv (B : Nat × Pair → Prop) (st : State) : Prop where
  curLo : st.cfg.sS ≤ st.cur
  curHi : st.cur ≤ st.cfg.sE ∨ st.cur = st.cfg.sS
  sHi : st.cfg.sE < 65535
  cHi : st.cfg.cE < 65535
  rng : ∀ n p, AMap.lookup st.allocs n = some p → inRange st.cfg p = true ∨ B (n, p)

/-- every out-of-range stored record an operation brings in belongs to `B` (true of every operation but `load`) -/
def opBadIn (B : Nat × Pair → Prop) (c : Cfg) : Op → Prop
  | .load l => ∀ e ∈ l, inRange c e.2 = false → B e
  | _ => True

section
variable {B : Nat × Pair → Prop}

theorem rinv_record {st : State} (hR : RInv B st) (n : Nat) {p : Pair}
    (hp : inRange st.cfg p = true ∨ B (n, p)) : RInv B (record st n p) := by
  refine ⟨hR.curLo, hR.curHi, hR.sHi, hR.cHi, ?_⟩
  intro n' q h
  simp only [record, lookup_insert] at h
  by_cases e : n' = n
  · simp only [e, if_true, Option.some.injEq] at h; subst h; subst e; exact hp
  · simp only [e, if_false] at h; exact hR.rng n' q h

theorem rinv_releaseU {st : State} (hR : RInv B st) (n : Nat) : RInv B (releaseU st n) := by
  refine ⟨?_, ?_, ?_, ?_, ?_⟩
  · rw [releaseU_cfg, releaseU_cur]; exact hR.curLo
  · rw [releaseU_cfg, releaseU_cur]; exact hR.curHi
  · rw [releaseU_cfg]; exact hR.sHi
  · rw [releaseU_cfg]; exact hR.cHi
  · intro n' q h
    rw [releaseU_allocs] at h
    rw [releaseU_cfg]
    by_cases e : n' = n
    · simp [e] at h
    · simp only [e, if_false] at h; exact hR.rng n' q h

/-- a pair found by findAvailable is inside both ranges -/
theorem findAvail_inRange {st : State} (hR : RInv B st) {p : Pair} (hf : findAvail st = .found p) :
    inRange st.cfg p = true := by
  obtain ⟨h1, h2⟩ := findAvail_found hf
  obtain ⟨hs1, hs2⟩ := h2 hR.curLo hR.curHi hR.sHi
  obtain ⟨_, hc2, hc1⟩ := findC_found h1
  exact (inRange_iff _ _).mpr ⟨hs1, hs2, hc1 hR.cHi, hc2⟩

theorem rinv_alloc {st : State} (hR : RInv B st) (n : Nat) : RInv B (alloc st n).1 := by
  unfold alloc
  cases h : AMap.lookup st.allocs n with
  | some p => exact hR
  | none =>
    simp only
    cases hf : findAvail st with
    | exhausted => exact hR
    | hang => exact hR
    | found p =>
      simp only
      have hin := findAvail_inRange hR hf
      have hs := (inRange_iff _ _).mp hin
      have hcur : RInv B { st with cur := p.1 } := ⟨hs.1, Or.inl hs.2.1, hR.sHi, hR.cHi, hR.rng⟩
      exact rinv_record hcur n (Or.inl hin)

theorem rinv_allocWS {st : State} (hR : RInv B st) (n t : Nat) : RInv B (allocWS st n t).1 := by
  unfold allocWS
  split
  · exact hR
  · rename_i hrange
    cases hh : heldWithTag st n t with
    | some p => exact hR
    | none =>
      simp only
      cases hf : findC st t with
      | exhausted => exact hR
      | hang => exact hR
      | found c =>
        simp only
        obtain ⟨_, hc2, hc1⟩ := findC_found hf
        apply rinv_record (rinv_releaseU hR n)
        rw [releaseU_cfg]
        exact Or.inl ((inRange_iff _ _).mpr ⟨by omega, by omega, hc1 hR.cHi, hc2⟩)

theorem loadOne_cfg (acc : State × Bool) (e : Nat × Pair) : (loadOne acc e).1.cfg = acc.1.cfg := by
  unfold loadOne
  simp only
  split
  · rfl
  · split
    · split
      · rfl
      · simp [record, releaseU_cfg]
    · simp [record, releaseU_cfg]

theorem rinv_loadOne {acc : State × Bool} (hR : RInv B acc.1) (e : Nat × Pair)
    (he : inRange acc.1.cfg e.2 = false → B e) : RInv B (loadOne acc e).1 := by
  have hrec : RInv B (record (releaseU acc.1 e.1) e.1 e.2) := by
    apply rinv_record (rinv_releaseU hR e.1) e.1
    rw [releaseU_cfg]
    cases hr : inRange acc.1.cfg e.2 with
    | true => exact Or.inl rfl
    | false => exact Or.inr (he hr)
  unfold loadOne
  simp only
  split
  · exact hR
  · split
    · split
      · exact hR
      · exact hrec
    · exact hrec

theorem rinv_loadFold {acc : State × Bool} (hR : RInv B acc.1) (l : List (Nat × Pair))
    (hl : ∀ e ∈ l, inRange acc.1.cfg e.2 = false → B e) : RInv B (l.foldl loadOne acc).1 := by
  induction l generalizing acc with
  | nil => exact hR
  | cons e rest ih =>
    apply ih (rinv_loadOne hR e (hl e (List.mem_cons_self ..)))
    intro e' he'
    rw [loadOne_cfg]
    exact hl e' (List.mem_cons_of_mem _ he')

theorem rinv_step {st : State} (hR : RInv B st) (op : Op) (ho : opBadIn B st.cfg op) : RInv B (step st op).1 := by
  cases op with
  | alloc n => exact rinv_alloc hR n
  | allocWS n t => exact rinv_allocWS hR n t
  | release n => exact rinv_releaseU hR n
  | get n => exact hR
  | load l => exact rinv_loadFold (acc := (st, false)) hR l ho
  | stats => exact hR
  | dump => exact hR

end

theorem step_cfg (st : State) (op : Op) : (step st op).1.cfg = st.cfg := by
  cases op with
  | alloc n =>
    simp only [step, alloc]
    split
    · rfl
    · split <;> simp [record]
  | allocWS n t =>
    simp only [step, allocWS]
    split
    · rfl
    · split
      · rfl
      · split
        · rfl
        · rfl
        · simp [record, releaseU_cfg]
  | release n => exact releaseU_cfg st n
  | get n => rfl
  | load l =>
    simp only [step, load]
    have : ∀ (acc : State × Bool), (l.foldl loadOne acc).1.cfg = acc.1.cfg := by
      induction l with
      | nil => intro acc; rfl
      | cons e rest ih => intro acc; simp only [List.foldl_cons]; rw [ih, loadOne_cfg]
    exact this (st, false)
  | stats => rfl
  | dump => rfl

theorem run_cfg (st : State) (ops : List Op) : (run st ops).cfg = st.cfg := by
  induction ops generalizing st with
  | nil => rfl
  | cons op rest ih =>
    show (run (step st op).1 rest).cfg = st.cfg
    rw [ih, step_cfg]

theorem rinv_run {B : Nat × Pair → Prop} {st : State} (hR : RInv B st) (ops : List Op)
    (ho : ∀ op ∈ ops, opBadIn B st.cfg op) : RInv B (run st ops) := by
  induction ops generalizing st with
  | nil => exact hR
  | cons op rest ih =>
    show RInv B (run (step st op).1 rest)
    apply ih (rinv_step hR op (ho op (List.mem_cons_self ..)))
    intro op' h'
    rw [step_cfg]
    exact ho op' (List.mem_cons_of_mem _ h')

/-- the out-of-range stored records that the loads of a history name -/
def badLoads (c : Cfg) : List Op → List (Nat × Pair)
  | [] => []
  | .load l :: rest => l.filter (fun e => !inRange c e.2) ++ badLoads c rest
  | _ :: rest => badLoads c rest

theorem opBadIn_badLoads (c : Cfg) (ops : List Op) : ∀ op ∈ ops, opBadIn (· ∈ badLoads c ops) c op := by
  induction ops with
  | nil => intro op h; cases h
  | cons o rest ih =>
    intro op h
    have mono : ∀ op', opBadIn (· ∈ badLoads c rest) c op' → opBadIn (· ∈ badLoads c (o :: rest)) c op' := by
      intro op' h'
      cases op' with
      | load l =>
        intro e he hr
        have := h' e he hr
        cases o <;> simp [badLoads, this]
      | _ => trivial
    rcases List.mem_cons.mp h with h | h
    · subst h
      cases op with
      | load l =>
        intro e he hr
        simp [badLoads, he, hr]
      | _ => trivial
    · exact mono op (ih op h)

/-- the range invariant holds initially for any `B` when both ranges end below 65535 -/
theorem rinv_init (B : Nat × Pair → Prop) (c : Cfg) (hs : c.sE < 65535) (hc : c.cE < 65535) : RInv B (init c) :=
  ⟨Nat.le_refl _, Or.inr rfl, hs, hc, by intro n p h; simp [init] at h⟩

end Bng.Vlan
