import Bng.Proof.NatMonitor
import Bng.Model.NatKMap
/-
  The kernel subscriber_nat map mirrors the manager's allocation table along every history (helper lemmas for
  Spec/C10: `kernel_mirrors_table`, `kernel_blocks_disjoint`).
-/
namespace Bng.Cgnat
open Bng AMap

/-- the kernel map says exactly what the table says -/
def Mirror (x : KState) : Prop :=
  ∀ k, AMap.lookup x.kern k = (AMap.lookup x.s.allocs k).map kblkOf

theorem mirror_init (c : Cfg) : Mirror (kinit c) := by
  intro k; rfl

/-- what the pool-lock section of AllocateNAT does to the table: nothing, or one new entry under the caller's key -/
theorem allocCommit_allocs (s : State) (k : Nat) :
    (allocCommit s k).1.allocs = s.allocs ∨
    (AMap.lookup s.allocs k = none ∧ ∃ a, (allocCommit s k).1.allocs = AMap.insert s.allocs k a) := by
  cases hl : AMap.lookup s.allocs k with
  | some a => left; unfold allocCommit; simp [hl]
  | none =>
    cases hsel : selectPool s.allocs s.pool 0 with
    | none => left; unfold allocCommit; simp [hl, hsel]
    | some r =>
      obtain ⟨i, sl, e⟩ := r
      obtain ⟨s', a, he, hall, _, _⟩ := allocCommit_new hl hsel
      right
      exact ⟨rfl, a, by rw [he]; exact hall⟩

theorem mirror_commit {x : KState} (h : Mirror x) (k : Nat) (s' : State)
    (hs : s'.allocs = x.s.allocs ∨ (AMap.lookup x.s.allocs k = none ∧ ∃ a, s'.allocs = AMap.insert x.s.allocs k a)) :
    Mirror { s := s', kern :=
      match AMap.lookup x.s.allocs k, AMap.lookup s'.allocs k with
      | none, some a => AMap.insert x.kern k (kblkOf a)
      | _, _ => x.kern } := by
  intro k'
  rcases hs with hs | ⟨hn, a, hs⟩
  · simp only [hs]
    cases hl : AMap.lookup x.s.allocs k with
    | none => simp only; exact h k'
    | some b => simp only; exact h k'
  · simp only [hs, hn, lookup_insert_self]
    rw [lookup_insert, lookup_insert]
    by_cases e : k' = k
    · simp [e]
    · simp [e, h k']

theorem mirror_step {x : KState} (h : Mirror x) (op : Op) : Mirror (kstep x op).1 := by
  have same : ∀ s' : State, s'.allocs = x.s.allocs → Mirror { s := s', kern := x.kern } := by
    intro s' hs k; simp only [hs]; exact h k
  cases op with
  | addIp ip =>
    apply same
    simp only [step]; unfold addPublicIP; split <;> rfl
  | allocPre k =>
    apply same
    simp only [step]; unfold allocPre; split <;> rfl
  | allocCommit k =>
    exact mirror_commit h k _ (allocCommit_allocs x.s k)
  | alloc k =>
    refine mirror_commit h k _ ?_
    simp only [step]
    rw [alloc_eq]
    cases hl : AMap.lookup x.s.allocs k with
    | some a => left; rfl
    | none =>
      have := allocCommit_allocs x.s k
      rw [hl] at this
      exact this
  | dealloc k =>
    intro k'
    simp only [kstep, kernAfter, step]
    unfold dealloc
    cases hl : AMap.lookup x.s.allocs k with
    | none => simp only; exact h k'
    | some a =>
      simp only
      rw [lookup_erase, lookup_erase]
      by_cases e : k' = k
      · simp [e]
      · simp [e, h k']
  | get k => exact same _ rfl
  | count => exact same _ rfl
  | pools => exact same _ rfl
  | commitFail k => exact same _ (commitFail_same x.s k).2.2.1
  | allocFail k => exact same _ (allocFail_same x.s k).2.2.1
  | deallocFail k => exact same _ (by simp only [step]; rw [deallocFail_state])
  | poke => exact same _ rfl

theorem mirror_run {x : KState} (h : Mirror x) (ops : List Op) : Mirror (krun x ops) := by
  induction ops generalizing x with
  | nil => exact h
  | cons op ops ih => exact ih (mirror_step h op)

theorem run_append (s : State) (a b : List Op) : run s (a ++ b) = run (run s a) b := by
  unfold run; rw [List.foldl_append]

/-- the manager half of a combined run is the manager's own run -/
theorem krun_s (x : KState) (ops : List Op) : (krun x ops).s = run x.s ops := by
  induction ops generalizing x with
  | nil => rfl
  | cons op ops ih => exact ih (kstep x op).1

end Bng.Cgnat
