import Bng.Model.FreeList
import Bng.Proof.IPArith
/-
  What the five constructors generate: every generated value lies inside the configured range,
  the excluded addresses (network, broadcast, gateway, reserved head/tail) are not generated, and no
  value is generated twice.
-/
namespace Bng.FreeList
open Bng Bng.IPArith

/-- an IPv4 network as `net.ParseCIDR` returns it: masked network address, prefix length ≤ 32 -/
structure GoodV4 (c : V4Cfg) : Prop where
  ones_le : c.ones ≤ 32
  lt : c.net < 2 ^ 32
  aligned : c.net % 2 ^ c.hostBits = 0

theorem V4Cfg.hostBits_le (c : V4Cfg) : c.hostBits ≤ 32 := by unfold V4Cfg.hostBits; omega

theorem V4Cfg.numHosts_lt (c : V4Cfg) {j : Nat} (h : j < c.numHosts) : j + 1 < 2 ^ c.hostBits := by
  unfold V4Cfg.numHosts at h; omega

/-- what one iteration of dhcp.Pool.generateAvailableIPs appends -/
theorem dhcp_iter {c : V4Cfg} (hc : GoodV4 c) {j a : Nat} (hj : j < c.numHosts)
    (h : (let i := j + 1
          if i ≤ c.rs then Option.none
          else if i > c.numHosts - c.re then Option.none
          else
            let ip := addBytes4 c.net i
            if ip = c.gw then Option.none else some ip) = some a) :
    a = c.net + (j + 1) ∧ c.rs < j + 1 ∧ j + 1 ≤ c.numHosts - c.re ∧ a ≠ c.gw := by
  simp only at h
  have hadd := addBytes4_eq c.net (j + 1) c.hostBits c.hostBits_le hc.lt hc.aligned (c.numHosts_lt hj)
  rw [hadd] at h
  split at h; · simp at h
  split at h; · simp at h
  split at h; · simp at h
  rename_i h1 h2 h3
  simp only [Option.some.injEq] at h
  subst h
  exact ⟨rfl, by omega, by omega, h3⟩

/-- dhcp.Pool: every generated address is a host address of the network (neither the network nor the
    broadcast address), outside the reserved head and tail, and not the gateway. -/
theorem mem_genDhcp {c : V4Cfg} (hc : GoodV4 c) {a : Nat} (h : a ∈ genDhcp c) :
    c.net + c.rs < a ∧ a + c.re ≤ c.net + c.numHosts ∧ a ≠ c.gw := by
  unfold genDhcp at h
  obtain ⟨j, hj, hf⟩ := List.mem_filterMap.mp h
  have hj := List.mem_range.mp hj
  obtain ⟨e, h1, h2, h3⟩ := dhcp_iter hc hj hf
  subst e
  exact ⟨by omega, by omega, h3⟩

theorem genDhcp_nodup {c : V4Cfg} (hc : GoodV4 c) : (genDhcp c).Nodup := by
  rw [List.nodup_iff_pairwise_ne]
  have : List.Pairwise (fun x y : Nat => x < y) (genDhcp c) := by
    unfold genDhcp
    rw [List.pairwise_filterMap]
    refine List.Pairwise.imp_of_mem ?_ (List.pairwise_lt_range (n := c.numHosts))
    intro j j' hj hj' hlt b hb b' hb'
    have e1 := (dhcp_iter hc (List.mem_range.mp hj) hb).1
    have e2 := (dhcp_iter hc (List.mem_range.mp hj') hb').1
    omega
  exact this.imp (fun h => Nat.ne_of_lt h)

/-- what one iteration of pool.generateAvailableIPs (peer.go) appends -/
theorem local_iter {c : V4Cfg} (hc : GoodV4 c) {j a : Nat} (hj : j < c.numHosts)
    (h : (let ip := (c.net + (j + 1)) % 2 ^ 32
          if ip = c.gw then Option.none else some ip) = some a) :
    a = c.net + (j + 1) ∧ a ≠ c.gw := by
  simp only at h
  have hend := aligned_add_le c.hostBits_le hc.lt hc.aligned
  have := c.numHosts_lt hj
  rw [Nat.mod_eq_of_lt (by omega)] at h
  split at h; · simp at h
  rename_i h3
  simp only [Option.some.injEq] at h
  subst h
  exact ⟨rfl, h3⟩

/-- pool.LocalPool: host addresses only, never the gateway -/
theorem mem_genLocal {c : V4Cfg} (hc : GoodV4 c) {a : Nat} (h : a ∈ genLocal c) :
    c.net < a ∧ a ≤ c.net + c.numHosts ∧ a ≠ c.gw := by
  unfold genLocal at h
  obtain ⟨j, hj, hf⟩ := List.mem_filterMap.mp h
  have hj := List.mem_range.mp hj
  obtain ⟨e, h3⟩ := local_iter hc hj hf
  subst e
  exact ⟨by omega, by omega, h3⟩

theorem genLocal_nodup {c : V4Cfg} (hc : GoodV4 c) : (genLocal c).Nodup := by
  rw [List.nodup_iff_pairwise_ne]
  have : List.Pairwise (fun x y : Nat => x < y) (genLocal c) := by
    unfold genLocal
    rw [List.pairwise_filterMap]
    refine List.Pairwise.imp_of_mem ?_ (List.pairwise_lt_range (n := c.numHosts))
    intro j j' hj hj' hlt b hb b' hb'
    have e1 := (local_iter hc (List.mem_range.mp hj) hb).1
    have e2 := (local_iter hc (List.mem_range.mp hj') hb').1
    omega
  exact this.imp (fun h => Nat.ne_of_lt h)

/-- pppoe.IPPool: inside the network, never the network address, the gateway, 255.255.255.255 or
    the network's broadcast address
    (for a network that is not the whole address space: NewIPPool does not terminate on a /0) -/
theorem mem_genPppoe {c : V4Cfg} (hc : GoodV4 c) (h1 : 1 ≤ c.ones) {a : Nat} (h : a ∈ genPppoe c) :
    c.net < a ∧ a < c.net + 2 ^ c.hostBits ∧ a ≠ c.gw ∧ a ≠ 4294967295 ∧
      (2 ≤ c.hostBits → a ≠ c.net + 2 ^ c.hostBits - 1) := by
  unfold genPppoe at h
  have hh : c.hostBits < 32 := by unfold V4Cfg.hostBits; omega
  have := walk_mem hh hc.lt hc.aligned (pppoeKeep c) (2 ^ c.hostBits) 0
    (Nat.pow_pos (by decide)) a (by simpa using h)
  obtain ⟨l, u, k⟩ := this
  unfold pppoeKeep at k
  simp only [Bool.and_eq_true, bne_iff_ne, ne_eq, Bool.not_eq_true', Bool.and_eq_false_iff,
    decide_eq_false_iff_not, beq_eq_false_iff_ne] at k
  refine ⟨by omega, u, k.1.1, k.1.2, ?_⟩
  intro h2
  rcases k.2 with k2 | k2
  · exact absurd h2 k2
  · exact k2

theorem genPppoe_nodup {c : V4Cfg} (hc : GoodV4 c) (h1 : 1 ≤ c.ones) : (genPppoe c).Nodup := by
  unfold genPppoe
  have hh : c.hostBits < 32 := by unfold V4Cfg.hostBits; omega
  have := walk_nodup hh hc.lt hc.aligned (pppoeKeep c) (2 ^ c.hostBits) 0
    (Nat.pow_pos (by decide))
  simpa using this

/-- an IPv6 network as `net.ParseCIDR` returns it (the /0 network is excluded) -/
structure GoodV6 (c : V6Cfg) : Prop where
  ones_pos : 1 ≤ c.ones
  ones_le : c.ones ≤ 128
  lt : c.base < 2 ^ 128
  aligned : c.base % 2 ^ (128 - c.ones) = 0

/-- dhcpv6.AddressPool: inside the network, never the network address itself -/
theorem mem_genV6Addr {c : V6Cfg} (hc : GoodV6 c) {a : Nat} (h : a ∈ genV6Addr c) :
    c.base < a ∧ a < c.base + 2 ^ (128 - c.ones) := by
  unfold genV6Addr at h
  have hh : 128 - c.ones < 128 := by have := hc.ones_pos; omega
  have := walk_mem hh hc.lt hc.aligned (fun _ => true) 1000 0 (Nat.pow_pos (by decide)) a (by simpa using h)
  exact ⟨by omega, this.2.1⟩

theorem genV6Addr_nodup {c : V6Cfg} (hc : GoodV6 c) : (genV6Addr c).Nodup := by
  unfold genV6Addr
  have hh : 128 - c.ones < 128 := by have := hc.ones_pos; omega
  have := walk_nodup hh hc.lt hc.aligned (fun _ => true) 1000 0 (Nat.pow_pos (by decide))
  simpa using this

theorem genV6Addr_length_le (c : V6Cfg) : (genV6Addr c).length ≤ 1000 := walk_length_le _ _ _ _ _

/-- a prefix-delegation pool NewPrefixPool accepts -/
structure GoodPD (c : V6Cfg) : Prop where
  lt_dl : c.ones < c.dl
  dl_le : c.dl ≤ 128
  lt : c.base < 2 ^ 128
  aligned : c.base % 2 ^ (128 - c.ones) = 0

theorem numPrefixes_le (ib : Nat) : numPrefixes ib ≤ 2 ^ ib ∧ numPrefixes ib ≤ 1000 := by
  unfold numPrefixes
  split
  · rename_i h
    refine ⟨Nat.le_refl _, ?_⟩
    have : 2 ^ ib ≤ 2 ^ 9 := Nat.pow_le_pow_right (by decide) (by omega)
    omega
  · rename_i h
    refine ⟨?_, Nat.le_refl _⟩
    have : 2 ^ 10 ≤ 2 ^ ib := Nat.pow_le_pow_right (by decide) (by omega)
    omega

/-- prefix number i is `base + i·2^(128-dl)` -/
theorem v6prefix_closed {c : V6Cfg} (hc : GoodPD c) {i : Nat} (hi : i < 2 ^ c.indexBits) :
    placeBits c.base (128 - c.dl) i c.indexBits = c.base + i * 2 ^ (128 - c.dl) := by
  have hsum : 128 - c.dl + c.indexBits = 128 - c.ones := by
    unfold V6Cfg.indexBits; have := hc.lt_dl; have := hc.dl_le; omega
  have := placeBits_eq c.base (128 - c.dl) c.indexBits i (by rw [hsum]; exact hc.aligned)
    c.indexBits (Nat.le_refl _)
  rw [this, Nat.mod_eq_of_lt hi]

/-- dhcpv6.PrefixPool: every generated prefix is aligned to the delegation length and lies, whole,
    inside the pool prefix -/
theorem mem_genV6Prefix {c : V6Cfg} (hc : GoodPD c) {a : Nat} (h : a ∈ genV6Prefix c) :
    ∃ i, i < 2 ^ c.indexBits ∧ i < 1000 ∧ a = c.base + i * 2 ^ (128 - c.dl) ∧
      a + 2 ^ (128 - c.dl) ≤ c.base + 2 ^ (128 - c.ones) := by
  unfold genV6Prefix at h
  obtain ⟨i, hi, e⟩ := List.mem_map.mp h
  have hi := List.mem_range.mp hi
  have hle := numPrefixes_le c.indexBits
  have hi2 : i < 2 ^ c.indexBits := by omega
  rw [v6prefix_closed hc hi2] at e
  refine ⟨i, hi2, by omega, e.symm, ?_⟩
  subst e
  have hsum : 128 - c.ones = c.indexBits + (128 - c.dl) := by
    unfold V6Cfg.indexBits; have := hc.lt_dl; have := hc.dl_le; omega
  rw [hsum, Nat.pow_add]
  have : (i + 1) * 2 ^ (128 - c.dl) ≤ 2 ^ c.indexBits * 2 ^ (128 - c.dl) :=
    Nat.mul_le_mul_right _ hi2
  rw [Nat.add_mul, Nat.one_mul] at this
  omega

theorem genV6Prefix_nodup {c : V6Cfg} (hc : GoodPD c) : (genV6Prefix c).Nodup := by
  rw [List.nodup_iff_pairwise_ne]
  unfold genV6Prefix
  have hR : List.Pairwise (fun i j : Nat => i < j ∧ j < 2 ^ c.indexBits)
      (List.range (numPrefixes c.indexBits)) := by
    refine List.Pairwise.imp_of_mem ?_ (List.pairwise_lt_range (n := numPrefixes c.indexBits))
    intro i j _ hj hlt
    have := List.mem_range.mp hj
    have hle := numPrefixes_le c.indexBits
    exact ⟨hlt, by omega⟩
  refine List.Pairwise.map _ ?_ hR
  intro i j ⟨hlt, hj⟩
  rw [v6prefix_closed hc (by omega), v6prefix_closed hc hj]
  have hpos : 0 < 2 ^ (128 - c.dl) := Nat.pow_pos (by decide)
  have : i * 2 ^ (128 - c.dl) < j * 2 ^ (128 - c.dl) := Nat.mul_lt_mul_of_pos_right hlt hpos
  omega

end Bng.FreeList
