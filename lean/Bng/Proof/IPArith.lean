import Bng.Model.IPArith
/-
  Arithmetic facts about the address generators: byte-wise addition without carry equals numeric
  addition on a mask-aligned base, the "increment until outside the network" walk stays inside the
  network and never repeats, and the bit placement of NewPrefixPool is `base + i·2^s`.
-/
namespace Bng.IPArith

theorem decomp4 (x : Nat) (hx : x < 4294967296) :
    x = (x / 16777216 % 256) * 16777216 + (x / 65536 % 256) * 65536 + (x / 256 % 256) * 256 + x % 256 := by
  omega

theorem addBytes4_of_no_carry (base i : Nat) (hb : base < 4294967296) (hi : i < 4294967296)
    (h3 : base / 16777216 % 256 + i / 16777216 % 256 < 256)
    (h2 : base / 65536 % 256 + i / 65536 % 256 < 256)
    (h1 : base / 256 % 256 + i / 256 % 256 < 256)
    (h0 : base % 256 + i % 256 < 256) : addBytes4 base i = base + i := by
  unfold addBytes4
  rw [Nat.mod_eq_of_lt h3, Nat.mod_eq_of_lt h2, Nat.mod_eq_of_lt h1, Nat.mod_eq_of_lt h0]
  have db := decomp4 base hb
  have di := decomp4 i hi
  generalize base / 16777216 % 256 = b3 at *
  generalize base / 65536 % 256 = b2 at *
  generalize base / 256 % 256 = b1 at *
  generalize base % 256 = b0 at *
  generalize i / 16777216 % 256 = i3 at *
  generalize i / 65536 % 256 = i2 at *
  generalize i / 256 % 256 = i1 at *
  generalize i % 256 = i0 at *
  omega

theorem byte_ok (x y g : Nat) (hx : x % 2 ^ g = 0) (hy : y < 2 ^ g) : x % 256 + y % 256 < 256 := by
  by_cases hg : g < 8
  · have : g = 0 ∨ g = 1 ∨ g = 2 ∨ g = 3 ∨ g = 4 ∨ g = 5 ∨ g = 6 ∨ g = 7 := by omega
    rcases this with e | e | e | e | e | e | e | e <;>
      (subst e; simp only [Nat.reducePow] at hx hy; omega)
  · have h8 : 2 ^ g = 256 * 2 ^ (g - 8) := by
      have : g = 8 + (g - 8) := by omega
      rw [this, Nat.pow_add]; simp
    have : x % 256 = 0 := by
      have hd : 256 ∣ x := by
        have : 2 ^ g ∣ x := Nat.dvd_of_mod_eq_zero hx
        exact Nat.dvd_trans ⟨2 ^ (g - 8), h8⟩ this
      exact Nat.mod_eq_zero_of_dvd hd
    have := Nat.mod_lt y (by decide : 256 > 0)
    omega

theorem shift_byte_ok (x y h s : Nat) (hx : x % 2 ^ h = 0) (hy : y < 2 ^ h) :
    x / 2 ^ s % 256 + y / 2 ^ s % 256 < 256 := by
  by_cases hs : h ≤ s
  · have : y / 2 ^ s = 0 :=
      Nat.div_eq_of_lt (Nat.lt_of_lt_of_le hy (Nat.pow_le_pow_right (by decide) hs))
    rw [this]
    have := Nat.mod_lt (x / 2 ^ s) (by decide : 256 > 0)
    omega
  · have hp : 2 ^ h = 2 ^ s * 2 ^ (h - s) := by
      rw [← Nat.pow_add]; congr 1; omega
    apply byte_ok _ _ (h - s)
    · rw [← Nat.mod_mul_right_div_self, ← hp, hx]; simp
    · apply Nat.div_lt_of_lt_mul; rw [← hp]; exact hy

theorem addBytes4_eq (base i h : Nat) (hh : h ≤ 32) (hb : base < 2 ^ 32) (ha : base % 2 ^ h = 0)
    (hi : i < 2 ^ h) : addBytes4 base i = base + i := by
  have hi32 : i < 4294967296 :=
    Nat.lt_of_lt_of_le hi (by have := Nat.pow_le_pow_right (by decide : 2 > 0) hh; simpa using this)
  have h3 := shift_byte_ok base i h 24 ha hi
  have h2 := shift_byte_ok base i h 16 ha hi
  have h1 := shift_byte_ok base i h 8 ha hi
  have h0 := shift_byte_ok base i h 0 ha hi
  simp only [Nat.reducePow, Nat.div_one] at h3 h2 h1 h0 hb
  exact addBytes4_of_no_carry base i hb hi32 h3 h2 h1 h0

/-- a mask-aligned network ends inside the address space -/
theorem aligned_add_le {base h b : Nat} (hh : h ≤ b) (hb : base < 2 ^ b) (ha : base % 2 ^ h = 0) :
    base + 2 ^ h ≤ 2 ^ b := by
  have hp : 2 ^ b = 2 ^ h * 2 ^ (b - h) := by
    rw [← Nat.pow_add]; congr 1; omega
  have hq : base = 2 ^ h * (base / 2 ^ h) := by
    have := Nat.div_add_mod base (2 ^ h)
    omega
  have hlt : base / 2 ^ h < 2 ^ (b - h) := by
    apply Nat.div_lt_of_lt_mul; rw [← hp]; exact hb
  have : 2 ^ h * (base / 2 ^ h + 1) ≤ 2 ^ h * 2 ^ (b - h) := Nat.mul_le_mul_left _ hlt
  rw [← hp, Nat.mul_add, Nat.mul_one, ← hq] at this
  exact this

/-- `ipnet.Contains(x)` on an aligned network: x lies between the network address and its end -/
theorem containsNet_bounds {base h x : Nat} (ha : base % 2 ^ h = 0) (hc : containsNet base h x = true) :
    base ≤ x ∧ x < base + 2 ^ h := by
  unfold containsNet at hc
  have hc : x / 2 ^ h = base / 2 ^ h := by simpa using hc
  have hx := Nat.div_add_mod x (2 ^ h)
  have hbase := Nat.div_add_mod base (2 ^ h)
  have hm := Nat.mod_lt x (Nat.pow_pos (by decide : 0 < 2) : 0 < 2 ^ h)
  rw [hc] at hx
  omega

/-- every address the walk yields is inside the network, beyond the starting point, and kept -/
theorem walk_mem {bits h base : Nat} (hh : h < bits) (hb : base < 2 ^ bits) (ha : base % 2 ^ h = 0)
    (keep : Nat → Bool) :
    ∀ (fuel d : Nat), d < 2 ^ h → ∀ x, x ∈ walk bits (containsNet base h) keep fuel (base + d) →
      base + d < x ∧ x < base + 2 ^ h ∧ keep x = true := by
  have hend := aligned_add_le (Nat.le_of_lt hh) hb ha
  intro fuel
  induction fuel with
  | zero => intro d _ x hx; simp [walk] at hx
  | succ fuel ih =>
    intro d hd x hx
    unfold walk at hx
    simp only at hx
    by_cases hwrap : base + d + 1 < 2 ^ bits
    · rw [Nat.mod_eq_of_lt hwrap] at hx
      by_cases hc : containsNet base h (base + d + 1) = true
      · have hbnd := containsNet_bounds ha hc
        have hd' : d + 1 < 2 ^ h := by omega
        simp only [hc, if_true] at hx
        have ih' := ih (d + 1) hd'
        rw [← Nat.add_assoc] at ih'
        by_cases hk : keep (base + d + 1) = true
        · simp only [hk, if_true, List.mem_cons] at hx
          rcases hx with e | hx
          · subst e; exact ⟨by omega, hbnd.2, hk⟩
          · have := ih' x hx; exact ⟨by omega, this.2⟩
        · simp only [hk] at hx
          have := ih' x hx; exact ⟨by omega, this.2⟩
      · simp [hc] at hx
    · -- the increment wraps to 0: 0 is not in the network because h < bits
      have heq : base + d + 1 = 2 ^ bits := by omega
      rw [heq, Nat.mod_self] at hx
      have hnc : containsNet base h 0 = false := by
        cases hc : containsNet base h 0 with
        | false => rfl
        | true =>
          have := containsNet_bounds ha hc
          have hb0 : base = 0 := by omega
          have : 2 ^ h < 2 ^ bits := Nat.pow_lt_pow_right (by decide) hh
          omega
      simp [hnc] at hx

theorem walk_nodup {bits h base : Nat} (hh : h < bits) (hb : base < 2 ^ bits) (ha : base % 2 ^ h = 0)
    (keep : Nat → Bool) :
    ∀ (fuel d : Nat), d < 2 ^ h → (walk bits (containsNet base h) keep fuel (base + d)).Nodup := by
  have hend := aligned_add_le (Nat.le_of_lt hh) hb ha
  intro fuel
  induction fuel with
  | zero => intro d _; simp [walk]
  | succ fuel ih =>
    intro d hd
    unfold walk
    simp only
    by_cases hwrap : base + d + 1 < 2 ^ bits
    · rw [Nat.mod_eq_of_lt hwrap]
      by_cases hc : containsNet base h (base + d + 1) = true
      · have hbnd := containsNet_bounds ha hc
        have hd' : d + 1 < 2 ^ h := by omega
        have ih' := ih (d + 1) hd'
        have hm := walk_mem hh hb ha keep fuel (d + 1) hd'
        rw [← Nat.add_assoc] at ih' hm
        simp only [hc, if_true]
        by_cases hk : keep (base + d + 1) = true
        · simp only [hk, if_true, List.nodup_cons]
          refine ⟨?_, ih'⟩
          intro hin
          have := (hm _ hin).1
          omega
        · simp only [hk]; exact ih'
      · simp [hc]
    · have heq : base + d + 1 = 2 ^ bits := by omega
      rw [heq, Nat.mod_self]
      by_cases hc : containsNet base h 0 = true
      · have := containsNet_bounds ha hc
        have hb0 : base = 0 := by omega
        have : 2 ^ h < 2 ^ bits := Nat.pow_lt_pow_right (by decide) hh
        omega
      · simp [hc]

theorem walk_length_le (bits : Nat) (inNet keep : Nat → Bool) :
    ∀ (fuel ip : Nat), (walk bits inNet keep fuel ip).length ≤ fuel := by
  intro fuel
  induction fuel with
  | zero => intro ip; simp [walk]
  | succ fuel ih =>
    intro ip
    unfold walk
    simp only
    split
    · split
      · simp only [List.length_cons]; have := ih ((ip + 1) % 2 ^ bits); omega
      · have := ih ((ip + 1) % 2 ^ bits); omega
    · simp

/-- the address after the last one of an aligned network is outside it -/
theorem not_contains_end {bits h base : Nat} (hh : h < bits) (hb : base < 2 ^ bits) (ha : base % 2 ^ h = 0) :
    containsNet base h ((base + 2 ^ h) % 2 ^ bits) = false := by
  have hend := aligned_add_le (Nat.le_of_lt hh) hb ha
  cases hc : containsNet base h ((base + 2 ^ h) % 2 ^ bits) with
  | false => rfl
  | true =>
    have hbnd := containsNet_bounds ha hc
    by_cases hlt : base + 2 ^ h < 2 ^ bits
    · rw [Nat.mod_eq_of_lt hlt] at hbnd; omega
    · have : base + 2 ^ h = 2 ^ bits := by omega
      rw [this, Nat.mod_self] at hbnd
      have hb0 : base = 0 := by omega
      have : 2 ^ h < 2 ^ bits := Nat.pow_lt_pow_right (by decide) hh
      omega

/-- The fuel of the NewIPPool walk is enough: once the walk can reach the end of the network, more fuel
    changes nothing — the real, unbounded loop yields exactly the model's list (and terminates). -/
theorem walk_fuel_enough {bits h base : Nat} (hh : h < bits) (hb : base < 2 ^ bits) (ha : base % 2 ^ h = 0)
    (keep : Nat → Bool) :
    ∀ (fuel d : Nat), d < 2 ^ h → 2 ^ h ≤ d + fuel + 1 → ∀ extra,
      walk bits (containsNet base h) keep (fuel + extra) (base + d) =
      walk bits (containsNet base h) keep fuel (base + d) := by
  intro fuel
  induction fuel with
  | zero =>
    intro d hd hf extra
    cases extra with
    | zero => rfl
    | succ e =>
      have hd' : base + d + 1 = base + 2 ^ h := by omega
      simp only [Nat.zero_add]
      unfold walk
      simp only [hd', not_contains_end hh hb ha]
      simp
  | succ fuel ih =>
    intro d hd hf extra
    have e1 : fuel + 1 + extra = (fuel + extra) + 1 := by omega
    rw [e1]
    unfold walk
    simp only
    by_cases hc : containsNet base h ((base + d + 1) % 2 ^ bits) = true
    · have hend := aligned_add_le (Nat.le_of_lt hh) hb ha
      by_cases hwrap : base + d + 1 < 2 ^ bits
      · rw [Nat.mod_eq_of_lt hwrap] at hc ⊢
        have hbnd := containsNet_bounds ha hc
        have hd' : d + 1 < 2 ^ h := by omega
        have := ih (d + 1) hd' (by omega) extra
        rw [← Nat.add_assoc] at this
        simp only [hc, if_true, this]
      · have heq : base + d + 1 = 2 ^ bits := by omega
        rw [heq, Nat.mod_self] at hc
        have hbnd := containsNet_bounds ha hc
        have hb0 : base = 0 := by omega
        have : 2 ^ h < 2 ^ bits := Nat.pow_lt_pow_right (by decide) hh
        omega
    · simp [hc]

/-! ### NewPrefixPool's bit placement -/

theorem mod_two_pow_succ' (x n : Nat) :
    x % 2 ^ (n + 1) = x % 2 ^ n + (if x / 2 ^ n % 2 = 1 then 2 ^ n else 0) := by
  have h1 : x % 2 ^ (n + 1) = x % 2 ^ n + 2 ^ n * (x / 2 ^ n % 2) := by
    rw [Nat.pow_succ, Nat.mod_mul]
  rw [h1]
  have := Nat.mod_two_eq_zero_or_one (x / 2 ^ n)
  rcases this with e | e <;> simp [e]

/-- placing the low `n` bits of `idx` at offset `s` of an aligned base is an addition -/
theorem placeBits_eq (base s ib idx : Nat) (ha : base % 2 ^ (s + ib) = 0) :
    ∀ n, n ≤ ib → placeBits base s idx n = base + idx % 2 ^ n * 2 ^ s := by
  intro n
  induction n with
  | zero => intro _; simp [placeBits, Nat.mod_one]
  | succ n ih =>
    intro hn
    have ihn := ih (by omega)
    unfold placeBits
    simp only
    rw [ihn, mod_two_pow_succ']
    by_cases hbit : idx / 2 ^ n % 2 = 1
    · simp only [hbit, if_true]
      -- bit s+n of  base + low·2^s  is clear
      have hlow : idx % 2 ^ n * 2 ^ s < 2 ^ (s + n) := by
        have := Nat.mod_lt idx (Nat.pow_pos (by decide : 0 < 2) : 0 < 2 ^ n)
        rw [Nat.pow_add, Nat.mul_comm (2 ^ s)]
        exact Nat.mul_lt_mul_of_pos_right this (Nat.pow_pos (by decide))
      have hdvd : 2 ^ (s + n + 1) ∣ base := by
        have h1 : 2 ^ (s + ib) ∣ base := Nat.dvd_of_mod_eq_zero ha
        have h2 : 2 ^ (s + n + 1) ∣ 2 ^ (s + ib) := Nat.pow_dvd_pow 2 (by omega)
        exact Nat.dvd_trans h2 h1
      obtain ⟨c, hc⟩ := hdvd
      have hclear : (base + idx % 2 ^ n * 2 ^ s) / 2 ^ (s + n) % 2 = 0 := by
        have e1 : base = 2 ^ (s + n) * (2 * c) := by
          rw [hc, Nat.pow_succ]; simp [Nat.mul_assoc]
        rw [e1, Nat.mul_add_div (Nat.pow_pos (by decide)), Nat.div_eq_of_lt hlow]
        simp
      unfold setBit1
      have hne : ¬ ((base + idx % 2 ^ n * 2 ^ s) / 2 ^ (s + n) % 2 = 1) := by omega
      simp only [hne, if_false]
      rw [Nat.add_mul, Nat.pow_add, Nat.mul_comm (2 ^ n) (2 ^ s)]
      omega
    · simp only [hbit, if_false, Nat.add_zero]

end Bng.IPArith
