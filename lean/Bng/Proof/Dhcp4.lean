import Bng.Model.Dhcp4
/-
  Invariants of the DHCPv4 slow-path model and their preservation.

  `PoolInv`  — the pool never holds one address twice (allocated is injective, the free list has no duplicates
               and is disjoint from the allocated addresses), and everything it holds is a usable host address that
               was not declined.  Holds after EVERY history (also those that take the circuit-id path, finding D9).
  `Bind4`    — `PoolInv` plus: every lease in the table is backed by the pool binding of the same MAC.
               Preserved by every operation that does not take the circuit-id-index path.
-/
namespace Bng.Dhcp4
open Bng AMap

/-! ### pool -/

structure PoolInv (c : Cfg) (p : Pool) : Prop where
  inj : ∀ k k' a, lookup p.allocated k = some a → lookup p.allocated k' = some a → k = k'
  nodup : p.avail.Nodup
  disj : ∀ k a, lookup p.allocated k = some a → a ∉ p.avail
  availOk : ∀ a, a ∈ p.avail → c.usable a = true ∧ a ∉ p.unavailable
  allocOk : ∀ k a, lookup p.allocated k = some a → c.usable a = true ∧ a ∉ p.unavailable

theorem holderOf_some {m : AMap Nat Nat} {ip k : Nat} (h : holderOf m ip = some k) :
    lookup m k = some ip := by
  unfold holderOf at h
  have := List.find?_some h
  simpa using this

theorem holderOf_none {m : AMap Nat Nat} {ip : Nat} (h : holderOf m ip = none) (k : Nat) :
    lookup m k ≠ some ip := by
  intro hk
  unfold holderOf at h
  have h1 := List.find?_eq_none.mp h k (mem_keys_of_lookup hk)
  simp [hk] at h1

theorem initialAvail_ok (c : Cfg) (a : Nat) (h : a ∈ c.initialAvail) : c.usable a = true := by
  unfold Cfg.initialAvail at h
  simp only [List.mem_filter, List.mem_map, List.mem_range] at h
  obtain ⟨⟨i, hi, rfl⟩, hg⟩ := h
  unfold Cfg.usable Cfg.bcast
  unfold Cfg.numHosts at hi
  simp only [Bool.and_eq_true, decide_eq_true_eq]
  refine ⟨⟨by omega, by omega⟩, hg⟩

theorem initialAvail_nodup (c : Cfg) : c.initialAvail.Nodup := by
  unfold Cfg.initialAvail
  apply List.Pairwise.filter
  apply List.Pairwise.map _ _ (List.nodup_range (n := c.numHosts))
  intro a b hab
  omega

theorem poolInv_init (c : Cfg) : PoolInv c (init c).pool := by
  refine ⟨?_, initialAvail_nodup c, ?_, ?_, ?_⟩
  · intro k k' a h; simp [init] at h
  · intro k a h; simp [init] at h
  · intro a h; exact ⟨initialAvail_ok c a h, by simp [init]⟩
  · intro k a h; simp [init] at h

theorem poolInv_allocate {c : Cfg} {p : Pool} (hI : PoolInv c p) (mac : Nat) :
    PoolInv c (p.allocate mac).1 := by
  unfold Pool.allocate
  split
  · exact hI
  · rename_i hnone
    split
    · exact hI
    · rename_i ip rest hav
      have hmem : ip ∈ p.avail := by rw [hav]; simp
      have hnd : ip ∉ rest ∧ rest.Nodup := by
        have := hI.nodup; rw [hav] at this; exact List.nodup_cons.mp this
      have hsub : ∀ a, a ∈ rest → a ∈ p.avail := by intro a ha; rw [hav]; exact List.mem_cons_of_mem _ ha
      refine ⟨?_, hnd.2, ?_, ?_, ?_⟩
      · intro k k' a h1 h2
        simp only [lookup_insert] at h1 h2
        by_cases e1 : k = mac <;> by_cases e2 : k' = mac
        · rw [e1, e2]
        · simp only [e1, if_true, Option.some.injEq] at h1
          simp only [e2, if_false] at h2
          subst h1; exact absurd hmem (hI.disj _ _ h2)
        · simp only [e2, if_true, Option.some.injEq] at h2
          simp only [e1, if_false] at h1
          subst h2; exact absurd hmem (hI.disj _ _ h1)
        · simp only [e1, e2, if_false] at h1 h2
          exact hI.inj _ _ _ h1 h2
      · intro k a h
        simp only [lookup_insert] at h
        by_cases e : k = mac
        · simp only [e, if_true, Option.some.injEq] at h; subst h; exact hnd.1
        · simp only [e, if_false] at h
          intro hm; exact hI.disj _ _ h (hsub _ hm)
      · intro a ha; exact hI.availOk a (hsub a ha)
      · intro k a h
        simp only [lookup_insert] at h
        by_cases e : k = mac
        · simp only [e, if_true, Option.some.injEq] at h; subst h; exact hI.availOk _ hmem
        · simp only [e, if_false] at h; exact hI.allocOk _ _ h

/-- what Pool.allocate returns is held by that MAC afterwards -/
theorem allocate_some {p : Pool} {mac ip : Nat} (h : (p.allocate mac).2 = some ip) :
    lookup (p.allocate mac).1.allocated mac = some ip := by
  unfold Pool.allocate at h ⊢
  cases e : lookup p.allocated mac with
  | some ip' => simp only [e] at h ⊢; exact h
  | none =>
    simp only [e] at h ⊢
    cases e2 : p.avail with
    | nil => simp [e2] at h
    | cons a rest => simp only [e2] at h ⊢; simp at h; subst h; simp

/-- a MAC other than the caller keeps what it held -/
theorem allocate_other {p : Pool} {mac k : Nat} (hk : k ≠ mac) :
    lookup (p.allocate mac).1.allocated k = lookup p.allocated k := by
  unfold Pool.allocate
  split
  · rfl
  · split
    · rfl
    · simp [lookup_insert, hk]

theorem allocate_self {p : Pool} {mac a : Nat} (h : lookup p.allocated mac = some a) :
    p.allocate mac = (p, some a) := by
  unfold Pool.allocate; simp [h]

theorem poolInv_reserve {c : Cfg} {p : Pool} (hI : PoolInv c p) (mac ip : Nat) :
    PoolInv c (p.reserve mac ip).1 := by
  unfold Pool.reserve
  split
  · rename_i cur hcur
    split
    · exact hI
    · rename_i hne
      split
      · rename_i hmem
        have hcurNot : cur ∉ p.avail := hI.disj _ _ hcur
        refine ⟨?_, ?_, ?_, ?_, ?_⟩
        · intro k k' a h1 h2
          simp only [lookup_insert] at h1 h2
          by_cases e1 : k = mac <;> by_cases e2 : k' = mac
          · rw [e1, e2]
          · simp only [e1, if_true, Option.some.injEq] at h1
            simp only [e2, if_false] at h2
            subst h1; exact absurd hmem (hI.disj _ _ h2)
          · simp only [e2, if_true, Option.some.injEq] at h2
            simp only [e1, if_false] at h1
            subst h2; exact absurd hmem (hI.disj _ _ h1)
          · simp only [e1, e2, if_false] at h1 h2
            exact hI.inj _ _ _ h1 h2
        · simp only
          rw [List.nodup_append]
          refine ⟨hI.nodup.erase _, by simp, ?_⟩
          intro a ha b hb
          simp only [List.mem_singleton] at hb
          subst hb
          intro e; subst e
          exact hcurNot (List.mem_of_mem_erase ha)
        · intro k a h
          simp only [lookup_insert] at h
          simp only [List.mem_append, List.mem_singleton, not_or]
          by_cases e : k = mac
          · simp only [e, if_true, Option.some.injEq] at h; subst h
            refine ⟨?_, fun e => hne e.symm⟩
            intro hm
            exact ((hI.nodup.mem_erase_iff).mp hm).1 rfl
          · simp only [e, if_false] at h
            refine ⟨fun hm => hI.disj _ _ h (List.mem_of_mem_erase hm), ?_⟩
            intro e2; subst e2
            exact e (hI.inj _ _ _ h hcur)
        · intro a ha
          simp only [List.mem_append, List.mem_singleton] at ha
          rcases ha with ha | ha
          · exact hI.availOk a (List.mem_of_mem_erase ha)
          · subst ha; exact hI.allocOk _ _ hcur
        · intro k a h
          simp only [lookup_insert] at h
          by_cases e : k = mac
          · simp only [e, if_true, Option.some.injEq] at h; subst h; exact hI.availOk _ hmem
          · simp only [e, if_false] at h; exact hI.allocOk _ _ h
      · exact hI
  · rename_i hnone
    split
    · rename_i hmem
      refine ⟨?_, hI.nodup.erase _, ?_, ?_, ?_⟩
      · intro k k' a h1 h2
        simp only [lookup_insert] at h1 h2
        by_cases e1 : k = mac <;> by_cases e2 : k' = mac
        · rw [e1, e2]
        · simp only [e1, if_true, Option.some.injEq] at h1
          simp only [e2, if_false] at h2
          subst h1; exact absurd hmem (hI.disj _ _ h2)
        · simp only [e2, if_true, Option.some.injEq] at h2
          simp only [e1, if_false] at h1
          subst h2; exact absurd hmem (hI.disj _ _ h1)
        · simp only [e1, e2, if_false] at h1 h2
          exact hI.inj _ _ _ h1 h2
      · intro k a h
        simp only [lookup_insert] at h
        by_cases e : k = mac
        · simp only [e, if_true, Option.some.injEq] at h; subst h
          intro hm; exact ((hI.nodup.mem_erase_iff).mp hm).1 rfl
        · simp only [e, if_false] at h
          exact fun hm => hI.disj _ _ h (List.mem_of_mem_erase hm)
      · intro a ha; exact hI.availOk a (List.mem_of_mem_erase ha)
      · intro k a h
        simp only [lookup_insert] at h
        by_cases e : k = mac
        · simp only [e, if_true, Option.some.injEq] at h; subst h; exact hI.availOk _ hmem
        · simp only [e, if_false] at h; exact hI.allocOk _ _ h
    · exact hI

/-- a successful Reserve leaves the address bound to the caller -/
theorem reserve_true {p : Pool} {mac ip : Nat} (h : (p.reserve mac ip).2 = true) :
    lookup (p.reserve mac ip).1.allocated mac = some ip := by
  unfold Pool.reserve at h ⊢
  cases e : lookup p.allocated mac with
  | some cur =>
    simp only [e] at h ⊢
    by_cases e1 : cur = ip
    · simp only [e1, if_true]; rw [e, e1]
    · simp only [e1, if_false] at h ⊢
      by_cases e2 : ip ∈ p.avail
      · simp only [e2, if_true]; simp
      · simp [e2] at h
  | none =>
    simp only [e] at h ⊢
    by_cases e2 : ip ∈ p.avail
    · simp only [e2, if_true]; simp
    · simp [e2] at h

/-- Reserve succeeds exactly when the address is the caller's own or on the free list -/
theorem reserve_true_iff {p : Pool} {mac ip : Nat} :
    (p.reserve mac ip).2 = true ↔ lookup p.allocated mac = some ip ∨ ip ∈ p.avail := by
  unfold Pool.reserve
  cases e : lookup p.allocated mac with
  | some cur =>
    simp only
    by_cases e1 : cur = ip
    · simp [e1]
    · by_cases e2 : ip ∈ p.avail
      · simp [e1, e2]
      · simp [e1, e2]
  | none =>
    simp only
    by_cases e2 : ip ∈ p.avail
    · simp [e2]
    · simp [e2]

theorem reserve_other {p : Pool} {mac ip k : Nat} (hk : k ≠ mac) :
    lookup (p.reserve mac ip).1.allocated k = lookup p.allocated k := by
  unfold Pool.reserve
  split
  · split
    · rfl
    · split
      · simp [lookup_insert, hk]
      · rfl
  · split
    · simp [lookup_insert, hk]
    · rfl

theorem reserve_unavailable (p : Pool) (mac ip : Nat) :
    (p.reserve mac ip).1.unavailable = p.unavailable := by
  unfold Pool.reserve
  split
  · split
    · rfl
    · split <;> rfl
  · split <;> rfl

theorem allocate_unavailable (p : Pool) (mac : Nat) :
    (p.allocate mac).1.unavailable = p.unavailable := by
  unfold Pool.allocate
  split
  · rfl
  · split <;> rfl

/-- Release by value removes exactly the (unique) holder -/
theorem release_of_holder {c : Cfg} {p : Pool} (hI : PoolInv c p) {k ip : Nat}
    (h : lookup p.allocated k = some ip) :
    p.release ip = { p with allocated := erase p.allocated k, avail := p.avail ++ [ip] } := by
  unfold Pool.release
  cases e : holderOf p.allocated ip with
  | none => exact absurd h (holderOf_none e k)
  | some k' =>
    have := hI.inj _ _ _ (holderOf_some e) h
    subst this
    rfl

theorem release_nobody {p : Pool} {ip : Nat} (h : ∀ k, lookup p.allocated k ≠ some ip) :
    p.release ip = p := by
  unfold Pool.release
  cases e : holderOf p.allocated ip with
  | none => rfl
  | some k' => exact absurd (holderOf_some e) (h k')

theorem poolInv_release {c : Cfg} {p : Pool} (hI : PoolInv c p) (ip : Nat) :
    PoolInv c (p.release ip) ∧ ∀ k, lookup (p.release ip).allocated k ≠ some ip := by
  by_cases hex : ∃ k, lookup p.allocated k = some ip
  · obtain ⟨k, hk⟩ := hex
    rw [release_of_holder hI hk]
    refine ⟨⟨?_, ?_, ?_, ?_, ?_⟩, ?_⟩
    · intro k1 k2 a h1 h2
      simp only [lookup_erase] at h1 h2
      by_cases e1 : k1 = k
      · simp [e1] at h1
      · by_cases e2 : k2 = k
        · simp [e2] at h2
        · simp only [e1, e2, if_false] at h1 h2
          exact hI.inj _ _ _ h1 h2
    · simp only
      rw [List.nodup_append]
      refine ⟨hI.nodup, by simp, ?_⟩
      intro a ha b hb
      simp only [List.mem_singleton] at hb
      subst hb
      intro e; subst e
      exact hI.disj _ _ hk ha
    · intro k1 a h1
      simp only [lookup_erase] at h1
      by_cases e1 : k1 = k
      · simp [e1] at h1
      · simp only [e1, if_false] at h1
        simp only [List.mem_append, List.mem_singleton, not_or]
        refine ⟨hI.disj _ _ h1, ?_⟩
        intro e; subst e
        exact e1 (hI.inj _ _ _ h1 hk)
    · intro a ha
      simp only [List.mem_append, List.mem_singleton] at ha
      rcases ha with ha | ha
      · exact hI.availOk a ha
      · subst ha; exact hI.allocOk _ _ hk
    · intro k1 a h1
      simp only [lookup_erase] at h1
      by_cases e1 : k1 = k
      · simp [e1] at h1
      · simp only [e1, if_false] at h1
        exact hI.allocOk _ _ h1
    · intro k1 h1
      simp only [lookup_erase] at h1
      by_cases e1 : k1 = k
      · simp [e1] at h1
      · simp only [e1, if_false] at h1
        exact e1 (hI.inj _ _ _ h1 hk)
  · have hno : ∀ k, lookup p.allocated k ≠ some ip := fun k hk => hex ⟨k, hk⟩
    rw [release_nobody hno]
    exact ⟨hI, hno⟩

theorem release_unavailable (p : Pool) (ip : Nat) : (p.release ip).unavailable = p.unavailable := by
  unfold Pool.release
  split <;> rfl

theorem release_avail_mono (p : Pool) (ip a : Nat) (h : a ∈ p.avail) : a ∈ (p.release ip).avail := by
  unfold Pool.release
  split
  · simp [h]
  · exact h

/-- releasing an address that some MAC holds puts it on the free list -/
theorem release_avail {p : Pool} {k ip : Nat} (h : lookup p.allocated k = some ip) :
    ip ∈ (p.release ip).avail := by
  unfold Pool.release
  cases e : holderOf p.allocated ip with
  | none => exact absurd h (holderOf_none e k)
  | some k' => simp

/-- Release followed by MarkUnavailable of the same address (handleDecline) -/
theorem poolInv_release_mark {c : Cfg} {p : Pool} (hI : PoolInv c p) (ip : Nat) :
    PoolInv c ((p.release ip).markUnavailable ip) := by
  obtain ⟨hR, hno⟩ := poolInv_release hI ip
  generalize p.release ip = q at hR hno
  unfold Pool.markUnavailable
  have hun : ∀ a, a ≠ ip → a ∉ q.unavailable →
      a ∉ (if ip ∈ q.unavailable then q.unavailable else ip :: q.unavailable) := by
    intro a hne hnot
    split
    · exact hnot
    · simp only [List.mem_cons, not_or]; exact ⟨hne, hnot⟩
  refine ⟨hR.inj, hR.nodup.erase _, ?_, ?_, ?_⟩
  · intro k a h hm
    exact hR.disj _ _ h (List.mem_of_mem_erase hm)
  · intro a ha
    have := (hR.nodup.mem_erase_iff).mp ha
    have h2 := hR.availOk a this.2
    exact ⟨h2.1, hun a this.1 h2.2⟩
  · intro k a h
    have h2 := hR.allocOk _ _ h
    refine ⟨h2.1, hun a ?_ h2.2⟩
    intro e; subst e; exact hno k h

theorem mark_mem (p : Pool) (ip : Nat) : ip ∈ (p.markUnavailable ip).unavailable := by
  unfold Pool.markUnavailable
  simp only
  split
  · assumption
  · simp

theorem mark_mono (p : Pool) (ip a : Nat) (h : a ∈ p.unavailable) : a ∈ (p.markUnavailable ip).unavailable := by
  unfold Pool.markUnavailable
  simp only
  split
  · exact h
  · simp [h]

/-! ### server state -/

/-- What the configuration must guarantee about the Nexus API's answers (an ASSUMPTION about an external
    system): it never gives one address to two MACs, and its addresses are not among the host addresses the local
    (walled-garden) pool hands out.  Trivially true when the HTTP allocator is not configured. -/
structure NexusOk (c : Cfg) : Prop where
  inj : ∀ k k' a, c.nexusLookup k = some a → c.nexusLookup k' = some a → k = k'
  apart : ∀ k a, c.nexusLookup k = some a → c.usable a = false

theorem nexusOk_off {c : Cfg} (h : c.nexusMode = false) : NexusOk c := by
  constructor <;> intro k <;> simp [Cfg.nexusLookup, h]

structure Bind4 (s : State) : Prop where
  pool : PoolInv s.cfg s.pool
  nex : NexusOk s.cfg
  /-- every lease is backed by the pool binding of the same MAC, or is that MAC's Nexus allocation -/
  held : ∀ k l, lookup s.leases k = some l →
    lookup s.pool.allocated k = some l.ip ∨ s.cfg.nexusLookup k = some l.ip

theorem bind4_init (c : Cfg) (hN : NexusOk c) : Bind4 (init c) :=
  ⟨poolInv_init c, hN, by intro k l h; simp [init] at h⟩

/-- a Nexus allocation is never an address the pool holds for anybody -/
theorem nexus_not_allocated {s : State} (hI : Bind4 s) {k ip : Nat} (h : s.cfg.nexusLookup k = some ip)
    (k' : Nat) : lookup s.pool.allocated k' ≠ some ip := by
  intro h2
  have a := (hI.pool.allocOk _ _ h2).1
  have b := hI.nex.apart _ _ h
  rw [a] at b; simp at b

theorem existing_of_noHit {s : State} {m : Msg} (h : circuitHit s m = false) :
    existing s m = lookup s.leases m.mac := by
  unfold circuitHit at h
  cases e : lookup s.leases m.mac with
  | some l => unfold existing; simp [e]
  | none =>
    simp only [e, Option.isNone_none, Bool.true_and] at h
    cases e2 : existing s m with
    | none => rfl
    | some l => simp [e2] at h

theorem existing_of_own {s : State} {m : Msg} {l : Lease} (h : lookup s.leases m.mac = some l) :
    existing s m = some l := by
  unfold existing; simp [h]

/-! dropStale touches only the circuit-id index -/

@[simp] theorem dropStale_cfg (s : State) (l : Lease) (c : Option Nat) : (dropStale s l c).cfg = s.cfg := by
  unfold dropStale; split
  · split <;> rfl
  · rfl
@[simp] theorem dropStale_pool (s : State) (l : Lease) (c : Option Nat) : (dropStale s l c).pool = s.pool := by
  unfold dropStale; split
  · split <;> rfl
  · rfl
@[simp] theorem dropStale_leases (s : State) (l : Lease) (c : Option Nat) : (dropStale s l c).leases = s.leases := by
  unfold dropStale; split
  · split <;> rfl
  · rfl
@[simp] theorem dropStale_now (s : State) (l : Lease) (c : Option Nat) : (dropStale s l c).now = s.now := by
  unfold dropStale; split
  · split <;> rfl
  · rfl

/-! cfg and unavailable along steps -/

theorem expireOne_cfg (t : Nat) (s : State) (mac : Nat) : (expireOne t s mac).cfg = s.cfg := by
  unfold expireOne
  split
  · rfl
  · split <;> rfl

theorem foldl_expireOne_cfg (t : Nat) (l : List Nat) (s : State) :
    (l.foldl (expireOne t) s).cfg = s.cfg := by
  induction l generalizing s with
  | nil => rfl
  | cons a rest ih => simp only [List.foldl_cons]; rw [ih, expireOne_cfg]

theorem step_cfg (s : State) (op : Op) : (step s op).1.cfg = s.cfg := by
  cases op with
  | discover m =>
    simp only [step, discover]
    repeat' split
    all_goals rfl
  | request m =>
    simp only [step, request]
    repeat' split
    all_goals first | rfl | simp [commit]
  | release mac =>
    simp only [step, release]
    split <;> rfl
  | decline mac r =>
    simp only [step, decline]
    split
    · rfl
    · split <;> rfl
  | inform mac => rfl
  | advance dt => rfl
  | cleanup order => simp only [step, cleanup]; exact foldl_expireOne_cfg _ _ _
  | cleanupApply t macs => simp only [step, applyList]; exact foldl_expireOne_cfg _ _ _

theorem run_cfg (s : State) (ops : List Op) : (run s ops).cfg = s.cfg := by
  induction ops generalizing s with
  | nil => rfl
  | cons op rest ih =>
    simp only [run, List.foldl_cons] at ih ⊢
    rw [ih, step_cfg]

theorem run_append (s : State) (a b : List Op) : run s (a ++ b) = run (run s a) b := by
  simp [run, List.foldl_append]

theorem run_cons (s : State) (op : Op) (ops : List Op) : run s (op :: ops) = run (step s op).1 ops := by
  simp [run]

/-! ### PoolInv is preserved by EVERY step -/

theorem poolInv_expireOne {s : State} (hI : PoolInv s.cfg s.pool) (t mac : Nat) :
    PoolInv (expireOne t s mac).cfg (expireOne t s mac).pool := by
  unfold expireOne
  split
  · exact hI
  · split
    · exact (poolInv_release hI _).1
    · exact hI

theorem poolInv_foldl_expireOne (t : Nat) (l : List Nat) {s : State} (hI : PoolInv s.cfg s.pool) :
    PoolInv (l.foldl (expireOne t) s).cfg (l.foldl (expireOne t) s).pool := by
  induction l generalizing s with
  | nil => exact hI
  | cons a rest ih => simp only [List.foldl_cons]; exact ih (poolInv_expireOne hI t a)

theorem poolInv_step {s : State} (hI : PoolInv s.cfg s.pool) (op : Op) :
    PoolInv (step s op).1.cfg (step s op).1.pool := by
  cases op with
  | discover m =>
    have hA := poolInv_allocate hI m.mac
    simp only [step, discover]
    repeat' split
    all_goals first
      | exact hI
      | (rename_i p ip heq; rw [heq] at hA; exact hA)
  | request m =>
    have hR := poolInv_reserve hI m.mac (requestedOf m)
    simp only [step, request]
    repeat' split
    all_goals first
      | exact hI
      | (simp only [commit, dropStale_cfg, dropStale_pool]; exact hI)
      | (rename_i p heq; rw [heq] at hR; exact hR)
  | release mac =>
    simp only [step, release]
    split
    · exact hI
    · exact (poolInv_release hI _).1
  | decline mac r =>
    simp only [step, decline]
    split
    · exact hI
    · split
      · exact hI
      · exact poolInv_release_mark hI _
  | inform mac => exact hI
  | advance dt => exact hI
  | cleanup order => simp only [step, cleanup]; exact poolInv_foldl_expireOne _ _ hI
  | cleanupApply t macs => simp only [step, applyList]; exact poolInv_foldl_expireOne _ _ hI

theorem poolInv_run {s : State} (hI : PoolInv s.cfg s.pool) (ops : List Op) :
    PoolInv (run s ops).cfg (run s ops).pool := by
  induction ops generalizing s with
  | nil => exact hI
  | cons op rest ih => rw [run_cons]; exact ih (poolInv_step hI op)

/-! ### Bind4 is preserved by every step that does not take the circuit-id path -/

theorem bind4_drop {s : State} (hI : Bind4 s) {mac : Nat} {l : Lease} (hl : lookup s.leases mac = some l)
    (byCid' : AMap Nat Lease) :
    Bind4 { s with leases := erase s.leases mac, byCid := byCid', pool := s.pool.release l.ip } := by
  refine ⟨(poolInv_release hI.pool _).1, hI.nex, ?_⟩
  intro k l' h
  simp only [lookup_erase] at h
  by_cases e : k = mac
  · simp [e] at h
  · simp only [e, if_false] at h
    rcases hI.held _ _ h with this | this
    · left
      simp only
      rcases hI.held _ _ hl with hp | hn
      · rw [release_of_holder hI.pool hp]
        simp only [lookup_erase, e, if_false]
        exact this
      · rw [release_nobody (nexus_not_allocated hI hn)]; exact this
    · right; exact this

theorem bind4_expireOne {s : State} (hI : Bind4 s) (t mac : Nat) : Bind4 (expireOne t s mac) := by
  unfold expireOne
  split
  · exact hI
  · rename_i l hl
    split
    · exact bind4_drop hI hl _
    · exact hI

theorem bind4_foldl_expireOne (t : Nat) (l : List Nat) {s : State} (hI : Bind4 s) :
    Bind4 (l.foldl (expireOne t) s) := by
  induction l generalizing s with
  | nil => exact hI
  | cons a rest ih => simp only [List.foldl_cons]; exact ih (bind4_expireOne hI t a)

theorem bind4_commit {s : State} (hI : Bind4 s) (m : Msg) (ip : Nat) (cid : Option Nat)
    (hp : lookup s.pool.allocated m.mac = some ip ∨ s.cfg.nexusLookup m.mac = some ip) :
    Bind4 (commit s m ip cid).1 := by
  unfold commit
  refine ⟨hI.pool, hI.nex, ?_⟩
  intro k l h
  simp only [lookup_insert] at h
  by_cases e : k = m.mac
  · simp only [e, if_true, Option.some.injEq] at h
    subst h; rw [e]; exact hp
  · simp only [e, if_false] at h
    exact hI.held _ _ h

theorem bind4_step {s : State} (hI : Bind4 s) (op : Op) (hn : hits s op = false) :
    Bind4 (step s op).1 := by
  cases op with
  | discover m =>
    have hA := poolInv_allocate hI.pool m.mac
    have fresh : ∀ p ip, s.pool.allocate m.mac = (p, some ip) → Bind4 { s with pool := p } := by
      intro p ip heq
      refine ⟨by rw [heq] at hA; exact hA, hI.nex, ?_⟩
      intro k l h
      rcases hI.held _ _ h with h0 | h0
      · left
        by_cases e : k = m.mac
        · have := allocate_self (p := s.pool) (mac := m.mac) (a := l.ip) (by rw [← e]; exact h0)
          rw [this] at heq
          simp only [Prod.mk.injEq] at heq
          rw [← heq.1]; exact h0
        · have := allocate_other (p := s.pool) e
          rw [heq] at this
          simp only at this ⊢
          rw [this]; exact h0
      · right; exact h0
    simp only [step, discover]
    repeat' split
    all_goals first
      | exact hI
      | (rename_i p ip heq; exact fresh p ip heq)
  | request m =>
    simp only [hits] at hn
    have hex := existing_of_noHit hn
    simp only [step, request]
    split
    · rename_i l hl
      split
      · exact hI
      · rename_i hne
        have hne' : l.ip = requestedOf m := by
          by_cases e : l.ip = requestedOf m
          · exact e
          · exact absurd e hne
        rw [hex] at hl
        have hD : ∀ c, Bind4 (dropStale s l c) := fun c =>
          ⟨by simp only [dropStale_cfg, dropStale_pool]; exact hI.pool,
           by simp only [dropStale_cfg]; exact hI.nex,
           by intro k l' h; simp only [dropStale_leases, dropStale_pool, dropStale_cfg] at h ⊢; exact hI.held _ _ h⟩
        apply bind4_commit (hD _)
        simp only [dropStale_pool, dropStale_cfg]
        rw [← hne']; exact hI.held _ _ hl
    · rename_i hnone
      split
      · rename_i nip hnx
        split
        · exact hI
        · rename_i hne
          have : nip = requestedOf m := by
            by_cases e : nip = requestedOf m
            · exact e
            · exact absurd e hne
          exact bind4_commit hI m _ _ (Or.inr (by rw [← this]; exact hnx))
      · split
        · exact hI
        · split
          · rename_i p heq
            have hR := poolInv_reserve hI.pool m.mac (requestedOf m)
            have hT := reserve_true (p := s.pool) (mac := m.mac) (ip := requestedOf m) (by rw [heq])
            rw [heq] at hR hT
            have hB : Bind4 { s with pool := p } := by
              refine ⟨hR, hI.nex, ?_⟩
              intro k l h
              rcases hI.held _ _ h with h0 | h0
              · left
                by_cases e : k = m.mac
                · rw [hex] at hnone; rw [e] at h; simp only at h; rw [hnone] at h; simp at h
                · have := reserve_other (p := s.pool) (mac := m.mac) (ip := requestedOf m) e
                  rw [heq] at this
                  simp only at this ⊢
                  rw [this]; exact h0
              · right; exact h0
            exact bind4_commit hB m _ _ (Or.inl hT)
          · exact hI
  | release mac =>
    simp only [step, release]
    split
    · exact hI
    · rename_i l hl; exact bind4_drop hI hl _
  | decline mac r =>
    simp only [step, decline]
    split
    · exact hI
    · rename_i l hl
      split
      · exact hI
      · have hD := bind4_drop hI hl (dropIndex s.byCid l)
        refine ⟨poolInv_release_mark hI.pool _, hI.nex, ?_⟩
        intro k l' h
        exact hD.held k l' h
  | inform mac => exact hI
  | advance dt => exact ⟨hI.pool, hI.nex, hI.held⟩
  | cleanup order => simp only [step, cleanup]; exact bind4_foldl_expireOne _ _ hI
  | cleanupApply t macs => simp only [step, applyList]; exact bind4_foldl_expireOne _ _ hI

theorem bind4_run {s : State} (hI : Bind4 s) (ops : List Op) (hn : noCircuitHit s ops = true) :
    Bind4 (run s ops) := by
  induction ops generalizing s with
  | nil => exact hI
  | cons op rest ih =>
    simp only [noCircuitHit, Bool.and_eq_true, Bool.not_eq_true'] at hn
    rw [run_cons]
    exact ih (bind4_step hI op hn.1) hn.2

theorem noCircuitHit_append (s : State) (a b : List Op) :
    noCircuitHit s (a ++ b) = (noCircuitHit s a && noCircuitHit (run s a) b) := by
  induction a generalizing s with
  | nil => simp [noCircuitHit, run]
  | cons op rest ih =>
    simp only [List.cons_append, noCircuitHit, run_cons]
    rw [ih]
    simp [Bool.and_assoc]

/-! ### the unavailable set only grows -/

theorem expireOne_unavailable (t : Nat) (s : State) (mac : Nat) :
    (expireOne t s mac).pool.unavailable = s.pool.unavailable := by
  unfold expireOne
  split
  · rfl
  · split
    · exact release_unavailable _ _
    · rfl

theorem foldl_expireOne_unavailable (t : Nat) (l : List Nat) (s : State) :
    (l.foldl (expireOne t) s).pool.unavailable = s.pool.unavailable := by
  induction l generalizing s with
  | nil => rfl
  | cons a rest ih => simp only [List.foldl_cons]; rw [ih, expireOne_unavailable]

theorem step_unavailable_mono (s : State) (op : Op) (a : Nat) (h : a ∈ s.pool.unavailable) :
    a ∈ (step s op).1.pool.unavailable := by
  cases op with
  | discover m =>
    have hA := allocate_unavailable s.pool m.mac
    simp only [step, discover]
    repeat' split
    all_goals first
      | exact h
      | (rename_i p ip heq; rw [heq] at hA; simp only at hA ⊢; rw [hA]; exact h)
  | request m =>
    have hR := reserve_unavailable s.pool m.mac (requestedOf m)
    simp only [step, request]
    repeat' split
    all_goals first
      | exact h
      | (simp only [commit, dropStale_pool]; exact h)
      | (rename_i p heq; rw [heq] at hR; simp only [commit] at hR ⊢; rw [hR]; exact h)
  | release mac =>
    simp only [step, release]
    split
    · exact h
    · simp only; rw [release_unavailable]; exact h
  | decline mac r =>
    simp only [step, decline]
    split
    · exact h
    · split
      · exact h
      · simp only; apply mark_mono; rw [release_unavailable]; exact h
  | inform mac => exact h
  | advance dt => exact h
  | cleanup order => simp only [step, cleanup]; rw [foldl_expireOne_unavailable]; exact h
  | cleanupApply t macs => simp only [step, applyList]; rw [foldl_expireOne_unavailable]; exact h

theorem run_unavailable_mono (s : State) (ops : List Op) (a : Nat) (h : a ∈ s.pool.unavailable) :
    a ∈ (run s ops).pool.unavailable := by
  induction ops generalizing s with
  | nil => exact h
  | cons op rest ih => rw [run_cons]; exact ih _ (step_unavailable_mono s op a h)

/-! ### expiry puts the address back -/

theorem expireOne_avail_mono (t : Nat) (s : State) (mac a : Nat) (h : a ∈ s.pool.avail) :
    a ∈ (expireOne t s mac).pool.avail := by
  unfold expireOne
  split
  · exact h
  · split
    · exact release_avail_mono _ _ _ h
    · exact h

theorem foldl_expireOne_avail_mono (t : Nat) (l : List Nat) (s : State) (a : Nat) (h : a ∈ s.pool.avail) :
    a ∈ (l.foldl (expireOne t) s).pool.avail := by
  induction l generalizing s with
  | nil => exact h
  | cons b rest ih => simp only [List.foldl_cons]; exact ih _ (expireOne_avail_mono t s b a h)

theorem expireOne_other_lease (t : Nat) (s : State) {mac k : Nat} (hk : k ≠ mac) :
    lookup (expireOne t s mac).leases k = lookup s.leases k := by
  unfold expireOne
  split
  · rfl
  · split
    · simp [lookup_erase, hk]
    · rfl

/-- a lease on a host address of the local pool is backed by the pool (not by Nexus) -/
theorem held_local {s : State} (hI : Bind4 s) {k : Nat} {l : Lease} (hl : lookup s.leases k = some l)
    (hloc : s.cfg.usable l.ip = true) : lookup s.pool.allocated k = some l.ip := by
  rcases hI.held _ _ hl with h | h
  · exact h
  · have := hI.nex.apart _ _ h; rw [hloc] at this; simp at this

theorem foldl_expire_frees (t : Nat) (l : List Nat) {s : State} (hI : Bind4 s) {mac : Nat} {le : Lease}
    (hl : lookup s.leases mac = some le) (hloc : s.cfg.usable le.ip = true) (hexp : t > le.exp) (hm : mac ∈ l) :
    le.ip ∈ (l.foldl (expireOne t) s).pool.avail := by
  induction l generalizing s with
  | nil => simp at hm
  | cons b rest ih =>
    simp only [List.foldl_cons]
    by_cases e : b = mac
    · subst e
      apply foldl_expireOne_avail_mono
      unfold expireOne
      simp only [hl, hexp, if_true]
      exact release_avail (held_local hI hl hloc)
    · have hm' : mac ∈ rest := by
        rcases List.mem_cons.mp hm with h | h
        · exact absurd h.symm e
        · exact h
      apply ih (bind4_expireOne hI t b) _ (by rw [expireOne_cfg]; exact hloc) hm'
      rw [expireOne_other_lease t s (fun h => e h.symm)]
      exact hl

/-! ### the split cleanup -/

/-- the removal loop never touches a lease that is not expired at the scan time: a lease renewed between the scan
    and the removal survives -/
theorem applyList_spares (t : Nat) (macs : List Nat) (s : State) (mac : Nat) (l : Lease)
    (hl : lookup s.leases mac = some l) (hlive : ¬ t > l.exp) :
    lookup (applyList t s macs).leases mac = some l := by
  unfold applyList
  induction macs generalizing s with
  | nil => exact hl
  | cons b rest ih =>
    simp only [List.foldl_cons]
    apply ih
    by_cases e : mac = b
    · subst e
      unfold expireOne
      simp only [hl, hlive, if_false]
    · rw [expireOne_other_lease t s e]; exact hl

/-- an undisturbed pass is the scan followed at once by the removal -/
theorem expireOne_skip (t : Nat) (s : State) (mac : Nat)
    (h : (match lookup s.leases mac with | some l => decide (t > l.exp) | none => false) = false) :
    expireOne t s mac = s := by
  unfold expireOne
  cases e : lookup s.leases mac with
  | none => rfl
  | some l => simp only [e, decide_eq_false_iff_not] at h; simp [h]

/-! ### facts about one REQUEST / DISCOVER used by the property theorems -/

/-- pool-backed or Nexus-backed -/
def Backed (s : State) (k ip : Nat) : Prop :=
  lookup s.pool.allocated k = some ip ∨ s.cfg.nexusLookup k = some ip

theorem backing_unique {s : State} (hI : Bind4 s) {k k' ip : Nat} (h : Backed s k ip) (h' : Backed s k' ip) :
    k = k' := by
  rcases h with h | h <;> rcases h' with h' | h'
  · exact hI.pool.inj _ _ _ h h'
  · exact absurd h (nexus_not_allocated hI h' k)
  · exact absurd h' (nexus_not_allocated hI h k')
  · exact hI.nex.inj _ _ _ h h'

/-- a REQUEST changes nobody else's pool binding or lease -/
theorem request_others (s : State) (m : Msg) (k : Nat) (hk : k ≠ m.mac) :
    lookup (request s m).1.pool.allocated k = lookup s.pool.allocated k ∧
    lookup (request s m).1.leases k = lookup s.leases k := by
  have hR := reserve_other (p := s.pool) (mac := m.mac) (ip := requestedOf m) hk
  unfold request
  simp only []
  cases e1 : existing s m with
  | some l =>
    by_cases e2 : l.ip = requestedOf m
    · simp [e2, commit, lookup_insert, hk]
    · simp [e2]
  | none =>
    cases e3 : s.cfg.nexusLookup m.mac with
    | some nip =>
      by_cases e4 : nip = requestedOf m
      · simp [e4, commit, lookup_insert, hk]
      · simp [e4]
    | none =>
      by_cases e5 : s.cfg.contains (requestedOf m) = true
      · cases e6 : s.pool.reserve m.mac (requestedOf m) with
        | mk p b =>
          rw [e6] at hR
          cases b with
          | true => simp [e5, commit, lookup_insert, hk]; exact hR
          | false => simp [e5]
      · simp [e5]

/-- an ACK creates (or replaces) the sender's lease on exactly the acknowledged address -/
theorem ack_lease {s : State} {m : Msg} {ip lt : Nat} (h : (request s m).2 = .ack ip lt) :
    ∃ l, lookup (request s m).1.leases m.mac = some l ∧ l.ip = ip := by
  revert h
  unfold request
  simp only []
  cases e1 : existing s m with
  | some l =>
    by_cases e2 : l.ip = requestedOf m
    · simp only [e2, ne_eq, not_true_eq_false, if_false, commit, Reply.ack.injEq]
      intro h; exact ⟨_, lookup_insert_self _ _ _, h.1⟩
    · simp [e2]
  | none =>
    cases e3 : s.cfg.nexusLookup m.mac with
    | some nip =>
      by_cases e4 : nip = requestedOf m
      · simp only [e4, ne_eq, not_true_eq_false, if_false, commit, Reply.ack.injEq]
        intro h; exact ⟨_, lookup_insert_self _ _ _, h.1⟩
      · simp [e4]
    | none =>
      by_cases e5 : s.cfg.contains (requestedOf m) = true
      · cases e6 : s.pool.reserve m.mac (requestedOf m) with
        | mk p b =>
          cases b with
          | true =>
            simp only [e5, Bool.not_true, Bool.false_eq_true, if_false, commit, Reply.ack.injEq]
            intro h; exact ⟨_, lookup_insert_self _ _ _, h.1⟩
          | false => simp [e5]
      · simp [e5]

/-- whatever a DISCOVER offers is, afterwards, backed for the sender (no circuit-id path) -/
theorem offer_backed {s : State} (hI : Bind4 s) {m : Msg} (hn : circuitHit s m = false) {ip lt : Nat}
    (h : (discover s m).2 = .offer ip lt) : Backed (discover s m).1 m.mac ip := by
  have hex := existing_of_noHit hn
  have key : ∀ s' r, discover s m = (s', r) → r = .offer ip lt → Backed s' m.mac ip := by
    intro s' r h1 h2
    subst h2
    unfold discover at h1
    rw [hex] at h1
    simp only at h1
    cases e : lookup s.leases m.mac with
    | some l =>
      simp only [e] at h1
      by_cases e2 : s.now < l.exp
      · simp only [e2, if_true, Prod.mk.injEq, Reply.offer.injEq] at h1
        obtain ⟨h1, h2, _⟩ := h1
        subst h1; rw [← h2]; exact hI.held _ _ e
      · simp only [e2, if_false] at h1
        cases e3 : s.cfg.nexusLookup m.mac with
        | some nip =>
          simp only [e3, Prod.mk.injEq, Reply.offer.injEq] at h1
          obtain ⟨h1, h2, _⟩ := h1
          subst h1; rw [← h2]; exact Or.inr e3
        | none =>
          simp only [e3] at h1
          cases e4 : s.pool.allocate m.mac with
          | mk p r =>
            cases r with
            | none => simp [e4] at h1
            | some a =>
              simp only [e4, Prod.mk.injEq, Reply.offer.injEq] at h1
              obtain ⟨h1, h2, _⟩ := h1
              subst h1
              have := allocate_some (p := s.pool) (mac := m.mac) (ip := a) (by rw [e4])
              rw [e4] at this
              rw [← h2]; exact Or.inl this
    | none =>
      simp only [e] at h1
      cases e3 : s.cfg.nexusLookup m.mac with
      | some nip =>
        simp only [e3, Prod.mk.injEq, Reply.offer.injEq] at h1
        obtain ⟨h1, h2, _⟩ := h1
        subst h1; rw [← h2]; exact Or.inr e3
      | none =>
        simp only [e3] at h1
        cases e4 : s.pool.allocate m.mac with
        | mk p r =>
          cases r with
          | none => simp [e4] at h1
          | some a =>
            simp only [e4, Prod.mk.injEq, Reply.offer.injEq] at h1
            obtain ⟨h1, h2, _⟩ := h1
            subst h1
            have := allocate_some (p := s.pool) (mac := m.mac) (ip := a) (by rw [e4])
            rw [e4] at this
            rw [← h2]; exact Or.inl this
  exact key _ _ rfl h

/-- a DISCOVER never touches the lease table (it can only add a pool binding) -/
theorem discover_leases (s : State) (m : Msg) : (discover s m).1.leases = s.leases := by
  unfold discover
  have fresh : ∀ x : State × Reply,
      x = (match s.cfg.nexusLookup m.mac with
        | some ip => (s, Reply.offer ip s.cfg.leaseTime)
        | none =>
          match s.pool.allocate m.mac with
          | (p, some ip) => ({ s with pool := p }, Reply.offer ip s.cfg.leaseTime)
          | (_, none) => (s, Reply.none)) → x.1.leases = s.leases := by
    intro x hx
    subst hx
    cases s.cfg.nexusLookup m.mac with
    | some ip => rfl
    | none =>
      simp only
      cases e : s.pool.allocate m.mac with
      | mk p r => cases r <;> rfl
  simp only
  cases existing s m with
  | none => exact fresh _ rfl
  | some l =>
    simp only
    split
    · rfl
    · exact fresh _ rfl

end Bng.Dhcp4
