import Bng.Model.AcctNames
/-
  Lemmas about the file names of pkg/radius/accounting.go (`Bng.AcctNames`): `escape` is injective, emits only
  `safeByte`s, and is the identity on ids made of bytes `keep` lets through.
-/
namespace Bng.AcctNames

theorem hexUp_inj : ∀ a, a < 16 → ∀ b, b < 16 → hexUp a = hexUp b → a = b := by decide

theorem hexUp_keep : ∀ a, a < 16 → keep (hexUp a) = true := by decide

theorem keep_ne_percent (c : UInt8) (h : keep c = true) : c ≠ 0x25 := by
  intro e; subst e; revert h; decide

theorem byte_of_nibbles (a b : UInt8) (h1 : a.toNat / 16 = b.toNat / 16) (h2 : a.toNat % 16 = b.toNat % 16) :
    a = b := by
  apply UInt8.toNat_inj.mp; omega

theorem hi_lt (c : UInt8) : c.toNat / 16 < 16 := by have := c.toNat_lt; omega

theorem escape_injective : ∀ a b : List UInt8, escape a = escape b → a = b
  | [], [] => fun _ => rfl
  | [], c :: cs => by
    intro h; simp only [escape] at h; split at h <;> simp at h
  | c :: cs, [] => by
    intro h; simp only [escape] at h; split at h <;> simp at h
  | c :: cs, d :: ds => by
    intro h
    simp only [escape] at h
    cases hc : keep c <;> cases hd : keep d <;> simp only [hc, hd, if_true, if_false, Bool.false_eq_true] at h
    · injection h with _ h; injection h with h1 h; injection h with h2 h
      have hi := hexUp_inj _ (hi_lt c) _ (hi_lt d) h1
      have lo := hexUp_inj _ (Nat.mod_lt _ (by decide)) _ (Nat.mod_lt _ (by decide)) h2
      rw [byte_of_nibbles c d hi lo, escape_injective cs ds h]
    · injection h with h1 _
      exact absurd h1.symm (keep_ne_percent d hd)
    · injection h with h1 _
      exact absurd h1 (keep_ne_percent c hc)
    · injection h with h1 h
      rw [h1, escape_injective cs ds h]

theorem escape_safe : ∀ (id : List UInt8) (c : UInt8), c ∈ escape id → safeByte c = true
  | [], c => by simp [escape]
  | x :: xs, c => by
    intro h
    simp only [escape] at h
    cases hx : keep x <;> simp only [hx, if_true, if_false, Bool.false_eq_true, List.mem_cons] at h
    · rcases h with h | h | h | h
      · subst h; decide
      · subst h; simp [safeByte, hexUp_keep _ (hi_lt x)]
      · subst h; simp [safeByte, hexUp_keep _ (Nat.mod_lt _ (by decide))]
      · exact escape_safe xs c h
    · rcases h with h | h
      · subst h; simp [safeByte, hx]
      · exact escape_safe xs c h

theorem escape_plain : ∀ id : List UInt8, (∀ c ∈ id, keep c = true) → escape id = id
  | [], _ => rfl
  | x :: xs, h => by
    have hx : keep x = true := h x (by simp)
    simp only [escape, hx, if_true]
    rw [escape_plain xs (fun c hc => h c (by simp [hc]))]

theorem fileName_safe (id : List UInt8) (c : UInt8) (h : c ∈ fileName id) : safeByte c = true := by
  simp only [fileName, List.mem_append] at h
  rcases h with h | h
  · exact escape_safe id c h
  · revert c; decide

end Bng.AcctNames
