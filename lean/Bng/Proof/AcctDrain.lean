import Bng.Proof.Acct
/-
  restart_drains: after a restart with the RADIUS server up, followed by one retry pass with the server up,
  every Stop that was durable (session file, or record stored in pending.json) has been accepted.
-/
namespace Bng.Acct
open Bng AMap

/-! ## running ticks -/

def ticks (n : Nat) : List Op := List.replicate n (.tick .up)
def pticks (n : Nat) : List Op := List.replicate n (.ptick .up)

theorem run_append (σ : State) (l1 l2 : List Op) : run σ (l1 ++ l2) = run (run σ l1) l2 := by
  induction l1 generalizing σ with
  | nil => rfl
  | cons op l1 ih => exact ih (step σ op)

theorem tick_idle {σ : State} (a : Ans) (h : σ.vol.pc = none) : tick σ a = σ := by
  unfold tick; rw [h]

theorem ptick_idle {σ : State} (a : Ans) (h : σ.vol.ppc = none) : ptick σ a = σ := by
  unfold ptick; rw [h]

theorem run_ticks_idle {σ : State} (n : Nat) (h : σ.vol.pc = none) : run σ (ticks n) = σ := by
  induction n with
  | zero => rfl
  | succ n ih =>
    simp only [ticks, List.replicate_succ, run, step]
    rw [tick_idle .up h]
    exact ih

theorem run_pticks_idle {σ : State} (n : Nat) (h : σ.vol.ppc = none) : run σ (pticks n) = σ := by
  induction n with
  | zero => rfl
  | succ n ih =>
    simp only [pticks, List.replicate_succ, run, step]
    rw [ptick_idle .up h]
    exact ih

theorem ticks_add (a b : Nat) : ticks (a + b) = ticks a ++ ticks b := by
  simp [ticks, List.replicate_append_replicate]

/-- if `k` ticks bring the call to completion, any larger number of ticks gives the same state -/
theorem run_ticks_ge {σ : State} {k n : Nat} (hk : (run σ (ticks k)).vol.pc = none) (hn : k ≤ n) :
    run σ (ticks n) = run σ (ticks k) := by
  have : n = k + (n - k) := by omega
  rw [this, ticks_add, run_append, run_ticks_idle _ hk]

theorem run_ticks_succ (σ : State) (k : Nat) : run σ (ticks (k + 1)) = run (tick σ .up) (ticks k) := by
  simp [ticks, List.replicate_succ, run, step]

theorem pticks_add (a b : Nat) : pticks (a + b) = pticks a ++ pticks b := by
  simp [pticks, List.replicate_append_replicate]

theorem run_pticks_ge {σ : State} {k n : Nat} (hk : (run σ (pticks k)).vol.ppc = none) (hn : k ≤ n) :
    run σ (pticks n) = run σ (pticks k) := by
  have : n = k + (n - k) := by omega
  rw [this, pticks_add, run_append, run_pticks_idle _ hk]

theorem run_pticks_succ (σ : State) (k : Nat) : run σ (pticks (k + 1)) = run (ptick σ .up) (pticks k) := by
  simp [pticks, List.replicate_succ, run, step]

/-! ## the retry map as a map -/

theorem findP_cons (p : PRec) (ps : List PRec) (id : Nat) :
    findP (p :: ps) id = if p.id = id then some p else findP ps id := by
  unfold findP
  rw [List.find?_cons]
  by_cases h : p.id = id
  · simp [h]
  · have : (p.id == id) = false := by simpa using h
    simp [h, this]

theorem findP_eraseP_ne (ps : List PRec) {id id' : Nat} (h : id' ≠ id) :
    findP (eraseP ps id) id' = findP ps id' := by
  induction ps with
  | nil => rfl
  | cons p ps ih =>
    unfold eraseP at ih ⊢
    rw [List.filter_cons]
    by_cases e : p.id = id
    · have e1 : (p.id != id) = false := by simp [e]
      rw [e1]
      simp only [Bool.false_eq_true, if_false]
      rw [ih, findP_cons]
      have : ¬ p.id = id' := by rw [e]; exact fun x => h x.symm
      simp [this]
    · have e1 : (p.id != id) = true := by simp [e]
      rw [e1]
      simp only [if_true]
      rw [findP_cons, findP_cons, ih]


/-! ## the retry pass with the server up -/

structure ProcDone (τ τ' : State) (ids : List Nat) : Prop where
  pc : τ'.vol.ppc = none
  apc : τ'.vol.pc = τ.vol.pc
  up : τ'.up = τ.up
  logMono : ∀ r ∈ τ.log, r ∈ τ'.log
  acked : ∀ id ∈ ids, ∀ p, findP τ.vol.pending id = some p → p.req ∈ τ'.log

theorem tick_procSend_true {τ : State} {id : Nat} {rest : List Nat} {p : PRec}
    (hpc : τ.vol.ppc = some (.procSend id rest)) (hp : findP τ.vol.pending id = some p) :
    (ptick τ .up).log = τ.log ++ [p.req] ∧
    (ptick τ .up).vol.pending = eraseP τ.vol.pending id ∧
    (ptick τ .up).vol.pc = τ.vol.pc ∧ (ptick τ .up).up = τ.up ∧
    (ptick τ .up).vol.ppc = (if p.req.kind == .stop then some (.procRemove p.req.sid rest)
      else nextProc (eraseP τ.vol.pending id) rest) := by
  unfold ptick
  rw [hpc]
  simp only [tickProcSend, hp]
  split <;> simp_all [setPpc, accept, notePOrd]

theorem tick_procRemove {τ : State} {s : Nat} {rest : List Nat}
    (hpc : τ.vol.ppc = some (.procRemove s rest)) :
    (ptick τ .up).log = τ.log ∧ (ptick τ .up).vol.pending = τ.vol.pending ∧
    (ptick τ .up).vol.pc = τ.vol.pc ∧ (ptick τ .up).up = τ.up ∧
    (ptick τ .up).vol.ppc = nextProc τ.vol.pending rest := by
  unfold ptick
  rw [hpc]
  simp [tickProcRemove, setPpc, removeFile]

theorem procLoop (ids : List Nat) : ∀ τ : State, τ.vol.ppc = nextProc τ.vol.pending ids →
    ∃ k, k ≤ 2 * ids.length ∧ ProcDone τ (run τ (pticks k)) ids := by
  induction ids with
  | nil =>
    intro τ hpc
    exact ⟨0, by simp, hpc, rfl, rfl, fun r hr => hr, by simp⟩
  | cons id rest ih =>
    intro τ hpc
    cases hf : findP τ.vol.pending id with
    | none =>
      have hpc' : τ.vol.ppc = nextProc τ.vol.pending rest := by
        rw [hpc]; simp [nextProc, hf]
      obtain ⟨k, hk, hd⟩ := ih τ hpc'
      refine ⟨k, by simp; omega, hd.pc, hd.apc, hd.up, hd.logMono, ?_⟩
      intro id' hid' p hp
      rcases List.mem_cons.mp hid' with e | e
      · subst e; rw [hf] at hp; simp at hp
      · exact hd.acked id' e p hp
    | some p =>
      have hpc' : τ.vol.ppc = some (.procSend id rest) := by
        rw [hpc]; simp [nextProc, hf]
      obtain ⟨hl, hpend, hapc, hup, hnpc⟩ := tick_procSend_true hpc' hf
      -- the state from which the rest of the list is processed
      have key : ∃ j, j ≤ 2 ∧ j ≥ 1 ∧ (run τ (pticks j)).vol.ppc = nextProc (run τ (pticks j)).vol.pending rest ∧
          (run τ (pticks j)).log = τ.log ++ [p.req] ∧ (run τ (pticks j)).vol.pending = eraseP τ.vol.pending id ∧
          (run τ (pticks j)).vol.pc = τ.vol.pc ∧ (run τ (pticks j)).up = τ.up := by
        by_cases hk : p.req.kind = .stop
        · refine ⟨2, by omega, by omega, ?_⟩
          have h1 : (ptick τ .up).vol.ppc = some (.procRemove p.req.sid rest) := by
            rw [hnpc]; simp [hk]
          obtain ⟨a1, a2, a4, a5, a3⟩ := tick_procRemove h1
          rw [run_pticks_succ, run_pticks_succ]
          simp only [pticks, List.replicate_zero, run]
          refine ⟨?_, ?_, ?_, ?_, ?_⟩
          · rw [a3, a2]
          · rw [a1, hl]
          · rw [a2, hpend]
          · rw [a4, hapc]
          · rw [a5, hup]
        · refine ⟨1, by omega, by omega, ?_⟩
          rw [run_pticks_succ]
          simp only [pticks, List.replicate_zero, run]
          refine ⟨?_, hl, hpend, hapc, hup⟩
          rw [hnpc, hpend]
          have : (p.req.kind == Kind.stop) = false := by simpa using hk
          simp [this]
      obtain ⟨j, hj2, hj1, jpc, jlog, jpend, japc, jup⟩ := key
      obtain ⟨k, hk, hd⟩ := ih (run τ (pticks j)) jpc
      refine ⟨j + k, by simp; omega, ?_⟩
      rw [pticks_add, run_append]
      refine ⟨hd.pc, by rw [hd.apc, japc], by rw [hd.up, jup], ?_, ?_⟩
      · intro r hr
        apply hd.logMono
        rw [jlog]; exact List.mem_append_left _ hr
      · intro id' hid' q hq
        by_cases e : id' = id
        · subst e
          rw [hf] at hq
          simp only [Option.some.injEq] at hq
          subst hq
          apply hd.logMono
          rw [jlog]; simp
        · rcases List.mem_cons.mp hid' with e' | e'
          · exact absurd e' e
          · apply hd.acked id' e' q
            rw [jpend, findP_eraseP_ne _ e]; exact hq

/-! ## the recovery procedure with the server up -/

theorem tick_recSend_none {τ : State} {s : Nat} {rest recd order : List Nat}
    (hpc : τ.vol.pc = some (.recSend s rest recd order)) (hf : lookup τ.dur.files s = none) :
    tick τ .up = setPc τ (some (nextRec recd order rest)) := by
  unfold tick
  rw [hpc]
  simp only [tickRecSend, hf]

theorem tick_recSend_true {τ : State} {s : Nat} {rest recd order : List Nat} {x : Sess}
    (hpc : τ.vol.pc = some (.recSend s rest recd order)) (hf : lookup τ.dur.files s = some x) :
    tick τ .up = setPc (accept τ (stopRec s x (if x.stopCause = 0 then 11 else x.stopCause) (x.lastIn, x.lastOut)) true)
      (some (.recRemove s rest recd order)) := by
  unfold tick
  rw [hpc]
  simp only [tickRecSend, hf, send]

theorem tick_recRemove {τ : State} {s : Nat} {rest recd order : List Nat}
    (hpc : τ.vol.pc = some (.recRemove s rest recd order)) :
    tick τ .up = setPc (removeFile τ s) (some (nextRec (s :: recd) order rest)) := by
  unfold tick
  rw [hpc]
  simp only [tickRecRemove]

structure RecDone (τ τ' : State) (rest recd recd' order : List Nat) : Prop where
  pc : τ'.vol.pc = some (.recLoad recd' order)
  logMono : ∀ r ∈ τ.log, r ∈ τ'.log
  pending : τ'.vol.pending = τ.vol.pending
  pfile : τ'.dur.pfile = τ.dur.pfile
  up : τ'.up = τ.up
  ppc : τ'.vol.ppc = τ.vol.ppc
  acked : ∀ s ∈ rest, (lookup τ.dur.files s).isSome → stopIn τ'.log s
  recd : ∀ s ∈ recd', s ∈ recd ∨ stopIn τ'.log s

theorem recLoop (order : List Nat) (rest : List Nat) : ∀ (τ : State) (recd : List Nat),
    τ.vol.pc = some (nextRec recd order rest) →
    ∃ k recd', k ≤ 2 * rest.length ∧ RecDone τ (run τ (ticks k)) rest recd recd' order := by
  induction rest with
  | nil =>
    intro τ recd hpc
    exact ⟨0, recd, by simp, hpc, fun r hr => hr, rfl, rfl, rfl, rfl, by simp, fun s hs => Or.inl hs⟩
  | cons s rest ih =>
    intro τ recd hpc
    have hpc' : τ.vol.pc = some (.recSend s rest recd order) := hpc
    cases hf : lookup τ.dur.files s with
    | none =>
      have e := tick_recSend_none hpc' hf
      obtain ⟨k, recd', hk, hd⟩ := ih (tick τ .up) recd (by rw [e]; rfl)
      refine ⟨k + 1, recd', by simp; omega, ?_⟩
      rw [run_ticks_succ]
      refine ⟨hd.pc, ?_, ?_, ?_, ?_, ?_, ?_, hd.recd⟩
      · intro r hr; apply hd.logMono; rw [e]; exact hr
      · rw [hd.pending, e]; rfl
      · rw [hd.pfile, e]; rfl
      · rw [hd.up, e]; rfl
      · rw [hd.ppc, e]; rfl
      · intro s' hs' hsome
        rcases List.mem_cons.mp hs' with e' | e'
        · subst e'; rw [hf] at hsome; simp at hsome
        · apply hd.acked s' e'
          rw [e]; exact hsome
    | some x =>
      have e1 := tick_recSend_true hpc' hf
      have hpc2 : (tick τ .up).vol.pc = some (.recRemove s rest recd order) := by rw [e1]; rfl
      have e2 := tick_recRemove hpc2
      have hlog2 : (tick (tick τ .up) .up).log = τ.log ++
          [stopRec s x (if x.stopCause = 0 then 11 else x.stopCause) (x.lastIn, x.lastOut)] := by
        rw [e2, e1]; rfl
      have hstop : stopIn (tick (tick τ .up) .up).log s := by
        rw [hlog2]
        exact ⟨_, List.mem_append_right _ List.mem_cons_self, rfl, rfl⟩
      obtain ⟨k, recd', hk, hd⟩ := ih (tick (tick τ .up) .up) (s :: recd) (by rw [e2]; rfl)
      refine ⟨k + 2, recd', by simp; omega, ?_⟩
      rw [show k + 2 = (k + 1) + 1 from rfl, run_ticks_succ, run_ticks_succ]
      have mono : ∀ r ∈ (tick (tick τ .up) .up).log, r ∈ (run (tick (tick τ .up) .up) (ticks k)).log :=
        hd.logMono
      refine ⟨hd.pc, ?_, ?_, ?_, ?_, ?_, ?_, ?_⟩
      · intro r hr; apply mono; rw [hlog2]; exact List.mem_append_left _ hr
      · rw [hd.pending, e2, e1]; rfl
      · rw [hd.pfile, e2, e1]; rfl
      · rw [hd.up, e2, e1]; rfl
      · rw [hd.ppc, e2, e1]; rfl
      · intro s' hs' hsome
        by_cases es : s' = s
        · subst es
          obtain ⟨r, hr, h1⟩ := hstop
          exact ⟨r, mono r hr, h1⟩
        · rcases List.mem_cons.mp hs' with e' | e'
          · exact absurd e' es
          · apply hd.acked s' e'
            rw [e2, e1]
            simp only [setPc, removeFile, accept, lookup_erase, es, if_false]
            exact hsome
      · intro s' hs'
        rcases hd.recd s' hs' with h1 | h1
        · rcases List.mem_cons.mp h1 with e' | e'
          · subst e'
            right
            obtain ⟨r, hr, h2⟩ := hstop
            exact ⟨r, mono r hr, h2⟩
          · exact Or.inl e'
        · exact Or.inr h1


/-! ## order normalisation and loading pending.json -/

theorem mem_dedupNat {l : List Nat} {k : Nat} : k ∈ dedupNat l ↔ k ∈ l := by
  induction l with
  | nil => simp [dedupNat]
  | cons x xs ih =>
    simp only [dedupNat, List.mem_cons, List.mem_filter]
    constructor
    · rintro (h | ⟨h, _⟩)
      · exact Or.inl h
      · exact Or.inr (ih.mp h)
    · rintro (h | h)
      · exact Or.inl h
      · by_cases e : k = x
        · exact Or.inl e
        · exact Or.inr ⟨ih.mpr h, by simpa using e⟩

theorem nodup_dedupNat (l : List Nat) : (dedupNat l).Nodup := by
  induction l with
  | nil => simp [dedupNat]
  | cons x xs ih =>
    simp only [dedupNat, List.nodup_cons]
    constructor
    · simp [List.mem_filter]
    · exact List.Nodup.sublist List.filter_sublist ih

theorem mem_normalize {order keys : List Nat} {k : Nat} (h : k ∈ keys) : k ∈ normalize order keys := by
  unfold normalize
  exact mem_dedupNat.mpr (List.mem_append_right _ h)

theorem nodup_normalize (order keys : List Nat) : (normalize order keys).Nodup := nodup_dedupNat _

theorem recOfIds_cons (ps : List PRec) (i : Nat) (t : List Nat) :
    recOfIds ps (i :: t) = match findP ps i with
      | some p => p :: recOfIds ps t
      | none => recOfIds ps t := by
  unfold recOfIds
  rw [List.filterMap_cons]
  cases findP ps i <;> rfl

theorem recOfIds_id_mem {ps : List PRec} {ids : List Nat} {q : PRec} (h : q ∈ recOfIds ps ids) : q.id ∈ ids := by
  unfold recOfIds at h
  obtain ⟨i, hi, hf⟩ := List.mem_filterMap.mp h
  rw [findP_id hf]; exact hi

theorem recOfIds_nodup (ps : List PRec) {ids : List Nat} (h : ids.Nodup) :
    ((recOfIds ps ids).map (·.id)).Nodup := by
  induction ids with
  | nil => simp [recOfIds]
  | cons i t ih =>
    rw [recOfIds_cons]
    have ht := (List.nodup_cons.mp h)
    cases hf : findP ps i with
    | none => exact ih ht.2
    | some p =>
      simp only [List.map_cons, List.nodup_cons]
      refine ⟨?_, ih ht.2⟩
      intro hm
      obtain ⟨q, hq, e⟩ := List.mem_map.mp hm
      have := recOfIds_id_mem hq
      rw [e, findP_id hf] at this
      exact ht.1 this

theorem mem_recOfIds_of_find {ps : List PRec} {ids : List Nat} {i : Nat} {p : PRec}
    (hi : i ∈ ids) (hf : findP ps i = some p) : p ∈ recOfIds ps ids := by
  unfold recOfIds
  exact List.mem_filterMap.mpr ⟨i, hi, hf⟩

def skipped (recd : List Nat) (q : PRec) : Prop := q.req.kind = .stop ∧ q.req.sid ∈ recd

theorem loadPending_cons_skip {σ : State} {recd : List Nat} {a : PRec} {t : List PRec}
    (h : skipped recd a) : loadPending σ recd (a :: t) = loadPending σ recd t := by
  have : (a.req.kind == Kind.stop && recd.contains a.req.sid) = true := by
    simp [h.1, h.2]
  simp only [loadPending, this, if_true]

def loadOne (σ : State) (a : PRec) : State :=
  { σ with
    vol := { σ.vol with
      pending := { a with viaRecovery := true } :: σ.vol.pending
      queue := if σ.vol.queue.length < σ.cfg.queueCap then σ.vol.queue ++ [a.id] else σ.vol.queue }
    recVol := if a.req.kind == .stop then a.req.sid :: σ.recVol else σ.recVol }

theorem loadPending_cons_load {σ : State} {recd : List Nat} {a : PRec} {t : List PRec}
    (h : ¬ skipped recd a) : loadPending σ recd (a :: t) = loadPending (loadOne σ a) recd t := by
  have : (a.req.kind == Kind.stop && recd.contains a.req.sid) = false := by
    unfold skipped at h
    cases hk : (a.req.kind == Kind.stop) with
    | false => simp
    | true =>
      have hk' : a.req.kind = .stop := by simpa using hk
      have : a.req.sid ∉ recd := fun hm => h ⟨hk', hm⟩
      simp [this]
  simp only [loadPending, this, loadOne]
  rfl

theorem loadPending_find_other (recd : List Nat) (l : List PRec) : ∀ (σ : State) (i : Nat),
    i ∉ l.map (·.id) → findP (loadPending σ recd l).vol.pending i = findP σ.vol.pending i := by
  induction l with
  | nil => intro σ i _; rfl
  | cons a t ih =>
    intro σ i hi
    simp only [List.map_cons, List.mem_cons, not_or] at hi
    by_cases hs : skipped recd a
    · rw [loadPending_cons_skip hs]; exact ih σ i hi.2
    · rw [loadPending_cons_load hs, ih _ i hi.2]
      simp only [loadOne, findP_cons]
      have : ¬ a.id = i := fun e => hi.1 e.symm
      simp [this]

theorem loadPending_find_loaded (recd : List Nat) (l : List PRec) : ∀ (σ : State),
    (l.map (·.id)).Nodup → ∀ q ∈ l, ¬ skipped recd q →
    findP (loadPending σ recd l).vol.pending q.id = some { q with viaRecovery := true } := by
  induction l with
  | nil => intro σ _ q hq; simp at hq
  | cons a t ih =>
    intro σ hnd q hq hns
    simp only [List.map_cons, List.nodup_cons] at hnd
    by_cases hs : skipped recd a
    · rw [loadPending_cons_skip hs]
      rcases List.mem_cons.mp hq with e | e
      · subst e; exact absurd hs hns
      · exact ih σ hnd.2 q e hns
    · rw [loadPending_cons_load hs]
      rcases List.mem_cons.mp hq with e | e
      · subst e
        rw [loadPending_find_other recd t _ _ hnd.1]
        simp [loadOne, findP_cons]
      · exact ih _ hnd.2 q e hns


/-! ## the sessions directory exists once a session was started -/

theorem tick_dirMade (σ : State) (a : Ans) (h : σ.dur.dirMade = true) : (tick σ a).dur.dirMade = true := by
  unfold tick
  split
  · exact h
  · unfold tickStartSend send; repeat' (first | exact h | split)
  · unfold tickStartPersist persistSession; repeat' (first | exact h | rfl | split)
  · unfold tickStopPersist persistSession; repeat' (first | exact h | rfl | split)
  · unfold tickStopSend send; repeat' (first | exact h | split)
  · exact h
  · unfold tickStopRemove; repeat' (first | exact h | split)
  · exact h
  · exact h
  · exact h
  · unfold tickDrainSend; repeat' (first | exact h | split)
  · exact h
  · unfold tickPersistPending; dsimp only; repeat' (first | exact h | split)
  · unfold tickRecSend send; repeat' (first | exact h | split)
  · exact h
  · unfold tickRecLoad
    split
    · exact h
    · simp only [setPc]; rw [(loadPending_spec _ _ _).dur]; exact h
  · exact h

theorem step_dirMade (σ : State) (op : Op) (h : σ.dur.dirMade = true) : (step σ op).dur.dirMade = true := by
  cases op with
  | tick a => exact tick_dirMade σ a h
  | ptick a =>
    have := ptick_ghost (fun σ => σ.dur.dirMade) (fun _ _ => rfl) (fun _ _ => rfl) (fun _ _ _ => rfl)
      (fun _ _ => rfl) (fun _ _ => rfl) (fun _ _ _ => rfl) σ a
    simp only [step]; rw [this]; exact h
  | itick a =>
    have := itick_ghost (fun σ => σ.dur.dirMade) (fun _ _ => rfl) (fun _ _ _ => rfl) (fun _ _ _ => rfl)
      (fun _ _ => rfl) σ a
    simp only [step]; rw [this]; exact h
  | crash => exact h
  | crashTorn =>
    simp only [step, crash]
    unfold tornEffect
    repeat' (first | exact h | rfl | split)
  | ctr s i o => exact h
  | restart order =>
    simp only [step]
    split
    · exact h
    · unfold callRestart; dsimp only; split <;> exact h
  | start s ident =>
    simp only [step]
    split
    · exact h
    · split
      · exact h
      · unfold callStart
        split <;> exact h
  | interim s =>
    simp only [step]
    split
    · exact h
    · split
      · exact h
      · unfold callInterim
        split
        · exact h
        · split <;> exact h
  | stop s cause =>
    simp only [step]
    split
    · exact h
    · split
      · exact h
      · unfold callStop
        split <;> exact h
  | deq =>
    simp only [step]
    split
    · exact h
    · split
      · exact h
      · unfold callDeq
        split <;> exact h
  | retry order =>
    simp only [step]
    split
    · exact h
    · split <;> exact h
  | shutdown order =>
    simp only [step]
    split
    · exact h
    · split <;> exact h

theorem tick_started_dir (σ : State) (a : Ans) (s : Nat) (h : s ∈ (tick σ a).started) :
    s ∈ σ.started ∨ (tick σ a).dur.dirMade = true := by
  rcases tick_started σ a s h with h1 | h1
  · exact Or.inl h1
  · by_cases hs : s ∈ σ.started
    · exact Or.inl hs
    · right
      unfold tick at h ⊢
      rw [h1] at h ⊢
      simp only [tickStartPersist] at h ⊢
      split at h
      · exact absurd h hs
      · rename_i x hx
        simp [setPc, persistSession, hx]

theorem started_dir_run (c : Cfg) (ops : List Op) :
    (run (init c) ops).started ≠ [] → (run (init c) ops).dur.dirMade = true := by
  suffices H : ∀ σ : State, (σ.started ≠ [] → σ.dur.dirMade = true) →
      ((run σ ops).started ≠ [] → (run σ ops).dur.dirMade = true) from
    H (init c) (by simp [init])
  induction ops with
  | nil => intro σ h; exact h
  | cons op ops ih =>
    intro σ h
    apply ih
    intro hne
    by_cases hd : σ.dur.dirMade = true
    · exact step_dirMade σ op hd
    · have hs : σ.started = [] := by
        by_cases e : σ.started = []
        · exact e
        · exact absurd (h e) hd
      obtain ⟨s, hs'⟩ := List.exists_mem_of_ne_nil _ hne
      rcases started_step σ op s hs' with h1 | ⟨⟨a, e⟩, _⟩
      · rw [hs] at h1; simp at h1
      · subst e
        rcases tick_started_dir σ a s hs' with h1 | h1
        · rw [hs] at h1; simp at h1
        · exact h1

/-! ## restart_drains -/

/-- a Stop of session `s` is on disk: its session file, or a record stored in pending.json -/
def durableStop (σ : State) (s : Nat) : Prop :=
  (lookup σ.dur.files s).isSome ∨
  ∃ ps id p, σ.dur.pfile = some ps ∧ findP ps id = some p ∧ p.req.kind = .stop ∧ p.req.sid = s

/-- restart, run the recovery to completion with the server up, one retry pass with the server up -/
def drainOps (order order2 : List Nat) (n : Nat) : List Op :=
  [Op.restart order] ++ ticks n ++ [Op.retry order2] ++ pticks n

def drainBound (σ : State) : Nat :=
  2 * (keys σ.dur.files).length + 2 * (match σ.dur.pfile with | some ps => ps.length | none => 0) + 2


theorem mem_insertNat {x y : Nat} {l : List Nat} : y ∈ insertNat x l ↔ y = x ∨ y ∈ l := by
  induction l with
  | nil => simp [insertNat]
  | cons z zs ih =>
    simp only [insertNat]
    split
    · simp
    · simp only [List.mem_cons, ih]
      constructor
      · rintro (h | h | h)
        · exact Or.inr (Or.inl h)
        · exact Or.inl h
        · exact Or.inr (Or.inr h)
      · rintro (h | h | h)
        · exact Or.inr (Or.inl h)
        · exact Or.inl h
        · exact Or.inr (Or.inr h)

theorem mem_sortNat {y : Nat} {l : List Nat} : y ∈ sortNat l ↔ y ∈ l := by
  induction l with
  | nil => simp [sortNat]
  | cons z zs ih =>
    simp only [sortNat, List.foldr_cons, List.mem_cons]
    rw [mem_insertNat]
    unfold sortNat at ih
    rw [ih]

theorem tick_recPendRemove {τ : State} {a : Ans} (h : τ.vol.pc = some .recPendRemove) :
    tick τ a = tickRecPendRemove τ := by
  unfold tick; rw [h]

/-- the two ticks that end the recovery procedure (load pending.json, remove it) -/
theorem recTail {τ : State} {recd order : List Nat} (hpc : τ.vol.pc = some (.recLoad recd order)) :
    let τ2 := run τ (ticks 2)
    τ2.vol.pc = none ∧ τ2.log = τ.log ∧ τ2.up = τ.up ∧ τ2.vol.ppc = τ.vol.ppc ∧
    (∀ ps id p, τ.dur.pfile = some ps → findP ps id = some p → ¬ skipped recd p →
      ∃ p', findP τ2.vol.pending p.id = some p' ∧ p'.req = p.req) := by
  intro τ2
  have e2 : τ2 = tick (tick τ .up) .up := by
    simp [τ2, ticks, List.replicate, run, step]
  cases hpf : τ.dur.pfile with
  | none =>
    have e1 : tick τ .up = setPc τ none := by
      unfold tick; rw [hpc]; simp only [tickRecLoad, hpf]
    have e3 : tick (tick τ .up) .up = setPc τ none := by
      rw [e1]; exact tick_idle .up rfl
    rw [e2, e3]
    refine ⟨rfl, rfl, rfl, rfl, ?_⟩
    intro ps id p h; simp at h
  | some ps =>
    have e1 : tick τ .up = setPc (loadPending τ recd (recOfIds ps (normalize order (ps.map (·.id)))))
        (some .recPendRemove) := by
      unfold tick; rw [hpc]; simp only [tickRecLoad, hpf]
    have e3 : tick (tick τ .up) .up = tickRecPendRemove (tick τ .up) := by
      have : (tick τ .up).vol.pc = some .recPendRemove := by rw [e1]; rfl
      exact tick_recPendRemove this
    have sp := loadPending_spec τ recd (recOfIds ps (normalize order (ps.map (·.id))))
    rw [e2, e3, e1]
    refine ⟨rfl, ?_, ?_, ?_, ?_⟩
    · exact sp.log
    · exact sp.up
    · exact sp.ppc
    · intro ps' id p h1 h2 h3
      simp only [Option.some.injEq] at h1
      subst h1
      have hid : p.id = id := findP_id h2
      have hmem : p ∈ recOfIds ps (normalize order (ps.map (·.id))) := by
        apply mem_recOfIds_of_find _ h2
        apply mem_normalize
        rw [← hid]
        exact List.mem_map.mpr ⟨p, findP_mem h2, rfl⟩
      have := loadPending_find_loaded recd _ τ (recOfIds_nodup ps (nodup_normalize _ _)) p hmem h3
      exact ⟨_, this, rfl⟩

theorem restart_drains_core (σ : State) (hdown : σ.up = false) (hdir : σ.dur.dirMade = true)
    (order order2 : List Nat) :
    ∃ N, ∀ n, N ≤ n → ∀ s, durableStop σ s →
      stopIn (run σ (drainOps order order2 n)).log s ∧ (run σ (drainOps order order2 n)).vol.pc = none ∧
      (run σ (drainOps order order2 n)).vol.ppc = none := by
  -- the restart call
  let σ1 := step σ (.restart order)
  have hσ1 : σ1 = setPc (begin { σ with up := true, vol := {} } .ok)
      (some (nextRec [] order (sortNat (keys σ.dur.files)))) := by
    simp only [σ1, step, hdown, callRestart, begin, hdir]
    simp
  have h1pc : σ1.vol.pc = some (nextRec [] order (sortNat (keys σ.dur.files))) := by rw [hσ1]; rfl
  obtain ⟨k1, recd', _, rd⟩ := recLoop order (sortNat (keys σ.dur.files)) σ1 [] h1pc
  let τ := run σ1 (ticks k1)
  obtain ⟨t1, t2, t3, t5, t4⟩ := recTail rd.pc
  -- the state after the recovery
  let T1 := run σ1 (ticks (k1 + 2))
  have hT1 : T1 = run τ (ticks 2) := by simp only [T1, τ, ticks_add, run_append]
  have T1pc : T1.vol.pc = none := by rw [hT1]; exact t1
  have T1up : T1.up = true := by rw [hT1, t3, rd.up, hσ1]; rfl
  have T1ppc : T1.vol.ppc = none := by rw [hT1, t5, rd.ppc, hσ1]; rfl
  have T1log : ∀ r ∈ τ.log, r ∈ T1.log := by rw [hT1, t2]; exact fun r hr => hr
  -- the retry call
  let σ2 := step T1 (.retry order2)
  have hσ2 : σ2 = callRetry T1 order2 := by
    simp only [σ2, step, T1up, T1pc, T1ppc]
    simp [procAlive]
  have h2pc : σ2.vol.ppc = nextProc σ2.vol.pending (normalize order2 (T1.vol.pending.map (·.id))) := by
    rw [hσ2]; rfl
  obtain ⟨k2, _, pd⟩ := procLoop _ σ2 h2pc
  refine ⟨max (k1 + 2) k2, ?_⟩
  intro n hn s hs
  have hn1 : k1 + 2 ≤ n := by omega
  have hn2 : k2 ≤ n := by omega
  have e : run σ (drainOps order order2 n) = run σ2 (pticks k2) := by
    unfold drainOps
    rw [run_append, run_append, run_append]
    have a1 : run σ [Op.restart order] = σ1 := rfl
    rw [a1, run_ticks_ge (k := k1 + 2) T1pc hn1]
    have a2 : run (run σ1 (ticks (k1 + 2))) [Op.retry order2] = σ2 := rfl
    rw [a2, run_pticks_ge pd.pc hn2]
  rw [e]
  refine ⟨?_, by rw [pd.apc, hσ2]; exact T1pc, pd.pc⟩
  have lift : ∀ r ∈ τ.log, r ∈ (run σ2 (pticks k2)).log := by
    intro r hr
    apply pd.logMono
    rw [hσ2]
    exact T1log r hr
  rcases hs with hf | ⟨ps, id, p, hps, hfp, hk, hsid⟩
  · -- the session file: its Stop is sent by the recovery
    have hmem : s ∈ sortNat (keys σ.dur.files) := by
      cases hl : lookup σ.dur.files s with
      | none => rw [hl] at hf; simp at hf
      | some x => exact mem_sortNat.mpr (mem_keys_of_lookup hl)
    have hfile : (lookup σ1.dur.files s).isSome := by rw [hσ1]; exact hf
    obtain ⟨r, hr, h1⟩ := rd.acked s hmem hfile
    exact ⟨r, lift r hr, h1⟩
  · -- a Stop stored in pending.json
    by_cases hsk : skipped recd' p
    · -- its session was recovered from the session file in this very restart
      rcases rd.recd _ hsk.2 with h0 | h0
      · simp at h0
      · obtain ⟨r, hr, h1⟩ := h0
        exact ⟨r, lift r hr, by rw [← hsid]; exact h1⟩
    · have hpf : τ.dur.pfile = some ps := by rw [rd.pfile, hσ1]; exact hps
      obtain ⟨p', hp', hreq⟩ := t4 ps id p hpf hfp hsk
      have hp2 : findP σ2.vol.pending p.id = some p' := by rw [hσ2]; rw [hT1]; exact hp'
      have hin : p.id ∈ normalize order2 (T1.vol.pending.map (·.id)) := by
        apply mem_normalize
        have : p' ∈ T1.vol.pending := by rw [hT1]; exact findP_mem hp'
        have hid : p'.id = p.id := findP_id hp'
        rw [← hid]
        exact List.mem_map.mpr ⟨p', this, rfl⟩
      have := pd.acked p.id hin p' hp2
      exact ⟨p'.req, this, by rw [hreq]; exact hk, by rw [hreq]; exact hsid⟩


/-- the server's log only grows -/
theorem log_mono_step (σ : State) (op : Op) (r : Rec) (h : r ∈ σ.log) : r ∈ (step σ op).log := by
  by_cases ht : ∃ a, op = .tick a
  · obtain ⟨a, e⟩ := ht; subst e; exact log_mono_tick σ a r h
  · by_cases hp : ∃ a, op = .ptick a
    · obtain ⟨a, e⟩ := hp; subst e; exact log_mono_ptick σ a r h
    · by_cases hi : ∃ a, op = .itick a
      · obtain ⟨a, e⟩ := hi; subst e; exact log_mono_itick σ a r h
      · have := step_ghost_simple State.log (fun _ _ => rfl) (fun _ _ => rfl) (fun _ _ => rfl) (fun _ _ => rfl) (fun _ _ => rfl)
          (fun _ _ => rfl) (fun _ _ => rfl) (fun _ _ => rfl) (fun _ _ => rfl) (fun _ _ _ => rfl)
          (fun _ _ => rfl) (fun _ => rfl) (fun _ _ => rfl) (fun _ _ _ => rfl) σ op
          (fun a e => ht ⟨a, e⟩) (fun a e => hp ⟨a, e⟩) (fun a e => hi ⟨a, e⟩)
        rw [this]; exact h

end Bng.Acct
