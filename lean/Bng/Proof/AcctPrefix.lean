import Bng.Proof.AcctNoDup
/-
  Every record of the server's log was appended by one step of the history; at that moment the session id and
  the identifiers it carries had already been registered by an admitted StartSession call.
-/
namespace Bng.Acct
open Bng AMap

/-- one step appends at most one record to the server's log -/
theorem log_tick_shape (σ : State) (a : Ans) :
    (tick σ a).log = σ.log ∨ ∃ r, (tick σ a).log = σ.log ++ [r] := by
  unfold tick
  split
  · exact Or.inl rfl
  · unfold tickStartSend send accept enqueue
    repeat' (first | exact Or.inl rfl | exact Or.inr ⟨_, rfl⟩ | split)
  · left; unfold tickStartPersist persistSession; repeat' (first | rfl | split)
  · left; unfold tickStopPersist persistSession; repeat' (first | rfl | split)
  · unfold tickStopSend send accept enqueue
    repeat' (first | exact Or.inl rfl | exact Or.inr ⟨_, rfl⟩ | split)
  · exact Or.inl rfl
  · left; unfold tickStopRemove; repeat' (first | rfl | split)
  · exact Or.inl rfl
  · exact Or.inl rfl
  · exact Or.inl rfl
  · unfold tickDrainSend accept enqueue
    repeat' (first | exact Or.inl rfl | exact Or.inr ⟨_, rfl⟩ | split)
  · exact Or.inl rfl
  · left; unfold tickPersistPending; repeat' (first | rfl | split)
  · unfold tickRecSend send accept enqueue
    repeat' (first | exact Or.inl rfl | exact Or.inr ⟨_, rfl⟩ | split)
  · exact Or.inl rfl
  · left
    unfold tickRecLoad
    split
    · rfl
    · exact (loadPending_spec _ _ _).log
  · exact Or.inl rfl

theorem log_ptick_shape (σ : State) (a : Ans) :
    (ptick σ a).log = σ.log ∨ ∃ r, (ptick σ a).log = σ.log ++ [r] := by
  unfold ptick
  split
  · unfold tickProcSend procFail accept
    split
    · exact Or.inl rfl
    · dsimp only
      repeat' (first | exact Or.inl rfl | exact Or.inr ⟨_, rfl⟩ | split)
  · exact Or.inl rfl
  · exact Or.inl rfl

theorem log_itick_shape (σ : State) (a : Ans) :
    (itick σ a).log = σ.log ∨ ∃ r, (itick σ a).log = σ.log ++ [r] := by
  unfold itick
  split
  · unfold tickIntSend accept enqueue
    dsimp only
    repeat' (first | exact Or.inl rfl | exact Or.inr ⟨_, rfl⟩ | split)
  · exact Or.inl rfl

/-- a step that appends to the log is a micro-step; it registers nothing -/
theorem log_step_shape (σ : State) (op : Op) :
    (step σ op).log = σ.log ∨
    (∃ r, (step σ op).log = σ.log ++ [r]) ∧ (step σ op).registered = σ.registered := by
  by_cases ht : ∃ a, op = .tick a
  · obtain ⟨a, e⟩ := ht; subst e
    rcases log_tick_shape σ a with h | h
    · exact Or.inl h
    · exact Or.inr ⟨h, tick_registered σ a⟩
  · by_cases hp : ∃ a, op = .ptick a
    · obtain ⟨a, e⟩ := hp; subst e
      rcases log_ptick_shape σ a with h | h
      · exact Or.inl h
      · exact Or.inr ⟨h, ptick_registered σ a⟩
    · by_cases hi : ∃ a, op = .itick a
      · obtain ⟨a, e⟩ := hi; subst e
        rcases log_itick_shape σ a with h | h
        · exact Or.inl h
        · exact Or.inr ⟨h, itick_registered σ a⟩
      · left
        exact step_ghost_simple State.log (fun _ _ => rfl) (fun _ _ => rfl) (fun _ _ => rfl) (fun _ _ => rfl) (fun _ _ => rfl) (fun _ _ => rfl)
          (fun _ _ => rfl) (fun _ _ => rfl) (fun _ _ => rfl) (fun _ _ _ => rfl) (fun _ _ => rfl) (fun _ => rfl)
          (fun _ _ => rfl) (fun _ _ _ => rfl) σ op (fun a e => ht ⟨a, e⟩) (fun a e => hp ⟨a, e⟩) (fun a e => hi ⟨a, e⟩)

theorem log_prefix_run (σ : State) (ops : List Op) : ∃ l, (run σ ops).log = σ.log ++ l := by
  induction ops generalizing σ with
  | nil => exact ⟨[], by simp [run]⟩
  | cons op ops ih =>
    obtain ⟨l, hl⟩ := ih (step σ op)
    rcases log_step_shape σ op with h | ⟨⟨r, h⟩, _⟩
    · exact ⟨l, by rw [run, hl, h]⟩
    · exact ⟨r :: l, by rw [run, hl, h]; simp⟩

/-- the record at position |pre| of the final log was appended by a step of the history; the history up to
    that step has log `pre` and has the record's (session id, identifiers) registered -/
theorem log_record_origin (σ : State) (hr : Reg σ) (ops : List Op) (pre post : List Rec) (r : Rec)
    (hlen : σ.log.length ≤ pre.length) (h : (run σ ops).log = pre ++ r :: post) :
    ∃ ops₁ ops₂, ops = ops₁ ++ ops₂ ∧ (run σ ops₁).log = pre ∧ (r.sid, r.ident) ∈ (run σ ops₁).registered := by
  induction ops generalizing σ with
  | nil =>
    simp only [run] at h
    rw [h] at hlen
    simp at hlen
    omega
  | cons op ops ih =>
    by_cases hle : (step σ op).log.length ≤ pre.length
    · obtain ⟨o1, o2, e, h1, h2⟩ := ih (step σ op) (reg_step hr op) hle h
      exact ⟨op :: o1, o2, by rw [e]; rfl, h1, h2⟩
    · -- this very step appended the record
      rcases log_step_shape σ op with hs | ⟨⟨r', hs⟩, hreg⟩
      · rw [hs] at hle; exact absurd hlen hle
      · have hl : σ.log.length = pre.length := by
          rw [hs] at hle; simp at hle; omega
        obtain ⟨l, hl2⟩ := log_prefix_run (step σ op) ops
        have hfin : pre ++ r :: post = σ.log ++ r' :: l := by
          rw [← h, run, hl2, hs]; simp
        have e1 := List.append_inj hfin hl.symm
        have e2 : σ.log = pre := e1.1.symm
        have e3 : r' = r := by
          have := e1.2; simp at this; exact this.1.symm
        refine ⟨[], op :: ops, rfl, e2, ?_⟩
        simp only [run]
        have hmem : r ∈ (step σ op).log := by rw [hs, e3]; simp
        have := (reg_step hr op).log r hmem
        rw [hreg] at this; exact this


/-- a pair enters `registered` only by a `start` call that was ADMITTED: the instance is running, no API call
    is in progress, and the session id is not active -/
theorem registered_admitted (σ : State) (op : Op) (x : Nat × Nat) (h : x ∈ (step σ op).registered)
    (hn : x ∉ σ.registered) :
    op = .start x.1 x.2 ∧ σ.up = true ∧ σ.vol.pc = none ∧ lookup σ.vol.sessions x.1 = none := by
  rcases registered_step σ op x h with h1 | h1
  · exact absurd h1 hn
  · subst h1
    refine ⟨rfl, ?_⟩
    simp only [step] at h
    split at h
    · exact absurd h hn
    · rename_i hup
      split at h
      · exact absurd h hn
      · rename_i hbusy
        unfold callStart at h
        split at h
        · exact absurd h hn
        · rename_i hex
          refine ⟨by simpa using hup, pc_none_of_not_isSome hbusy, ?_⟩
          cases e : lookup σ.vol.sessions x.1 with
          | none => rfl
          | some y => rw [e] at hex; simp at hex

end Bng.Acct
