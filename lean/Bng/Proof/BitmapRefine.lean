import Bng.Proof.Bitmap
import Bng.Proof.PoolSpec
/-
  Refinement: the bitmap allocator model refines the abstract pool specification.
  Along every history the abstract pool monitor (the same `PoolSpec.check` that judges the real code's
  answers in `bngdrv`) never raises a verdict on the model's answers.
-/
namespace Bng.Bitmap
open Bng AMap PoolSpec

/-- abstraction relation: the abstract pool holds exactly the (subscriber, address) pairs of the allocator -/
structure Rel (s : State) (m : Mon) : Prop where
  look : ∀ k, AMap.lookup m k = (AMap.lookup s.allocated k).map (prefixOf s.cfg)
  nd : NodupKeys m
  len : m.length = s.allocated.length

theorem step_pos (c : Cfg) : 0 < c.step := Nat.pow_pos (by omega)

theorem pref_inj (c : Cfg) {i j : Nat} (h : prefixOf c i = prefixOf c j) : i = j := by
  unfold prefixOf at h
  have : i * c.step = j * c.step := by omega
  exact Nat.eq_of_mul_eq_mul_right (step_pos c) this

theorem inRange_prefixOf (c : Cfg) {i : Nat} (h : i < c.totalBig) :
    inRange (geoOf c) (prefixOf c i) = true := by
  have hs := step_pos c
  simp only [inRange, geoOf, prefixOf, Nat.le_add_right, decide_true, Bool.true_and,
    Nat.add_sub_cancel_left, Nat.mul_mod_left, beq_self_eq_true, Nat.mul_div_cancel _ hs, h,
    Bool.and_self, Bool.or_true]

theorem unitOf_index {c : Cfg} (hc : c.plen - c.poolPrefix < 64) {x l i : Nat}
    (h : indexOf c x l = some i) : unitOf c x = prefixOf c i ∧ l = c.plen ∧ i < c.totalBig := by
  unfold indexOf at h
  split at h; · simp at h
  rename_i hl
  split at h; · simp at h
  rename_i hx
  simp only at h
  split at h; · simp at h
  rename_i hlt
  simp only [Option.some.injEq] at h
  have h64 : c.totalBig ≤ 2 ^ 64 := by
    unfold Cfg.totalBig
    exact Nat.pow_le_pow_right (by omega) (by omega)
  rw [Nat.mod_eq_of_lt (by omega)] at h
  subst h
  have hs := step_pos c
  refine ⟨?_, by simpa using hl, by omega⟩
  unfold unitOf prefixOf
  have : ¬ (c.step = 0 ∨ x < c.base) := by omega
  simp only [this, if_false]

theorem rel_holder {s : State} {m : Mon} (hR : Rel s m) {k i : Nat}
    (h : AMap.lookup m k = some (prefixOf s.cfg i)) : AMap.lookup s.allocated k = some i := by
  rw [hR.look k] at h
  cases e : AMap.lookup s.allocated k with
  | none => simp [e] at h
  | some i' =>
    simp only [e, Option.map_some, Option.some.injEq] at h
    rw [pref_inj s.cfg h]

theorem rel_lookup_some {s : State} {m : Mon} (hR : Rel s m) {k i : Nat}
    (h : AMap.lookup s.allocated k = some i) : AMap.lookup m k = some (prefixOf s.cfg i) := by
  rw [hR.look k, h]; rfl

theorem rel_lookup_none {s : State} {m : Mon} (hR : Rel s m) {k : Nat}
    (h : AMap.lookup s.allocated k = none) : AMap.lookup m k = none := by
  rw [hR.look k, h]; rfl

theorem rel_give {s : State} {m : Mon} (hR : Rel s m) {k i : Nat} (nf : Nat)
    (hk : AMap.lookup s.allocated k = none) :
    Rel (give s k i nf) (AMap.insert m k (prefixOf s.cfg i)) := by
  refine ⟨?_, nodupKeys_insert hR.nd _ _, ?_⟩
  · intro k'
    simp only [give, lookup_insert]
    by_cases e : k' = k
    · simp [e]
    · simp only [e, if_false]; exact hR.look k'
  · rw [length_insert_of_none (rel_lookup_none hR hk)]
    simp only [give]
    rw [length_insert_of_none hk, hR.len]

theorem rel_take {s : State} {m : Mon} (hI : Inv s) (hR : Rel s m) {k i : Nat} (nf : Nat)
    (hk : AMap.lookup s.allocated k = some i) :
    Rel (take s k i nf) (AMap.erase m k) := by
  refine ⟨?_, nodupKeys_erase hR.nd _, ?_⟩
  · intro k'
    simp only [take, lookup_erase]
    by_cases e : k' = k
    · simp [e]
    · simp only [e, if_false]; exact hR.look k'
  · have h1 := length_erase_of_lookup hR.nd (rel_lookup_some hR hk)
    have h2 := length_erase_of_lookup hI.nd hk
    simp only [take]
    have := hR.len
    omega

theorem rel_reinsert {s : State} {m : Mon} (hR : Rel s m) {k i : Nat}
    (hk : AMap.lookup s.allocated k = some i) :
    Rel s (AMap.insert m k (prefixOf s.cfg i)) := by
  refine ⟨?_, nodupKeys_insert hR.nd _ _, ?_⟩
  · intro k'
    simp only [lookup_insert]
    by_cases e : k' = k
    · simp [e, hk]
    · simp only [e, if_false]; exact hR.look k'
  · rw [length_insert_of_some hR.nd (rel_lookup_some hR hk)]; exact hR.len

theorem rel_congr {s s' : State} {m : Mon} (hR : Rel s m) (hc : s'.cfg = s.cfg)
    (ha : s'.allocated = s.allocated) : Rel s' m := by
  refine ⟨?_, hR.nd, ?_⟩
  · intro k; rw [hc, ha]; exact hR.look k
  · rw [ha]; exact hR.len

/-- nobody but `k` may hold unit `i` → the abstract pool has no other holder of its address -/
theorem no_other_holder {s : State} {m : Mon} (hR : Rel s m) {k i : Nat}
    (h : ∀ k', AMap.lookup s.allocated k' = some i → k' = k) :
    ∀ k', k' ≠ k → AMap.lookup m k' ≠ some (prefixOf s.cfg i) := by
  intro k' hne hk'
  exact hne (h k' (rel_holder hR hk'))

theorem holders_of_unit {s : State} (hI : Inv s) {k i : Nat}
    (hk : AMap.lookup s.idx2sub i = some k) :
    ∀ k', AMap.lookup s.allocated k' = some i → k' = k := by
  intro k' h
  have := hI.fwd k' i h
  rw [hk] at this
  simpa using this.symm

theorem no_holder_of_free {s : State} (hI : Inv s) {i : Nat} (hb : i ∉ s.bits) (k : Nat) :
    ∀ k', AMap.lookup s.allocated k' = some i → k' = k := by
  intro k' h
  have h1 := hI.fwd k' i h
  have := (hI.bit i).mpr (by simp [h1])
  exact absurd this hb

/-- all units taken ⇒ at least as many holders as units -/
theorem length_ge_total_of_full {s : State} (hI : Inv s)
    (hfull : ∀ i, i < s.cfg.total → i ∈ s.bits) : s.cfg.total ≤ s.allocated.length := by
  have hsub : List.range s.cfg.total ⊆ vals s.allocated := by
    intro i hi
    have hb := hfull i (List.mem_range.mp hi)
    have := (hI.bit i).mp hb
    cases e : AMap.lookup s.idx2sub i with
    | none => simp [e] at this
    | some k =>
      have hk := hI.bwd k i e
      simp only [vals, List.mem_map]
      exact ⟨(k, i), mem_of_lookup hk, rfl⟩
  have := List.Nodup.length_le_of_subset List.nodup_range hsub
  simpa [vals] using this

theorem mem_insertSorted {p q : Nat × Nat × Nat} {l : List (Nat × Nat × Nat)} :
    q ∈ insertSorted p l ↔ q = p ∨ q ∈ l := by
  induction l with
  | nil => simp [insertSorted]
  | cons x rest ih =>
    unfold insertSorted
    split
    · simp
    · simp only [List.mem_cons, ih]
      constructor
      · intro h; rcases h with h | h | h
        · exact Or.inr (Or.inl h)
        · exact Or.inl h
        · exact Or.inr (Or.inr h)
      · intro h; rcases h with h | h | h
        · exact Or.inr (Or.inl h)
        · exact Or.inl h
        · exact Or.inr (Or.inr h)

theorem length_insertSorted (p : Nat × Nat × Nat) (l : List (Nat × Nat × Nat)) :
    (insertSorted p l).length = l.length + 1 := by
  induction l with
  | nil => simp [insertSorted]
  | cons x rest ih =>
    unfold insertSorted
    split
    · simp
    · simp [ih]

theorem listing_facts (c : Cfg) (al : AMap Nat Nat) :
    ∀ acc : List (Nat × Nat × Nat),
      (List.foldl (fun acc (p : Nat × Nat) => insertSorted (p.1, prefixOf c p.2, p.2) acc) acc al).length
        = acc.length + al.length ∧
      ∀ q, q ∈ List.foldl (fun acc (p : Nat × Nat) => insertSorted (p.1, prefixOf c p.2, p.2) acc) acc al →
        q ∈ acc ∨ ∃ p ∈ al, q = (p.1, prefixOf c p.2, p.2) := by
  induction al with
  | nil => intro acc; simp
  | cons p rest ih =>
    intro acc
    simp only [List.foldl_cons]
    obtain ⟨h1, h2⟩ := ih (insertSorted (p.1, prefixOf c p.2, p.2) acc)
    refine ⟨?_, ?_⟩
    · rw [h1, length_insertSorted]; simp only [List.length_cons]; omega
    · intro q hq
      rcases h2 q hq with h | ⟨p', hp', e⟩
      · rcases mem_insertSorted.mp h with h | h
        · exact Or.inr ⟨p, List.mem_cons_self, h⟩
        · exact Or.inl h
      · exact Or.inr ⟨p', List.mem_cons_of_mem _ hp', e⟩

/-- one step: the relation is kept and the monitor is silent -/
theorem step_refines {s : State} {m : Mon} (hI : Inv s) (hR : Rel s m) (op : Op) :
    Rel (step s op).1 (check (geoOf s.cfg) m (toEvent s.cfg op (step s op).2)).1 ∧
    (check (geoOf s.cfg) m (toEvent s.cfg op (step s op).2)).2 = [] := by
  have hcfg := hI.cfgOK
  have htot : s.cfg.total = s.cfg.totalBig := total_eq hcfg
  cases op with
  | alloc k =>
    simp only [step]
    unfold alloc
    cases hk : AMap.lookup s.allocated k with
    | some i =>
      simp only [toEvent, check]
      refine ⟨rel_reinsert hR hk, ?_⟩
      apply checkGot_nil _ hR.nd
      · exact inRange_prefixOf _ (by rw [← htot]; exact hI.lt k i hk)
      · intro _; exact Or.inr (rel_lookup_some hR hk)
      · exact no_other_holder hR (holders_of_unit hI (hI.fwd k i hk))
    | none =>
      simp only
      cases hf : findFree s with
      | none =>
        simp only [toEvent, check]
        refine ⟨hR, ?_⟩
        have := length_ge_total_of_full hI (findFree_none hf)
        have hl := hR.len
        have : ¬ (m.length < (geoOf s.cfg).units) := by
          simp only [geoOf]; omega
        simp [this]
      | some i =>
        obtain ⟨hlt, hb⟩ := findFree_some hf
        simp only [toEvent, check]
        refine ⟨rel_give hR _ hk, ?_⟩
        apply checkGot_nil _ hR.nd
        · exact inRange_prefixOf _ (by rw [← htot]; exact hlt)
        · intro _; exact Or.inl (rel_lookup_none hR hk)
        · exact no_other_holder hR (no_holder_of_free hI hb k)
  | allocSpecific k x l =>
    simp only [step]
    unfold allocSpecific
    cases hi : indexOf s.cfg x l with
    | none => simp only [toEvent, check]; exact ⟨hR, by first | rfl | trivial⟩
    | some i =>
      obtain ⟨hu, _, hlt⟩ := unitOf_index hcfg hi
      simp only
      by_cases hb : i ∈ s.bits
      · simp only [hb, if_true]
        by_cases hh : AMap.lookup s.idx2sub i = some k
        · simp only [hh, if_true, toEvent, check, hu]
          have hk := hI.bwd k i hh
          refine ⟨rel_reinsert hR hk, ?_⟩
          apply checkGot_nil _ hR.nd
          · exact inRange_prefixOf _ hlt
          · intro _; exact Or.inr (rel_lookup_some hR hk)
          · exact no_other_holder hR (holders_of_unit hI hh)
        · simp only [hh, if_false, toEvent, check]; exact ⟨hR, by first | rfl | trivial⟩
      · simp only [hb, if_false]
        cases hk : AMap.lookup s.allocated k with
        | some j => simp only [Option.isSome_some, if_true, toEvent, check]; exact ⟨hR, by first | rfl | trivial⟩
        | none =>
          simp only [Option.isSome_none, Bool.false_eq_true, if_false, toEvent, check, hu]
          refine ⟨rel_give hR _ hk, ?_⟩
          apply checkGot_nil _ hR.nd
          · exact inRange_prefixOf _ hlt
          · intro _; exact Or.inl (rel_lookup_none hR hk)
          · exact no_other_holder hR (no_holder_of_free hI hb k)
  | release k =>
    simp only [step]
    unfold release
    cases hk : AMap.lookup s.allocated k with
    | none =>
      simp only [toEvent, check, rel_lookup_none hR hk]
      exact ⟨hR, by first | rfl | trivial⟩
    | some i =>
      simp only [toEvent, check]
      exact ⟨rel_take hI hR _ hk, by first | rfl | trivial⟩
  | releasePrefix x l =>
    simp only [step]
    unfold releasePrefix
    cases hi : indexOf s.cfg x l with
    | none => simp only [toEvent, check]; exact ⟨hR, by first | rfl | trivial⟩
    | some i =>
      obtain ⟨hu, _, hlt⟩ := unitOf_index hcfg hi
      simp only
      by_cases hb : i ∈ s.bits
      · have hnb : ¬ (i ∉ s.bits) := fun h => h hb
        simp only [hnb, if_false]
        have hsome := (hI.bit i).mp hb
        cases hh : AMap.lookup s.idx2sub i with
        | none => simp [hh] at hsome
        | some k =>
          have hk := hI.bwd k i hh
          have hho : holderOf m (prefixOf s.cfg i) = some k :=
            holderOf_eq_some hR.nd (rel_lookup_some hR hk)
              (fun k' h' => holders_of_unit hI hh k' (rel_holder hR h'))
          simp only [toEvent, check, hu, hho]
          exact ⟨rel_take hI hR _ hk, by first | rfl | trivial⟩
      · have hnb : (i ∉ s.bits) := hb
        simp only [hnb, if_true, toEvent, check]; exact ⟨hR, by first | rfl | trivial⟩
  | lookup k =>
    simp only [step, Bitmap.lookup]
    cases hk : AMap.lookup s.allocated k with
    | none => simp only [toEvent, check, rel_lookup_none hR hk, if_true]; exact ⟨hR, by first | rfl | trivial⟩
    | some i => simp only [toEvent, check, rel_lookup_some hR hk, if_true]; exact ⟨hR, by first | rfl | trivial⟩
  | lookupByPrefix x l =>
    simp only [step, lookupByPrefix]
    cases hi : indexOf s.cfg x l with
    | none =>
      simp only [toEvent]
      by_cases hl : l = s.cfg.plen
      · simp only [hl, if_true, check]
        refine ⟨hR, ?_⟩
        -- nobody holds an address outside the pool
        have hno : holderOf m (unitOf s.cfg x) = none := by
          apply holderOf_eq_none hR.nd
          intro k hk
          rw [hR.look k] at hk
          cases e : AMap.lookup s.allocated k with
          | none => simp [e] at hk
          | some j =>
            simp only [e, Option.map_some, Option.some.injEq] at hk
            have hj : j < s.cfg.totalBig := by rw [← htot]; exact hI.lt k j e
            have hs := step_pos s.cfg
            -- indexOf failed with the right length: x below base or index beyond the end
            unfold indexOf at hi
            simp only [hl, ne_eq, not_true_eq_false, if_false] at hi
            by_cases hx : x < s.cfg.base
            · have hu : unitOf s.cfg x = x := by
                unfold unitOf; simp [hx]
              rw [hu] at hk
              unfold prefixOf at hk
              omega
            · have hne0 : s.cfg.step ≠ 0 := by omega
              have hu : unitOf s.cfg x = s.cfg.base + (x - s.cfg.base) / s.cfg.step * s.cfg.step := by
                unfold unitOf; simp [hx, hne0]
              rw [hu] at hk
              unfold prefixOf at hk
              simp only [hx, if_false] at hi
              split at hi
              · rename_i hge
                have : j * s.cfg.step = (x - s.cfg.base) / s.cfg.step * s.cfg.step := by omega
                have := Nat.eq_of_mul_eq_mul_right hs this
                omega
              · simp at hi
        simp [hno]
      · simp only [hl, if_false, check]; exact ⟨hR, by first | rfl | trivial⟩
    | some i =>
      obtain ⟨hu, hl, hlt⟩ := unitOf_index hcfg hi
      simp only
      cases hh : AMap.lookup s.idx2sub i with
      | none =>
        have hno : holderOf m (prefixOf s.cfg i) = none := by
          apply holderOf_eq_none hR.nd
          intro k hk
          have := hI.fwd k i (rel_holder hR hk)
          rw [hh] at this; simp at this
        simp only [toEvent, hl, if_true, check, hu, hno]; exact ⟨hR, by first | rfl | trivial⟩
      | some k =>
        have hk := hI.bwd k i hh
        have hho : holderOf m (prefixOf s.cfg i) = some k :=
          holderOf_eq_some hR.nd (rel_lookup_some hR hk)
            (fun k' h' => holders_of_unit hI hh k' (rel_holder hR h'))
        simp only [toEvent, hl, if_true, check, hu, hho]; exact ⟨hR, by first | rfl | trivial⟩
  | isAllocated x l =>
    simp only [step, isAllocated]
    cases indexOf s.cfg x l <;> simp only [toEvent, check] <;> exact ⟨hR, by first | rfl | trivial⟩
  | stats =>
    simp only [step, stats, toEvent, check]
    refine ⟨hR, ?_⟩
    have hle := length_le_total hI
    have h64 : s.cfg.total < 2 ^ 64 := Nat.mod_lt _ (by decide)
    have : uint64OfInt s.count = m.length := by
      rw [hI.cnt, hR.len]
      simp only [uint64OfInt, Int.natAbs_natCast]
      exact Nat.mod_eq_of_lt (by omega)
    simp [this, geoOf, htot]
  | setAllocation k x l =>
    simp only [step]
    unfold setAllocation
    cases hi : indexOf s.cfg x l with
    | none => simp only [toEvent, check]; exact ⟨hR, by first | rfl | trivial⟩
    | some i =>
      obtain ⟨hu, _, hlt⟩ := unitOf_index hcfg hi
      -- common part: once the holder of i is nobody or k, `setIt` is accepted silently
      have hset : (AMap.lookup s.idx2sub i = none ∨ AMap.lookup s.idx2sub i = some k) →
          Rel (setAllocation.setIt s k i).1
            (check (geoOf s.cfg) m (toEvent s.cfg (.setAllocation k x l) (setAllocation.setIt s k i).2)).1 ∧
          (check (geoOf s.cfg) m (toEvent s.cfg (.setAllocation k x l) (setAllocation.setIt s k i).2)).2 = [] := by
        intro hfree
        have hothers : ∀ k', AMap.lookup s.allocated k' = some i → k' = k := by
          intro k' h'
          have := hI.fwd k' i h'
          rcases hfree with h | h
          · rw [h] at this; simp at this
          · rw [h] at this; simpa using this.symm
        have hsilent : checkGot (geoOf s.cfg) m k (prefixOf s.cfg i) false = [] := by
          apply checkGot_nil _ hR.nd
          · exact inRange_prefixOf _ hlt
          · intro h; simp at h
          · exact no_other_holder hR hothers
        unfold setAllocation.setIt
        cases hk : AMap.lookup s.allocated k with
        | some old =>
          simp only
          by_cases hne : old ≠ i
          · rw [if_pos hne]
            simp only [toEvent, check, hu, hsilent, and_true]
            -- move: take then give
            have h1 := rel_take hI hR s.nextFree hk
            have h2 := rel_give (s := take s k old s.nextFree) (m := AMap.erase m k) h1 (k := k) (i := i)
              s.nextFree (by simp [take])
            -- insert after erase = insert
            refine ⟨?_, nodupKeys_insert hR.nd _ _, ?_⟩
            · intro k'
              have := h2.look k'
              simp only [lookup_insert, lookup_erase] at this ⊢
              by_cases e : k' = k
              · simp only [e, if_true] at this ⊢; exact this
              · simp only [e, if_false] at this ⊢; exact this
            · have := h2.len
              rw [length_insert_of_some hR.nd (rel_lookup_some hR hk)]
              rw [length_insert_of_none (by simp)] at this
              have h3 := length_erase_of_lookup hR.nd (rel_lookup_some hR hk)
              omega
          · have : old = i := by omega
            subst this
            rw [if_neg (by simp)]
            simp only [toEvent, check, hu, hsilent, and_true]
            exact rel_reinsert hR hk
        | none =>
          simp only [toEvent, check, hu, hsilent, and_true]
          exact rel_give hR _ hk
      simp only
      cases hh : AMap.lookup s.idx2sub i with
      | none => exact hset (Or.inl hh)
      | some k' =>
        simp only
        by_cases hne : k' ≠ k
        · rw [if_pos hne]
          simp only [toEvent, check]; exact ⟨hR, by first | rfl | trivial⟩
        · have : k' = k := by omega
          subst this
          rw [if_neg (by simp)]
          exact hset (Or.inr hh)
  | roundtrip =>
    simp only [step, toEvent, check]
    exact ⟨rel_congr hR rfl rfl, by first | rfl | trivial⟩
  | list =>
    simp only [step, listAllocations, toEvent, check]
    refine ⟨hR, ?_⟩
    obtain ⟨hlen, hmem⟩ := listing_facts s.cfg s.allocated []
    have h1 : (List.map (fun (x : Nat × Nat × Nat) => (x.1, x.2.1))
        (List.foldl (fun acc (p : Nat × Nat) => insertSorted (p.1, prefixOf s.cfg p.2, p.2) acc) [] s.allocated)).length
        = m.length := by
      rw [List.length_map, hlen, hR.len]; simp
    have h2 : (List.map (fun (x : Nat × Nat × Nat) => (x.1, x.2.1))
        (List.foldl (fun acc (p : Nat × Nat) => insertSorted (p.1, prefixOf s.cfg p.2, p.2) acc) [] s.allocated)).all
        (fun p => AMap.lookup m p.1 == some p.2) = true := by
      rw [List.all_eq_true]
      intro q hq
      simp only [List.mem_map] at hq
      obtain ⟨r, hr, e⟩ := hq
      rcases hmem r hr with h | ⟨p, hp, e2⟩
      · simp at h
      · subst e2; subst e
        have : AMap.lookup s.allocated p.1 = some p.2 := lookup_of_mem hI.nd hp
        simp [rel_lookup_some hR this]
    simp only [h1, h2, and_self, if_true]

/-- the monitor run over a list of (operation, observation) pairs -/
def monRun (c : Cfg) : Mon → List (Op × Obs) → List Verdict
  | _, [] => []
  | m, (op, o) :: rest =>
    (check (geoOf c) m (toEvent c op o)).2 ++ monRun c (check (geoOf c) m (toEvent c op o)).1 rest

theorem monRun_silent {s : State} {m : Mon} (hI : Inv s) (hR : Rel s m) (ops : List Op) :
    monRun s.cfg m (trace s ops) = [] := by
  induction ops generalizing s m with
  | nil => rfl
  | cons op ops ih =>
    simp only [trace, monRun]
    obtain ⟨h1, h2⟩ := step_refines hI hR op
    rw [h2, List.nil_append]
    have := ih (inv_step hI op) h1
    rw [step_cfg] at this
    exact this

end Bng.Bitmap
