import Bng.Proof.AcctDrain
/-
  no_dup: a session that was started after the latest crash never has two Stops accepted (session ids not
  reused).  The invariant says where a further Stop of a session could still come from — the session in
  memory, its session file, a Stop record in the retry map or in pending.json — and that once a Stop of the
  session has been accepted none of them is left, except those the call in progress is about to remove.
-/
namespace Bng.Acct
open Bng AMap

def isStop (p : PRec) (s : Nat) : Prop := p.req.kind = .stop ∧ p.req.sid = s

def AS (σ : State) (s : Nat) : Prop := (lookup σ.vol.sessions s).isSome = true
def FS (σ : State) (s : Nat) : Prop := (lookup σ.dur.files s).isSome = true
def PS (σ : State) (s : Nat) : Prop := ∃ p ∈ σ.vol.pending, isStop p s
def QS (σ : State) (s : Nat) : Prop := ∃ ps, σ.dur.pfile = some ps ∧ ∃ p ∈ ps, isStop p s
def stopCount (log : List Rec) (s : Nat) : Nat := (log.filter (isStopOf s)).length

/-- the frame is about to remove the session file of `s` -/
def cleans : Option Frame → Nat → Prop
  | some (.stopDelete k true), s => k = s
  | some (.stopRemove k true), s => k = s
  | some (.procRemove k _), s => k = s
  | some (.drainRemove k _), s => k = s
  | some (.recRemove k _ _ _), s => k = s
  | _, _ => False

/-- the sessions the shutdown drain has still to send a Stop for -/
def pendingDrain : Option Frame → Option (List Nat)
  | some (.drainSend k rest) => some (k :: rest)
  | some (.drainRemove _ rest) => some rest
  | some .persistPending => some []
  | _ => none

def drainedBy (pc : Option Frame) (s : Nat) : Prop := ∃ l, pendingDrain pc = some l ∧ s ∉ l

/-- why a session still in memory will not get another Stop: StopSession is about to delete it, or the
    shutdown drain has dealt with it (the process exits afterwards) -/
def exA (pc : Option Frame) (s : Nat) (acked : Bool) : Prop :=
  pc = some (.stopDelete s acked) ∨ drainedBy pc s

/-- the recovery procedure will not load a Stop of `s` from pending.json -/
def covers : Option Frame → Nat → Prop
  | some (.recSend _ _ recd _), s => s ∈ recd
  | some (.recRemove k _ recd _), s => s = k ∨ s ∈ recd
  | some (.recLoad recd _), s => s ∈ recd
  | some .recPendRemove, _ => True
  | _, _ => False

/-- (sessions already recovered, session being recovered) -/
def recInfo : Option Frame → Option (List Nat × Option Nat)
  | some (.recSend _ _ recd _) => some (recd, none)
  | some (.recRemove k _ recd _) => some (recd, some k)
  | some (.recLoad recd _) => some (recd, none)
  | _ => none

/-- the per-session part, for sessions registered after the latest crash -/
structure NDs (σ : State) (s : Nat) : Prop where
  a : stopCount σ.log s ≤ 1
  b : ∀ p ∈ σ.vol.pending, ∀ q ∈ σ.vol.pending, isStop p s → isStop q s → p.id = q.id
  c : ∀ ps, σ.dur.pfile = some ps → ∀ p ∈ ps, ∀ q ∈ ps, isStop p s → isStop q s → p.id = q.id
  d : stopIn σ.log s → ¬ PS σ s
  e : stopIn σ.log s → FS σ s → cleans σ.vol.pc s
  f : stopIn σ.log s → AS σ s → exA σ.vol.pc s true
  g : stopIn σ.log s → QS σ s → covers σ.vol.pc s
  h : PS σ s → AS σ s → exA σ.vol.pc s false
  i : PS σ s → QS σ s → covers σ.vol.pc s
  j : AS σ s → ¬ QS σ s

structure ND (σ : State) : Prop where
  per : ∀ s, s ∉ σ.tainted → NDs σ s
  r1 : isRec σ.vol.pc → σ.vol.sessions = []
  r2 : ∀ recd cur, recInfo σ.vol.pc = some (recd, cur) →
    (∀ x ∈ recd, ¬ FS σ x) ∧ (∀ p ∈ σ.vol.pending, ∀ s, isStop p s → s ∈ recd ∨ cur = some s)
  dr : ∀ l, pendingDrain σ.vol.pc = some l → l.Nodup

theorem stopCount_zero_iff {log : List Rec} {s : Nat} : stopCount log s = 0 ↔ ¬ stopIn log s := by
  unfold stopCount stopIn
  rw [List.length_eq_zero_iff, List.filter_eq_nil_iff]
  constructor
  · rintro h ⟨r, hr, hk, hs⟩
    exact h r hr (by simp [isStopOf, hk, hs])
  · intro h r hr hc
    simp only [isStopOf, Bool.and_eq_true, beq_iff_eq] at hc
    exact h ⟨r, hr, hc.1, hc.2⟩

theorem stopCount_snoc (log : List Rec) (r : Rec) (s : Nat) :
    stopCount (log ++ [r]) s = stopCount log s + (if isStopOf s r then 1 else 0) := by
  unfold stopCount
  rw [List.filter_append, List.length_append]
  simp only [List.filter_cons, List.filter_nil]
  split <;> simp

theorem stopIn_snoc {log : List Rec} {r : Rec} {s : Nat} :
    stopIn (log ++ [r]) s ↔ stopIn log s ∨ (r.kind = .stop ∧ r.sid = s) := by
  unfold stopIn
  constructor
  · rintro ⟨r', hr', h⟩
    rcases List.mem_append.mp hr' with e | e
    · exact Or.inl ⟨r', e, h⟩
    · simp only [List.mem_singleton] at e; subst e; exact Or.inr h
  · rintro (⟨r', hr', h⟩ | h)
    · exact ⟨r', List.mem_append_left _ hr', h⟩
    · exact ⟨r, by simp, h⟩


/-- a new Stop record may be queued for a session only when none is queued, none was accepted, and the
    frame that follows knows about the session in memory / the copy in pending.json -/
def NewStop (σ σ' : State) (p : PRec) : Prop :=
  ¬ PS σ p.req.sid ∧ ¬ stopIn σ.log p.req.sid ∧
  (AS σ' p.req.sid → exA σ'.vol.pc p.req.sid false) ∧ (QS σ' p.req.sid → covers σ'.vol.pc p.req.sid)

/-- one step that accepts no Stop -/
theorem nd_gen {σ σ' : State} (h : ND σ)
    (ht : σ'.tainted = σ.tainted)
    (hL : ∀ s, stopIn σ'.log s ↔ stopIn σ.log s)
    (hC : ∀ s, stopCount σ'.log s = stopCount σ.log s)
    (hA : ∀ s, s ∉ σ.tainted → AS σ' s → AS σ s ∨ (¬ stopIn σ.log s ∧ ¬ PS σ' s ∧ ¬ QS σ' s))
    (hF : ∀ s, s ∉ σ.tainted → FS σ' s → FS σ s ∨ ¬ stopIn σ.log s)
    (hP : ∀ p ∈ σ'.vol.pending, (∃ q ∈ σ.vol.pending, q.id = p.id ∧ q.req = p.req) ∨ p.req.kind ≠ .stop ∨
      (p.req.sid ∉ σ.tainted → NewStop σ σ' p))
    (hPid : ∀ s, s ∉ σ.tainted → ¬ PS σ s →
      ∀ p ∈ σ'.vol.pending, ∀ q ∈ σ'.vol.pending, isStop p s → isStop q s → p.id = q.id)
    (hQ : ∀ ps', σ'.dur.pfile = some ps' → σ.dur.pfile = some ps' ∨
      ((∀ p ∈ ps', ∃ q ∈ σ.vol.pending, q.id = p.id ∧ q.req = p.req) ∧ σ'.vol.pending = [] ∧ σ'.vol.sessions = []))
    (hcl : ∀ s, s ∉ σ.tainted → stopIn σ.log s → cleans σ.vol.pc s → cleans σ'.vol.pc s ∨ ¬ FS σ' s)
    (hex : ∀ s b, exA σ.vol.pc s b → exA σ'.vol.pc s b ∨ ¬ AS σ' s)
    (hcv : ∀ s, covers σ.vol.pc s → covers σ'.vol.pc s ∨ ¬ QS σ' s)
    (hr1 : isRec σ'.vol.pc → σ'.vol.sessions = [])
    (hr2 : ∀ recd cur, recInfo σ'.vol.pc = some (recd, cur) →
      (∀ x ∈ recd, ¬ FS σ' x) ∧ (∀ p ∈ σ'.vol.pending, ∀ s, isStop p s → s ∈ recd ∨ cur = some s))
    (hdr : ∀ l, pendingDrain σ'.vol.pc = some l → l.Nodup) : ND σ' := by
  refine ⟨?_, hr1, hr2, hdr⟩
  intro s hs
  rw [ht] at hs
  have n := h.per s hs
  -- an old Stop record of s behind a record of the new map
  have oldOf : ∀ p ∈ σ'.vol.pending, isStop p s → PS σ s →
      ∃ q ∈ σ.vol.pending, q.id = p.id ∧ isStop q s := by
    intro p hp hps hPS
    rcases hP p hp with ⟨q, hq, e1, e2⟩ | h1 | h1
    · exact ⟨q, hq, e1, by unfold isStop; rw [e2]; exact hps⟩
    · exact absurd hps.1 h1
    · have h1 := h1 (by rw [hps.2]; exact hs)
      unfold NewStop at h1; rw [hps.2] at h1; exact absurd hPS h1.1
  have psOld : PS σ' s → PS σ s ∨ ∃ p ∈ σ'.vol.pending, isStop p s ∧ NewStop σ σ' p := by
    rintro ⟨p, hp, hps⟩
    rcases hP p hp with ⟨q, hq, _, e2⟩ | h1 | h1
    · exact Or.inl ⟨q, hq, by unfold isStop; rw [e2]; exact hps⟩
    · exact absurd hps.1 h1
    · exact Or.inr ⟨p, hp, hps, h1 (by rw [hps.2]; exact hs)⟩
  have qsOld : QS σ' s → QS σ s ∨ (PS σ s ∧ σ'.vol.pending = [] ∧ σ'.vol.sessions = []) := by
    rintro ⟨ps', hps', p, hp, hst⟩
    rcases hQ ps' hps' with h1 | ⟨h1, h2, h3⟩
    · exact Or.inl ⟨ps', h1, p, hp, hst⟩
    · obtain ⟨q, hq, _, e2⟩ := h1 p hp
      exact Or.inr ⟨⟨q, hq, by unfold isStop; rw [e2]; exact hst⟩, h2, h3⟩
  constructor
  · rw [hC]; exact n.a
  · intro p hp q hq h1 h2
    by_cases hPS : PS σ s
    · obtain ⟨p0, hp0, e1, s1⟩ := oldOf p hp h1 hPS
      obtain ⟨q0, hq0, e2, s2⟩ := oldOf q hq h2 hPS
      rw [← e1, ← e2]; exact n.b p0 hp0 q0 hq0 s1 s2
    · exact hPid s hs hPS p hp q hq h1 h2
  · intro ps' hps' p hp q hq h1 h2
    rcases hQ ps' hps' with h0 | ⟨h0, _, _⟩
    · exact n.c ps' h0 p hp q hq h1 h2
    · obtain ⟨p0, hp0, e1, r1⟩ := h0 p hp
      obtain ⟨q0, hq0, e2, r2⟩ := h0 q hq
      rw [← e1, ← e2]
      exact n.b p0 hp0 q0 hq0 (by unfold isStop; rw [r1]; exact h1) (by unfold isStop; rw [r2]; exact h2)
  · intro hl hps
    have hl' := (hL s).mp hl
    rcases psOld hps with h1 | ⟨p, _, hst, hn⟩
    · exact n.d hl' h1
    · unfold NewStop at hn; rw [hst.2] at hn; exact hn.2.1 hl'
  · intro hl hf
    have hl' := (hL s).mp hl
    rcases hF s hs hf with h1 | h1
    · rcases hcl s hs hl' (n.e hl' h1) with h2 | h2
      · exact h2
      · exact absurd hf h2
    · exact absurd hl' h1
  · intro hl ha
    have hl' := (hL s).mp hl
    rcases hA s hs ha with h1 | h1
    · rcases hex s true (n.f hl' h1) with h2 | h2
      · exact h2
      · exact absurd ha h2
    · exact absurd hl' h1.1
  · intro hl hq
    have hl' := (hL s).mp hl
    rcases qsOld hq with h1 | ⟨h1, _, _⟩
    · rcases hcv s (n.g hl' h1) with h2 | h2
      · exact h2
      · exact absurd hq h2
    · exact absurd h1 (n.d hl')
  · intro hps ha
    rcases psOld hps with h1 | ⟨p, _, hst, hn⟩
    · rcases hA s hs ha with h2 | h2
      · rcases hex s false (n.h h1 h2) with h3 | h3
        · exact h3
        · exact absurd ha h3
      · exact absurd hps h2.2.1
    · unfold NewStop at hn; rw [hst.2] at hn; exact hn.2.2.1 ha
  · intro hps hq
    rcases psOld hps with h1 | ⟨p, _, hst, hn⟩
    · rcases qsOld hq with h2 | ⟨_, h2, _⟩
      · rcases hcv s (n.i h1 h2) with h3 | h3
        · exact h3
        · exact absurd hq h3
      · obtain ⟨p, hp, _⟩ := hps
        rw [h2] at hp; simp at hp
    · unfold NewStop at hn; rw [hst.2] at hn; exact hn.2.2.2 hq
  · intro ha hq
    rcases hA s hs ha with h1 | h1
    · rcases qsOld hq with h2 | ⟨_, _, h2⟩
      · exact n.j h1 h2
      · unfold AS at ha; rw [h2] at ha; simp at ha
    · exact h1.2.2 hq


/-- one step in which the server accepts the Stop `r` -/
theorem nd_ack {σ σ' : State} (h : ND σ) (r : Rec) (hk : r.kind = .stop)
    (ht : σ'.tainted = σ.tainted)
    (hlog : σ'.log = σ.log ++ [r])
    (hfresh : r.sid ∉ σ.tainted → ¬ stopIn σ.log r.sid)
    (hA : ∀ s, AS σ' s → AS σ s)
    (hF : ∀ s, FS σ' s → FS σ s)
    (hP : ∀ p ∈ σ'.vol.pending, ∃ q ∈ σ.vol.pending, q.id = p.id ∧ q.req = p.req)
    (hQ : σ'.dur.pfile = σ.dur.pfile)
    (h0P : r.sid ∉ σ.tainted → ¬ PS σ' r.sid) (h0F : r.sid ∉ σ.tainted → FS σ' r.sid → cleans σ'.vol.pc r.sid)
    (h0A : r.sid ∉ σ.tainted → AS σ' r.sid → exA σ'.vol.pc r.sid true)
    (h0Q : r.sid ∉ σ.tainted → QS σ' r.sid → covers σ'.vol.pc r.sid)
    (hcl : ∀ s, s ∉ σ.tainted → stopIn σ.log s → cleans σ.vol.pc s → cleans σ'.vol.pc s ∨ ¬ FS σ' s)
    (hex : ∀ s b, exA σ.vol.pc s b → exA σ'.vol.pc s b ∨ ¬ AS σ' s)
    (hcv : ∀ s, covers σ.vol.pc s → covers σ'.vol.pc s ∨ ¬ QS σ' s)
    (hr1 : isRec σ'.vol.pc → σ'.vol.sessions = [])
    (hr2 : ∀ recd cur, recInfo σ'.vol.pc = some (recd, cur) →
      (∀ x ∈ recd, ¬ FS σ' x) ∧ (∀ p ∈ σ'.vol.pending, ∀ s, isStop p s → s ∈ recd ∨ cur = some s))
    (hdr : ∀ l, pendingDrain σ'.vol.pc = some l → l.Nodup) : ND σ' := by
  refine ⟨?_, hr1, hr2, hdr⟩
  intro s hs
  rw [ht] at hs
  have n := h.per s hs
  have psOld : PS σ' s → PS σ s := by
    rintro ⟨p, hp, hps⟩
    obtain ⟨q, hq, _, e2⟩ := hP p hp
    exact ⟨q, hq, by unfold isStop; rw [e2]; exact hps⟩
  have qsOld : QS σ' s → QS σ s := by
    unfold QS; rw [hQ]; exact id
  by_cases e : s = r.sid
  · subst e
    have hno := hfresh hs
    constructor
    · rw [hlog, stopCount_snoc]
      have := stopCount_zero_iff.mpr hno
      rw [this]
      split <;> omega
    · intro p hp q hq h1 h2
      obtain ⟨p0, hp0, e1, r1⟩ := hP p hp
      obtain ⟨q0, hq0, e2, r2⟩ := hP q hq
      rw [← e1, ← e2]
      exact n.b p0 hp0 q0 hq0 (by unfold isStop; rw [r1]; exact h1) (by unfold isStop; rw [r2]; exact h2)
    · rw [hQ]; exact n.c
    · exact fun _ => h0P hs
    · exact fun _ => h0F hs
    · exact fun _ => h0A hs
    · exact fun _ => h0Q hs
    · intro hps ha
      rcases hex _ false (n.h (psOld hps) (hA _ ha)) with h3 | h3
      · exact h3
      · exact absurd ha h3
    · intro hps hq
      rcases hcv _ (n.i (psOld hps) (qsOld hq)) with h3 | h3
      · exact h3
      · exact absurd hq h3
    · intro ha hq
      exact n.j (hA _ ha) (qsOld hq)
  · have hL : stopIn σ'.log s ↔ stopIn σ.log s := by
      rw [hlog, stopIn_snoc]
      constructor
      · rintro (h1 | ⟨_, h1⟩)
        · exact h1
        · exact absurd h1.symm e
      · exact Or.inl
    constructor
    · rw [hlog, stopCount_snoc]
      have : isStopOf s r = false := by
        simp only [isStopOf, Bool.and_eq_false_iff]
        right
        simpa using (fun h => e h.symm)
      rw [this]
      simpa using n.a
    · intro p hp q hq h1 h2
      obtain ⟨p0, hp0, e1, r1⟩ := hP p hp
      obtain ⟨q0, hq0, e2, r2⟩ := hP q hq
      rw [← e1, ← e2]
      exact n.b p0 hp0 q0 hq0 (by unfold isStop; rw [r1]; exact h1) (by unfold isStop; rw [r2]; exact h2)
    · rw [hQ]; exact n.c
    · intro hl hps; exact n.d (hL.mp hl) (psOld hps)
    · intro hl hf
      rcases hcl s hs (hL.mp hl) (n.e (hL.mp hl) (hF s hf)) with h2 | h2
      · exact h2
      · exact absurd hf h2
    · intro hl ha
      rcases hex s true (n.f (hL.mp hl) (hA s ha)) with h2 | h2
      · exact h2
      · exact absurd ha h2
    · intro hl hq
      rcases hcv s (n.g (hL.mp hl) (qsOld hq)) with h2 | h2
      · exact h2
      · exact absurd hq h2
    · intro hps ha
      rcases hex s false (n.h (psOld hps) (hA s ha)) with h3 | h3
      · exact h3
      · exact absurd ha h3
    · intro hps hq
      rcases hcv s (n.i (psOld hps) (qsOld hq)) with h3 | h3
      · exact h3
      · exact absurd hq h3
    · intro ha hq
      exact n.j (hA s ha) (qsOld hq)


/-! ## frames without excuses, frames outside recovery and drain -/

def noExcuse (pc : Option Frame) : Prop :=
  (∀ s, ¬ cleans pc s) ∧ (∀ s b, ¬ exA pc s b) ∧ (∀ s, ¬ covers pc s)

def quiet (pc : Option Frame) : Prop := ¬ isRec pc ∧ recInfo pc = none ∧ pendingDrain pc = none

theorem noExcuse_none : noExcuse none := by
  refine ⟨fun s => by simp [cleans], fun s b => by simp [exA, drainedBy, pendingDrain], fun s => by simp [covers]⟩
theorem noExcuse_startSend (k : Nat) : noExcuse (some (.startSend k)) := by
  refine ⟨fun s => by simp [cleans], fun s b => by simp [exA, drainedBy, pendingDrain], fun s => by simp [covers]⟩
theorem noExcuse_startPersist (k : Nat) : noExcuse (some (.startPersist k)) := by
  refine ⟨fun s => by simp [cleans], fun s b => by simp [exA, drainedBy, pendingDrain], fun s => by simp [covers]⟩
theorem noExcuse_stopPersist (k : Nat) : noExcuse (some (.stopPersist k)) := by
  refine ⟨fun s => by simp [cleans], fun s b => by simp [exA, drainedBy, pendingDrain], fun s => by simp [covers]⟩
theorem noExcuse_stopSend (k : Nat) : noExcuse (some (.stopSend k)) := by
  refine ⟨fun s => by simp [cleans], fun s b => by simp [exA, drainedBy, pendingDrain], fun s => by simp [covers]⟩
theorem noExcuse_intSend (k : Nat) : noExcuse (some (.intSend k)) := by
  refine ⟨fun s => by simp [cleans], fun s b => by simp [exA, drainedBy, pendingDrain], fun s => by simp [covers]⟩
theorem noExcuse_procSend (k : Nat) (r : List Nat) : noExcuse (some (.procSend k r)) := by
  refine ⟨fun s => by simp [cleans], fun s b => by simp [exA, drainedBy, pendingDrain], fun s => by simp [covers]⟩

theorem quiet_none : quiet none := by simp [quiet, isRec, recInfo, pendingDrain]
theorem quiet_startSend (k : Nat) : quiet (some (.startSend k)) := by simp [quiet, isRec, recInfo, pendingDrain]
theorem quiet_startPersist (k : Nat) : quiet (some (.startPersist k)) := by simp [quiet, isRec, recInfo, pendingDrain]
theorem quiet_stopPersist (k : Nat) : quiet (some (.stopPersist k)) := by simp [quiet, isRec, recInfo, pendingDrain]
theorem quiet_stopSend (k : Nat) : quiet (some (.stopSend k)) := by simp [quiet, isRec, recInfo, pendingDrain]
theorem quiet_stopDelete (k : Nat) (b : Bool) : quiet (some (.stopDelete k b)) := by
  simp [quiet, isRec, recInfo, pendingDrain]
theorem quiet_stopRemove (k : Nat) (b : Bool) : quiet (some (.stopRemove k b)) := by
  simp [quiet, isRec, recInfo, pendingDrain]
theorem quiet_intSend (k : Nat) : quiet (some (.intSend k)) := by simp [quiet, isRec, recInfo, pendingDrain]
theorem quiet_procRemove (k : Nat) (r : List Nat) : quiet (some (.procRemove k r)) := by
  simp [quiet, isRec, recInfo, pendingDrain]
theorem quiet_nextProc (ps : List PRec) (rest : List Nat) : quiet (nextProc ps rest) := by
  induction rest with
  | nil => exact quiet_none
  | cons id rest ih =>
    simp only [nextProc]
    split
    · simp [quiet, isRec, recInfo, pendingDrain]
    · exact ih

theorem noExcuse_nextProc (ps : List PRec) (rest : List Nat) : noExcuse (nextProc ps rest) := by
  induction rest with
  | nil => exact noExcuse_none
  | cons id rest ih =>
    simp only [nextProc]
    split
    · exact noExcuse_procSend _ _
    · exact ih

/-- `nd_gen` for a step that leaves a frame without excuses and enters a frame outside recovery/drain -/
theorem nd_plain {σ σ' : State} (h : ND σ) (hne : noExcuse σ.vol.pc) (hq : quiet σ'.vol.pc)
    (ht : σ'.tainted = σ.tainted)
    (hL : ∀ s, stopIn σ'.log s ↔ stopIn σ.log s)
    (hC : ∀ s, stopCount σ'.log s = stopCount σ.log s)
    (hA : ∀ s, s ∉ σ.tainted → AS σ' s → AS σ s ∨ (¬ stopIn σ.log s ∧ ¬ PS σ' s ∧ ¬ QS σ' s))
    (hF : ∀ s, s ∉ σ.tainted → FS σ' s → FS σ s ∨ ¬ stopIn σ.log s)
    (hP : ∀ p ∈ σ'.vol.pending, (∃ q ∈ σ.vol.pending, q.id = p.id ∧ q.req = p.req) ∨ p.req.kind ≠ .stop ∨
      (p.req.sid ∉ σ.tainted → NewStop σ σ' p))
    (hPid : ∀ s, s ∉ σ.tainted → ¬ PS σ s →
      ∀ p ∈ σ'.vol.pending, ∀ q ∈ σ'.vol.pending, isStop p s → isStop q s → p.id = q.id)
    (hQ : σ'.dur.pfile = σ.dur.pfile) : ND σ' := by
  apply nd_gen h ht hL hC hA hF hP hPid
  · intro ps' hps'; left; rw [← hQ]; exact hps'
  · intro s _ _ hc; exact absurd hc (hne.1 s)
  · intro s b hc; exact absurd hc (hne.2.1 s b)
  · intro s hc; exact absurd hc (hne.2.2 s)
  · intro hr; exact absurd hr hq.1
  · intro recd cur hr; rw [hq.2.1] at hr; simp at hr
  · intro l hl; rw [hq.2.2] at hl; simp at hl

/-- the log's Stop part does not change when a non-Stop record is appended -/
theorem stopIn_snoc_nonstop {log : List Rec} {r : Rec} (hk : r.kind ≠ .stop) (s : Nat) :
    stopIn (log ++ [r]) s ↔ stopIn log s := by
  rw [stopIn_snoc]
  constructor
  · rintro (h | ⟨h, _⟩)
    · exact h
    · exact absurd h hk
  · exact Or.inl

theorem stopCount_snoc_nonstop {log : List Rec} {r : Rec} (hk : r.kind ≠ .stop) (s : Nat) :
    stopCount (log ++ [r]) s = stopCount log s := by
  rw [stopCount_snoc]
  have : isStopOf s r = false := by
    simp only [isStopOf, Bool.and_eq_false_iff]
    left; simpa using hk
  simp [this]



/-- a step that creates no source of a Stop and accepts none -/
theorem nd_sub {σ σ' : State} (h : ND σ)
    (ht : σ'.tainted = σ.tainted)
    (hL : ∀ s, stopIn σ'.log s ↔ stopIn σ.log s)
    (hC : ∀ s, stopCount σ'.log s = stopCount σ.log s)
    (hA : ∀ s, AS σ' s → AS σ s) (hF : ∀ s, FS σ' s → FS σ s)
    (hP : ∀ p ∈ σ'.vol.pending, (∃ q ∈ σ.vol.pending, q.id = p.id ∧ q.req = p.req) ∨ p.req.kind ≠ .stop)
    (hQ : σ'.dur.pfile = σ.dur.pfile ∨ σ'.dur.pfile = none)
    (hcl : ∀ s, s ∉ σ.tainted → stopIn σ.log s → cleans σ.vol.pc s → cleans σ'.vol.pc s ∨ ¬ FS σ' s)
    (hex : ∀ s b, exA σ.vol.pc s b → exA σ'.vol.pc s b ∨ ¬ AS σ' s)
    (hcv : ∀ s, covers σ.vol.pc s → covers σ'.vol.pc s ∨ ¬ QS σ' s)
    (hr1 : isRec σ'.vol.pc → σ'.vol.sessions = [])
    (hr2 : ∀ recd cur, recInfo σ'.vol.pc = some (recd, cur) →
      (∀ x ∈ recd, ¬ FS σ' x) ∧ (∀ p ∈ σ'.vol.pending, ∀ s, isStop p s → s ∈ recd ∨ cur = some s))
    (hdr : ∀ l, pendingDrain σ'.vol.pc = some l → l.Nodup) : ND σ' := by
  apply nd_gen h ht hL hC (fun s _ hs => Or.inl (hA s hs)) (fun s _ hs => Or.inl (hF s hs))
  · intro p hp
    rcases hP p hp with h1 | h1
    · exact Or.inl h1
    · exact Or.inr (Or.inl h1)
  · intro s _ hps p hp q _ h1 _
    rcases hP p hp with ⟨p0, hp0, _, e⟩ | h2
    · exact absurd ⟨p0, hp0, by unfold isStop; rw [e]; exact h1⟩ hps
    · exact absurd h1.1 h2
  · intro ps' hps'
    rcases hQ with e | e
    · left; rw [← e]; exact hps'
    · rw [e] at hps'; simp at hps'
  · exact hcl
  · exact hex
  · exact hcv
  · exact hr1
  · exact hr2
  · exact hdr

/-- `nd_sub` when the frame left has no excuses and the frame entered is outside recovery and drain -/
theorem nd_sub_plain {σ σ' : State} (h : ND σ) (hne : noExcuse σ.vol.pc) (hq : quiet σ'.vol.pc)
    (ht : σ'.tainted = σ.tainted)
    (hL : ∀ s, stopIn σ'.log s ↔ stopIn σ.log s)
    (hC : ∀ s, stopCount σ'.log s = stopCount σ.log s)
    (hA : ∀ s, AS σ' s → AS σ s) (hF : ∀ s, FS σ' s → FS σ s)
    (hP : ∀ p ∈ σ'.vol.pending, (∃ q ∈ σ.vol.pending, q.id = p.id ∧ q.req = p.req) ∨ p.req.kind ≠ .stop)
    (hQ : σ'.dur.pfile = σ.dur.pfile ∨ σ'.dur.pfile = none) : ND σ' := by
  apply nd_sub h ht hL hC hA hF hP hQ
  · intro s _ _ hc; exact absurd hc (hne.1 s)
  · intro s b hc; exact absurd hc (hne.2.1 s b)
  · intro s hc; exact absurd hc (hne.2.2 s)
  · intro hr; exact absurd hr hq.1
  · intro recd cur hr; rw [hq.2.1] at hr; simp at hr
  · intro l hl; rw [hq.2.2] at hl; simp at hl

/-! ## the micro-steps -/

/-- sending (or queueing) a record that is not a Stop -/
theorem nd_send_nonstop {σ : State} (h : ND σ) (hne : noExcuse σ.vol.pc) (r : Rec) (a : Bool)
    (hk : r.kind ≠ .stop) (pc' : Option Frame) (hq : quiet pc') : ND (setPc (send σ r a false) pc') := by
  cases a with
  | true =>
    apply nd_sub_plain (σ' := setPc (send σ r true false) pc') h hne hq rfl
    · intro s; exact stopIn_snoc_nonstop hk s
    · intro s; exact stopCount_snoc_nonstop hk s
    · exact fun s hs => hs
    · exact fun s hs => hs
    · intro p hp; exact Or.inl ⟨p, hp, rfl, rfl⟩
    · exact Or.inl rfl
  | false =>
    apply nd_sub_plain (σ' := setPc (send σ r false false) pc') h hne hq rfl
    · intro s; exact Iff.rfl
    · intro s; rfl
    · exact fun s hs => hs
    · exact fun s hs => hs
    · intro p hp
      simp only [setPc, send, enqueue, Bool.false_eq_true, if_false, List.mem_cons] at hp
      rcases hp with e | e
      · subst e; exact Or.inr hk
      · exact Or.inl ⟨p, e, rfl, rfl⟩
    · exact Or.inl rfl

theorem nd_tickStartSend {σ : State} (h : ND σ) {k : Nat} (heq : σ.vol.pc = some (.startSend k)) (a : Bool) :
    ND (tickStartSend σ k a) := by
  have hne : noExcuse σ.vol.pc := by rw [heq]; exact noExcuse_startSend k
  unfold tickStartSend
  split
  · exact nd_sub_plain (σ' := setPc σ none) h hne quiet_none rfl (fun _ => Iff.rfl) (fun _ => rfl)
      (fun s hs => hs) (fun s hs => hs) (fun p hp => Or.inl ⟨p, hp, rfl, rfl⟩) (Or.inl rfl)
  · exact nd_send_nonstop h hne _ a (by simp) _ (quiet_startPersist k)

/-- persisting a session that is in memory, from a frame that has no excuse for it -/
theorem nd_persist {σ : State} (h : ND σ) (hne : noExcuse σ.vol.pc) (k : Nat) (pc' : Option Frame)
    (hq : quiet pc') (st : List Nat) :
    ND (setPc { (persistSession σ k) with started := st } pc') := by
  have pl : (persistSession σ k).log = σ.log ∧ (persistSession σ k).vol = σ.vol ∧
      (persistSession σ k).tainted = σ.tainted ∧ (persistSession σ k).dur.pfile = σ.dur.pfile := by
    unfold persistSession; split <;> exact ⟨rfl, rfl, rfl, rfl⟩
  apply nd_plain (σ' := setPc { (persistSession σ k) with started := st } pc') h hne hq
  · exact pl.2.2.1
  · intro s; show stopIn (persistSession σ k).log s ↔ _; rw [pl.1]
  · intro s; show stopCount (persistSession σ k).log s = _; rw [pl.1]
  · intro s _ hs
    left
    have : (setPc { (persistSession σ k) with started := st } pc').vol.sessions = σ.vol.sessions := by
      show (persistSession σ k).vol.sessions = _; rw [pl.2.1]
    unfold AS at hs ⊢; rw [this] at hs; exact hs
  · intro s ht hs
    have hfiles : (setPc { (persistSession σ k) with started := st } pc').dur.files =
        (persistSession σ k).dur.files := rfl
    unfold FS at hs; rw [hfiles] at hs
    unfold persistSession at hs
    split at hs
    · exact Or.inl hs
    · rename_i x hx
      simp only [lookup_insert] at hs
      split at hs
      · rename_i e
        subst e
        right
        intro hl
        have := (h.per s ht).f hl (by unfold AS; rw [hx]; rfl)
        exact hne.2.1 s true this
      · exact Or.inl hs
  · intro p hp
    have : (setPc { (persistSession σ k) with started := st } pc').vol.pending = σ.vol.pending := by
      show (persistSession σ k).vol.pending = _; rw [pl.2.1]
    rw [this] at hp
    exact Or.inl ⟨p, hp, rfl, rfl⟩
  · intro s _ hps p hp q hq h1 _
    have : (setPc { (persistSession σ k) with started := st } pc').vol.pending = σ.vol.pending := by
      show (persistSession σ k).vol.pending = _; rw [pl.2.1]
    rw [this] at hp
    exact absurd ⟨p, hp, h1⟩ hps
  · exact pl.2.2.2


theorem nd_tickStartPersist {σ : State} (h : ND σ) {k : Nat} (heq : σ.vol.pc = some (.startPersist k)) :
    ND (tickStartPersist σ k) := by
  have hne : noExcuse σ.vol.pc := by rw [heq]; exact noExcuse_startPersist k
  unfold tickStartPersist
  split
  · exact nd_sub_plain (σ' := setPc σ none) h hne quiet_none rfl (fun _ => Iff.rfl) (fun _ => rfl)
      (fun s hs => hs) (fun s hs => hs) (fun p hp => Or.inl ⟨p, hp, rfl, rfl⟩) (Or.inl rfl)
  · exact nd_persist h hne k none quiet_none _

theorem nd_tickStopPersist {σ : State} (h : ND σ) {k : Nat} (heq : σ.vol.pc = some (.stopPersist k)) :
    ND (tickStopPersist σ k) := by
  have hne : noExcuse σ.vol.pc := by rw [heq]; exact noExcuse_stopPersist k
  exact nd_persist h hne k (some (.stopSend k)) (quiet_stopSend k) (persistSession σ k).started

/-- queueing a Stop that could not be sent -/
theorem nd_enqueue_stop {σ : State} (h : ND σ) (r : Rec) (v : Bool) (hk : r.kind = .stop) (pc' : Option Frame)
    (f : State → State) (hf : ∀ τ, (f τ).tainted = τ.tainted ∧ (f τ).log = τ.log ∧ (f τ).vol = τ.vol ∧ (f τ).dur = τ.dur)
    (hn1 : r.sid ∉ σ.tainted → ¬ PS σ r.sid) (hn2 : r.sid ∉ σ.tainted → ¬ stopIn σ.log r.sid)
    (hn3 : r.sid ∉ σ.tainted → AS σ r.sid → exA pc' r.sid false)
    (hn4 : r.sid ∉ σ.tainted → QS σ r.sid → covers pc' r.sid)
    (hcl : ∀ s, s ∉ σ.tainted → stopIn σ.log s → cleans σ.vol.pc s → cleans pc' s ∨ ¬ FS σ s)
    (hex : ∀ s b, exA σ.vol.pc s b → exA pc' s b ∨ ¬ AS σ s)
    (hcv : ∀ s, covers σ.vol.pc s → covers pc' s ∨ ¬ QS σ s)
    (hr1 : isRec pc' → σ.vol.sessions = [])
    (hr2 : ∀ recd cur, recInfo pc' = some (recd, cur) →
      (∀ x ∈ recd, ¬ FS σ x) ∧ (cur = some r.sid ∨ r.sid ∈ recd) ∧
      (∀ p ∈ σ.vol.pending, ∀ s, isStop p s → s ∈ recd ∨ cur = some s))
    (hdr : ∀ l, pendingDrain pc' = some l → l.Nodup) :
    ND (setPc (enqueue (f σ) r v) pc') := by
  obtain ⟨f1, f2, f3, f4⟩ := hf σ
  have eA : ∀ s, AS (setPc (enqueue (f σ) r v) pc') s ↔ AS σ s := by
    intro s; unfold AS; show (lookup (f σ).vol.sessions s).isSome = true ↔ _; rw [f3]
  have eF : ∀ s, FS (setPc (enqueue (f σ) r v) pc') s ↔ FS σ s := by
    intro s; unfold FS; show (lookup (f σ).dur.files s).isSome = true ↔ _; rw [f4]
  have eQ : ∀ s, QS (setPc (enqueue (f σ) r v) pc') s ↔ QS σ s := by
    intro s; unfold QS; show (∃ ps, (f σ).dur.pfile = some ps ∧ _) ↔ _; rw [f4]
  have ePend : (setPc (enqueue (f σ) r v) pc').vol.pending =
      { id := (f σ).clock + 1, req := r, retries := 0, viaRecovery := v } :: σ.vol.pending := by
    show _ :: (f σ).vol.pending = _; rw [f3]
  apply nd_gen (σ' := setPc (enqueue (f σ) r v) pc') h
  · show (f σ).tainted = _; exact f1
  · intro s; show stopIn (f σ).log s ↔ _; rw [f2]
  · intro s; show stopCount (f σ).log s = _; rw [f2]
  · intro s _ hs; exact Or.inl ((eA s).mp hs)
  · intro s _ hs; exact Or.inl ((eF s).mp hs)
  · intro p hp
    rw [ePend] at hp
    rcases List.mem_cons.mp hp with e | e
    · subst e
      right; right
      intro ht
      exact ⟨hn1 ht, hn2 ht, fun ha => hn3 ht ((eA _).mp ha), fun hq => hn4 ht ((eQ _).mp hq)⟩
    · exact Or.inl ⟨p, e, rfl, rfl⟩
  · intro s _ hps p hp q hq h1 h2
    rw [ePend] at hp hq
    rcases List.mem_cons.mp hp with e | e
    · rcases List.mem_cons.mp hq with e' | e'
      · rw [e, e']
      · exact absurd ⟨q, e', h2⟩ hps
    · exact absurd ⟨p, e, h1⟩ hps
  · intro ps' hps'; left
    have : (setPc (enqueue (f σ) r v) pc').dur.pfile = σ.dur.pfile := by
      show (f σ).dur.pfile = _; rw [f4]
    rw [← this]; exact hps'
  · intro s ht hl hc
    rcases hcl s ht hl hc with h1 | h1
    · exact Or.inl h1
    · exact Or.inr (fun hh => h1 ((eF s).mp hh))
  · intro s b hc
    rcases hex s b hc with h1 | h1
    · exact Or.inl h1
    · exact Or.inr (fun hh => h1 ((eA s).mp hh))
  · intro s hc
    rcases hcv s hc with h1 | h1
    · exact Or.inl h1
    · exact Or.inr (fun hh => h1 ((eQ s).mp hh))
  · intro hr
    show (f σ).vol.sessions = []; rw [f3]; exact hr1 hr
  · intro recd cur hr
    obtain ⟨a1, a2, a3⟩ := hr2 recd cur hr
    refine ⟨fun x hx hh => a1 x hx ((eF x).mp hh), ?_⟩
    intro p hp s hst
    rw [ePend] at hp
    rcases List.mem_cons.mp hp with e | e
    · subst e
      have : s = r.sid := hst.2.symm
      subst this
      rcases a2 with h1 | h1
      · exact Or.inr h1
      · exact Or.inl h1
    · exact a3 p e s hst
  · exact hdr


theorem nd_tickStopSend {σ : State} (h : ND σ) {k : Nat} (heq : σ.vol.pc = some (.stopSend k)) (a : Bool) :
    ND (tickStopSend σ k a) := by
  have hne : noExcuse σ.vol.pc := by rw [heq]; exact noExcuse_stopSend k
  unfold tickStopSend
  split
  · exact nd_sub_plain (σ' := setPc σ none) h hne quiet_none rfl (fun _ => Iff.rfl) (fun _ => rfl)
      (fun s hs => hs) (fun s hs => hs) (fun p hp => Or.inl ⟨p, hp, rfl, rfl⟩) (Or.inl rfl)
  · rename_i x hx
    have hAS : AS σ k := by unfold AS; rw [hx]; rfl
    have noStop : k ∉ σ.tainted → ¬ stopIn σ.log k :=
      fun ht hl => hne.2.1 k true ((h.per k ht).f hl hAS)
    have noPS : k ∉ σ.tainted → ¬ PS σ k :=
      fun ht hp => hne.2.1 k false ((h.per k ht).h hp hAS)
    have noQS : k ∉ σ.tainted → ¬ QS σ k := fun ht => (h.per k ht).j hAS
    cases a with
    | true =>
      apply nd_ack (σ' := setPc (send σ (stopRec k x x.stopCause (counters σ k)) true false)
        (some (.stopDelete k true))) h (stopRec k x x.stopCause (counters σ k)) rfl rfl rfl noStop
        (fun s hs => hs) (fun s hs => hs) (fun p hp => ⟨p, hp, rfl, rfl⟩) rfl
      · exact noPS
      · intro _ _; rfl
      · intro _ _; exact Or.inl rfl
      · intro ht hq; exact absurd hq (noQS ht)
      · intro s _ _ hc; exact absurd hc (hne.1 s)
      · intro s b hc; exact absurd hc (hne.2.1 s b)
      · intro s hc; exact absurd hc (hne.2.2 s)
      · intro hr; exact absurd hr (quiet_stopDelete k true).1
      · intro recd cur hr; simp [setPc, recInfo] at hr
      · intro l hl; simp [setPc, pendingDrain] at hl
    | false =>
      have := nd_enqueue_stop h (stopRec k x x.stopCause (counters σ k)) false rfl (some (.stopDelete k false)) id
        (fun τ => ⟨rfl, rfl, rfl, rfl⟩) noPS noStop (fun _ _ => Or.inl rfl)
        (fun ht hq => absurd hq (noQS ht))
        (fun s _ _ hc => absurd hc (hne.1 s)) (fun s b hc => absurd hc (hne.2.1 s b))
        (fun s hc => absurd hc (hne.2.2 s))
        (fun hr => absurd hr (quiet_stopDelete k false).1)
        (fun recd cur hr => by simp [recInfo] at hr)
        (fun l hl => by simp [pendingDrain] at hl)
      exact this

theorem nd_tickStopDelete {σ : State} (h : ND σ) {k : Nat} {b : Bool}
    (heq : σ.vol.pc = some (.stopDelete k b)) : ND (tickStopDelete σ k b) := by
  unfold tickStopDelete
  have hA : ∀ s, AS (setPc { σ with vol := { σ.vol with sessions := AMap.erase σ.vol.sessions k } }
      (some (.stopRemove k b))) s → AS σ s ∧ s ≠ k := by
    intro s hs
    unfold AS at hs ⊢
    simp only [setPc, lookup_erase] at hs
    split at hs
    · simp at hs
    · rename_i e; exact ⟨hs, e⟩
  apply nd_sub (σ' := setPc { σ with vol := { σ.vol with sessions := AMap.erase σ.vol.sessions k } }
    (some (.stopRemove k b))) h rfl (fun _ => Iff.rfl) (fun _ => rfl) (fun s hs => (hA s hs).1)
    (fun s hs => hs) (fun p hp => Or.inl ⟨p, hp, rfl, rfl⟩) (Or.inl rfl)
  · intro s _ _ hc
    rw [heq] at hc
    left
    cases b <;> simp_all [cleans, setPc]
  · intro s b' hc
    rw [heq] at hc
    right
    intro hs
    have := hA s hs
    rcases hc with e | ⟨l, hl, _⟩
    · simp only [Option.some.injEq, Frame.stopDelete.injEq] at e
      exact this.2 e.1.symm
    · simp [pendingDrain] at hl
  · intro s hc; rw [heq] at hc; simp [covers] at hc
  · intro hr; exact absurd hr (quiet_stopRemove k b).1
  · intro recd cur hr; simp [setPc, recInfo] at hr
  · intro l hl; simp [setPc, pendingDrain] at hl

theorem nd_tickStopRemove {σ : State} (h : ND σ) {k : Nat} {b : Bool}
    (heq : σ.vol.pc = some (.stopRemove k b)) : ND (tickStopRemove σ k b) := by
  unfold tickStopRemove
  have hF : ∀ s, FS (setPc (if b = true then removeFile σ k else σ) none) s → FS σ s ∧ (b = true → s ≠ k) := by
    intro s hs
    unfold FS at hs ⊢
    cases b with
    | false => exact ⟨hs, fun e => by cases e⟩
    | true =>
      simp only [setPc, removeFile, if_true, lookup_erase] at hs
      split at hs
      · simp at hs
      · rename_i e; exact ⟨hs, fun _ => e⟩
  apply nd_sub (σ' := setPc (if b = true then removeFile σ k else σ) none) h
  · cases b <;> rfl
  · intro s; cases b <;> exact Iff.rfl
  · intro s; cases b <;> rfl
  · intro s hs; cases b <;> exact hs
  · exact fun s hs => (hF s hs).1
  · intro p hp; cases b <;> exact Or.inl ⟨p, hp, rfl, rfl⟩
  · left; cases b <;> rfl
  · intro s _ _ hc
    rw [heq] at hc
    right
    intro hs
    cases b with
    | false => simp [cleans] at hc
    | true =>
      simp only [cleans] at hc
      exact (hF s hs).2 rfl hc.symm
  · intro s b' hc
    rw [heq] at hc
    rcases hc with e | ⟨l, hl, _⟩
    · simp at e
    · simp [pendingDrain] at hl
  · intro s hc; rw [heq] at hc; simp [covers] at hc
  · intro hr; exact absurd hr quiet_none.1
  · intro recd cur hr; simp [setPc, recInfo] at hr
  · intro l hl; simp [setPc, pendingDrain] at hl


theorem nd_tickIntSend {σ : State} (h : ND σ) {k : Nat} (heq : σ.vol.pc = some (.intSend k)) (a : Bool) :
    ND (tickIntSend σ k a) := by
  have hne : noExcuse σ.vol.pc := by rw [heq]; exact noExcuse_intSend k
  unfold tickIntSend
  split
  · exact nd_sub_plain (σ' := setPc σ none) h hne quiet_none rfl (fun _ => Iff.rfl) (fun _ => rfl)
      (fun s hs => hs) (fun s hs => hs) (fun p hp => Or.inl ⟨p, hp, rfl, rfl⟩) (Or.inl rfl)
  · rename_i x hx
    dsimp only
    split
    · apply nd_sub_plain h hne quiet_none (by rfl)
      · intro s; exact stopIn_snoc_nonstop (by simp) s
      · intro s; exact stopCount_snoc_nonstop (by simp) s
      · intro s hs
        unfold AS at hs ⊢
        simp only [setPc, accept, lookup_insert] at hs
        split at hs
        · rename_i e; subst e; rw [hx]; rfl
        · exact hs
      · exact fun s hs => hs
      · intro p hp; exact Or.inl ⟨p, hp, rfl, rfl⟩
      · exact Or.inl rfl
    · apply nd_sub_plain h hne quiet_none (by rfl) (fun _ => Iff.rfl) (fun _ => rfl) (fun s hs => hs)
        (fun s hs => hs)
      · intro p hp
        simp only [setPc, enqueue, List.mem_cons] at hp
        rcases hp with e | e
        · subst e; exact Or.inr (by simp)
        · exact Or.inl ⟨p, e, rfl, rfl⟩
      · exact Or.inl rfl

theorem nd_tickProcSend {σ : State} (h : ND σ) {id : Nat} {rest : List Nat}
    (heq : σ.vol.pc = some (.procSend id rest)) (a : Bool) : ND (tickProcSend σ id rest a) := by
  have hne : noExcuse σ.vol.pc := by rw [heq]; exact noExcuse_procSend id rest
  unfold tickProcSend
  split
  · exact nd_sub_plain (σ' := setPc σ _) h hne (quiet_nextProc _ _) rfl (fun _ => Iff.rfl) (fun _ => rfl)
      (fun s hs => hs) (fun s hs => hs) (fun p hp => Or.inl ⟨p, hp, rfl, rfl⟩) (Or.inl rfl)
  · rename_i p hp
    have hm := findP_mem hp
    have hid := findP_id hp
    dsimp only
    split
    · -- acknowledged
      split
      · rename_i hk
        have hk' : p.req.kind = .stop := by simpa using hk
        have hPS : PS σ p.req.sid := ⟨p, hm, hk', rfl⟩
        apply nd_ack h p.req hk' (by rfl) (by rfl)
        · intro ht hl; exact (h.per _ ht).d hl hPS
        · exact fun s hs => hs
        · exact fun s hs => hs
        · intro q hq; exact ⟨q, mem_eraseP hq, rfl, rfl⟩
        · rfl
        · intro ht ⟨q, hq, hst⟩
          have hq' : q ∈ eraseP σ.vol.pending id := hq
          have h1 := (h.per _ ht).b q (mem_eraseP hq') p hm hst ⟨hk', rfl⟩
          have h2 : q.id ≠ id := by
            have := (List.mem_filter.mp hq').2
            simpa using this
          exact h2 (by rw [h1, hid])
        · intro _ _; rfl
        · intro ht ha
          exact absurd ((h.per _ ht).h hPS ha) (hne.2.1 _ false)
        · intro ht hq
          exact absurd ((h.per _ ht).i hPS hq) (hne.2.2 _)
        · intro s _ _ hc; exact absurd hc (hne.1 s)
        · intro s b hc; exact absurd hc (hne.2.1 s b)
        · intro s hc; exact absurd hc (hne.2.2 s)
        · intro hr; exact absurd hr (quiet_procRemove _ _).1
        · intro recd cur hr; simp [setPc, recInfo] at hr
        · intro l hl; simp [setPc, pendingDrain] at hl
      · rename_i hk
        have hk' : p.req.kind ≠ .stop := by simpa using hk
        apply nd_sub_plain h hne (quiet_nextProc _ _) (by rfl)
        · intro s; exact stopIn_snoc_nonstop hk' s
        · intro s; exact stopCount_snoc_nonstop hk' s
        · exact fun s hs => hs
        · exact fun s hs => hs
        · intro q hq; exact Or.inl ⟨q, mem_eraseP hq, rfl, rfl⟩
        · exact Or.inl rfl
    · -- not acknowledged: retry count, or abandoned
      split
      · apply nd_sub_plain h hne (quiet_nextProc _ _) (by rfl) (fun _ => Iff.rfl) (fun _ => rfl)
          (fun s hs => hs) (fun s hs => hs)
        · intro q hq; exact Or.inl ⟨q, mem_eraseP hq, rfl, rfl⟩
        · exact Or.inl rfl
      · apply nd_sub_plain h hne (quiet_nextProc _ _) (by rfl) (fun _ => Iff.rfl) (fun _ => rfl)
          (fun s hs => hs) (fun s hs => hs)
        · intro q hq
          simp only [setPc, noteOrd, List.mem_map] at hq
          obtain ⟨q0, hq0, e⟩ := hq
          left
          refine ⟨q0, hq0, ?_, ?_⟩ <;> (split at e <;> (subst e; rfl))
        · exact Or.inl rfl

theorem nd_tickProcRemove {σ : State} (h : ND σ) {k : Nat} {rest : List Nat}
    (heq : σ.vol.pc = some (.procRemove k rest)) : ND (tickProcRemove σ k rest) := by
  unfold tickProcRemove
  have hq := quiet_nextProc σ.vol.pending rest
  have hn := noExcuse_nextProc σ.vol.pending rest
  by_cases hA : (lookup σ.vol.sessions k).isSome = true
  · simp only [hA, if_true]
    apply nd_sub (σ' := setPc σ (nextProc σ.vol.pending rest)) h rfl (fun _ => Iff.rfl) (fun _ => rfl)
      (fun s hs => hs) (fun s hs => hs) (fun p hp => Or.inl ⟨p, hp, rfl, rfl⟩) (Or.inl rfl)
    · intro s ht hl hc
      rw [heq] at hc
      simp only [cleans] at hc
      subst hc
      -- an accepted Stop and the session still in memory: the frame has no excuse for that
      have := (h.per k ht).f hl hA
      rw [heq] at this
      rcases this with e | ⟨l, hl', _⟩
      · simp at e
      · simp [pendingDrain] at hl'
    · intro s b hc
      rw [heq] at hc
      rcases hc with e | ⟨l, hl', _⟩
      · simp at e
      · simp [pendingDrain] at hl'
    · intro s hc; rw [heq] at hc; simp [covers] at hc
    · intro hr; exact absurd hr hq.1
    · intro recd cur hr; simp only [setPc] at hr; rw [hq.2.1] at hr; simp at hr
    · intro l hl; simp only [setPc] at hl; rw [hq.2.2] at hl; simp at hl
  · simp only [hA]
    apply nd_sub (σ' := setPc (removeFile σ k) (nextProc (removeFile σ k).vol.pending rest)) h rfl
      (fun _ => Iff.rfl) (fun _ => rfl) (fun s hs => hs)
    · intro s hs
      unfold FS at hs ⊢
      simp only [setPc, removeFile, lookup_erase] at hs
      split at hs
      · simp at hs
      · exact hs
    · exact fun p hp => Or.inl ⟨p, hp, rfl, rfl⟩
    · exact Or.inl rfl
    · intro s _ _ hc
      rw [heq] at hc
      simp only [cleans] at hc
      subst hc
      right
      unfold FS
      simp [setPc, removeFile]
    · intro s b hc
      rw [heq] at hc
      rcases hc with e | ⟨l, hl', _⟩
      · simp at e
      · simp [pendingDrain] at hl'
    · intro s hc; rw [heq] at hc; simp [covers] at hc
    · intro hr; exact absurd hr hq.1
    · intro recd cur hr
      have : recInfo (nextProc σ.vol.pending rest) = none := hq.2.1
      simp only [setPc, removeFile] at hr
      rw [this] at hr; simp at hr
    · intro l hl
      have : pendingDrain (nextProc σ.vol.pending rest) = none := hq.2.2
      simp only [setPc, removeFile] at hl
      rw [this] at hl; simp at hl

end Bng.Acct
