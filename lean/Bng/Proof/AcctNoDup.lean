import Bng.Proof.AcctRetry
/-
  no_dup: once a Stop of a session has been ACKNOWLEDGED to the client, the server never accepts another Stop of
  that session, unless a crash happened after the session was started (session ids not reused).  The
  invariant says where a further Stop of a session could still come from — the session in memory, its
  session file, a Stop record in the retry map or in pending.json — and that once a Stop of the session
  has been acknowledged none of them is left, except those a frame in progress (of the API thread or of the
  processor thread) is about to remove.  All threads run: every interleaving of `tick`, `ptick` and `itick`
  (the interim goroutine only ever sends or queues a record that is not a Stop and writes nothing durable: `nd_itick`).
-/
namespace Bng.Acct
open Bng AMap

def isStop (p : PRec) (s : Nat) : Prop := p.req.kind = .stop ∧ p.req.sid = s

def AS (σ : State) (s : Nat) : Prop := (lookup σ.vol.sessions s).isSome = true
def FS (σ : State) (s : Nat) : Prop := (lookup σ.dur.files s).isSome = true
def PS (σ : State) (s : Nat) : Prop := ∃ p ∈ σ.vol.pending, isStop p s
def QS (σ : State) (s : Nat) : Prop := ∃ ps, σ.dur.pfile = some ps ∧ ∃ p ∈ ps, isStop p s
/-- a Stop of the session was acknowledged to the client -/
def ackd (σ : State) (s : Nat) : Prop := s ∈ σ.ackedStops

/-- the frame is about to remove the session file of `s` -/
def cleans : Option Frame → Nat → Prop
  | some (.stopDelete k true), s => k = s
  | some (.stopRemove k true), s => k = s
  | some (.procRemove k _), s => k = s
  | some (.drainRemove k _), s => k = s
  | some (.recRemove k _ _ _), s => k = s
  | _, _ => False

/-- one of the two threads is about to remove the session file of `s` -/
def cl (σ : State) (s : Nat) : Prop := cleans σ.vol.pc s ∨ cleans σ.vol.ppc s

/-- the sessions the shutdown drain has still to send a Stop for -/
def pendingDrain : Option Frame → Option (List Nat)
  | some (.drainSend k rest) => some (k :: rest)
  | some (.drainRemove _ rest) => some rest
  | some .persistPending => some []
  | _ => none

def drainedBy (pc : Option Frame) (s : Nat) : Prop := ∃ l, pendingDrain pc = some l ∧ s ∉ l

/-- why a session still in memory will not get another Stop: StopSession has sent (or queued) its Stop and is
    about to delete it, or the shutdown drain has dealt with it (the process exits afterwards) -/
def exA (pc : Option Frame) (s : Nat) : Prop :=
  (∃ b, pc = some (.stopDelete s b)) ∨ drainedBy pc s

/-- the recovery procedure will not load a Stop of `s` from pending.json -/
def covers : Option Frame → Nat → Prop
  | some (.recSend _ _ recd _), s => s ∈ recd
  | some (.recRemove k _ recd _), s => s = k ∨ s ∈ recd
  | some (.recLoad recd _), s => s ∈ recd
  | some .recPendRemove, _ => True
  | _, _ => False

/-- (sessions already recovered, session being recovered) -/
def recInfo : Option Frame → Option (List Nat × Option Nat)
  | some (.recSend _ _ recd _) => some (recd, none)
  | some (.recRemove k _ recd _) => some (recd, some k)
  | some (.recLoad recd _) => some (recd, none)
  | _ => none

/-- the per-session part, for sessions registered after the latest crash -/
structure NDs (σ : State) (s : Nat) : Prop where
  a : s ∉ σ.dup
  b : ∀ p ∈ σ.vol.pending, ∀ q ∈ σ.vol.pending, isStop p s → isStop q s → p.id = q.id
  c : ∀ ps, σ.dur.pfile = some ps → ∀ p ∈ ps, ∀ q ∈ ps, isStop p s → isStop q s → p.id = q.id
  d : ackd σ s → ¬ PS σ s
  e : ackd σ s → FS σ s → cl σ s
  f : ackd σ s → AS σ s → exA σ.vol.pc s
  g : ackd σ s → QS σ s → covers σ.vol.pc s
  h : PS σ s → AS σ s → exA σ.vol.pc s
  i : PS σ s → QS σ s → covers σ.vol.pc s
  j : AS σ s → ¬ QS σ s

structure ND (σ : State) : Prop where
  per : ∀ s, s ∉ σ.tainted → NDs σ s
  r1 : isRec σ.vol.pc → σ.vol.sessions = []
  r2 : ∀ recd cur, recInfo σ.vol.pc = some (recd, cur) →
    (∀ x ∈ recd, ¬ FS σ x) ∧ (∀ p ∈ σ.vol.pending, ∀ s, isStop p s → s ∈ recd ∨ cur = some s)
  dr : ∀ l, pendingDrain σ.vol.pc = some l → l.Nodup
  rp : isRec σ.vol.pc → σ.vol.ppc = none

/-- a new Stop record may be queued for a session only when none is queued, none was acknowledged, and the
    frame that follows knows about the session in memory / the copy in pending.json -/
def NewStop (σ σ' : State) (p : PRec) : Prop :=
  ¬ PS σ p.req.sid ∧ ¬ ackd σ p.req.sid ∧
  (AS σ' p.req.sid → exA σ'.vol.pc p.req.sid) ∧ (QS σ' p.req.sid → covers σ'.vol.pc p.req.sid)

/-- one step in which no Stop is acknowledged -/
theorem nd_gen {σ σ' : State} (h : ND σ)
    (ht : σ'.tainted = σ.tainted)
    (hAck : σ'.ackedStops = σ.ackedStops)
    (hDup : ∀ s, s ∉ σ.tainted → s ∈ σ'.dup → s ∈ σ.dup)
    (hA : ∀ s, s ∉ σ.tainted → AS σ' s → AS σ s ∨ (¬ ackd σ s ∧ ¬ PS σ' s ∧ ¬ QS σ' s))
    (hF : ∀ s, s ∉ σ.tainted → FS σ' s → FS σ s ∨ ¬ ackd σ s)
    (hP : ∀ p ∈ σ'.vol.pending, (∃ q ∈ σ.vol.pending, q.id = p.id ∧ q.req = p.req) ∨ p.req.kind ≠ .stop ∨
      (p.req.sid ∉ σ.tainted → NewStop σ σ' p))
    (hPid : ∀ s, s ∉ σ.tainted → ¬ PS σ s →
      ∀ p ∈ σ'.vol.pending, ∀ q ∈ σ'.vol.pending, isStop p s → isStop q s → p.id = q.id)
    (hQ : ∀ ps', σ'.dur.pfile = some ps' → σ.dur.pfile = some ps' ∨
      ((∀ p ∈ ps', ∃ q ∈ σ.vol.pending, q.id = p.id ∧ q.req = p.req) ∧ σ'.vol.pending = [] ∧ σ'.vol.sessions = []))
    (hcl : ∀ s, s ∉ σ.tainted → ackd σ s → cl σ s → cl σ' s ∨ ¬ FS σ' s)
    (hex : ∀ s, exA σ.vol.pc s → exA σ'.vol.pc s ∨ ¬ AS σ' s)
    (hcv : ∀ s, covers σ.vol.pc s → covers σ'.vol.pc s ∨ ¬ QS σ' s)
    (hr1 : isRec σ'.vol.pc → σ'.vol.sessions = [])
    (hr2 : ∀ recd cur, recInfo σ'.vol.pc = some (recd, cur) →
      (∀ x ∈ recd, ¬ FS σ' x) ∧ (∀ p ∈ σ'.vol.pending, ∀ s, isStop p s → s ∈ recd ∨ cur = some s))
    (hdr : ∀ l, pendingDrain σ'.vol.pc = some l → l.Nodup)
    (hrp : isRec σ'.vol.pc → σ'.vol.ppc = none) : ND σ' := by
  refine ⟨?_, hr1, hr2, hdr, hrp⟩
  intro s hs
  rw [ht] at hs
  have n := h.per s hs
  have hL : ackd σ' s ↔ ackd σ s := by unfold ackd; rw [hAck]
  -- an old Stop record of s behind a record of the new map
  have oldOf : ∀ p ∈ σ'.vol.pending, isStop p s → PS σ s →
      ∃ q ∈ σ.vol.pending, q.id = p.id ∧ isStop q s := by
    intro p hp hps hPS
    rcases hP p hp with ⟨q, hq, e1, e2⟩ | h1 | h1
    · exact ⟨q, hq, e1, by unfold isStop; rw [e2]; exact hps⟩
    · exact absurd hps.1 h1
    · have h1 := h1 (by rw [hps.2]; exact hs)
      unfold NewStop at h1; rw [hps.2] at h1; exact absurd hPS h1.1
  have psOld : PS σ' s → PS σ s ∨ ∃ p ∈ σ'.vol.pending, isStop p s ∧ NewStop σ σ' p := by
    rintro ⟨p, hp, hps⟩
    rcases hP p hp with ⟨q, hq, _, e2⟩ | h1 | h1
    · exact Or.inl ⟨q, hq, by unfold isStop; rw [e2]; exact hps⟩
    · exact absurd hps.1 h1
    · exact Or.inr ⟨p, hp, hps, h1 (by rw [hps.2]; exact hs)⟩
  have qsOld : QS σ' s → QS σ s ∨ (PS σ s ∧ σ'.vol.pending = [] ∧ σ'.vol.sessions = []) := by
    rintro ⟨ps', hps', p, hp, hst⟩
    rcases hQ ps' hps' with h1 | ⟨h1, h2, h3⟩
    · exact Or.inl ⟨ps', h1, p, hp, hst⟩
    · obtain ⟨q, hq, _, e2⟩ := h1 p hp
      exact Or.inr ⟨⟨q, hq, by unfold isStop; rw [e2]; exact hst⟩, h2, h3⟩
  constructor
  · exact fun hd => n.a (hDup s hs hd)
  · intro p hp q hq h1 h2
    by_cases hPS : PS σ s
    · obtain ⟨p0, hp0, e1, s1⟩ := oldOf p hp h1 hPS
      obtain ⟨q0, hq0, e2, s2⟩ := oldOf q hq h2 hPS
      rw [← e1, ← e2]; exact n.b p0 hp0 q0 hq0 s1 s2
    · exact hPid s hs hPS p hp q hq h1 h2
  · intro ps' hps' p hp q hq h1 h2
    rcases hQ ps' hps' with h0 | ⟨h0, _, _⟩
    · exact n.c ps' h0 p hp q hq h1 h2
    · obtain ⟨p0, hp0, e1, r1⟩ := h0 p hp
      obtain ⟨q0, hq0, e2, r2⟩ := h0 q hq
      rw [← e1, ← e2]
      exact n.b p0 hp0 q0 hq0 (by unfold isStop; rw [r1]; exact h1) (by unfold isStop; rw [r2]; exact h2)
  · intro hl hps
    have hl' := hL.mp hl
    rcases psOld hps with h1 | ⟨p, _, hst, hn⟩
    · exact n.d hl' h1
    · unfold NewStop at hn; rw [hst.2] at hn; exact hn.2.1 hl'
  · intro hl hf
    have hl' := hL.mp hl
    rcases hF s hs hf with h1 | h1
    · rcases hcl s hs hl' (n.e hl' h1) with h2 | h2
      · exact h2
      · exact absurd hf h2
    · exact absurd hl' h1
  · intro hl ha
    have hl' := hL.mp hl
    rcases hA s hs ha with h1 | h1
    · rcases hex s (n.f hl' h1) with h2 | h2
      · exact h2
      · exact absurd ha h2
    · exact absurd hl' h1.1
  · intro hl hq
    have hl' := hL.mp hl
    rcases qsOld hq with h1 | ⟨h1, _, _⟩
    · rcases hcv s (n.g hl' h1) with h2 | h2
      · exact h2
      · exact absurd hq h2
    · exact absurd h1 (n.d hl')
  · intro hps ha
    rcases psOld hps with h1 | ⟨p, _, hst, hn⟩
    · rcases hA s hs ha with h2 | h2
      · rcases hex s (n.h h1 h2) with h3 | h3
        · exact h3
        · exact absurd ha h3
      · exact absurd hps h2.2.1
    · unfold NewStop at hn; rw [hst.2] at hn; exact hn.2.2.1 ha
  · intro hps hq
    rcases psOld hps with h1 | ⟨p, _, hst, hn⟩
    · rcases qsOld hq with h2 | ⟨_, h2, _⟩
      · rcases hcv s (n.i h1 h2) with h3 | h3
        · exact h3
        · exact absurd hq h3
      · obtain ⟨p, hp, _⟩ := hps
        rw [h2] at hp; simp at hp
    · unfold NewStop at hn; rw [hst.2] at hn; exact hn.2.2.2 hq
  · intro ha hq
    rcases hA s hs ha with h1 | h1
    · rcases qsOld hq with h2 | ⟨_, _, h2⟩
      · exact n.j h1 h2
      · unfold AS at ha; rw [h2] at ha; simp at ha
    · exact h1.2.2 hq

/-- one step in which the Stop of session `k` is acknowledged to the client -/
theorem nd_ack {σ σ' : State} (h : ND σ) (k : Nat)
    (ht : σ'.tainted = σ.tainted)
    (hAck : σ'.ackedStops = k :: σ.ackedStops)
    (hDup : ∀ s, s ∉ σ.tainted → s ∈ σ'.dup → s ∈ σ.dup)
    (hA : ∀ s, AS σ' s → AS σ s)
    (hF : ∀ s, FS σ' s → FS σ s)
    (hP : ∀ p ∈ σ'.vol.pending, ∃ q ∈ σ.vol.pending, q.id = p.id ∧ q.req = p.req)
    (hQ : σ'.dur.pfile = σ.dur.pfile)
    (h0P : k ∉ σ.tainted → ¬ PS σ' k) (h0F : k ∉ σ.tainted → FS σ' k → cl σ' k)
    (h0A : k ∉ σ.tainted → AS σ' k → exA σ'.vol.pc k)
    (h0Q : k ∉ σ.tainted → QS σ' k → covers σ'.vol.pc k)
    (hcl : ∀ s, s ∉ σ.tainted → ackd σ s → cl σ s → cl σ' s ∨ ¬ FS σ' s)
    (hex : ∀ s, exA σ.vol.pc s → exA σ'.vol.pc s ∨ ¬ AS σ' s)
    (hcv : ∀ s, covers σ.vol.pc s → covers σ'.vol.pc s ∨ ¬ QS σ' s)
    (hr1 : isRec σ'.vol.pc → σ'.vol.sessions = [])
    (hr2 : ∀ recd cur, recInfo σ'.vol.pc = some (recd, cur) →
      (∀ x ∈ recd, ¬ FS σ' x) ∧ (∀ p ∈ σ'.vol.pending, ∀ s, isStop p s → s ∈ recd ∨ cur = some s))
    (hdr : ∀ l, pendingDrain σ'.vol.pc = some l → l.Nodup)
    (hrp : isRec σ'.vol.pc → σ'.vol.ppc = none) : ND σ' := by
  refine ⟨?_, hr1, hr2, hdr, hrp⟩
  intro s hs
  rw [ht] at hs
  have n := h.per s hs
  have psOld : PS σ' s → PS σ s := by
    rintro ⟨p, hp, hps⟩
    obtain ⟨q, hq, _, e2⟩ := hP p hp
    exact ⟨q, hq, by unfold isStop; rw [e2]; exact hps⟩
  have qsOld : QS σ' s → QS σ s := by
    unfold QS; rw [hQ]; exact id
  have hb : ∀ p ∈ σ'.vol.pending, ∀ q ∈ σ'.vol.pending, isStop p s → isStop q s → p.id = q.id := by
    intro p hp q hq h1 h2
    obtain ⟨p0, hp0, e1, r1⟩ := hP p hp
    obtain ⟨q0, hq0, e2, r2⟩ := hP q hq
    rw [← e1, ← e2]
    exact n.b p0 hp0 q0 hq0 (by unfold isStop; rw [r1]; exact h1) (by unfold isStop; rw [r2]; exact h2)
  have hh : PS σ' s → AS σ' s → exA σ'.vol.pc s := by
    intro hps ha
    rcases hex _ (n.h (psOld hps) (hA _ ha)) with h3 | h3
    · exact h3
    · exact absurd ha h3
  have hi : PS σ' s → QS σ' s → covers σ'.vol.pc s := by
    intro hps hq
    rcases hcv _ (n.i (psOld hps) (qsOld hq)) with h3 | h3
    · exact h3
    · exact absurd hq h3
  by_cases e : s = k
  · subst e
    exact ⟨fun hd => n.a (hDup s hs hd), hb, by rw [hQ]; exact n.c, fun _ => h0P hs, fun _ => h0F hs,
      fun _ => h0A hs, fun _ => h0Q hs, hh, hi, fun ha hq => n.j (hA _ ha) (qsOld hq)⟩
  · have hL : ackd σ' s → ackd σ s := by
      unfold ackd; rw [hAck]
      intro hm
      rcases List.mem_cons.mp hm with e' | e'
      · exact absurd e' e
      · exact e'
    refine ⟨fun hd => n.a (hDup s hs hd), hb, by rw [hQ]; exact n.c, ?_, ?_, ?_, ?_, hh, hi,
      fun ha hq => n.j (hA _ ha) (qsOld hq)⟩
    · intro hl hps; exact n.d (hL hl) (psOld hps)
    · intro hl hf
      rcases hcl s hs (hL hl) (n.e (hL hl) (hF s hf)) with h2 | h2
      · exact h2
      · exact absurd hf h2
    · intro hl ha
      rcases hex s (n.f (hL hl) (hA s ha)) with h2 | h2
      · exact h2
      · exact absurd ha h2
    · intro hl hq
      rcases hcv s (n.g (hL hl) (qsOld hq)) with h2 | h2
      · exact h2
      · exact absurd hq h2


/-! ## API micro-steps: the processor's program counter is untouched -/

theorem cl_api {σ σ' : State} (hppc : σ'.vol.ppc = σ.vol.ppc) {s : Nat}
    (hA : cleans σ.vol.pc s → cleans σ'.vol.pc s ∨ ¬ FS σ' s) (hc : cl σ s) : cl σ' s ∨ ¬ FS σ' s := by
  rcases hc with h1 | h1
  · rcases hA h1 with h2 | h2
    · exact Or.inl (Or.inl h2)
    · exact Or.inr h2
  · exact Or.inl (Or.inr (by rw [hppc]; exact h1))

theorem nd_genA {σ σ' : State} (h : ND σ)
    (hppc : σ'.vol.ppc = σ.vol.ppc)
    (ht : σ'.tainted = σ.tainted)
    (hAck : σ'.ackedStops = σ.ackedStops)
    (hDup : ∀ s, s ∉ σ.tainted → s ∈ σ'.dup → s ∈ σ.dup)
    (hA : ∀ s, s ∉ σ.tainted → AS σ' s → AS σ s ∨ (¬ ackd σ s ∧ ¬ PS σ' s ∧ ¬ QS σ' s))
    (hF : ∀ s, s ∉ σ.tainted → FS σ' s → FS σ s ∨ ¬ ackd σ s)
    (hP : ∀ p ∈ σ'.vol.pending, (∃ q ∈ σ.vol.pending, q.id = p.id ∧ q.req = p.req) ∨ p.req.kind ≠ .stop ∨
      (p.req.sid ∉ σ.tainted → NewStop σ σ' p))
    (hPid : ∀ s, s ∉ σ.tainted → ¬ PS σ s →
      ∀ p ∈ σ'.vol.pending, ∀ q ∈ σ'.vol.pending, isStop p s → isStop q s → p.id = q.id)
    (hQ : ∀ ps', σ'.dur.pfile = some ps' → σ.dur.pfile = some ps' ∨
      ((∀ p ∈ ps', ∃ q ∈ σ.vol.pending, q.id = p.id ∧ q.req = p.req) ∧ σ'.vol.pending = [] ∧ σ'.vol.sessions = []))
    (hcl : ∀ s, s ∉ σ.tainted → ackd σ s → cleans σ.vol.pc s → cleans σ'.vol.pc s ∨ ¬ FS σ' s)
    (hex : ∀ s, exA σ.vol.pc s → exA σ'.vol.pc s ∨ ¬ AS σ' s)
    (hcv : ∀ s, covers σ.vol.pc s → covers σ'.vol.pc s ∨ ¬ QS σ' s)
    (hr1 : isRec σ'.vol.pc → σ'.vol.sessions = [])
    (hr2 : ∀ recd cur, recInfo σ'.vol.pc = some (recd, cur) →
      (∀ x ∈ recd, ¬ FS σ' x) ∧ (∀ p ∈ σ'.vol.pending, ∀ s, isStop p s → s ∈ recd ∨ cur = some s))
    (hdr : ∀ l, pendingDrain σ'.vol.pc = some l → l.Nodup)
    (hrp : isRec σ'.vol.pc → isRec σ.vol.pc) : ND σ' :=
  nd_gen h ht hAck hDup hA hF hP hPid hQ (fun s hs ha hc => cl_api hppc (hcl s hs ha) hc) hex hcv hr1 hr2 hdr
    (fun hr => by rw [hppc]; exact h.rp (hrp hr))

theorem nd_ackA {σ σ' : State} (h : ND σ) (k : Nat)
    (hppc : σ'.vol.ppc = σ.vol.ppc)
    (ht : σ'.tainted = σ.tainted)
    (hAck : σ'.ackedStops = k :: σ.ackedStops)
    (hDup : ∀ s, s ∉ σ.tainted → s ∈ σ'.dup → s ∈ σ.dup)
    (hA : ∀ s, AS σ' s → AS σ s)
    (hF : ∀ s, FS σ' s → FS σ s)
    (hP : ∀ p ∈ σ'.vol.pending, ∃ q ∈ σ.vol.pending, q.id = p.id ∧ q.req = p.req)
    (hQ : σ'.dur.pfile = σ.dur.pfile)
    (h0P : k ∉ σ.tainted → ¬ PS σ' k) (h0F : k ∉ σ.tainted → FS σ' k → cleans σ'.vol.pc k)
    (h0A : k ∉ σ.tainted → AS σ' k → exA σ'.vol.pc k)
    (h0Q : k ∉ σ.tainted → QS σ' k → covers σ'.vol.pc k)
    (hcl : ∀ s, s ∉ σ.tainted → ackd σ s → cleans σ.vol.pc s → cleans σ'.vol.pc s ∨ ¬ FS σ' s)
    (hex : ∀ s, exA σ.vol.pc s → exA σ'.vol.pc s ∨ ¬ AS σ' s)
    (hcv : ∀ s, covers σ.vol.pc s → covers σ'.vol.pc s ∨ ¬ QS σ' s)
    (hr1 : isRec σ'.vol.pc → σ'.vol.sessions = [])
    (hr2 : ∀ recd cur, recInfo σ'.vol.pc = some (recd, cur) →
      (∀ x ∈ recd, ¬ FS σ' x) ∧ (∀ p ∈ σ'.vol.pending, ∀ s, isStop p s → s ∈ recd ∨ cur = some s))
    (hdr : ∀ l, pendingDrain σ'.vol.pc = some l → l.Nodup)
    (hrp : isRec σ'.vol.pc → isRec σ.vol.pc) : ND σ' :=
  nd_ack h k ht hAck hDup hA hF hP hQ h0P (fun hk hf => Or.inl (h0F hk hf)) h0A h0Q
    (fun s hs ha hc => cl_api hppc (hcl s hs ha) hc) hex hcv hr1 hr2 hdr
    (fun hr => by rw [hppc]; exact h.rp (hrp hr))

/-! ## frames without excuses, frames outside recovery and drain -/

def noExcuse (pc : Option Frame) : Prop :=
  (∀ s, ¬ cleans pc s) ∧ (∀ s, ¬ exA pc s) ∧ (∀ s, ¬ covers pc s)

def quiet (pc : Option Frame) : Prop := ¬ isRec pc ∧ recInfo pc = none ∧ pendingDrain pc = none

theorem noExcuse_none : noExcuse none := by
  refine ⟨fun s => by simp [cleans], fun s => by simp [exA, drainedBy, pendingDrain], fun s => by simp [covers]⟩
theorem noExcuse_startSend (k : Nat) : noExcuse (some (.startSend k)) := by
  refine ⟨fun s => by simp [cleans], fun s => by simp [exA, drainedBy, pendingDrain], fun s => by simp [covers]⟩
theorem noExcuse_startPersist (k : Nat) : noExcuse (some (.startPersist k)) := by
  refine ⟨fun s => by simp [cleans], fun s => by simp [exA, drainedBy, pendingDrain], fun s => by simp [covers]⟩
theorem noExcuse_stopPersist (k : Nat) : noExcuse (some (.stopPersist k)) := by
  refine ⟨fun s => by simp [cleans], fun s => by simp [exA, drainedBy, pendingDrain], fun s => by simp [covers]⟩
theorem noExcuse_stopSend (k : Nat) : noExcuse (some (.stopSend k)) := by
  refine ⟨fun s => by simp [cleans], fun s => by simp [exA, drainedBy, pendingDrain], fun s => by simp [covers]⟩

theorem quiet_none : quiet none := by simp [quiet, isRec, recInfo, pendingDrain]
theorem quiet_startSend (k : Nat) : quiet (some (.startSend k)) := by simp [quiet, isRec, recInfo, pendingDrain]
theorem quiet_startPersist (k : Nat) : quiet (some (.startPersist k)) := by simp [quiet, isRec, recInfo, pendingDrain]
theorem quiet_stopPersist (k : Nat) : quiet (some (.stopPersist k)) := by simp [quiet, isRec, recInfo, pendingDrain]
theorem quiet_stopSend (k : Nat) : quiet (some (.stopSend k)) := by simp [quiet, isRec, recInfo, pendingDrain]
theorem quiet_stopDelete (k : Nat) (b : Bool) : quiet (some (.stopDelete k b)) := by
  simp [quiet, isRec, recInfo, pendingDrain]
theorem quiet_stopRemove (k : Nat) (b : Bool) : quiet (some (.stopRemove k b)) := by
  simp [quiet, isRec, recInfo, pendingDrain]

/-- `nd_genA` for a step that leaves a frame without excuses and enters a frame outside recovery/drain -/
theorem nd_plain {σ σ' : State} (h : ND σ) (hne : noExcuse σ.vol.pc) (hq : quiet σ'.vol.pc)
    (hppc : σ'.vol.ppc = σ.vol.ppc)
    (ht : σ'.tainted = σ.tainted)
    (hAck : σ'.ackedStops = σ.ackedStops)
    (hDup : ∀ s, s ∉ σ.tainted → s ∈ σ'.dup → s ∈ σ.dup)
    (hA : ∀ s, s ∉ σ.tainted → AS σ' s → AS σ s ∨ (¬ ackd σ s ∧ ¬ PS σ' s ∧ ¬ QS σ' s))
    (hF : ∀ s, s ∉ σ.tainted → FS σ' s → FS σ s ∨ ¬ ackd σ s)
    (hP : ∀ p ∈ σ'.vol.pending, (∃ q ∈ σ.vol.pending, q.id = p.id ∧ q.req = p.req) ∨ p.req.kind ≠ .stop ∨
      (p.req.sid ∉ σ.tainted → NewStop σ σ' p))
    (hPid : ∀ s, s ∉ σ.tainted → ¬ PS σ s →
      ∀ p ∈ σ'.vol.pending, ∀ q ∈ σ'.vol.pending, isStop p s → isStop q s → p.id = q.id)
    (hQ : σ'.dur.pfile = σ.dur.pfile) : ND σ' := by
  apply nd_genA h hppc ht hAck hDup hA hF hP hPid
  · intro ps' hps'; left; rw [← hQ]; exact hps'
  · intro s _ _ hc; exact absurd hc (hne.1 s)
  · intro s hc; exact absurd hc (hne.2.1 s)
  · intro s hc; exact absurd hc (hne.2.2 s)
  · intro hr; exact absurd hr hq.1
  · intro recd cur hr; rw [hq.2.1] at hr; simp at hr
  · intro l hl; rw [hq.2.2] at hl; simp at hl
  · intro hr; exact absurd hr hq.1

/-- an API step that creates no source of a Stop and acknowledges none -/
theorem nd_sub {σ σ' : State} (h : ND σ)
    (hppc : σ'.vol.ppc = σ.vol.ppc)
    (ht : σ'.tainted = σ.tainted)
    (hAck : σ'.ackedStops = σ.ackedStops)
    (hDup : ∀ s, s ∉ σ.tainted → s ∈ σ'.dup → s ∈ σ.dup)
    (hA : ∀ s, AS σ' s → AS σ s) (hF : ∀ s, FS σ' s → FS σ s)
    (hP : ∀ p ∈ σ'.vol.pending, (∃ q ∈ σ.vol.pending, q.id = p.id ∧ q.req = p.req) ∨ p.req.kind ≠ .stop)
    (hQ : σ'.dur.pfile = σ.dur.pfile ∨ σ'.dur.pfile = none)
    (hcl : ∀ s, s ∉ σ.tainted → ackd σ s → cleans σ.vol.pc s → cleans σ'.vol.pc s ∨ ¬ FS σ' s)
    (hex : ∀ s, exA σ.vol.pc s → exA σ'.vol.pc s ∨ ¬ AS σ' s)
    (hcv : ∀ s, covers σ.vol.pc s → covers σ'.vol.pc s ∨ ¬ QS σ' s)
    (hr1 : isRec σ'.vol.pc → σ'.vol.sessions = [])
    (hr2 : ∀ recd cur, recInfo σ'.vol.pc = some (recd, cur) →
      (∀ x ∈ recd, ¬ FS σ' x) ∧ (∀ p ∈ σ'.vol.pending, ∀ s, isStop p s → s ∈ recd ∨ cur = some s))
    (hdr : ∀ l, pendingDrain σ'.vol.pc = some l → l.Nodup)
    (hrp : isRec σ'.vol.pc → isRec σ.vol.pc) : ND σ' := by
  apply nd_genA h hppc ht hAck hDup (fun s _ hs => Or.inl (hA s hs)) (fun s _ hs => Or.inl (hF s hs))
  · intro p hp
    rcases hP p hp with h1 | h1
    · exact Or.inl h1
    · exact Or.inr (Or.inl h1)
  · intro s _ hps p hp q _ h1 _
    rcases hP p hp with ⟨p0, hp0, _, e⟩ | h2
    · exact absurd ⟨p0, hp0, by unfold isStop; rw [e]; exact h1⟩ hps
    · exact absurd h1.1 h2
  · intro ps' hps'
    rcases hQ with e | e
    · left; rw [← e]; exact hps'
    · rw [e] at hps'; simp at hps'
  · exact hcl
  · exact hex
  · exact hcv
  · exact hr1
  · exact hr2
  · exact hdr
  · exact hrp

theorem nd_sub_plain {σ σ' : State} (h : ND σ) (hne : noExcuse σ.vol.pc) (hq : quiet σ'.vol.pc)
    (hppc : σ'.vol.ppc = σ.vol.ppc)
    (ht : σ'.tainted = σ.tainted)
    (hAck : σ'.ackedStops = σ.ackedStops)
    (hDup : ∀ s, s ∉ σ.tainted → s ∈ σ'.dup → s ∈ σ.dup)
    (hA : ∀ s, AS σ' s → AS σ s) (hF : ∀ s, FS σ' s → FS σ s)
    (hP : ∀ p ∈ σ'.vol.pending, (∃ q ∈ σ.vol.pending, q.id = p.id ∧ q.req = p.req) ∨ p.req.kind ≠ .stop)
    (hQ : σ'.dur.pfile = σ.dur.pfile ∨ σ'.dur.pfile = none) : ND σ' := by
  apply nd_sub h hppc ht hAck hDup hA hF hP hQ
  · intro s _ _ hc; exact absurd hc (hne.1 s)
  · intro s hc; exact absurd hc (hne.2.1 s)
  · intro s hc; exact absurd hc (hne.2.2 s)
  · intro hr; exact absurd hr hq.1
  · intro recd cur hr; rw [hq.2.1] at hr; simp at hr
  · intro l hl; rw [hq.2.2] at hl; simp at hl
  · intro hr; exact absurd hr hq.1

/-- accepting a record that is not a Stop leaves the duplicate ghost alone -/
theorem dup_accept_nonstop {σ : State} {r : Rec} (b : Bool) (hk : r.kind ≠ .stop) :
    (accept σ r b).dup = σ.dup ∧ (accept σ r b).ackedStops = σ.ackedStops := by
  have : (r.kind == Kind.stop) = false := by simpa using hk
  simp [accept, this]

/-- accepting a Stop whose session has no acknowledged Stop leaves the duplicate ghost alone -/
theorem dup_accept_stop {σ : State} {r : Rec} (b : Bool) (hn : r.sid ∉ σ.ackedStops) :
    (accept σ r b).dup = σ.dup := by
  simp only [accept]
  split
  · rename_i hc
    simp only [Bool.and_eq_true, List.contains_eq_mem, decide_eq_true_eq] at hc
    exact absurd hc.2 hn
  · rfl


theorem loadPending_acks (σ : State) (recd : List Nat) (l : List PRec) :
    (loadPending σ recd l).ackedStops = σ.ackedStops ∧ (loadPending σ recd l).dup = σ.dup ∧
    (loadPending σ recd l).logAck = σ.logAck := by
  induction l generalizing σ with
  | nil => exact ⟨rfl, rfl, rfl⟩
  | cons q qs ih =>
    simp only [loadPending]
    split
    · exact ih σ
    · exact ih _

/-! ## the API micro-steps -/

/-- sending (or queueing) a record that is not a Stop -/
theorem nd_send_nonstop {σ : State} (h : ND σ) (hne : noExcuse σ.vol.pc) (r : Rec) (a : Ans)
    (hk : r.kind ≠ .stop) (pc' : Option Frame) (hq : quiet pc') : ND (setPc (send σ r a false) pc') := by
  have hn := fun b => dup_accept_nonstop (σ := σ) b hk
  cases a with
  | up =>
    apply nd_sub_plain (σ' := setPc (send σ r .up false) pc') h hne hq rfl rfl (hn true).2
    · intro s _ hd; rw [show (setPc (send σ r .up false) pc').dup = (accept σ r true).dup from rfl, (hn true).1] at hd
      exact hd
    · exact fun s hs => hs
    · exact fun s hs => hs
    · intro p hp; exact Or.inl ⟨p, hp, rfl, rfl⟩
    · exact Or.inl rfl
  | down =>
    apply nd_sub_plain (σ' := setPc (send σ r .down false) pc') h hne hq rfl rfl rfl (fun s _ hd => hd)
      (fun s hs => hs) (fun s hs => hs)
    · intro p hp
      simp only [setPc, send, enqueue, List.mem_cons] at hp
      rcases hp with e | e
      · subst e; exact Or.inr hk
      · exact Or.inl ⟨p, e, rfl, rfl⟩
    · exact Or.inl rfl
  | lost =>
    apply nd_sub_plain (σ' := setPc (send σ r .lost false) pc') h hne hq rfl rfl (hn false).2
    · intro s _ hd
      rw [show (setPc (send σ r .lost false) pc').dup = (accept σ r false).dup from rfl, (hn false).1] at hd
      exact hd
    · exact fun s hs => hs
    · exact fun s hs => hs
    · intro p hp
      simp only [setPc, send, enqueue, List.mem_cons] at hp
      rcases hp with e | e
      · subst e; exact Or.inr hk
      · exact Or.inl ⟨p, e, rfl, rfl⟩
    · exact Or.inl rfl

theorem nd_idle {σ : State} (h : ND σ) (hne : noExcuse σ.vol.pc) (pc' : Option Frame) (hq : quiet pc') :
    ND (setPc σ pc') :=
  nd_sub_plain (σ' := setPc σ pc') h hne hq rfl rfl rfl (fun _ _ hd => hd) (fun s hs => hs) (fun s hs => hs)
    (fun p hp => Or.inl ⟨p, hp, rfl, rfl⟩) (Or.inl rfl)

theorem nd_tickStartSend {σ : State} (h : ND σ) {k : Nat} (heq : σ.vol.pc = some (.startSend k)) (a : Ans) :
    ND (tickStartSend σ k a) := by
  have hne : noExcuse σ.vol.pc := by rw [heq]; exact noExcuse_startSend k
  unfold tickStartSend
  split
  · exact nd_idle h hne none quiet_none
  · exact nd_send_nonstop h hne _ a (by simp) _ (quiet_startPersist k)

/-- persisting a session that is in memory, from a frame that has no excuse for it -/
theorem nd_persist {σ : State} (h : ND σ) (hne : noExcuse σ.vol.pc) (k : Nat) (pc' : Option Frame)
    (hq : quiet pc') (st : List Nat) :
    ND (setPc { (persistSession σ k) with started := st } pc') := by
  have pl : (persistSession σ k).vol = σ.vol ∧ (persistSession σ k).ackedStops = σ.ackedStops ∧
      (persistSession σ k).tainted = σ.tainted ∧ (persistSession σ k).dur.pfile = σ.dur.pfile ∧
      (persistSession σ k).dup = σ.dup := by
    unfold persistSession; split <;> exact ⟨rfl, rfl, rfl, rfl, rfl⟩
  have hvol : (setPc { (persistSession σ k) with started := st } pc').vol.sessions = σ.vol.sessions ∧
      (setPc { (persistSession σ k) with started := st } pc').vol.pending = σ.vol.pending ∧
      (setPc { (persistSession σ k) with started := st } pc').vol.ppc = σ.vol.ppc := by
    refine ⟨?_, ?_, ?_⟩
    · show (persistSession σ k).vol.sessions = _; rw [pl.1]
    · show (persistSession σ k).vol.pending = _; rw [pl.1]
    · show (persistSession σ k).vol.ppc = _; rw [pl.1]
  apply nd_plain (σ' := setPc { (persistSession σ k) with started := st } pc') h hne hq hvol.2.2
  · exact pl.2.2.1
  · exact pl.2.1
  · intro s _ hd
    rw [show (setPc { (persistSession σ k) with started := st } pc').dup = (persistSession σ k).dup from rfl,
      pl.2.2.2.2] at hd
    exact hd
  · intro s _ hs
    left
    unfold AS at hs ⊢; rw [hvol.1] at hs; exact hs
  · intro s ht hs
    have hfiles : (setPc { (persistSession σ k) with started := st } pc').dur.files =
        (persistSession σ k).dur.files := rfl
    unfold FS at hs; rw [hfiles] at hs
    unfold persistSession at hs
    split at hs
    · exact Or.inl hs
    · rename_i x hx
      simp only [lookup_insert] at hs
      split at hs
      · rename_i e
        subst e
        right
        intro hl
        have := (h.per s ht).f hl (by unfold AS; rw [hx]; rfl)
        exact hne.2.1 s this
      · exact Or.inl hs
  · intro p hp
    rw [hvol.2.1] at hp
    exact Or.inl ⟨p, hp, rfl, rfl⟩
  · intro s _ hps p hp q hq h1 _
    rw [hvol.2.1] at hp
    exact absurd ⟨p, hp, h1⟩ hps
  · exact pl.2.2.2.1

theorem nd_tickStartPersist {σ : State} (h : ND σ) {k : Nat} (heq : σ.vol.pc = some (.startPersist k)) :
    ND (tickStartPersist σ k) := by
  have hne : noExcuse σ.vol.pc := by rw [heq]; exact noExcuse_startPersist k
  unfold tickStartPersist
  split
  · exact nd_idle h hne none quiet_none
  · exact nd_persist h hne k none quiet_none _

theorem nd_tickStopPersist {σ : State} (h : ND σ) {k : Nat} (heq : σ.vol.pc = some (.stopPersist k)) :
    ND (tickStopPersist σ k) := by
  have hne : noExcuse σ.vol.pc := by rw [heq]; exact noExcuse_stopPersist k
  exact nd_persist h hne k (some (.stopSend k)) (quiet_stopSend k) (persistSession σ k).started

/-- queueing a Stop the client saw fail (`τ` = the state in which it is queued: σ, or σ after the server
    accepted the request without the client learning it) -/
theorem nd_enqueue_stop {σ τ : State} (h : ND σ) (r : Rec) (v : Bool) (hk : r.kind = .stop) (pc' : Option Frame)
    (hτ : τ.tainted = σ.tainted ∧ τ.ackedStops = σ.ackedStops ∧ τ.vol = σ.vol ∧ τ.dur = σ.dur)
    (hτd : ∀ s, s ∉ σ.tainted → s ∈ τ.dup → s ∈ σ.dup)
    (hn1 : r.sid ∉ σ.tainted → ¬ PS σ r.sid) (hn2 : r.sid ∉ σ.tainted → ¬ ackd σ r.sid)
    (hn3 : r.sid ∉ σ.tainted → AS σ r.sid → exA pc' r.sid)
    (hn4 : r.sid ∉ σ.tainted → QS σ r.sid → covers pc' r.sid)
    (hcl : ∀ s, s ∉ σ.tainted → ackd σ s → cleans σ.vol.pc s → cleans pc' s ∨ ¬ FS σ s)
    (hex : ∀ s, exA σ.vol.pc s → exA pc' s ∨ ¬ AS σ s)
    (hcv : ∀ s, covers σ.vol.pc s → covers pc' s ∨ ¬ QS σ s)
    (hr1 : isRec pc' → σ.vol.sessions = [])
    (hr2 : ∀ recd cur, recInfo pc' = some (recd, cur) →
      (∀ x ∈ recd, ¬ FS σ x) ∧ (cur = some r.sid ∨ r.sid ∈ recd) ∧
      (∀ p ∈ σ.vol.pending, ∀ s, isStop p s → s ∈ recd ∨ cur = some s))
    (hdr : ∀ l, pendingDrain pc' = some l → l.Nodup)
    (hrp : isRec pc' → isRec σ.vol.pc) :
    ND (setPc (enqueue τ r v) pc') := by
  obtain ⟨f1, f2, f3, f4⟩ := hτ
  have eA : ∀ s, AS (setPc (enqueue τ r v) pc') s ↔ AS σ s := by
    intro s; unfold AS; show (lookup τ.vol.sessions s).isSome = true ↔ _; rw [f3]
  have eF : ∀ s, FS (setPc (enqueue τ r v) pc') s ↔ FS σ s := by
    intro s; unfold FS; show (lookup τ.dur.files s).isSome = true ↔ _; rw [f4]
  have eQ : ∀ s, QS (setPc (enqueue τ r v) pc') s ↔ QS σ s := by
    intro s; unfold QS; show (∃ ps, τ.dur.pfile = some ps ∧ _) ↔ _; rw [f4]
  have ePend : (setPc (enqueue τ r v) pc').vol.pending =
      { id := τ.clock + 1, req := r, retries := 0, viaRecovery := v } :: σ.vol.pending := by
    show _ :: τ.vol.pending = _; rw [f3]
  apply nd_genA (σ' := setPc (enqueue τ r v) pc') h
  · show τ.vol.ppc = _; rw [f3]
  · show τ.tainted = _; exact f1
  · show τ.ackedStops = _; exact f2
  · exact hτd
  · intro s _ hs; exact Or.inl ((eA s).mp hs)
  · intro s _ hs; exact Or.inl ((eF s).mp hs)
  · intro p hp
    rw [ePend] at hp
    rcases List.mem_cons.mp hp with e | e
    · subst e
      right; right
      intro ht
      exact ⟨hn1 ht, hn2 ht, fun ha => hn3 ht ((eA _).mp ha), fun hq => hn4 ht ((eQ _).mp hq)⟩
    · exact Or.inl ⟨p, e, rfl, rfl⟩
  · intro s _ hps p hp q hq h1 h2
    rw [ePend] at hp hq
    rcases List.mem_cons.mp hp with e | e
    · rcases List.mem_cons.mp hq with e' | e'
      · rw [e, e']
      · exact absurd ⟨q, e', h2⟩ hps
    · exact absurd ⟨p, e, h1⟩ hps
  · intro ps' hps'; left
    have : (setPc (enqueue τ r v) pc').dur.pfile = σ.dur.pfile := by
      show τ.dur.pfile = _; rw [f4]
    rw [← this]; exact hps'
  · intro s ht hl hc
    rcases hcl s ht hl hc with h1 | h1
    · exact Or.inl h1
    · exact Or.inr (fun hh => h1 ((eF s).mp hh))
  · intro s hc
    rcases hex s hc with h1 | h1
    · exact Or.inl h1
    · exact Or.inr (fun hh => h1 ((eA s).mp hh))
  · intro s hc
    rcases hcv s hc with h1 | h1
    · exact Or.inl h1
    · exact Or.inr (fun hh => h1 ((eQ s).mp hh))
  · intro hr
    show τ.vol.sessions = []; rw [f3]; exact hr1 hr
  · intro recd cur hr
    obtain ⟨a1, a2, a3⟩ := hr2 recd cur hr
    refine ⟨fun x hx hh => a1 x hx ((eF x).mp hh), ?_⟩
    intro p hp s hst
    rw [ePend] at hp
    rcases List.mem_cons.mp hp with e | e
    · subst e
      have : s = r.sid := hst.2.symm
      subst this
      rcases a2 with h1 | h1
      · exact Or.inr h1
      · exact Or.inl h1
    · exact a3 p e s hst
  · exact hdr
  · exact hrp

/-- the server accepted a Stop but the client did not learn it: as a state in which to queue the record -/
theorem lost_state {σ : State} (r : Rec) (hn : r.sid ∉ σ.tainted → ¬ ackd σ r.sid) :
    ((accept σ r false).tainted = σ.tainted ∧ (accept σ r false).ackedStops = σ.ackedStops ∧
      (accept σ r false).vol = σ.vol ∧ (accept σ r false).dur = σ.dur) ∧
    (∀ s, s ∉ σ.tainted → s ∈ (accept σ r false).dup → s ∈ σ.dup) := by
  refine ⟨⟨rfl, by simp [accept], rfl, rfl⟩, ?_⟩
  intro s hs hd
  simp only [accept] at hd
  split at hd
  · rename_i hc
    simp only [Bool.and_eq_true, List.contains_eq_mem, decide_eq_true_eq] at hc
    rcases List.mem_cons.mp hd with e | e
    · subst e; exact absurd hc.2 (hn hs)
    · exact e
  · exact hd


theorem dup_accept_mem {σ : State} {r : Rec} {b : Bool} {s : Nat} (h : s ∈ (accept σ r b).dup) :
    s ∈ σ.dup ∨ (s = r.sid ∧ r.sid ∈ σ.ackedStops) := by
  simp only [accept] at h
  split at h
  · rename_i hc
    simp only [Bool.and_eq_true, List.contains_eq_mem, decide_eq_true_eq] at hc
    rcases List.mem_cons.mp h with e | e
    · exact Or.inr ⟨e, hc.2⟩
    · exact Or.inl e
  · exact Or.inl h

/-- the duplicate ghost after accepting a Stop of a session that has no acknowledged Stop (if untainted) -/
theorem dup_after_accept {σ : State} {r : Rec} {b : Bool} (hn : r.sid ∉ σ.tainted → ¬ ackd σ r.sid)
    (s : Nat) (hs : s ∉ σ.tainted) (h : s ∈ (accept σ r b).dup) : s ∈ σ.dup := by
  rcases dup_accept_mem h with h1 | ⟨h1, h2⟩
  · exact h1
  · subst h1; exact absurd h2 (hn hs)

theorem acked_accept_stop {σ : State} {r : Rec} (hk : r.kind = .stop) :
    (accept σ r true).ackedStops = r.sid :: σ.ackedStops := by
  simp [accept, hk]

theorem nd_tickStopSend {σ : State} (h : ND σ) {k : Nat} (heq : σ.vol.pc = some (.stopSend k)) (a : Ans) :
    ND (tickStopSend σ k a) := by
  have hne : noExcuse σ.vol.pc := by rw [heq]; exact noExcuse_stopSend k
  unfold tickStopSend
  split
  · exact nd_idle h hne none quiet_none
  · rename_i x hx
    have hAS : AS σ k := by unfold AS; rw [hx]; rfl
    have noStop : k ∉ σ.tainted → ¬ ackd σ k :=
      fun ht hl => hne.2.1 k ((h.per k ht).f hl hAS)
    have noPS : k ∉ σ.tainted → ¬ PS σ k :=
      fun ht hp => hne.2.1 k ((h.per k ht).h hp hAS)
    have noQS : k ∉ σ.tainted → ¬ QS σ k := fun ht => (h.per k ht).j hAS
    cases a with
    | up =>
      apply nd_ackA (σ' := setPc (send σ (stopRec k x x.stopCause (counters σ k)) .up false)
        (some (.stopDelete k true))) h k rfl rfl
        (acked_accept_stop (σ := σ) (r := stopRec k x x.stopCause (counters σ k)) rfl)
        (dup_after_accept (r := stopRec k x x.stopCause (counters σ k)) (b := true) noStop)
        (fun s hs => hs) (fun s hs => hs) (fun p hp => ⟨p, hp, rfl, rfl⟩) rfl
      · exact noPS
      · intro _ _; rfl
      · intro _ _; exact Or.inl ⟨true, rfl⟩
      · intro ht hq; exact absurd hq (noQS ht)
      · intro s _ _ hc; exact absurd hc (hne.1 s)
      · intro s hc; exact absurd hc (hne.2.1 s)
      · intro s hc; exact absurd hc (hne.2.2 s)
      · intro hr; exact absurd hr (quiet_stopDelete k true).1
      · intro recd cur hr; simp [setPc, recInfo] at hr
      · intro l hl; simp [setPc, pendingDrain] at hl
      · intro hr; exact absurd hr (quiet_stopDelete k true).1
    | down =>
      exact nd_enqueue_stop (τ := σ) h (stopRec k x x.stopCause (counters σ k)) false rfl (some (.stopDelete k false))
        ⟨rfl, rfl, rfl, rfl⟩ (fun _ _ hd => hd) noPS noStop (fun _ _ => Or.inl ⟨false, rfl⟩)
        (fun ht hq => absurd hq (noQS ht))
        (fun s _ _ hc => absurd hc (hne.1 s)) (fun s hc => absurd hc (hne.2.1 s))
        (fun s hc => absurd hc (hne.2.2 s))
        (fun hr => absurd hr (quiet_stopDelete k false).1)
        (fun recd cur hr => by simp [recInfo] at hr)
        (fun l hl => by simp [pendingDrain] at hl)
        (fun hr => absurd hr (quiet_stopDelete k false).1)
    | lost =>
      obtain ⟨l1, l2⟩ := lost_state (σ := σ) (stopRec k x x.stopCause (counters σ k)) noStop
      exact nd_enqueue_stop (τ := accept σ (stopRec k x x.stopCause (counters σ k)) false) h
        (stopRec k x x.stopCause (counters σ k)) false rfl (some (.stopDelete k false))
        l1 l2 noPS noStop (fun _ _ => Or.inl ⟨false, rfl⟩)
        (fun ht hq => absurd hq (noQS ht))
        (fun s _ _ hc => absurd hc (hne.1 s)) (fun s hc => absurd hc (hne.2.1 s))
        (fun s hc => absurd hc (hne.2.2 s))
        (fun hr => absurd hr (quiet_stopDelete k false).1)
        (fun recd cur hr => by simp [recInfo] at hr)
        (fun l hl => by simp [pendingDrain] at hl)
        (fun hr => absurd hr (quiet_stopDelete k false).1)

theorem nd_tickStopDelete {σ : State} (h : ND σ) {k : Nat} {b : Bool}
    (heq : σ.vol.pc = some (.stopDelete k b)) : ND (tickStopDelete σ k b) := by
  unfold tickStopDelete
  have hA : ∀ s, AS (setPc { σ with vol := { σ.vol with sessions := AMap.erase σ.vol.sessions k } }
      (some (.stopRemove k b))) s → AS σ s ∧ s ≠ k := by
    intro s hs
    unfold AS at hs ⊢
    simp only [setPc, lookup_erase] at hs
    split at hs
    · simp at hs
    · rename_i e; exact ⟨hs, e⟩
  apply nd_sub (σ' := setPc { σ with vol := { σ.vol with sessions := AMap.erase σ.vol.sessions k } }
    (some (.stopRemove k b))) h rfl rfl rfl (fun _ _ hd => hd) (fun s hs => (hA s hs).1)
    (fun s hs => hs) (fun p hp => Or.inl ⟨p, hp, rfl, rfl⟩) (Or.inl rfl)
  · intro s _ _ hc
    rw [heq] at hc
    left
    cases b <;> simp_all [cleans, setPc]
  · intro s hc
    rw [heq] at hc
    right
    intro hs
    have := hA s hs
    rcases hc with ⟨b', e⟩ | ⟨l, hl, _⟩
    · simp only [Option.some.injEq, Frame.stopDelete.injEq] at e
      exact this.2 e.1.symm
    · simp [pendingDrain] at hl
  · intro s hc; rw [heq] at hc; simp [covers] at hc
  · intro hr; exact absurd hr (quiet_stopRemove k b).1
  · intro recd cur hr; simp [setPc, recInfo] at hr
  · intro l hl; simp [setPc, pendingDrain] at hl
  · intro hr; exact absurd hr (quiet_stopRemove k b).1

theorem nd_tickStopRemove {σ : State} (h : ND σ) {k : Nat} {b : Bool}
    (heq : σ.vol.pc = some (.stopRemove k b)) : ND (tickStopRemove σ k b) := by
  unfold tickStopRemove
  have hF : ∀ s, FS (setPc (if b = true then removeFile σ k else σ) none) s → FS σ s ∧ (b = true → s ≠ k) := by
    intro s hs
    unfold FS at hs ⊢
    cases b with
    | false => exact ⟨hs, fun e => by cases e⟩
    | true =>
      simp only [setPc, removeFile, if_true, lookup_erase] at hs
      split at hs
      · simp at hs
      · rename_i e; exact ⟨hs, fun _ => e⟩
  apply nd_sub (σ' := setPc (if b = true then removeFile σ k else σ) none) h
  · cases b <;> rfl
  · cases b <;> rfl
  · cases b <;> rfl
  · intro s _ hd; cases b <;> exact hd
  · intro s hs; cases b <;> exact hs
  · exact fun s hs => (hF s hs).1
  · intro p hp; cases b <;> exact Or.inl ⟨p, hp, rfl, rfl⟩
  · left; cases b <;> rfl
  · intro s _ _ hc
    rw [heq] at hc
    right
    intro hs
    cases b with
    | false => simp [cleans] at hc
    | true =>
      simp only [cleans] at hc
      exact (hF s hs).2 rfl hc.symm
  · intro s hc
    rw [heq] at hc
    rcases hc with ⟨b', e⟩ | ⟨l, hl, _⟩
    · simp at e
    · simp [pendingDrain] at hl
  · intro s hc; rw [heq] at hc; simp [covers] at hc
  · intro hr; exact absurd hr quiet_none.1
  · intro recd cur hr; simp [setPc, recInfo] at hr
  · intro l hl; simp [setPc, pendingDrain] at hl
  · intro hr; exact absurd hr quiet_none.1

/-- a step of a background goroutine that leaves both program counters, the files and pending.json alone, adds at
    most records that are not Stops and acknowledges no Stop -/
theorem nd_keep {σ σ' : State} (h : ND σ) (hpc : σ'.vol.pc = σ.vol.pc) (hppc : σ'.vol.ppc = σ.vol.ppc)
    (ht : σ'.tainted = σ.tainted) (hAck : σ'.ackedStops = σ.ackedStops) (hDup : σ'.dup = σ.dup)
    (hA : ∀ s, AS σ' s → AS σ s) (hS : σ.vol.sessions = [] → σ'.vol.sessions = [])
    (hF : σ'.dur.files = σ.dur.files)
    (hP : ∀ p ∈ σ'.vol.pending, p ∈ σ.vol.pending ∨ p.req.kind ≠ .stop)
    (hQ : σ'.dur.pfile = σ.dur.pfile) : ND σ' := by
  apply nd_sub h hppc ht hAck
  · intro s _ hd; rw [hDup] at hd; exact hd
  · exact hA
  · intro s hs; unfold FS at hs ⊢; rw [← hF]; exact hs
  · intro p hp
    rcases hP p hp with h1 | h1
    · exact Or.inl ⟨p, h1, rfl, rfl⟩
    · exact Or.inr h1
  · exact Or.inl hQ
  · intro s _ _ hc; left; rw [hpc]; exact hc
  · intro s hc; left; rw [hpc]; exact hc
  · intro s hc; left; rw [hpc]; exact hc
  · intro hr; rw [hpc] at hr; exact hS (h.r1 hr)
  · intro recd cur hr
    rw [hpc] at hr
    obtain ⟨h1, h2⟩ := h.r2 recd cur hr
    refine ⟨?_, ?_⟩
    · intro x hx hf; apply h1 x hx; unfold FS at hf ⊢; rw [← hF]; exact hf
    · intro p hp s hst
      rcases hP p hp with h3 | h3
      · exact h2 p h3 s hst
      · exact absurd hst.1 h3
  · intro l hl; rw [hpc] at hl; exact h.dr l hl
  · intro hr; rw [hpc] at hr; exact hr

/-- the interim goroutine's step: it sends (and may queue) a record that is not a Stop -/
theorem nd_itick {σ : State} (h : ND σ) (a : Ans) : ND (itick σ a) := by
  unfold itick
  split
  · rename_i k ident i o _
    have hn := fun b => dup_accept_nonstop (σ := σ)
      (r := { kind := .interim, sid := k, ident := ident, cause := 0, inOct := i, outOct := o }) b (by simp)
    unfold tickIntSend
    dsimp only
    split
    · split
      · apply nd_keep h
        · rfl
        · rfl
        · rfl
        · exact (hn true).2
        · exact (hn true).1
        · exact fun s hs => hs
        · exact fun e => e
        · rfl
        · exact fun p hp => Or.inl hp
        · rfl
      · rename_i x hx
        apply nd_keep h
        · rfl
        · rfl
        · rfl
        · exact (hn true).2
        · exact (hn true).1
        · intro s hs
          unfold AS at hs ⊢
          simp only [setIpc, accept, lookup_insert] at hs
          split at hs
          · rename_i e
            have hx' : lookup σ.vol.sessions k = some x := hx
            subst e
            rw [hx']; rfl
          · exact hs
        · intro e
          have hx' : lookup σ.vol.sessions k = some x := hx
          rw [e] at hx'; simp [lookup] at hx'
        · rfl
        · exact fun p hp => Or.inl hp
        · rfl
    · apply nd_keep h
      · rfl
      · rfl
      · rfl
      · rfl
      · rfl
      · exact fun s hs => hs
      · exact fun e => e
      · rfl
      · intro p hp
        simp only [setIpc, enqueue, List.mem_cons] at hp
        rcases hp with e | e
        · right; subst e; simp
        · exact Or.inl e
      · rfl
    · apply nd_keep h
      · rfl
      · rfl
      · rfl
      · exact (hn false).2
      · exact (hn false).1
      · exact fun s hs => hs
      · exact fun e => e
      · rfl
      · intro p hp
        simp only [setIpc, enqueue, List.mem_cons] at hp
        rcases hp with e | e
        · right; subst e; simp
        · exact Or.inl e
      · rfl
  · exact h


/-! ### the shutdown drain -/

theorem pendingDrain_nextDrain (rest : List Nat) : pendingDrain (some (nextDrain rest)) = some rest := by
  cases rest <;> rfl
theorem recInfo_nextDrain (rest : List Nat) : recInfo (some (nextDrain rest)) = none := by
  cases rest <;> rfl
theorem isRec_nextDrain (rest : List Nat) : ¬ isRec (some (nextDrain rest)) := by
  cases rest <;> simp [nextDrain, isRec]

theorem exA_drain_transfer {pc pc' : Option Frame} {l l' : List Nat} (h1 : pendingDrain pc = some l)
    (h2 : pendingDrain pc' = some l') (hsub : ∀ x ∈ l', x ∈ l) (hns : ∀ s b, pc ≠ some (.stopDelete s b))
    (s : Nat) (hc : exA pc s) : exA pc' s := by
  rcases hc with ⟨b, e⟩ | ⟨l0, hl0, hn⟩
  · exact absurd e (hns s b)
  · rw [h1] at hl0
    simp only [Option.some.injEq] at hl0
    subst hl0
    exact Or.inr ⟨l', h2, fun hx => hn (hsub s hx)⟩

theorem nd_tickDrainSend {σ : State} (h : ND σ) {k : Nat} {rest : List Nat}
    (heq : σ.vol.pc = some (.drainSend k rest)) (a : Ans) : ND (tickDrainSend σ k rest a) := by
  have hpd : pendingDrain σ.vol.pc = some (k :: rest) := by rw [heq]; rfl
  have hnd : (k :: rest).Nodup := h.dr _ hpd
  have hkr : k ∉ rest := (List.nodup_cons.mp hnd).1
  have hrn : rest.Nodup := (List.nodup_cons.mp hnd).2
  have hns : ∀ s b, σ.vol.pc ≠ some (.stopDelete s b) := by intro s b; rw [heq]; simp
  have noCl : ∀ s, ¬ cleans σ.vol.pc s := by intro s; rw [heq]; simp [cleans]
  have noCv : ∀ s, ¬ covers σ.vol.pc s := by intro s; rw [heq]; simp [covers]
  have noEx : ¬ exA σ.vol.pc k := by
    intro hc
    rcases hc with ⟨b, e⟩ | ⟨l, hl, hn⟩
    · exact hns k b e
    · rw [hpd] at hl; simp only [Option.some.injEq] at hl; subst hl; exact hn List.mem_cons_self
  have hexT : ∀ s, exA σ.vol.pc s → exA (some (nextDrain rest)) s ∨ ¬ AS σ s := fun s hc =>
    Or.inl (exA_drain_transfer hpd (pendingDrain_nextDrain rest) (fun x hx => List.mem_cons_of_mem _ hx) hns s hc)
  have hdrT : ∀ l, pendingDrain (some (nextDrain rest)) = some l → l.Nodup := by
    intro l hl
    rw [pendingDrain_nextDrain] at hl
    simp only [Option.some.injEq] at hl; subst hl; exact hrn
  unfold tickDrainSend
  split
  · apply nd_sub (σ' := setPc σ (some (nextDrain rest))) h rfl rfl rfl (fun _ _ hd => hd)
      (fun s hs => hs) (fun s hs => hs) (fun p hp => Or.inl ⟨p, hp, rfl, rfl⟩) (Or.inl rfl)
    · intro s _ _ hc; exact absurd hc (noCl s)
    · exact hexT
    · intro s hc; exact absurd hc (noCv s)
    · intro hr; exact absurd hr (isRec_nextDrain rest)
    · intro recd cur hr; simp only [setPc] at hr; rw [recInfo_nextDrain] at hr; simp at hr
    · exact hdrT
    · intro hr; exact absurd hr (isRec_nextDrain rest)
  · rename_i x hx
    have hAS : AS σ k := by unfold AS; rw [hx]; rfl
    have noStop : k ∉ σ.tainted → ¬ ackd σ k := fun ht hl => noEx ((h.per k ht).f hl hAS)
    have noPS : k ∉ σ.tainted → ¬ PS σ k := fun ht hp => noEx ((h.per k ht).h hp hAS)
    have noQS : k ∉ σ.tainted → ¬ QS σ k := fun ht => (h.per k ht).j hAS
    dsimp only
    split
    · apply nd_ackA (σ' := setPc (accept (noteOrd σ k) (stopRec k x 11 (counters (noteOrd σ k) k)) true)
        (some (.drainRemove k rest))) h k rfl rfl
        (acked_accept_stop (σ := noteOrd σ k) (r := stopRec k x 11 (counters (noteOrd σ k) k)) rfl)
        (dup_after_accept (σ := noteOrd σ k) (r := stopRec k x 11 (counters (noteOrd σ k) k)) (b := true) noStop)
        (fun s hs => hs) (fun s hs => hs) (fun p hp => ⟨p, hp, rfl, rfl⟩) rfl
      · exact noPS
      · intro _ _; rfl
      · intro _ _; exact Or.inr ⟨rest, rfl, hkr⟩
      · intro ht hq; exact absurd hq (noQS ht)
      · intro s _ _ hc; exact absurd hc (noCl s)
      · intro s hc
        exact Or.inl (exA_drain_transfer hpd (pc' := some (.drainRemove k rest)) rfl
          (fun x hx => List.mem_cons_of_mem _ hx) hns s hc)
      · intro s hc; exact absurd hc (noCv s)
      · intro hr; simp [setPc, isRec] at hr
      · intro recd cur hr; simp [setPc, recInfo] at hr
      · intro l hl
        simp only [setPc, pendingDrain, Option.some.injEq] at hl
        subst hl; exact hrn
      · intro hr; simp [setPc, isRec] at hr
    · exact nd_enqueue_stop (τ := noteOrd σ k) h (stopRec k x 11 (counters (noteOrd σ k) k)) false rfl
        (some (nextDrain rest)) ⟨rfl, rfl, rfl, rfl⟩ (fun _ _ hd => hd) noPS noStop
        (fun _ _ => Or.inr ⟨rest, pendingDrain_nextDrain rest, hkr⟩)
        (fun ht hq => absurd hq (noQS ht))
        (fun s _ _ hc => absurd hc (noCl s)) hexT (fun s hc => absurd hc (noCv s))
        (fun hr => absurd hr (isRec_nextDrain rest))
        (fun recd cur hr => by rw [recInfo_nextDrain] at hr; simp at hr)
        hdrT (fun hr => absurd hr (isRec_nextDrain rest))
    · obtain ⟨l1, l2⟩ := lost_state (σ := noteOrd σ k) (stopRec k x 11 (counters (noteOrd σ k) k)) noStop
      exact nd_enqueue_stop (τ := accept (noteOrd σ k) (stopRec k x 11 (counters (noteOrd σ k) k)) false) h
        (stopRec k x 11 (counters (noteOrd σ k) k)) false rfl
        (some (nextDrain rest)) l1 l2 noPS noStop
        (fun _ _ => Or.inr ⟨rest, pendingDrain_nextDrain rest, hkr⟩)
        (fun ht hq => absurd hq (noQS ht))
        (fun s _ _ hc => absurd hc (noCl s)) hexT (fun s hc => absurd hc (noCv s))
        (fun hr => absurd hr (isRec_nextDrain rest))
        (fun recd cur hr => by rw [recInfo_nextDrain] at hr; simp at hr)
        hdrT (fun hr => absurd hr (isRec_nextDrain rest))

theorem nd_tickDrainRemove {σ : State} (h : ND σ) {k : Nat} {rest : List Nat}
    (heq : σ.vol.pc = some (.drainRemove k rest)) : ND (tickDrainRemove σ k rest) := by
  have hpd : pendingDrain σ.vol.pc = some rest := by rw [heq]; rfl
  have hrn : rest.Nodup := h.dr _ hpd
  have hns : ∀ s b, σ.vol.pc ≠ some (.stopDelete s b) := by intro s b; rw [heq]; simp
  unfold tickDrainRemove
  apply nd_sub (σ' := setPc (removeFile σ k) (some (nextDrain rest))) h rfl rfl rfl (fun _ _ hd => hd)
    (fun s hs => hs)
  · intro s hs
    unfold FS at hs ⊢
    simp only [setPc, removeFile, lookup_erase] at hs
    split at hs
    · simp at hs
    · exact hs
  · exact fun p hp => Or.inl ⟨p, hp, rfl, rfl⟩
  · exact Or.inl rfl
  · intro s _ _ hc
    rw [heq] at hc
    simp only [cleans] at hc
    subst hc
    right; unfold FS; simp [setPc, removeFile]
  · intro s hc
    exact Or.inl (exA_drain_transfer hpd (pendingDrain_nextDrain rest) (fun x hx => hx) hns s hc)
  · intro s hc; rw [heq] at hc; simp [covers] at hc
  · intro hr; exact absurd hr (isRec_nextDrain rest)
  · intro recd cur hr; simp only [setPc] at hr; rw [recInfo_nextDrain] at hr; simp at hr
  · intro l hl; simp only [setPc] at hl; rw [pendingDrain_nextDrain] at hl
    simp only [Option.some.injEq] at hl; subst hl; exact hrn
  · intro hr; exact absurd hr (isRec_nextDrain rest)

theorem nd_tickPersistPending {σ : State} (h : ND σ) (heq : σ.vol.pc = some .persistPending) :
    ND (tickPersistPending σ) := by
  unfold tickPersistPending
  split
  · exact h
  · rename_i hpp
    have hppc : σ.vol.ppc = none := by
      cases e : σ.vol.ppc with
      | none => rfl
      | some f => rw [e] at hpp; simp at hpp
    apply nd_gen h
    · rfl
    · rfl
    · exact fun _ _ hd => hd
    · intro s _ hs; unfold AS at hs; simp at hs
    · intro s _ hs
      left
      unfold FS at hs ⊢
      dsimp only at hs
      split at hs <;> exact hs
    · intro p hp; simp at hp
    · intro s _ _ p hp; simp at hp
    · intro ps' hps'
      dsimp only at hps'
      split at hps'
      · exact Or.inl hps'
      · right
        simp only [Option.some.injEq] at hps'
        subst hps'
        exact ⟨fun p hp => ⟨p, hp, rfl, rfl⟩, rfl, rfl⟩
    · intro s _ _ hc
      rcases hc with h1 | h1
      · rw [heq] at h1; simp [cleans] at h1
      · rw [hppc] at h1; simp [cleans] at h1
    · intro s _; right; unfold AS; simp
    · intro s hc; rw [heq] at hc; simp [covers] at hc
    · intro hr; simp [isRec] at hr
    · intro recd cur hr; simp [recInfo] at hr
    · intro l hl; simp [pendingDrain] at hl
    · intro _; rfl


/-! ### the recovery procedure -/

theorem recInfo_nextRec (recd order rest : List Nat) : recInfo (some (nextRec recd order rest)) = some (recd, none) := by
  cases rest <;> rfl
theorem covers_nextRec (recd order rest : List Nat) (s : Nat) :
    covers (some (nextRec recd order rest)) s ↔ s ∈ recd := by
  cases rest <;> rfl
theorem pendingDrain_nextRec (recd order rest : List Nat) : pendingDrain (some (nextRec recd order rest)) = none := by
  cases rest <;> rfl

theorem nd_tickRecSend {σ : State} (h : ND σ) {k : Nat} {rest recd order : List Nat}
    (heq : σ.vol.pc = some (.recSend k rest recd order)) (a : Ans) : ND (tickRecSend σ k rest recd order a) := by
  have hrec : isRec σ.vol.pc := by rw [heq]; trivial
  have hsess : σ.vol.sessions = [] := h.r1 hrec
  have noAS : ∀ s, ¬ AS σ s := by intro s; unfold AS; rw [hsess]; simp
  obtain ⟨r2a, r2b⟩ := h.r2 recd none (by rw [heq]; rfl)
  have noCl : ∀ s, ¬ cleans σ.vol.pc s := by intro s; rw [heq]; simp [cleans]
  have noEx : ∀ s, ¬ exA σ.vol.pc s := by
    intro s hc; rw [heq] at hc
    rcases hc with ⟨b, e⟩ | ⟨l, hl, _⟩
    · simp at e
    · simp [pendingDrain] at hl
  have hppc : σ.vol.ppc = none := h.rp hrec
  have noCl' : ∀ s, ¬ cl σ s := by
    intro s hc
    rcases hc with h1 | h1
    · exact noCl s h1
    · rw [hppc] at h1; simp [cleans] at h1
  have hcv : ∀ s, covers σ.vol.pc s ↔ s ∈ recd := by intro s; rw [heq]; rfl
  unfold tickRecSend
  split
  · apply nd_sub (σ' := setPc σ (some (nextRec recd order rest))) h rfl rfl rfl (fun _ _ hd => hd)
      (fun s hs => hs) (fun s hs => hs) (fun p hp => Or.inl ⟨p, hp, rfl, rfl⟩) (Or.inl rfl)
    · intro s _ _ hc; exact absurd hc (noCl s)
    · intro s hc; exact absurd hc (noEx s)
    · intro s hc; left; exact (covers_nextRec recd order rest s).mpr ((hcv s).mp hc)
    · intro _; exact hsess
    · intro recd' cur hr
      simp only [setPc] at hr
      rw [recInfo_nextRec] at hr
      simp only [Option.some.injEq, Prod.mk.injEq] at hr
      obtain ⟨e1, e2⟩ := hr
      subst e1; subst e2
      exact ⟨r2a, r2b⟩
    · intro l hl; simp only [setPc] at hl; rw [pendingDrain_nextRec] at hl; simp at hl
    · exact fun _ => hrec
  · rename_i x hx
    have hFS : FS σ k := by unfold FS; rw [hx]; rfl
    have knr : k ∉ recd := fun hm => r2a k hm hFS
    have noStop : k ∉ σ.tainted → ¬ ackd σ k := fun ht hl => noCl' k ((h.per k ht).e hl hFS)
    have noPS : ¬ PS σ k := by
      rintro ⟨p, hp, hst⟩
      rcases r2b p hp k hst with h1 | h1
      · exact knr h1
      · simp at h1
    have hr2T : ∀ recd' cur, recInfo (some (.recRemove k rest recd order)) = some (recd', cur) →
        (∀ x ∈ recd', ¬ FS σ x) ∧ (cur = some k ∨ k ∈ recd') ∧
        (∀ p ∈ σ.vol.pending, ∀ s, isStop p s → s ∈ recd' ∨ cur = some s) := by
      intro recd' cur hr
      simp only [recInfo, Option.some.injEq, Prod.mk.injEq] at hr
      obtain ⟨e1, e2⟩ := hr
      subst e1; subst e2
      refine ⟨r2a, Or.inl rfl, ?_⟩
      intro p hp s hst
      rcases r2b p hp s hst with h1 | h1
      · exact Or.inl h1
      · simp at h1
    cases a with
    | up =>
      apply nd_ackA (σ' := setPc (send σ (stopRec k x (if x.stopCause = 0 then 11 else x.stopCause)
        (x.lastIn, x.lastOut)) .up true) (some (.recRemove k rest recd order))) h k rfl rfl
        (acked_accept_stop (σ := σ)
          (r := stopRec k x (if x.stopCause = 0 then 11 else x.stopCause) (x.lastIn, x.lastOut)) rfl)
        (dup_after_accept (σ := σ)
          (r := stopRec k x (if x.stopCause = 0 then 11 else x.stopCause) (x.lastIn, x.lastOut)) (b := true) noStop)
        (fun s hs => hs) (fun s hs => hs) (fun p hp => ⟨p, hp, rfl, rfl⟩) rfl
      · exact fun _ => noPS
      · intro _ _; rfl
      · intro _ ha; exact absurd ha (noAS k)
      · intro _ _; exact Or.inl rfl
      · intro s _ _ hc; exact absurd hc (noCl s)
      · intro s hc; exact absurd hc (noEx s)
      · intro s hc; left; exact Or.inr ((hcv s).mp hc)
      · intro _; exact hsess
      · intro recd' cur hr
        obtain ⟨a1, _, a3⟩ := hr2T recd' cur hr
        exact ⟨a1, a3⟩
      · intro l hl; simp [setPc, pendingDrain] at hl
      · exact fun _ => hrec
    | down =>
      exact nd_enqueue_stop (τ := σ) h
        (stopRec k x (if x.stopCause = 0 then 11 else x.stopCause) (x.lastIn, x.lastOut))
        true rfl (some (.recRemove k rest recd order)) ⟨rfl, rfl, rfl, rfl⟩ (fun _ _ hd => hd)
        (fun _ => noPS) noStop (fun _ ha => absurd ha (noAS k)) (fun _ _ => Or.inl rfl)
        (fun s _ _ hc => absurd hc (noCl s)) (fun s hc => absurd hc (noEx s))
        (fun s hc => Or.inl (Or.inr ((hcv s).mp hc)))
        (fun _ => hsess) hr2T (fun l hl => by simp [pendingDrain] at hl) (fun _ => hrec)
    | lost =>
      obtain ⟨l1, l2⟩ := lost_state (σ := σ)
        (stopRec k x (if x.stopCause = 0 then 11 else x.stopCause) (x.lastIn, x.lastOut)) noStop
      exact nd_enqueue_stop
        (τ := accept σ (stopRec k x (if x.stopCause = 0 then 11 else x.stopCause) (x.lastIn, x.lastOut)) false) h
        (stopRec k x (if x.stopCause = 0 then 11 else x.stopCause) (x.lastIn, x.lastOut))
        true rfl (some (.recRemove k rest recd order)) l1 l2
        (fun _ => noPS) noStop (fun _ ha => absurd ha (noAS k)) (fun _ _ => Or.inl rfl)
        (fun s _ _ hc => absurd hc (noCl s)) (fun s hc => absurd hc (noEx s))
        (fun s hc => Or.inl (Or.inr ((hcv s).mp hc)))
        (fun _ => hsess) hr2T (fun l hl => by simp [pendingDrain] at hl) (fun _ => hrec)

theorem nd_tickRecRemove {σ : State} (h : ND σ) {k : Nat} {rest recd order : List Nat}
    (heq : σ.vol.pc = some (.recRemove k rest recd order)) : ND (tickRecRemove σ k rest recd order) := by
  have hrec : isRec σ.vol.pc := by rw [heq]; trivial
  have hsess : σ.vol.sessions = [] := h.r1 hrec
  obtain ⟨r2a, r2b⟩ := h.r2 recd (some k) (by rw [heq]; rfl)
  unfold tickRecRemove
  apply nd_sub (σ' := setPc (removeFile σ k) (some (nextRec (k :: recd) order rest))) h rfl rfl rfl
    (fun _ _ hd => hd) (fun s hs => hs)
  · intro s hs
    unfold FS at hs ⊢
    simp only [setPc, removeFile, lookup_erase] at hs
    split at hs
    · simp at hs
    · exact hs
  · exact fun p hp => Or.inl ⟨p, hp, rfl, rfl⟩
  · exact Or.inl rfl
  · intro s _ _ hc
    rw [heq] at hc
    simp only [cleans] at hc
    subst hc
    right; unfold FS; simp [setPc, removeFile]
  · intro s hc
    rw [heq] at hc
    rcases hc with ⟨b, e⟩ | ⟨l, hl, _⟩
    · simp at e
    · simp [pendingDrain] at hl
  · intro s hc
    rw [heq] at hc
    left
    apply (covers_nextRec (k :: recd) order rest s).mpr
    rcases hc with e | e
    · rw [e]; exact List.mem_cons_self
    · exact List.mem_cons_of_mem _ e
  · intro _; exact hsess
  · intro recd' cur hr
    simp only [setPc] at hr
    rw [recInfo_nextRec] at hr
    simp only [Option.some.injEq, Prod.mk.injEq] at hr
    obtain ⟨e1, e2⟩ := hr
    subst e1; subst e2
    constructor
    · intro x hx hf
      unfold FS at hf
      simp only [setPc, removeFile, lookup_erase] at hf
      split at hf
      · simp at hf
      · rename_i e
        rcases List.mem_cons.mp hx with e' | e'
        · exact e e'
        · exact r2a x e' hf
    · intro p hp s hst
      left
      rcases r2b p hp s hst with h1 | h1
      · exact List.mem_cons_of_mem _ h1
      · simp only [Option.some.injEq] at h1; rw [h1]; exact List.mem_cons_self
  · intro l hl; simp only [setPc] at hl; rw [pendingDrain_nextRec] at hl; simp at hl
  · exact fun _ => hrec

theorem nd_tickRecPendRemove {σ : State} (h : ND σ) (heq : σ.vol.pc = some .recPendRemove) :
    ND (tickRecPendRemove σ) := by
  unfold tickRecPendRemove
  apply nd_sub (σ' := setPc { σ with dur := { σ.dur with pfile := none } } none) h rfl rfl rfl
    (fun _ _ hd => hd) (fun s hs => hs) (fun s hs => hs)
    (fun p hp => Or.inl ⟨p, hp, rfl, rfl⟩) (Or.inr rfl)
  · intro s _ _ hc; rw [heq] at hc; simp [cleans] at hc
  · intro s hc
    rw [heq] at hc
    rcases hc with ⟨b, e⟩ | ⟨l, hl, _⟩
    · simp at e
    · simp [pendingDrain] at hl
  · intro s _; right; unfold QS; simp [setPc]
  · intro hr; simp [setPc, isRec] at hr
  · intro recd cur hr; simp [setPc, recInfo] at hr
  · intro l hl; simp [setPc, pendingDrain] at hl
  · intro hr; simp [setPc, isRec] at hr

theorem nd_tickRecLoad {σ : State} (h : ND σ) {recd order : List Nat}
    (heq : σ.vol.pc = some (.recLoad recd order)) : ND (tickRecLoad σ recd order) := by
  have hrec : isRec σ.vol.pc := by rw [heq]; trivial
  have hsess : σ.vol.sessions = [] := h.r1 hrec
  obtain ⟨r2a, r2b⟩ := h.r2 recd none (by rw [heq]; rfl)
  have noCl : ∀ s, ¬ cleans σ.vol.pc s := by intro s; rw [heq]; simp [cleans]
  have noEx : ∀ s, ¬ exA σ.vol.pc s := by
    intro s hc; rw [heq] at hc
    rcases hc with ⟨b, e⟩ | ⟨l, hl, _⟩
    · simp at e
    · simp [pendingDrain] at hl
  unfold tickRecLoad
  split
  · rename_i hpf
    apply nd_sub (σ' := setPc σ none) h rfl rfl rfl (fun _ _ hd => hd)
      (fun s hs => hs) (fun s hs => hs) (fun p hp => Or.inl ⟨p, hp, rfl, rfl⟩) (Or.inl rfl)
    · intro s _ _ hc; exact absurd hc (noCl s)
    · intro s hc; exact absurd hc (noEx s)
    · intro s _; right; unfold QS; simp [setPc, hpf]
    · intro hr; simp [setPc, isRec] at hr
    · intro recd' cur hr; simp [setPc, recInfo] at hr
    · intro l hl; simp [setPc, pendingDrain] at hl
    · intro hr; simp [setPc, isRec] at hr
  · rename_i ps hps
    have sp := loadPending_spec σ recd (recOfIds ps (normalize order (ps.map (·.id))))
    have loadedOf : ∀ p ∈ (loadPending σ recd (recOfIds ps (normalize order (ps.map (·.id))))).vol.pending,
        p ∈ σ.vol.pending ∨ ∃ q ∈ ps, p = { q with viaRecovery := true } ∧
          ¬ (q.req.kind = .stop ∧ q.req.sid ∈ recd) := by
      intro p hp
      rcases sp.pending p hp with h1 | ⟨q, hq, e, hn⟩
      · exact Or.inl h1
      · exact Or.inr ⟨q, mem_recOfIds hq, e, hn⟩
    have noPSold : ∀ s, s ∉ recd → ¬ PS σ s := by
      rintro s hs ⟨p, hp, hst⟩
      rcases r2b p hp s hst with h1 | h1
      · exact hs h1
      · simp at h1
    have eSess : (setPc (loadPending σ recd (recOfIds ps (normalize order (ps.map (·.id)))))
        (some .recPendRemove)).vol.sessions = σ.vol.sessions := sp.sessions
    have eDur : (setPc (loadPending σ recd (recOfIds ps (normalize order (ps.map (·.id)))))
        (some .recPendRemove)).dur = σ.dur := sp.dur
    apply nd_genA (σ' := setPc (loadPending σ recd (recOfIds ps (normalize order (ps.map (·.id)))))
      (some .recPendRemove)) h
    · exact sp.ppc
    · exact sp.tainted
    · exact (loadPending_acks σ recd _).1
    · intro s _ hd
      rw [show (setPc (loadPending σ recd (recOfIds ps (normalize order (ps.map (·.id)))))
        (some .recPendRemove)).dup = (loadPending σ recd (recOfIds ps (normalize order (ps.map (·.id))))).dup from rfl,
        (loadPending_acks σ recd _).2.1] at hd
      exact hd
    · intro s _ hs
      left
      unfold AS at hs ⊢
      rw [eSess] at hs; exact hs
    · intro s _ hs
      left
      unfold FS at hs ⊢
      rw [eDur] at hs; exact hs
    · intro p hp
      rcases loadedOf p hp with h1 | ⟨q, hq, e, hn⟩
      · exact Or.inl ⟨p, h1, rfl, rfl⟩
      · subst e
        by_cases hk : q.req.kind = .stop
        · right; right
          intro ht
          have hnr : q.req.sid ∉ recd := fun hm => hn ⟨hk, hm⟩
          have hQS : QS σ q.req.sid := ⟨ps, hps, q, hq, hk, rfl⟩
          refine ⟨noPSold _ hnr, ?_, ?_, ?_⟩
          · intro hl
            have := (h.per _ ht).g hl hQS
            rw [heq] at this
            exact hnr this
          · intro ha
            unfold AS at ha
            rw [eSess, hsess] at ha
            simp at ha
          · intro _; trivial
        · exact Or.inr (Or.inl hk)
    · intro s ht hps' p hp q hq h1 h2
      rcases loadedOf p hp with a1 | ⟨p0, hp0, e1, _⟩
      · exact absurd ⟨p, a1, h1⟩ hps'
      · rcases loadedOf q hq with b1 | ⟨q0, hq0, e2, _⟩
        · exact absurd ⟨q, b1, h2⟩ hps'
        · subst e1; subst e2
          exact (h.per s ht).c ps hps p0 hp0 q0 hq0 h1 h2
    · intro ps' hps'
      left
      rw [eDur] at hps'; exact hps'
    · intro s _ _ hc; exact absurd hc (noCl s)
    · intro s hc; exact absurd hc (noEx s)
    · intro s _; left; trivial
    · intro _
      show (loadPending σ recd _).vol.sessions = []
      rw [sp.sessions]; exact hsess
    · intro recd' cur hr; simp [setPc, recInfo] at hr
    · intro l hl; simp [setPc, pendingDrain] at hl
    · exact fun _ => hrec

theorem nd_tick {σ : State} (h : ND σ) (a : Ans) : ND (tick σ a) := by
  unfold tick
  split
  · exact h
  · rename_i heq; exact nd_tickStartSend h heq a
  · rename_i heq; exact nd_tickStartPersist h heq
  · rename_i heq; exact nd_tickStopPersist h heq
  · rename_i heq; exact nd_tickStopSend h heq a
  · rename_i heq; exact nd_tickStopDelete h heq
  · rename_i heq; exact nd_tickStopRemove h heq
  · exact h
  · exact h
  · exact h
  · rename_i heq; exact nd_tickDrainSend h heq a
  · rename_i heq; exact nd_tickDrainRemove h heq
  · rename_i heq; exact nd_tickPersistPending h heq
  · rename_i heq; exact nd_tickRecSend h heq a
  · rename_i heq; exact nd_tickRecRemove h heq
  · rename_i heq; exact nd_tickRecLoad h heq
  · rename_i heq; exact nd_tickRecPendRemove h heq


/-! ## the processor's micro-steps: the API program counter is untouched -/

theorem isRec_of_recInfo {pc : Option Frame} {x : List Nat × Option Nat} (h : recInfo pc = some x) : isRec pc := by
  cases pc with
  | none => simp [recInfo] at h
  | some f => cases f <;> simp [recInfo] at h <;> trivial

theorem cleans_nextProc (ps : List PRec) (rest : List Nat) (s : Nat) : ¬ cleans (nextProc ps rest) s := by
  induction rest with
  | nil => simp [nextProc, cleans]
  | cons id rest ih =>
    simp only [nextProc]
    split
    · simp [cleans]
    · exact ih

/-- a processor step in which no Stop is acknowledged -/
theorem nd_genP {σ σ' : State} (h : ND σ) (hnr : ¬ isRec σ.vol.pc)
    (hpc : σ'.vol.pc = σ.vol.pc) (hsess : σ'.vol.sessions = σ.vol.sessions)
    (ht : σ'.tainted = σ.tainted) (hAck : σ'.ackedStops = σ.ackedStops)
    (hDup : ∀ s, s ∉ σ.tainted → s ∈ σ'.dup → s ∈ σ.dup)
    (hF : ∀ s, FS σ' s → FS σ s)
    (hP : ∀ p ∈ σ'.vol.pending, ∃ q ∈ σ.vol.pending, q.id = p.id ∧ q.req = p.req)
    (hQ : σ'.dur.pfile = σ.dur.pfile)
    (hcl : ∀ s, s ∉ σ.tainted → ackd σ s → cleans σ.vol.ppc s → cleans σ'.vol.ppc s ∨ ¬ FS σ' s) : ND σ' := by
  apply nd_gen h ht hAck hDup
  · intro s _ hs; left; unfold AS at hs ⊢; rw [hsess] at hs; exact hs
  · intro s _ hs; exact Or.inl (hF s hs)
  · intro p hp; exact Or.inl (hP p hp)
  · intro s _ hps p hp q _ h1 _
    obtain ⟨p0, hp0, _, e⟩ := hP p hp
    exact absurd ⟨p0, hp0, by unfold isStop; rw [e]; exact h1⟩ hps
  · intro ps' hps'; left; rw [← hQ]; exact hps'
  · intro s hs ha hc
    rcases hc with h1 | h1
    · exact Or.inl (Or.inl (by rw [hpc]; exact h1))
    · rcases hcl s hs ha h1 with h2 | h2
      · exact Or.inl (Or.inr h2)
      · exact Or.inr h2
  · intro s hc; left; rw [hpc]; exact hc
  · intro s hc; left; rw [hpc]; exact hc
  · intro hr; rw [hpc] at hr; exact absurd hr hnr
  · intro recd cur hr; rw [hpc] at hr; exact absurd (isRec_of_recInfo hr) hnr
  · intro l hl; rw [hpc] at hl; exact h.dr l hl
  · intro hr; rw [hpc] at hr; exact absurd hr hnr

theorem nd_procFail {σ τ : State} (h : ND σ) (hnr : ¬ isRec σ.vol.pc) (p : PRec) (id : Nat) (rest : List Nat)
    (hppc : ∀ s, ¬ cleans σ.vol.ppc s)
    (hτ : τ.vol.pc = σ.vol.pc ∧ τ.vol.sessions = σ.vol.sessions ∧ τ.tainted = σ.tainted ∧
      τ.ackedStops = σ.ackedStops ∧ τ.dur = σ.dur ∧ τ.vol.pending = σ.vol.pending)
    (hτd : ∀ s, s ∉ σ.tainted → s ∈ τ.dup → s ∈ σ.dup) :
    ND (procFail τ p id rest) := by
  obtain ⟨t1, t2, t3, t4, t5, t6⟩ := hτ
  unfold procFail
  split
  · apply nd_genP h hnr
    · exact t1
    · exact t2
    · exact t3
    · exact t4
    · exact hτd
    · intro s hs; unfold FS at hs ⊢; simp only [setPpc] at hs; rw [t5] at hs; exact hs
    · intro q hq
      simp only [setPpc] at hq
      rw [t6] at hq
      exact ⟨q, mem_eraseP hq, rfl, rfl⟩
    · show τ.dur.pfile = _; rw [t5]
    · intro s _ _ hc; exact absurd hc (hppc s)
  · apply nd_genP h hnr
    · exact t1
    · exact t2
    · exact t3
    · exact t4
    · exact hτd
    · intro s hs; unfold FS at hs ⊢; simp only [setPpc] at hs; rw [t5] at hs; exact hs
    · intro q hq
      simp only [setPpc, List.mem_map] at hq
      rw [t6] at hq
      obtain ⟨q0, hq0, e⟩ := hq
      refine ⟨q0, hq0, ?_, ?_⟩ <;> (split at e <;> (subst e; rfl))
    · show τ.dur.pfile = _; rw [t5]
    · intro s _ _ hc; exact absurd hc (hppc s)

theorem nd_ptick {σ : State} (h : ND σ) (a : Ans) : ND (ptick σ a) := by
  unfold ptick
  split
  · -- procSend
    rename_i id rest hpp
    have hnr : ¬ isRec σ.vol.pc := by
      intro hr
      have := h.rp hr
      rw [hpp] at this; simp at this
    have noClP : ∀ s, ¬ cleans σ.vol.ppc s := by intro s; rw [hpp]; simp [cleans]
    unfold tickProcSend
    split
    · apply nd_genP h hnr
      · rfl
      · rfl
      · rfl
      · rfl
      · exact fun _ _ hd => hd
      · exact fun s hs => hs
      · exact fun p hp => ⟨p, hp, rfl, rfl⟩
      · rfl
      · intro s _ _ hc; exact absurd hc (noClP s)
    · rename_i p hp
      have hm := findP_mem hp
      have hid := findP_id hp
      dsimp only
      split
      · -- acknowledged
        split
        · rename_i hk
          have hk' : p.req.kind = .stop := by simpa using hk
          have hPS : PS σ p.req.sid := ⟨p, hm, hk', rfl⟩
          have noStop : p.req.sid ∉ σ.tainted → ¬ ackd σ p.req.sid := fun ht hl => (h.per _ ht).d hl hPS
          apply nd_ack h p.req.sid
          · rfl
          · exact acked_accept_stop (σ := notePOrd σ id) hk'
          · exact dup_after_accept (σ := notePOrd σ id) (r := p.req) (b := true) noStop
          · exact fun s hs => hs
          · exact fun s hs => hs
          · intro q hq; exact ⟨q, mem_eraseP hq, rfl, rfl⟩
          · rfl
          · intro ht ⟨q, hq, hst⟩
            have hq' : q ∈ eraseP σ.vol.pending id := hq
            have h1 := (h.per _ ht).b q (mem_eraseP hq') p hm hst ⟨hk', rfl⟩
            have h2 : q.id ≠ id := by
              have := (List.mem_filter.mp hq').2
              simpa using this
            exact h2 (by rw [h1, hid])
          · intro _ _; exact Or.inr rfl
          · intro ht ha; exact (h.per _ ht).h hPS ha
          · intro ht hq; exact (h.per _ ht).i hPS hq
          · intro s _ _ hc
            rcases hc with h1 | h1
            · exact Or.inl (Or.inl h1)
            · exact absurd h1 (noClP s)
          · intro s hc; exact Or.inl hc
          · intro s hc; exact Or.inl hc
          · intro hr; exact absurd hr hnr
          · intro recd cur hr; exact absurd (isRec_of_recInfo hr) hnr
          · exact h.dr
          · intro hr; exact absurd hr hnr
        · rename_i hk
          have hk' : p.req.kind ≠ .stop := by simpa using hk
          have hn := dup_accept_nonstop (σ := notePOrd σ id) true hk'
          apply nd_genP h hnr
          · rfl
          · rfl
          · rfl
          · exact hn.2
          · intro s _ hd; exact hn.1 ▸ hd
          · exact fun s hs => hs
          · intro q hq; exact ⟨q, mem_eraseP hq, rfl, rfl⟩
          · rfl
          · intro s _ _ hc; exact absurd hc (noClP s)
      · exact nd_procFail (τ := notePOrd σ id) h hnr p id rest noClP ⟨rfl, rfl, rfl, rfl, rfl, rfl⟩
          (fun _ _ hd => hd)
      · -- accepted by the server, the client saw a failure
        by_cases hk : p.req.kind = .stop
        · have hPS : PS σ p.req.sid := ⟨p, hm, hk, rfl⟩
          have noStop : p.req.sid ∉ σ.tainted → ¬ ackd σ p.req.sid := fun ht hl => (h.per _ ht).d hl hPS
          obtain ⟨l1, l2⟩ := lost_state (σ := notePOrd σ id) p.req noStop
          exact nd_procFail (τ := accept (notePOrd σ id) p.req false) h hnr p id rest noClP
            ⟨rfl, rfl, rfl, l1.2.1, rfl, rfl⟩ l2
        · have hn := dup_accept_nonstop (σ := notePOrd σ id) false hk
          exact nd_procFail (τ := accept (notePOrd σ id) p.req false) h hnr p id rest noClP
            ⟨rfl, rfl, rfl, hn.2, rfl, rfl⟩ (fun s _ hd => hn.1 ▸ hd)
  · -- procRemove
    rename_i k rest hpp
    have hnr : ¬ isRec σ.vol.pc := by
      intro hr
      have := h.rp hr
      rw [hpp] at this; simp at this
    unfold tickProcRemove
    apply nd_genP h hnr
    · rfl
    · rfl
    · rfl
    · rfl
    · exact fun _ _ hd => hd
    · intro s hs
      unfold FS at hs ⊢
      simp only [setPpc, removeFile, lookup_erase] at hs
      split at hs
      · simp at hs
      · exact hs
    · exact fun p hp => ⟨p, hp, rfl, rfl⟩
    · rfl
    · intro s _ _ hc
      rw [hpp] at hc
      simp only [cleans] at hc
      subst hc
      right; unfold FS; simp [setPpc, removeFile]
  · exact h


/-! ## acknowledged sessions are sessions the server has a Stop of -/

def AK (σ : State) : Prop := ∀ s, (s ∈ σ.ackedStops ∨ s ∈ σ.dup) → stopIn σ.log s

theorem ak_accept {σ : State} (h : AK σ) (r : Rec) (b : Bool) : AK (accept σ r b) := by
  intro s hs
  have key : (s ∈ σ.ackedStops ∨ s ∈ σ.dup) ∨ (r.kind = .stop ∧ r.sid = s) := by
    rcases hs with h1 | h1
    · simp only [accept] at h1
      split at h1
      · rename_i hc
        simp only [Bool.and_eq_true, beq_iff_eq] at hc
        rcases List.mem_cons.mp h1 with e | e
        · exact Or.inr ⟨hc.2, e.symm⟩
        · exact Or.inl (Or.inl e)
      · exact Or.inl (Or.inl h1)
    · rcases dup_accept_mem h1 with h2 | ⟨h2, h3⟩
      · exact Or.inl (Or.inr h2)
      · exact Or.inl (Or.inl (h2 ▸ h3))
  rcases key with h1 | h1
  · exact stopIn_append _ (h s h1)
  · exact ⟨r, by simp [accept], h1⟩

theorem ak_same {σ σ' : State} (h : AK σ) (h1 : σ'.ackedStops = σ.ackedStops) (h2 : σ'.dup = σ.dup)
    (h3 : ∀ r ∈ σ.log, r ∈ σ'.log) : AK σ' := by
  intro s hs
  rw [h1, h2] at hs
  obtain ⟨r, hr, hk⟩ := h s hs
  exact ⟨r, h3 r hr, hk⟩

/-- the four fields only `accept` writes: the server's log, the acknowledgement flags and the two ghosts derived
    from them -/
def Four (σ : State) : List Rec × List Bool × List Nat × List Nat := (σ.log, σ.logAck, σ.ackedStops, σ.dup)

section FourFields
/-! an invariant over those four fields that `accept` preserves holds after every step -/
variable (P : State → Prop) (hsame : ∀ σ σ' : State, Four σ' = Four σ → P σ → P σ')
  (hacc : ∀ (σ : State) (r : Rec) (b : Bool), P σ → P (accept σ r b))
include hsame hacc

theorem four_send {σ : State} (h : P σ) (r : Rec) (a : Ans) (v : Bool) : P (send σ r a v) := by
  unfold send; split
  · exact hacc _ r true h
  · exact hsame σ _ (by rfl) h
  · exact hsame (accept σ r false) _ (by rfl) (hacc _ r false h)

theorem four_tick {σ : State} (h : P σ) (a : Ans) : P (tick σ a) := by
  unfold tick
  split
  · exact h
  · unfold tickStartSend; split
    · exact hsame σ _ (by rfl) h
    · exact hsame (send σ _ a false) _ (by rfl) (four_send P hsame hacc h _ a false)
  · unfold tickStartPersist persistSession
    split
    · exact hsame σ _ (by rfl) h
    · split <;> exact hsame σ _ (by rfl) h
  · unfold tickStopPersist persistSession; split <;> exact hsame σ _ (by rfl) h
  · unfold tickStopSend; split
    · exact hsame σ _ (by rfl) h
    · exact hsame (send σ _ a false) _ (by rfl) (four_send P hsame hacc h _ a false)
  · exact hsame σ _ (by rfl) h
  · unfold tickStopRemove; split <;> exact hsame σ _ (by rfl) h
  · exact h
  · exact h
  · exact h
  · rename_i k rest _
    unfold tickDrainSend
    split
    · exact hsame σ _ (by rfl) h
    · dsimp only
      have h0 : P (noteOrd σ k) := hsame σ _ (by rfl) h
      split
      · exact hsame (accept (noteOrd σ k) _ true) _ (by rfl) (hacc _ _ true h0)
      · exact hsame σ _ (by rfl) h
      · exact hsame (accept (noteOrd σ k) _ false) _ (by rfl) (hacc _ _ false h0)
  · exact hsame σ _ (by rfl) h
  · unfold tickPersistPending; split
    · exact h
    · exact hsame σ _ (by rfl) h
  · unfold tickRecSend; split
    · exact hsame σ _ (by rfl) h
    · exact hsame (send σ _ a true) _ (by rfl) (four_send P hsame hacc h _ a true)
  · exact hsame σ _ (by rfl) h
  · rename_i recd order _
    unfold tickRecLoad
    split
    · exact hsame σ _ (by rfl) h
    · rename_i ps _
      have sp := loadPending_spec σ recd (recOfIds ps (normalize order (ps.map (·.id))))
      apply hsame σ _ _ h
      unfold Four
      simp only [setPc]
      rw [sp.log, (loadPending_acks σ recd _).2.2, (loadPending_acks σ recd _).1, (loadPending_acks σ recd _).2.1]
  · exact hsame σ _ (by rfl) h

theorem four_procFail {σ : State} (h : P σ) (p : PRec) (id : Nat) (rest : List Nat) : P (procFail σ p id rest) := by
  unfold procFail; split <;> exact hsame σ _ (by rfl) h

theorem four_ptick {σ : State} (h : P σ) (a : Ans) : P (ptick σ a) := by
  unfold ptick
  split
  · rename_i id rest _
    unfold tickProcSend
    split
    · exact hsame σ _ (by rfl) h
    · dsimp only
      have h0 : P (notePOrd σ id) := hsame σ _ (by rfl) h
      split
      · split <;> exact hsame (accept (notePOrd σ id) _ true) _ (by rfl) (hacc _ _ true h0)
      · exact four_procFail P hsame hacc h0 _ _ _
      · exact four_procFail P hsame hacc (hacc _ _ false h0) _ _ _
  · exact hsame σ _ (by rfl) h
  · exact h

theorem four_itick {σ : State} (h : P σ) (a : Ans) : P (itick σ a) := by
  unfold itick
  split
  · rename_i k ident i o _
    have h1 := fun b => hacc σ { kind := .interim, sid := k, ident := ident, cause := 0, inOct := i, outOct := o } b h
    unfold tickIntSend
    dsimp only
    split
    · split
      · exact hsame _ _ (by rfl) (h1 true)
      · exact hsame _ _ (by rfl) (h1 true)
    · exact hsame σ _ (by rfl) h
    · exact hsame _ _ (by rfl) (h1 false)
  · exact h

theorem four_step {σ : State} (h : P σ) (op : Op) : P (step σ op) := by
  by_cases ht : ∃ a, op = .tick a
  · obtain ⟨a, e⟩ := ht; subst e; exact four_tick P hsame hacc h a
  · by_cases hp : ∃ a, op = .ptick a
    · obtain ⟨a, e⟩ := hp; subst e; exact four_ptick P hsame hacc h a
    · by_cases hi : ∃ a, op = .itick a
      · obtain ⟨a, e⟩ := hi; subst e; exact four_itick P hsame hacc h a
      · apply hsame σ _ _ h
        exact step_ghost_simple Four (fun _ _ => rfl) (fun _ _ => rfl) (fun _ _ => rfl) (fun _ _ => rfl) (fun _ _ => rfl) (fun _ _ => rfl)
          (fun _ _ => rfl) (fun _ _ => rfl) (fun _ _ => rfl) (fun _ _ _ => rfl) (fun _ _ => rfl) (fun _ => rfl)
          (fun _ _ => rfl) (fun _ _ _ => rfl) σ op (fun a e => ht ⟨a, e⟩) (fun a e => hp ⟨a, e⟩) (fun a e => hi ⟨a, e⟩)

end FourFields

theorem ak_step {σ : State} (h : AK σ) (op : Op) : AK (step σ op) := by
  apply four_step AK _ (fun σ r b h => ak_accept h r b) h op
  intro σ σ' e h
  unfold Four at e
  simp only [Prod.mk.injEq] at e
  exact ak_same h e.2.2.1 e.2.2.2 (fun r hr => by rw [e.1]; exact hr)

/-! ## calls, crash, restart -/

/-- a process that is down has no call in progress -/
def IdleDown (σ : State) : Prop := σ.up = false → σ.vol.pc = none ∧ σ.vol.ppc = none

theorem tick_up (σ : State) (a : Ans) : (tick σ a).up = σ.up ∨ (tick σ a).vol = {} := by
  unfold tick
  split
  · exact Or.inl rfl
  · left; unfold tickStartSend send; repeat' (first | rfl | split)
  · left; unfold tickStartPersist persistSession; repeat' (first | rfl | split)
  · left; unfold tickStopPersist persistSession; repeat' (first | rfl | split)
  · left; unfold tickStopSend send; repeat' (first | rfl | split)
  · exact Or.inl rfl
  · left; unfold tickStopRemove; repeat' (first | rfl | split)
  · exact Or.inl rfl
  · exact Or.inl rfl
  · exact Or.inl rfl
  · left; unfold tickDrainSend; repeat' (first | rfl | split)
  · exact Or.inl rfl
  · unfold tickPersistPending
    split
    · exact Or.inl rfl
    · exact Or.inr rfl
  · left; unfold tickRecSend send; repeat' (first | rfl | split)
  · exact Or.inl rfl
  · left
    unfold tickRecLoad
    split
    · rfl
    · exact (loadPending_spec _ _ _).up
  · exact Or.inl rfl

theorem idleDown_step {σ : State} (h : IdleDown σ) (op : Op) : IdleDown (step σ op) := by
  cases op with
  | tick a =>
    intro hup
    rcases tick_up σ a with e | e
    · have hpc := h (by rw [← e]; exact hup)
      simp only [step]
      rw [tick_idle a hpc.1]; exact hpc
    · simp only [step]; rw [e]; exact ⟨rfl, rfl⟩
  | ptick a =>
    intro hup
    have e : (ptick σ a).up = σ.up :=
      ptick_ghost State.up (fun _ _ => rfl) (fun _ _ => rfl) (fun _ _ _ => rfl) (fun _ _ => rfl) (fun _ _ => rfl)
        (fun _ _ _ => rfl) σ a
    have hpc := h (by rw [← e]; exact hup)
    simp only [step]
    rw [ptick_idle a hpc.2]; exact hpc
  | itick a =>
    intro hup
    have e : (itick σ a).up = σ.up :=
      itick_ghost State.up (fun _ _ => rfl) (fun _ _ _ => rfl) (fun _ _ _ => rfl) (fun _ _ => rfl) σ a
    have hpc := h (by rw [← e]; exact hup)
    simp only [step]
    rw [itick_pc, itick_ppc]; exact hpc
  | crash => intro _; exact ⟨rfl, rfl⟩
  | crashTorn => intro _; exact ⟨rfl, rfl⟩
  | ctr s i o => exact h
  | restart order =>
    simp only [step]
    split
    · exact h
    · intro hup
      unfold callRestart at hup
      dsimp only at hup
      split at hup <;> simp [setPc, begin] at hup
  | start s ident =>
    simp only [step]
    split
    · exact h
    · rename_i hu
      intro hup
      split at hup
      · simp_all
      · unfold callStart at hup
        split at hup <;> simp_all [setPc, begin]
  | interim s =>
    have keep : ∀ {τ : State}, τ.up = σ.up → τ.vol.pc = σ.vol.pc → τ.vol.ppc = σ.vol.ppc → IdleDown τ := by
      intro τ e1 e2 e3 hup
      rw [e2, e3]; exact h (by rw [← e1]; exact hup)
    simp only [step]
    split
    · exact keep rfl rfl rfl
    · split
      · exact keep rfl rfl rfl
      · unfold callInterim
        split
        · exact keep rfl rfl rfl
        · split
          · exact keep rfl rfl rfl
          · exact keep rfl rfl rfl
  | stop s cause =>
    simp only [step]
    split
    · exact h
    · rename_i hu
      intro hup
      split at hup
      · simp_all
      · unfold callStop at hup
        split at hup <;> simp_all [setPc, begin]
  | deq =>
    simp only [step]
    split
    · exact h
    · rename_i hu
      intro hup
      split at hup
      · simp_all
      · unfold callDeq at hup
        split at hup <;> simp_all [setPpc, pbegin]
  | retry order =>
    simp only [step]
    split
    · exact h
    · rename_i hu
      intro hup
      split at hup
      · simp_all
      · simp_all [callRetry, setPpc, pbegin]
  | shutdown order =>
    simp only [step]
    split
    · exact h
    · rename_i hu
      intro hup
      split at hup
      · simp_all
      · simp_all [callShutdown, setPc, begin]

/-- a session id that was never registered is nowhere -/
theorem nowhere_of_unregistered {σ : State} (hr : Reg σ) (hk : AK σ) {s : Nat} (hs : s ∉ σ.registered.map (·.1)) :
    (¬ ackd σ s ∧ s ∉ σ.dup) ∧ ¬ AS σ s ∧ ¬ FS σ s ∧ ¬ PS σ s ∧ ¬ QS σ s := by
  have key : ∀ i, (s, i) ∉ σ.registered := fun i hm => hs (List.mem_map.mpr ⟨(s, i), hm, rfl⟩)
  have nolog : ¬ stopIn σ.log s := by
    rintro ⟨r, hr', _, e⟩
    have := hr.log r hr'
    rw [e] at this; exact key _ this
  refine ⟨⟨fun ha => nolog (hk s (Or.inl ha)), fun hd => nolog (hk s (Or.inr hd))⟩, ?_, ?_, ?_, ?_⟩
  · intro ha
    unfold AS at ha
    cases hl : lookup σ.vol.sessions s with
    | none => rw [hl] at ha; simp at ha
    | some x => exact key _ (hr.sess s x hl)
  · intro ha
    unfold FS at ha
    cases hl : lookup σ.dur.files s with
    | none => rw [hl] at ha; simp at ha
    | some x => exact key _ (hr.files s x hl)
  · rintro ⟨p, hp, _, e⟩
    have := hr.pend p hp
    rw [e] at this; exact key _ this
  · rintro ⟨ps, hps, p, hp, _, e⟩
    have := hr.pfile ps hps p hp
    rw [e] at this; exact key _ this

theorem nds_of_nowhere {σ : State} {s : Nat}
    (h : (¬ ackd σ s ∧ s ∉ σ.dup) ∧ ¬ AS σ s ∧ ¬ FS σ s ∧ ¬ PS σ s ∧ ¬ QS σ s) : NDs σ s := by
  obtain ⟨⟨h1, h0⟩, h2, h3, h4, h5⟩ := h
  refine ⟨h0, ?_, ?_, ?_, ?_, ?_, ?_, ?_, ?_, ?_⟩
  · intro p hp _ _ hst _; exact absurd ⟨p, hp, hst⟩ h4
  · intro ps hps p hp _ _ hst _; exact absurd ⟨ps, hps, p, hp, hst⟩ h5
  · exact fun hl => absurd hl h1
  · exact fun hl => absurd hl h1
  · exact fun hl => absurd hl h1
  · exact fun hl => absurd hl h1
  · exact fun hp => absurd hp h4
  · exact fun hp => absurd hp h4
  · exact fun ha => absurd ha h2

theorem nd_init (c : Cfg) : ND (init c) := by
  refine ⟨?_, by simp [init, isRec], by simp [init, recInfo], by simp [init, pendingDrain], by simp [init]⟩
  intro s _
  apply nds_of_nowhere
  refine ⟨⟨by simp [ackd, init], by simp [init]⟩, ?_, ?_, ?_, ?_⟩
  · simp [AS, init]
  · simp [FS, init]
  · rintro ⟨p, hp, _⟩; simp [init] at hp
  · rintro ⟨ps, hps, _⟩; simp [init] at hps

/-- steps that change only bookkeeping fields -/
theorem nd_same {σ σ' : State} (h : ND σ) (ht : σ'.tainted = σ.tainted) (hl : σ'.ackedStops = σ.ackedStops)
    (hdup : σ'.dup = σ.dup) (hv : σ'.vol = σ.vol) (hd : σ'.dur = σ.dur) : ND σ' := by
  apply nd_sub h (by rw [hv]) ht hl (fun s _ hs => by rw [hdup] at hs; exact hs)
    (fun s hs => by unfold AS at hs ⊢; rw [hv] at hs; exact hs)
    (fun s hs => by unfold FS at hs ⊢; rw [hd] at hs; exact hs)
    (fun p hp => by rw [hv] at hp; exact Or.inl ⟨p, hp, rfl, rfl⟩)
    (Or.inl (by rw [hd]))
  · intro s _ _ hc; rw [hv]; exact Or.inl hc
  · intro s hc; rw [hv]; exact Or.inl hc
  · intro s hc; rw [hv]; exact Or.inl hc
  · rw [hv]; exact h.r1
  · intro recd cur hr
    rw [hv] at hr
    obtain ⟨a1, a2⟩ := h.r2 recd cur hr
    refine ⟨fun x hx hf => a1 x hx (by unfold FS at hf ⊢; rw [hd] at hf; exact hf), ?_⟩
    rw [hv]; exact a2
  · rw [hv]; exact h.dr
  · rw [hv]; exact id


theorem pc_none_of_not_isSome {σ : State} (h : ¬ σ.vol.pc.isSome = true) : σ.vol.pc = none := by
  cases e : σ.vol.pc with
  | none => rfl
  | some f => rw [e] at h; simp at h

theorem nd_crash {σ : State} (hr : Reg σ) (hk : AK σ) : ND (crash σ) := by
  refine ⟨?_, by simp [crash, isRec], by simp [crash, recInfo], by simp [crash, pendingDrain], by simp [crash]⟩
  intro s hs
  have hs' : s ∉ σ.registered.map (·.1) := by
    intro hm; apply hs
    simp only [crash, List.mem_append]
    exact Or.inl hm
  obtain ⟨h1, _, h3, _, h5⟩ := nowhere_of_unregistered hr hk hs'
  apply nds_of_nowhere
  refine ⟨h1, ?_, h3, ?_, h5⟩
  · simp [AS, crash]
  · rintro ⟨p, hp, _⟩; simp [crash] at hp

theorem ak_torn {σ : State} (h : AK σ) : AK (tornEffect σ) := by
  unfold tornEffect
  split
  · split
    · exact ak_same h rfl rfl (fun _ hr => hr)
    · exact h
  · split
    · exact ak_same h rfl rfl (fun _ hr => hr)
    · exact h
  · exact h

theorem nd_step {σ : State} (h : ND σ) (hr : Reg σ) (hk : AK σ) (hi : IdleDown σ) (op : Op)
    (hfresh : ((step σ op).registered.map (·.1)).Nodup) : ND (step σ op) := by
  cases op with
  | tick a => exact nd_tick h a
  | ptick a => exact nd_ptick h a
  | itick a => exact nd_itick h a
  | ctr s i o => exact nd_same h rfl rfl rfl rfl rfl
  | crash => exact nd_crash hr hk
  | crashTorn => exact nd_crash (reg_torn hr) (ak_torn hk)
  | restart order =>
    simp only [step]
    split
    · exact nd_same h rfl rfl rfl rfl rfl
    · rename_i hup
      have hpc : σ.vol.pc = none := (hi (by simpa using hup)).1
      have hppc : σ.vol.ppc = none := (hi (by simpa using hup)).2
      have hne : noExcuse σ.vol.pc := by rw [hpc]; exact noExcuse_none
      have noCl : ∀ s, ¬ cl σ s := by
        intro s hc
        rcases hc with h1 | h1
        · exact hne.1 s h1
        · rw [hppc] at h1; simp [cleans] at h1
      unfold callRestart
      dsimp only
      split
      · apply nd_gen h
        · rfl
        · rfl
        · exact fun _ _ hd => hd
        · intro s _ hs; simp [AS, setPc, begin] at hs
        · exact fun s _ hs => Or.inl hs
        · intro p hp; simp [setPc, begin] at hp
        · intro s _ _ p hp; simp [setPc, begin] at hp
        · exact fun ps' hps' => Or.inl hps'
        · intro s _ _ hc; exact absurd hc (noCl s)
        · intro s hc; exact absurd hc (hne.2.1 s)
        · intro s hc; exact absurd hc (hne.2.2 s)
        · intro _; rfl
        · intro recd cur hr'
          simp only [setPc] at hr'
          rw [recInfo_nextRec] at hr'
          simp only [Option.some.injEq, Prod.mk.injEq] at hr'
          obtain ⟨e1, e2⟩ := hr'
          subst e1; subst e2
          refine ⟨by simp, ?_⟩
          intro p hp; simp [setPc, begin] at hp
        · intro l hl; simp only [setPc] at hl; rw [pendingDrain_nextRec] at hl; simp at hl
        · intro _; rfl
      · apply nd_gen h
        · rfl
        · rfl
        · exact fun _ _ hd => hd
        · intro s _ hs; simp [AS, begin] at hs
        · exact fun s _ hs => Or.inl hs
        · intro p hp; simp [begin] at hp
        · intro s _ _ p hp; simp [begin] at hp
        · exact fun ps' hps' => Or.inl hps'
        · intro s _ _ hc; exact absurd hc (noCl s)
        · intro s hc; exact absurd hc (hne.2.1 s)
        · intro s hc; exact absurd hc (hne.2.2 s)
        · intro hr'; simp [begin, isRec] at hr'
        · intro recd cur hr'; simp [begin, recInfo] at hr'
        · intro l hl; simp [begin, pendingDrain] at hl
        · intro _; rfl
  | start s ident =>
    simp only [step] at hfresh ⊢
    split
    · exact nd_same h rfl rfl rfl rfl rfl
    · split
      · exact nd_same h rfl rfl rfl rfl rfl
      · rename_i hup hbusy
        have hpc : σ.vol.pc = none := pc_none_of_not_isSome hbusy
        have hne : noExcuse σ.vol.pc := by rw [hpc]; exact noExcuse_none
        rw [if_neg hup, if_neg hbusy] at hfresh
        unfold callStart at hfresh ⊢
        split
        · exact nd_same h rfl rfl rfl rfl rfl
        · rename_i hnew
          rw [if_neg hnew] at hfresh
          have hs' : s ∉ σ.registered.map (·.1) := by
            simp only [setPc, begin, List.map_cons, List.nodup_cons] at hfresh
            exact hfresh.1
          obtain ⟨n1, _, _, n4, n5⟩ := nowhere_of_unregistered hr hk hs'
          apply nd_plain h hne
          · exact quiet_startSend s
          · rfl
          · rfl
          · rfl
          · exact fun _ _ hd => hd
          · intro k _ hk'
            unfold AS at hk'
            simp only [setPc, begin, lookup_insert] at hk'
            split at hk'
            · rename_i e; subst e
              exact Or.inr ⟨n1.1, n4, n5⟩
            · exact Or.inl hk'
          · exact fun k _ hk' => Or.inl hk'
          · intro p hp; exact Or.inl ⟨p, hp, rfl, rfl⟩
          · intro k _ hps p hp q _ h1 _; exact absurd ⟨p, hp, h1⟩ hps
          · rfl
  | interim s =>
    simp only [step]
    split
    · exact nd_same h rfl rfl rfl rfl rfl
    · split
      · exact nd_same h rfl rfl rfl rfl rfl
      · unfold callInterim
        split
        · exact nd_same h rfl rfl rfl rfl rfl
        · split
          · exact nd_same h rfl rfl rfl rfl rfl
          · apply nd_keep h
            · rfl
            · rfl
            · rfl
            · rfl
            · rfl
            · exact fun s hs => hs
            · exact fun e => e
            · rfl
            · exact fun p hp => Or.inl hp
            · rfl
  | stop s cause =>
    simp only [step]
    split
    · exact nd_same h rfl rfl rfl rfl rfl
    · split
      · exact nd_same h rfl rfl rfl rfl rfl
      · rename_i hup hbusy
        have hpc : σ.vol.pc = none := pc_none_of_not_isSome hbusy
        have hne : noExcuse σ.vol.pc := by rw [hpc]; exact noExcuse_none
        unfold callStop
        split
        · exact nd_same h rfl rfl rfl rfl rfl
        · rename_i x hx
          apply nd_sub_plain h hne
          · exact quiet_stopPersist s
          · rfl
          · rfl
          · rfl
          · exact fun _ _ hd => hd
          · intro k hk'
            unfold AS at hk' ⊢
            simp only [setPc, begin, lookup_insert] at hk'
            split at hk'
            · rename_i e; subst e; rw [hx]; rfl
            · exact hk'
          · exact fun k hk' => hk'
          · intro p hp; exact Or.inl ⟨p, hp, rfl, rfl⟩
          · exact Or.inl rfl
  | deq =>
    simp only [step]
    split
    · exact nd_same h rfl rfl rfl rfl rfl
    · rename_i hal
      split
      · exact nd_same h rfl rfl rfl rfl rfl
      · rename_i hbusy
        have hnr : ¬ isRec σ.vol.pc := by
          intro hr'
          apply hal
          cases hpc : σ.vol.pc with
          | none => rw [hpc] at hr'; exact absurd hr' (by simp [isRec])
          | some f => rw [hpc] at hr'; cases f <;> simp_all [isRec, procAlive]
        have hppc : σ.vol.ppc = none := by
          cases e : σ.vol.ppc with
          | none => rfl
          | some f => rw [e] at hbusy; simp at hbusy
        unfold callDeq
        split
        · exact nd_same h rfl rfl rfl rfl rfl
        · apply nd_genP h hnr
          · rfl
          · rfl
          · rfl
          · rfl
          · exact fun _ _ hd => hd
          · exact fun s hs => hs
          · exact fun p hp => ⟨p, hp, rfl, rfl⟩
          · rfl
          · intro s _ _ hc; rw [hppc] at hc; simp [cleans] at hc
  | retry order =>
    simp only [step]
    split
    · exact nd_same h rfl rfl rfl rfl rfl
    · rename_i hal
      split
      · exact nd_same h rfl rfl rfl rfl rfl
      · rename_i hbusy
        have hnr : ¬ isRec σ.vol.pc := by
          intro hr'
          apply hal
          cases hpc : σ.vol.pc with
          | none => rw [hpc] at hr'; exact absurd hr' (by simp [isRec])
          | some f => rw [hpc] at hr'; cases f <;> simp_all [isRec, procAlive]
        have hppc : σ.vol.ppc = none := by
          cases e : σ.vol.ppc with
          | none => rfl
          | some f => rw [e] at hbusy; simp at hbusy
        unfold callRetry
        apply nd_genP h hnr
        · rfl
        · rfl
        · rfl
        · rfl
        · exact fun _ _ hd => hd
        · exact fun s hs => hs
        · exact fun p hp => ⟨p, hp, rfl, rfl⟩
        · rfl
        · intro s _ _ hc; rw [hppc] at hc; simp [cleans] at hc
  | shutdown order =>
    simp only [step]
    split
    · exact nd_same h rfl rfl rfl rfl rfl
    · split
      · exact nd_same h rfl rfl rfl rfl rfl
      · rename_i hup hbusy
        have hpc : σ.vol.pc = none := pc_none_of_not_isSome hbusy
        have hne : noExcuse σ.vol.pc := by rw [hpc]; exact noExcuse_none
        unfold callShutdown
        apply nd_sub h
        · rfl
        · rfl
        · rfl
        · exact fun _ _ hd => hd
        · exact fun k hk' => hk'
        · exact fun k hk' => hk'
        · intro p hp; exact Or.inl ⟨p, hp, rfl, rfl⟩
        · exact Or.inl rfl
        · intro k _ _ hc; exact absurd hc (hne.1 k)
        · intro k hc; exact absurd hc (hne.2.1 k)
        · intro k hc; exact absurd hc (hne.2.2 k)
        · intro hr'; exact absurd hr' (isRec_nextDrain _)
        · intro recd cur hr'
          simp only [setPc, begin] at hr'
          rw [recInfo_nextDrain] at hr'; simp at hr'
        · intro l hl
          simp only [setPc, begin] at hl
          rw [pendingDrain_nextDrain] at hl
          simp only [Option.some.injEq] at hl
          subst hl
          exact nodup_normalize _ _
        · intro hr'; exact absurd hr' (isRec_nextDrain _)


theorem registered_step_eq (σ : State) (op : Op) :
    (step σ op).registered = σ.registered ∨ ∃ x, (step σ op).registered = x :: σ.registered := by
  by_cases hs : ∃ s i, op = .start s i
  · obtain ⟨s, i, e⟩ := hs
    subst e
    simp only [step]
    split
    · exact Or.inl rfl
    · split
      · exact Or.inl rfl
      · unfold callStart
        split
        · exact Or.inl rfl
        · exact Or.inr ⟨(s, i), rfl⟩
  · left
    by_cases ht : ∃ a, op = .tick a
    · obtain ⟨a, e⟩ := ht; subst e; exact tick_registered σ a
    · by_cases hp : ∃ a, op = .ptick a
      · obtain ⟨a, e⟩ := hp; subst e; exact ptick_registered σ a
      · cases op with
        | start s i => exact absurd ⟨s, i, rfl⟩ hs
        | tick a => exact absurd ⟨a, rfl⟩ ht
        | ptick a => exact absurd ⟨a, rfl⟩ hp
        | itick a => exact itick_registered σ a
        | crash => rfl
        | crashTorn => exact tornEffect_registered σ
        | ctr s i o => rfl
        | restart order =>
          simp only [step]
          split
          · rfl
          · unfold callRestart; dsimp only; split <;> rfl
        | interim s =>
          simp only [step]
          split
          · rfl
          · split
            · rfl
            · unfold callInterim
              split
              · rfl
              · split <;> rfl
        | stop s cause =>
          simp only [step]
          split
          · rfl
          · split
            · rfl
            · unfold callStop
              split <;> rfl
        | deq =>
          simp only [step]
          split
          · rfl
          · split
            · rfl
            · unfold callDeq
              split <;> rfl
        | retry order =>
          simp only [step]
          split
          · rfl
          · split <;> rfl
        | shutdown order =>
          simp only [step]
          split
          · rfl
          · split <;> rfl

theorem fresh_of_step {σ : State} {op : Op} (h : ((step σ op).registered.map (·.1)).Nodup) :
    (σ.registered.map (·.1)).Nodup := by
  rcases registered_step_eq σ op with e | ⟨x, e⟩
  · rw [e] at h; exact h
  · rw [e] at h
    simp only [List.map_cons, List.nodup_cons] at h
    exact h.2

theorem fresh_of_run {σ : State} {ops : List Op} (h : ((run σ ops).registered.map (·.1)).Nodup) :
    (σ.registered.map (·.1)).Nodup := by
  induction ops generalizing σ with
  | nil => exact h
  | cons op ops ih => exact fresh_of_step (ih h)

theorem nd_run {σ : State} (h : ND σ) (hr : Reg σ) (hk : AK σ) (hi : IdleDown σ) (ops : List Op)
    (hfresh : ((run σ ops).registered.map (·.1)).Nodup) : ND (run σ ops) := by
  induction ops generalizing σ with
  | nil => exact h
  | cons op ops ih =>
    exact ih (nd_step h hr hk hi op (fresh_of_run hfresh)) (reg_step hr op) (ak_step hk op)
      (idleDown_step hi op) hfresh

/-- `tainted` grows only at a crash, by the sessions registered so far -/
theorem tainted_step (σ : State) (op : Op) (s : Nat) (h : s ∈ (step σ op).tainted) :
    s ∈ σ.tainted ∨ ((op = .crash ∨ op = .crashTorn) ∧ s ∈ σ.registered.map (·.1)) := by
  by_cases hc : op = .crash
  · subst hc
    simp only [step, crash, List.mem_append] at h
    rcases h with h | h
    · exact Or.inr ⟨Or.inl rfl, h⟩
    · exact Or.inl h
  · by_cases hc2 : op = .crashTorn
    · subst hc2
      simp only [step, crash, List.mem_append] at h
      rcases h with h | h
      · rw [tornEffect_registered] at h; exact Or.inr ⟨Or.inr rfl, h⟩
      · left
        rw [tornEffect_eq σ State.tainted (fun _ _ => rfl)] at h; exact h
    · left
      by_cases ht : ∃ a, op = .tick a
      · obtain ⟨a, e⟩ := ht
        subst e
        simp only [step] at h
        unfold tick at h
        split at h
        · exact h
        · unfold tickStartSend send at h; revert h; repeat' (first | exact id | split)
        · unfold tickStartPersist persistSession at h; revert h; repeat' (first | exact id | split)
        · unfold tickStopPersist persistSession at h; revert h; repeat' (first | exact id | split)
        · unfold tickStopSend send at h; revert h; repeat' (first | exact id | split)
        · exact h
        · unfold tickStopRemove at h; revert h; repeat' (first | exact id | split)
        · exact h
        · exact h
        · exact h
        · unfold tickDrainSend at h; revert h; repeat' (first | exact id | split)
        · exact h
        · unfold tickPersistPending at h; revert h; repeat' (first | exact id | split)
        · unfold tickRecSend send at h; revert h; repeat' (first | exact id | split)
        · exact h
        · unfold tickRecLoad at h
          split at h
          · exact h
          · simp only [setPc] at h
            rw [(loadPending_spec _ _ _).tainted] at h; exact h
        · exact h
      · by_cases hp : ∃ a, op = .ptick a
        · obtain ⟨a, e⟩ := hp
          subst e
          simp only [step] at h
          rw [ptick_ghost State.tainted (fun _ _ => rfl) (fun _ _ => rfl) (fun _ _ _ => rfl) (fun _ _ => rfl)
            (fun _ _ => rfl) (fun _ _ _ => rfl) σ a] at h
          exact h
        · have e : (step σ op).tainted = σ.tainted := by
            cases op with
            | crash => exact absurd rfl hc
            | crashTorn => exact absurd rfl hc2
            | tick a => exact absurd ⟨a, rfl⟩ ht
            | ptick a => exact absurd ⟨a, rfl⟩ hp
            | itick a =>
              exact itick_ghost State.tainted (fun _ _ => rfl) (fun _ _ _ => rfl) (fun _ _ _ => rfl) (fun _ _ => rfl) σ a
            | ctr s i o => rfl
            | restart order =>
              simp only [step]
              split
              · rfl
              · unfold callRestart; dsimp only; split <;> rfl
            | start s ident =>
              simp only [step]
              split
              · rfl
              · split
                · rfl
                · unfold callStart
                  split <;> rfl
            | interim s =>
              simp only [step]
              split
              · rfl
              · split
                · rfl
                · unfold callInterim
                  split
                  · rfl
                  · split <;> rfl
            | stop s cause =>
              simp only [step]
              split
              · rfl
              · split
                · rfl
                · unfold callStop
                  split <;> rfl
            | deq =>
              simp only [step]
              split
              · rfl
              · split
                · rfl
                · unfold callDeq
                  split <;> rfl
            | retry order =>
              simp only [step]
              split
              · rfl
              · split <;> rfl
            | shutdown order =>
              simp only [step]
              split
              · rfl
              · split <;> rfl
          rw [e] at h; exact h

theorem tainted_empty_run (σ : State) (ops : List Op) (hnc : Op.crash ∉ ops) (hnc2 : Op.crashTorn ∉ ops)
    (h0 : σ.tainted = []) : (run σ ops).tainted = [] := by
  induction ops generalizing σ with
  | nil => exact h0
  | cons op ops ih =>
    apply ih _ (fun hm => hnc (List.mem_cons_of_mem _ hm)) (fun hm => hnc2 (List.mem_cons_of_mem _ hm))
    apply List.eq_nil_iff_forall_not_mem.mpr
    intro x hx
    rcases tainted_step σ op x hx with h1 | ⟨h1 | h1, _⟩
    · rw [h0] at h1; simp at h1
    · exact hnc (by rw [h1]; exact List.mem_cons_self)
    · exact hnc2 (by rw [h1]; exact List.mem_cons_self)


/-! ## what `dup` means, in terms of the server's log -/

/-- `ackedStops` holds the sessions of the acknowledged Stops of the log; `dup` holds every session that has an
    acknowledged Stop FOLLOWED by another accepted Stop -/
structure LD (σ : State) : Prop where
  len : σ.logAck.length = σ.log.length
  ack : ∀ (i : Nat) (r : Rec), σ.log[i]? = some r → σ.logAck[i]? = some true → r.kind = .stop → r.sid ∈ σ.ackedStops
  dup : ∀ (i j : Nat) (ri rj : Rec), i < j → σ.log[i]? = some ri → σ.logAck[i]? = some true → σ.log[j]? = some rj →
    ri.kind = .stop → rj.kind = .stop → ri.sid = rj.sid → ri.sid ∈ σ.dup

theorem getElem?_snoc {α : Type} (l : List α) (x : α) (i : Nat) {y : α} (h : (l ++ [x])[i]? = some y) :
    (i < l.length ∧ l[i]? = some y) ∨ (i = l.length ∧ y = x) := by
  by_cases hi : i < l.length
  · left
    rw [List.getElem?_append_left hi] at h
    exact ⟨hi, h⟩
  · right
    rw [List.getElem?_append_right (by omega)] at h
    have : i - l.length = 0 := by
      by_cases e : i - l.length = 0
      · exact e
      · have : ([x] : List α)[i - l.length]? = none := by
          apply List.getElem?_eq_none; simp; omega
        rw [this] at h; simp at h
    rw [this] at h
    simp at h
    exact ⟨by omega, h.symm⟩

theorem ld_accept {σ : State} (h : LD σ) (r : Rec) (b : Bool) : LD (accept σ r b) := by
  have hsubA : ∀ s, s ∈ σ.ackedStops → s ∈ (accept σ r b).ackedStops := by
    intro s hs; simp only [accept]; split
    · exact List.mem_cons_of_mem _ hs
    · exact hs
  have hsubD : ∀ s, s ∈ σ.dup → s ∈ (accept σ r b).dup := by
    intro s hs; simp only [accept]; split
    · exact List.mem_cons_of_mem _ hs
    · exact hs
  refine ⟨?_, ?_, ?_⟩
  · simp [accept, h.len]
  · intro i r' hl ha hk
    have hl' : (σ.log ++ [r])[i]? = some r' := hl
    have ha' : (σ.logAck ++ [b])[i]? = some true := ha
    rcases getElem?_snoc _ _ _ hl' with ⟨hi, e⟩ | ⟨hi, e⟩
    · rcases getElem?_snoc _ _ _ ha' with ⟨_, e2⟩ | ⟨hi2, _⟩
      · exact hsubA _ (h.ack i r' e e2 hk)
      · rw [h.len] at hi2; omega
    · rcases getElem?_snoc _ _ _ ha' with ⟨hi2, _⟩ | ⟨_, e2⟩
      · rw [h.len] at hi2; omega
      · subst e
        simp [accept, ← e2, hk]
  · intro i j ri rj hij hli hai hlj hki hkj hs
    have hli' : (σ.log ++ [r])[i]? = some ri := hli
    have hai' : (σ.logAck ++ [b])[i]? = some true := hai
    have hlj' : (σ.log ++ [r])[j]? = some rj := hlj
    rcases getElem?_snoc _ _ _ hlj' with ⟨hj, ej⟩ | ⟨hj, ej⟩
    · -- both inside the old log
      have hi : i < σ.log.length := by omega
      rw [List.getElem?_append_left hi] at hli'
      rw [List.getElem?_append_left (by rw [h.len]; exact hi)] at hai'
      exact hsubD _ (h.dup i j ri rj hij hli' hai' ej hki hkj hs)
    · -- the new record is the later one
      have hi : i < σ.log.length := by omega
      rw [List.getElem?_append_left hi] at hli'
      rw [List.getElem?_append_left (by rw [h.len]; exact hi)] at hai'
      have hin := h.ack i ri hli' hai' hki
      subst ej
      rw [hs] at hin ⊢
      simp [accept, hkj, hin]

theorem ld_init (c : Cfg) : LD (init c) := by
  refine ⟨rfl, ?_, ?_⟩
  · intro i r hl; simp [init] at hl
  · intro i j ri rj _ hl; simp [init] at hl

theorem ld_step {σ : State} (h : LD σ) (op : Op) : LD (step σ op) := by
  apply four_step LD _ (fun σ r b h => ld_accept h r b) h op
  intro σ σ' e h
  unfold Four at e
  simp only [Prod.mk.injEq] at e
  obtain ⟨e1, e2, e3, e4⟩ := e
  exact ⟨by rw [e1, e2]; exact h.len, by rw [e1, e2, e3]; exact h.ack, by rw [e1, e2, e4]; exact h.dup⟩

theorem ld_run (c : Cfg) (ops : List Op) : LD (run (init c) ops) := by
  suffices H : ∀ σ, LD σ → LD (run σ ops) from H _ (ld_init c)
  induction ops with
  | nil => exact fun σ h => h
  | cons op ops ih => exact fun σ h => ih _ (ld_step h op)

end Bng.Acct
